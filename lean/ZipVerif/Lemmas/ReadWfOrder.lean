import ZipVerif.Lemmas.ReadEntry
import ZipVerif.Lemmas.CentralParseG
/-
`ZipArchive::new` and the entry readers on generalised layouts (`Spec.Zip.LayoutG`, finding F7): a central
directory that lists the entries in another order than their local records lie in the file, end-record
fields that keep the real values next to forced ZIP64 records, an extensible data sector in the ZIP64 end
record, bytes between the directory and the ZIP64 end record.  The proofs follow `Lemmas/ReadWf.lean`; the
record-level lemmas (`parses_centralHeader`, `runs_findAndParseEocd`, `runs_getDirectoryCounts_*`) are shared.
-/

namespace ZipVerif.Spec.Zip
open ZipVerif

/-! ### where the records of `buildG g` lie -/

theorem eocdG_length (g : LayoutG) : g.eocd.length = 22 + g.base.comment.length := by
  simp [LayoutG.eocd]; omega

theorem buildG_length (g : LayoutG) :
    (buildG g).length = g.eocdPos + 22 + g.base.comment.length + g.base.trailing.length := by
  simp only [buildG, List.length_append, eocdG_length, LayoutG.eocdPos, LayoutG.cdStart, Layout.cdStart,
    Layout.cdOffset, LayoutG.cdSize]
  omega

theorem drop_cdStartG (g : LayoutG) :
    (buildG g).drop g.cdStart = g.cdBytes ++ (g.gap ++ (g.end64 ++ (g.eocd ++ g.base.trailing))) := by
  have : buildG g = (g.base.pre ++ localsBytes g.base.entries ++ g.base.gapBeforeCd) ++
      (g.cdBytes ++ (g.gap ++ (g.end64 ++ (g.eocd ++ g.base.trailing)))) := by simp [buildG]
  rw [this]
  exact drop_append_len (by simp [LayoutG.cdStart, Layout.cdStart, Layout.cdOffset])

theorem drop_end64PosG (g : LayoutG) :
    (buildG g).drop g.end64Pos = g.end64 ++ (g.eocd ++ g.base.trailing) := by
  have : buildG g = (g.base.pre ++ localsBytes g.base.entries ++ g.base.gapBeforeCd ++ g.cdBytes ++ g.gap) ++
      (g.end64 ++ (g.eocd ++ g.base.trailing)) := by simp [buildG]
  rw [this]
  exact drop_append_len (by
    simp [LayoutG.end64Pos, LayoutG.cdStart, Layout.cdStart, Layout.cdOffset, LayoutG.cdSize]; omega)

theorem drop_eocdPosG (g : LayoutG) : (buildG g).drop g.eocdPos = g.eocd ++ g.base.trailing := by
  have : buildG g = (g.base.pre ++ localsBytes g.base.entries ++ g.base.gapBeforeCd ++ g.cdBytes ++ g.gap ++
      g.end64) ++ (g.eocd ++ g.base.trailing) := by simp [buildG]
  rw [this]
  exact drop_append_len (by
    simp [LayoutG.eocdPos, LayoutG.cdStart, Layout.cdStart, Layout.cdOffset, LayoutG.cdSize]; omega)

/-- the bytes at the local header of the entry that follows `es1` (the local part of `buildG` is `build`'s) -/
theorem drop_localG (g : LayoutG) (es1 es2 : List Entry) (e : Entry) (h : g.base.entries = es1 ++ e :: es2) :
    ∃ rest, (buildG g).drop (g.base.pre.length + (localsBytes es1).length + e.gapBefore.length) =
      localRecord e ++ (e.data ++ rest) := by
  refine ⟨descriptor e ++ (localsBytes es2 ++ (g.base.gapBeforeCd ++ (g.cdBytes ++ (g.gap ++ (g.end64 ++
    (g.eocd ++ g.base.trailing)))))), ?_⟩
  have : buildG g = (g.base.pre ++ localsBytes es1 ++ e.gapBefore) ++ (localRecord e ++ (e.data ++
      (descriptor e ++ (localsBytes es2 ++ (g.base.gapBeforeCd ++ (g.cdBytes ++ (g.gap ++ (g.end64 ++
        (g.eocd ++ g.base.trailing))))))))) := by
    simp [buildG, h, localsBytes_append, localsBytes_cons, Entry.localBytes]
  rw [this]
  exact drop_append_len (by simp; omega)

/-- element `i` of the placed list: the entry that follows some `es1`, at the offset `es1` occupies -/
theorem placed_getElem : ∀ (es : List Entry) (loc i : Nat) (p : Entry × Nat), (placed es loc)[i]? = some p →
    ∃ es1 es2, es = es1 ++ p.1 :: es2 ∧ es1.length = i ∧
      p.2 = loc + (localsBytes es1).length + p.1.gapBefore.length := by
  intro es
  induction es with
  | nil => intro loc i p h; simp [placed] at h
  | cons e es ih =>
    intro loc i p h
    cases i with
    | zero =>
      simp only [placed, List.getElem?_cons_zero, Option.some.injEq] at h
      subst h
      exact ⟨[], es, rfl, rfl, by simp [localsBytes]⟩
    | succ i =>
      simp only [placed, List.getElem?_cons_succ] at h
      obtain ⟨es1, es2, h1, h2, h3⟩ := ih _ i p h
      refine ⟨e :: es1, es2, by rw [h1]; rfl, by simp [h2], ?_⟩
      rw [h3, localsBytes_cons, List.length_append]; omega

theorem placed_length : ∀ (es : List Entry) (loc : Nat), (placed es loc).length = es.length := by
  intro es
  induction es with
  | nil => intro _; rfl
  | cons e es ih => intro loc; simp [placed, ih]

/-- every element of the directory's list is an entry of the layout, with the offset of its local header -/
theorem mem_cdList (g : LayoutG) (p : Listed) (h : p ∈ g.cdList) :
    ∃ es1 es2, g.base.entries = es1 ++ p.1.1 :: es2 ∧
      p.1.2 = (localsBytes es1).length + p.1.1.gapBefore.length := by
  simp only [LayoutG.cdList, List.mem_filterMap, Option.map_eq_some_iff] at h
  obtain ⟨i, _, q, hi, hq⟩ := h
  subst hq
  obtain ⟨es1, es2, h1, _, h3⟩ := placed_getElem g.base.entries 0 i q hi
  refine ⟨es1, es2, h1, ?_⟩
  show q.2 = (localsBytes es1).length + q.1.gapBefore.length
  omega

theorem viewListP_length (pre : Nat) : ∀ (ps : List Listed) (chs : Nat),
    (viewListP pre ps chs).length = ps.length := by
  intro ps
  induction ps with
  | nil => intro _; rfl
  | cons p ps ih => intro chs; simp [viewListP, ih]

/-- element `i` of the reported list is the view of element `i` of the directory's list -/
theorem viewListP_getElem (pre : Nat) : ∀ (ps : List Listed) (chs i : Nat) (p : Listed),
    ps[i]? = some p → ∃ c, (viewListP pre ps chs)[i]? = some (viewEntryG p.1.1 p.1.2 pre c p.2) := by
  intro ps
  induction ps with
  | nil => intro chs i p h; simp at h
  | cons q ps ih =>
    intro chs i p h
    cases i with
    | zero =>
      simp only [List.getElem?_cons_zero, Option.some.injEq] at h
      subst h
      exact ⟨chs, by simp [viewListP]⟩
    | succ i =>
      simp only [List.getElem?_cons_succ] at h
      obtain ⟨c, hc⟩ := ih (chs + (centralRecordG q.1.1 (UInt64.ofNat q.1.2) q.2).length) i p h
      exact ⟨c, by simpa [viewListP] using hc⟩

theorem centralRecordG_length_pos (e : Entry) (off : UInt64) (pl : Z64Place) :
    1 ≤ (centralRecordG e off pl).length := by
  unfold centralRecordG; simp; omega

theorem length_le_centralBytesP : ∀ ps : List Listed, ps.length ≤ (centralBytesP ps).length := by
  intro ps
  induction ps with
  | nil => simp [centralBytesP]
  | cons p ps ih =>
    have := centralRecordG_length_pos p.1.1 (UInt64.ofNat p.1.2) p.2
    simp only [centralBytesP, List.length_append, List.length_cons]; omega

end ZipVerif.Spec.Zip

namespace ZipVerif.Model
open ZipVerif ZipVerif.Spec.Zip

/-! ### the central-directory loop over an arbitrary list of placed entries -/

theorem parses_centralLoopP (ao : Nat) : ∀ (ps : List Listed) (chs : Nat),
    (∀ p ∈ ps, p.1.1.Fits ∧ p.1.1.Readable ∧ p.1.2 + ao < 2 ^ 64 ∧
      (p.1.1.centralExtraAllG (UInt64.ofNat p.1.2) p.2).length ≤ 0xFFFF) →
    Parses (readCentralLoop ao ps.length) chs (centralBytesP ps) (viewListP ao ps chs) := by
  intro ps
  induction ps with
  | nil => intro chs _; exact Parses.pure _
  | cons p ps ih =>
    intro chs hall
    have hp := hall p (List.mem_cons_self)
    show Parses (readCentralLoop ao (ps.length + 1)) chs
      (centralRecordG p.1.1 (UInt64.ofNat p.1.2) p.2 ++ centralBytesP ps) _
    unfold readCentralLoop
    refine Parses.bind (parses_centralHeaderG p.1.1 p.1.2 ao chs p.2 hp.1 hp.2.1.1 hp.2.1.2 hp.2.2.1 hp.2.2.2) ?_
    refine Parses.bind_last (ih _ (fun x hx => hall x (List.mem_cons_of_mem _ hx))) ?_
    exact Parses.pure _

/-! ### `ZipArchive::new` -/

/-- the end record a parser must recover from `g.eocd` -/
def eocdOfG (g : LayoutG) : Eocd :=
  let f := g.base.zip64End && g.eocdSaturate
  let n16 : UInt16 := if f || g.count > 0xFFFF then 0xFFFF else UInt16.ofNat g.count
  { diskNumber := 0, diskWithCd := 0, filesOnDisk := n16, files := n16
    cdSize := if f || g.cdSize > 0xFFFFFFFF then 0xFFFFFFFF else UInt32.ofNat g.cdSize
    cdOffset := if f || g.cdOffset > 0xFFFFFFFF then 0xFFFFFFFF else UInt32.ofNat g.cdOffset
    comment := g.base.comment }

theorem runs_parseEocd_buildG (g : LayoutG) (hc : g.base.comment.length ≤ 0xFFFF) :
    Runs parseEocd (buildG g) g.eocdPos (.ok (eocdOfG g)) (g.eocdPos + 22 + g.base.comment.length) := by
  have hd := drop_eocdPosG g
  have hp := parses_eocd (p := g.eocdPos) (eocdOfG g).diskNumber (eocdOfG g).diskWithCd
    (eocdOfG g).filesOnDisk (eocdOfG g).files (eocdOfG g).cdSize (eocdOfG g).cdOffset g.base.comment hc
  refine (hp.toRuns (rest := g.base.trailing) ?_).cast rfl ?_
  · rw [hd]
    simp only [LayoutG.eocd, eocdOfG, List.append_assoc]
    rfl
  · simp; omega

theorem u32At_eocdPosG (g : LayoutG) : u32At (buildG g) g.eocdPos = some EOCD_SIG := by
  have hd := drop_eocdPosG g
  refine u32At_of_drop (rest := ?_) ?_
  · exact (le16 0 ++ le16 0 ++ le16 (eocdOfG g).files ++ le16 (eocdOfG g).files ++ le32 (eocdOfG g).cdSize ++
      le32 (eocdOfG g).cdOffset ++ le16 (UInt16.ofNat g.base.comment.length) ++ g.base.comment) ++ g.base.trailing
  · rw [hd]
    simp only [LayoutG.eocd, eocdOfG, List.append_assoc]
    rfl

theorem plain_factsG (g : LayoutG) (h64 : g.needs64 = false) :
    g.end64 = [] ∧ g.gap = [] ∧ (eocdOfG g).cdSize.toNat = g.cdSize ∧ (eocdOfG g).cdOffset.toNat = g.cdOffset ∧
    (eocdOfG g).filesOnDisk.toNat = g.count ∧ g.eocdPos = g.base.pre.length + g.cdOffset + g.cdSize := by
  have h := h64
  simp only [LayoutG.needs64, Bool.or_eq_false_iff, decide_eq_false_iff_not, Nat.not_lt] at h
  obtain ⟨⟨⟨h1, h2⟩, h3⟩, h4⟩ := h
  have he : g.end64 = [] := by simp [LayoutG.end64, h64]
  have hg : g.gap = [] := by simp [LayoutG.gap, h64]
  refine ⟨he, hg, ?_, ?_, ?_, ?_⟩
  · simp only [eocdOfG, h1, Bool.false_and, Bool.false_or]
    rw [if_neg (by simpa using h3), UInt32.toNat_ofNat']; omega
  · simp only [eocdOfG, h1, Bool.false_and, Bool.false_or]
    rw [if_neg (by simpa using h4), UInt32.toNat_ofNat']; omega
  · simp only [eocdOfG, h1, Bool.false_and, Bool.false_or]
    rw [if_neg (by simpa using h2), UInt16.toNat_ofNat']; omega
  · simp [LayoutG.eocdPos, he, hg, LayoutG.cdStart, Layout.cdStart, LayoutG.cdOffset]

theorem fits_boundsG (g : LayoutG) (hF : g.Fits) :
    g.base.pre.length + (localsBytes g.base.entries).length + g.base.gapBeforeCd.length + g.cdSize +
      g.gap.length + g.end64.length + 22 + g.base.comment.length + g.base.trailing.length < 2 ^ 63 := by
  have := hF.2.2.1
  rw [buildG_length] at this
  simp only [LayoutG.eocdPos, LayoutG.cdStart, Layout.cdStart, Layout.cdOffset] at this
  omega

/-- the hypotheses of the loop lemma, for the directory's list of a fitting, readable layout -/
theorem cdList_ok (g : LayoutG) (hF : g.Fits) (hR : g.base.Readable) :
    ∀ p ∈ g.cdList, p.1.1.Fits ∧ p.1.1.Readable ∧ p.1.2 + g.base.pre.length < 2 ^ 64 ∧
      (p.1.1.centralExtraAllG (UInt64.ofNat p.1.2) p.2).length ≤ 0xFFFF := by
  intro p hp
  obtain ⟨es1, es2, h1, h2⟩ := mem_cdList g p hp
  have hm : p.1.1 ∈ g.base.entries := by rw [h1]; simp
  refine ⟨hF.1 _ hm, hR _ hm, ?_, hF.2.2.2 p hp⟩
  have hb := fits_boundsG g hF
  rw [h1, localsBytes_append, localsBytes_cons] at hb
  simp only [List.length_append, Entry.localBytes] at hb
  omega

/-- the archive value `ZipArchive::new` returns for `buildG g` -/
def archiveOfG (g : LayoutG) : Archive :=
  { files := viewOfG g, offset := g.base.pre.length, comment := g.base.comment }

/-- **`ZipArchive::new` on a generalised layout without ZIP64 end records.** -/
theorem open_plainG (g : LayoutG) (hF : g.Fits) (hR : g.base.Readable) (h64 : g.needs64 = false)
    (hwin : g.base.comment.length + g.base.trailing.length ≤ 65535)
    (hnfE : ∀ k, g.eocdPos < k → k + 22 ≤ (buildG g).length → u32At (buildG g) k ≠ some sigEocd)
    (hnfL : 42 + g.base.comment.length ≤ (buildG g).length →
      u32At (buildG g) ((buildG g).length - 42 - g.base.comment.length) ≠ some sigLocator) (p0 : Nat) :
    ∃ q, Runs openArchive (buildG g) p0 (.ok (archiveOfG g)) q := by
  obtain ⟨he, hg, hsz, hoff, hcnt, hpos⟩ := plain_factsG g h64
  have hlen := buildG_length g
  have hb := fits_boundsG g hF
  have hc := hF.2.1
  have hfind := runs_findAndParseEocd (p0 := p0) (u32At_eocdPosG g) (runs_parseEocd_buildG g hc)
    (by omega) (by omega) hnfE
  have hle : (eocdOfG g).cdSize.toNat + (eocdOfG g).cdOffset.toNat ≤ g.eocdPos := by omega
  obtain ⟨q1, hq1⟩ := runs_getDirectoryCounts_plain (B := buildG g) (footer := eocdOfG g)
    (cdeStart := g.eocdPos) (p0 := g.eocdPos + 22 + g.base.comment.length) hnfL
    (by intro _; have hcm : (eocdOfG g).comment = g.base.comment := rfl; rw [hcm]; omega) hle
  have hq1' : Runs (getDirectoryCounts (eocdOfG g) g.eocdPos) (buildG g)
      (g.eocdPos + 22 + g.base.comment.length) (.ok (g.base.pre.length, g.cdStart, g.cdList.length)) q1 := by
    refine hq1.cast ?_ rfl
    rw [hsz, hoff, hcnt, hpos]
    have e1 : g.base.pre.length + g.cdOffset + g.cdSize - g.cdSize - g.cdOffset = g.base.pre.length := by omega
    rw [e1, Nat.add_comm g.cdOffset]
    rfl
  have hloop := (parses_centralLoopP g.base.pre.length g.cdList g.cdStart (cdList_ok g hF hR)).toRuns
    (drop_cdStartG g)
  refine ⟨g.cdStart + (centralBytesP g.cdList).length, ?_⟩
  unfold openArchive
  refine Runs.bind hfind ?_
  dsimp only
  rw [if_neg (by simp [eocdOfG])]
  refine Runs.bind hq1' ?_
  dsimp only
  refine Runs.bind (Runs.attempt_ok (Runs.seek_start _)) ?_
  dsimp only
  refine Runs.bind hloop ?_
  exact Runs.pure _

theorem end64G_eq (g : LayoutG) (h64 : g.needs64 = true) :
    g.end64 =
      (le32 EOCD64_SIG ++ (le64 (UInt64.ofNat (44 + g.end64Ext.length)) ++ (le16 g.base.end64Versions.1 ++
        (le16 g.base.end64Versions.2 ++ (le32 0 ++ (le32 0 ++
        (le64 (UInt64.ofNat g.count) ++ (le64 (UInt64.ofNat g.count) ++ (le64 (UInt64.ofNat g.cdSize) ++
        (le64 (UInt64.ofNat g.cdOffset) ++ g.end64Ext)))))))))) ++
      (le32 LOCATOR_SIG ++ (le32 0 ++ (le64 (UInt64.ofNat g.end64Off) ++ le32 1))) := by
  simp only [LayoutG.end64, h64, if_true, List.append_assoc]
  rfl

/-- **`ZipArchive::new` on a generalised layout with ZIP64 end record + locator** (nothing after the comment). -/
theorem open_z64G (g : LayoutG) (hF : g.Fits) (hR : g.base.Readable) (h64 : g.needs64 = true)
    (ht : g.base.trailing = [])
    (hnfE : ∀ k, g.eocdPos < k → k + 22 ≤ (buildG g).length → u32At (buildG g) k ≠ some sigEocd)
    (hnf64 : ∀ k, g.end64Off ≤ k → k < g.end64Pos → u32At (buildG g) k ≠ some sigEocd64)
    (p0 : Nat) :
    ∃ q, Runs openArchive (buildG g) p0 (.ok (archiveOfG g)) q := by
  have hlen := buildG_length g
  have hb := fits_boundsG g hF
  have hc := hF.2.1
  have he := end64G_eq g h64
  have hel : g.end64.length = 76 + g.end64Ext.length := by rw [he]; simp; omega
  have hcl := length_le_centralBytesP g.cdList
  have hgap : g.gap = g.end64Gap := by simp [LayoutG.gap, h64]
  rw [ht] at hlen hb
  simp only [List.length_nil, Nat.add_zero] at hlen hb
  have hcnt : g.count ≤ g.cdSize := hcl
  have hpos : g.eocdPos = g.end64Pos + 76 + g.end64Ext.length := by
    simp [LayoutG.eocdPos, LayoutG.end64Pos, hel]; omega
  have h64p : g.end64Pos = g.base.pre.length + g.end64Off := by
    simp [LayoutG.end64Pos, LayoutG.end64Off, LayoutG.cdStart, Layout.cdStart, LayoutG.cdOffset]; omega
  have hcdo : g.cdOffset = (localsBytes g.base.entries).length + g.base.gapBeforeCd.length := rfl
  have hoff : g.end64Off = g.cdOffset + g.cdSize + g.gap.length := rfl
  have hfind := runs_findAndParseEocd (p0 := p0) (u32At_eocdPosG g) (runs_parseEocd_buildG g hc)
    (by omega) (by omega) hnfE
  have hd := drop_end64PosG g
  rw [he, List.append_assoc] at hd
  have hrec : (buildG g).drop g.end64Pos = le32 EOCD64_SIG ++ (le64 (UInt64.ofNat (44 + g.end64Ext.length)) ++
      (le16 g.base.end64Versions.1 ++
      (le16 g.base.end64Versions.2 ++ (le32 0 ++ (le32 0 ++ (le64 (UInt64.ofNat g.count) ++
      (le64 (UInt64.ofNat g.count) ++ (le64 (UInt64.ofNat g.cdSize) ++ (le64 (UInt64.ofNat g.cdOffset) ++
      (g.end64Ext ++ ((le32 LOCATOR_SIG ++ (le32 0 ++ (le64 (UInt64.ofNat g.end64Off) ++ le32 1))) ++
        (g.eocd ++ g.base.trailing)))))))))))) := by
    rw [hd]; simp only [List.append_assoc]
  have hloc : (buildG g).drop ((buildG g).length - 42 - (eocdOfG g).comment.length) =
      le32 LOCATOR_SIG ++ (le32 0 ++ (le64 (UInt64.ofNat g.end64Off) ++ le32 1)) ++
        (g.eocd ++ g.base.trailing) := by
    have := drop_past hd
    have e : (buildG g).length - 42 - (eocdOfG g).comment.length = g.end64Pos + (56 + g.end64Ext.length) := by
      show (buildG g).length - 42 - g.base.comment.length = _
      omega
    rw [e, ← this]
    congr 1
    simp
    omega
  have hnom : (UInt64.ofNat g.end64Off).toNat = g.end64Off := u64_ofNat_toNat (by omega)
  have hq1 := runs_getDirectoryCounts_z64 (B := buildG g) (footer := eocdOfG g) (cdeStart := g.eocdPos)
    (p0 := g.eocdPos + 22 + g.base.comment.length) (real := g.end64Pos)
    (by show 42 + g.base.comment.length ≤ _; omega) hloc (by simp [eocdOfG]) hrec (by omega) (by omega)
    (by rw [hnom]; omega) (by rw [hnom]; exact hnf64)
    (by rw [hnom, u64_ofNat_toNat (n := g.cdOffset) (by omega)]; omega)
  have hq1' : Runs (getDirectoryCounts (eocdOfG g) g.eocdPos) (buildG g)
      (g.eocdPos + 22 + g.base.comment.length)
      (.ok (g.base.pre.length, g.cdStart, g.cdList.length)) (g.end64Pos + 56) := by
    refine hq1.cast ?_ rfl
    rw [hnom, u64_ofNat_toNat (n := g.cdOffset) (by omega),
      u64_ofNat_toNat (n := g.count) (by omega)]
    have e1 : g.end64Pos - g.end64Off = g.base.pre.length := by omega
    rw [e1, Nat.add_comm g.cdOffset]
    rfl
  have hloop := (parses_centralLoopP g.base.pre.length g.cdList g.cdStart (cdList_ok g hF hR)).toRuns
    (drop_cdStartG g)
  refine ⟨g.cdStart + (centralBytesP g.cdList).length, ?_⟩
  unfold openArchive
  refine Runs.bind hfind ?_
  dsimp only
  rw [if_neg (by simp [eocdOfG])]
  refine Runs.bind hq1' ?_
  dsimp only
  refine Runs.bind (Runs.attempt_ok (Runs.seek_start _)) ?_
  dsimp only
  refine Runs.bind hloop ?_
  exact Runs.pure _

/-! ### entries -/

/-- Everything the entry readers need to know about entry `i` of the DIRECTORY of `buildG g`. -/
theorem entry_atG (g : LayoutG) (hF : g.Fits) (i : Nat) (p : Listed) (he : g.cdList[i]? = some p) :
    ∃ chs rest, (archiveOfG g).files[i]? = some (viewEntryG p.1.1 p.1.2 g.base.pre.length chs p.2) ∧
      (buildG g).drop (p.1.2 + g.base.pre.length) = localRecord p.1.1 ++ (p.1.1.data ++ rest) ∧
      p.1.2 + g.base.pre.length + (localRecord p.1.1).length + p.1.1.data.length < 2 ^ 63 ∧ p.1.1.Fits := by
  obtain ⟨chs, hv⟩ := viewListP_getElem g.base.pre.length g.cdList g.cdStart i p he
  obtain ⟨es1, es2, h1, h2⟩ := mem_cdList g p (List.mem_of_getElem? he)
  obtain ⟨rest, hr⟩ := drop_localG g es1 es2 p.1.1 h1
  refine ⟨chs, rest, hv, ?_, ?_, hF.1 _ (by rw [h1]; simp)⟩
  · rw [← hr]; congr 1; omega
  · have hb := fits_boundsG g hF
    rw [h1, localsBytes_append, localsBytes_cons] at hb
    simp only [List.length_append, Entry.localBytes] at hb
    omega

/-- `find_content` looks at the header offset only: the placement of the ZIP64 record does not matter -/
theorem findContent_viewEntryG (e : Entry) (off pre chs : Nat) (pl : Z64Place) :
    findContent (viewEntryG e off pre chs pl) = findContent (viewEntry e off pre chs) := rfl

/-- `by_index_raw(i)`: the stored bytes of the entry the directory lists at position `i`, found through the
offset recorded for it. -/
theorem runs_byIndexRawG (g : LayoutG) (hF : g.Fits) (i : Nat) (p : Listed) (he : g.cdList[i]? = some p)
    (p0 : Nat) :
    Runs (byIndexRaw (archiveOfG g) i) (buildG g) p0 (.ok (p.1.1.dataStart p.1.2 g.base.pre.length, p.1.1.data))
      (p.1.1.dataStart p.1.2 g.base.pre.length + p.1.1.data.length) := by
  obtain ⟨chs, rest, h2, h3, h4, hfe⟩ := entry_atG g hF i p he
  unfold byIndexRaw
  rw [h2]
  dsimp only
  rw [findContent_viewEntryG]
  refine Runs.bind (runs_findContent p.1.1 p.1.2 g.base.pre.length chs p0 hfe (by omega) h3) ?_
  have hds : (buildG g).drop (p.1.1.dataStart p.1.2 g.base.pre.length) = p.1.1.data ++ rest := by
    have := drop_past h3
    rw [localRecord_length] at this
    rw [← this]; congr 1; simp [Entry.dataStart]; omega
  have hcs : (viewEntryG p.1.1 p.1.2 g.base.pre.length chs p.2).compressedSize.toNat = p.1.1.data.length :=
    u64_ofNat_toNat (by omega)
  rw [hcs]
  refine Runs.bind (runs_takeAll hds) ?_
  exact Runs.pure _

/-- `by_index(i)` + read to end on an unencrypted entry with a decodable method. -/
theorem runs_byIndexReadG (ext : Ext) (g : LayoutG) (hF : g.Fits) (i : Nat) (p : Listed)
    (he : g.cdList[i]? = some p) (pw : Option Bytes)
    (henc : (p.1.1.flagsOut &&& 1 == 1) = false) (hdec : (Method.fromU16 p.1.1.method).decodable = true)
    (p0 : Nat) :
    Runs (byIndexRead ext (archiveOfG g) i pw) (buildG g) p0
      (.ok (.ok (p.1.1.dataStart p.1.2 g.base.pre.length,
        ext.decode (Method.fromU16 p.1.1.method) p.1.1.data >>= fun dec => crcCheck false p.1.1.crc dec)))
      (p.1.1.dataStart p.1.2 g.base.pre.length + p.1.1.data.length) := by
  obtain ⟨chs, rest, h2, h3, h4, hfe⟩ := entry_atG g hF i p he
  have hds : (buildG g).drop (p.1.1.dataStart p.1.2 g.base.pre.length) = p.1.1.data ++ rest := by
    have := drop_past h3
    rw [localRecord_length] at this
    rw [← this]; congr 1; simp [Entry.dataStart]; omega
  have hcs : (viewEntryG p.1.1 p.1.2 g.base.pre.length chs p.2).compressedSize.toNat = p.1.1.data.length :=
    u64_ofNat_toNat (by omega)
  have hfc := runs_findContent p.1.1 p.1.2 g.base.pre.length chs p0 hfe (by omega) h3
  rw [← findContent_viewEntryG p.1.1 p.1.2 g.base.pre.length chs p.2] at hfc
  have hta := runs_takeAll hds
  unfold byIndexRead
  rw [h2]
  dsimp only
  have henc' : (viewEntryG p.1.1 p.1.2 g.base.pre.length chs p.2).encrypted = false := henc
  rw [henc', if_neg (by simp)]
  refine Runs.bind hfc ?_
  have hm : (viewEntryG p.1.1 p.1.2 g.base.pre.length chs p.2).method = Method.fromU16 p.1.1.method := rfl
  have ha : (viewEntryG p.1.1 p.1.2 g.base.pre.length chs p.2).aesMode = none := rfl
  have hc : (viewEntryG p.1.1 p.1.2 g.base.pre.length chs p.2).crc32 = p.1.1.crc := rfl
  rw [hm, ha, hcs, hc]
  generalize Method.fromU16 p.1.1.method = m at hdec
  cases m <;> simp only [Method.decodable] at hdec <;> try contradiction
  all_goals
    dsimp only [Bool.false_eq_true, if_false]
    refine Runs.bind hta ?_
    exact Runs.pure _

end ZipVerif.Model
