import ZipVerif.Lemmas.ReadWf
import ZipVerif.Lemmas.CentralParseZ
/-
`ZipArchive::new` on `Spec.Zip.build l` under `Layout.ReadableZ` (further ZIP64 records allowed in the
foreign central extra data, `Lemmas/CentralParseZ.lean`) instead of `Layout.Readable`.

`open_plain_of_loop` / `open_z64_of_loop` are `open_plain` / `open_z64` of `Lemmas/ReadWf.lean` with the
run of the central-directory loop as a hypothesis (the only place where `Readable` was used).
-/

namespace ZipVerif.Model
open ZipVerif ZipVerif.Spec.Zip

theorem parses_centralLoopZ (ao : Nat) : ∀ (es : List Entry) (loc chs : Nat),
    (∀ e ∈ es, e.Fits) → ReadableZFrom es loc → loc + (localsBytes es).length + ao < 2 ^ 64 →
    Parses (readCentralLoop ao es.length) chs (centralBytes es (localOffsets es loc))
      (viewList ao es loc chs) := by
  intro es
  induction es with
  | nil => intro loc chs _ _ _; exact Parses.pure _
  | cons e es ih =>
    intro loc chs hall hz hb
    have he := hall e (List.mem_cons_self)
    obtain ⟨⟨hm, hx⟩, hzr⟩ := hz
    rw [localsBytes_cons, List.length_append] at hb
    have hlb : e.gapBefore.length ≤ e.localBytes.length := by
      simp only [Entry.localBytes, List.length_append]; omega
    show Parses (readCentralLoop ao (es.length + 1)) chs
      (centralRecord e (UInt64.ofNat (loc + e.gapBefore.length)) ++
        centralBytes es (localOffsets es (loc + e.localBytes.length))) _
    unfold readCentralLoop
    refine Parses.bind (parses_centralHeaderZ e _ ao chs he hx hm (by omega)) ?_
    refine Parses.bind_last (ih _ _ (fun x hx => hall x (List.mem_cons_of_mem _ hx)) hzr (by omega)) ?_
    exact Parses.pure _

/-- the run of the central-directory loop on `build l`, from `ReadableZ` -/
theorem runs_centralLoopZ (l : Layout) (hF : l.Fits) (hR : l.ReadableZ) :
    Runs (readCentralLoop l.pre.length l.entries.length) (build l) l.cdStart (.ok (viewOf l))
      (l.cdStart + (centralBytes l.entries (localOffsets l.entries 0)).length) := by
  have hb := fits_bounds l hF
  exact (parses_centralLoopZ l.pre.length l.entries 0 l.cdStart hF.1 hR (by omega)).toRuns (drop_cdStart l)

/-- **`ZipArchive::new` on a layout without ZIP64 end records.** -/
theorem open_plain_of_loop (l : Layout) (hF : l.Fits)
    (hloop : Runs (readCentralLoop l.pre.length l.entries.length) (build l) l.cdStart (.ok (viewOf l))
      (l.cdStart + (centralBytes l.entries (localOffsets l.entries 0)).length)) (h64 : l.needs64 = false)
    (hwin : l.comment.length + l.trailing.length ≤ 65535)
    (hnfE : ∀ k, l.eocdPos < k → k + 22 ≤ (build l).length → u32At (build l) k ≠ some sigEocd)
    (hnfL : 42 + l.comment.length ≤ (build l).length →
      u32At (build l) ((build l).length - 42 - l.comment.length) ≠ some sigLocator) (p0 : Nat) :
    ∃ q, Runs openArchive (build l) p0
      (.ok { files := viewOf l, offset := l.pre.length, comment := l.comment }) q := by
  obtain ⟨he, hsz, hoff, hcnt, hpos⟩ := plain_facts l h64
  have hlen := build_length l
  have hb := fits_bounds l hF
  have hc := hF.2.1
  have hfind := runs_findAndParseEocd (p0 := p0) (u32At_eocdPos l) (runs_parseEocd_build l hc)
    (by omega) (by omega) hnfE
  have hle : (eocdOf l).cdSize.toNat + (eocdOf l).cdOffset.toNat ≤ l.eocdPos := by omega
  obtain ⟨q1, hq1⟩ := runs_getDirectoryCounts_plain (B := build l) (footer := eocdOf l)
    (cdeStart := l.eocdPos) (p0 := l.eocdPos + 22 + l.comment.length) hnfL (by intro _; have hcm : (eocdOf l).comment = l.comment := rfl; rw [hcm]; omega) hle
  have hq1' : Runs (getDirectoryCounts (eocdOf l) l.eocdPos) (build l) (l.eocdPos + 22 + l.comment.length)
      (.ok (l.pre.length, l.cdStart, l.entries.length)) q1 := by
    refine hq1.cast ?_ rfl
    rw [hsz, hoff, hcnt, hpos]
    have e1 : l.pre.length + l.cdOffset + l.cdSize - l.cdSize - l.cdOffset = l.pre.length := by omega
    rw [e1, Nat.add_comm l.cdOffset]
    rfl
  refine ⟨l.cdStart + (centralBytes l.entries (localOffsets l.entries 0)).length, ?_⟩
  unfold openArchive
  refine Runs.bind hfind ?_
  dsimp only
  rw [if_neg (by simp [eocdOf])]
  refine Runs.bind hq1' ?_
  dsimp only
  refine Runs.bind (Runs.attempt_ok (Runs.seek_start _)) ?_
  dsimp only
  refine Runs.bind hloop ?_
  exact Runs.pure _


/-- **`ZipArchive::new` on a layout with ZIP64 end record + locator** (nothing after the comment). -/
theorem open_z64_of_loop (l : Layout) (hF : l.Fits)
    (hloop : Runs (readCentralLoop l.pre.length l.entries.length) (build l) l.cdStart (.ok (viewOf l))
      (l.cdStart + (centralBytes l.entries (localOffsets l.entries 0)).length)) (h64 : l.needs64 = true)
    (ht : l.trailing = [])
    (hnfE : ∀ k, l.eocdPos < k → k + 22 ≤ (build l).length → u32At (build l) k ≠ some sigEocd)
    (hnf64 : ∀ k, l.cdOffset + l.cdSize ≤ k → k < l.end64Pos → u32At (build l) k ≠ some sigEocd64)
    (p0 : Nat) :
    ∃ q, Runs openArchive (build l) p0
      (.ok { files := viewOf l, offset := l.pre.length, comment := l.comment }) q := by
  have hlen := build_length l
  have hb := fits_bounds l hF
  have hc := hF.2.1
  have he := end64_eq l h64
  have hel : l.end64.length = 76 := by rw [he]; simp
  have hcl := count_le_locals l.entries
  rw [ht] at hlen hb
  simp only [List.length_nil, Nat.add_zero] at hlen hb
  have hcob : l.pre.length + l.cdOffset + l.cdSize + 98 + l.comment.length < 2 ^ 63 := by
    simp only [Layout.cdOffset]; omega
  have hcnt : l.count ≤ l.cdOffset := by simp only [Layout.cdOffset, Layout.count]; omega
  have hpos : l.eocdPos = l.end64Pos + 76 := by simp [Layout.eocdPos, Layout.end64Pos, hel]
  have h64p : l.end64Pos = l.pre.length + l.cdOffset + l.cdSize := by
    simp [Layout.end64Pos, Layout.cdStart]
  have hfind := runs_findAndParseEocd (p0 := p0) (u32At_eocdPos l) (runs_parseEocd_build l hc)
    (by omega) (by omega) hnfE
  -- the ZIP64 end record and the locator, where the reader looks for them
  have hd := drop_end64Pos l
  rw [he, List.append_assoc] at hd
  have hrec : (build l).drop l.end64Pos = le32 EOCD64_SIG ++ (le64 44 ++ (le16 l.end64Versions.1 ++
      (le16 l.end64Versions.2 ++ (le32 0 ++ (le32 0 ++ (le64 (UInt64.ofNat l.count) ++
      (le64 (UInt64.ofNat l.count) ++ (le64 (UInt64.ofNat l.cdSize) ++ (le64 (UInt64.ofNat l.cdOffset) ++
      ((le32 LOCATOR_SIG ++ (le32 0 ++ (le64 (UInt64.ofNat (l.cdOffset + l.cdSize)) ++ le32 1))) ++
        (l.eocd ++ l.trailing))))))))))) := by
    rw [hd]; simp only [List.append_assoc]
  have hloc : (build l).drop ((build l).length - 42 - (eocdOf l).comment.length) =
      le32 LOCATOR_SIG ++ (le32 0 ++ (le64 (UInt64.ofNat (l.cdOffset + l.cdSize)) ++ le32 1)) ++
        (l.eocd ++ l.trailing) := by
    have := drop_past hd
    have e : (build l).length - 42 - (eocdOf l).comment.length = l.end64Pos + 56 := by
      show (build l).length - 42 - l.comment.length = _
      omega
    rw [e]
    simpa using this
  have hnom : (UInt64.ofNat (l.cdOffset + l.cdSize)).toNat = l.cdOffset + l.cdSize :=
    u64_ofNat_toNat (by omega)
  have hq1 := runs_getDirectoryCounts_z64 (B := build l) (footer := eocdOf l) (cdeStart := l.eocdPos)
    (p0 := l.eocdPos + 22 + l.comment.length) (real := l.end64Pos)
    (by show 42 + l.comment.length ≤ _; omega) hloc (by simp [eocdOf]) hrec (by omega) (by omega)
    (by rw [hnom]; omega) (by rw [hnom]; exact hnf64)
    (by rw [hnom, u64_ofNat_toNat (n := l.cdOffset) (by omega)]; omega)
  have hq1' : Runs (getDirectoryCounts (eocdOf l) l.eocdPos) (build l) (l.eocdPos + 22 + l.comment.length)
      (.ok (l.pre.length, l.cdStart, l.entries.length)) (l.end64Pos + 56) := by
    refine hq1.cast ?_ rfl
    rw [hnom, u64_ofNat_toNat (n := l.cdOffset) (by omega),
      u64_ofNat_toNat (n := l.count) (by omega)]
    have e1 : l.end64Pos - (l.cdOffset + l.cdSize) = l.pre.length := by omega
    rw [e1, Nat.add_comm l.cdOffset]
    rfl
  refine ⟨l.cdStart + (centralBytes l.entries (localOffsets l.entries 0)).length, ?_⟩
  unfold openArchive
  refine Runs.bind hfind ?_
  dsimp only
  rw [if_neg (by simp [eocdOf])]
  refine Runs.bind hq1' ?_
  dsimp only
  refine Runs.bind (Runs.attempt_ok (Runs.seek_start _)) ?_
  dsimp only
  refine Runs.bind hloop ?_
  exact Runs.pure _


theorem open_plainZ (l : Layout) (hF : l.Fits) (hR : l.ReadableZ) (h64 : l.needs64 = false)
    (hwin : l.comment.length + l.trailing.length ≤ 65535)
    (hnfE : ∀ k, l.eocdPos < k → k + 22 ≤ (build l).length → u32At (build l) k ≠ some sigEocd)
    (hnfL : 42 + l.comment.length ≤ (build l).length →
      u32At (build l) ((build l).length - 42 - l.comment.length) ≠ some sigLocator) (p0 : Nat) :
    ∃ q, Runs openArchive (build l) p0
      (.ok { files := viewOf l, offset := l.pre.length, comment := l.comment }) q :=
  open_plain_of_loop l hF (runs_centralLoopZ l hF hR) h64 hwin hnfE hnfL p0

theorem open_z64Z (l : Layout) (hF : l.Fits) (hR : l.ReadableZ) (h64 : l.needs64 = true)
    (ht : l.trailing = [])
    (hnfE : ∀ k, l.eocdPos < k → k + 22 ≤ (build l).length → u32At (build l) k ≠ some sigEocd)
    (hnf64 : ∀ k, l.cdOffset + l.cdSize ≤ k → k < l.end64Pos → u32At (build l) k ≠ some sigEocd64)
    (p0 : Nat) :
    ∃ q, Runs openArchive (build l) p0
      (.ok { files := viewOf l, offset := l.pre.length, comment := l.comment }) q :=
  open_z64_of_loop l hF (runs_centralLoopZ l hF hR) h64 ht hnfE hnf64 p0

end ZipVerif.Model
