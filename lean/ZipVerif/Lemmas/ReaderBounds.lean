import ZipVerif.Lemmas.ReaderTotal
/-
C05 helper lemmas, part 2: how far successful parsers advance the device (`Adv`), and from that the
adequacy of every fuel parameter of the reader model and the bounds on loop iterations, entry counts
and transient buffer sizes.
-/

namespace ZipVerif.Model
open ZipVerif

/-! ## More inversion / congruence lemmas for `M` -/

namespace M
variable {α β : Type}

theorem bind_of_ok {x : M α} {f : α → M β} {fa : Option Nat} {d d' : Dev} {a : α}
    (h : x fa d = (.ok a, d')) : (x >>= f) fa d = f a fa d' := by
  show (match x fa d with
    | (.ok a, d') => f a fa d'
    | (.err e, d') => (.err e, d')
    | (.panic s, d') => (.panic s, d')) = _
  rw [h]

theorem bind_of_err {x : M α} {f : α → M β} {fa : Option Nat} {d d' : Dev} {e : ZErr}
    (h : x fa d = (.err e, d')) : (x >>= f) fa d = (.err e, d') := by
  show (match x fa d with
    | (.ok a, d') => f a fa d'
    | (.err e, d') => (.err e, d')
    | (.panic s, d') => (.panic s, d')) = _
  rw [h]

theorem bind_err_inv {x : M α} {f : α → M β} {fa : Option Nat} {d d'' : Dev} {e : ZErr}
    (h : (x >>= f) fa d = (.err e, d'')) :
    x fa d = (.err e, d'') ∨ ∃ a d', x fa d = (.ok a, d') ∧ f a fa d' = (.err e, d'') := by
  change (match x fa d with
    | (.ok a, d') => f a fa d'
    | (.err e, d') => (.err e, d')
    | (.panic s, d') => (.panic s, d')) = _ at h
  generalize x fa d = r at h
  obtain ⟨(a | e' | s), d'⟩ := r
  · exact .inr ⟨a, d', rfl, h⟩
  · left; simpa using h
  · cases h

/-- Two continuations that agree on every state the first action can succeed into. -/
theorem bind_congr_at {x : M α} {f g : α → M β} {fa : Option Nat} {d : Dev}
    (h : ∀ a d', x fa d = (.ok a, d') → f a fa d' = g a fa d') : (x >>= f) fa d = (x >>= g) fa d := by
  show (match x fa d with
    | (.ok a, d') => f a fa d'
    | (.err e, d') => (.err e, d')
    | (.panic s, d') => (.panic s, d')) =
    (match x fa d with
    | (.ok a, d') => g a fa d'
    | (.err e, d') => (.err e, d')
    | (.panic s, d') => (.panic s, d'))
  generalize hr : x fa d = r at h
  obtain ⟨(a | e | s), d'⟩ := r
  · exact h a d' rfl
  · rfl
  · rfl

theorem bind_congr_left_at {x y : M α} {f : α → M β} {fa : Option Nat} {d : Dev}
    (h : x fa d = y fa d) : (x >>= f) fa d = (y >>= f) fa d := by
  show (match x fa d with
    | (.ok a, d') => f a fa d'
    | (.err e, d') => (.err e, d')
    | (.panic s, d') => (.panic s, d')) =
    (match y fa d with
    | (.ok a, d') => f a fa d'
    | (.err e, d') => (.err e, d')
    | (.panic s, d') => (.panic s, d'))
  rw [h]

theorem bind_congr {x : M α} {f g : α → M β} (h : ∀ a, f a = g a) : x >>= f = x >>= g := by
  have : f = g := funext h
  rw [this]

end M

/-! ## `Adv`: bytes consumed by a successful run -/

/-- When `x` succeeds with a value satisfying `p`, it has left the buffer alone, has advanced the
position by at least `k`, and (if it started inside the buffer or `k > 0`) stands inside the buffer:
the `k` bytes really exist. -/
def Adv {α} (p : α → Prop) (k : Nat) (x : M α) : Prop :=
  ∀ fa d a d', x fa d = (.ok a, d') → p a →
    d'.buf = d.buf ∧ d.pos + k ≤ d'.pos ∧ ((d.pos ≤ d.buf.length ∨ 0 < k) → d'.pos ≤ d.buf.length)

namespace Adv
variable {α β : Type} {p : α → Prop}

theorem pure (a : α) : Adv p 0 (Pure.pure a : M α) := by
  intro fa d b d' h _
  obtain ⟨_, rfl⟩ := M.pure_ok_inv h
  exact ⟨rfl, Nat.le_refl _, fun h => h.elim id fun h => absurd h (Nat.lt_irrefl 0)⟩

theorem pure_not {a : α} (k : Nat) (h : ¬ p a) : Adv p k (Pure.pure a : M α) := by
  intro fa d b d' hb hp
  obtain ⟨rfl, _⟩ := M.pure_ok_inv hb
  exact (h hp).elim

theorem throw {k : Nat} (e : ZErr) : Adv p k (M.throw e : M α) :=
  fun _ _ _ _ h => (M.throw_ok_inv h).elim

theorem bind {q : β → Prop} {k m : Nat} {x : M β} {f : β → M α} (hx : Adv q k x)
    (hf : ∀ b, q b → Adv p m (f b)) (hn : ∀ b, ¬ q b → PostV (fun a => ¬ p a) (f b)) :
    Adv p (k + m) (x >>= f) := by
  intro fa d a d'' h hp
  obtain ⟨b, d1, h1, h2⟩ := M.bind_ok_inv h
  by_cases hq : q b
  · obtain ⟨b1, p1, i1⟩ := hx _ _ _ _ h1 hq
    obtain ⟨b2, p2, i2⟩ := hf b hq _ _ _ _ h2 hp
    have hl : d1.buf.length = d.buf.length := by rw [b1]
    refine ⟨b2.trans b1, by omega, ?_⟩
    rw [hl] at i2
    omega
  · exact ((hn b hq).elim h2 hp).elim

theorem bind' {k m : Nat} {x : M β} {f : β → M α} (hx : Adv (fun _ => True) k x)
    (hf : ∀ b, Adv p m (f b)) : Adv p (k + m) (x >>= f) :=
  bind hx (fun b _ => hf b) fun _ h => (h trivial).elim

theorem mono {j k : Nat} {x : M α} (h : Adv p k x) (hjk : j ≤ k) : Adv p j x := by
  intro fa d a d' hr hp
  obtain ⟨b, q, i⟩ := h _ _ _ _ hr hp
  exact ⟨b, by omega, by omega⟩

/-- Bind rule in "remaining budget" form: no metavariables are needed to walk a block. -/
theorem bind_sub {j k : Nat} {x : M β} {f : β → M α} (hx : Adv (fun _ => True) k x)
    (hf : ∀ b, Adv p (j - k) (f b)) : Adv p j (x >>= f) :=
  mono (bind' hx hf) (by omega)

theorem pure_zero {j : Nat} (a : α) (h : j = 0) : Adv p j (Pure.pure a : M α) := h ▸ pure a

theorem weaken {k : Nat} {x : M α} (h : Adv (fun _ => True) k x) : Adv p k x :=
  fun _ _ _ _ hr _ => h _ _ _ _ hr trivial

theorem ite {c : Prop} [Decidable c] {k : Nat} {x y : M α} (hx : Adv p k x) (hy : Adv p k y) :
    Adv p k (if c then x else y) := by
  split
  · exact hx
  · exact hy

theorem elim {k : Nat} {x : M α} (h : Adv p k x) {fa : Option Nat} {d d' : Dev} {a : α}
    (hr : x fa d = (.ok a, d')) (hp : p a) :
    d'.buf = d.buf ∧ d.pos + k ≤ d'.pos ∧ ((d.pos ≤ d.buf.length ∨ 0 < k) → d'.pos ≤ d.buf.length) :=
  h _ _ _ _ hr hp

theorem getDev {p : Dev → Prop} : Adv p 0 M.getDev := by
  intro fa d a d' h _
  cases h
  exact ⟨rfl, Nat.le_refl _, fun h => h.elim id fun h => absurd h (Nat.lt_irrefl 0)⟩

theorem read {p : Bytes → Prop} (n : Nat) : Adv p 0 (M.read n) := by
  intro fa d r d' h _
  obtain ⟨hr, hb, hp⟩ := M.read_ok_inv h
  have hl : r.length ≤ d.buf.length - d.pos := by
    rw [hr, List.length_take, List.length_drop]; omega
  exact ⟨hb, by omega, by omega⟩

theorem streamPosition {p : Nat → Prop} : Adv p 0 M.streamPosition := by
  intro fa d r d' h _
  obtain ⟨_, hb, hp⟩ := M.streamPosition_ok_inv h
  exact ⟨hb, by omega, by omega⟩

theorem readExact {p : Bytes → Prop} (n : Nat) : Adv p n (M.readExact n) := by
  intro fa d r d' h _
  obtain ⟨_, hb, hp, hl⟩ := M.readExact_ok_inv h
  exact ⟨hb, by omega, by omega⟩

/-- A variable-length read contributes nothing to the guaranteed advance. -/
theorem readExact0 {p : Bytes → Prop} (n : Nat) : Adv p 0 (M.readExact n) :=
  mono (readExact n) (Nat.zero_le _)

theorem readU16 {p : UInt16 → Prop} : Adv p 2 M.readU16 := by
  intro fa d r d' h _
  obtain ⟨hb, hp, hl⟩ := M.readU16_ok_inv h
  exact ⟨hb, by omega, by omega⟩

theorem readU32 {p : UInt32 → Prop} : Adv p 4 M.readU32 := by
  intro fa d r d' h _
  obtain ⟨hb, hp, hl⟩ := M.readU32_ok_inv h
  exact ⟨hb, by omega, by omega⟩

theorem readU64 {p : UInt64 → Prop} : Adv p 8 M.readU64 := by
  intro fa d r d' h _
  obtain ⟨hb, hp, hl⟩ := M.readU64_ok_inv h
  exact ⟨hb, by omega, by omega⟩

end Adv

attribute [irreducible] Adv

/-- Walk a `do` block with the `Adv` rules: the goal states the total, every bind subtracts what its
first action guarantees, and a `pure` leaf checks that nothing is left. -/
syntax "adv" (" [" term,* "]")? : tactic
macro_rules
  | `(tactic| adv) => `(tactic| adv [])
  | `(tactic| adv [$ts,*]) => `(tactic|
      repeat (first
        | first $[| exact $ts]*
        | exact Adv.throw _
        | exact Adv.readExact0 _
        | exact Adv.readU16
        | exact Adv.readU32
        | exact Adv.readU64
        | exact Adv.read _
        | exact Adv.streamPosition
        | exact Adv.getDev
        | exact Adv.pure_zero _ (by decide)
        | apply Adv.bind_sub
        | apply Adv.ite
        | intro _
        | dsimp only
        | split))

theorem takeAll_adv {p : Bytes → Prop} (limit : Nat) : Adv p 0 (takeAll limit) := by
  unfold takeAll
  adv


/-- A successfully parsed central header (after its signature) has consumed ≥ 42 existing bytes. -/
theorem centralHeaderInner_adv {p : FileData → Prop} (off start : Nat) :
    Adv p 42 (centralHeaderInner off start) := by
  unfold centralHeaderInner
  adv

/-- … and ≥ 46 with the signature. -/
theorem centralHeader_adv {p : FileData → Prop} (off : Nat) : Adv p 46 (centralHeader off) := by
  unfold centralHeader
  adv [centralHeaderInner_adv _ _]

theorem pure_none_adv {α : Type} {k : Nat} :
    Adv (fun o : Option α => o.isSome = true) k (pure none : M (Option α)) :=
  Adv.pure_not k (by simp)

/-- A successfully parsed local header of the streaming reader has consumed ≥ 30 existing bytes. -/
theorem streamHeader_adv : Adv (fun o => o.isSome = true) 30 streamHeader := by
  unfold streamHeader
  adv [pure_none_adv]

theorem streamEntry_adv (ext : Ext) : Adv (fun o => o.isSome = true) 30 (streamEntry ext) := by
  unfold streamEntry
  refine Adv.mono (k := 30 + 0) ?_ (by omega)
  refine Adv.bind streamHeader_adv (fun h hh => ?_) (fun h hh => ?_)
  · split
    · exact Adv.pure _
    · adv [takeAll_adv _]
  · split
    · apply PostV.pure; simp
    · simp at hh

/-! ## Fuel adequacy of the two end-of-central-directory searches -/

/-- Backward search: once `fuel ≥ pos + 1 - bound` (the number of positions `pos, pos-1, …, bound`),
more fuel changes nothing: the recursion always ends through the loop's own exits. -/
theorem findEocdLoop_fuel_mono (bound : Nat) : ∀ (fuel pos extra : Nat), pos + 1 - bound ≤ fuel →
    findEocdLoop bound (fuel + extra) pos = findEocdLoop bound fuel pos := by
  intro fuel
  induction fuel with
  | zero =>
    intro pos extra h
    have hlt : pos < bound := by omega
    cases extra with
    | zero => rfl
    | succ e =>
      rw [Nat.zero_add]
      unfold findEocdLoop
      rw [if_pos hlt]
  | succ n ih =>
    intro pos extra h
    rw [show n + 1 + extra = (n + extra) + 1 by omega]
    unfold findEocdLoop
    split
    · rfl
    · refine M.bind_congr fun _ => M.bind_congr fun w => ?_
      split
      · rfl
      · split
        · rfl
        · exact ih _ _ (by omega)

/-- Forward search for the ZIP64 record: `fuel ≥ upper + 1 - pos` is adequate. -/
theorem findEocd64Loop_fuel_mono (nominal upper : Nat) : ∀ (fuel pos extra : Nat),
    upper + 1 - pos ≤ fuel →
    findEocd64Loop nominal upper (fuel + extra) pos = findEocd64Loop nominal upper fuel pos := by
  intro fuel
  induction fuel with
  | zero =>
    intro pos extra h
    have hlt : pos > upper := by omega
    cases extra with
    | zero => rfl
    | succ e =>
      rw [Nat.zero_add]
      unfold findEocd64Loop
      rw [if_pos hlt]
  | succ n ih =>
    intro pos extra h
    rw [show n + 1 + extra = (n + extra) + 1 by omega]
    unfold findEocd64Loop
    split
    · rfl
    · refine M.bind_congr fun _ => M.bind_congr fun w => ?_
      split
      · rfl
      · exact ih _ _ (by omega)

/-- A successful backward search reports a position at or below its starting position. -/
theorem findEocdLoop_pos_le (bound : Nat) : ∀ (fuel pos : Nat) {fa : Option Nat} {d d' : Dev}
    {e : Eocd} {c : Nat}, findEocdLoop bound fuel pos fa d = (.ok (e, c), d') → c ≤ pos := by
  intro fuel
  induction fuel with
  | zero =>
    intro pos fa d d' e c h
    unfold findEocdLoop at h
    exact (M.throw_ok_inv h).elim
  | succ n ih =>
    intro pos fa d d' e c h
    have hp : PostV (fun r : Eocd × Nat => r.2 ≤ pos) (findEocdLoop bound (n + 1) pos) := by
      unfold findEocdLoop
      apply PostV.ite (PostV.throw _)
      apply PostV.bind_any; intro _
      apply PostV.bind_any; intro w
      apply PostV.ite
      · apply PostV.bind_any; intro _
        refine PostV.bind (PostV.seekStart pos) ?_
        intro c hc
        apply PostV.bind_any; intro e
        apply PostV.pure
        exact Nat.le_of_eq hc
      · apply PostV.ite (PostV.throw _)
        refine PostV.intro fun fa d r d' hr => ?_
        exact Nat.le_trans (ih (pos - 1) (e := r.1) (c := r.2) hr) (Nat.sub_le _ _)
    exact hp.elim h

/-- `cde_start_pos + 22 ≤ len` after a successful `find_and_parse`. -/
theorem findAndParseEocd_cde_le {fa : Option Nat} {d d' : Dev} {e : Eocd} {c : Nat}
    (h : findAndParseEocd fa d = (.ok (e, c), d')) : c + 22 ≤ d.buf.length := by
  delta findAndParseEocd at h
  obtain ⟨fl, d1, h1, h2⟩ := M.bind_ok_inv h
  obtain ⟨hfl, _⟩ := M.seek_end0_ok_inv h1
  dsimp only at h2
  by_cases hlt : fl < 22
  · rw [if_pos hlt] at h2
    exact (M.throw_ok_inv h2).elim
  · rw [if_neg hlt] at h2
    have := findEocdLoop_pos_le _ _ _ h2
    omega

/-! ## The extra-field loop: fuel adequacy and what it leaves alone -/

theorem rd16_length {bs r : Bytes} {v : UInt16} (h : rd16 bs = some (v, r)) :
    bs.length = r.length + 2 := by
  unfold rd16 at h
  split at h
  · cases h; simp
  · cases h

theorem rd64_length {bs r : Bytes} {v : UInt64} (h : rd64 bs = some (v, r)) :
    bs.length = r.length + 8 := by
  unfold rd64 at h
  split at h
  · cases h; simp
  · cases h

theorem takeU64If_length {c : Bool} {bs r : Bytes} {v : Option UInt64}
    (h : takeU64If c bs = some (v, r)) : r.length ≤ bs.length := by
  unfold takeU64If at h
  split at h
  · split at h
    · rename_i h64
      cases h
      have := rd64_length h64
      omega
    · cases h
  · cases h; exact Nat.le_refl _

theorem ite_drop_length_le {c : Prop} [Decidable c] (k : Nat) (l : Bytes) :
    (if c then l.drop k else l).length ≤ l.length := by
  split
  · rw [List.length_drop]; exact Nat.sub_le _ _
  · exact Nat.le_refl _

theorem parseExtraField_fuel_mono : ∀ (fuel : Nat) (f : FileData) (rest : Bytes) (extra : Nat),
    rest.length < fuel →
    parseExtraField (fuel + extra) f rest = parseExtraField fuel f rest := by
  intro fuel
  induction fuel with
  | zero => intro f rest extra h; omega
  | succ n ih =>
    intro f rest extra h
    rw [show n + 1 + extra = (n + extra) + 1 by omega]
    unfold parseExtraField
    split
    · rfl
    split
    · rfl
    next kind r1 h1 =>
    split
    · rfl
    next len r2 h2 =>
    have e1 := rd16_length h1
    have e2 := rd16_length h2
    split
    · -- ZIP64 record
      split
      · rfl
      next u r3 h3 =>
      dsimp only
      split
      · rfl
      next c r4 h4 =>
      split
      · rfl
      next hh r5 h5 =>
      have l3 := takeU64If_length h3
      have l4 := takeU64If_length h4
      have l5 := takeU64If_length h5
      apply ih
      refine Nat.lt_of_le_of_lt (ite_drop_length_le _ _) ?_
      omega
    · split
      · -- AES record
        split
        · rfl
        split
        · rfl
        next vendorVersion r3 h3 =>
        split
        · rfl
        next vendorId r4 h4 =>
        split
        · rfl
        next aesMode r5 =>
        split
        · rfl
        next cm r6 h6 =>
        have e3 := rd16_length h3
        have e4 := rd16_length h4
        have e6 := rd16_length h6
        split
        · rfl
        dsimp only
        split
        · rfl
        split
        · rfl
        apply ih
        simp only [List.length_cons] at e4
        omega
      · apply ih
        rw [List.length_drop]
        omega

/-- The extra-field parser never touches the raw name and the raw extra bytes. -/
theorem parseExtraField_raw : ∀ (fuel : Nat) (f : FileData) (rest : Bytes),
    (parseExtraField fuel f rest).1.fileNameRaw = f.fileNameRaw ∧
    (parseExtraField fuel f rest).1.extraField = f.extraField := by
  intro fuel
  induction fuel with
  | zero => intro f rest; unfold parseExtraField; exact ⟨rfl, rfl⟩
  | succ n ih =>
    intro f rest
    unfold parseExtraField
    repeat' (first
      | exact ⟨rfl, rfl⟩
      | exact ⟨(ih _ _).1, (ih _ _).2⟩
      | split
      | dsimp only)

/-! ## Streaming reader: fuel adequacy -/

/-- Entry loop of the streaming reader: every entry consumes ≥ 30 bytes that exist, so
`(len - pos) / 30 + 1` iterations always suffice; more fuel changes nothing. -/
theorem streamEntries_fuel_mono (ext : Ext) : ∀ (fuel extra : Nat) (fa : Option Nat) (d : Dev),
    d.buf.length - d.pos < 30 * fuel →
    streamEntries ext (fuel + extra) fa d = streamEntries ext fuel fa d := by
  intro fuel
  induction fuel with
  | zero => intro extra fa d h; omega
  | succ n ih =>
    intro extra fa d h
    rw [show n + 1 + extra = (n + extra) + 1 by omega]
    unfold streamEntries
    refine M.bind_congr_at fun e d1 he => ?_
    split
    · rfl
    · rename_i x
      obtain ⟨hb, hp, hl⟩ := (streamEntry_adv ext).elim he rfl
      have hl := hl (.inr (by omega))
      refine M.bind_congr_left_at (ih extra fa d1 ?_)
      rw [hb]
      omega

/-- Central-directory loop of the streaming reader: ≥ 46 bytes per record. -/
theorem streamCentralLoop_fuel_mono : ∀ (fuel extra : Nat) (fa : Option Nat) (d : Dev),
    d.buf.length - d.pos < 46 * fuel →
    streamCentralLoop (fuel + extra) fa d = streamCentralLoop fuel fa d := by
  intro fuel
  induction fuel with
  | zero => intro extra fa d h; omega
  | succ n ih =>
    intro extra fa d h
    rw [show n + 1 + extra = (n + extra) + 1 by omega]
    unfold streamCentralLoop
    refine M.bind_congr_at fun sig d1 hs => ?_
    obtain ⟨hb1, hp1, hl1⟩ := M.readU32_ok_inv hs
    split
    · rfl
    · refine M.bind_congr_at fun f d2 hf => ?_
      obtain ⟨hb2, hp2, hl2⟩ := (centralHeaderInner_adv (p := fun _ => True) 0 0).elim hf trivial
      have hl2 := hl2 (.inr (by omega))
      refine M.bind_congr_left_at (ih extra fa d2 ?_)
      rw [hb2, hb1] at *
      omega

/-- `ZipStreamReader::visit` with explicit fuels. -/
def streamVisitFuel (ext : Ext) (f1 f2 : Nat) : M (List (FileData × Out Bytes) × List FileData) := do
  let files ← streamEntries ext f1
  let first ← centralHeaderInner 0 0
  let rest ← streamCentralLoop f2
  pure (files, first :: rest)

theorem streamVisit_eq_fuel (ext : Ext) (fa : Option Nat) (d : Dev) :
    streamVisit ext fa d = streamVisitFuel ext (d.buf.length / 30 + 1) (d.buf.length / 46 + 1) fa d :=
  rfl

theorem streamVisitFuel_mono (ext : Ext) (fa : Option Nat) (d : Dev) (k1 k2 : Nat) :
    streamVisitFuel ext (d.buf.length / 30 + 1 + k1) (d.buf.length / 46 + 1 + k2) fa d =
      streamVisitFuel ext (d.buf.length / 30 + 1) (d.buf.length / 46 + 1) fa d := by
  unfold streamVisitFuel
  have h1 : d.buf.length - d.pos < 30 * (d.buf.length / 30 + 1) := by omega
  refine (M.bind_congr_left_at (streamEntries_fuel_mono ext _ k1 fa d h1)).trans ?_
  refine M.bind_congr_at fun files d1 hfiles => ?_
  have hb1 := (streamEntries_readOnly ext _).ok hfiles
  refine M.bind_congr_at fun first d2 hfirst => ?_
  have hb2 := (centralHeaderInner_readOnly 0 0).ok hfirst
  have h2 : d2.buf.length - d2.pos < 46 * (d.buf.length / 46 + 1) := by
    rw [hb2, hb1]; omega
  exact M.bind_congr_left_at (streamCentralLoop_fuel_mono _ k2 fa d2 h2)

/-! ## The central-directory loop of `ZipArchive::new` -/

/-- `n` successfully parsed headers have consumed ≥ 46·n bytes that exist. -/
theorem readCentralLoop_ok (off : Nat) : ∀ (n : Nat) {fa : Option Nat} {d d' : Dev}
    {files : List FileData}, readCentralLoop off n fa d = (.ok files, d') →
    files.length = n ∧ d'.buf = d.buf ∧ d.pos + 46 * n ≤ d'.pos ∧
      (0 < n → d'.pos ≤ d.buf.length) := by
  intro n
  induction n with
  | zero =>
    intro fa d d' files h
    unfold readCentralLoop at h
    obtain ⟨rfl, rfl⟩ := M.pure_ok_inv h
    exact ⟨rfl, rfl, by omega, fun h => absurd h (Nat.lt_irrefl 0)⟩
  | succ n ih =>
    intro fa d d' files h
    unfold readCentralLoop at h
    obtain ⟨f, d1, hf, h⟩ := M.bind_ok_inv h
    obtain ⟨rest, d2, hrest, h⟩ := M.bind_ok_inv h
    obtain ⟨rfl, rfl⟩ := M.pure_ok_inv h
    obtain ⟨hb1, hp1, hl1⟩ := (centralHeader_adv (p := fun _ => True) off).elim hf trivial
    have hl1 := hl1 (.inr (by omega))
    obtain ⟨hlen, hb2, hp2, hl2⟩ := ih hrest
    rw [hb1] at hl2
    refine ⟨by simp [hlen], hb2.trans hb1, by omega, fun _ => ?_⟩
    by_cases hn : 0 < n
    · exact hl2 hn
    · have : n = 0 := by omega
      subst this
      unfold readCentralLoop at hrest
      obtain ⟨_, rfl⟩ := M.pure_ok_inv hrest
      exact hl1

/-- The loop stops at the first error: a larger declared count fails in exactly the same way. -/
theorem readCentralLoop_err_mono (off : Nat) : ∀ (n k : Nat) {fa : Option Nat} {d d' : Dev} {e : ZErr},
    readCentralLoop off n fa d = (.err e, d') → readCentralLoop off (n + k) fa d = (.err e, d') := by
  intro n
  induction n with
  | zero =>
    intro k fa d d' e h
    unfold readCentralLoop at h
    cases h
  | succ n ih =>
    intro k fa d d' e h
    rw [show n + 1 + k = (n + k) + 1 by omega]
    unfold readCentralLoop at h ⊢
    rcases M.bind_err_inv h with h1 | ⟨f, d1, h1, h2⟩
    · exact M.bind_of_err h1
    · rw [M.bind_of_ok h1]
      rcases M.bind_err_inv h2 with h3 | ⟨rest, d2, _, h4⟩
      · exact M.bind_of_err (ih k h3)
      · cases h4

/-! ## Transient buffers: every `vec![0; n]` of the parsers has a 16-bit length -/

theorem parseEocd_comment_len : PostV (fun e => e.comment.length ≤ 65535) parseEocd := by
  unfold parseEocd
  postv
  rename_i clen comment hc
  have := clen.toNat_lt
  show comment.length ≤ 65535
  omega


theorem u16_le (x : UInt16) : x.toNat ≤ 65535 := Nat.le_of_lt_succ x.toNat_lt

theorem centralHeaderInner_raw_len (off start : Nat) :
    PostV (fun f => f.fileNameRaw.length ≤ 65535 ∧ f.extraField.length ≤ 65535)
      (centralHeaderInner off start) := by
  unfold centralHeaderInner
  postv
  all_goals
    refine ⟨?_, ?_⟩
    · show (parseExtraField _ _ _).1.fileNameRaw.length ≤ 65535
      rw [(parseExtraField_raw _ _ _).1]
      dsimp only
      simp only [*]
      exact u16_le _
    · show (parseExtraField _ _ _).1.extraField.length ≤ 65535
      rw [(parseExtraField_raw _ _ _).2]
      dsimp only
      simp only [*]
      exact u16_le _

theorem centralHeader_raw_len (off : Nat) :
    PostV (fun f => f.fileNameRaw.length ≤ 65535 ∧ f.extraField.length ≤ 65535)
      (centralHeader off) := by
  unfold centralHeader
  postv [centralHeaderInner_raw_len _ _]

/-! ## Bounds on what `ZipArchive::new` builds -/

/-- Whatever count the archive declares, the loop performs at most `len / 46 + 1` iterations: for
every larger count it fails exactly like the loop of `len / 46 + 1` iterations (same error, same
final device state). -/
theorem readCentralLoop_iters (off n : Nat) (fa : Option Nat) (d : Dev)
    (hn : d.buf.length / 46 + 1 ≤ n) :
    ∃ e d', readCentralLoop off (d.buf.length / 46 + 1) fa d = (.err e, d') ∧
      readCentralLoop off n fa d = (.err e, d') := by
  generalize hr : readCentralLoop off (d.buf.length / 46 + 1) fa d = r
  obtain ⟨(files | e | s), d'⟩ := r
  · obtain ⟨_, _, hp, hl⟩ := readCentralLoop_ok off _ hr
    have := hl (by omega)
    omega
  · refine ⟨e, d', rfl, ?_⟩
    have := readCentralLoop_err_mono off _ (n - (d.buf.length / 46 + 1)) hr
    rwa [show d.buf.length / 46 + 1 + (n - (d.buf.length / 46 + 1)) = n by omega] at this
  · have := (readCentralLoop_noPanic off (d.buf.length / 46 + 1)).elim fa d
    rw [hr] at this
    exact (this rfl).elim

/-- An opened archive has at most `len / 46` entries. -/
theorem openArchive_entries_bound {fa : Option Nat} {d d' : Dev} {a : Archive}
    (h : openArchive fa d = (.ok a, d')) : 46 * a.files.length ≤ d.buf.length := by
  unfold openArchive at h
  obtain ⟨⟨footer, cde⟩, d1, h1, h2⟩ := M.bind_ok_inv h
  dsimp only at h2
  split at h2
  · exact (M.throw_ok_inv h2).elim
  · obtain ⟨⟨off, ds, n⟩, d2, h3, h4⟩ := M.bind_ok_inv h2
    dsimp only at h4
    obtain ⟨r, d3, h5, h6⟩ := M.bind_ok_inv h4
    cases r with
    | error e => exact (M.throw_ok_inv h6).elim
    | ok v =>
      dsimp only at h6
      obtain ⟨files, d4, h7, h8⟩ := M.bind_ok_inv h6
      obtain ⟨rfl, _⟩ := M.pure_ok_inv h8
      obtain ⟨hlen, _, hp, hl⟩ := readCentralLoop_ok off n h7
      have b1 := findAndParseEocd_readOnly.ok h1
      have b2 := (getDirectoryCounts_readOnly _ _).ok h3
      have b3 := (ReadOnly.attempt (ReadOnly.seek _)).ok h5
      have hb : d3.buf.length = d.buf.length := by rw [b3, b2, b1]
      show 46 * files.length ≤ d.buf.length
      by_cases hn : 0 < n
      · have := hl hn
        omega
      · omega

/-- `openArchiveAlloc` (the function the translated `ZipArchive::new` is tied to): the entry bound of
`openArchive`, and where the requested capacity comes from. -/
theorem openArchiveAlloc_bounds {fa : Option Nat} {d d' : Dev} {a : Archive} {cap : Nat}
    (h : openArchiveAlloc fa d = (.ok (a, cap), d')) :
    46 * a.files.length ≤ d.buf.length ∧
    ∃ e cde d1 n ds, findAndParseEocd fa d = (.ok (e, cde), d1) ∧ cap = fileCapacity n cde ds := by
  unfold openArchiveAlloc at h
  obtain ⟨⟨footer, cde⟩, d1, h1, h2⟩ := M.bind_ok_inv h
  dsimp only at h2
  split at h2
  · exact (M.throw_ok_inv h2).elim
  · obtain ⟨⟨off, ds, n⟩, d2, h3, h4⟩ := M.bind_ok_inv h2
    dsimp only at h4
    obtain ⟨r, d3, h5, h6⟩ := M.bind_ok_inv h4
    cases r with
    | error e => exact (M.throw_ok_inv h6).elim
    | ok v =>
      dsimp only at h6
      obtain ⟨files, d4, h7, h8⟩ := M.bind_ok_inv h6
      obtain ⟨he, _⟩ := M.pure_ok_inv h8
      obtain ⟨rfl, rfl⟩ := Prod.mk.inj he
      obtain ⟨hlen, _, hp, hl⟩ := readCentralLoop_ok off n h7
      have b1 := findAndParseEocd_readOnly.ok h1
      have b2 := (getDirectoryCounts_readOnly _ _).ok h3
      have b3 := (ReadOnly.attempt (ReadOnly.seek _)).ok h5
      have hb : d3.buf.length = d.buf.length := by rw [b3, b2, b1]
      refine ⟨?_, footer, cde, d1, n, ds, h1, rfl⟩
      show 46 * files.length ≤ d.buf.length
      by_cases hn : 0 < n
      · have := hl hn
        omega
      · omega

/-! ## `new_append`: where the writer stands afterwards -/

theorem newAppend_loop_ok (off : Nat) : ∀ (n : Nat) {fa : Option Nat} {d d' : Dev}
    {files : List FileData}, newAppend.loop off n fa d = (.ok files, d') →
    d'.buf = d.buf ∧ d.pos ≤ d'.pos ∧ (0 < n → d'.pos ≤ d.buf.length) := by
  intro n
  induction n with
  | zero =>
    intro fa d d' files h
    unfold newAppend.loop at h
    obtain ⟨_, rfl⟩ := M.pure_ok_inv h
    exact ⟨rfl, Nat.le_refl _, fun h => absurd h (Nat.lt_irrefl 0)⟩
  | succ n ih =>
    intro fa d d' files h
    unfold newAppend.loop at h
    obtain ⟨f, d1, hf, h⟩ := M.bind_ok_inv h
    -- the A6 check (decoded name too long to be written back) performs no I/O
    split at h
    · exact (M.throw_ok_inv h).elim
    obtain ⟨rest, d2, hrest, h⟩ := M.bind_ok_inv h
    obtain ⟨_, rfl⟩ := M.pure_ok_inv h
    obtain ⟨hb1, hp1, hl1⟩ := (centralHeader_adv (p := fun _ => True) off).elim hf trivial
    have hl1 := hl1 (.inr (by omega))
    obtain ⟨hb2, hp2, hl2⟩ := ih hrest
    rw [hb1] at hl2
    refine ⟨hb2.trans hb1, by omega, fun _ => ?_⟩
    by_cases hn : 0 < n
    · exact hl2 hn
    · have : n = 0 := by omega
      subst this
      unfold newAppend.loop at hrest
      obtain ⟨_, rfl⟩ := M.pure_ok_inv hrest
      exact hl1

theorem M.attempt_ok_inv {α} {x : M α} {fa : Option Nat} {d d' : Dev} {r : Except ZErr α}
    (h : M.attempt x fa d = (.ok r, d')) :
    (∃ a, r = .ok a ∧ x fa d = (.ok a, d')) ∨ (∃ e, r = .error e ∧ x fa d = (.err e, d')) := by
  unfold M.attempt at h
  generalize x fa d = q at h
  obtain ⟨(a | e | s), d1⟩ := q
  · cases h; exact .inl ⟨a, rfl, rfl⟩
  · cases h; exact .inr ⟨e, rfl, rfl⟩
  · cases h

theorem M.seek_start_err_inv {n : Nat} {fa : Option Nat} {d d' : Dev} {e : ZErr}
    (h : M.seek (.start n) fa d = (.err e, d')) :
    d'.buf = d.buf ∧ d'.pos = d.pos ∧ fa ≠ none := by
  unfold M.seek M.prim at h
  dsimp only at h
  split at h
  · rename_i hfa
    cases h
    exact ⟨rfl, rfl, by rw [hfa]; exact fun h => by cases h⟩
  · split at h
    · rename_i hneg
      exact absurd hneg (by omega)
    · cases h

/-- A successful `new_append` — under ANY fault index — leaves the sink untouched and positioned on the
directory start, at least 22 bytes in front of the end of the input (since the D22 repair a failure of
the repositioning seek is an error: `Ok` means the seek happened). -/
theorem newAppend_position_bounded {fa : Option Nat} {d d' : Dev} {s : WState}
    (h : newAppend fa d = (.ok s, d')) :
    d'.buf = d.buf ∧ d'.pos + 22 ≤ d.buf.length := by
  have hbuf := newAppend_readOnly.ok h
  refine ⟨hbuf, ?_⟩
  unfold newAppend at h
  obtain ⟨⟨footer, cde⟩, d1, h1, h2⟩ := M.bind_ok_inv h
  have hcde := findAndParseEocd_cde_le h1
  have b1 := findAndParseEocd_readOnly.ok h1
  dsimp only at h2
  split at h2
  · exact (M.throw_ok_inv h2).elim
  · obtain ⟨⟨off, ds, n⟩, d2, h3, h4⟩ := M.bind_ok_inv h2
    have b2 := (getDirectoryCounts_readOnly _ _).ok h3
    dsimp only at h4
    split at h4
    · exact (M.throw_ok_inv h4).elim
    · rename_i hds
      obtain ⟨r, d3, h5, h6⟩ := M.bind_ok_inv h4
      cases r with
      | error e => exact (M.throw_ok_inv h6).elim
      | ok v =>
        dsimp only at h6
        obtain ⟨files, d4, h7, h8⟩ := M.bind_ok_inv h6
        obtain ⟨r2, d5, h9, h10⟩ := M.bind_ok_inv h8
        obtain ⟨_, rfl⟩ := M.pure_ok_inv h10
        obtain ⟨_, _, p5⟩ := M.seek_start_ok_inv h9
        omega

end ZipVerif.Model
