import ZipVerif.Model.Reader
import ZipVerif.Model.Writer
/-
C05 helper lemmas: panic-freedom (`NoPanic`), read-only-ness (`ReadOnly`) and success postconditions
(`Post`: how far a successful parser advances the device) of every reader-model function, closed
under the constructs the model is written with (`pure`, bind, `throw`, `attempt`, primitives,
`if`/`match`).
-/

namespace ZipVerif.Model
open ZipVerif

/-! ## `NoPanic` -/

/-- `x` never returns `Out.panic`, on any device and under any injected fault index. -/
def NoPanic {α} (x : M α) : Prop := ∀ fa d, ¬ (x fa d).1.isPanic = true

/-- Every real in-memory or file input is shorter than 2^63 bytes. -/
def DevSane (d : Dev) : Prop := d.buf.length < 2 ^ 63

/-- `x` never panics on sane devices. -/
def NoPanicOn {α} (P : Dev → Prop) (x : M α) : Prop := ∀ fa d, P d → ¬ (x fa d).1.isPanic = true

theorem NoPanic.on {α} {P : Dev → Prop} {x : M α} (h : NoPanic x) : NoPanicOn P x :=
  fun fa d _ => h fa d

namespace NoPanic
variable {α β : Type}

theorem pure (a : α) : NoPanic (Pure.pure a : M α) := fun _ _ h => by cases h

theorem throw (e : ZErr) : NoPanic (M.throw e : M α) := fun _ _ h => by cases h

theorem getDev : NoPanic M.getDev := fun _ _ h => by cases h

theorem bind {x : M α} {f : α → M β} (hx : NoPanic x) (hf : ∀ a, NoPanic (f a)) :
    NoPanic (x >>= f) := by
  intro fa d
  show ¬ (match x fa d with
    | (.ok a, d') => f a fa d'
    | (.err e, d') => (.err e, d')
    | (.panic s, d') => (.panic s, d')).1.isPanic = true
  have h := hx fa d
  split
  · exact hf _ fa _
  · intro h; cases h
  · rename_i s d' heq
    rw [heq] at h; exact fun _ => h rfl

theorem attempt {x : M α} (hx : NoPanic x) : NoPanic (M.attempt x) := by
  intro fa d
  have h := hx fa d
  unfold M.attempt
  split
  · intro h; cases h
  · intro h; cases h
  · rename_i s d' heq
    rw [heq] at h; exact fun _ => h rfl

theorem liftOut {o : Out α} (h : ¬ o.isPanic = true) : NoPanic (M.liftOut o) := fun _ _ => h

theorem prim {f : Dev → Out α × Dev} (h : ∀ d, ¬ (f d).1.isPanic = true) : NoPanic (M.prim f) := by
  intro fa d
  unfold M.prim
  dsimp only
  split
  · intro h; cases h
  · exact h _

theorem read (n : Nat) : NoPanic (M.read n) := prim fun _ h => by cases h

theorem write (bs : Bytes) : NoPanic (M.write bs) := prim fun _ h => by cases h

theorem flush : NoPanic M.flush := prim fun _ h => by cases h

theorem seek (s : SeekFrom) : NoPanic (M.seek s) := prim fun d => by
  cases s <;> dsimp only <;> split <;> (intro h; cases h)

theorem streamPosition : NoPanic M.streamPosition := seek _

theorem ite {c : Prop} [Decidable c] {x y : M α} (hx : NoPanic x) (hy : NoPanic y) :
    NoPanic (if c then x else y) := by
  split
  · exact hx
  · exact hy

theorem elim {x : M α} (h : NoPanic x) (fa : Option Nat) (d : Dev) : ¬ (x fa d).1.isPanic = true :=
  h fa d

theorem intro {x : M α} (h : ∀ fa d, ¬ (x fa d).1.isPanic = true) : NoPanic x := h

end NoPanic

attribute [irreducible] NoPanic

/-- Walk a `do` block: bind rule, case splits, and the leaf rules given as extra terms. -/
syntax "no_panic" (" [" term,* "]")? : tactic
macro_rules
  | `(tactic| no_panic) => `(tactic| no_panic [])
  | `(tactic| no_panic [$ts,*]) => `(tactic|
      repeat (first
        | first $[| exact $ts]*
        | exact NoPanic.pure _
        | exact NoPanic.throw _
        | exact NoPanic.read _
        | exact NoPanic.seek _
        | exact NoPanic.streamPosition
        | exact NoPanic.getDev
        | apply NoPanic.attempt
        | apply NoPanic.bind
        | apply NoPanic.ite
        | intro _
        | dsimp only
        | split))

namespace NoPanic

theorem readExact (n : Nat) : NoPanic (M.readExact n) := by
  unfold M.readExact
  no_panic

theorem readU8 : NoPanic M.readU8 := by
  unfold M.readU8
  no_panic [readExact _]

theorem readU16 : NoPanic M.readU16 := by
  unfold M.readU16
  no_panic [readExact _]

theorem readU32 : NoPanic M.readU32 := by
  unfold M.readU32
  no_panic [readExact _]

theorem readU64 : NoPanic M.readU64 := by
  unfold M.readU64
  no_panic [readExact _]

end NoPanic

/-- `no_panic` with the derived read primitives as leaves. -/
syntax "np" (" [" term,* "]")? : tactic
macro_rules
  | `(tactic| np) => `(tactic| np [])
  | `(tactic| np [$ts,*]) => `(tactic|
      no_panic [$ts,*, NoPanic.readExact _, NoPanic.readU8, NoPanic.readU16, NoPanic.readU32,
        NoPanic.readU64])

/-! ### Records -/

theorem parseEocd_noPanic : NoPanic parseEocd := by
  unfold parseEocd
  np

theorem parseLocator_noPanic : NoPanic parseLocator := by
  unfold parseLocator
  np

theorem findEocdLoop_noPanic (bound fuel pos : Nat) : NoPanic (findEocdLoop bound fuel pos) := by
  induction fuel generalizing pos with
  | zero => unfold findEocdLoop; np
  | succ n ih => unfold findEocdLoop; np [parseEocd_noPanic, ih _]


theorem findAndParseEocd_noPanic : NoPanic findAndParseEocd := by
  delta findAndParseEocd
  np [findEocdLoop_noPanic _ _ _]

theorem findEocd64Loop_noPanic (nominal upper fuel pos : Nat) :
    NoPanic (findEocd64Loop nominal upper fuel pos) := by
  induction fuel generalizing pos with
  | zero => unfold findEocd64Loop; np
  | succ n ih => unfold findEocd64Loop; np [ih _]

theorem findEocd64_noPanic (nominal upper : Nat) : NoPanic (findEocd64 nominal upper) :=
  findEocd64Loop_noPanic _ _ _ _

theorem getDirectoryCounts_noPanic (footer : Eocd) (cdeStart : Nat) :
    NoPanic (getDirectoryCounts footer cdeStart) := by
  unfold getDirectoryCounts
  np [parseLocator_noPanic, findEocd64_noPanic _ _]

theorem centralHeaderInner_noPanic (off start : Nat) : NoPanic (centralHeaderInner off start) := by
  unfold centralHeaderInner
  np

theorem centralHeader_noPanic (off : Nat) : NoPanic (centralHeader off) := by
  unfold centralHeader
  np [centralHeaderInner_noPanic _ _]

/-! ### Reader -/

theorem readCentralLoop_noPanic (off n : Nat) : NoPanic (readCentralLoop off n) := by
  induction n with
  | zero => unfold readCentralLoop; np
  | succ n ih => unfold readCentralLoop; np [centralHeader_noPanic _, ih]

theorem openArchive_noPanic : NoPanic openArchive := by
  unfold openArchive
  np [findAndParseEocd_noPanic, getDirectoryCounts_noPanic _ _, readCentralLoop_noPanic _ _]

theorem takeAll_noPanic (limit : Nat) : NoPanic (takeAll limit) := by
  unfold takeAll
  np

/-- External code (decoders, decryption layers) is assumed not to panic: hypothesis of C05. -/
structure ExtNoPanic (ext : Ext) : Prop where
  decode : ∀ m bs, ¬ (ext.decode m bs).isPanic = true
  zipCrypto : ∀ pw c raw, ¬ (ext.zipCrypto pw c raw).isPanic = true
  aes : ∀ pw mode cs raw, ¬ (ext.aes pw mode cs raw).isPanic = true
  aesStream : ∀ pw mode cs raw s, ext.aes pw mode cs raw = .ok (some s) → ¬ s.isPanic = true

/-- The `Ext` with only the Stored "decoder" and no decryption support. -/
def storedExt : Ext where
  decode _ raw := .ok raw
  zipCrypto _ _ _ := .err .unsupportedArchive
  aes _ _ _ _ := .err .unsupportedArchive

theorem storedExt_noPanic : ExtNoPanic storedExt where
  decode _ _ h := by cases h
  zipCrypto _ _ _ h := by cases h
  aes _ _ _ _ h := by cases h
  aesStream _ _ _ _ _ h := by cases h

theorem streamHeader_noPanic : NoPanic streamHeader := by
  unfold streamHeader
  np

theorem streamEntry_noPanic (ext : Ext) : NoPanic (streamEntry ext) := by
  unfold streamEntry
  np [streamHeader_noPanic, takeAll_noPanic _]

theorem streamEntries_noPanic (ext : Ext) (fuel : Nat) : NoPanic (streamEntries ext fuel) := by
  induction fuel with
  | zero => unfold streamEntries; np
  | succ n ih => unfold streamEntries; np [streamEntry_noPanic _, ih]

theorem streamCentralLoop_noPanic (fuel : Nat) : NoPanic (streamCentralLoop fuel) := by
  induction fuel with
  | zero => unfold streamCentralLoop; np
  | succ n ih => unfold streamCentralLoop; np [centralHeaderInner_noPanic _ _, ih]

theorem streamVisit_noPanic (ext : Ext) : NoPanic (streamVisit ext) := by
  unfold streamVisit
  np [streamEntries_noPanic _ _, centralHeaderInner_noPanic _ _, streamCentralLoop_noPanic _]

theorem newAppend_loop_noPanic (off n : Nat) : NoPanic (newAppend.loop off n) := by
  induction n with
  | zero => unfold newAppend.loop; np
  | succ n ih => unfold newAppend.loop; np [centralHeader_noPanic _, ih]

theorem newAppend_noPanic : NoPanic newAppend := by
  unfold newAppend
  np [findAndParseEocd_noPanic, getDirectoryCounts_noPanic _ _, newAppend_loop_noPanic _ _]

/-! ## Inversion of the monad operations on a successful run -/

namespace M
variable {α β : Type}

theorem bind_ok_inv {x : M α} {f : α → M β} {fa : Option Nat} {d d'' : Dev} {b : β}
    (h : (x >>= f) fa d = (.ok b, d'')) :
    ∃ a d', x fa d = (.ok a, d') ∧ f a fa d' = (.ok b, d'') := by
  change (match x fa d with
    | (.ok a, d') => f a fa d'
    | (.err e, d') => (.err e, d')
    | (.panic s, d') => (.panic s, d')) = _ at h
  generalize x fa d = r at h
  obtain ⟨(a | e | s), d'⟩ := r
  · exact ⟨a, d', rfl, h⟩
  · cases h
  · cases h

theorem pure_ok_inv {a b : α} {fa : Option Nat} {d d' : Dev}
    (h : (Pure.pure a : M α) fa d = (.ok b, d')) : b = a ∧ d' = d := by
  cases h; exact ⟨rfl, rfl⟩

theorem throw_ok_inv {e : ZErr} {b : α} {fa : Option Nat} {d d' : Dev}
    (h : (M.throw e : M α) fa d = (.ok b, d')) : False := by
  cases h

theorem prim_ok_inv {f : Dev → Out α × Dev} {fa : Option Nat} {d d' : Dev} {a : α}
    (h : M.prim f fa d = (.ok a, d')) : f { d with calls := d.calls + 1 } = (.ok a, d') := by
  unfold M.prim at h
  dsimp only at h
  split at h
  · cases h
  · exact h

theorem read_ok_inv {n : Nat} {fa : Option Nat} {d d' : Dev} {r : Bytes}
    (h : M.read n fa d = (.ok r, d')) :
    r = (d.buf.drop d.pos).take n ∧ d'.buf = d.buf ∧ d'.pos = d.pos + r.length := by
  have h := prim_ok_inv h
  cases h
  exact ⟨rfl, rfl, rfl⟩

theorem seek_start_ok_inv {n : Nat} {fa : Option Nat} {d d' : Dev} {a : Nat}
    (h : M.seek (.start n) fa d = (.ok a, d')) : a = n ∧ d'.buf = d.buf ∧ d'.pos = n := by
  have h := prim_ok_inv h
  dsimp only at h
  split at h
  · cases h
  · cases h; exact ⟨by simp, rfl, by simp⟩

theorem seek_end0_ok_inv {fa : Option Nat} {d d' : Dev} {a : Nat}
    (h : M.seek (.endOff 0) fa d = (.ok a, d')) : a = d.buf.length ∧ d'.buf = d.buf := by
  have h := prim_ok_inv h
  dsimp only at h
  split at h
  · cases h
  · cases h; exact ⟨by simp, rfl⟩

theorem streamPosition_ok_inv {fa : Option Nat} {d d' : Dev} {a : Nat}
    (h : M.streamPosition fa d = (.ok a, d')) : a = d.pos ∧ d'.buf = d.buf ∧ d'.pos = d.pos := by
  have h := prim_ok_inv h
  dsimp only at h
  cases h
  exact ⟨by simp, rfl, rfl⟩

/-- A successful `read_exact(n)` returns exactly `n` bytes, which all exist on the device. -/
theorem readExact_ok_inv {n : Nat} {fa : Option Nat} {d d' : Dev} {r : Bytes}
    (h : M.readExact n fa d = (.ok r, d')) :
    r.length = n ∧ d'.buf = d.buf ∧ d'.pos = d.pos + n ∧ (0 < n → d'.pos ≤ d.buf.length) := by
  unfold M.readExact at h
  split at h
  · obtain ⟨rfl, rfl⟩ := pure_ok_inv h
    subst n
    exact ⟨rfl, rfl, rfl, fun h => absurd h (Nat.lt_irrefl 0)⟩
  · obtain ⟨r1, d1, h1, h2⟩ := bind_ok_inv h
    obtain ⟨hr, hb, hp⟩ := read_ok_inv h1
    split at h2
    · obtain ⟨rfl, rfl⟩ := pure_ok_inv h2
      rename_i hlen
      have hl : r.length ≤ d.buf.length - d.pos := by
        rw [hr, List.length_take, List.length_drop]; omega
      refine ⟨hlen, hb, by omega, fun _ => by omega⟩
    · split at h2
      · exact (throw_ok_inv h2).elim
      · obtain ⟨_, _, _, h3⟩ := bind_ok_inv h2
        exact (throw_ok_inv h3).elim

end M

namespace M

theorem readU16_ok_inv {fa : Option Nat} {d d' : Dev} {v : UInt16}
    (h : M.readU16 fa d = (.ok v, d')) :
    d'.buf = d.buf ∧ d'.pos = d.pos + 2 ∧ d'.pos ≤ d.buf.length := by
  unfold M.readU16 at h
  obtain ⟨r, d1, h1, h2⟩ := bind_ok_inv h
  obtain ⟨_, hb, hp, hl⟩ := readExact_ok_inv h1
  split at h2
  · obtain ⟨_, rfl⟩ := pure_ok_inv h2
    exact ⟨hb, hp, hl (by omega)⟩
  · exact (throw_ok_inv h2).elim

theorem readU32_ok_inv {fa : Option Nat} {d d' : Dev} {v : UInt32}
    (h : M.readU32 fa d = (.ok v, d')) :
    d'.buf = d.buf ∧ d'.pos = d.pos + 4 ∧ d'.pos ≤ d.buf.length := by
  unfold M.readU32 at h
  obtain ⟨r, d1, h1, h2⟩ := bind_ok_inv h
  obtain ⟨_, hb, hp, hl⟩ := readExact_ok_inv h1
  split at h2
  · obtain ⟨_, rfl⟩ := pure_ok_inv h2
    exact ⟨hb, hp, hl (by omega)⟩
  · exact (throw_ok_inv h2).elim

theorem readU64_ok_inv {fa : Option Nat} {d d' : Dev} {v : UInt64}
    (h : M.readU64 fa d = (.ok v, d')) :
    d'.buf = d.buf ∧ d'.pos = d.pos + 8 ∧ d'.pos ≤ d.buf.length := by
  unfold M.readU64 at h
  obtain ⟨r, d1, h1, h2⟩ := bind_ok_inv h
  obtain ⟨_, hb, hp, hl⟩ := readExact_ok_inv h1
  split at h2
  · obtain ⟨_, rfl⟩ := pure_ok_inv h2
    exact ⟨hb, hp, hl (by omega)⟩
  · exact (throw_ok_inv h2).elim

end M

/-! ## Pointwise panic-freedom, for the one place where the device matters -/

/-- `x` does not panic when run on `d` with fault index `fa`. -/
def NoPanicAt {α} (x : M α) (fa : Option Nat) (d : Dev) : Prop := ¬ (x fa d).1.isPanic = true

theorem NoPanicAt.bind {α β} {x : M α} {f : α → M β} {fa : Option Nat} {d : Dev}
    (hx : NoPanicAt x fa d) (hf : ∀ a d', x fa d = (.ok a, d') → NoPanicAt (f a) fa d') :
    NoPanicAt (x >>= f) fa d := by
  unfold NoPanicAt at *
  show ¬ (match x fa d with
    | (.ok a, d') => f a fa d'
    | (.err e, d') => (.err e, d')
    | (.panic s, d') => (.panic s, d')).1.isPanic = true
  generalize hr : x fa d = r at hx hf
  obtain ⟨(a | e | s), d'⟩ := r
  · exact hf a d' rfl
  · intro h; cases h
  · exact fun _ => hx rfl

/-- read.rs:201 — `header_start + 30 + n + m` cannot overflow: the 4-byte signature read at
`header_start` fails with `UnexpectedEof` unless `header_start + 4 ≤ len`, and `len < 2^63`. -/
theorem findContent_noPanicOn (f : FileData) : NoPanicOn DevSane (findContent f) := by
  intro fa d hsane
  unfold DevSane at hsane
  show NoPanicAt (findContent f) fa d
  unfold findContent
  refine NoPanicAt.bind ((NoPanic.seek _).elim _ _) fun _ d1 h1 => ?_
  obtain ⟨_, hb1, hp1⟩ := M.seek_start_ok_inv h1
  refine NoPanicAt.bind (NoPanic.readU32.elim _ _) fun sig d2 h2 => ?_
  obtain ⟨hb2, hp2, hl2⟩ := M.readU32_ok_inv h2
  split
  · exact (NoPanic.throw _).elim _ _
  · refine NoPanicAt.bind ((NoPanic.seek _).elim _ _) fun _ d3 _ => ?_
    refine NoPanicAt.bind (NoPanic.readU16.elim _ _) fun nameLen d4 _ => ?_
    refine NoPanicAt.bind (NoPanic.readU16.elim _ _) fun extraLen d5 _ => ?_
    dsimp only
    have hn := nameLen.toNat_lt
    have hm := extraLen.toNat_lt
    split
    · rename_i hge
      exfalso
      rw [hb1] at hl2
      omega
    · apply NoPanic.elim
      np

theorem byIndexRaw_noPanicOn (a : Archive) (i : Nat) : NoPanicOn DevSane (byIndexRaw a i) := by
  intro fa d hsane
  show NoPanicAt (byIndexRaw a i) fa d
  unfold byIndexRaw
  split
  · exact (NoPanic.throw _).elim _ _
  · refine NoPanicAt.bind (findContent_noPanicOn _ fa d hsane) fun ds d1 _ => ?_
    apply NoPanic.elim
    np [takeAll_noPanic _]

theorem M.panic_noPanic_false {α} {s : String} (h : NoPanic (M.panic s : M α)) : False :=
  h.elim none (Dev.ofBytes []) rfl

/-- Everything `by_index*` does after `find_content` has returned. -/
theorem byIndexRead_noPanicOn (ext : Ext) (hext : ExtNoPanic ext) (a : Archive) (i : Nat)
    (pw : Option Bytes) : NoPanicOn DevSane (byIndexRead ext a i pw) := by
  intro fa d hsane
  show NoPanicAt (byIndexRead ext a i pw) fa d
  unfold byIndexRead
  split
  · exact (NoPanic.throw _).elim _ _
  · split
    · exact (NoPanic.throw _).elim _ _
    · refine NoPanicAt.bind (findContent_noPanicOn _ fa d hsane) fun ds d1 _ => ?_
      apply NoPanic.elim
      dsimp only
      split
      · exact NoPanic.throw _
      · exact NoPanic.throw _
      · split
        · apply NoPanic.bind (takeAll_noPanic _)
          intro raw
          split
          · exact NoPanic.throw _
          · rename_i s heq
            exact absurd (by rw [heq]; rfl) (hext.aes _ _ _ _)
          · exact NoPanic.pure _
          · exact NoPanic.pure _
        · apply NoPanic.bind (takeAll_noPanic _)
          intro raw
          split
          · exact NoPanic.throw _
          · rename_i s heq
            exact absurd (by rw [heq]; rfl) (hext.zipCrypto _ _ _)
          · exact NoPanic.pure _
          · exact NoPanic.pure _
        · exact NoPanic.pure _
        · np [takeAll_noPanic _]

/-! ### The inner outcome: `read_to_end` on the returned `ZipFile` -/

theorem Out.bind_noPanic {α β} {x : Out α} {f : α → Out β} (hx : ¬ x.isPanic = true)
    (hf : ∀ a, ¬ (f a).isPanic = true) : ¬ (x >>= f).isPanic = true := by
  cases x with
  | ok a => exact hf a
  | err e => intro h; cases h
  | panic s => exact fun _ => hx rfl

theorem crcCheck_noPanic (ae2 : Bool) (c : UInt32) (bs : Bytes) :
    ¬ (crcCheck ae2 c bs).isPanic = true := by
  unfold crcCheck
  split <;> (intro h; cases h)

theorem decodeCrc_noPanic {ext : Ext} (hext : ExtNoPanic ext) (m : Method) (raw : Bytes) (ae2 : Bool)
    (c : UInt32) : ¬ (ext.decode m raw >>= fun dec => crcCheck ae2 c dec).isPanic = true :=
  Out.bind_noPanic (hext.decode _ _) fun _ => crcCheck_noPanic _ _ _

/-! ### Value postconditions of successful runs -/

/-- Every value `x` can return satisfies `Q`. -/
def PostV {α} (Q : α → Prop) (x : M α) : Prop := ∀ fa d a d', x fa d = (.ok a, d') → Q a

namespace PostV
variable {α β : Type} {Q : α → Prop}

theorem pure {a : α} (h : Q a) : PostV Q (Pure.pure a : M α) := by
  intro fa d b d' hb
  obtain ⟨rfl, _⟩ := M.pure_ok_inv hb
  exact h

theorem throw (e : ZErr) : PostV Q (M.throw e : M α) := fun _ _ _ _ h => (M.throw_ok_inv h).elim

theorem panic (s : String) : PostV Q (M.panic s : M α) := fun _ _ _ _ h => by cases h

theorem bind {P : β → Prop} {x : M β} {f : β → M α} (hx : PostV P x)
    (hf : ∀ b, P b → PostV Q (f b)) : PostV Q (x >>= f) := by
  intro fa d a d' h
  obtain ⟨b, d1, h1, h2⟩ := M.bind_ok_inv h
  exact hf b (hx _ _ _ _ h1) _ _ _ _ h2

theorem bind_any {x : M β} {f : β → M α} (hf : ∀ b, PostV Q (f b)) : PostV Q (x >>= f) :=
  bind (P := fun _ => True) (fun _ _ _ _ _ => trivial) fun b _ => hf b

theorem ite {c : Prop} [Decidable c] {x y : M α} (hx : PostV Q x) (hy : PostV Q y) :
    PostV Q (if c then x else y) := by
  split
  · exact hx
  · exact hy

theorem id {x : M α} (h : PostV Q x) : PostV Q x := h

theorem intro {x : M α} (h : ∀ fa d a d', x fa d = (.ok a, d') → Q a) : PostV Q x := h

theorem seekStart (n : Nat) : PostV (fun c => c = n) (M.seek (.start n)) :=
  fun _ _ _ _ h => (M.seek_start_ok_inv h).1

theorem elim {x : M α} (h : PostV Q x) {fa : Option Nat} {d d' : Dev} {a : α}
    (hr : x fa d = (.ok a, d')) : Q a := h _ _ _ _ hr

theorem readExact (n : Nat) : PostV (fun r => r.length = n) (M.readExact n) :=
  fun _ _ _ _ h => (M.readExact_ok_inv h).1

end PostV

attribute [irreducible] PostV

/-- Walk a `do` block down to its `pure` leaves, which are left as goals `Q a`. -/
syntax "postv" (" [" term,* "]")? : tactic
macro_rules
  | `(tactic| postv) => `(tactic| postv [])
  | `(tactic| postv [$ts,*]) => `(tactic|
      repeat' (first
        | first $[| exact $ts]*
        | exact PostV.throw _
        | exact PostV.panic _
        | (apply PostV.bind (PostV.readExact _); intro _ _)
        | (apply PostV.bind_any; intro _)
        | apply PostV.ite
        | (apply PostV.id; dsimp only; done)
        | (apply PostV.id; dsimp only)
        | (apply PostV.id; split)
        | apply PostV.pure))

/-- What a `PwResult` carries when the entry was opened: its `read_to_end` outcome. -/
def PwResult.InnerNoPanic : PwResult (Nat × Out Bytes) → Prop
  | .ok (_, res) => ¬ res.isPanic = true
  | .invalidPassword => True

/-- The `read_to_end` outcome carried by a successful `by_index*` is not a panic either. -/
theorem byIndexRead_inner (ext : Ext) (hext : ExtNoPanic ext) (a : Archive) (i : Nat)
    (pw : Option Bytes) : PostV PwResult.InnerNoPanic (byIndexRead ext a i pw) := by
  unfold byIndexRead
  postv
  · trivial
  · rename_i stream hs
    exact Out.bind_noPanic (hext.aesStream _ _ _ _ _ hs) fun _ => decodeCrc_noPanic hext _ _ _ _
  · trivial
  · exact decodeCrc_noPanic hext _ _ _ _
  · trivial
  · exact decodeCrc_noPanic hext _ _ _ _

theorem streamEntry_inner (ext : Ext) (hext : ExtNoPanic ext) :
    PostV (fun o => ∀ x, o = some x → ¬ x.2.isPanic = true) (streamEntry ext) := by
  unfold streamEntry
  postv
  · intro x hx; cases hx
  · intro x hx; cases hx
    exact decodeCrc_noPanic hext _ _ _ _

theorem streamEntries_inner (ext : Ext) (hext : ExtNoPanic ext) (fuel : Nat) :
    PostV (fun l => ∀ x ∈ l, ¬ x.2.isPanic = true) (streamEntries ext fuel) := by
  induction fuel with
  | zero =>
    unfold streamEntries
    postv
    intro x hx; cases hx
  | succ n ih =>
    unfold streamEntries
    refine PostV.bind (streamEntry_inner ext hext) fun e he => ?_
    split
    · postv
      intro x hx; cases hx
    · rename_i x
      refine PostV.bind ih fun rest hrest => ?_
      postv
      intro y hy
      cases hy with
      | head => exact he x rfl
      | tail _ hy => exact hrest y hy

theorem streamVisit_inner (ext : Ext) (hext : ExtNoPanic ext) :
    PostV (fun r => ∀ x ∈ r.1, ¬ x.2.isPanic = true) (streamVisit ext) := by
  unfold streamVisit
  apply PostV.bind_any; intro d0
  dsimp only
  refine PostV.bind (streamEntries_inner ext hext _) fun files hfiles => ?_
  postv
  exact hfiles

/-! ## `ReadOnly`: the readers never modify the device contents (whatever the outcome) -/

/-- `x` leaves the bytes of the device untouched, on success, error and panic alike. -/
def ReadOnly {α} (x : M α) : Prop := ∀ fa d, (x fa d).2.buf = d.buf

namespace ReadOnly
variable {α β : Type}

theorem pure (a : α) : ReadOnly (Pure.pure a : M α) := fun _ _ => rfl
theorem throw (e : ZErr) : ReadOnly (M.throw e : M α) := fun _ _ => rfl
theorem panic (s : String) : ReadOnly (M.panic s : M α) := fun _ _ => rfl
theorem getDev : ReadOnly M.getDev := fun _ _ => rfl

theorem bind {x : M α} {f : α → M β} (hx : ReadOnly x) (hf : ∀ a, ReadOnly (f a)) :
    ReadOnly (x >>= f) := by
  intro fa d
  show (match x fa d with
    | (.ok a, d') => f a fa d'
    | (.err e, d') => (.err e, d')
    | (.panic s, d') => (.panic s, d')).2.buf = d.buf
  have h := hx fa d
  generalize x fa d = r at h
  obtain ⟨(a | e | s), d'⟩ := r
  · exact (hf a fa d').trans h
  · exact h
  · exact h

theorem attempt {x : M α} (hx : ReadOnly x) : ReadOnly (M.attempt x) := by
  intro fa d
  have h := hx fa d
  unfold M.attempt
  generalize x fa d = r at h
  obtain ⟨(a | e | s), d'⟩ := r <;> exact h

theorem prim {f : Dev → Out α × Dev} (h : ∀ d, (f d).2.buf = d.buf) : ReadOnly (M.prim f) := by
  intro fa d
  unfold M.prim
  dsimp only
  split
  · rfl
  · exact h _

theorem read (n : Nat) : ReadOnly (M.read n) := prim fun _ => rfl

theorem seek (s : SeekFrom) : ReadOnly (M.seek s) := prim fun d => by
  cases s <;> dsimp only <;> split <;> rfl

theorem streamPosition : ReadOnly M.streamPosition := seek _

theorem ite {c : Prop} [Decidable c] {x y : M α} (hx : ReadOnly x) (hy : ReadOnly y) :
    ReadOnly (if c then x else y) := by
  split
  · exact hx
  · exact hy

theorem elim {x : M α} (h : ReadOnly x) (fa : Option Nat) (d : Dev) : (x fa d).2.buf = d.buf := h fa d

theorem ok {x : M α} (h : ReadOnly x) {fa : Option Nat} {d d' : Dev} {a : α}
    (hr : x fa d = (.ok a, d')) : d'.buf = d.buf := by
  have := h fa d
  rw [hr] at this
  exact this

end ReadOnly

attribute [irreducible] ReadOnly

/-- Walk a `do` block with the `ReadOnly` rules. -/
syntax "read_only" (" [" term,* "]")? : tactic
macro_rules
  | `(tactic| read_only) => `(tactic| read_only [])
  | `(tactic| read_only [$ts,*]) => `(tactic|
      repeat (first
        | first $[| exact $ts]*
        | exact ReadOnly.pure _
        | exact ReadOnly.throw _
        | exact ReadOnly.panic _
        | exact ReadOnly.read _
        | exact ReadOnly.seek _
        | exact ReadOnly.streamPosition
        | exact ReadOnly.getDev
        | apply ReadOnly.attempt
        | apply ReadOnly.bind
        | apply ReadOnly.ite
        | intro _
        | dsimp only
        | split))

namespace ReadOnly

theorem readExact (n : Nat) : ReadOnly (M.readExact n) := by
  unfold M.readExact
  read_only

theorem readU8 : ReadOnly M.readU8 := by
  unfold M.readU8
  read_only [readExact _]

theorem readU16 : ReadOnly M.readU16 := by
  unfold M.readU16
  read_only [readExact _]

theorem readU32 : ReadOnly M.readU32 := by
  unfold M.readU32
  read_only [readExact _]

theorem readU64 : ReadOnly M.readU64 := by
  unfold M.readU64
  read_only [readExact _]

end ReadOnly

syntax "ro" (" [" term,* "]")? : tactic
macro_rules
  | `(tactic| ro) => `(tactic| ro [])
  | `(tactic| ro [$ts,*]) => `(tactic|
      read_only [$ts,*, ReadOnly.readExact _, ReadOnly.readU8, ReadOnly.readU16, ReadOnly.readU32,
        ReadOnly.readU64])

theorem parseEocd_readOnly : ReadOnly parseEocd := by
  unfold parseEocd
  ro

theorem parseLocator_readOnly : ReadOnly parseLocator := by
  unfold parseLocator
  ro

theorem findEocdLoop_readOnly (bound fuel pos : Nat) : ReadOnly (findEocdLoop bound fuel pos) := by
  induction fuel generalizing pos with
  | zero => unfold findEocdLoop; ro
  | succ n ih => unfold findEocdLoop; ro [parseEocd_readOnly, ih _]

theorem findAndParseEocd_readOnly : ReadOnly findAndParseEocd := by
  delta findAndParseEocd
  ro [findEocdLoop_readOnly _ _ _]

theorem findEocd64Loop_readOnly (nominal upper fuel pos : Nat) :
    ReadOnly (findEocd64Loop nominal upper fuel pos) := by
  induction fuel generalizing pos with
  | zero => unfold findEocd64Loop; ro
  | succ n ih => unfold findEocd64Loop; ro [ih _]

theorem findEocd64_readOnly (nominal upper : Nat) : ReadOnly (findEocd64 nominal upper) :=
  findEocd64Loop_readOnly _ _ _ _

theorem getDirectoryCounts_readOnly (footer : Eocd) (cdeStart : Nat) :
    ReadOnly (getDirectoryCounts footer cdeStart) := by
  unfold getDirectoryCounts
  ro [parseLocator_readOnly, findEocd64_readOnly _ _]

theorem centralHeaderInner_readOnly (off start : Nat) : ReadOnly (centralHeaderInner off start) := by
  unfold centralHeaderInner
  ro

theorem centralHeader_readOnly (off : Nat) : ReadOnly (centralHeader off) := by
  unfold centralHeader
  ro [centralHeaderInner_readOnly _ _]

theorem readCentralLoop_readOnly (off n : Nat) : ReadOnly (readCentralLoop off n) := by
  induction n with
  | zero => unfold readCentralLoop; ro
  | succ n ih => unfold readCentralLoop; ro [centralHeader_readOnly _, ih]

theorem openArchive_readOnly : ReadOnly openArchive := by
  unfold openArchive
  ro [findAndParseEocd_readOnly, getDirectoryCounts_readOnly _ _, readCentralLoop_readOnly _ _]

theorem takeAll_readOnly (limit : Nat) : ReadOnly (takeAll limit) := by
  unfold takeAll
  ro

theorem findContent_readOnly (f : FileData) : ReadOnly (findContent f) := by
  unfold findContent
  ro

theorem byIndexRaw_readOnly (a : Archive) (i : Nat) : ReadOnly (byIndexRaw a i) := by
  unfold byIndexRaw
  ro [findContent_readOnly _, takeAll_readOnly _]

theorem byIndexRead_readOnly (ext : Ext) (a : Archive) (i : Nat) (pw : Option Bytes) :
    ReadOnly (byIndexRead ext a i pw) := by
  unfold byIndexRead
  ro [findContent_readOnly _, takeAll_readOnly _]

theorem streamHeader_readOnly : ReadOnly streamHeader := by
  unfold streamHeader
  ro

theorem streamEntry_readOnly (ext : Ext) : ReadOnly (streamEntry ext) := by
  unfold streamEntry
  ro [streamHeader_readOnly, takeAll_readOnly _]

theorem streamEntries_readOnly (ext : Ext) (fuel : Nat) : ReadOnly (streamEntries ext fuel) := by
  induction fuel with
  | zero => unfold streamEntries; ro
  | succ n ih => unfold streamEntries; ro [streamEntry_readOnly _, ih]

theorem streamCentralLoop_readOnly (fuel : Nat) : ReadOnly (streamCentralLoop fuel) := by
  induction fuel with
  | zero => unfold streamCentralLoop; ro
  | succ n ih => unfold streamCentralLoop; ro [centralHeaderInner_readOnly _ _, ih]

theorem streamVisit_readOnly (ext : Ext) : ReadOnly (streamVisit ext) := by
  unfold streamVisit
  ro [streamEntries_readOnly _ _, centralHeaderInner_readOnly _ _, streamCentralLoop_readOnly _]

theorem newAppend_loop_readOnly (off n : Nat) : ReadOnly (newAppend.loop off n) := by
  induction n with
  | zero => unfold newAppend.loop; ro
  | succ n ih => unfold newAppend.loop; ro [centralHeader_readOnly _, ih]

/-- Opening for append only reads (the device is written by later `ZipWriter` calls). -/
theorem newAppend_readOnly : ReadOnly newAppend := by
  unfold newAppend
  ro [findAndParseEocd_readOnly, getDirectoryCounts_readOnly _ _, newAppend_loop_readOnly _ _]

/-! ### `by_name*` = lookup in `names_map`, then `by_index*` -/

theorem byNameRead_noPanicOn (ext : Ext) (hext : ExtNoPanic ext) (a : Archive) (name : Bytes)
    (pw : Option Bytes) : NoPanicOn DevSane (byNameRead ext a name pw) := by
  unfold byNameRead
  split
  · exact (NoPanic.throw _).on
  · exact byIndexRead_noPanicOn ext hext a _ pw

theorem byNameRead_readOnly (ext : Ext) (a : Archive) (name : Bytes) (pw : Option Bytes) :
    ReadOnly (byNameRead ext a name pw) := by
  unfold byNameRead
  split
  · exact ReadOnly.throw _
  · exact byIndexRead_readOnly ext a _ pw

theorem byNameRead_inner (ext : Ext) (hext : ExtNoPanic ext) (a : Archive) (name : Bytes)
    (pw : Option Bytes) : PostV PwResult.InnerNoPanic (byNameRead ext a name pw) := by
  unfold byNameRead
  split
  · exact PostV.throw _
  · exact byIndexRead_inner ext hext a _ pw

end ZipVerif.Model
