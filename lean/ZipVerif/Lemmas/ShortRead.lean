import ZipVerif.Model.ShortRead
import ZipVerif.Lemmas.Layers
import ZipVerif.Lemmas.ReaderBounds
/-
C09, finding F9(2): the metadata parsers are invariant under short reads of the underlying reader.
-/

namespace ZipVerif.Model
open ZipVerif ZipVerif.Model.Layers

/-! ### The generic parsers instantiated at `M` ARE the model's parsers -/

namespace G

theorem readU16_M : (readU16 : M UInt16) = M.readU16 := rfl
theorem readU32_M : (readU32 : M UInt32) = M.readU32 := rfl
theorem readU64_M : (readU64 : M UInt64) = M.readU64 := rfl
theorem streamPosition_M : (streamPosition : M Nat) = M.streamPosition := rfl
theorem parseEocd_M : (parseEocd : M Eocd) = Model.parseEocd := rfl
theorem parseLocator_M : (parseLocator : M Locator) = Model.parseLocator := rfl

theorem findEocdLoop_M (bound fuel pos : Nat) :
    (findEocdLoop bound fuel pos : M (Eocd × Nat)) = Model.findEocdLoop bound fuel pos := by
  induction fuel generalizing pos with
  | zero => rfl
  | succ fuel ih =>
    unfold findEocdLoop Model.findEocdLoop
    simp only [ih]
    rfl

theorem findAndParseEocd_M : (findAndParseEocd : M (Eocd × Nat)) = Model.findAndParseEocd := by
  unfold findAndParseEocd Model.findAndParseEocd
  simp only [findEocdLoop_M]
  rfl

theorem findEocd64Loop_M (nominal upper fuel pos : Nat) :
    (findEocd64Loop nominal upper fuel pos : M (Eocd64 × Nat)) =
      Model.findEocd64Loop nominal upper fuel pos := by
  induction fuel generalizing pos with
  | zero => rfl
  | succ fuel ih =>
    unfold findEocd64Loop Model.findEocd64Loop
    simp only [ih]
    rfl

theorem findEocd64_M (nominal upper : Nat) :
    (findEocd64 nominal upper : M (Eocd64 × Nat)) = Model.findEocd64 nominal upper :=
  findEocd64Loop_M _ _ _ _

theorem getDirectoryCounts_M (footer : Eocd) (cdeStart : Nat) :
    (getDirectoryCounts footer cdeStart : M (Nat × Nat × Nat)) =
      Model.getDirectoryCounts footer cdeStart := by
  unfold getDirectoryCounts Model.getDirectoryCounts
  simp only [findEocd64_M]
  rfl

theorem centralHeaderInner_M (off start : Nat) :
    (centralHeaderInner off start : M FileData) = Model.centralHeaderInner off start := rfl

theorem centralHeader_M (off : Nat) : (centralHeader off : M FileData) = Model.centralHeader off := rfl

theorem readCentralLoop_M (off n : Nat) :
    (readCentralLoop off n : M (List FileData)) = Model.readCentralLoop off n := by
  induction n with
  | zero => rfl
  | succ n ih =>
    unfold readCentralLoop Model.readCentralLoop
    simp only [ih]
    rfl

/-- **`G.openArchive` at `M` is the model's `openArchive`** (the function tied to the translated
`ZipArchive::new` in `Tie/ReaderGlue`). -/
theorem openArchive_M : (openArchive : M Archive) = Model.openArchive := by
  unfold openArchive Model.openArchive
  simp only [findAndParseEocd_M, getDirectoryCounts_M, readCentralLoop_M]
  rfl

theorem findContent_M (f : FileData) : (findContent f : M Nat) = Model.findContent f := rfl

theorem streamHeader_M : (streamHeader : M (Option FileData)) = Model.streamHeader := rfl

theorem streamEntry_M (ext : Ext) : (streamEntry ext : M _) = Model.streamEntry ext := rfl

theorem streamEntries_M (ext : Ext) (fuel : Nat) : (streamEntries ext fuel : M _) = Model.streamEntries ext fuel := by
  induction fuel with
  | zero => rfl
  | succ fuel ih =>
    unfold streamEntries Model.streamEntries
    simp only [ih]
    rfl

theorem streamCentralLoop_M (fuel : Nat) : (streamCentralLoop fuel : M _) = Model.streamCentralLoop fuel := by
  induction fuel with
  | zero => rfl
  | succ fuel ih =>
    unfold streamCentralLoop Model.streamCentralLoop
    simp only [ih]
    rfl

/-- **`ZipStreamReader::visit` of the model is the generic visit** with the loop bounds the model takes from
the length of its input. -/
theorem streamVisit_M (ext : Ext) :
    Model.streamVisit ext = (M.getDev >>= fun d =>
      (streamVisitF ext (d.buf.length / 30 + 1) (d.buf.length / 46 + 1) : M _)) := by
  unfold Model.streamVisit streamVisitF
  simp only [streamEntries_M, streamCentralLoop_M]
  rfl

end G
/-! ### `read_exact` over the short-reading device = `read_exact` over the `Cursor` -/

/-- `M.readExact` fault-free, as a function of buffer and position. -/
theorem M_readExact_spec (n : Nat) (d : Dev) :
    ∃ d', d'.buf = d.buf ∧ d'.pos = d.pos + min n (d.buf.length - d.pos) ∧
      M.readExact n none d =
        (if n ≤ d.buf.length - d.pos then .ok ((d.buf.drop d.pos).take n)
          else .err (.io .unexpectedEof), d') := by
  have hlen : ∀ k, ((d.buf.drop d.pos).take k).length = min k (d.buf.length - d.pos) := by
    intro k; rw [List.length_take, List.length_drop]
  unfold M.readExact
  by_cases h0 : n = 0
  · subst h0
    refine ⟨d, rfl, by simp, ?_⟩
    rw [if_pos rfl, if_pos (Nat.zero_le _)]
    rfl
  · rw [if_neg h0]
    obtain ⟨d1, hd1⟩ : ∃ d1 : Dev, (⟨d.buf, d.pos + ((d.buf.drop d.pos).take n).length,
      d.calls + 1, d.fkind⟩ : Dev) = d1 := ⟨_, rfl⟩
    have hb1 : d1.buf = d.buf := by rw [← hd1]
    have hp1 : d1.pos = d.pos + min n (d.buf.length - d.pos) := by rw [← hd1]; simp only [hlen]
    have hread : M.read n none d = (.ok ((d.buf.drop d.pos).take n), d1) := by rw [← hd1]; rfl
    rw [M.bind_of_ok hread]
    by_cases hle : n ≤ d.buf.length - d.pos
    · rw [if_pos (by rw [hlen]; omega), if_pos hle]
      exact ⟨d1, hb1, hp1, rfl⟩
    · rw [if_neg (by rw [hlen]; omega), if_neg hle]
      by_cases hz : ((d.buf.drop d.pos).take n).length = 0
      · rw [if_pos hz]
        exact ⟨d1, hb1, hp1, rfl⟩
      · rw [if_neg hz]
        generalize hm : n - ((d.buf.drop d.pos).take n).length = mm
        obtain ⟨d2, hd2⟩ : ∃ d2 : Dev, (⟨d1.buf, d1.pos + ((d1.buf.drop d1.pos).take mm).length,
          d1.calls + 1, d1.fkind⟩ : Dev) = d2 := ⟨_, rfl⟩
        have hread2 : M.read mm none d1 = (.ok ((d1.buf.drop d1.pos).take mm), d2) := by
          rw [← hd2]; rfl
        rw [M.bind_of_ok hread2]
        refine ⟨d2, by rw [← hd2]; exact hb1, ?_, rfl⟩
        rw [← hd2]
        simp only [List.length_take, List.length_drop, hb1, hp1]
        omega

theorem take_split {X : Bytes} {c m : Nat} (hc : c ≤ m) :
    X.take c ++ (X.drop c).take (m - c) = X.take m := by
  have : m = c + (m - c) := by omega
  rw [this, List.take_add]
  congr 2
  omega

/-- The retry loop over the short-reading device, as a function of buffer and position. -/
theorem short_readExactAux_spec (sch : Nat → Nat) :
    ∀ (fuel : Nat) (d : Dev) (n : Nat), n ≤ fuel →
      ∃ d', d'.buf = d.buf ∧ d'.pos = d.pos + min n (d.buf.length - d.pos) ∧
        readExactAux (shortSrc sch) fuel d n =
          (if n ≤ d.buf.length - d.pos then ExactRes.ok ((d.buf.drop d.pos).take n)
            else .err .unexpectedEof, d') := by
  intro fuel
  induction fuel with
  | zero =>
    intro d n hn
    have : n = 0 := by omega
    subst this
    exact ⟨d, rfl, by simp, by simp [readExactAux]⟩
  | succ fuel ih =>
    intro d n hn
    cases n with
    | zero => exact ⟨d, rfl, by simp, by simp [readExactAux]⟩
    | succ n =>
      generalize hk : min (n + 1) (max (sch d.calls) 1) = k
      have hk1 : 1 ≤ k ∧ k ≤ n + 1 := by omega
      have hrd : (shortSrc sch).rd d (n + 1) = (.ok ((d.buf.drop d.pos).take k),
          { d with pos := d.pos + ((d.buf.drop d.pos).take k).length, calls := d.calls + 1 }) := by
        simp only [shortSrc, Nat.succ_ne_zero, if_false, hk]
      have hlen : ((d.buf.drop d.pos).take k).length = min k (d.buf.length - d.pos) := by
        rw [List.length_take, List.length_drop]
      by_cases hL : d.buf.length - d.pos = 0
      · have hnil : (d.buf.drop d.pos).take k = [] := by
          apply List.eq_nil_of_length_eq_zero; rw [hlen]; omega
        rw [hnil] at hrd
        refine ⟨{ d with pos := d.pos + ([] : Bytes).length, calls := d.calls + 1 }, rfl, ?_, ?_⟩
        · simp only [List.length_nil]; omega
        · simp only [readExactAux, hrd, if_true]
          rw [if_neg (by omega)]
      · generalize hc : ((d.buf.drop d.pos).take k).length = c at hrd
        have hc1 : 1 ≤ c ∧ c ≤ k ∧ c ≤ d.buf.length - d.pos := by rw [hlen] at hc; omega
        have hne : (d.buf.drop d.pos).take k ≠ [] := by
          intro h; rw [h] at hc; simp at hc; omega
        obtain ⟨d2, hb2, hp2, hv2⟩ := ih { d with pos := d.pos + c, calls := d.calls + 1 }
          (n + 1 - c) (by omega)
        simp only at hb2 hp2 hv2
        refine ⟨d2, hb2, by rw [hp2]; omega, ?_⟩
        simp only [readExactAux, hrd, hne, if_false, hc]
        rw [if_pos (by omega), hv2]
        have hkc : (d.buf.drop d.pos).take k = (d.buf.drop d.pos).take c := by
          rw [← hc, hlen]
          by_cases h : k ≤ d.buf.length - d.pos
          · rw [Nat.min_eq_left h]
          · rw [Nat.min_eq_right (by omega), List.take_of_length_le (by rw [List.length_drop]; omega),
              List.take_of_length_le (by rw [List.length_drop]; omega)]
        by_cases hle : n + 1 ≤ d.buf.length - d.pos
        · rw [if_pos (by omega), if_pos hle]
          simp only
          rw [hkc, ← List.drop_drop, take_split (by omega)]
        · rw [if_neg (by omega), if_neg hle]

/-- `takeAll` fault-free, as a function of buffer and position. -/
theorem M_takeAll_spec (n : Nat) (d : Dev) :
    ∃ d', d'.buf = d.buf ∧ d'.pos = d.pos + min n (d.buf.length - d.pos) ∧
      takeAll n none d = (.ok ((d.buf.drop d.pos).take n), d') := by
  have hlen : ∀ k, ((d.buf.drop d.pos).take k).length = min k (d.buf.length - d.pos) := by
    intro k; rw [List.length_take, List.length_drop]
  unfold takeAll
  by_cases h0 : n = 0
  · subst h0
    refine ⟨d, rfl, by simp, ?_⟩
    rw [if_pos rfl]
    rfl
  · rw [if_neg h0]
    obtain ⟨d1, hd1⟩ : ∃ d1 : Dev, (⟨d.buf, d.pos + ((d.buf.drop d.pos).take n).length,
      d.calls + 1, d.fkind⟩ : Dev) = d1 := ⟨_, rfl⟩
    have hb1 : d1.buf = d.buf := by rw [← hd1]
    have hp1 : d1.pos = d.pos + min n (d.buf.length - d.pos) := by rw [← hd1]; simp only [hlen]
    have hread : M.read n none d = (.ok ((d.buf.drop d.pos).take n), d1) := by rw [← hd1]; rfl
    rw [M.bind_of_ok hread]
    by_cases hle : ((d.buf.drop d.pos).take n).length = n
    · rw [if_pos hle]
      exact ⟨d1, hb1, hp1, rfl⟩
    · rw [if_neg hle]
      by_cases hz : ((d.buf.drop d.pos).take n).length = 0
      · rw [if_pos hz]
        exact ⟨d1, hb1, hp1, rfl⟩
      · rw [if_neg hz]
        generalize hm : n - ((d.buf.drop d.pos).take n).length = mm
        obtain ⟨d2, hd2⟩ : ∃ d2 : Dev, (⟨d1.buf, d1.pos + ((d1.buf.drop d1.pos).take mm).length,
          d1.calls + 1, d1.fkind⟩ : Dev) = d2 := ⟨_, rfl⟩
        have hread2 : M.read mm none d1 = (.ok ((d1.buf.drop d1.pos).take mm), d2) := by
          rw [← hd2]; rfl
        rw [M.bind_of_ok hread2]
        refine ⟨d2, by rw [← hd2]; exact hb1, ?_, rfl⟩
        rw [← hd2]
        rw [hlen] at hle
        simp only [List.length_take, List.length_drop, hb1, hp1]
        omega

/-- The draining loop over the short-reading device, as a function of buffer and position. -/
theorem short_takeAllAux_spec (sch : Nat → Nat) :
    ∀ (fuel : Nat) (d : Dev) (n : Nat), n ≤ fuel →
      ∃ d', d'.buf = d.buf ∧ d'.pos = d.pos + min n (d.buf.length - d.pos) ∧
        MS.takeAllAux sch fuel d n = ((d.buf.drop d.pos).take n, d') := by
  intro fuel
  induction fuel with
  | zero =>
    intro d n hn
    have : n = 0 := by omega
    subst this
    exact ⟨d, rfl, by simp, by simp [MS.takeAllAux]⟩
  | succ fuel ih =>
    intro d n hn
    cases n with
    | zero => exact ⟨d, rfl, by simp, by simp [MS.takeAllAux]⟩
    | succ n =>
      generalize hk : min (n + 1) (max (sch d.calls) 1) = k
      have hk1 : 1 ≤ k ∧ k ≤ n + 1 := by omega
      have hrd : (shortSrc sch).rd d (n + 1) = (.ok ((d.buf.drop d.pos).take k),
          { d with pos := d.pos + ((d.buf.drop d.pos).take k).length, calls := d.calls + 1 }) := by
        simp only [shortSrc, Nat.succ_ne_zero, if_false, hk]
      have hlen : ((d.buf.drop d.pos).take k).length = min k (d.buf.length - d.pos) := by
        rw [List.length_take, List.length_drop]
      by_cases hL : d.buf.length - d.pos = 0
      · have hnil : (d.buf.drop d.pos).take k = [] := by
          apply List.eq_nil_of_length_eq_zero; rw [hlen]; omega
        have hnil2 : (d.buf.drop d.pos).take (n + 1) = [] := by
          apply List.eq_nil_of_length_eq_zero; rw [List.length_take, List.length_drop]; omega
        rw [hnil] at hrd
        refine ⟨{ d with pos := d.pos + ([] : Bytes).length, calls := d.calls + 1 }, rfl, ?_, ?_⟩
        · simp only [List.length_nil]; omega
        · simp only [MS.takeAllAux, hrd, if_true, hnil2]
      · generalize hc : ((d.buf.drop d.pos).take k).length = c at hrd
        have hc1 : 1 ≤ c ∧ c ≤ k ∧ c ≤ d.buf.length - d.pos := by rw [hlen] at hc; omega
        have hne : (d.buf.drop d.pos).take k ≠ [] := by
          intro h; rw [h] at hc; simp at hc; omega
        obtain ⟨d2, hb2, hp2, hv2⟩ := ih { d with pos := d.pos + c, calls := d.calls + 1 }
          (n + 1 - c) (by omega)
        simp only at hb2 hp2 hv2
        refine ⟨d2, hb2, by rw [hp2]; omega, ?_⟩
        simp only [MS.takeAllAux, hrd, hne, if_false, hc, hv2]
        have hkc : (d.buf.drop d.pos).take k = (d.buf.drop d.pos).take c := by
          rw [← hc, hlen]
          by_cases h : k ≤ d.buf.length - d.pos
          · rw [Nat.min_eq_left h]
          · rw [Nat.min_eq_right (by omega), List.take_of_length_le (by rw [List.length_drop]; omega),
              List.take_of_length_le (by rw [List.length_drop]; omega)]
        rw [hkc, ← List.drop_drop, take_split (by omega)]

/-! ### Simulation: `M` (never-short device, fault-free) vs `MS` (any short-read schedule) -/

/-- Same bytes, same position; the call counters differ (a short-reading device needs more calls). -/
def SameView (d sd : Dev) : Prop := sd.buf = d.buf ∧ sd.pos = d.pos

/-- `x` over the `Cursor` and `y` over the short-reading device, started on the same bytes at the same
position, end with the SAME outcome (value, error or panic) and again on the same bytes at the same
position - for every schedule. -/
def Sim {α : Type} (x : M α) (y : MS α) : Prop :=
  ∀ (sch : Nat → Nat) (d sd : Dev), SameView d sd →
    ∃ o d' sd', x none d = (o, d') ∧ y sch sd = (o, sd') ∧ SameView d' sd'

namespace Sim
variable {α β : Type}

theorem pure (a : α) : Sim (Pure.pure a : M α) (Pure.pure a : MS α) :=
  fun _ d sd hv => ⟨.ok a, d, sd, rfl, rfl, hv⟩

theorem throw (e : ZErr) : Sim (ParserIO.ioThrow e : M α) (ParserIO.ioThrow e : MS α) :=
  fun _ d sd hv => ⟨.err e, d, sd, rfl, rfl, hv⟩

theorem panic (s : String) : Sim (ParserIO.ioPanic s : M α) (ParserIO.ioPanic s : MS α) :=
  fun _ d sd hv => ⟨.panic s, d, sd, rfl, rfl, hv⟩

theorem bind {x : M α} {y : MS α} {f : α → M β} {g : α → MS β} (h1 : Sim x y)
    (h2 : ∀ a, Sim (f a) (g a)) : Sim (x >>= f) (y >>= g) := by
  intro sch d sd hv
  obtain ⟨o, d1, sd1, e1, e2, hv1⟩ := h1 sch d sd hv
  have hx : (x >>= f) none d = (match x none d with
      | (.ok a, d') => f a none d'
      | (.err e, d') => (.err e, d')
      | (.panic s, d') => (.panic s, d')) := rfl
  have hy : (y >>= g) sch sd = (match y sch sd with
      | (.ok a, d') => g a sch d'
      | (.err e, d') => (.err e, d')
      | (.panic s, d') => (.panic s, d')) := rfl
  rw [hx, hy, e1, e2]
  cases o with
  | ok a => exact h2 a sch d1 sd1 hv1
  | err e => exact ⟨.err e, d1, sd1, rfl, rfl, hv1⟩
  | panic s => exact ⟨.panic s, d1, sd1, rfl, rfl, hv1⟩

theorem attempt {x : M α} {y : MS α} (h : Sim x y) :
    Sim (ParserIO.ioAttempt x : M (Except ZErr α)) (ParserIO.ioAttempt y : MS (Except ZErr α)) := by
  intro sch d sd hv
  obtain ⟨o, d1, sd1, e1, e2, hv1⟩ := h sch d sd hv
  have hx : (ParserIO.ioAttempt x : M (Except ZErr α)) none d = (match x none d with
      | (.ok a, d') => (.ok (.ok a), d')
      | (.err e, d') => (.ok (.error e), d')
      | (.panic s, d') => (.panic s, d')) := rfl
  have hy : (ParserIO.ioAttempt y : MS (Except ZErr α)) sch sd = (match y sch sd with
      | (.ok a, d') => (.ok (.ok a), d')
      | (.err e, d') => (.ok (.error e), d')
      | (.panic s, d') => (.panic s, d')) := rfl
  rw [hx, hy, e1, e2]
  cases o with
  | ok a => exact ⟨_, d1, sd1, rfl, rfl, hv1⟩
  | err e => exact ⟨_, d1, sd1, rfl, rfl, hv1⟩
  | panic s => exact ⟨_, d1, sd1, rfl, rfl, hv1⟩

theorem seek (s : SeekFrom) : Sim (ParserIO.ioSeek s : M Nat) (ParserIO.ioSeek s : MS Nat) := by
  intro sch d sd ⟨hb, hp⟩
  have hx : (ParserIO.ioSeek s : M Nat) none d = MS.seek s sch d := rfl
  have hy : (ParserIO.ioSeek s : MS Nat) sch sd = MS.seek s sch sd := rfl
  rw [hx, hy]
  unfold MS.seek
  simp only [hb, hp]
  cases s <;> dsimp only <;> split <;> exact ⟨_, _, _, rfl, rfl, rfl, rfl⟩

/-- **`read_exact` does not see short reads**: the retry loop over any schedule returns what the single
call on the `Cursor` returns, leaves the same position, fails with `UnexpectedEof` in the same cases. -/
theorem readExact (n : Nat) :
    Sim (ParserIO.ioReadExact n : M Bytes) (ParserIO.ioReadExact n : MS Bytes) := by
  intro sch d sd ⟨hb, hp⟩
  obtain ⟨d1, hb1, hp1, e1⟩ := M_readExact_spec n d
  obtain ⟨sd1, hsb1, hsp1, e2⟩ := short_readExactAux_spec sch n sd n (Nat.le_refl _)
  have hy : (ParserIO.ioReadExact n : MS Bytes) sch sd =
      (match Layers.readExact (shortSrc sch) sd n with
        | (.ok bs, d') => (.ok bs, d')
        | (.err e, d') => (.err (.io e), d')
        | (.panic, d') => (.panic "read_exact", d')) := rfl
  have hx : (ParserIO.ioReadExact n : M Bytes) none d = M.readExact n none d := rfl
  rw [hx, hy, e1]
  unfold Layers.readExact
  rw [e2, hb, hp]
  by_cases hle : n ≤ d.buf.length - d.pos
  · simp only [if_pos hle]
    exact ⟨_, d1, sd1, rfl, rfl, by rw [hsb1, hb1, hb], by rw [hsp1, hp1, hb, hp]⟩
  · simp only [if_neg hle]
    exact ⟨_, d1, sd1, rfl, rfl, by rw [hsb1, hb1, hb], by rw [hsp1, hp1, hb, hp]⟩

/-- **Draining an entry's `Take` does not see short reads**: the same bytes, the same position after. -/
theorem takeAll (n : Nat) :
    Sim (ParserIO.ioTakeAll n : M Bytes) (ParserIO.ioTakeAll n : MS Bytes) := by
  intro sch d sd ⟨hb, hp⟩
  obtain ⟨d1, hb1, hp1, e1⟩ := M_takeAll_spec n d
  obtain ⟨sd1, hsb1, hsp1, e2⟩ := short_takeAllAux_spec sch n sd n (Nat.le_refl _)
  have hy : (ParserIO.ioTakeAll n : MS Bytes) sch sd =
      (.ok (MS.takeAllAux sch n sd n).1, (MS.takeAllAux sch n sd n).2) := rfl
  have hx : (ParserIO.ioTakeAll n : M Bytes) none d = Model.takeAll n none d := rfl
  rw [hx, hy, e1, e2, hb, hp]
  exact ⟨_, d1, sd1, rfl, rfl, by rw [hsb1, hb1, hb], by rw [hsp1, hp1, hb, hp]⟩

theorem ite {c : Prop} [Decidable c] {x x' : M α} {y y' : MS α} (h1 : Sim x y) (h2 : Sim x' y') :
    Sim (if c then x else x') (if c then y else y') := by
  split
  · exact h1
  · exact h2

theorem elim {x : M α} {y : MS α} (h : Sim x y) (sch : Nat → Nat) (d sd : Dev)
    (hv : SameView d sd) :
    ∃ o d' sd', x none d = (o, d') ∧ y sch sd = (o, sd') ∧ SameView d' sd' := h sch d sd hv

end Sim

attribute [irreducible] Sim
/-! ### Every metadata parser is invariant under short reads -/

syntax "sim_step" : tactic
macro_rules
  | `(tactic| sim_step) => `(tactic| first
    | exact Sim.pure _ | exact Sim.throw _ | exact Sim.panic _ | exact Sim.seek _
    | exact Sim.readExact _ | exact Sim.takeAll _ | assumption
    | refine Sim.bind ?_ ?_
    | refine Sim.attempt ?_
    | refine Sim.ite ?_ ?_
    | intro _
    | dsimp only
    | split)

namespace G

theorem sim_readU16 : Sim (readU16 : M UInt16) (readU16 : MS UInt16) := by
  unfold readU16
  repeat' sim_step

theorem sim_readU32 : Sim (readU32 : M UInt32) (readU32 : MS UInt32) := by
  unfold readU32
  repeat' sim_step

theorem sim_readU64 : Sim (readU64 : M UInt64) (readU64 : MS UInt64) := by
  unfold readU64
  repeat' sim_step

syntax "sim_step2" : tactic
macro_rules
  | `(tactic| sim_step2) => `(tactic| first
    | exact sim_readU16 | exact sim_readU32 | exact sim_readU64 | sim_step)

theorem sim_streamPosition : Sim (streamPosition : M Nat) (streamPosition : MS Nat) := Sim.seek _

theorem sim_parseEocd : Sim (parseEocd : M Eocd) (parseEocd : MS Eocd) := by
  unfold parseEocd
  repeat' sim_step2

theorem sim_parseLocator : Sim (parseLocator : M Locator) (parseLocator : MS Locator) := by
  unfold parseLocator
  repeat' sim_step2

theorem sim_findEocdLoop (bound : Nat) : ∀ (fuel pos : Nat),
    Sim (findEocdLoop bound fuel pos : M (Eocd × Nat)) (findEocdLoop bound fuel pos : MS (Eocd × Nat))
  | 0, _ => by unfold findEocdLoop; exact Sim.throw _
  | fuel + 1, pos => by
    have ih := sim_findEocdLoop bound fuel
    unfold findEocdLoop
    repeat' (first | exact ih _ | exact sim_parseEocd | sim_step2)

theorem sim_findAndParseEocd :
    Sim (findAndParseEocd : M (Eocd × Nat)) (findAndParseEocd : MS (Eocd × Nat)) := by
  unfold findAndParseEocd
  repeat' (first | exact sim_findEocdLoop _ _ _ | sim_step2)

theorem sim_findEocd64Loop (nominal upper : Nat) : ∀ (fuel pos : Nat),
    Sim (findEocd64Loop nominal upper fuel pos : M (Eocd64 × Nat))
      (findEocd64Loop nominal upper fuel pos : MS (Eocd64 × Nat))
  | 0, _ => by unfold findEocd64Loop; exact Sim.throw _
  | fuel + 1, pos => by
    have ih := sim_findEocd64Loop nominal upper fuel
    unfold findEocd64Loop
    repeat' (first | exact ih _ | sim_step2)

theorem sim_findEocd64 (nominal upper : Nat) :
    Sim (findEocd64 nominal upper : M (Eocd64 × Nat)) (findEocd64 nominal upper : MS (Eocd64 × Nat)) :=
  sim_findEocd64Loop _ _ _ _

theorem sim_getDirectoryCounts (footer : Eocd) (cdeStart : Nat) :
    Sim (getDirectoryCounts footer cdeStart : M (Nat × Nat × Nat))
      (getDirectoryCounts footer cdeStart : MS (Nat × Nat × Nat)) := by
  unfold getDirectoryCounts
  repeat' (first | exact sim_findEocd64 _ _ | exact sim_parseLocator | sim_step2)

theorem sim_centralHeaderInner (off start : Nat) :
    Sim (centralHeaderInner off start : M FileData) (centralHeaderInner off start : MS FileData) := by
  unfold centralHeaderInner
  repeat' sim_step2

theorem sim_centralHeader (off : Nat) :
    Sim (centralHeader off : M FileData) (centralHeader off : MS FileData) := by
  unfold centralHeader
  repeat' (first | exact sim_centralHeaderInner _ _ | exact sim_streamPosition | sim_step2)

theorem sim_readCentralLoop (off : Nat) : ∀ n : Nat,
    Sim (readCentralLoop off n : M (List FileData)) (readCentralLoop off n : MS (List FileData))
  | 0 => by unfold readCentralLoop; exact Sim.pure _
  | n + 1 => by
    have ih := sim_readCentralLoop off n
    unfold readCentralLoop
    repeat' (first | exact ih | exact sim_centralHeader _ | sim_step2)

theorem sim_openArchive : Sim (openArchive : M Archive) (openArchive : MS Archive) := by
  unfold openArchive
  repeat' (first | exact sim_findAndParseEocd | exact sim_getDirectoryCounts _ _ | exact sim_readCentralLoop _ _ | sim_step2)

theorem sim_findContent (f : FileData) :
    Sim (findContent f : M Nat) (findContent f : MS Nat) := by
  unfold findContent
  repeat' sim_step2

theorem sim_streamHeader : Sim (streamHeader : M (Option FileData)) (streamHeader : MS (Option FileData)) := by
  unfold streamHeader
  repeat' sim_step2

theorem sim_streamEntry (ext : Ext) : Sim (streamEntry ext : M _) (streamEntry ext : MS _) := by
  unfold streamEntry
  repeat' (first | exact sim_streamHeader | sim_step2)

theorem sim_streamEntries (ext : Ext) : ∀ fuel : Nat,
    Sim (streamEntries ext fuel : M _) (streamEntries ext fuel : MS _)
  | 0 => by unfold streamEntries; exact Sim.pure _
  | fuel + 1 => by
    have ih := sim_streamEntries ext fuel
    unfold streamEntries
    repeat' (first | exact ih | exact sim_streamEntry _ | sim_step2)

theorem sim_streamCentralLoop : ∀ fuel : Nat,
    Sim (streamCentralLoop fuel : M _) (streamCentralLoop fuel : MS _)
  | 0 => by unfold streamCentralLoop; exact Sim.pure _
  | fuel + 1 => by
    have ih := sim_streamCentralLoop fuel
    unfold streamCentralLoop
    repeat' (first | exact ih | exact sim_centralHeaderInner _ _ | sim_step2)

theorem sim_streamVisitF (ext : Ext) (fuel₁ fuel₂ : Nat) :
    Sim (streamVisitF ext fuel₁ fuel₂ : M _) (streamVisitF ext fuel₁ fuel₂ : MS _) := by
  unfold streamVisitF
  repeat' (first | exact sim_streamEntries _ _ | exact sim_streamCentralLoop _ | exact sim_centralHeaderInner _ _ | sim_step2)

end G

/-! ### The short-reading device is one of the readers of the layer model -/

/-- Whatever the schedule, the short-reading device delivers exactly the bytes behind its position and
then a clean end of file: the entry data path over it is covered by the pipeline theorems. -/
theorem shortSrc_denotes (sch : Nat → Nat) (d : Dev) :
    Denotes (shortSrc sch) d (d.buf.drop d.pos) .eof := by
  apply Denotes.of_invariant (fun s r => r = s.buf.drop s.pos)
  · rintro s rest n rfl
    generalize hk : (if n = 0 then 0 else min n (max (sch s.calls) 1)) = k
    have hk1 : k ≤ n ∧ (0 < n → 1 ≤ k) := by
      subst hk
      by_cases h0 : n = 0
      · simp [h0]
      · rw [if_neg h0]; omega
    have hrd : (shortSrc sch).rd s n = (.ok ((s.buf.drop s.pos).take k),
        { s with pos := s.pos + ((s.buf.drop s.pos).take k).length, calls := s.calls + 1 }) := by
      simp only [shortSrc, hk]
    refine stepOK_of_ok hrd ?_ ?_ ⟨(s.buf.drop s.pos).drop k, ?_, ?_⟩
    · rw [List.length_take]; omega
    · intro hn hb
      refine ⟨?_, rfl⟩
      cases h : s.buf.drop s.pos with
      | nil => rfl
      | cons a t =>
        rw [h] at hb
        obtain ⟨m, rfl⟩ : ∃ m, k = m + 1 := ⟨k - 1, by have := hk1.2 hn; omega⟩
        simp at hb
    · exact (List.take_append_drop k _).symm
    · simp only [List.drop_drop, List.length_take, List.length_drop]
      by_cases h : k ≤ s.buf.length - s.pos
      · rw [Nat.min_eq_left h, Nat.add_comm]
      · rw [Nat.min_eq_right (by omega), List.drop_eq_nil_of_le (by omega),
          List.drop_eq_nil_of_le (by omega)]
  · rfl

/-- For the non-vacuity example of C09: open `bs` over the `Cursor` and over the short-reading device;
names of the entries from both runs, calls and final position of both. -/
def openBoth (bs : Bytes) (sch : Nat → Nat) : Option (List Bytes × List Bytes × (Nat × Nat) × (Nat × Nat)) :=
  match openArchive none (Dev.ofBytes bs), (G.openArchive : MS Archive) sch (Dev.ofBytes bs) with
  | (.ok a, d), (.ok b, sd) =>
    some (a.files.map (·.fileNameRaw), b.files.map (·.fileNameRaw), (d.calls, d.pos), (sd.calls, sd.pos))
  | _, _ => none

/-! ### Writer side: `write_all` absorbs short writes of the sink -/

theorem drop_len_add {L R : Bytes} {n k : Nat} (h : L.length = n) : (L ++ R).drop (n + k) = R.drop k := by
  subst h
  rw [List.drop_append]
  simp

theorem take_len {L R : Bytes} {n : Nat} (h : L.length = n) : (L ++ R).take n = L := by
  subst h; simp

theorem writeAt_split (buf : Bytes) (p : Nat) (a b : Bytes) :
    writeAt (writeAt buf p a) (p + a.length) b = writeAt buf p (a ++ b) := by
  unfold writeAt
  by_cases hp : p ≤ buf.length
  · rw [if_pos hp, if_pos hp]
    have hL : (buf.take p ++ a).length = p + a.length := by
      rw [List.length_append, List.length_take]; omega
    rw [if_pos (by rw [List.length_append, hL]; omega)]
    rw [take_len hL, drop_len_add hL, List.drop_drop, List.length_append]
    simp only [List.append_assoc]
    rw [Nat.add_assoc]
  · rw [if_neg hp, if_neg hp]
    have hL : (buf ++ List.replicate (p - buf.length) 0 ++ a).length = p + a.length := by
      simp only [List.length_append, List.length_replicate]; omega
    rw [if_pos (by rw [hL]; omega)]
    have : (buf ++ List.replicate (p - buf.length) 0 ++ a) = (buf ++ List.replicate (p - buf.length) 0 ++ a) ++ [] := by simp
    rw [this, take_len hL, drop_len_add hL]
    simp

/-- **`write_all` absorbs short writes**: the retry loop over the short-writing device leaves exactly
the buffer and position that the single whole write of the writer model's `M.writeAll` leaves. -/
theorem short_writeAllAux (sch : Nat → Nat) : ∀ (fuel : Nat) (d : Dev) (bs : Bytes), bs.length ≤ fuel →
    ∃ d', writeAllAux (shortWr sch) fuel d bs = (.ok (), d') ∧
      d'.buf = (if bs = [] then d.buf else writeAt d.buf d.pos bs) ∧ d'.pos = d.pos + bs.length := by
  intro fuel
  induction fuel with
  | zero =>
    intro d bs h
    have : bs = [] := List.eq_nil_of_length_eq_zero (by omega)
    subst this
    exact ⟨d, rfl, rfl, rfl⟩
  | succ fuel ih =>
    intro d bs h
    cases bs with
    | nil => exact ⟨d, rfl, rfl, rfl⟩
    | cons x xs =>
      generalize hk : min (x :: xs).length (max (sch d.calls) 1) = k
      have hk1 : 1 ≤ k ∧ k ≤ (x :: xs).length := by
        simp only [List.length_cons] at hk ⊢; omega
      have hwr : (shortWr sch).wr d (x :: xs) = (.ok k,
          { buf := writeAt d.buf d.pos ((x :: xs).take k), pos := d.pos + k, calls := d.calls + 1 }) := by
        simp only [shortWr, reduceCtorEq, if_false, hk]
      obtain ⟨d2, hv, hb2, hp2⟩ := ih
        { buf := writeAt d.buf d.pos ((x :: xs).take k), pos := d.pos + k, calls := d.calls + 1 }
        ((x :: xs).drop k) (by rw [List.length_drop]; simp only [List.length_cons] at h hk1 ⊢; omega)
      simp only at hb2 hp2
      refine ⟨d2, ?_, ?_, ?_⟩
      · obtain ⟨k', rfl⟩ : ∃ k', k = k' + 1 := ⟨k - 1, by omega⟩
        simp only [writeAllAux, hwr, hk1.2, if_true]
        exact hv
      · rw [if_neg (List.cons_ne_nil x xs), hb2]
        have hlen : ((x :: xs).take k).length = k := by rw [List.length_take]; omega
        split
        · rename_i hnil
          have h2 := List.take_append_drop k (x :: xs)
          rw [hnil, List.append_nil] at h2
          rw [h2]
        · have := writeAt_split d.buf d.pos ((x :: xs).take k) ((x :: xs).drop k)
          rw [hlen, List.take_append_drop] at this
          exact this
      · rw [hp2, List.length_drop]; omega


/-- `M.writeAll` fault-free, as a function of the device. -/
theorem M_writeAll_spec (bs : Bytes) (d : Dev) :
    ∃ d', M.writeAll bs none d = (.ok (), d') ∧
      d'.buf = (if bs = [] then d.buf else writeAt d.buf d.pos bs) ∧ d'.pos = d.pos + bs.length := by
  cases bs with
  | nil => exact ⟨d, rfl, rfl, rfl⟩
  | cons x xs => exact ⟨_, rfl, rfl, rfl⟩

/-- One `write_all`: the retry loop over a sink with ANY short-write schedule and the writer model's
whole write end on the same bytes at the same position. -/
theorem short_writeAll_sim (sch : Nat → Nat) (bs : Bytes) (d sd : Dev) (hv : SameView d sd) :
    ∃ d' sd', M.writeAll bs none d = (.ok (), d') ∧
      Layers.writeAll (shortWr sch) sd bs = (.ok (), sd') ∧ SameView d' sd' := by
  obtain ⟨d1, e1, hb1, hp1⟩ := M_writeAll_spec bs d
  obtain ⟨sd1, e2, hb2, hp2⟩ := short_writeAllAux sch bs.length sd bs (Nat.le_refl _)
  refine ⟨d1, sd1, e1, e2, ?_, ?_⟩
  · rw [hb2, hb1, hv.1, hv.2]
  · rw [hp2, hp1, hv.2]

/-- A sequence of `write_all`s (how every header, the central directory and the end records are
written: `M.writeChunks`). -/
theorem short_writeChunks_sim (sch : Nat → Nat) : ∀ (cs : List Bytes) (d sd : Dev), SameView d sd →
    ∃ d' sd', M.writeChunks cs none d = (.ok (), d') ∧
      Layers.writeAllSeq (shortWr sch) sd cs = (.ok (), sd') ∧ SameView d' sd'
  | [], d, sd, hv => ⟨d, sd, rfl, rfl, hv⟩
  | c :: cs, d, sd, hv => by
    obtain ⟨d1, sd1, e1, e2, hv1⟩ := short_writeAll_sim sch c d sd hv
    obtain ⟨d2, sd2, f1, f2, hv2⟩ := short_writeChunks_sim sch cs d1 sd1 hv1
    refine ⟨d2, sd2, ?_, ?_, hv2⟩
    · unfold M.writeChunks
      rw [M.bind_of_ok e1]
      exact f1
    · simp only [Layers.writeAllSeq, e2]
      exact f2

end ZipVerif.Model
