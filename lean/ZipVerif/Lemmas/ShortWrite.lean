import ZipVerif.Model.ShortWrite
import ZipVerif.Lemmas.ShortRead
import ZipVerif.Props.C12
/-
C09: the writer STATE MACHINE over a short-writing sink.
-/

namespace ZipVerif.Model
open ZipVerif ZipVerif.Model.Layers ZipVerif.Props.C12

/-! ### The generic writer instantiated at `M` IS the model's writer -/

namespace GW

theorem streamPosition_M : (streamPosition : M Nat) = M.streamPosition := rfl

theorem writeChunks_M (cs : List Bytes) : (writeChunks cs : M Unit) = M.writeChunks cs := by
  induction cs with
  | nil => rfl
  | cons c cs ih =>
    unfold writeChunks M.writeChunks
    rw [ih]
    rfl

theorem io_M {α β} (s : WState) (x : M α) (k : α → M (Except ZErr β × WState)) :
    GW.io s x k = Model.io s x k := rfl

theorem emitFinish_M {β} (s : WState) (mm : Method) (enc : Option EncState) (bs : Bytes)
    (k : Option EncState → M (Except ZErr β × WState)) :
    GW.emitFinish s mm enc bs k = Model.emitFinish s mm enc bs k := rfl

theorem switchTo_M (ext : WExt) (c : Method) (l : Option Int) (s : WState) :
    (GW.switchTo ext c l s : M _) = Model.switchTo ext c l s := rfl

theorem endExtraData_M (ext : WExt) (s : WState) :
    (GW.endExtraData ext s : M _) = Model.endExtraData ext s := rfl

theorem updateLocalHeader_M {β} (s : WState) (f : FileData) (k : Unit → M (Except ZErr β × WState)) :
    GW.updateLocalHeader s f k = Model.updateLocalHeader s f k := rfl

theorem finishFile_M (ext : WExt) (s : WState) :
    (GW.finishFile ext s : M _) = Model.finishFile ext s := rfl

theorem startEntry_M (ext : WExt) (name : Bytes) (o : FileOptions) (raw) (s : WState) :
    (GW.startEntry ext name o raw s : M _) = Model.startEntry ext name o raw s := by
  unfold GW.startEntry Model.startEntry
  simp only [writeChunks_M] <;> rfl

theorem startFile_M (ext : WExt) (name : Bytes) (o : FileOptions) (s : WState) :
    (GW.startFile ext name o s : M _) = Model.startFile ext name o s := by
  unfold GW.startFile Model.startFile
  simp only [startEntry_M] <;> rfl

theorem startFileWithExtraData_M (ext : WExt) (name : Bytes) (o : FileOptions) (s : WState) :
    (GW.startFileWithExtraData ext name o s : M _) = Model.startFileWithExtraData ext name o s := by
  unfold GW.startFileWithExtraData Model.startFileWithExtraData
  simp only [startEntry_M] <;> rfl

theorem endLocalStartCentral_M (ext : WExt) (s : WState) :
    (GW.endLocalStartCentral ext s : M _) = Model.endLocalStartCentral ext s := rfl

theorem addDirectory_M (ext : WExt) (name : Bytes) (o : FileOptions) (s : WState) :
    (GW.addDirectory ext name o s : M _) = Model.addDirectory ext name o s := by
  unfold GW.addDirectory Model.addDirectory
  simp only [startEntry_M] <;> rfl

theorem writeAllCentral_M (s : WState) (fs : List FileData) :
    (GW.writeAllCentral s fs : M _) = Model.finalize.writeAllCentral s fs := by
  induction fs with
  | nil => rfl
  | cons f rest ih =>
    unfold GW.writeAllCentral Model.finalize.writeAllCentral
    simp only [writeChunks_M, ih]
    rfl

theorem finalize_M (ext : WExt) (s : WState) :
    (GW.finalize ext s : M _) = Model.finalize ext s := by
  unfold GW.finalize Model.finalize
  simp only [writeChunks_M, writeAllCentral_M] <;> rfl

theorem finish_M (ext : WExt) (s : WState) :
    (GW.finish ext s : M _) = Model.finish ext s := by
  unfold GW.finish Model.finish
  simp only [finalize_M] <;> rfl

theorem dropInner_M (ext : WExt) (s : WState) :
    (GW.dropInner ext s : M _) = Model.dropInner ext s := rfl

theorem dropWriter_M (ext : WExt) (s : WState) :
    (GW.dropWriter ext s : M _) = Model.dropWriter ext s := by
  unfold GW.dropWriter Model.dropWriter
  simp only [finalize_M, dropInner_M] <;> rfl

theorem writeAllLoop_nil_M (acc fuel) (s : WState) :
    (GW.writeAllLoop acc (fuel + 1) [] s : M _) = pure (.ok (), s) := rfl

theorem account_tail_M (b : UInt8) (bs : Bytes) (s : WState) (fa : Option Nat) (d : Dev) :
  ((do
      let __x ← (GW.account (b :: bs) s : M _)
      match __x.fst with
        | Except.error e => pure (Except.error e, __x.snd)
        | Except.ok n =>
          if n = 0 then pure (Except.error (ZErr.io IoKind.writeZero), __x.snd)
          else writeAllLoop (fun x => List.length x) (b :: bs).length (List.drop n (b :: bs)) __x.snd) : M _) fa d =
    (let s := { s with statsHasher := Spec.Crc32.updateBytes s.statsHasher (b :: bs),
                          statsBytes := s.statsBytes + (b :: bs).length }
        match s.files.getLast? with
        | none => M.panic "write.rs:244 files.last_mut().unwrap()"
        | some f =>
          if s.statsBytes > 0xFFFFFFFF && !f.largeFile then
            pure (.error (.io .other), { s with inner := .closed })
          else pure (.ok (), s) : M (Except ZErr Unit × WState)) fa d := by
  simp only [GW.account]
  cases s.files.getLast? with
  | none => rfl
  | some f =>
    simp only []
    split
    · rfl
    · simp only [M.bind_apply, M.pure_apply, List.length_cons, Nat.add_one_ne_zero, ↓reduceIte, List.drop_succ_cons,
        List.drop_length, writeAllLoop_nil_M]

theorem writeData_M (buf : Bytes) (s : WState) :
    (GW.writeData (fun x => x.length) buf s : M _) = Model.writeData buf s := by
  cases buf with
  | nil => rfl
  | cons b bs =>
  funext fa d
  unfold GW.writeData GW.writeAllLoop GW.write Model.writeData
  rcases s with ⟨inner, files, ss, sb, sh, wf, wx, co, wr, cm⟩
  cases wf <;> simp only [List.isEmpty_cons, Bool.false_eq_true, ↓reduceIte, Bool.not_false, Bool.not_true]
  · rfl
  · cases inner with
    | closed => rfl
    | storer enc =>
      cases wx <;> simp only [Bool.false_eq_true, ↓reduceIte]
      · cases enc with
        | none =>
          simp only [Model.io, M.bind_apply, WriterIO.wAttempt, WriterIO.wWrite, M.attempt, M.write, M.writeAll,
            M.prim, M.pure_apply, List.isEmpty_cons, Bool.false_eq_true, ↓reduceIte]
          by_cases hf : fa = some d.calls
          · simp only [hf, ↓reduceIte]
            rfl
          · simp only [hf, ↓reduceIte, List.take_length]
            exact account_tail_M b bs _ fa _
        | some e =>
          exact account_tail_M b bs _ fa d
      · cases files.getLast? with
        | none => rfl
        | some f =>
          simp only [M.bind_apply, M.pure_apply, List.length_cons, Nat.add_one_ne_zero, ↓reduceIte, List.drop_succ_cons,
            List.drop_length, writeAllLoop_nil_M]
    | compressor mm l enc p =>
      cases wx <;> simp only [Bool.false_eq_true, ↓reduceIte]
      · simp only [List.take_length]
        exact account_tail_M b bs _ fa d
      · cases files.getLast? with
        | none => rfl
        | some f =>
          simp only [M.bind_apply, M.pure_apply, List.length_cons, Nat.add_one_ne_zero, ↓reduceIte, List.drop_succ_cons,
            List.drop_length, writeAllLoop_nil_M]

theorem startFileAligned_M (ext : WExt) (name : Bytes) (o : FileOptions) (a : UInt16) (s : WState) :
    (GW.startFileAligned (fun x => x.length) ext name o a s : M _) = Model.startFileAligned ext name o a s := by
  unfold GW.startFileAligned Model.startFileAligned
  simp only [startFileWithExtraData_M, writeData_M] <;> rfl

theorem addSymlink_M (ext : WExt) (name target : Bytes) (o : FileOptions) (s : WState) :
    (GW.addSymlink (fun x => x.length) ext name target o s : M _) = Model.addSymlink ext name target o s := by
  unfold GW.addSymlink Model.addSymlink
  simp only [startEntry_M, writeData_M] <;> rfl

theorem rawCopy_M (ext : WExt) (src : FileData) (raw name : Bytes) (s : WState) :
    (GW.rawCopy (fun x => x.length) ext src raw name s : M _) = Model.rawCopy ext src raw name s := by
  unfold GW.rawCopy Model.rawCopy
  simp only [startEntry_M, writeData_M] <;> rfl

end GW
/-! ### Simulation: the writer over the `Cursor` vs over a sink with ANY short-write schedule

`Sim` (Lemmas/ShortRead): same outcome, same bytes, same position - for every schedule. -/

namespace Sim
variable {α β : Type}

theorem wpanic (s : String) : Sim (WriterIO.wPanic s : M α) (WriterIO.wPanic s : MS α) := Sim.panic s

theorem wattempt {x : M α} {y : MS α} (h : Sim x y) :
    Sim (WriterIO.wAttempt x : M (Except ZErr α)) (WriterIO.wAttempt y : MS (Except ZErr α)) := Sim.attempt h

theorem wseek (s : SeekFrom) : Sim (WriterIO.wSeek s : M Nat) (WriterIO.wSeek s : MS Nat) := Sim.seek s

theorem wflush : Sim (WriterIO.wFlush : M Unit) (WriterIO.wFlush : MS Unit) := by
  unfold Sim
  intro sch d sd hv
  exact ⟨.ok (), { d with calls := d.calls + 1 }, { sd with calls := sd.calls + 1 }, rfl, rfl, hv⟩

theorem wwriteAll (bs : Bytes) : Sim (WriterIO.wWriteAll bs : M Unit) (WriterIO.wWriteAll bs : MS Unit) := by
  unfold Sim
  intro sch d sd hv
  obtain ⟨d', sd', e1, e2, hv'⟩ := short_writeAll_sim sch bs d sd hv
  exact ⟨.ok (), d', sd', e1, e2, hv'⟩

end Sim

syntax "wsim_step" : tactic
macro_rules
  | `(tactic| wsim_step) => `(tactic| first
    | exact Sim.pure _ | exact Sim.wpanic _ | exact Sim.wseek _ | exact Sim.wflush
    | exact Sim.wwriteAll _ | assumption
    | refine Sim.bind ?_ ?_
    | refine Sim.wattempt ?_
    | refine Sim.ite ?_ ?_
    | intro _
    | dsimp only
    | split)

namespace GW

theorem sim_streamPosition : Sim (streamPosition : M Nat) (streamPosition : MS Nat) := Sim.wseek _

theorem sim_writeChunks : ∀ cs : List Bytes, Sim (writeChunks cs : M Unit) (writeChunks cs : MS Unit)
  | [] => by unfold writeChunks; exact Sim.pure _
  | c :: cs => by
    have ih := sim_writeChunks cs
    unfold writeChunks
    repeat' wsim_step

theorem sim_io {α β} (s : WState) {x : M α} {y : MS α} {k : α → M (Except ZErr β × WState)}
    {k' : α → MS (Except ZErr β × WState)} (h : Sim x y) (hk : ∀ a, Sim (k a) (k' a)) :
    Sim (GW.io s x k) (GW.io s y k') := by
  unfold GW.io
  repeat' (first | exact hk _ | wsim_step)

theorem sim_switchTo (ext : WExt) (c : Method) (l : Option Int) (s : WState) :
    Sim (GW.switchTo ext c l s : M _) (GW.switchTo ext c l s : MS _) := by
  unfold GW.switchTo GW.emitFinish
  repeat' wsim_step


theorem sim_endExtraData (ext : WExt) (s : WState) :
    Sim (GW.endExtraData ext s : M _) (GW.endExtraData ext s : MS _) := by
  unfold GW.endExtraData GW.io
  repeat' (first | exact sim_switchTo _ _ _ _ | wsim_step)

theorem sim_updateLocalHeader {β} (s : WState) (f : FileData) {k : Unit → M (Except ZErr β × WState)}
    {k' : Unit → MS (Except ZErr β × WState)} (hk : ∀ a, Sim (k a) (k' a)) :
    Sim (GW.updateLocalHeader s f k) (GW.updateLocalHeader s f k') := by
  unfold GW.updateLocalHeader GW.io
  repeat' (first | exact hk _ | wsim_step)

theorem sim_afterEnc (s : WState) : Sim (GW.afterEnc s : M _) (GW.afterEnc s : MS _) := by
  unfold GW.afterEnc
  repeat' (first | exact sim_streamPosition | refine sim_updateLocalHeader _ _ ?_ | refine sim_io _ ?_ ?_ | wsim_step)

theorem sim_finishFile (ext : WExt) (s : WState) :
    Sim (GW.finishFile ext s : M _) (GW.finishFile ext s : MS _) := by
  unfold GW.finishFile
  repeat' (first | exact sim_switchTo _ _ _ _ | exact sim_endExtraData _ _ | exact sim_afterEnc _ | refine sim_io _ ?_ ?_ | wsim_step)

theorem sim_startEntry (ext : WExt) (name : Bytes) (o : FileOptions) (raw) (s : WState) :
    Sim (GW.startEntry ext name o raw s : M _) (GW.startEntry ext name o raw s : MS _) := by
  unfold GW.startEntry
  repeat' (first | exact sim_finishFile _ _ | exact sim_streamPosition | exact sim_writeChunks _ | refine sim_io _ ?_ ?_ | wsim_step)

theorem sim_startFile (ext : WExt) (name : Bytes) (o : FileOptions) (s : WState) :
    Sim (GW.startFile ext name o s : M _) (GW.startFile ext name o s : MS _) := by
  unfold GW.startFile
  repeat' (first | exact sim_startEntry _ _ _ _ _ | exact sim_switchTo _ _ _ _ | wsim_step)

theorem sim_startFileWithExtraData (ext : WExt) (name : Bytes) (o : FileOptions) (s : WState) :
    Sim (GW.startFileWithExtraData ext name o s : M _) (GW.startFileWithExtraData ext name o s : MS _) := by
  unfold GW.startFileWithExtraData
  repeat' (first | exact sim_startEntry _ _ _ _ _ | wsim_step)

theorem sim_endLocalStartCentral (ext : WExt) (s : WState) :
    Sim (GW.endLocalStartCentral ext s : M _) (GW.endLocalStartCentral ext s : MS _) := by
  unfold GW.endLocalStartCentral
  repeat' (first | exact sim_endExtraData _ _ | wsim_step)

theorem sim_addDirectory (ext : WExt) (name : Bytes) (o : FileOptions) (s : WState) :
    Sim (GW.addDirectory ext name o s : M _) (GW.addDirectory ext name o s : MS _) := by
  unfold GW.addDirectory
  repeat' (first | exact sim_startEntry _ _ _ _ _ | wsim_step)

theorem sim_writeAllCentral (s : WState) : ∀ fs : List FileData,
    Sim (GW.writeAllCentral s fs : M _) (GW.writeAllCentral s fs : MS _)
  | [] => by unfold GW.writeAllCentral; exact Sim.pure _
  | f :: rest => by
    have ih := sim_writeAllCentral s rest
    unfold GW.writeAllCentral
    repeat' (first | exact ih | exact sim_writeChunks _ | refine sim_io _ ?_ ?_ | wsim_step)

theorem sim_finalize (ext : WExt) (s : WState) :
    Sim (GW.finalize ext s : M _) (GW.finalize ext s : MS _) := by
  unfold GW.finalize
  repeat' (first | exact sim_finishFile _ _ | exact sim_streamPosition | exact sim_writeChunks _ | exact sim_writeAllCentral _ _ | refine sim_io _ ?_ ?_ | wsim_step)

theorem sim_finish (ext : WExt) (s : WState) :
    Sim (GW.finish ext s : M _) (GW.finish ext s : MS _) := by
  unfold GW.finish
  repeat' (first | exact sim_finalize _ _ | wsim_step)

theorem sim_dropInner (ext : WExt) (s : WState) :
    Sim (GW.dropInner ext s : M _) (GW.dropInner ext s : MS _) := by
  unfold GW.dropInner
  repeat' wsim_step

theorem sim_dropWriter (ext : WExt) (s : WState) :
    Sim (GW.dropWriter ext s : M _) (GW.dropWriter ext s : MS _) := by
  unfold GW.dropWriter
  repeat' (first | exact sim_finalize _ _ | exact sim_dropInner _ _ | wsim_step)

end GW
/-! ### The data path: `write_all` over `ZipWriter::write` over a short-writing sink / short-accepting encoder -/

/-- The encoder's count is a count: at most what was offered, and not `Ok(0)` for a non-empty buffer
(`Ok(0)` is `WriteZero` for `write_all`: "no longer able to accept bytes"). -/
structure AccOk (acc : Bytes → Nat) : Prop where
  le : ∀ b, acc b ≤ b.length
  pos : ∀ b, b ≠ [] → 0 < acc b

theorem MS.bind_of_ok {α β} {x : MS α} {f : α → MS β} {sch : Nat → Nat} {d d' : Dev} {a : α}
    (h : x sch d = (.ok a, d')) : (x >>= f) sch d = f a sch d' := by
  show (match x sch d with
      | (.ok a, d') => f a sch d'
      | (.err e, d') => (.err e, d')
      | (.panic s, d') => (.panic s, d')) = _
  rw [h]

theorem MS.bind_apply {α β} (x : MS α) (f : α → MS β) (sch : Nat → Nat) (d : Dev) :
    (x >>= f) sch d = match x sch d with
      | (.ok a, d') => f a sch d'
      | (.err e, d') => (.err e, d')
      | (.panic s, d') => (.panic s, d') := rfl

theorem MS.pure_apply {α} (a : α) (sch : Nat → Nat) (d : Dev) : (pure a : MS α) sch d = (.ok a, d) := rfl

namespace GW

/-- the writer state after the open entry took `bs` -/
def fin (s : WState) (bs : Bytes) : WState :=
  { s with statsHasher := Spec.Crc32.updateBytes s.statsHasher bs, statsBytes := s.statsBytes + bs.length,
           inner := absorb s.inner bs }

/-- buffer and position of the sink after the open entry took `bs` (only a plain storer reaches it) -/
def devEff (i : Inner) (d : Dev) (bs : Bytes) : Bytes × Nat :=
  match i with
  | .storer none => (if bs = [] then d.buf else writeAt d.buf d.pos bs, d.pos + bs.length)
  | _ => (d.buf, d.pos)

/-- no refusal for the 4 GiB limit -/
def Fits (s : WState) (f : FileData) (bs : Bytes) : Prop :=
  s.statsBytes + bs.length ≤ 0xFFFFFFFF ∨ f.largeFile = true

instance (s f bs) : Decidable (Fits s f bs) := by unfold Fits; infer_instance

theorem absorb_append (i : Inner) (a b : Bytes) : absorb (absorb i a) b = absorb i (a ++ b) := by
  cases i with
  | closed => rfl
  | storer enc => cases enc <;> simp [absorb]
  | compressor mm l enc p => simp [absorb]

theorem fin_fin (s : WState) (a b : Bytes) : fin (fin s a) b = fin s (a ++ b) := by
  simp only [fin, absorb_append, Spec.Crc32.updateBytes_append, List.length_append, Nat.add_assoc]

theorem fin_nil (s : WState) : fin s [] = s := by
  rcases s with ⟨inner, _⟩
  cases inner with
  | closed => rfl
  | storer enc => cases enc <;> simp [fin, absorb, Spec.Crc32.updateBytes_nil]
  | compressor mm l enc p => simp [fin, absorb, Spec.Crc32.updateBytes_nil]

theorem account_MS (s : WState) (f : FileData) (hf : s.files.getLast? = some f) (taken : Bytes)
    (sch : Nat → Nat) (sd : Dev) :
    (GW.account taken s : MS _) sch sd =
      if s.statsBytes + taken.length ≤ 0xFFFFFFFF ∨ f.largeFile = true then
        (.ok (.ok taken.length, { s with statsHasher := Spec.Crc32.updateBytes s.statsHasher taken, statsBytes := s.statsBytes + taken.length }), sd)
      else (.ok (.error (.io .other), { s with statsHasher := Spec.Crc32.updateBytes s.statsHasher taken, statsBytes := s.statsBytes + taken.length, inner := .closed }), sd) := by
  simp only [GW.account, hf]
  by_cases h1 : s.statsBytes + taken.length ≤ 0xFFFFFFFF
  · have : ¬ (s.statsBytes + taken.length > 4294967295) := by omega
    simp only [h1, this, decide_false, Bool.false_and, Bool.false_eq_true, ↓reduceIte, true_or]
    rfl
  · have : s.statsBytes + taken.length > 4294967295 := by omega
    cases hl : f.largeFile <;>
      simp only [h1, this, decide_true, Bool.true_and, Bool.not_false, Bool.not_true, Bool.false_eq_true,
        ↓reduceIte, false_or, or_true, or_false] <;> rfl

/-- ONE `write` call over the short-writing device in data mode. -/
theorem write_MS_step {acc : Bytes → Nat} (ha : AccOk acc) (s : WState) (f : FileData)
    (hwf : s.writingToFile = true) (hx : s.writingToExtraField = false) (hcl : s.inner ≠ .closed)
    (hf : s.files.getLast? = some f) (b : UInt8) (bs : Bytes) (sch : Nat → Nat) (sd : Dev) :
    ∃ n sd1, 1 ≤ n ∧ n ≤ (b :: bs).length ∧ (sd1.buf, sd1.pos) = devEff s.inner sd ((b :: bs).take n) ∧
      (GW.write acc (b :: bs) s : MS _) sch sd =
        if Fits s f ((b :: bs).take n) then (.ok (.ok n, fin s ((b :: bs).take n)), sd1)
        else (.ok (.error (.io .other), { fin s ((b :: bs).take n) with inner := .closed }), sd1) := by
  rcases s with ⟨inner, files, ss, sb, sh, wf, wx, co, wr, cm⟩
  simp only at hwf hx hcl hf
  subst hwf hx
  cases inner with
  | closed => exact absurd rfl hcl
  | storer enc =>
    cases enc with
    | none =>
      generalize hk : min (b :: bs).length (max (sch sd.calls) 1) = k
      have hk1 : 1 ≤ k ∧ k ≤ (b :: bs).length := by
        simp only [List.length_cons] at hk ⊢; omega
      refine ⟨k, { buf := writeAt sd.buf sd.pos ((b :: bs).take k), pos := sd.pos + k, calls := sd.calls + 1 },
        hk1.1, hk1.2, ?_, ?_⟩
      · have hl : ((b :: bs).take k).length = k := by rw [List.length_take]; omega
        have hne : (b :: bs).take k ≠ [] := by
          intro h; rw [h] at hl; simp at hl; omega
        simp only [devEff, hne, ↓reduceIte, hl]
      · have hw : (WriterIO.wAttempt (WriterIO.wWrite (b :: bs)) : MS _) sch sd = (.ok (.ok k),
            { buf := writeAt sd.buf sd.pos ((b :: bs).take k), pos := sd.pos + k, calls := sd.calls + 1 }) := by
          show MS.attempt (MS.write (b :: bs)) sch sd = _
          simp only [MS.attempt, MS.write, shortWr, reduceCtorEq, ↓reduceIte, hk]
        simp only [GW.write, Bool.not_true, Bool.false_eq_true, ↓reduceIte]
        show ((WriterIO.wAttempt (WriterIO.wWrite (b :: bs)) : MS _) >>= _) sch sd = _
        rw [MS.bind_of_ok hw]
        have hl : ((b :: bs).take k).length = k := by rw [List.length_take]; omega
        dsimp only
        rw [account_MS _ f hf]
        simp only [fin, Fits, absorb, hl]
    | some e =>
      refine ⟨(b :: bs).length, sd, by simp, Nat.le_refl _, rfl, ?_⟩
      simp only [GW.write, Bool.not_true, Bool.false_eq_true, ↓reduceIte, List.take_length]
      rw [account_MS _ f hf]
      simp only [fin, Fits, absorb]
  | compressor mm l enc p =>
    have h1 := ha.le (b :: bs)
    have h2 := ha.pos (b :: bs) (by simp)
    refine ⟨acc (b :: bs), sd, h2, h1, rfl, ?_⟩
    have hl : ((b :: bs).take (acc (b :: bs))).length = acc (b :: bs) := by rw [List.length_take]; omega
    simp only [GW.write, Bool.not_true, Bool.false_eq_true, ↓reduceIte]
    rw [account_MS _ f hf]
    simp only [fin, Fits, absorb, hl]


theorem fin_files (s : WState) (a : Bytes) : (fin s a).files = s.files := rfl
theorem fin_wf (s : WState) (a : Bytes) : (fin s a).writingToFile = s.writingToFile := rfl
theorem fin_wx (s : WState) (a : Bytes) : (fin s a).writingToExtraField = s.writingToExtraField := rfl
theorem fin_inner (s : WState) (a : Bytes) : (fin s a).inner = absorb s.inner a := rfl

theorem absorb_ne_closed {i : Inner} (h : i ≠ .closed) (a : Bytes) : absorb i a ≠ .closed := by
  cases i with
  | closed => exact absurd rfl h
  | storer enc => cases enc <;> simp [absorb]
  | compressor mm l enc p => simp [absorb]

theorem fits_fin (s : WState) (f : FileData) (a rest : Bytes) :
    Fits (fin s a) f rest ↔ Fits s f (a ++ rest) := by
  simp only [Fits, fin, List.length_append, Nat.add_assoc]

theorem fits_prefix {s : WState} {f : FileData} {a rest : Bytes} (h : Fits s f (a ++ rest)) : Fits s f a := by
  simp only [Fits, List.length_append] at h ⊢
  rcases h with h | h
  · left; omega
  · right; exact h

theorem devEff_nil (i : Inner) (d : Dev) : devEff i d [] = (d.buf, d.pos) := by
  cases i with
  | closed => rfl
  | storer enc => cases enc <;> simp [devEff]
  | compressor mm l enc p => rfl

theorem devEff_congr (i : Inner) {d sd : Dev} (hv : SameView d sd) (bs : Bytes) :
    devEff i d bs = devEff i sd bs := by
  obtain ⟨hb, hp⟩ := hv
  cases i with
  | closed => simp [devEff, hb, hp]
  | compressor mm l enc p => simp [devEff, hb, hp]
  | storer enc => cases enc <;> simp [devEff, hb, hp]

theorem devEff_append (i : Inner) (d d1 : Dev) (a rest : Bytes) (ha : a ≠ [])
    (h1 : (d1.buf, d1.pos) = devEff i d a) : devEff (absorb i a) d1 rest = devEff i d (a ++ rest) := by
  cases i with
  | closed => simpa [devEff, absorb] using h1
  | compressor mm l enc p => simpa [devEff, absorb] using h1
  | storer enc =>
    cases enc with
    | some e => simpa [devEff, absorb] using h1
    | none =>
      simp only [devEff, ha, ↓reduceIte, Prod.mk.injEq] at h1
      obtain ⟨hb, hp⟩ := h1
      have hne : a ++ rest ≠ [] := by simp [ha]
      simp only [devEff, absorb, hne, ↓reduceIte, hb, hp, List.length_append, Nat.add_assoc, Prod.mk.injEq, and_true]
      split
      · next hr => subst hr; simp
      · exact writeAt_split d.buf d.pos a rest

/-- The caller's `write_all` loop over `ZipWriter::write`, over the short-writing device and a
short-accepting encoder, in data mode. -/
theorem loop_MS {acc : Bytes → Nat} (ha : AccOk acc) (f : FileData) (sch : Nat → Nat) :
    ∀ (fuel : Nat) (buf : Bytes) (s : WState) (sd : Dev), buf.length < fuel →
      s.writingToFile = true → s.writingToExtraField = false → s.inner ≠ .closed →
      s.files.getLast? = some f →
      (Fits s f buf ∨ buf = [] → ∃ sd', (GW.writeAllLoop acc fuel buf s : MS _) sch sd = (.ok (.ok (), fin s buf), sd') ∧
        (sd'.buf, sd'.pos) = devEff s.inner sd buf) ∧
      (¬ Fits s f buf → buf ≠ [] → ∃ s' sd',
        (GW.writeAllLoop acc fuel buf s : MS _) sch sd = (.ok (.error (.io .other), s'), sd') ∧ s'.inner = .closed ∧
          s'.writingToFile = s.writingToFile ∧ s'.writingToExtraField = s.writingToExtraField ∧
          s'.comment = s.comment) := by
  intro fuel
  induction fuel with
  | zero => intro buf s sd h; omega
  | succ fuel ih =>
    intro buf s sd hlen hwf hx hcl hf
    cases buf with
    | nil =>
      refine ⟨fun _ => ⟨sd, ?_, (devEff_nil _ _).symm⟩, fun _ h => absurd rfl h⟩
      rw [fin_nil]
      rfl
    | cons b bs =>
      obtain ⟨n, sd1, hn1, hn2, hdev, hstep⟩ := write_MS_step ha s f hwf hx hcl hf b bs sch sd
      have hsplit : (b :: bs).take n ++ (b :: bs).drop n = b :: bs := List.take_append_drop _ _
      have hl : ((b :: bs).take n).length = n := by rw [List.length_take]; omega
      have hane : (b :: bs).take n ≠ [] := by
        intro h; rw [h] at hl; simp at hl; omega
      have hunf : (GW.writeAllLoop acc (fuel + 1) (b :: bs) s : MS _) sch sd =
          ((GW.write acc (b :: bs) s : MS _) >>= fun p => match p with
            | (r, s) => match r with
              | .error e => pure (.error e, s)
              | .ok n => if n = 0 then pure (.error (.io .writeZero), s)
                  else GW.writeAllLoop acc fuel ((b :: bs).drop n) s) sch sd := rfl
      by_cases hfit : Fits s f ((b :: bs).take n)
      · rw [if_pos hfit] at hstep
        rw [MS.bind_of_ok hstep] at hunf
        have hn0 : n ≠ 0 := by omega
        simp only [hn0, ↓reduceIte] at hunf
        have hrl : ((b :: bs).drop n).length < fuel := by
          rw [List.length_drop]; simp only [List.length_cons] at hlen hn2 ⊢; omega
        obtain ⟨ih1, ih2⟩ := ih ((b :: bs).drop n) (fin s ((b :: bs).take n)) sd1 hrl hwf hx
          (absorb_ne_closed hcl _) hf
        rw [fits_fin, hsplit] at ih1 ih2
        rw [fin_fin, hsplit, fin_inner, devEff_append _ _ _ _ _ hane hdev, hsplit] at ih1
        rw [hunf]
        refine ⟨fun h => ?_, fun h _ => ?_⟩
        · rcases h with h | h
          · exact ih1 (Or.inl h)
          · cases h
        · by_cases hr : (b :: bs).drop n = []
          · exfalso
            rw [hr, List.append_nil] at hsplit
            rw [hsplit] at hfit
            exact h hfit
          · exact ih2 h hr
      · rw [if_neg hfit] at hstep
        rw [MS.bind_of_ok hstep] at hunf
        refine ⟨fun h => ?_, fun _ _ => ⟨_, sd1, hunf, rfl, rfl, rfl, rfl⟩⟩
        rcases h with h | h
        · rw [← hsplit] at h
          exact absurd (fits_prefix h) hfit
        · cases h


/-- The model's `writeData` (whole write, whole accept) in data mode. -/
theorem writeData_M_data (s : WState) (f : FileData)
    (hwf : s.writingToFile = true) (hx : s.writingToExtraField = false) (hcl : s.inner ≠ .closed)
    (hf : s.files.getLast? = some f) (b : UInt8) (bs : Bytes) (d : Dev) :
    ∃ d', (d'.buf, d'.pos) = devEff s.inner d (b :: bs) ∧
      Model.writeData (b :: bs) s none d =
        if Fits s f (b :: bs) then (.ok (.ok (), fin s (b :: bs)), d')
        else (.ok (.error (.io .other), { fin s (b :: bs) with inner := .closed }), d') := by
  rcases s with ⟨inner, files, ss, sb, sh, wf, wx, co, wr, cm⟩
  simp only at hwf hx hcl hf
  subst hwf hx
  cases inner with
  | closed => exact absurd rfl hcl
  | storer enc =>
    cases enc with
    | none =>
      refine ⟨{ d with buf := writeAt d.buf d.pos (b :: bs), pos := d.pos + (b :: bs).length, calls := d.calls + 1 }, ?_, ?_⟩
      · simp only [devEff, reduceCtorEq, ↓reduceIte]
      · simp only [Model.writeData, List.isEmpty_cons, Bool.false_eq_true, ↓reduceIte, Bool.not_true, Model.io]
        have hw : M.attempt (M.writeAll (b :: bs)) none d = (.ok (.ok ()),
            { d with buf := writeAt d.buf d.pos (b :: bs), pos := d.pos + (b :: bs).length, calls := d.calls + 1 }) := rfl
        rw [M.bind_of_ok hw]
        dsimp only
        simp only [hf, fin, Fits, absorb]
        by_cases h1 : sb + (b :: bs).length ≤ 0xFFFFFFFF
        · have : ¬ (sb + (b :: bs).length > 4294967295) := by omega
          simp only [h1, this, decide_false, Bool.false_and, Bool.false_eq_true, ↓reduceIte, true_or]
          rfl
        · have : sb + (b :: bs).length > 4294967295 := by omega
          rcases Bool.eq_false_or_eq_true f.largeFile with hl | hl <;>
            simp only [hl, h1, this, decide_true, Bool.true_and, Bool.not_false, Bool.not_true, Bool.false_eq_true,
              ↓reduceIte, false_or, or_true, or_false] <;> rfl
    | some e =>
      refine ⟨d, rfl, ?_⟩
      simp only [Model.writeData, List.isEmpty_cons, Bool.false_eq_true, ↓reduceIte, Bool.not_true]
      simp only [hf, fin, Fits, absorb]
      by_cases h1 : sb + (b :: bs).length ≤ 0xFFFFFFFF
      · have : ¬ (sb + (b :: bs).length > 4294967295) := by omega
        simp only [h1, this, decide_false, Bool.false_and, Bool.false_eq_true, ↓reduceIte, true_or]
        rfl
      · have : sb + (b :: bs).length > 4294967295 := by omega
        rcases Bool.eq_false_or_eq_true f.largeFile with hl | hl <;>
          simp only [hl, h1, this, decide_true, Bool.true_and, Bool.not_false, Bool.not_true, Bool.false_eq_true,
            ↓reduceIte, false_or, or_true, or_false] <;> rfl
  | compressor mm l enc p =>
    refine ⟨d, rfl, ?_⟩
    simp only [Model.writeData, List.isEmpty_cons, Bool.false_eq_true, ↓reduceIte, Bool.not_true]
    simp only [hf, fin, Fits, absorb]
    by_cases h1 : sb + (b :: bs).length ≤ 0xFFFFFFFF
    · have : ¬ (sb + (b :: bs).length > 4294967295) := by omega
      simp only [h1, this, decide_false, Bool.false_and, Bool.false_eq_true, ↓reduceIte, true_or]
      rfl
    · have : sb + (b :: bs).length > 4294967295 := by omega
      rcases Bool.eq_false_or_eq_true f.largeFile with hl | hl <;>
        simp only [hl, h1, this, decide_true, Bool.true_and, Bool.not_false, Bool.not_true, Bool.false_eq_true,
          ↓reduceIte, false_or, or_true, or_false] <;> rfl


end GW

/-! ### Simulation up to the 4 GiB refusal -/

/-- Both runs ended the call with the large-file refusal (`write.rs` 243-250): `Err(Other)` and the
writer closed.  (How many bytes reached the sink before the refusal depends on the schedule:
`refusal_bytes_depend_on_schedule`.) -/
def Refusal {β} (r r' : Except ZErr β × WState) : Prop :=
  r.1 = .error (.io .other) ∧ r'.1 = .error (.io .other) ∧ r.2.inner = .closed ∧ r'.2.inner = .closed ∧
    r'.2.writingToFile = r.2.writingToFile ∧ r'.2.writingToExtraField = r.2.writingToExtraField ∧
    r'.2.comment = r.2.comment

/-- `x` over the `Cursor`, `y` over the short-writing device with ANY schedule, from the same bytes at
the same position: same outcome on the same bytes at the same position; or both calls were refused for
the 4 GiB limit; or both panicked at the same site (the device of an unwinding call is not compared). -/
def SimS {β} (x : M (Except ZErr β × WState)) (y : MS (Except ZErr β × WState)) : Prop :=
  ∀ (sch : Nat → Nat) (d sd : Dev), SameView d sd →
    (∃ o d' sd', x none d = (o, d') ∧ y sch sd = (o, sd') ∧ SameView d' sd') ∨
    (∃ r r' d' sd', x none d = (.ok r, d') ∧ y sch sd = (.ok r', sd') ∧ Refusal r r') ∨
    (∃ site d' sd', x none d = (.panic site, d') ∧ y sch sd = (.panic site, sd'))

namespace SimS
variable {α β γ : Type}

theorem of_sim {x : M (Except ZErr β × WState)} {y : MS (Except ZErr β × WState)} (h : Sim x y) : SimS x y :=
  fun sch d sd hv => Or.inl (h.elim sch d sd hv)

theorem bind_sim {x : M α} {y : MS α} {f : α → M (Except ZErr β × WState)} {g : α → MS (Except ZErr β × WState)}
    (h1 : Sim x y) (h2 : ∀ a, SimS (f a) (g a)) : SimS (x >>= f) (y >>= g) := by
  intro sch d sd hv
  obtain ⟨o, d1, sd1, e1, e2, hv1⟩ := h1.elim sch d sd hv
  cases o with
  | ok a =>
    rw [M.bind_of_ok e1, MS.bind_of_ok e2]
    exact h2 a sch d1 sd1 hv1
  | err e =>
    refine Or.inl ⟨.err e, d1, sd1, ?_, ?_, hv1⟩
    · rw [M.bind_apply, e1]
    · rw [MS.bind_apply, e2]
  | panic p =>
    refine Or.inl ⟨.panic p, d1, sd1, ?_, ?_, hv1⟩
    · rw [M.bind_apply, e1]
    · rw [MS.bind_apply, e2]

/-- `let (r, s) ← x; match r with | Err(e) => return Err(e) | Ok(v) => k v s`. -/
theorem tail {x : M (Except ZErr α × WState)} {y : MS (Except ZErr α × WState)}
    {f : Except ZErr α × WState → M (Except ZErr β × WState)}
    {g : Except ZErr α × WState → MS (Except ZErr β × WState)}
    (h : SimS x y)
    (hf : ∀ e s, f (.error e, s) = pure (.error e, s)) (hg : ∀ e s, g (.error e, s) = pure (.error e, s))
    (hk : ∀ v s, SimS (f (.ok v, s)) (g (.ok v, s))) : SimS (x >>= f) (y >>= g) := by
  intro sch d sd hv
  have hyb : ∀ (o : Out (Except ZErr α × WState)) (sd1 : Dev), y sch sd = (o, sd1) →
      (y >>= g) sch sd = (match o with
        | .ok a => g a sch sd1
        | .err e => (.err e, sd1)
        | .panic s => (.panic s, sd1)) := by
    intro o sd1 e2
    rw [MS.bind_apply, e2]
    cases o <;> rfl
  rcases h sch d sd hv with ⟨o, d1, sd1, e1, e2, hv1⟩ | ⟨r, r', d1, sd1, e1, e2, hR⟩ | ⟨site, d1, sd1, e1, e2⟩
  · cases o with
    | ok a =>
      rw [M.bind_of_ok e1, MS.bind_of_ok e2]
      rcases a with ⟨r, s⟩
      cases r with
      | error e =>
        rw [hf, hg]
        exact Or.inl ⟨_, d1, sd1, rfl, rfl, hv1⟩
      | ok v => exact hk v s sch d1 sd1 hv1
    | err e =>
      refine Or.inl ⟨.err e, d1, sd1, ?_, ?_, hv1⟩
      · rw [M.bind_apply, e1]
      · rw [hyb _ _ e2]
    | panic p =>
      refine Or.inl ⟨.panic p, d1, sd1, ?_, ?_, hv1⟩
      · rw [M.bind_apply, e1]
      · rw [hyb _ _ e2]
  · rw [M.bind_of_ok e1, MS.bind_of_ok e2]
    rcases r with ⟨r, s⟩
    rcases r' with ⟨r', s'⟩
    obtain ⟨h1, h2, h3, h4, h5⟩ := hR
    simp only at h1 h2 h3 h4 h5
    subst h1 h2
    rw [hf, hg]
    exact Or.inr (Or.inl ⟨_, _, d1, sd1, rfl, rfl, rfl, rfl, h3, h4, h5⟩)
  · refine Or.inr (Or.inr ⟨site, d1, sd1, ?_, ?_⟩)
    · rw [M.bind_apply, e1]
    · rw [hyb _ _ e2]

end SimS

namespace GW

/-- **The data path.**  The caller's `write_all(buf)` through `ZipWriter::write` over a sink with any
short-write schedule and an encoder with any accept counts, against the model's `writeData` (whole
write, whole accept): same outcome, same writer state (CRC register, byte count, what the encoder /
the ZipCrypto buffer holds), same sink bytes and position - unless the entry crosses 4 GiB without
`large_file`, which both runs refuse. -/
theorem simS_writeData {acc : Bytes → Nat} (ha : AccOk acc) (buf : Bytes) (s : WState) :
    SimS (Model.writeData buf s) (GW.writeData acc buf s : MS _) := by
  intro sch d sd hv
  cases buf with
  | nil => exact Or.inl ⟨.ok (.ok (), s), d, sd, rfl, rfl, hv⟩
  | cons b bs =>
    rcases Bool.eq_false_or_eq_true s.writingToFile with hwf | hwf
    rotate_left
    · refine Or.inl ⟨.ok (.error (.io .other), s), d, sd, ?_, ?_, hv⟩
      · simp only [Model.writeData, List.isEmpty_cons, Bool.false_eq_true, ↓reduceIte, hwf, Bool.not_false]
        rfl
      · simp only [GW.writeData, GW.writeAllLoop, List.isEmpty_cons, Bool.false_eq_true, ↓reduceIte, GW.write, hwf,
          Bool.not_false]
        rfl
    by_cases hcl : s.inner = .closed
    · refine Or.inl ⟨.ok (.error (.io .brokenPipe), s), d, sd, ?_, ?_, hv⟩
      · simp only [Model.writeData, List.isEmpty_cons, Bool.false_eq_true, ↓reduceIte, hwf, Bool.not_true, hcl]
        rfl
      · simp only [GW.writeData, GW.writeAllLoop, List.isEmpty_cons, Bool.false_eq_true, ↓reduceIte, GW.write, hwf,
          Bool.not_true, hcl]
        rfl
    rcases Bool.eq_false_or_eq_true s.writingToExtraField with hx | hx
    · -- extra-field mode: the bytes go to the open entry's extra field, no I/O
      cases hf : s.files.getLast? with
      | none =>
        refine Or.inr (Or.inr ⟨"write.rs:238 files.last_mut().unwrap()", d, sd, ?_, ?_⟩)
        · rcases s with ⟨inner, files, ss, sb, sh, wf, wx, co, wr, cm⟩
          simp only at hwf hx hcl hf
          subst hwf hx
          cases inner with
          | closed => exact absurd rfl hcl
          | storer enc => simp only [Model.writeData, List.isEmpty_cons, Bool.false_eq_true, ↓reduceIte, Bool.not_true, hf]; rfl
          | compressor mm l enc p => simp only [Model.writeData, List.isEmpty_cons, Bool.false_eq_true, ↓reduceIte, Bool.not_true, hf]; rfl
        · rcases s with ⟨inner, files, ss, sb, sh, wf, wx, co, wr, cm⟩
          simp only at hwf hx hcl hf
          subst hwf hx
          cases inner with
          | closed => exact absurd rfl hcl
          | storer enc =>
            simp only [GW.writeData, GW.writeAllLoop, List.isEmpty_cons, Bool.false_eq_true, ↓reduceIte, GW.write, Bool.not_true, hf]; rfl
          | compressor mm l enc p =>
            simp only [GW.writeData, GW.writeAllLoop, List.isEmpty_cons, Bool.false_eq_true, ↓reduceIte, GW.write, Bool.not_true, hf]; rfl
      | some f =>
        refine Or.inl ⟨.ok (.ok (), { s with files := setLast s.files { f with extraField := f.extraField ++ (b :: bs) } }), d, sd, ?_, ?_, hv⟩
        · rcases s with ⟨inner, files, ss, sb, sh, wf, wx, co, wr, cm⟩
          simp only at hwf hx hcl hf
          subst hwf hx
          cases inner with
          | closed => exact absurd rfl hcl
          | storer enc => simp only [Model.writeData, List.isEmpty_cons, Bool.false_eq_true, ↓reduceIte, Bool.not_true, hf]; rfl
          | compressor mm l enc p => simp only [Model.writeData, List.isEmpty_cons, Bool.false_eq_true, ↓reduceIte, Bool.not_true, hf]; rfl
        · rcases s with ⟨inner, files, ss, sb, sh, wf, wx, co, wr, cm⟩
          simp only at hwf hx hcl hf
          subst hwf hx
          cases inner with
          | closed => exact absurd rfl hcl
          | storer enc =>
            simp only [GW.writeData, GW.writeAllLoop, List.isEmpty_cons, Bool.false_eq_true, ↓reduceIte, GW.write, Bool.not_true, hf,
              MS.bind_apply, MS.pure_apply, List.length_cons, Nat.add_one_ne_zero, List.drop_succ_cons, List.drop_length]
            rfl
          | compressor mm l enc p =>
            simp only [GW.writeData, GW.writeAllLoop, List.isEmpty_cons, Bool.false_eq_true, ↓reduceIte, GW.write, Bool.not_true, hf,
              MS.bind_apply, MS.pure_apply, List.length_cons, Nat.add_one_ne_zero, List.drop_succ_cons, List.drop_length]
            rfl
    · cases hf : s.files.getLast? with
      | none =>
        -- no open entry in data mode (unreachable: `Inv.fileFiles`): both runs panic at `files.last_mut().unwrap()`
        rcases s with ⟨inner, files, ss, sb, sh, wf, wx, co, wr, cm⟩
        simp only at hwf hx hcl hf
        subst hwf hx
        cases inner with
        | closed => exact absurd rfl hcl
        | storer enc =>
          cases enc with
          | none =>
            have hw : M.attempt (M.writeAll (b :: bs)) none d = (.ok (.ok ()),
              { d with buf := writeAt d.buf d.pos (b :: bs), pos := d.pos + (b :: bs).length, calls := d.calls + 1 }) := rfl
            obtain ⟨k, hk⟩ : ∃ k, min (b :: bs).length (max (sch sd.calls) 1) = k := ⟨_, rfl⟩
            have hw2 : (WriterIO.wAttempt (WriterIO.wWrite (b :: bs)) : MS _) sch sd = (.ok (.ok k),
                { buf := writeAt sd.buf sd.pos ((b :: bs).take k), pos := sd.pos + k, calls := sd.calls + 1 }) := by
              show MS.attempt (MS.write (b :: bs)) sch sd = _
              simp only [MS.attempt, MS.write, shortWr, reduceCtorEq, ↓reduceIte, hk]
            refine Or.inr (Or.inr ⟨"write.rs:244 files.last_mut().unwrap()",
              { d with buf := writeAt d.buf d.pos (b :: bs), pos := d.pos + (b :: bs).length, calls := d.calls + 1 },
              { buf := writeAt sd.buf sd.pos ((b :: bs).take k), pos := sd.pos + k, calls := sd.calls + 1 }, ?_, ?_⟩)
            · simp only [Model.writeData, List.isEmpty_cons, Bool.false_eq_true, ↓reduceIte, Bool.not_true, Model.io]
              rw [M.bind_of_ok hw]
              simp only [hf]
              rfl
            · simp only [GW.writeData, GW.writeAllLoop, List.isEmpty_cons, Bool.false_eq_true, ↓reduceIte, GW.write, Bool.not_true]
              rw [MS.bind_apply, MS.bind_apply, hw2]
              simp only [GW.account, hf]
              rfl
          | some e =>
            refine Or.inr (Or.inr ⟨"write.rs:244 files.last_mut().unwrap()", d, sd, ?_, ?_⟩)
            · simp only [Model.writeData, List.isEmpty_cons, Bool.false_eq_true, ↓reduceIte, Bool.not_true, hf]; rfl
            · simp only [GW.writeData, GW.writeAllLoop, List.isEmpty_cons, Bool.false_eq_true, ↓reduceIte, GW.write, Bool.not_true,
                GW.account, hf]; rfl
        | compressor mm l enc p =>
          refine Or.inr (Or.inr ⟨"write.rs:244 files.last_mut().unwrap()", d, sd, ?_, ?_⟩)
          · simp only [Model.writeData, List.isEmpty_cons, Bool.false_eq_true, ↓reduceIte, Bool.not_true, hf]; rfl
          · simp only [GW.writeData, GW.writeAllLoop, List.isEmpty_cons, Bool.false_eq_true, ↓reduceIte, GW.write, Bool.not_true,
              GW.account, hf]; rfl
      | some f =>
        obtain ⟨d', hd', hM⟩ := writeData_M_data s f hwf hx hcl hf b bs d
        obtain ⟨h1, h2⟩ := loop_MS ha f sch ((b :: bs).length + 1) (b :: bs) s sd (Nat.lt_succ_self _) hwf hx hcl hf
        by_cases hfit : Fits s f (b :: bs)
        · obtain ⟨sd', e, hsd'⟩ := h1 (Or.inl hfit)
          refine Or.inl ⟨_, d', sd', by rw [hM, if_pos hfit], e, ?_⟩
          have := devEff_congr s.inner hv (b :: bs)
          rw [← hd', ← hsd'] at this
          simp only [Prod.mk.injEq] at this
          exact ⟨this.1.symm, this.2.symm⟩
        · obtain ⟨s', sd', e, hcl', hf1, hf2, hf3⟩ := h2 hfit (by simp)
          exact Or.inr (Or.inl ⟨_, _, d', sd', by rw [hM, if_neg hfit], e, rfl, rfl, rfl, hcl', hf1, hf2, hf3⟩)


theorem simS_writeData' {acc : Bytes → Nat} (ha : AccOk acc) (buf : Bytes) (s : WState) :
    SimS (GW.writeData (fun x => x.length) buf s : M _) (GW.writeData acc buf s : MS _) := by
  rw [writeData_M]; exact simS_writeData ha buf s

theorem simS_addSymlink {acc : Bytes → Nat} (ha : AccOk acc) (ext : WExt) (name target : Bytes) (o : FileOptions)
    (s : WState) :
    SimS (GW.addSymlink (fun x => x.length) ext name target o s : M _) (GW.addSymlink acc ext name target o s : MS _) := by
  unfold GW.addSymlink
  refine SimS.bind_sim (sim_startEntry _ _ _ _ _) ?_
  rintro ⟨r, s⟩
  cases r with
  | error e => exact SimS.of_sim (Sim.pure _)
  | ok v =>
    refine SimS.tail (simS_writeData' ha _ _) (fun _ _ => rfl) (fun _ _ => rfl) ?_
    intro v s
    exact SimS.of_sim (Sim.pure _)

theorem simS_rawCopy {acc : Bytes → Nat} (ha : AccOk acc) (ext : WExt) (src : FileData) (raw name : Bytes)
    (s : WState) :
    SimS (GW.rawCopy (fun x => x.length) ext src raw name s : M _) (GW.rawCopy acc ext src raw name s : MS _) := by
  unfold GW.rawCopy
  refine SimS.bind_sim (sim_startEntry _ _ _ _ _) ?_
  rintro ⟨r, s⟩
  cases r with
  | error e => exact SimS.of_sim (Sim.pure _)
  | ok v => exact simS_writeData' ha _ _

theorem simS_startFileAligned {acc : Bytes → Nat} (ha : AccOk acc) (ext : WExt) (name : Bytes) (o : FileOptions)
    (a : UInt16) (s : WState) :
    SimS (GW.startFileAligned (fun x => x.length) ext name o a s : M _)
      (GW.startFileAligned acc ext name o a s : MS _) := by
  unfold GW.startFileAligned
  refine SimS.bind_sim (sim_startFileWithExtraData _ _ _ _) ?_
  rintro ⟨r, s⟩
  cases r with
  | error e => exact SimS.of_sim (Sim.pure _)
  | ok dataStart =>
    dsimp only
    refine SimS.tail ?_ (fun _ _ => rfl) (fun _ _ => rfl) ?_
    · split
      · refine SimS.tail (simS_writeData' ha _ _) (fun _ _ => rfl) (fun _ _ => rfl) ?_
        intro _ s
        refine SimS.tail (simS_writeData' ha _ _) (fun _ _ => rfl) (fun _ _ => rfl) ?_
        intro _ s
        refine SimS.tail (simS_writeData' ha _ _) (fun _ _ => rfl) (fun _ _ => rfl) ?_
        intro _ s
        refine SimS.of_sim ?_
        repeat' (first | exact sim_endLocalStartCentral _ _ | wsim_step)
      · exact SimS.of_sim (Sim.pure _)
    · intro _ s
      refine SimS.of_sim ?_
      repeat' (first | exact sim_endExtraData _ _ | wsim_step)

end GW

/-! ### Whole call sequences -/

namespace GW
variable {m : Type → Type} [WriterIO m]

def mapStepG {α β} (f : α → β) (st : StepG m α) : StepG m β := fun s => do
  let (r, s') ← st s
  pure (r.map f, s')

/-- Dispatch of one call (`Props.C12.step`), generically; `acc`: the encoder's accept counts. -/
def step (acc : Bytes → Nat) (ext : WExt) : Call → StepG m (Option Nat)
  | .startFile n o => mapStepG (fun _ => none) (startFile ext n o)
  | .startFileWithExtraData n o => mapStepG some (startFileWithExtraData ext n o)
  | .startFileAligned n o a => mapStepG some (startFileAligned acc ext n o a)
  | .write b => mapStepG (fun _ => none) (writeData acc b)
  | .endLocalStartCentral => mapStepG some (endLocalStartCentral ext)
  | .endExtraData => mapStepG some (endExtraData ext)
  | .addDirectory n o => mapStepG (fun _ => none) (addDirectory ext n o)
  | .addSymlink n t o => mapStepG (fun _ => none) (addSymlink acc ext n t o)
  | .setComment c => fun s => pure (.ok none, { s with comment := c })
  | .rawCopy src raw n => mapStepG (fun _ => none) (rawCopy acc ext src raw n)
  | .finish => mapStepG (fun _ => none) (finish ext)
  | .drop => mapStepG (fun _ => none) (dropWriter ext)

theorem mapStepG_M {α β} (f : α → β) (st : StepG M α) : mapStepG f st = mapStep f st := rfl

/-- **`GW.step` at `M` with a whole-accepting encoder is the model's `step`** (`Props/C12`). -/
theorem step_M (ext : WExt) (c : Call) (s : WState) :
    (GW.step (fun x => x.length) ext c s : M _) = Props.C12.step ext c s := by
  cases c <;> simp only [GW.step, Props.C12.step, mapStepG, mapStep, startFile_M, startFileWithExtraData_M,
    startFileAligned_M, writeData_M, endLocalStartCentral_M, endExtraData_M, addDirectory_M, addSymlink_M,
    rawCopy_M, finish_M, dropWriter_M]

theorem simS_map {α β} (f : α → β) {x : M (Except ZErr α × WState)} {y : MS (Except ZErr α × WState)}
    (h : SimS x y) :
    SimS (x >>= fun p => match p with | (r, s') => pure (r.map f, s'))
      (y >>= fun p => match p with | (r, s') => pure (r.map f, s')) :=
  SimS.tail h (fun _ _ => rfl) (fun _ _ => rfl) (fun _ _ => SimS.of_sim (Sim.pure _))

theorem simS_step {acc : Bytes → Nat} (ha : AccOk acc) (ext : WExt) (c : Call) (s : WState) :
    SimS (GW.step (fun x => x.length) ext c s : M _) (GW.step acc ext c s : MS _) := by
  cases c with
  | startFile n o => exact simS_map _ (SimS.of_sim (sim_startFile _ _ _ _))
  | startFileWithExtraData n o => exact simS_map _ (SimS.of_sim (sim_startFileWithExtraData _ _ _ _))
  | startFileAligned n o a => exact simS_map _ (simS_startFileAligned ha _ _ _ _ _)
  | write b => exact simS_map _ (simS_writeData' ha _ _)
  | endLocalStartCentral => exact simS_map _ (SimS.of_sim (sim_endLocalStartCentral _ _))
  | endExtraData => exact simS_map _ (SimS.of_sim (sim_endExtraData _ _))
  | addDirectory n o => exact simS_map _ (SimS.of_sim (sim_addDirectory _ _ _ _))
  | addSymlink n t o => exact simS_map _ (simS_addSymlink ha _ _ _ _ _)
  | setComment c => exact SimS.of_sim (Sim.pure _)
  | rawCopy src raw n => exact simS_map _ (simS_rawCopy ha _ _ _ _ _)
  | finish => exact simS_map _ (SimS.of_sim (sim_finish _ _))
  | drop => exact simS_map _ (SimS.of_sim (sim_dropWriter _ _))

/-- `Props.C12.runCalls` over the short-writing device: per-call outcomes, final writer state, final
device.  A panic ends the run. -/
def runCallsS (acc : Bytes → Nat) (ext : WExt) :
    List Call → WState → (Nat → Nat) → Dev → List (Out (Option Nat)) × WState × Dev
  | [], s, _, d => ([], s, d)
  | c :: cs, s, sch, d =>
    match (GW.step acc ext c s : MS _) sch d with
    | (.ok (.ok v, s'), d') =>
      let r := runCallsS acc ext cs s' sch d'
      (.ok v :: r.1, r.2)
    | (.ok (.error e, s'), d') =>
      let r := runCallsS acc ext cs s' sch d'
      (.err e :: r.1, r.2)
    | (.err e, d') =>
      let r := runCallsS acc ext cs s sch d'
      (.err e :: r.1, r.2)
    | (.panic site, d') => ([.panic site], s, d')

/-- Somewhere in the call list both runs - identical until then: same outcomes, same writer state, same
sink bytes and position - refused a call for the 4 GiB limit (`Err(Other)`, writer closed). -/
def RefusedAt (acc : Bytes → Nat) (ext : WExt) (sch : Nat → Nat) : List Call → WState → Dev → Dev → Prop
  | [], _, _, _ => False
  | c :: cs, s, d, sd =>
    (∃ r r' d' sd', Props.C12.step ext c s none d = (.ok r, d') ∧
        (GW.step acc ext c s : MS _) sch sd = (.ok r', sd') ∧ Refusal r r') ∨
    (∃ v s' d' sd', Props.C12.step ext c s none d = (.ok (v, s'), d') ∧
        (GW.step acc ext c s : MS _) sch sd = (.ok (v, s'), sd') ∧ SameView d' sd' ∧
        RefusedAt acc ext sch cs s' d' sd') ∨
    (∃ e d' sd', Props.C12.step ext c s none d = (.err e, d') ∧
        (GW.step acc ext c s : MS _) sch sd = (.err e, sd') ∧ SameView d' sd' ∧
        RefusedAt acc ext sch cs s d' sd')

theorem run_sim {acc : Bytes → Nat} (ha : AccOk acc) (ext : WExt) (sch : Nat → Nat) :
    ∀ (calls : List Call) (s : WState) (d sd : Dev), SameView d sd →
      ((runCalls ext calls s none d).1 = (runCallsS acc ext calls s sch sd).1 ∧
        (runCalls ext calls s none d).2.1 = (runCallsS acc ext calls s sch sd).2.1 ∧
        SameView (runCalls ext calls s none d).2.2 (runCallsS acc ext calls s sch sd).2.2) ∨
      RefusedAt acc ext sch calls s d sd ∨
      ((runCalls ext calls s none d).1 = (runCallsS acc ext calls s sch sd).1 ∧
        ∃ site, Out.panic site ∈ (runCalls ext calls s none d).1) := by
  intro calls
  induction calls with
  | nil => intro s d sd hv; exact Or.inl ⟨rfl, rfl, hv⟩
  | cons c cs ih =>
    intro s d sd hv
    have hs := simS_step ha ext c s sch d sd hv
    rw [step_M] at hs
    rcases hs with ⟨o, d1, sd1, e1, e2, hv1⟩ | ⟨r, r', d1, sd1, e1, e2, hR⟩ | ⟨site, d1, sd1, e1, e2⟩
    · cases o with
      | ok p =>
        rcases p with ⟨r, s'⟩
        cases r with
        | ok v =>
          simp only [runCalls, runCallsS, e1, e2]
          rcases ih s' d1 sd1 hv1 with ⟨h1, h2, h3⟩ | h | ⟨h1, site, h2⟩
          · exact Or.inl ⟨by rw [h1], h2, h3⟩
          · exact Or.inr (Or.inl (Or.inr (Or.inl ⟨_, s', d1, sd1, e1, e2, hv1, h⟩)))
          · exact Or.inr (Or.inr ⟨by rw [h1], site, List.mem_cons_of_mem _ h2⟩)
        | error e =>
          simp only [runCalls, runCallsS, e1, e2]
          rcases ih s' d1 sd1 hv1 with ⟨h1, h2, h3⟩ | h | ⟨h1, site, h2⟩
          · exact Or.inl ⟨by rw [h1], h2, h3⟩
          · exact Or.inr (Or.inl (Or.inr (Or.inl ⟨_, s', d1, sd1, e1, e2, hv1, h⟩)))
          · exact Or.inr (Or.inr ⟨by rw [h1], site, List.mem_cons_of_mem _ h2⟩)
      | err e =>
        simp only [runCalls, runCallsS, e1, e2]
        rcases ih s d1 sd1 hv1 with ⟨h1, h2, h3⟩ | h | ⟨h1, site, h2⟩
        · exact Or.inl ⟨by rw [h1], h2, h3⟩
        · exact Or.inr (Or.inl (Or.inr (Or.inr ⟨e, d1, sd1, e1, e2, hv1, h⟩)))
        · exact Or.inr (Or.inr ⟨by rw [h1], site, List.mem_cons_of_mem _ h2⟩)
      | panic site =>
        simp only [runCalls, runCallsS, e1, e2]
        exact Or.inl ⟨trivial, trivial, hv1⟩
    · exact Or.inr (Or.inl (Or.inl ⟨r, r', d1, sd1, e1, e2, hR⟩))
    · refine Or.inr (Or.inr ?_)
      simp only [runCalls, runCallsS, e1, e2]
      exact ⟨trivial, site, by simp⟩


/-- A refusal shows in the whole-write run as an `Err(io::ErrorKind::Other)` outcome. -/
theorem refusedAt_mem {acc : Bytes → Nat} {ext : WExt} {sch : Nat → Nat} :
    ∀ (calls : List Call) (s : WState) (d sd : Dev), RefusedAt acc ext sch calls s d sd →
      Out.err (.io .other) ∈ (runCalls ext calls s none d).1 := by
  intro calls
  induction calls with
  | nil => intro s d sd h; exact h.elim
  | cons c cs ih =>
    intro s d sd h
    rcases h with ⟨r, r', d', sd', e1, _, hR⟩ | ⟨v, s', d', sd', e1, _, _, h⟩ | ⟨e, d', sd', e1, _, _, h⟩
    · rcases r with ⟨r, s'⟩
      have : r = .error (.io .other) := hR.1
      subst this
      simp only [runCalls, e1]
      exact List.mem_cons_self
    · cases v with
      | ok v => simp only [runCalls, e1]; exact List.mem_cons_of_mem _ (ih _ _ _ h)
      | error e => simp only [runCalls, e1]; exact List.mem_cons_of_mem _ (ih _ _ _ h)
    · simp only [runCalls, e1]; exact List.mem_cons_of_mem _ (ih _ _ _ h)

end GW
/-! ### After a refusal: a closed writer answers without I/O, the same under every schedule -/

theorem MS.ext {α} {x y : MS α} (h : ∀ sch d, x sch d = y sch d) : x = y := by
  funext sch d; exact h sch d

instance : LawfulMonad MS := LawfulMonad.mk'
  (id_map := by
    intro α x
    apply MS.ext; intro sch d
    show (x >>= fun a => pure (id a)) sch d = x sch d
    rw [MS.bind_apply]
    rcases h : x sch d with ⟨o, d'⟩
    cases o <;> rfl)
  (pure_bind := by intros; rfl)
  (bind_assoc := by
    intro α β γ x f g
    apply MS.ext; intro sch d
    simp only [MS.bind_apply]
    rcases h : x sch d with ⟨o, d'⟩
    cases o <;> simp only [])

instance instLawfulM : LawfulMonad M := LawfulMonad.mk'
  (id_map := by
    intro α x
    funext fa d
    show (x >>= fun a => pure (id a)) fa d = x fa d
    rw [M.bind_apply]
    rcases h : x fa d with ⟨o, d'⟩
    cases o <;> rfl)
  (pure_bind := by intros; rfl)
  (bind_assoc := by
    intro α β γ x f g
    funext fa d
    simp only [M.bind_apply]
    rcases h : x fa d with ⟨o, d'⟩
    cases o <;> simp only [])

namespace GW
variable {m : Type → Type} [WriterIO m] [LawfulMonad m]
set_option linter.unusedSectionVars false

theorem switchTo_closed (ext : WExt) (c : Method) (l : Option Int) {s : WState} (h : s.inner = .closed) :
    (GW.switchTo ext c l s : m _) = pure (.error (.io .brokenPipe), s) := by
  simp only [GW.switchTo, h, Inner.currentCompression]

theorem endExtraData_closed (ext : WExt) {s : WState} (h : s.inner = .closed) :
    (GW.endExtraData ext s : m _) =
      pure (.error (.io (if s.writingToExtraField then .brokenPipe else .other)), s) := by
  cases hx : s.writingToExtraField <;>
    simp only [GW.endExtraData, hx, h, Inner.isClosed, Bool.not_false, Bool.not_true, ↓reduceIte, Bool.false_eq_true]

theorem finishFile_closed (ext : WExt) {s : WState} (h : s.inner = .closed) :
    (GW.finishFile ext s : m _) = pure (.error (.io .brokenPipe), s) := by
  cases hx : s.writingToExtraField
  · simp only [GW.finishFile, hx, Bool.false_eq_true, ↓reduceIte, pure_bind, switchTo_closed ext _ _ h]
  · simp only [GW.finishFile, hx, ↓reduceIte, endExtraData_closed ext h, pure_bind, Except.map]


theorem startEntry_closed (ext : WExt) (name : Bytes) (o : FileOptions) (raw) {s : WState} (h : s.inner = .closed) :
    (GW.startEntry ext name o raw s : m _) =
      pure (.error (if name.length > 65535 then .invalidArchive else .io .brokenPipe), s) := by
  by_cases hn : name.length > 65535
  · simp only [GW.startEntry, hn, ↓reduceIte]
  · simp only [GW.startEntry, hn, ↓reduceIte, finishFile_closed ext h, pure_bind]

theorem finalize_closed (ext : WExt) {s : WState} (h : s.inner = .closed) :
    (GW.finalize ext s : m _) =
      pure (.error (if s.comment.length > 65535 then .invalidArchive else .io .brokenPipe), s) := by
  by_cases hn : s.comment.length > 65535
  · simp only [GW.finalize, hn, ↓reduceIte]
  · simp only [GW.finalize, hn, ↓reduceIte, finishFile_closed ext h, pure_bind]

theorem writeData_closed (acc : Bytes → Nat) (buf : Bytes) {s : WState} (h : s.inner = .closed) :
    (GW.writeData acc buf s : m _) =
      pure (if buf.isEmpty then .ok () else if s.writingToFile then .error (.io .brokenPipe) else .error (.io .other), s) := by
  cases buf with
  | nil => simp only [GW.writeData, GW.writeAllLoop, List.isEmpty_nil, ↓reduceIte]
  | cons b bs =>
    cases hwf : s.writingToFile <;>
      simp only [GW.writeData, GW.writeAllLoop, List.isEmpty_cons, Bool.false_eq_true, ↓reduceIte, GW.write, hwf, h,
        Bool.not_false, Bool.not_true, pure_bind]

/-- the name `add_directory` gives the entry -/
def dirName (name : Bytes) : Bytes :=
  match name.getLast? with
  | some 0x2f => name
  | some 0x5c => name
  | _ => name ++ [0x2f]

/-- What a CLOSED writer answers: no I/O, the state unchanged (but for `set_comment`), the outcome a function of
the call, of the two mode flags and of the comment's length. -/
def closedStep : Call → WState → Except ZErr (Option Nat) × WState
  | .startFile n _, s => (.error (if n.length > 65535 then .invalidArchive else .io .brokenPipe), s)
  | .startFileWithExtraData n _, s => (.error (if n.length > 65535 then .invalidArchive else .io .brokenPipe), s)
  | .startFileAligned n _ _, s => (.error (if n.length > 65535 then .invalidArchive else .io .brokenPipe), s)
  | .write b, s =>
    (if b.isEmpty then .ok none else if s.writingToFile then .error (.io .brokenPipe) else .error (.io .other), s)
  | .endLocalStartCentral, s => (.error (.io (if s.writingToExtraField then .brokenPipe else .other)), s)
  | .endExtraData, s => (.error (.io (if s.writingToExtraField then .brokenPipe else .other)), s)
  | .addDirectory n _, s => (.error (if (dirName n).length > 65535 then .invalidArchive else .io .brokenPipe), s)
  | .addSymlink n _ _, s => (.error (if n.length > 65535 then .invalidArchive else .io .brokenPipe), s)
  | .setComment c, s => (.ok none, { s with comment := c })
  | .rawCopy _ _ n, s => (.error (if n.length > 65535 then .invalidArchive else .io .brokenPipe), s)
  | .finish, s => (.error (if s.comment.length > 65535 then .invalidArchive else .io .brokenPipe), s)
  | .drop, s => (.ok none, s)

theorem step_closed (acc : Bytes → Nat) (ext : WExt) (c : Call) {s : WState} (h : s.inner = .closed) :
    (GW.step acc ext c s : m _) = pure (closedStep c s) := by
  cases c with
  | startFile n o =>
    simp only [GW.step, mapStepG, GW.startFile, startEntry_closed ext _ _ _ h, pure_bind, closedStep, Except.map, withFilePerm]
  | startFileWithExtraData n o =>
    simp only [GW.step, mapStepG, GW.startFileWithExtraData, startEntry_closed ext _ _ _ h, pure_bind, closedStep, Except.map]
  | startFileAligned n o a =>
    simp only [GW.step, mapStepG, GW.startFileAligned, GW.startFileWithExtraData, startEntry_closed ext _ _ _ h, pure_bind,
      closedStep, Except.map]
  | write b =>
    simp only [GW.step, mapStepG, writeData_closed acc b h, pure_bind, closedStep]
    cases b with
    | nil => rfl
    | cons x xs => cases s.writingToFile <;> rfl
  | endLocalStartCentral =>
    simp only [GW.step, mapStepG, GW.endLocalStartCentral, endExtraData_closed ext h, pure_bind, closedStep, Except.map]
  | endExtraData =>
    simp only [GW.step, mapStepG, endExtraData_closed ext h, pure_bind, closedStep, Except.map]
  | addDirectory n o =>
    simp only [GW.step, mapStepG, GW.addDirectory, startEntry_closed ext _ _ _ h, pure_bind, closedStep, Except.map, dirName]
    rfl
  | addSymlink n t o =>
    simp only [GW.step, mapStepG, GW.addSymlink, startEntry_closed ext _ _ _ h, pure_bind, closedStep, Except.map]
  | setComment c => rfl
  | rawCopy src raw n =>
    simp only [GW.step, mapStepG, GW.rawCopy, startEntry_closed ext _ _ _ h, pure_bind, closedStep, Except.map]
  | finish =>
    simp only [GW.step, mapStepG, GW.finish, finalize_closed ext h, pure_bind, closedStep, Except.map]
  | drop =>
    simp only [GW.step, mapStepG, GW.dropWriter, h, Inner.isClosed, ↓reduceIte, pure_bind, closedStep, Except.map]

end GW

namespace GW

/-- Two closed writers that agree on the two mode flags and the comment. -/
def ClosedRel (s s' : WState) : Prop :=
  s.inner = .closed ∧ s'.inner = .closed ∧ s'.writingToFile = s.writingToFile ∧
    s'.writingToExtraField = s.writingToExtraField ∧ s'.comment = s.comment

theorem closedStep_rel (c : Call) {s s' : WState} (h : ClosedRel s s') :
    (closedStep c s).1 = (closedStep c s').1 ∧ ClosedRel (closedStep c s).2 (closedStep c s').2 := by
  obtain ⟨h1, h2, h3, h4, h5⟩ := h
  cases c with
  | setComment c => exact ⟨rfl, h1, h2, h3, h4, rfl⟩
  | startFile _ _ => exact ⟨rfl, h1, h2, h3, h4, h5⟩
  | startFileWithExtraData _ _ => exact ⟨rfl, h1, h2, h3, h4, h5⟩
  | startFileAligned _ _ _ => exact ⟨rfl, h1, h2, h3, h4, h5⟩
  | write b => exact ⟨by simp only [closedStep, h3], h1, h2, h3, h4, h5⟩
  | endLocalStartCentral => exact ⟨by simp only [closedStep, h4], h1, h2, h3, h4, h5⟩
  | endExtraData => exact ⟨by simp only [closedStep, h4], h1, h2, h3, h4, h5⟩
  | addDirectory _ _ => exact ⟨rfl, h1, h2, h3, h4, h5⟩
  | addSymlink _ _ _ => exact ⟨rfl, h1, h2, h3, h4, h5⟩
  | rawCopy _ _ _ => exact ⟨rfl, h1, h2, h3, h4, h5⟩
  | finish => exact ⟨by simp only [closedStep, h5], h1, h2, h3, h4, h5⟩
  | drop => exact ⟨rfl, h1, h2, h3, h4, h5⟩

/-- From related closed writers both runs give the same outcomes (and do no I/O). -/
theorem run_closed (acc : Bytes → Nat) (ext : WExt) (sch : Nat → Nat) :
    ∀ (calls : List Call) (s s' : WState) (d sd : Dev), ClosedRel s s' →
      (runCalls ext calls s none d).1 = (runCallsS acc ext calls s' sch sd).1 := by
  intro calls
  induction calls with
  | nil => intros; rfl
  | cons c cs ih =>
    intro s s' d sd h
    obtain ⟨ho, hrel⟩ := closedStep_rel c h
    have e1 : Props.C12.step ext c s none d = (.ok (closedStep c s), d) := by
      rw [← step_M, step_closed (m := M) _ ext c h.1]; rfl
    have e2 : (GW.step acc ext c s' : MS _) sch sd = (.ok (closedStep c s'), sd) := by
      rw [step_closed (m := MS) acc ext c h.2.1]; rfl
    rcases hc : closedStep c s with ⟨r, t⟩
    rcases hc' : closedStep c s' with ⟨r', t'⟩
    rw [hc, hc'] at ho hrel
    rw [hc] at e1
    rw [hc'] at e2
    simp only at ho
    subst ho
    cases r with
    | ok v => simp only [runCalls, runCallsS, e1, e2, ih t t' d sd hrel]
    | error e => simp only [runCalls, runCallsS, e1, e2, ih t t' d sd hrel]

/-- After the refusal the outcomes stay the same. -/
theorem refusedAt_outs {acc : Bytes → Nat} {ext : WExt} {sch : Nat → Nat} :
    ∀ (calls : List Call) (s : WState) (d sd : Dev), RefusedAt acc ext sch calls s d sd →
      (runCalls ext calls s none d).1 = (runCallsS acc ext calls s sch sd).1 := by
  intro calls
  induction calls with
  | nil => intro s d sd h; exact h.elim
  | cons c cs ih =>
    intro s d sd h
    rcases h with ⟨r, r', d', sd', e1, e2, hR⟩ | ⟨v, s', d', sd', e1, e2, _, h⟩ | ⟨e, d', sd', e1, e2, _, h⟩
    · rcases r with ⟨r, t⟩
      rcases r' with ⟨r', t'⟩
      obtain ⟨h1, h2, h3, h4, h5⟩ := hR
      simp only at h1 h2 h3 h4 h5
      subst h1 h2
      simp only [runCalls, runCallsS, e1, e2, run_closed acc ext sch cs t t' d' sd' ⟨h3, h4, h5⟩]
    · cases v with
      | ok v => simp only [runCalls, runCallsS, e1, e2, ih _ _ _ h]
      | error e => simp only [runCalls, runCallsS, e1, e2, ih _ _ _ h]
    · simp only [runCalls, runCallsS, e1, e2, ih _ _ _ h]

/-- **The per-call outcomes never depend on the schedule.** -/
theorem run_outcomes {acc : Bytes → Nat} (ha : AccOk acc) (ext : WExt) (sch : Nat → Nat) (calls : List Call)
    (s : WState) (d sd : Dev) (hv : SameView d sd) :
    (runCalls ext calls s none d).1 = (runCallsS acc ext calls s sch sd).1 := by
  rcases run_sim ha ext sch calls s d sd hv with ⟨h, _⟩ | h | ⟨h, _⟩
  · exact h
  · exact refusedAt_outs calls s d sd h
  · exact h

end GW
end ZipVerif.Model
