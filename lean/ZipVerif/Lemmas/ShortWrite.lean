import ZipVerif.Model.ShortWrite
import ZipVerif.Lemmas.ShortRead
import ZipVerif.Props.C12
/-
C09: the writer STATE MACHINE over a short-writing sink.
-/

namespace ZipVerif.Model
open ZipVerif ZipVerif.Model.Layers

/-! ### The generic writer instantiated at `M` IS the model's writer -/

namespace GW

theorem streamPosition_M : (streamPosition : M Nat) = M.streamPosition := rfl

theorem writeChunks_M (cs : List Bytes) : (writeChunks cs : M Unit) = M.writeChunks cs := by
  induction cs with
  | nil => rfl
  | cons c cs ih =>
    unfold writeChunks M.writeChunks
    rw [ih]
    rfl

theorem io_M {α β} (s : WState) (x : M α) (k : α → M (Except ZErr β × WState)) :
    GW.io s x k = Model.io s x k := rfl

theorem emitFinish_M {β} (s : WState) (mm : Method) (enc : Option EncState) (bs : Bytes)
    (k : Option EncState → M (Except ZErr β × WState)) :
    GW.emitFinish s mm enc bs k = Model.emitFinish s mm enc bs k := rfl

theorem switchTo_M (ext : WExt) (c : Method) (l : Option Int) (s : WState) :
    (GW.switchTo ext c l s : M _) = Model.switchTo ext c l s := rfl

theorem endExtraData_M (ext : WExt) (s : WState) :
    (GW.endExtraData ext s : M _) = Model.endExtraData ext s := rfl

theorem updateLocalHeader_M {β} (s : WState) (f : FileData) (k : Unit → M (Except ZErr β × WState)) :
    GW.updateLocalHeader s f k = Model.updateLocalHeader s f k := rfl

theorem finishFile_M (ext : WExt) (s : WState) :
    (GW.finishFile ext s : M _) = Model.finishFile ext s := rfl

theorem startEntry_M (ext : WExt) (name : Bytes) (o : FileOptions) (raw) (s : WState) :
    (GW.startEntry ext name o raw s : M _) = Model.startEntry ext name o raw s := by
  unfold GW.startEntry Model.startEntry
  simp only [writeChunks_M] <;> rfl

theorem startFile_M (ext : WExt) (name : Bytes) (o : FileOptions) (s : WState) :
    (GW.startFile ext name o s : M _) = Model.startFile ext name o s := by
  unfold GW.startFile Model.startFile
  simp only [startEntry_M] <;> rfl

theorem startFileWithExtraData_M (ext : WExt) (name : Bytes) (o : FileOptions) (s : WState) :
    (GW.startFileWithExtraData ext name o s : M _) = Model.startFileWithExtraData ext name o s := by
  unfold GW.startFileWithExtraData Model.startFileWithExtraData
  simp only [startEntry_M] <;> rfl

theorem endLocalStartCentral_M (ext : WExt) (s : WState) :
    (GW.endLocalStartCentral ext s : M _) = Model.endLocalStartCentral ext s := rfl

theorem addDirectory_M (ext : WExt) (name : Bytes) (o : FileOptions) (s : WState) :
    (GW.addDirectory ext name o s : M _) = Model.addDirectory ext name o s := by
  unfold GW.addDirectory Model.addDirectory
  simp only [startEntry_M] <;> rfl

theorem writeAllCentral_M (s : WState) (fs : List FileData) :
    (GW.writeAllCentral s fs : M _) = Model.finalize.writeAllCentral s fs := by
  induction fs with
  | nil => rfl
  | cons f rest ih =>
    unfold GW.writeAllCentral Model.finalize.writeAllCentral
    simp only [writeChunks_M, ih]
    rfl

theorem finalize_M (ext : WExt) (s : WState) :
    (GW.finalize ext s : M _) = Model.finalize ext s := by
  unfold GW.finalize Model.finalize
  simp only [writeChunks_M, writeAllCentral_M] <;> rfl

theorem finish_M (ext : WExt) (s : WState) :
    (GW.finish ext s : M _) = Model.finish ext s := by
  unfold GW.finish Model.finish
  simp only [finalize_M] <;> rfl

theorem dropInner_M (ext : WExt) (s : WState) :
    (GW.dropInner ext s : M _) = Model.dropInner ext s := rfl

theorem dropWriter_M (ext : WExt) (s : WState) :
    (GW.dropWriter ext s : M _) = Model.dropWriter ext s := by
  unfold GW.dropWriter Model.dropWriter
  simp only [finalize_M, dropInner_M] <;> rfl

theorem writeAllLoop_nil_M (acc fuel) (s : WState) :
    (GW.writeAllLoop acc (fuel + 1) [] s : M _) = pure (.ok (), s) := rfl

theorem account_tail_M (b : UInt8) (bs : Bytes) (s : WState) (fa : Option Nat) (d : Dev) :
  ((do
      let __x ← (GW.account (b :: bs) s : M _)
      match __x.fst with
        | Except.error e => pure (Except.error e, __x.snd)
        | Except.ok n =>
          if n = 0 then pure (Except.error (ZErr.io IoKind.writeZero), __x.snd)
          else writeAllLoop (fun x => List.length x) (b :: bs).length (List.drop n (b :: bs)) __x.snd) : M _) fa d =
    (let s := { s with statsHasher := Spec.Crc32.updateBytes s.statsHasher (b :: bs),
                          statsBytes := s.statsBytes + (b :: bs).length }
        match s.files.getLast? with
        | none => M.panic "write.rs:244 files.last_mut().unwrap()"
        | some f =>
          if s.statsBytes > 0xFFFFFFFF && !f.largeFile then
            pure (.error (.io .other), { s with inner := .closed })
          else pure (.ok (), s) : M (Except ZErr Unit × WState)) fa d := by
  simp only [GW.account]
  cases s.files.getLast? with
  | none => rfl
  | some f =>
    simp only []
    split
    · rfl
    · simp only [M.bind_apply, M.pure_apply, List.length_cons, Nat.add_one_ne_zero, ↓reduceIte, List.drop_succ_cons,
        List.drop_length, writeAllLoop_nil_M]

theorem writeData_M (buf : Bytes) (s : WState) :
    (GW.writeData (fun x => x.length) buf s : M _) = Model.writeData buf s := by
  cases buf with
  | nil => rfl
  | cons b bs =>
  funext fa d
  unfold GW.writeData GW.writeAllLoop GW.write Model.writeData
  rcases s with ⟨inner, files, ss, sb, sh, wf, wx, co, wr, cm⟩
  cases wf <;> simp only [List.isEmpty_cons, Bool.false_eq_true, ↓reduceIte, Bool.not_false, Bool.not_true]
  · rfl
  · cases inner with
    | closed => rfl
    | storer enc =>
      cases wx <;> simp only [Bool.false_eq_true, ↓reduceIte]
      · cases enc with
        | none =>
          simp only [Model.io, M.bind_apply, WriterIO.wAttempt, WriterIO.wWrite, M.attempt, M.write, M.writeAll,
            M.prim, M.pure_apply, List.isEmpty_cons, Bool.false_eq_true, ↓reduceIte]
          by_cases hf : fa = some d.calls
          · simp only [hf, ↓reduceIte]
            rfl
          · simp only [hf, ↓reduceIte, List.take_length]
            exact account_tail_M b bs _ fa _
        | some e =>
          exact account_tail_M b bs _ fa d
      · cases files.getLast? with
        | none => rfl
        | some f =>
          simp only [M.bind_apply, M.pure_apply, List.length_cons, Nat.add_one_ne_zero, ↓reduceIte, List.drop_succ_cons,
            List.drop_length, writeAllLoop_nil_M]
    | compressor mm l enc p =>
      cases wx <;> simp only [Bool.false_eq_true, ↓reduceIte]
      · simp only [List.take_length]
        exact account_tail_M b bs _ fa d
      · cases files.getLast? with
        | none => rfl
        | some f =>
          simp only [M.bind_apply, M.pure_apply, List.length_cons, Nat.add_one_ne_zero, ↓reduceIte, List.drop_succ_cons,
            List.drop_length, writeAllLoop_nil_M]

theorem startFileAligned_M (ext : WExt) (name : Bytes) (o : FileOptions) (a : UInt16) (s : WState) :
    (GW.startFileAligned (fun x => x.length) ext name o a s : M _) = Model.startFileAligned ext name o a s := by
  unfold GW.startFileAligned Model.startFileAligned
  simp only [startFileWithExtraData_M, writeData_M] <;> rfl

theorem addSymlink_M (ext : WExt) (name target : Bytes) (o : FileOptions) (s : WState) :
    (GW.addSymlink (fun x => x.length) ext name target o s : M _) = Model.addSymlink ext name target o s := by
  unfold GW.addSymlink Model.addSymlink
  simp only [startEntry_M, writeData_M] <;> rfl

theorem rawCopy_M (ext : WExt) (src : FileData) (raw name : Bytes) (s : WState) :
    (GW.rawCopy (fun x => x.length) ext src raw name s : M _) = Model.rawCopy ext src raw name s := by
  unfold GW.rawCopy Model.rawCopy
  simp only [startEntry_M, writeData_M] <;> rfl

end GW
/-! ### Simulation: the writer over the `Cursor` vs over a sink with ANY short-write schedule

`Sim` (Lemmas/ShortRead): same outcome, same bytes, same position - for every schedule. -/

namespace Sim
variable {α β : Type}

theorem wpanic (s : String) : Sim (WriterIO.wPanic s : M α) (WriterIO.wPanic s : MS α) := Sim.panic s

theorem wattempt {x : M α} {y : MS α} (h : Sim x y) :
    Sim (WriterIO.wAttempt x : M (Except ZErr α)) (WriterIO.wAttempt y : MS (Except ZErr α)) := Sim.attempt h

theorem wseek (s : SeekFrom) : Sim (WriterIO.wSeek s : M Nat) (WriterIO.wSeek s : MS Nat) := Sim.seek s

theorem wflush : Sim (WriterIO.wFlush : M Unit) (WriterIO.wFlush : MS Unit) := by
  unfold Sim
  intro sch d sd hv
  exact ⟨.ok (), { d with calls := d.calls + 1 }, { sd with calls := sd.calls + 1 }, rfl, rfl, hv⟩

theorem wwriteAll (bs : Bytes) : Sim (WriterIO.wWriteAll bs : M Unit) (WriterIO.wWriteAll bs : MS Unit) := by
  unfold Sim
  intro sch d sd hv
  obtain ⟨d', sd', e1, e2, hv'⟩ := short_writeAll_sim sch bs d sd hv
  exact ⟨.ok (), d', sd', e1, e2, hv'⟩

end Sim

syntax "wsim_step" : tactic
macro_rules
  | `(tactic| wsim_step) => `(tactic| first
    | exact Sim.pure _ | exact Sim.wpanic _ | exact Sim.wseek _ | exact Sim.wflush
    | exact Sim.wwriteAll _ | assumption
    | refine Sim.bind ?_ ?_
    | refine Sim.wattempt ?_
    | refine Sim.ite ?_ ?_
    | intro _
    | dsimp only
    | split)

namespace GW

theorem sim_streamPosition : Sim (streamPosition : M Nat) (streamPosition : MS Nat) := Sim.wseek _

theorem sim_writeChunks : ∀ cs : List Bytes, Sim (writeChunks cs : M Unit) (writeChunks cs : MS Unit)
  | [] => by unfold writeChunks; exact Sim.pure _
  | c :: cs => by
    have ih := sim_writeChunks cs
    unfold writeChunks
    repeat' wsim_step

theorem sim_io {α β} (s : WState) {x : M α} {y : MS α} {k : α → M (Except ZErr β × WState)}
    {k' : α → MS (Except ZErr β × WState)} (h : Sim x y) (hk : ∀ a, Sim (k a) (k' a)) :
    Sim (GW.io s x k) (GW.io s y k') := by
  unfold GW.io
  repeat' (first | exact hk _ | wsim_step)

theorem sim_switchTo (ext : WExt) (c : Method) (l : Option Int) (s : WState) :
    Sim (GW.switchTo ext c l s : M _) (GW.switchTo ext c l s : MS _) := by
  unfold GW.switchTo GW.emitFinish
  repeat' wsim_step


theorem sim_endExtraData (ext : WExt) (s : WState) :
    Sim (GW.endExtraData ext s : M _) (GW.endExtraData ext s : MS _) := by
  unfold GW.endExtraData GW.io
  repeat' (first | exact sim_switchTo _ _ _ _ | wsim_step)

theorem sim_updateLocalHeader {β} (s : WState) (f : FileData) {k : Unit → M (Except ZErr β × WState)}
    {k' : Unit → MS (Except ZErr β × WState)} (hk : ∀ a, Sim (k a) (k' a)) :
    Sim (GW.updateLocalHeader s f k) (GW.updateLocalHeader s f k') := by
  unfold GW.updateLocalHeader GW.io
  repeat' (first | exact hk _ | wsim_step)

theorem sim_afterEnc (s : WState) : Sim (GW.afterEnc s : M _) (GW.afterEnc s : MS _) := by
  unfold GW.afterEnc
  repeat' (first | exact sim_streamPosition | refine sim_updateLocalHeader _ _ ?_ | refine sim_io _ ?_ ?_ | wsim_step)

theorem sim_finishFile (ext : WExt) (s : WState) :
    Sim (GW.finishFile ext s : M _) (GW.finishFile ext s : MS _) := by
  unfold GW.finishFile
  repeat' (first | exact sim_switchTo _ _ _ _ | exact sim_endExtraData _ _ | exact sim_afterEnc _ | refine sim_io _ ?_ ?_ | wsim_step)

theorem sim_startEntry (ext : WExt) (name : Bytes) (o : FileOptions) (raw) (s : WState) :
    Sim (GW.startEntry ext name o raw s : M _) (GW.startEntry ext name o raw s : MS _) := by
  unfold GW.startEntry
  repeat' (first | exact sim_finishFile _ _ | exact sim_streamPosition | exact sim_writeChunks _ | refine sim_io _ ?_ ?_ | wsim_step)

theorem sim_startFile (ext : WExt) (name : Bytes) (o : FileOptions) (s : WState) :
    Sim (GW.startFile ext name o s : M _) (GW.startFile ext name o s : MS _) := by
  unfold GW.startFile
  repeat' (first | exact sim_startEntry _ _ _ _ _ | exact sim_switchTo _ _ _ _ | wsim_step)

theorem sim_startFileWithExtraData (ext : WExt) (name : Bytes) (o : FileOptions) (s : WState) :
    Sim (GW.startFileWithExtraData ext name o s : M _) (GW.startFileWithExtraData ext name o s : MS _) := by
  unfold GW.startFileWithExtraData
  repeat' (first | exact sim_startEntry _ _ _ _ _ | wsim_step)

theorem sim_endLocalStartCentral (ext : WExt) (s : WState) :
    Sim (GW.endLocalStartCentral ext s : M _) (GW.endLocalStartCentral ext s : MS _) := by
  unfold GW.endLocalStartCentral
  repeat' (first | exact sim_endExtraData _ _ | wsim_step)

theorem sim_addDirectory (ext : WExt) (name : Bytes) (o : FileOptions) (s : WState) :
    Sim (GW.addDirectory ext name o s : M _) (GW.addDirectory ext name o s : MS _) := by
  unfold GW.addDirectory
  repeat' (first | exact sim_startEntry _ _ _ _ _ | wsim_step)

theorem sim_writeAllCentral (s : WState) : ∀ fs : List FileData,
    Sim (GW.writeAllCentral s fs : M _) (GW.writeAllCentral s fs : MS _)
  | [] => by unfold GW.writeAllCentral; exact Sim.pure _
  | f :: rest => by
    have ih := sim_writeAllCentral s rest
    unfold GW.writeAllCentral
    repeat' (first | exact ih | exact sim_writeChunks _ | refine sim_io _ ?_ ?_ | wsim_step)

theorem sim_finalize (ext : WExt) (s : WState) :
    Sim (GW.finalize ext s : M _) (GW.finalize ext s : MS _) := by
  unfold GW.finalize
  repeat' (first | exact sim_finishFile _ _ | exact sim_streamPosition | exact sim_writeChunks _ | exact sim_writeAllCentral _ _ | refine sim_io _ ?_ ?_ | wsim_step)

theorem sim_finish (ext : WExt) (s : WState) :
    Sim (GW.finish ext s : M _) (GW.finish ext s : MS _) := by
  unfold GW.finish
  repeat' (first | exact sim_finalize _ _ | wsim_step)

theorem sim_dropInner (ext : WExt) (s : WState) :
    Sim (GW.dropInner ext s : M _) (GW.dropInner ext s : MS _) := by
  unfold GW.dropInner
  repeat' wsim_step

theorem sim_dropWriter (ext : WExt) (s : WState) :
    Sim (GW.dropWriter ext s : M _) (GW.dropWriter ext s : MS _) := by
  unfold GW.dropWriter
  repeat' (first | exact sim_finalize _ _ | exact sim_dropInner _ _ | wsim_step)

end GW
end ZipVerif.Model
