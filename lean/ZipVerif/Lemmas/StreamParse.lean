import ZipVerif.Lemmas.CentralParse
import ZipVerif.Lemmas.ZipLayout
/-
The model's streaming header parser (`streamHeader` = `read_zipfile_from_stream` up to the entry)
applied to the SPEC's serialisation of the LOCAL record of an arbitrary entry.

* `streamDecision e` — what the parser answers for the local record of `e`, as a pure function of the
  layout (any flags, any local extra bytes, descriptor or not);
* `parsesO_streamHeader` — `streamHeader` on `localRecord e ++ rest` consumes exactly the record and
  answers `streamDecision e`;
* `parses_streamHeader` — for `LocalSizesOk e` the answer is `some (streamViewEntry e)`;
* `streamDecision_refuses` — descriptor bit / encryption bit / no decoder ⇒ `UnsupportedArchive`;
* `streamHeader_some_sound` — on ANY device, under ANY injected fault: an entry that is handed out has
  the encryption and descriptor flags clear and a method with a decoder.
-/

namespace ZipVerif.Spec.Zip
open ZipVerif ZipVerif.Model

/-! ### The fixed fields of the LOCAL header, named -/

def Entry.localVer (e : Entry) : UInt16 := e.localVersion.getD e.versionNeeded
def Entry.localCrc (e : Entry) : UInt32 := if e.hasDesc then 0 else e.crc
def Entry.localCs32 (e : Entry) : UInt32 :=
  if e.localZip64 then 0xFFFFFFFF else if e.hasDesc then 0 else lo32 e.csize
def Entry.localUs32 (e : Entry) : UInt32 :=
  if e.localZip64 then 0xFFFFFFFF else if e.hasDesc then 0 else lo32 e.usize

theorem localRecord_fields (e : Entry) :
    localRecord e =
      le32 sigLocal ++ (le16 e.localVer ++ (le16 e.flagsOut ++ (le16 e.method ++ (le16 e.time ++
      (le16 e.date ++ (le32 e.localCrc ++ (le32 e.localCs32 ++ (le32 e.localUs32 ++
      (le16 (UInt16.ofNat e.name.length) ++ (le16 (UInt16.ofNat e.localExtraAll.length) ++
      (e.name ++ e.localExtraAll))))))))))) := by
  unfold localRecord Entry.localExtraAll Entry.localVer Entry.localCrc Entry.localCs32 Entry.localUs32
  cases e.localZip64 <;> simp only [List.append_assoc, if_true, if_false, Bool.false_eq_true]

/-- **The entries a non-seekable reader can serve**: the sizes are in the local header (no data
descriptor: neither the layout's descriptor nor general-purpose bit 3), the entry is not encrypted
(bit 0 clear), the foreign local extra data are well-formed records without the identifiers the reader
interprets (0x0001 — the local ZIP64 record is laid out by `localRecord` itself — and 0x9901), the
method has a decoder, and without a local ZIP64 record both sizes fit the 32-bit fields. -/
def LocalSizesOk (e : Entry) : Prop :=
  e.hasDesc = false ∧ (e.flags &&& 1 == 1) = false ∧ (e.flags &&& 0x0008 != 0) = false ∧
  ExtraOk e.localExtra ∧ (Method.fromU16 e.method).decodable = true ∧
  (e.localZip64 = false → e.csize.toNat < 4294967296 ∧ e.usize.toNat < 4294967296)

instance (e : Entry) : Decidable (LocalSizesOk e) := by unfold LocalSizesOk; infer_instance

/-- **What the streaming reader must report for an entry**, written from the LOCAL record alone:
sizes and CRC as recorded there (through the local ZIP64 record when present), the name decoded by the
flag, the local extra field verbatim.  NOT available from a stream (documented by the crate): the entry
comment (`[]`), the external attributes (`0`, hence `unix_mode() = None`), header / data / central-header
offsets (`0`).  `system` / `version_made_by` are derived from the local header's only version field
("version needed to extract"): the local header has no "version made by". -/
def streamViewEntry (e : Entry) : FileData :=
  let utf8 : Bool := e.flagsOut &&& 0x0800 != 0
  { system := System.fromU8 (e.localVer >>> 8).toUInt8
    versionMadeBy := e.localVer.toUInt8
    encrypted := e.flagsOut &&& 1 == 1
    usingDataDescriptor := e.flagsOut &&& 0x0008 != 0
    method := Method.fromU16 e.method
    level := none
    time := DateTime.fromMsdos e.date e.time
    crc32 := e.crc
    compressedSize := e.csize
    uncompressedSize := e.usize
    fileName := Text.decodeToUtf8 utf8 e.name
    fileNameRaw := e.name
    extraField := e.localExtraAll
    fileComment := []
    headerStart := 0
    centralHeaderStart := 0
    dataStart := 0
    externalAttributes := 0
    largeFile := e.localZip64
    aesMode := none }

end ZipVerif.Spec.Zip

namespace ZipVerif.Model
open ZipVerif ZipVerif.Spec.Zip

/-! ### `ParsesO`: seek-free parsers consuming a known prefix, with an arbitrary outcome -/

def ParsesO {α} (m : M α) (p : Nat) (x : Bytes) (o : Out α) : Prop :=
  ∀ B rest, B.drop p = x ++ rest → Runs m B p o (p + x.length)

namespace ParsesO
variable {α β : Type} {p : Nat}

theorem ofParses {m : M α} {x : Bytes} {a : α} (h : Parses m p x a) : ParsesO m p x (.ok a) := h
theorem toParses {m : M α} {x : Bytes} {a : α} (h : ParsesO m p x (.ok a)) : Parses m p x a := h

theorem pure (a : α) : ParsesO (Pure.pure a : M α) p [] (.ok a) := fun _ _ _ => Runs.pure a
theorem throw (e : ZErr) : ParsesO (M.throw e : M α) p [] (.err e) := fun _ _ _ => Runs.throw e

theorem bind {m : M α} {f : α → M β} {x y : Bytes} {a : α} {o : Out β}
    (h1 : Parses m p x a) (h2 : ParsesO (f a) (p + x.length) y o) : ParsesO (m >>= f) p (x ++ y) o := by
  intro B rest hb
  rw [List.append_assoc] at hb
  have h3 := h2 B rest (drop_past hb)
  exact (Runs.bind (h1 B _ hb) h3).cast rfl (by simp [Nat.add_assoc])

theorem bind_last {m : M α} {f : α → M β} {x : Bytes} {a : α} {o : Out β}
    (h1 : Parses m p x a) (h2 : ParsesO (f a) (p + x.length) [] o) : ParsesO (m >>= f) p x o := by
  have := bind h1 h2
  simpa using this

theorem toRuns {m : M α} {x rest B : Bytes} {o : Out α} (h : ParsesO m p x o) (hb : B.drop p = x ++ rest) :
    Runs m B p o (p + x.length) := h B rest hb

end ParsesO

/-! ### The record the parser has built when it turns to the extra field -/

def rawLocal (e : Entry) : FileData :=
  let utf8 : Bool := e.flagsOut &&& 0x0800 != 0
  { system := System.fromU8 (e.localVer >>> 8).toUInt8
    versionMadeBy := e.localVer.toUInt8
    encrypted := e.flagsOut &&& 1 == 1
    usingDataDescriptor := e.flagsOut &&& 0x0008 != 0
    method := Method.fromU16 e.method
    level := none
    time := DateTime.fromMsdos e.date e.time
    crc32 := e.localCrc
    compressedSize := e.localCs32.toUInt64
    uncompressedSize := e.localUs32.toUInt64
    fileName := Text.decodeToUtf8 utf8 e.name
    fileNameRaw := e.name
    extraField := e.localExtraAll
    fileComment := []
    headerStart := 0
    centralHeaderStart := 0
    dataStart := 0
    externalAttributes := 0
    largeFile := false
    aesMode := none }

/-- The decisions `read_zipfile_from_stream` takes after the header has been read, as a function of
the layout's entry (any flags, any extra bytes). -/
def streamDecision (e : Entry) : Out (Option FileData) :=
  match parseExtraField (e.localExtraAll.length + 1) (rawLocal e) e.localExtraAll with
  | (result, perr) =>
    match perr with
    | some (.io _) | none =>
      if (e.flagsOut &&& 1 == 1) = true then .err .unsupportedArchive
      else if (e.flagsOut &&& 0x0008 != 0) = true then .err .unsupportedArchive
      else match result.method with
        | .unsupported _ => .err .unsupportedArchive
        | .aes => .err .unsupportedArchive
        | _ => .ok (some result)
    | some err => .err err

theorem localExtraAll_le (e : Entry) (hf : e.Fits) : e.localExtraAll.length ≤ 65535 := by
  obtain ⟨_, _, hxl, _, _, _⟩ := hf
  unfold Entry.localExtraAll
  revert hxl; cases e.localZip64 <;> simp <;> omega

/-- **`read_zipfile_from_stream` on the spec's serialisation of the local record of ANY entry**
consumes exactly the record and decides as `streamDecision` says. -/
theorem parsesO_streamHeader (e : Entry) (p : Nat) (hf : e.Fits) :
    ParsesO streamHeader p (localRecord e) (streamDecision e) := by
  have hxl := localExtraAll_le e hf
  obtain ⟨hn, _, _, _, _, _⟩ := hf
  rw [localRecord_fields]
  unfold streamHeader
  refine ParsesO.bind (Parses.readU32 _) ?_
  rw [if_neg (by decide), if_neg (by decide)]
  refine ParsesO.bind (Parses.readU16 _) ?_
  refine ParsesO.bind (Parses.readU16 _) ?_
  refine ParsesO.bind (Parses.readU16 _) ?_
  refine ParsesO.bind (Parses.readU16 _) ?_
  refine ParsesO.bind (Parses.readU16 _) ?_
  refine ParsesO.bind (Parses.readU32 _) ?_
  refine ParsesO.bind (Parses.readU32 _) ?_
  refine ParsesO.bind (Parses.readU32 _) ?_
  refine ParsesO.bind (Parses.readU16 _) ?_
  refine ParsesO.bind (Parses.readU16 _) ?_
  refine ParsesO.bind (Parses.readExact (ofNat_toNat_of_le hn).symm) ?_
  refine ParsesO.bind_last (Parses.readExact (ofNat_toNat_of_le hxl).symm) ?_
  unfold streamDecision rawLocal
  dsimp only
  generalize parseExtraField _ _ _ = r
  obtain ⟨result, perr⟩ := r
  dsimp only
  cases perr with
  | none =>
    dsimp only
    split
    · exact ParsesO.throw _
    · split
      · exact ParsesO.throw _
      · cases result.method <;> first | exact ParsesO.throw _ | exact ParsesO.pure _
  | some err =>
    cases err with
    | io k =>
      dsimp only
      split
      · exact ParsesO.throw _
      · split
        · exact ParsesO.throw _
        · cases result.method <;> first | exact ParsesO.throw _ | exact ParsesO.pure _
    | invalidArchive => exact ParsesO.throw _
    | unsupportedArchive => exact ParsesO.throw _
    | passwordRequired => exact ParsesO.throw _
    | fileNotFound => exact ParsesO.throw _


/-! ### The local extra field: the local ZIP64 record + foreign records -/

theorem lo32_toUInt64 {v : UInt64} (h : v.toNat < 4294967296) : (lo32 v).toUInt64 = v := by
  apply UInt64.toNat_inj.mp
  rw [lo32, UInt32.toNat_toUInt64, UInt64.toNat_toUInt32]
  omega

/-- `parse_extra_field` on the LOCAL ZIP64 record (both sizes, 16 bytes) when both 32-bit slots hold the
marker and the (dummy) header offset does not. -/
theorem parseExtra_z64_local (f : FileData) (u c : UInt64) (cx : Bytes) (k : Nat)
    (hu : (f.uncompressedSize == ZIP64_BYTES_THR) = true) (hc : (f.compressedSize == ZIP64_BYTES_THR) = true)
    (ho : (f.headerStart == ZIP64_BYTES_THR) = false) :
    parseExtraField (k + 1) f (le16 1 ++ (le16 16 ++ (le64 u ++ (le64 c ++ cx)))) =
      parseExtraField k { f with largeFile := true, uncompressedSize := u, compressedSize := c } cx := by
  have h := parseExtra_z64 f u c 0 cx k true true false hu hc ho rfl
  simp only [if_true, Bool.false_eq_true, if_false, List.nil_append, Bool.or_true] at h
  exact h

/-- the record after `parse_extra_field` has run over a well-formed local extra field -/
def localParsed (e : Entry) : FileData :=
  if e.localZip64 then
    { rawLocal e with
        largeFile := true
        uncompressedSize := if e.hasDesc then 0 else e.usize
        compressedSize := if e.hasDesc then 0 else e.csize }
  else rawLocal e

theorem extra_on_local (e : Entry) (hx : ExtraOk e.localExtra) (k : Nat) :
    parseExtraField (k + 1) (rawLocal e) e.localExtraAll = (localParsed e, none) := by
  cases hz : e.localZip64 with
  | false =>
    have h1 : e.localExtraAll = e.localExtra := by simp [Entry.localExtraAll, hz]
    rw [h1, parseExtra_ok hx]
    simp [localParsed, hz]
  | true =>
    have h1 : e.localExtraAll = le16 1 ++ (le16 16 ++ (le64 (if e.hasDesc then 0 else e.usize) ++
        (le64 (if e.hasDesc then 0 else e.csize) ++ e.localExtra))) := by
      simp [Entry.localExtraAll, hz]
    have hu : ((rawLocal e).uncompressedSize == ZIP64_BYTES_THR) = true := by
      show (e.localUs32.toUInt64 == ZIP64_BYTES_THR) = true
      rw [Entry.localUs32, hz, if_pos rfl]; decide
    have hc : ((rawLocal e).compressedSize == ZIP64_BYTES_THR) = true := by
      show (e.localCs32.toUInt64 == ZIP64_BYTES_THR) = true
      rw [Entry.localCs32, hz, if_pos rfl]; decide
    have ho : ((rawLocal e).headerStart == ZIP64_BYTES_THR) = false := by
      show ((0 : UInt64) == ZIP64_BYTES_THR) = false
      decide
    rw [h1, parseExtra_z64_local _ _ _ _ _ hu hc ho, parseExtra_ok hx]
    simp [localParsed, hz]

/-- the decision for an entry whose foreign local extra data are plain records -/
theorem streamDecision_of_extraOk (e : Entry) (hx : ExtraOk e.localExtra) :
    streamDecision e =
      if (e.flagsOut &&& 1 == 1) = true then .err .unsupportedArchive
      else if (e.flagsOut &&& 0x0008 != 0) = true then .err .unsupportedArchive
      else match Method.fromU16 e.method with
        | .unsupported _ => .err .unsupportedArchive
        | .aes => .err .unsupportedArchive
        | _ => .ok (some (localParsed e)) := by
  unfold streamDecision
  rw [extra_on_local e hx]
  have hm : (localParsed e).method = Method.fromU16 e.method := by
    unfold localParsed; split <;> rfl
  dsimp only
  rw [hm]

theorem localParsed_eq_streamView (e : Entry) (h : LocalSizesOk e) : localParsed e = streamViewEntry e := by
  obtain ⟨hd, _, _, _, _, hsz⟩ := h
  unfold localParsed
  cases hz : e.localZip64 with
  | true =>
    simp [rawLocal, streamViewEntry, hd, hz, Entry.localCrc]
  | false =>
    obtain ⟨h1, h2⟩ := hsz hz
    simp [rawLocal, streamViewEntry, hd, hz, Entry.localCrc, Entry.localCs32, Entry.localUs32,
      lo32_toUInt64 h1, lo32_toUInt64 h2]

theorem flagsOut_of_noDesc {e : Entry} (h : e.hasDesc = false) : e.flagsOut = e.flags := by
  simp [Entry.flagsOut, h]

theorem streamDecision_ok (e : Entry) (h : LocalSizesOk e) :
    streamDecision e = .ok (some (streamViewEntry e)) := by
  have hv := localParsed_eq_streamView e h
  obtain ⟨hd, h0, h3, hx, hm, _⟩ := h
  rw [streamDecision_of_extraOk e hx, flagsOut_of_noDesc hd, h0, h3, hv]
  simp only [Bool.false_eq_true, if_false]
  generalize Method.fromU16 e.method = m at hm
  cases m <;> simp only [Method.decodable] at hm <;> first | contradiction | rfl

/-- **`parses_streamHeader`** — `read_zipfile_from_stream` on the spec's serialisation of the local record
of an entry whose sizes are in the local header returns the stream view of that entry, consuming exactly
the record (the device is left at the first data byte). -/
theorem parses_streamHeader (e : Entry) (p : Nat) (hf : e.Fits) (h : LocalSizesOk e) :
    Parses streamHeader p (localRecord e) (some (streamViewEntry e)) := by
  have := parsesO_streamHeader e p hf
  rw [streamDecision_ok e h] at this
  exact this

/-- An entry the stream cannot serve: data-descriptor bit, encryption bit, or a method without decoder
(method 99 = the AES pseudo method included). -/
def StreamRefused (e : Entry) : Prop :=
  (e.flagsOut &&& 1 == 1) = true ∨ (e.flagsOut &&& 0x0008 != 0) = true ∨
  (Method.fromU16 e.method).decodable = false

instance (e : Entry) : Decidable (StreamRefused e) := by unfold StreamRefused; infer_instance

theorem hasDesc_refused {e : Entry} (h : e.hasDesc = true) : StreamRefused e := by
  refine Or.inr (Or.inl ?_)
  have e1 : e.flagsOut = e.flags ||| 8 := by simp [Entry.flagsOut, h]
  rw [e1]
  have : (e.flags ||| 8) &&& 8 = 8 := by
    apply UInt16.toNat_inj.mp
    apply Nat.eq_of_testBit_eq
    intro i
    simp only [UInt16.toNat_and, UInt16.toNat_or, Nat.testBit_and, Nat.testBit_or]
    cases h8 : (8 : UInt16).toNat.testBit i <;> simp
  rw [this]; decide

theorem streamDecision_refuses (e : Entry) (hx : ExtraOk e.localExtra) (h : StreamRefused e) :
    streamDecision e = .err .unsupportedArchive := by
  rw [streamDecision_of_extraOk e hx]
  rcases h with h | h | h
  · rw [if_pos h]
  · split
    · rfl
    · first | rfl | rw [if_pos h]
  · split
    · rfl
    · split
      · rfl
      · generalize Method.fromU16 e.method = m at h
        cases m <;> simp only [Method.decodable] at h <;> first | contradiction | rfl

/-- **The refusals, on the bytes**: the local record of an entry with the data-descriptor bit, the
encryption bit or an undecodable method (99 included) is answered with `UnsupportedArchive` after the
header has been consumed — no entry, no data. -/
theorem parsesO_streamHeader_refuses (e : Entry) (p : Nat) (hf : e.Fits) (hx : ExtraOk e.localExtra)
    (h : StreamRefused e) : ParsesO streamHeader p (localRecord e) (.err .unsupportedArchive) := by
  have := parsesO_streamHeader e p hf
  rw [streamDecision_refuses e hx h] at this
  exact this


/-! ### Soundness on arbitrary input: whatever the bytes, whatever fault is injected -/

theorem M.bind_ok_elim {α β : Type} {m : M α} {f : α → M β} {fa : Option Nat} {d d' : Dev} {b : β}
    (h : (m >>= f) fa d = (.ok b, d')) : ∃ a d1, m fa d = (.ok a, d1) ∧ f a fa d1 = (.ok b, d') := by
  change (match m fa d with
    | (.ok a, d1) => f a fa d1
    | (.err e, d1) => (.err e, d1)
    | (.panic s, d1) => (.panic s, d1)) = _ at h
  cases hm : m fa d with
  | mk o d1 =>
    rw [hm] at h
    cases o with
    | ok a => exact ⟨a, d1, rfl, h⟩
    | err e => cases h
    | panic s => cases h

/-- `parse_extra_field` never touches the two flags. -/
theorem parseExtraField_flags : ∀ (fuel : Nat) (f : FileData) (bs : Bytes),
    (parseExtraField fuel f bs).1.encrypted = f.encrypted ∧
    (parseExtraField fuel f bs).1.usingDataDescriptor = f.usingDataDescriptor := by
  intro fuel
  induction fuel with
  | zero => intro f bs; exact ⟨rfl, rfl⟩
  | succ n ih =>
    intro f bs
    unfold parseExtraField
    repeat' first | split | dsimp only
    all_goals first | exact ⟨rfl, rfl⟩ | exact ih _ _


theorem parseExtraField_flags' {fuel : Nat} {f : FileData} {bs : Bytes} {r : FileData × Option ZErr}
    (h : parseExtraField fuel f bs = r) :
    r.1.encrypted = f.encrypted ∧ r.1.usingDataDescriptor = f.usingDataDescriptor := by
  subst h; exact parseExtraField_flags _ _ _

theorem M.pure_ok_eq {α : Type} {a b : α} {fa : Option Nat} {d d' : Dev}
    (h : (Pure.pure a : M α) fa d = (.ok b, d')) : a = b := by
  cases h; rfl

/-- **Whatever the bytes and whatever fault is injected**: an entry `read_zipfile_from_stream` hands out
has the encryption flag and the data-descriptor flag clear and a method the crate has a decoder for.
Encrypted and data-descriptor entries therefore never produce an entry (hence never data): the call
ends in an error. -/
theorem streamHeader_some_sound (fa : Option Nat) (d d' : Dev) (f : FileData)
    (h : streamHeader fa d = (.ok (some f), d')) :
    f.encrypted = false ∧ f.usingDataDescriptor = false ∧ f.method.decodable = true := by
  unfold streamHeader at h
  obtain ⟨sig, d1, -, h⟩ := M.bind_ok_elim h
  split at h
  · cases M.pure_ok_eq h
  · split at h
    · cases h
    · obtain ⟨vmb, d2, -, h⟩ := M.bind_ok_elim h
      obtain ⟨flags, d3, -, h⟩ := M.bind_ok_elim h
      obtain ⟨cm, d4, -, h⟩ := M.bind_ok_elim h
      obtain ⟨t, d5, -, h⟩ := M.bind_ok_elim h
      obtain ⟨dt, d6, -, h⟩ := M.bind_ok_elim h
      obtain ⟨crc, d7, -, h⟩ := M.bind_ok_elim h
      obtain ⟨cs, d8, -, h⟩ := M.bind_ok_elim h
      obtain ⟨us, d9, -, h⟩ := M.bind_ok_elim h
      obtain ⟨nl, d10, -, h⟩ := M.bind_ok_elim h
      obtain ⟨xl, d11, -, h⟩ := M.bind_ok_elim h
      obtain ⟨nm, d12, -, h⟩ := M.bind_ok_elim h
      obtain ⟨xf, d13, -, h⟩ := M.bind_ok_elim h
      dsimp only at h
      generalize hr : parseExtraField _ _ _ = r at h
      obtain ⟨result, perr⟩ := r
      have hp := parseExtraField_flags' hr
      dsimp only at hp h
      have key : ∀ (hh : (if (flags &&& 1 == 1) = true then (M.throw .unsupportedArchive : M (Option FileData))
            else if (flags &&& (0x0008 : UInt16) != 0) = true then M.throw .unsupportedArchive
            else match result.method with
              | .unsupported _ => M.throw .unsupportedArchive
              | .aes => M.throw .unsupportedArchive
              | _ => pure (some result)) fa d13 = (.ok (some f), d')),
          f.encrypted = false ∧ f.usingDataDescriptor = false ∧ f.method.decodable = true := by
        intro hh
        split at hh
        · cases hh
        · split at hh
          · cases hh
          · rename_i h0 h3
            have hf : result = f := by
              revert hh
              cases result.method <;> intro hh <;> first | exact Option.some.inj (M.pure_ok_eq hh) | cases hh
            have hm : result.method.decodable = true := by
              revert hh
              cases result.method <;> intro hh <;> first | rfl | cases hh
            subst hf
            refine ⟨?_, ?_, hm⟩
            · rw [hp.1]; simpa using h0
            · rw [hp.2]; simpa using h3
      cases perr with
      | none => exact key h
      | some err =>
        cases err with
        | io k => exact key h
        | invalidArchive => cases h
        | unsupportedArchive => cases h
        | passwordRequired => cases h
        | fileNotFound => cases h

end ZipVerif.Model
