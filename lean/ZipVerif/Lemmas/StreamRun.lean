import ZipVerif.Lemmas.StreamParse
import ZipVerif.Lemmas.ReadEntry
/-
The streaming reader's loops on contiguous runs of local records of `Spec.Zip.build l`:
the entry loop under a consumption pattern (`streamEntriesC`), the read-everything loop
(`streamEntries`), the central-directory loop of the visitor (`streamCentralLoop`), and
`ZipStreamReader::visit` (`streamVisit`).
-/

namespace ZipVerif.Model
open ZipVerif ZipVerif.Spec.Zip

/-! ### small additions to the run calculus -/

def mapOut {α β : Type} (g : α → β) : Out α → Out β
  | .ok a => .ok (g a)
  | .err e => .err e
  | .panic s => .panic s

theorem Runs.bind_map {α β : Type} {B : Bytes} {p q : Nat} {m : M α} {g : α → β} {o : Out α}
    (h : Runs m B p o q) : Runs (m >>= fun r => (Pure.pure (g r) : M β)) B p (mapOut g o) q := by
  intro d hb hp
  obtain ⟨d1, e1, hb1, hp1⟩ := h d hb hp
  refine ⟨d1, ?_, hb1, hp1⟩
  rw [M.runPure_bind, e1]
  cases o <;> rfl

theorem Runs.getDev_bind {β : Type} {B : Bytes} {p q : Nat} {f : Dev → M β} {o : Out β}
    (h : ∀ d : Dev, d.buf = B → Runs (f d) B p o q) : Runs (M.getDev >>= f) B p o q := by
  intro d hb hp
  obtain ⟨d1, e1, hb1, hp1⟩ := h d hb d hb hp
  exact ⟨d1, by rw [M.runPure_bind]; exact e1, hb1, hp1⟩

/-! ### one streamed entry -/

theorem contig_localBytes {e : Entry} (hg : e.gapBefore = []) (hd : e.hasDesc = false) :
    e.localBytes = localRecord e ++ e.data := by
  have h : e.desc = .none := by simpa [Entry.hasDesc] using hd
  simp [Entry.localBytes, hg, descriptor, h]

theorem streamView_csize (e : Entry) (hf : e.Fits) :
    (streamViewEntry e).compressedSize.toNat = e.data.length := u64_ofNat_toNat hf.2.2.2.2.1

/-- header, then the whole `Take` read in one go (the read-everything consumer): the device ends
`compressed size` bytes behind the data start. -/
theorem runs_streamEntryG (G : FileData → Bytes → Out Bytes) (e : Entry) (hf : e.Fits) (hs : LocalSizesOk e)
    {B rest : Bytes} {p : Nat} (hb : B.drop p = localRecord e ++ (e.data ++ rest)) :
    Runs (streamHeader >>= fun h => match h with
        | none => (pure none : M (Option (FileData × Out Bytes)))
        | some f => takeAll f.compressedSize.toNat >>= fun raw => pure (some (f, G f raw))) B p
      (.ok (some (streamViewEntry e, G (streamViewEntry e) e.data)))
      (p + (localRecord e).length + e.data.length) := by
  refine Runs.bind ((parses_streamHeader e p hf hs).toRuns hb) ?_
  dsimp only
  rw [streamView_csize e hf]
  refine Runs.bind (runs_takeAll (drop_past hb)) ?_
  exact Runs.pure _

theorem Runs.getDev_bind_pos {β : Type} {B : Bytes} {p q : Nat} {f : Dev → M β} {o : Out β}
    (h : ∀ d : Dev, d.buf = B → d.pos = p → Runs (f d) B p o q) : Runs (M.getDev >>= f) B p o q := by
  intro d hb hp
  obtain ⟨d1, e1, hb1, hp1⟩ := h d hb hp d hb hp
  exact ⟨d1, by rw [M.runPure_bind]; exact e1, hb1, hp1⟩

/-- **The reads on a `Take`** (`takeLoop`: the consumer's pulls, and the drain of `ZipFile::drop`) on a
device that still holds `want` bytes: no error, `n ≤ want` bytes delivered, the device `n` bytes further;
and ALL `want` bytes when the buffer is not empty and the fuel is the one the model uses. -/
theorem runs_takeLoop {B : Bytes} (chunk : Nat) : ∀ (fuel want p : Nat), want ≤ B.length - p →
    ∃ n, n ≤ want ∧ Runs (takeLoop chunk fuel want) B p (.ok (n, none)) (p + n) ∧
      (0 < chunk → want ≤ fuel → n = want) := by
  intro fuel
  induction fuel with
  | zero =>
    intro want p _
    exact ⟨0, Nat.zero_le _, by unfold takeLoop; exact Runs.pure _, fun _ h => by omega⟩
  | succ f ih =>
    intro want p hw
    unfold takeLoop
    by_cases h0 : want = 0
    · rw [if_pos h0]; exact ⟨0, Nat.zero_le _, Runs.pure _, fun _ _ => h0.symm⟩
    · rw [if_neg h0]
      have hlen : ((B.drop p).take (min want chunk)).length = min want chunk := by
        rw [List.length_take, List.length_drop]; omega
      have hread : Runs (M.attempt (M.read (min want chunk))) B p
          (.ok (.ok ((B.drop p).take (min want chunk)))) (p + min want chunk) :=
        Runs.attempt_ok ((Runs.read _).cast rfl (by rw [hlen]))
      by_cases hc : min want chunk = 0
      · refine ⟨0, Nat.zero_le _, ?_, fun hpos _ => by omega⟩
        refine Runs.bind hread ?_
        dsimp only
        rw [if_pos (by rw [hlen]; exact hc)]
        exact (Runs.pure _).cast rfl (by omega)
      · obtain ⟨n, hn, hr, hfull⟩ := ih (want - min want chunk) (p + min want chunk) (by omega)
        refine ⟨min want chunk + n, by omega, ?_, fun hpos hfu => ?_⟩
        · refine Runs.bind hread ?_
          dsimp only
          rw [if_neg (by rw [hlen]; exact hc), hlen]
          refine Runs.bind hr ?_
          exact (Runs.pure _).cast rfl (by omega)
        · have := hfull hpos (by omega); omega

/-- the drain leaves the device behind everything that was left of the `Take` -/
theorem runs_drain {B : Bytes} (rem p : Nat) (h : rem ≤ B.length - p) :
    Runs (drain rem) B p (.ok ()) (p + rem) := by
  obtain ⟨n, _, hr, hfull⟩ := runs_takeLoop (B := B) 65536 rem rem p h
  have hn : n = rem := hfull (by decide) (Nat.le_refl _)
  subst hn
  unfold drain
  refine Runs.bind hr ?_
  exact Runs.pure _

theorem drop_room {B x rest : Bytes} {p : Nat} (h : B.drop p = x ++ rest) : x.length ≤ B.length - p := by
  have := congrArg List.length h
  rw [List.length_drop, List.length_append] at this
  omega

/-- **One entry under any consumer**: whatever number of compressed bytes the consumer's reads pull through
the `Take` (`c.pulled`, in reads of any size `c.chunk`) — decoder read-ahead, a consumer that stops early, one
that never reads — the drain of `ZipFile::drop` reads what is left, and the device ends `compressed size`
bytes behind the data start. -/
theorem runs_streamEntryC (ext : Ext) (c : Consume) (e : Entry) (hf : e.Fits) (hs : LocalSizesOk e)
    {B rest : Bytes} {p : Nat} (hb : B.drop p = localRecord e ++ (e.data ++ rest)) :
    Runs (streamEntryC ext c) B p
      (.ok (some (streamViewEntry e, ext.consume (streamViewEntry e) e.data c.k)))
      (p + (localRecord e).length + e.data.length) := by
  have hb2 : B.drop (p + (localRecord e).length) = e.data ++ rest := drop_past hb
  have hroom := drop_room hb2
  unfold streamEntryC
  refine Runs.bind ((parses_streamHeader e p hf hs).toRuns hb) ?_
  dsimp only
  rw [streamView_csize e hf]
  refine Runs.getDev_bind_pos (fun d hdb hdp => ?_)
  have hraw : (d.buf.drop d.pos).take e.data.length = e.data := by
    rw [hdb, hdp, hb2]; simp
  rw [hraw]
  obtain ⟨n, hn, hr, _⟩ := runs_takeLoop (B := B) c.chunk (min c.pulled e.data.length)
    (min c.pulled e.data.length) (p + (localRecord e).length) (by omega)
  refine Runs.bind hr ?_
  dsimp only
  refine Runs.bind (runs_drain (B := B) (e.data.length - n) _ (by omega)) ?_
  exact (Runs.pure _).cast rfl (by omega)

theorem runs_streamEntry (ext : Ext) (e : Entry) (hf : e.Fits) (hs : LocalSizesOk e)
    {B rest : Bytes} {p : Nat} (hb : B.drop p = localRecord e ++ (e.data ++ rest)) :
    Runs (streamEntry ext) B p
      (.ok (some (streamViewEntry e,
        ext.decode (Method.fromU16 e.method) e.data >>= fun dec => crcCheck false e.crc dec)))
      (p + (localRecord e).length + e.data.length) :=
  runs_streamEntryG (fun f raw => ext.decode f.method raw >>= fun dec => crcCheck false f.crc32 dec) e hf hs hb

theorem runs_streamHeader_central {B rest : Bytes} {p : Nat} (hb : B.drop p = le32 sigCentral ++ rest) :
    Runs streamHeader B p (.ok none) (p + 4) := by
  unfold streamHeader
  refine Runs.bind (Runs.readU32 hb) ?_
  rw [if_pos (by decide)]
  exact Runs.pure _

theorem runs_streamEntryC_central (ext : Ext) (k : Consume) {B rest : Bytes} {p : Nat}
    (hb : B.drop p = le32 sigCentral ++ rest) : Runs (streamEntryC ext k) B p (.ok none) (p + 4) := by
  unfold streamEntryC
  refine Runs.bind (runs_streamHeader_central hb) ?_
  exact Runs.pure _

theorem runs_streamEntry_central (ext : Ext) {B rest : Bytes} {p : Nat}
    (hb : B.drop p = le32 sigCentral ++ rest) : Runs (streamEntry ext) B p (.ok none) (p + 4) := by
  unfold streamEntry
  refine Runs.bind (runs_streamHeader_central hb) ?_
  exact Runs.pure _

theorem runs_streamEntryC_refuses (ext : Ext) (k : Consume) (e : Entry) (hf : e.Fits) (hx : ExtraOk e.localExtra)
    (hr : StreamRefused e) {B rest : Bytes} {p : Nat} (hb : B.drop p = localRecord e ++ rest) :
    Runs (streamEntryC ext k) B p (.err .unsupportedArchive) (p + (localRecord e).length) := by
  unfold streamEntryC
  exact Runs.bind_err ((parsesO_streamHeader_refuses e p hf hx hr).toRuns hb)

theorem runs_streamEntry_refuses (ext : Ext) (e : Entry) (hf : e.Fits) (hx : ExtraOk e.localExtra)
    (hr : StreamRefused e) {B rest : Bytes} {p : Nat} (hb : B.drop p = localRecord e ++ rest) :
    Runs (streamEntry ext) B p (.err .unsupportedArchive) (p + (localRecord e).length) := by
  unfold streamEntry
  exact Runs.bind_err ((parsesO_streamHeader_refuses e p hf hx hr).toRuns hb)

/-! ### the entry loops -/

/-- the `i`-th element of the cycled consumption pattern (nothing consumed for the empty pattern) -/
abbrev patAt (c : List Consume) (i : Nat) : Consume := Consume.at c i

/-- what the consumer of entry `e` sees when it reads `k` decoded bytes and drops the handle -/
def streamSeen (ext : Ext) (e : Entry) (k : Nat) : Out Bytes :=
  consumeK e.crc (ext.decode (Method.fromU16 e.method) e.data)
    (ext.decodeBefore (Method.fromU16 e.method) e.data k) k

/-- what the consumer sees when it reads the entry to end-of-file -/
def streamSeenAll (ext : Ext) (e : Entry) : Out Bytes :=
  ext.decode (Method.fromU16 e.method) e.data >>= fun dec => crcCheck false e.crc dec

def streamResultsC (ext : Ext) (c : List Consume) : Nat → List Entry → List (FileData × Out Bytes)
  | _, [] => []
  | i, e :: es => (streamViewEntry e, streamSeen ext e (patAt c i).k) :: streamResultsC ext c (i + 1) es

def streamResults (ext : Ext) (es : List Entry) : List (FileData × Out Bytes) :=
  es.map fun e => (streamViewEntry e, streamSeenAll ext e)

theorem mapOut_cons_append {α : Type} (x : α) (xs : List α) (o : Out (List α)) :
    mapOut (fun r => x :: r) (mapOut (fun r => xs ++ r) o) = mapOut (fun r => (x :: xs) ++ r) o := by
  cases o <;> rfl

theorem mapOut_nil_append {α : Type} (o : Out (List α)) : mapOut (fun r => ([] : List α) ++ r) o = o := by
  cases o <;> rfl

/-- The entry loop over a contiguous run `es` of servable entries: their results, in order, followed by
whatever the loop does behind them. -/
theorem runs_streamEntriesC_prefix (ext : Ext) (c : List Consume) {B : Bytes} :
    ∀ (es : List Entry) (p i fuel : Nat) (rest : Bytes) (o : Out (List (FileData × Out Bytes))) (q : Nat),
    (∀ e ∈ es, e.Fits ∧ LocalSizesOk e ∧ e.gapBefore = []) →
    B.drop p = localsBytes es ++ rest →
    Runs (streamEntriesC ext c fuel (i + es.length)) B (p + (localsBytes es).length) o q →
    Runs (streamEntriesC ext c (fuel + es.length) i) B p
      (mapOut (fun r => streamResultsC ext c i es ++ r) o) q := by
  intro es
  induction es with
  | nil =>
    intro p i fuel rest o q _ _ h
    rw [show streamResultsC ext c i [] = [] from rfl, mapOut_nil_append]
    simpa [localsBytes] using h
  | cons e es ih =>
    intro p i fuel rest o q hall hb h
    obtain ⟨hf, hs, hg⟩ := hall e List.mem_cons_self
    have hlb := contig_localBytes hg hs.1
    rw [localsBytes_cons, hlb, List.append_assoc, List.append_assoc] at hb
    have hstep := runs_streamEntryC ext (patAt c i) e hf hs hb
    have hb' : B.drop (p + (localRecord e).length + e.data.length) = localsBytes es ++ rest :=
      drop_past (drop_past hb)
    have e1 : p + (localsBytes (e :: es)).length =
        p + (localRecord e).length + e.data.length + (localsBytes es).length := by
      rw [localsBytes_cons, hlb]; simp only [List.length_append]; omega
    have e2 : i + (e :: es).length = i + 1 + es.length := by simp only [List.length_cons]; omega
    rw [e1, e2] at h
    have hrest := ih _ (i + 1) fuel rest o q (fun x hx => hall x (List.mem_cons_of_mem _ hx)) hb' h
    show Runs (streamEntriesC ext c ((fuel + es.length) + 1) i) B p _ q
    unfold streamEntriesC
    refine Runs.bind hstep ?_
    dsimp only
    refine (Runs.bind_map hrest).cast ?_ rfl
    exact mapOut_cons_append _ _ _

theorem runs_streamEntries_prefix (ext : Ext) {B : Bytes} :
    ∀ (es : List Entry) (p fuel : Nat) (rest : Bytes) (o : Out (List (FileData × Out Bytes))) (q : Nat),
    (∀ e ∈ es, e.Fits ∧ LocalSizesOk e ∧ e.gapBefore = []) →
    B.drop p = localsBytes es ++ rest →
    Runs (streamEntries ext fuel) B (p + (localsBytes es).length) o q →
    Runs (streamEntries ext (fuel + es.length)) B p (mapOut (fun r => streamResults ext es ++ r) o) q := by
  intro es
  induction es with
  | nil =>
    intro p fuel rest o q _ _ h
    rw [show streamResults ext [] = [] from rfl, mapOut_nil_append]
    simpa [localsBytes] using h
  | cons e es ih =>
    intro p fuel rest o q hall hb h
    obtain ⟨hf, hs, hg⟩ := hall e List.mem_cons_self
    have hlb := contig_localBytes hg hs.1
    rw [localsBytes_cons, hlb, List.append_assoc, List.append_assoc] at hb
    have hstep := runs_streamEntry ext e hf hs hb
    have hb' : B.drop (p + (localRecord e).length + e.data.length) = localsBytes es ++ rest :=
      drop_past (drop_past hb)
    have e1 : p + (localsBytes (e :: es)).length =
        p + (localRecord e).length + e.data.length + (localsBytes es).length := by
      rw [localsBytes_cons, hlb]; simp only [List.length_append]; omega
    rw [e1] at h
    have hrest := ih _ fuel rest o q (fun x hx => hall x (List.mem_cons_of_mem _ hx)) hb' h
    show Runs (streamEntries ext ((fuel + es.length) + 1)) B p _ q
    unfold streamEntries
    refine Runs.bind hstep ?_
    dsimp only
    refine (Runs.bind_map hrest).cast ?_ rfl
    exact mapOut_cons_append _ _ _

theorem runs_streamEntriesC_end (ext : Ext) (c : List Consume) {B rest : Bytes} {p : Nat} (fuel i : Nat)
    (hb : B.drop p = le32 sigCentral ++ rest) :
    Runs (streamEntriesC ext c (fuel + 1) i) B p (.ok []) (p + 4) := by
  unfold streamEntriesC
  refine Runs.bind (runs_streamEntryC_central ext _ hb) ?_
  exact Runs.pure _

theorem runs_streamEntries_end (ext : Ext) {B rest : Bytes} {p : Nat} (fuel : Nat)
    (hb : B.drop p = le32 sigCentral ++ rest) :
    Runs (streamEntries ext (fuel + 1)) B p (.ok []) (p + 4) := by
  unfold streamEntries
  refine Runs.bind (runs_streamEntry_central ext hb) ?_
  exact Runs.pure _

theorem runs_streamEntriesC_refuses (ext : Ext) (c : List Consume) (e : Entry) (hf : e.Fits)
    (hx : ExtraOk e.localExtra) (hr : StreamRefused e) {B rest : Bytes} {p : Nat} (fuel i : Nat)
    (hb : B.drop p = localRecord e ++ rest) :
    Runs (streamEntriesC ext c (fuel + 1) i) B p (.err .unsupportedArchive) (p + (localRecord e).length) := by
  unfold streamEntriesC
  exact Runs.bind_err (runs_streamEntryC_refuses ext _ e hf hx hr hb)

theorem runs_streamEntries_refuses (ext : Ext) (e : Entry) (hf : e.Fits)
    (hx : ExtraOk e.localExtra) (hr : StreamRefused e) {B rest : Bytes} {p : Nat} (fuel : Nat)
    (hb : B.drop p = localRecord e ++ rest) :
    Runs (streamEntries ext (fuel + 1)) B p (.err .unsupportedArchive) (p + (localRecord e).length) := by
  unfold streamEntries
  exact Runs.bind_err (runs_streamEntry_refuses ext e hf hx hr hb)

/-! ### sizes: the fuel of the two loops is adequate -/

theorem thirty_le_locals : ∀ es : List Entry, 30 * es.length ≤ (localsBytes es).length := by
  intro es
  induction es with
  | nil => simp
  | cons e es ih =>
    rw [localsBytes_cons, List.length_append]
    have : 30 ≤ e.localBytes.length := by
      simp only [Entry.localBytes, List.length_append, localRecord_length]; omega
    simp only [List.length_cons]; omega

theorem centralRecord_length_ge (e : Entry) (off : UInt64) : 46 ≤ (centralRecord e off).length := by
  rw [centralRecord_eq]; simp only [List.length_append, le16_length, le32_length]; omega

theorem fortysix_le_central : ∀ (es : List Entry) (loc : Nat),
    46 * es.length ≤ (centralBytes es (localOffsets es loc)).length := by
  intro es
  induction es with
  | nil => intro _; simp
  | cons e es ih =>
    intro loc
    show 46 * (es.length + 1) ≤ (centralRecord e (UInt64.ofNat (loc + e.gapBefore.length)) ++
      centralBytes es (localOffsets es (loc + e.localBytes.length))).length
    have h1 := centralRecord_length_ge e (UInt64.ofNat (loc + e.gapBefore.length))
    have h2 := ih (loc + e.localBytes.length)
    rw [List.length_append]; omega

/-! ### the central-directory loop of the visitor -/

/-- the central views the visitor's metadata callbacks receive: `archive_offset = 0` and
`central_header_start = 0` are the dummy values `parse_central_directory` passes -/
def metaList : List Entry → Nat → List FileData
  | [], _ => []
  | e :: es, loc => viewEntry e (loc + e.gapBefore.length) 0 0 :: metaList es (loc + e.localBytes.length)

theorem central_split (e : Entry) (off : Nat) (hf : e.Fits) (hx : ExtraOk e.centralExtra)
    (hm : e.method ≠ 99) (ho : off < 2 ^ 64) :
    ∃ inner, centralRecord e (UInt64.ofNat off) = le32 sigCentral ++ inner ∧
      ∀ p, Parses (centralHeaderInner 0 0) p inner (viewEntry e off 0 0) :=
  ⟨_, centralRecord_eq e _, fun p => parses_centralInner e off 0 0 p hf hx hm (by omega)⟩

theorem runs_streamCentralLoop {B : Bytes} (w : UInt32) (hw : w ≠ sigCentral) (tail : Bytes) :
    ∀ (es : List Entry) (loc p fuel : Nat),
    (∀ e ∈ es, e.Fits ∧ e.Readable) → loc + (localsBytes es).length < 2 ^ 64 →
    B.drop p = centralBytes es (localOffsets es loc) ++ (le32 w ++ tail) → es.length < fuel →
    Runs (streamCentralLoop fuel) B p (.ok (metaList es loc))
      (p + (centralBytes es (localOffsets es loc)).length + 4) := by
  intro es
  induction es with
  | nil =>
    intro loc p fuel _ _ hb hfuel
    obtain ⟨n, rfl⟩ : ∃ n, fuel = n + 1 := ⟨fuel - 1, by simp at hfuel; omega⟩
    have hb' : B.drop p = le32 w ++ tail := by simpa [centralBytes] using hb
    unfold streamCentralLoop
    refine Runs.bind (Runs.readU32 hb') ?_
    have : (w != CENTRAL_SIG) = true := bne_iff_ne.mpr hw
    rw [if_pos this]
    exact (Runs.pure _).cast rfl (by simp [centralBytes])
  | cons e es ih =>
    intro loc p fuel hall hbound hb hfuel
    obtain ⟨n, rfl⟩ : ∃ n, fuel = n + 1 := ⟨fuel - 1, by simp at hfuel; omega⟩
    obtain ⟨hf, hx, hm⟩ := hall e List.mem_cons_self
    rw [localsBytes_cons, List.length_append] at hbound
    have hlb : e.gapBefore.length ≤ e.localBytes.length := by
      simp only [Entry.localBytes, List.length_append]; omega
    obtain ⟨inner, hrec, hin⟩ := central_split e (loc + e.gapBefore.length) hf hx hm (by omega)
    have hcb : centralBytes (e :: es) (localOffsets (e :: es) loc) =
        centralRecord e (UInt64.ofNat (loc + e.gapBefore.length)) ++
          centralBytes es (localOffsets es (loc + e.localBytes.length)) := rfl
    rw [hcb, hrec, List.append_assoc, List.append_assoc] at hb
    have hrest := ih (loc + e.localBytes.length) (p + 4 + inner.length) n
      (fun x hx => hall x (List.mem_cons_of_mem _ hx)) (by omega)
      (by have := drop_past (drop_past hb); simpa using this) (by simp at hfuel; omega)
    unfold streamCentralLoop
    refine Runs.bind (Runs.readU32 hb) ?_
    rw [if_neg (by decide)]
    refine Runs.bind ((hin (p + 4)).toRuns (drop_past hb)) ?_
    refine Runs.bind hrest ?_
    refine (Runs.pure _).cast rfl ?_
    rw [hcb, hrec]; simp only [List.length_append, le32_length]; omega


/-! ### the loops on `build l` for a contiguous layout -/

theorem build_contig (l : Layout) (hp : l.pre = []) (hg : l.gapBeforeCd = []) :
    build l = localsBytes l.entries ++ (l.cdBytes ++ (l.end64 ++ (l.eocd ++ l.trailing))) := by
  simp [build, hp, hg]

theorem cdStart_contig (l : Layout) (hp : l.pre = []) (hg : l.gapBeforeCd = []) :
    l.cdStart = (localsBytes l.entries).length := by
  simp [Layout.cdStart, Layout.cdOffset, hp, hg]

theorem cdBytes_cons (l : Layout) (e : Entry) (es : List Entry) (h : l.entries = e :: es) :
    l.cdBytes = centralRecord e (UInt64.ofNat (0 + e.gapBefore.length)) ++
      centralBytes es (localOffsets es (0 + e.localBytes.length)) := by
  unfold Layout.cdBytes; rw [h]; rfl

theorem cdBytes_head (l : Layout) (hne : l.entries ≠ []) : ∃ r, l.cdBytes = le32 sigCentral ++ r := by
  cases h : l.entries with
  | nil => exact absurd h hne
  | cons e es =>
    rw [cdBytes_cons l e es h, centralRecord_eq, List.append_assoc]
    exact ⟨_, rfl⟩

theorem end_word (l : Layout) :
    ∃ w r, l.end64 ++ (l.eocd ++ l.trailing) = le32 w ++ r ∧ w ≠ sigCentral := by
  cases h : l.needs64 with
  | true =>
    refine ⟨sigEocd64, ?_⟩
    rw [end64_eq l h]; simp only [List.append_assoc]
    exact ⟨_, rfl, by decide⟩
  | false =>
    refine ⟨sigEocd, ?_⟩
    have : l.end64 = [] := by simp [Layout.end64, h]
    rw [this]; simp only [Layout.eocd, List.append_assoc, List.nil_append]
    exact ⟨_, rfl, by decide⟩

theorem fuel_split (l : Layout) :
    ∃ f, (build l).length / 30 + 1 = (f + 1) + l.entries.length := by
  have h30 := thirty_le_locals l.entries
  have hlen : (localsBytes l.entries).length ≤ (build l).length := by
    simp only [build, List.length_append]; omega
  have : l.entries.length ≤ (build l).length / 30 := by
    rw [Nat.le_div_iff_mul_le (by decide)]; omega
  exact ⟨(build l).length / 30 - l.entries.length, by omega⟩

/-- **The entry loop under a consumption pattern on a contiguous layout.** -/
theorem runs_streamEntriesC_build (ext : Ext) (c : List Consume) (l : Layout) (hF : l.Fits)
    (hp : l.pre = []) (hg : l.gapBeforeCd = [])
    (hall : ∀ e ∈ l.entries, LocalSizesOk e ∧ e.gapBefore = []) (hne : l.entries ≠ []) :
    Runs (streamEntriesC ext c ((build l).length / 30 + 1) 0) (build l) 0
      (.ok (streamResultsC ext c 0 l.entries)) (l.cdStart + 4) := by
  obtain ⟨f, hfuel⟩ := fuel_split l
  obtain ⟨r, hr⟩ := cdBytes_head l hne
  have hb := build_contig l hp hg
  rw [hfuel, cdStart_contig l hp hg]
  have hd0 : (build l).drop 0 = localsBytes l.entries ++ (l.cdBytes ++ (l.end64 ++ (l.eocd ++ l.trailing))) := by
    rw [List.drop_zero]; exact hb
  have hd1 : (build l).drop (0 + (localsBytes l.entries).length) =
      le32 sigCentral ++ (r ++ (l.end64 ++ (l.eocd ++ l.trailing))) := by
    rw [drop_past hd0, hr, List.append_assoc]
  have hend := runs_streamEntriesC_end ext c f (0 + l.entries.length) hd1
  have := runs_streamEntriesC_prefix ext c l.entries 0 0 (f + 1) _ _ _
    (fun e he => ⟨hF.1 e he, (hall e he).1, (hall e he).2⟩) hd0 hend
  refine this.cast ?_ (by omega)
  show Out.ok (streamResultsC ext c 0 l.entries ++ []) = _
  rw [List.append_nil]

/-- **The read-everything entry loop on a contiguous layout.** -/
theorem runs_streamEntries_build (ext : Ext) (l : Layout) (hF : l.Fits)
    (hp : l.pre = []) (hg : l.gapBeforeCd = [])
    (hall : ∀ e ∈ l.entries, LocalSizesOk e ∧ e.gapBefore = []) (hne : l.entries ≠ []) :
    Runs (streamEntries ext ((build l).length / 30 + 1)) (build l) 0
      (.ok (streamResults ext l.entries)) (l.cdStart + 4) := by
  obtain ⟨f, hfuel⟩ := fuel_split l
  obtain ⟨r, hr⟩ := cdBytes_head l hne
  have hb := build_contig l hp hg
  rw [hfuel, cdStart_contig l hp hg]
  have hd0 : (build l).drop 0 = localsBytes l.entries ++ (l.cdBytes ++ (l.end64 ++ (l.eocd ++ l.trailing))) := by
    rw [List.drop_zero]; exact hb
  have hd1 : (build l).drop (0 + (localsBytes l.entries).length) =
      le32 sigCentral ++ (r ++ (l.end64 ++ (l.eocd ++ l.trailing))) := by
    rw [drop_past hd0, hr, List.append_assoc]
  have hend := runs_streamEntries_end ext f hd1
  have := runs_streamEntries_prefix ext l.entries 0 (f + 1) _ _ _
    (fun e he => ⟨hF.1 e he, (hall e he).1, (hall e he).2⟩) hd0 hend
  refine this.cast ?_ (by omega)
  show Out.ok (streamResults ext l.entries ++ []) = _
  rw [List.append_nil]

/-- **`ZipStreamReader::visit` on a contiguous layout**: the files in order, then — the entry loop having
consumed the first central signature — the central views of ALL entries in order, once each, stopping at
the first non-central signature (the ZIP64 end record or the end record). -/
theorem runs_streamVisit_build (ext : Ext) (l : Layout) (hF : l.Fits)
    (hp : l.pre = []) (hg : l.gapBeforeCd = [])
    (hall : ∀ e ∈ l.entries, LocalSizesOk e ∧ e.gapBefore = []) (hR : l.Readable) (hne : l.entries ≠ []) :
    Runs (streamVisit ext) (build l) 0
      (.ok (streamResults ext l.entries, metaList l.entries 0)) (l.end64Pos + 4) := by
  obtain ⟨e, es, hes⟩ : ∃ e es, l.entries = e :: es := by
    cases h : l.entries with
    | nil => exact absurd h hne
    | cons e es => exact ⟨e, es, rfl⟩
  have hmem : ∀ x ∈ e :: es, x ∈ l.entries := by intro x hx; rw [hes]; exact hx
  obtain ⟨hf, hx, hm⟩ : e.Fits ∧ e.Readable := ⟨hF.1 e (hmem e List.mem_cons_self), hR e (hmem e List.mem_cons_self)⟩
  have hbounds := fits_bounds l hF
  have hloc : (localsBytes l.entries).length = e.localBytes.length + (localsBytes es).length := by
    rw [hes, localsBytes_cons, List.length_append]
  have hlb : e.gapBefore.length ≤ e.localBytes.length := by
    simp only [Entry.localBytes, List.length_append]; omega
  obtain ⟨inner, hrec, hin⟩ := central_split e (0 + e.gapBefore.length) hf hx hm (by omega)
  obtain ⟨w, tail, hw, hwne⟩ := end_word l
  have hcd := cdBytes_cons l e es hes
  have hcs := cdStart_contig l hp hg
  have hd := drop_cdStart l
  rw [hcd, hrec, hw, List.append_assoc, List.append_assoc] at hd
  have hd4 : (build l).drop (l.cdStart + 4) =
      inner ++ (centralBytes es (localOffsets es (0 + e.localBytes.length)) ++ (le32 w ++ tail)) :=
    drop_past hd
  have hsize : l.cdSize = 4 + inner.length +
      (centralBytes es (localOffsets es (0 + e.localBytes.length))).length := by
    unfold Layout.cdSize; rw [hcd, hrec]; simp only [List.length_append, le32_length]
  have h46 := fortysix_le_central es (0 + e.localBytes.length)
  have hblen : l.cdSize ≤ (build l).length := by
    have := build_length l
    simp only [Layout.eocdPos] at this; omega
  unfold streamVisit
  refine Runs.getDev_bind (fun d hdb => ?_)
  dsimp only
  rw [hdb]
  refine Runs.bind (runs_streamEntries_build ext l hF hp hg hall hne) ?_
  refine Runs.bind ((hin _).toRuns hd4) ?_
  have hloop := runs_streamCentralLoop (B := build l) w hwne tail es (0 + e.localBytes.length)
    (l.cdStart + 4 + inner.length) ((build l).length / 46 + 1)
    (fun x hx => ⟨hF.1 x (hmem x (List.mem_cons_of_mem _ hx)), hR x (hmem x (List.mem_cons_of_mem _ hx))⟩)
    (by omega) (drop_past hd4)
    (by
      have : es.length ≤ (build l).length / 46 := by
        rw [Nat.le_div_iff_mul_le (by decide)]; omega
      omega)
  refine Runs.bind hloop ?_
  refine (Runs.pure _).cast ?_ ?_
  · rw [hes]; rfl
  · simp only [Layout.end64Pos]; omega


/-! ### an entry the stream cannot serve, behind servable ones -/

theorem build_split (l : Layout) (hp : l.pre = []) (es1 es2 : List Entry) (e : Entry)
    (hes : l.entries = es1 ++ e :: es2) (hg : e.gapBefore = []) :
    build l = localsBytes es1 ++ (localRecord e ++ (e.data ++ (descriptor e ++ (localsBytes es2 ++
      (l.gapBeforeCd ++ (l.cdBytes ++ (l.end64 ++ (l.eocd ++ l.trailing)))))))) := by
  simp [build, hp, hes, localsBytes_append, localsBytes_cons, Entry.localBytes, hg]

theorem fuel_split' (l : Layout) (es1 es2 : List Entry) (e : Entry) (hes : l.entries = es1 ++ e :: es2) :
    ∃ f, (build l).length / 30 + 1 = (f + 1) + es1.length := by
  obtain ⟨f, hf⟩ := fuel_split l
  refine ⟨f + 1 + es2.length, ?_⟩
  rw [hf, hes]; simp only [List.length_append, List.length_cons]; omega

theorem runs_streamEntriesC_build_refuses (ext : Ext) (c : List Consume) (l : Layout) (hF : l.Fits)
    (hp : l.pre = []) (es1 es2 : List Entry) (e : Entry) (hes : l.entries = es1 ++ e :: es2)
    (h1 : ∀ x ∈ es1, LocalSizesOk x ∧ x.gapBefore = []) (hg : e.gapBefore = [])
    (hx : ExtraOk e.localExtra) (hr : StreamRefused e) :
    Runs (streamEntriesC ext c ((build l).length / 30 + 1) 0) (build l) 0 (.err .unsupportedArchive)
      ((localsBytes es1).length + (localRecord e).length) := by
  obtain ⟨f, hfuel⟩ := fuel_split' l es1 es2 e hes
  have hmem : ∀ x ∈ es1, x ∈ l.entries := by intro x hx; rw [hes]; exact List.mem_append_left _ hx
  have hme : e ∈ l.entries := by rw [hes]; simp
  have hd0 : (build l).drop 0 = localsBytes es1 ++ (localRecord e ++ (e.data ++ (descriptor e ++
      (localsBytes es2 ++ (l.gapBeforeCd ++ (l.cdBytes ++ (l.end64 ++ (l.eocd ++ l.trailing)))))))) := by
    rw [List.drop_zero]; exact build_split l hp es1 es2 e hes hg
  rw [hfuel]
  have hend := runs_streamEntriesC_refuses ext c e (hF.1 e hme) hx hr f (0 + es1.length) (drop_past hd0)
  have := runs_streamEntriesC_prefix ext c es1 0 0 (f + 1) _ _ _
    (fun x hx => ⟨hF.1 x (hmem x hx), (h1 x hx).1, (h1 x hx).2⟩) hd0 hend
  exact this.cast rfl (by omega)

theorem runs_streamEntries_build_refuses (ext : Ext) (l : Layout) (hF : l.Fits)
    (hp : l.pre = []) (es1 es2 : List Entry) (e : Entry) (hes : l.entries = es1 ++ e :: es2)
    (h1 : ∀ x ∈ es1, LocalSizesOk x ∧ x.gapBefore = []) (hg : e.gapBefore = [])
    (hx : ExtraOk e.localExtra) (hr : StreamRefused e) :
    Runs (streamEntries ext ((build l).length / 30 + 1)) (build l) 0 (.err .unsupportedArchive)
      ((localsBytes es1).length + (localRecord e).length) := by
  obtain ⟨f, hfuel⟩ := fuel_split' l es1 es2 e hes
  have hmem : ∀ x ∈ es1, x ∈ l.entries := by intro x hx; rw [hes]; exact List.mem_append_left _ hx
  have hme : e ∈ l.entries := by rw [hes]; simp
  have hd0 : (build l).drop 0 = localsBytes es1 ++ (localRecord e ++ (e.data ++ (descriptor e ++
      (localsBytes es2 ++ (l.gapBeforeCd ++ (l.cdBytes ++ (l.end64 ++ (l.eocd ++ l.trailing)))))))) := by
    rw [List.drop_zero]; exact build_split l hp es1 es2 e hes hg
  rw [hfuel]
  have hend := runs_streamEntries_refuses ext e (hF.1 e hme) hx hr f (drop_past hd0)
  have := runs_streamEntries_prefix ext es1 0 (f + 1) _ _ _
    (fun x hx => ⟨hF.1 x (hmem x hx), (h1 x hx).1, (h1 x hx).2⟩) hd0 hend
  exact this.cast rfl (by omega)

theorem runs_streamVisit_build_refuses (ext : Ext) (l : Layout) (hF : l.Fits)
    (hp : l.pre = []) (es1 es2 : List Entry) (e : Entry) (hes : l.entries = es1 ++ e :: es2)
    (h1 : ∀ x ∈ es1, LocalSizesOk x ∧ x.gapBefore = []) (hg : e.gapBefore = [])
    (hx : ExtraOk e.localExtra) (hr : StreamRefused e) :
    Runs (streamVisit ext) (build l) 0 (.err .unsupportedArchive)
      ((localsBytes es1).length + (localRecord e).length) := by
  unfold streamVisit
  refine Runs.getDev_bind (fun d hdb => ?_)
  dsimp only
  rw [hdb]
  exact Runs.bind_err (runs_streamEntries_build_refuses ext l hF hp es1 es2 e hes h1 hg hx hr)

/-! ### results, entry by entry -/

theorem streamResultsC_length (ext : Ext) (c : List Consume) : ∀ (es : List Entry) (i : Nat),
    (streamResultsC ext c i es).length = es.length := by
  intro es
  induction es with
  | nil => intro _; rfl
  | cons e es ih => intro i; simp [streamResultsC, ih]

theorem streamResultsC_getElem (ext : Ext) (c : List Consume) : ∀ (es : List Entry) (i j : Nat) (e : Entry),
    es[j]? = some e →
    (streamResultsC ext c i es)[j]? = some (streamViewEntry e, streamSeen ext e (patAt c (i + j)).k) := by
  intro es
  induction es with
  | nil => intro _ j e h; simp at h
  | cons x xs ih =>
    intro i j e h
    cases j with
    | zero => simp at h; subst h; simp [streamResultsC]
    | succ j =>
      simp at h
      have := ih (i + 1) j e h
      have e1 : i + 1 + j = i + (j + 1) := by omega
      rw [e1] at this
      simp only [streamResultsC, List.getElem?_cons_succ, this]

theorem streamResultsC_fst (ext : Ext) (c : List Consume) : ∀ (es : List Entry) (i : Nat),
    (streamResultsC ext c i es).map Prod.fst = es.map streamViewEntry := by
  intro es
  induction es with
  | nil => intro _; rfl
  | cons e es ih => intro i; simp [streamResultsC, ih]

theorem streamResults_getElem (ext : Ext) (es : List Entry) (j : Nat) (e : Entry) (h : es[j]? = some e) :
    (streamResults ext es)[j]? = some (streamViewEntry e, streamSeenAll ext e) := by
  simp [streamResults, h]

/-- "`k` is beyond what the decoder delivers for entry `e`": more than the decoded length when the stream
decodes, more than what comes out before the error when it is damaged -/
def Beyond (ext : Ext) (e : Entry) (k : Nat) : Prop :=
  (∀ dec, ext.decode (Method.fromU16 e.method) e.data = .ok dec → dec.length < k) ∧
  (∀ x, ext.decode (Method.fromU16 e.method) e.data = .err x →
    (ext.decodeBefore (Method.fromU16 e.method) e.data k).length < k)

/-- reading past the last delivered byte (that is: until the read that reports end-of-file or the error) -/
theorem streamSeen_eof (ext : Ext) (e : Entry) (k : Nat) (hk : Beyond ext e k) :
    streamSeen ext e k = streamSeenAll ext e := by
  unfold streamSeen streamSeenAll consumeK
  cases h : ext.decode (Method.fromU16 e.method) e.data with
  | ok dec =>
    have := hk.1 dec h
    dsimp only
    rw [if_neg (Nat.not_le.mpr this)]; rfl
  | err x =>
    have := hk.2 x h
    dsimp only
    rw [if_neg (Nat.not_le.mpr this)]; rfl
  | panic s => rfl

theorem streamResultsC_all (ext : Ext) (c : List Consume) : ∀ (es : List Entry) (i : Nat),
    (∀ j e, es[j]? = some e → Beyond ext e (patAt c (i + j)).k) →
    streamResultsC ext c i es = streamResults ext es := by
  intro es
  induction es with
  | nil => intro _ _; rfl
  | cons e es ih =>
    intro i h
    have h0 := h 0 e rfl
    have hrest := ih (i + 1) (fun j x hx => by
      have := h (j + 1) x (by simpa using hx)
      have e1 : i + (j + 1) = i + 1 + j := by omega
      rwa [e1] at this)
    show (streamViewEntry e, streamSeen ext e (patAt c i).k) :: streamResultsC ext c (i + 1) es = _
    rw [hrest, streamSeen_eof ext e _ (by simpa using h0)]
    rfl

/-! ### the metadata views are the seekable reader's views -/

theorem metaList_eq_viewList : ∀ (es : List Entry) (loc chs : Nat),
    metaList es loc = (viewList 0 es loc chs).map (fun v => { v with centralHeaderStart := 0 }) := by
  intro es
  induction es with
  | nil => intro _ _; rfl
  | cons e es ih =>
    intro loc chs
    simp only [metaList, viewList, List.map_cons]
    rw [← ih]
    rfl

theorem metaList_length : ∀ (es : List Entry) (loc : Nat), (metaList es loc).length = es.length := by
  intro es
  induction es with
  | nil => intro _; rfl
  | cons e es ih => intro loc; simp [metaList, ih]

theorem metaList_names : ∀ (es : List Entry) (loc : Nat),
    (metaList es loc).map (·.fileNameRaw) = es.map (·.name) := by
  intro es
  induction es with
  | nil => intro _; rfl
  | cons e es ih => intro loc; simp only [metaList, List.map_cons, ih]; rfl


theorem viewList_names (pre : Nat) : ∀ (es : List Entry) (loc chs : Nat),
    (viewList pre es loc chs).map (·.fileNameRaw) = es.map (·.name) := by
  intro es
  induction es with
  | nil => intro _ _; rfl
  | cons e es ih => intro loc chs; simp only [viewList, List.map_cons, ih]; rfl

/-- decidable equality of read outcomes (for the kernel-evaluated examples of Props/C10) -/
@[reducible] def decEqOutBytes : DecidableEq (Out Bytes) := fun a b =>
  match a, b with
  | .ok x, .ok y => if h : x = y then isTrue (by rw [h]) else isFalse (fun h' => h (by cases h'; rfl))
  | .err x, .err y => if h : x = y then isTrue (by rw [h]) else isFalse (fun h' => h (by cases h'; rfl))
  | .panic x, .panic y => if h : x = y then isTrue (by rw [h]) else isFalse (fun h' => h (by cases h'; rfl))
  | .ok _, .err _ => isFalse (fun h => by cases h)
  | .ok _, .panic _ => isFalse (fun h => by cases h)
  | .err _, .ok _ => isFalse (fun h => by cases h)
  | .err _, .panic _ => isFalse (fun h => by cases h)
  | .panic _, .ok _ => isFalse (fun h => by cases h)
  | .panic _, .err _ => isFalse (fun h => by cases h)

end ZipVerif.Model
