import ZipVerif.Lemmas.CentralParseZ
import ZipVerif.Model.Writer
/-
`strip_zip64_extra_field` (`Model.stripZip64`, the D20 repair of `new_append`): on a well-formed record
sequence it removes exactly the ZIP64 (0x0001) records.
-/

namespace ZipVerif.Model
open ZipVerif ZipVerif.Spec.Zip

/-- one step on a complete record -/
theorem stripZip64_step (k : Nat) (a b c d : UInt8) (r2 : Bytes) (hl : (mk16 c d).toNat ≤ r2.length) :
    stripZip64 (k + 1) (a :: b :: c :: d :: r2) =
      if mk16 a b != 0x0001 then
        a :: b :: c :: d :: (r2.take (mk16 c d).toNat ++ stripZip64 k (r2.drop (mk16 c d).toNat))
      else stripZip64 k (r2.drop (mk16 c d).toNat) := by
  rw [stripZip64]
  have h4 : ¬ (a :: b :: c :: d :: r2).length < 4 := by simp
  rw [if_neg h4]
  simp only [rd16]
  rw [if_neg (by omega)]
  split
  · have e : 4 + (mk16 c d).toNat = (mk16 c d).toNat + 1 + 1 + 1 + 1 := by omega
    rw [e]
    simp only [List.take_succ_cons, List.cons_append]
  · rfl

/-- **No ZIP64 record, nothing removed**: on C03's `ExtraOk` sequences `stripZip64` is the identity. -/
theorem stripZip64_extraOk_aux : ∀ (k fuel : Nat) (bs : Bytes), extraOkAux fuel bs = true →
    stripZip64 k bs = bs := by
  intro k
  induction k with
  | zero => intro _ _ _; rfl
  | succ k ih =>
    intro fuel bs h
    cases fuel with
    | zero =>
      have hb : bs = [] := by simpa [extraOkAux] using h
      subst hb; rfl
    | succ fuel =>
      unfold extraOkAux at h
      by_cases he : bs.isEmpty = true
      · have hb : bs = [] := List.isEmpty_iff.mp he
        subst hb; rfl
      · rw [if_neg he] at h
        match bs, h with
        | a :: b :: c :: d :: r2, h =>
          simp only [rd16, Bool.and_eq_true, bne_iff_ne, ne_eq, decide_eq_true_eq] at h
          obtain ⟨⟨⟨hid, _⟩, hl⟩, hrest⟩ := h
          rw [stripZip64_step k a b c d r2 hl, if_pos (by simpa using hid), ih fuel _ hrest,
            List.take_append_drop]
        | [], h => simp at he
        | [_], h => simp [rd16] at h
        | [_, _], h => simp [rd16] at h
        | [_, _, _], h => simp [rd16] at h

theorem stripZip64_extraOk {bs : Bytes} (h : ExtraOk bs) (k : Nat) : stripZip64 k bs = bs :=
  stripZip64_extraOk_aux k _ bs h

/-- the result is never longer -/
theorem stripZip64_length_le : ∀ (k : Nat) (bs : Bytes), (stripZip64 k bs).length ≤ bs.length := by
  intro k
  induction k with
  | zero => intro bs; exact Nat.le_refl _
  | succ k ih =>
    intro bs
    unfold stripZip64
    split
    · exact Nat.le_refl _
    · split
      · exact Nat.le_refl _
      · next kind r1 h1 =>
        split
        · exact Nat.le_refl _
        · next len r2 h2 =>
          have hr1 : bs.length = r1.length + 2 := by
            match bs, h1 with
            | a :: b :: r, h1 => simp only [rd16, Option.some.injEq, Prod.mk.injEq] at h1; rw [← h1.2]; simp
          have hr2 : r1.length = r2.length + 2 := by
            match r1, h2 with
            | a :: b :: r, h2 => simp only [rd16, Option.some.injEq, Prod.mk.injEq] at h2; rw [← h2.2]; simp
          have := ih (r2.drop len.toNat)
          split
          · exact Nat.le_refl _
          · next hlen =>
            split
            · simp only [List.length_append, List.length_take, List.length_drop] at this ⊢
              omega
            · simp only [List.length_drop] at this; omega

/-- `extraOkZAux` does not depend on the fuel beyond the length of the sequence -/
theorem extraOkZAux_len (a : Bool) : ∀ (n : Nat) (bs : Bytes), extraOkZAux a n bs = true →
    ∀ m, bs.length ≤ m → extraOkZAux a m bs = true := by
  intro n
  induction n with
  | zero =>
    intro bs h m _
    have hb : bs = [] := by simpa [extraOkZAux] using h
    subst hb
    cases m <;> simp [extraOkZAux]
  | succ n ih =>
    intro bs h m hm
    unfold extraOkZAux at h
    by_cases he : bs.isEmpty = true
    · have hb : bs = [] := List.isEmpty_iff.mp he
      subst hb
      cases m <;> simp [extraOkZAux]
    · rw [if_neg he] at h
      match bs, h with
      | x :: y :: c :: d :: r2, h =>
        simp only [rd16, Bool.and_eq_true] at h
        cases m with
        | zero => simp at hm
        | succ m =>
          unfold extraOkZAux
          simp only [List.isEmpty_cons, Bool.false_eq_true, if_false, rd16, Bool.and_eq_true]
          refine ⟨h.1, ih _ h.2 m ?_⟩
          simp only [List.length_cons, List.length_drop] at hm ⊢
          omega
      | [], h => simp at he
      | [_], h => simp [rd16] at h
      | [_, _], h => simp [rd16] at h
      | [_, _, _], h => simp [rd16] at h

/-- **What is left has no ZIP64 record**: stripping an `extraOkZAux` sequence (well formed, no 0x9901,
0x0001 records allowed or not) with enough fuel gives an `ExtraOk` sequence. -/
theorem stripZip64_okZ (a : Bool) : ∀ (fuel : Nat) (bs : Bytes), extraOkZAux a fuel bs = true →
    ∀ k, fuel ≤ k → ExtraOk (stripZip64 k bs) := by
  intro fuel
  induction fuel with
  | zero =>
    intro bs h k _
    have hb : bs = [] := by simpa [extraOkZAux] using h
    subst hb
    have : stripZip64 k [] = [] := by cases k <;> simp [stripZip64]
    rw [this]; decide
  | succ n ih =>
    intro bs h k hk
    cases k with
    | zero => omega
    | succ k =>
      unfold extraOkZAux at h
      by_cases he : bs.isEmpty = true
      · have hb : bs = [] := List.isEmpty_iff.mp he
        subst hb
        have : stripZip64 (k + 1) [] = [] := by simp [stripZip64]
        rw [this]; decide
      · rw [if_neg he] at h
        match bs, h with
        | x :: y :: c :: d :: r2, h =>
          simp only [rd16, Bool.and_eq_true, bne_iff_ne, ne_eq, decide_eq_true_eq] at h
          obtain ⟨⟨⟨_, h99⟩, hl⟩, hrest⟩ := h
          have hrec := ih _ hrest k (by omega)
          rw [stripZip64_step k x y c d r2 hl]
          split
          · next hid =>
            -- a kept record in front of an `ExtraOk` rest
            unfold ExtraOk at hrec ⊢
            rw [← extraOkZAux_false] at hrec ⊢
            have hlt : ((r2.take (mk16 c d).toNat)).length = (mk16 c d).toNat := by
              rw [List.length_take]; omega
            have hlen : (x :: y :: c :: d :: (r2.take (mk16 c d).toNat ++
                stripZip64 k (r2.drop (mk16 c d).toNat))).length =
                ((mk16 c d).toNat + (stripZip64 k (r2.drop (mk16 c d).toNat)).length + 3) + 1 := by
              simp only [List.length_cons, List.length_append, hlt]
            rw [hlen]
            unfold extraOkZAux
            simp only [List.isEmpty_cons, Bool.false_eq_true, if_false, rd16, Bool.or_false, Bool.and_eq_true,
              bne_iff_ne, ne_eq, decide_eq_true_eq]
            refine ⟨⟨⟨by simpa using hid, h99⟩, by rw [List.length_append, hlt]; omega⟩, ?_⟩
            have hd : (r2.take (mk16 c d).toNat ++ stripZip64 k (r2.drop (mk16 c d).toNat)).drop
                (mk16 c d).toNat = stripZip64 k (r2.drop (mk16 c d).toNat) := by
              exact List.drop_left' hlt
            rw [hd]
            exact extraOkZAux_fuel false _ _ _ (by omega) hrec
          · exact hrec
        | [], h => simp at he
        | [_], h => simp [rd16] at h
        | [_, _], h => simp [rd16] at h
        | [_, _, _], h => simp [rd16] at h

end ZipVerif.Model

namespace ZipVerif.Spec.Zip
open ZipVerif ZipVerif.Model

/-- the bytes `new_append` keeps of the central extra field of entry `e` at offset `off` -/
def Entry.keptExtra (e : Entry) (off : UInt64) : Bytes :=
  stripZip64 ((e.centralExtraAll off).length + 1) (e.centralExtraAll off)

/-- **On the spec's own extra field** (`ZIP64 record ++ foreign records`) of a `Readable` entry, stripping
returns exactly the foreign records. -/
theorem keptExtra_of_extraOk (e : Entry) (off : UInt64) (h : ExtraOk e.centralExtra) :
    e.keptExtra off = e.centralExtra := by
  unfold Entry.keptExtra Entry.centralExtraAll Entry.centralZ64
  by_cases hn : ((if e.zU then 8 else 0) + (if e.zC then 8 else 0) + (if e.zO off then 8 else 0)) = 0
  · simp only [hn, if_true, List.nil_append]
    exact stripZip64_extraOk h _
  · simp only [hn, if_false]
    have hpl : ((if e.zU then le64 e.usize else []) ++ ((if e.zC then le64 e.csize else []) ++
        (if e.zO off then le64 off else []))).length =
        (UInt16.ofNat ((if e.zU then 8 else 0) + (if e.zC then 8 else 0) + (if e.zO off then 8 else 0))).toNat := by
      cases e.zU <;> cases e.zC <;> cases e.zO off <;> rfl
    generalize hP : ((if e.zU then le64 e.usize else []) ++ ((if e.zC then le64 e.csize else []) ++
        (if e.zO off then le64 off else []))) = P at hpl
    generalize (UInt16.ofNat ((if e.zU then 8 else 0) + (if e.zC then 8 else 0) + (if e.zO off then 8 else 0))) = n at hpl
    have hform : le16 1 ++ le16 n ++ (if e.zU then le64 e.usize else []) ++
        (if e.zC then le64 e.csize else []) ++ (if e.zO off then le64 off else []) ++ e.centralExtra =
        (1 : UInt8) :: 0 :: (le16 n ++ (P ++ e.centralExtra)) := by
      rw [← hP]; simp only [List.append_assoc]; rfl
    rw [hform]
    have hm : mk16 (UInt8.ofNat (n.toNat % 256)) (UInt8.ofNat (n.toNat / 256)) = n := mk16_le16 n
    show stripZip64 (_ + 1) (1 :: 0 :: UInt8.ofNat (n.toNat % 256) :: UInt8.ofNat (n.toNat / 256) ::
      (P ++ e.centralExtra)) = _
    rw [stripZip64_step _ 1 0 _ _ _ (by rw [hm, ← hpl]; simp), if_neg (by decide), hm, ← hpl]
    simp only [List.drop_left]
    exact stripZip64_extraOk h _

/-- … and in general (further ZIP64 records allowed, `ExtraOkZ`-style) what is kept is `ExtraOk`. -/
theorem keptExtra_extraOk (e : Entry) (off : UInt64) (a : Bool)
    (h : extraOkZAux a e.centralExtra.length e.centralExtra = true) : ExtraOk (e.keptExtra off) := by
  have h1 := extraOkZAux_allow _ _ _ h
  -- the spec's own record in front is one more well-formed 0x0001 record
  have h2 : extraOkZAux true (e.centralExtraAll off).length (e.centralExtraAll off) = true := by
    unfold Entry.centralExtraAll Entry.centralZ64
    by_cases hn : ((if e.zU then 8 else 0) + (if e.zC then 8 else 0) + (if e.zO off then 8 else 0)) = 0
    · simp only [hn, if_true, List.nil_append]; exact h1
    · simp only [hn, if_false]
      have := extraOkZAux_record true 1
        (UInt16.ofNat ((if e.zU then 8 else 0) + (if e.zC then 8 else 0) + (if e.zO off then 8 else 0)))
        ((if e.zU then le64 e.usize else []) ++ ((if e.zC then le64 e.csize else []) ++
          (if e.zO off then le64 off else []))) e.centralExtra
        (by cases e.zU <;> cases e.zC <;> cases e.zO off <;> rfl) rfl (by decide) h1
      simpa only [List.append_assoc] using this
  exact stripZip64_okZ true _ _ h2 _ (Nat.le_succ _)

theorem keptExtra_length_le (e : Entry) (off : UInt64) :
    (e.keptExtra off).length ≤ (e.centralExtraAll off).length :=
  stripZip64_length_le _ _

end ZipVerif.Spec.Zip
