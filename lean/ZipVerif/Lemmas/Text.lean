import ZipVerif.Spec.Utf8
import ZipVerif.Spec.Cp437Ref
import ZipVerif.Model.Text
/-
Helper lemmas for C19 (UTF-8 encode/decode, CP437 table facts over the 256 byte values).
-/

namespace ZipVerif.Spec

/-! ### Finite quantification over bytes -/

/-- A Boolean predicate checked on `0..255` holds for every byte (used with `decide +kernel`). -/
theorem forall_byte_of_range {p : UInt8 → Bool}
    (h : (List.range 256).all (fun n => p (UInt8.ofNat n)) = true) (b : UInt8) : p b = true := by
  have hb := List.all_eq_true.mp h b.toNat (List.mem_range.mpr b.toNat_lt)
  rwa [UInt8.ofNat_toNat] at hb

/-- Bit `k` of `x` as a mask test. -/
theorem and_two_pow_ne_zero (x k : Nat) : (x &&& 2 ^ k ≠ 0) ↔ x.testBit k = true := by
  cases hb : x.testBit k
  · have : x &&& 2 ^ k = 0 := by
      apply Nat.eq_of_testBit_eq
      intro i
      rw [Nat.testBit_and, Nat.testBit_two_pow, Nat.zero_testBit]
      by_cases hki : k = i
      · subst hki; rw [hb]; rfl
      · rw [decide_eq_false hki, Bool.and_false]
    rw [this]; exact ⟨fun h => absurd rfl h, fun h => by cases h⟩
  · have : (x &&& 2 ^ k).testBit k = true := by
      rw [Nat.testBit_and, Nat.testBit_two_pow, hb]; simp
    exact ⟨fun _ => rfl, fun _ h0 => by rw [h0, Nat.zero_testBit] at this; cases this⟩

/-! ### `Char` / `UInt8` plumbing -/

theorem toNat_ofNatAux (n : Nat) (h : n.isValidChar) : (Char.ofNatAux n h).toNat = n := rfl

theorem char_eq_of_toNat {c d : Char} (h : c.toNat = d.toNat) : c = d :=
  Char.ext (UInt32.toNat_inj.mp h)

theorem ofNatAux_eq {n : Nat} {h : n.isValidChar} {c : Char} (e : n = c.toNat) :
    Char.ofNatAux n h = c := char_eq_of_toNat (by rw [toNat_ofNatAux]; exact e)

theorem toNat_ofNat8 {n : Nat} (h : n < 256) : (UInt8.ofNat n).toNat = n :=
  UInt8.toNat_ofNat_of_lt' h

theorem ofNat8_eq {n : Nat} {b : UInt8} (e : n = b.toNat) : UInt8.ofNat n = b := by
  subst e; exact UInt8.ofNat_toNat

theorem char_valid_nat (c : Char) :
    c.toNat < 0xD800 ∨ (0xDFFF < c.toNat ∧ c.toNat < 0x110000) := c.valid

/-! ### The success paths of `utf8Chunks`, one per sequence length -/

theorem chunks1 (b0 : UInt8) (rest : Bytes) (h0 : b0.toNat < 0x80) :
    utf8Chunks (b0 :: rest) = some (Char.ofNatAux b0.toNat (scalar1_valid h0)) :: utf8Chunks rest := by
  rw [utf8Chunks, dif_pos h0]

theorem chunks2 (b0 b1 : UInt8) (rest : Bytes) (h0 : 0xC2 ≤ b0.toNat ∧ b0.toNat ≤ 0xDF)
    (h1 : 0x80 ≤ b1.toNat ∧ b1.toNat ≤ 0xBF) :
    utf8Chunks (b0 :: b1 :: rest) =
      some (Char.ofNatAux (scalar2 b0.toNat b1.toNat) (scalar2_valid h0 h1)) :: utf8Chunks rest := by
  rw [utf8Chunks, dif_neg (by omega), dif_pos h0]
  simp only
  rw [dif_pos h1]

theorem chunks3 (b0 b1 b2 : UInt8) (rest : Bytes) (h0 : 0xE0 ≤ b0.toNat ∧ b0.toNat ≤ 0xEF)
    (h1 : secondLo b0.toNat ≤ b1.toNat ∧ b1.toNat ≤ secondHi b0.toNat)
    (h2 : 0x80 ≤ b2.toNat ∧ b2.toNat ≤ 0xBF) :
    utf8Chunks (b0 :: b1 :: b2 :: rest) =
      some (Char.ofNatAux (scalar3 b0.toNat b1.toNat b2.toNat) (scalar3_valid h0 h1 h2))
        :: utf8Chunks rest := by
  rw [utf8Chunks, dif_neg (by omega), dif_neg (by omega), dif_pos h0]
  simp only
  rw [dif_pos h1, dif_pos h2]

theorem chunks4 (b0 b1 b2 b3 : UInt8) (rest : Bytes) (h0 : 0xF0 ≤ b0.toNat ∧ b0.toNat ≤ 0xF4)
    (h1 : secondLo b0.toNat ≤ b1.toNat ∧ b1.toNat ≤ secondHi b0.toNat)
    (h2 : 0x80 ≤ b2.toNat ∧ b2.toNat ≤ 0xBF) (h3 : 0x80 ≤ b3.toNat ∧ b3.toNat ≤ 0xBF) :
    utf8Chunks (b0 :: b1 :: b2 :: b3 :: rest) =
      some (Char.ofNatAux (scalar4 b0.toNat b1.toNat b2.toNat b3.toNat) (scalar4_valid h0 h1 h2 h3))
        :: utf8Chunks rest := by
  rw [utf8Chunks, dif_neg (by omega), dif_neg (by omega), dif_neg (by omega), dif_pos h0]
  simp only
  rw [dif_pos h1, dif_pos h2, dif_pos h3]

theorem utf8Chunks_encodeChar (c : Char) (rest : Bytes) :
    utf8Chunks (utf8EncodeChar c ++ rest) = some c :: utf8Chunks rest := by
  have hv := char_valid_nat c
  unfold utf8EncodeChar
  simp only
  split
  · rename_i h
    have e0 : (UInt8.ofNat c.toNat).toNat = c.toNat := toNat_ofNat8 (by omega)
    rw [List.cons_append, List.nil_append, chunks1 _ _ (by omega)]
    exact congrArg (fun x => some x :: utf8Chunks rest) (ofNatAux_eq e0)
  · split
    · rename_i h1 h2
      have e0 := toNat_ofNat8 (n := 0xC0 + c.toNat / 64) (by omega)
      have e1 := toNat_ofNat8 (n := 0x80 + c.toNat % 64) (by omega)
      rw [List.cons_append, List.cons_append, List.nil_append,
        chunks2 _ _ _ (by rw [e0]; omega) (by rw [e1]; omega)]
      exact congrArg (fun x => some x :: utf8Chunks rest) (ofNatAux_eq (by rw [e0, e1]; unfold scalar2; omega))
    · split
      · rename_i h1 h2 h3
        have e0 := toNat_ofNat8 (n := 0xE0 + c.toNat / 4096) (by omega)
        have e1 := toNat_ofNat8 (n := 0x80 + c.toNat / 64 % 64) (by omega)
        have e2 := toNat_ofNat8 (n := 0x80 + c.toNat % 64) (by omega)
        rw [List.cons_append, List.cons_append, List.cons_append, List.nil_append,
          chunks3 _ _ _ _ (by rw [e0]; omega) (by
            rw [e0, e1]; unfold secondLo secondHi
            repeat' split
            all_goals omega) (by rw [e2]; omega)]
        exact congrArg (fun x => some x :: utf8Chunks rest) (ofNatAux_eq (by rw [e0, e1, e2]; unfold scalar3; omega))
      · rename_i h1 h2 h3
        have e0 := toNat_ofNat8 (n := 0xF0 + c.toNat / 262144) (by omega)
        have e1 := toNat_ofNat8 (n := 0x80 + c.toNat / 4096 % 64) (by omega)
        have e2 := toNat_ofNat8 (n := 0x80 + c.toNat / 64 % 64) (by omega)
        have e3 := toNat_ofNat8 (n := 0x80 + c.toNat % 64) (by omega)
        rw [List.cons_append, List.cons_append, List.cons_append, List.cons_append, List.nil_append,
          chunks4 _ _ _ _ _ (by rw [e0]; omega) (by
            rw [e0, e1]; unfold secondLo secondHi
            repeat' split
            all_goals omega) (by rw [e2]; omega) (by rw [e3]; omega)]
        exact congrArg (fun x => some x :: utf8Chunks rest) (ofNatAux_eq (by rw [e0, e1, e2, e3]; unfold scalar4; omega))

theorem utf8Chunks_encode_append (s : List Char) (rest : Bytes) :
    utf8Chunks (utf8Encode s ++ rest) = s.map some ++ utf8Chunks rest := by
  induction s with
  | nil => rfl
  | cons c s ih =>
    rw [utf8Encode, List.append_assoc, utf8Chunks_encodeChar, ih]; rfl

theorem utf8Chunks_encode (s : List Char) : utf8Chunks (utf8Encode s) = s.map some := by
  have h := utf8Chunks_encode_append s []
  rw [List.append_nil] at h
  rw [h]; exact List.append_nil _

theorem allSome_map_some {α} (l : List α) : allSome (l.map some) = some l := by
  induction l with
  | nil => rfl
  | cons a l ih => rw [List.map_cons, allSome, ih]; rfl

theorem allSome_eq_some {α} {l : List (Option α)} {s : List α} (h : allSome l = some s) :
    l = s.map some := by
  induction l generalizing s with
  | nil => cases h; rfl
  | cons a l ih =>
    cases a with
    | none => cases h
    | some a =>
      rw [allSome] at h
      cases hl : allSome l with
      | none => rw [hl] at h; cases h
      | some t =>
        rw [hl] at h
        cases h
        rw [ih hl]; rfl

theorem map_unwrap_some (s : List Char) :
    (s.map some).map (fun
      | some c => c
      | none => replacement) = s := by
  induction s with
  | nil => rfl
  | cons c s ih => rw [List.map_cons, List.map_cons, ih]

theorem lossy_of_chunks {bs : Bytes} {s : List Char} (h : utf8Chunks bs = s.map some) :
    utf8Lossy bs = s := by
  unfold utf8Lossy
  rw [h]; exact map_unwrap_some s

/-! ### Strict decoding is sound (inverse direction) -/

theorem encode_scalar1 (b0 : UInt8) (h0 : b0.toNat < 0x80) :
    utf8EncodeChar (Char.ofNatAux b0.toNat (scalar1_valid h0)) = [b0] := by
  unfold utf8EncodeChar
  simp only [toNat_ofNatAux]
  rw [if_pos h0, UInt8.ofNat_toNat]

theorem encode_scalar2 (b0 b1 : UInt8) (h0 : 0xC2 ≤ b0.toNat ∧ b0.toNat ≤ 0xDF)
    (h1 : 0x80 ≤ b1.toNat ∧ b1.toNat ≤ 0xBF) :
    utf8EncodeChar (Char.ofNatAux (scalar2 b0.toNat b1.toNat) (scalar2_valid h0 h1)) = [b0, b1] := by
  unfold utf8EncodeChar
  simp only [toNat_ofNatAux]
  have hs : scalar2 b0.toNat b1.toNat = (b0.toNat - 0xC0) * 64 + (b1.toNat - 0x80) := rfl
  rw [if_neg (by omega), if_pos (by omega),
    ofNat8_eq (b := b0) (by omega), ofNat8_eq (b := b1) (by omega)]

theorem encode_scalar3 (b0 b1 b2 : UInt8) (h0 : 0xE0 ≤ b0.toNat ∧ b0.toNat ≤ 0xEF)
    (h1 : secondLo b0.toNat ≤ b1.toNat ∧ b1.toNat ≤ secondHi b0.toNat)
    (h2 : 0x80 ≤ b2.toNat ∧ b2.toNat ≤ 0xBF) :
    utf8EncodeChar (Char.ofNatAux (scalar3 b0.toNat b1.toNat b2.toNat) (scalar3_valid h0 h1 h2))
      = [b0, b1, b2] := by
  unfold utf8EncodeChar
  simp only [toNat_ofNatAux]
  have hs : scalar3 b0.toNat b1.toNat b2.toNat =
    (b0.toNat - 0xE0) * 4096 + (b1.toNat - 0x80) * 64 + (b2.toNat - 0x80) := rfl
  have h1' : 0x80 ≤ b1.toNat ∧ b1.toNat ≤ 0xBF ∧ (b0.toNat = 0xE0 → 0xA0 ≤ b1.toNat) := by
    unfold secondLo secondHi at h1
    repeat' split at h1
    all_goals omega
  rw [if_neg (by omega), if_neg (by omega), if_pos (by omega),
    ofNat8_eq (b := b0) (by omega), ofNat8_eq (b := b1) (by omega), ofNat8_eq (b := b2) (by omega)]

theorem encode_scalar4 (b0 b1 b2 b3 : UInt8) (h0 : 0xF0 ≤ b0.toNat ∧ b0.toNat ≤ 0xF4)
    (h1 : secondLo b0.toNat ≤ b1.toNat ∧ b1.toNat ≤ secondHi b0.toNat)
    (h2 : 0x80 ≤ b2.toNat ∧ b2.toNat ≤ 0xBF) (h3 : 0x80 ≤ b3.toNat ∧ b3.toNat ≤ 0xBF) :
    utf8EncodeChar (Char.ofNatAux (scalar4 b0.toNat b1.toNat b2.toNat b3.toNat)
      (scalar4_valid h0 h1 h2 h3)) = [b0, b1, b2, b3] := by
  unfold utf8EncodeChar
  simp only [toNat_ofNatAux]
  have hs : scalar4 b0.toNat b1.toNat b2.toNat b3.toNat =
    (b0.toNat - 0xF0) * 262144 + (b1.toNat - 0x80) * 4096 + (b2.toNat - 0x80) * 64
      + (b3.toNat - 0x80) := rfl
  have h1' : 0x80 ≤ b1.toNat ∧ b1.toNat ≤ 0xBF ∧ (b0.toNat = 0xF0 → 0x90 ≤ b1.toNat) := by
    unfold secondLo secondHi at h1
    repeat' split at h1
    all_goals omega
  rw [if_neg (by omega), if_neg (by omega), if_neg (by omega),
    ofNat8_eq (b := b0) (by omega), ofNat8_eq (b := b1) (by omega), ofNat8_eq (b := b2) (by omega),
    ofNat8_eq (b := b3) (by omega)]

theorem allSome_cons_some {α} {a : α} {l : List (Option α)} {s : List α}
    (h : allSome (some a :: l) = some s) : ∃ t, s = a :: t ∧ allSome l = some t := by
  rw [allSome] at h
  cases hl : allSome l with
  | none => rw [hl] at h; cases h
  | some t => rw [hl] at h; cases h; exact ⟨t, rfl, rfl⟩

/-- Strict decoding is sound: what it accepts is exactly the encoding of what it returns. -/
theorem encode_of_chunks (bs : Bytes) : ∀ s, allSome (utf8Chunks bs) = some s → utf8Encode s = bs := by
  fun_induction utf8Chunks bs with
  | case1 => intro s h; cases h; rfl
  | case2 b0 r h0 ih =>
    intro s h
    obtain ⟨t, rfl, ht⟩ := allSome_cons_some h
    rw [utf8Encode, encode_scalar1 b0 h0, ih t ht]; rfl
  | case4 b0 _ h0 b1 r1 h1 ih =>
    intro s h
    obtain ⟨t, rfl, ht⟩ := allSome_cons_some h
    rw [utf8Encode, encode_scalar2 b0 b1 h0 h1, ih t ht]; rfl
  | case8 b0 _ _ h0 b1 h1 b2 r2 h2 ih =>
    intro s h
    obtain ⟨t, rfl, ht⟩ := allSome_cons_some h
    rw [utf8Encode, encode_scalar3 b0 b1 b2 h0 h1 h2, ih t ht]; rfl
  | case14 b0 _ _ _ h0 b1 h1 b2 h2 b3 r3 h3 ih =>
    intro s h
    obtain ⟨t, rfl, ht⟩ := allSome_cons_some h
    rw [utf8Encode, encode_scalar4 b0 b1 b2 b3 h0 h1 h2 h3, ih t ht]; rfl
  | _ => intro s h; cases h
/-- Decoding never produces more items than there are bytes. -/
theorem chunks_length_le (bs : Bytes) : (utf8Chunks bs).length ≤ bs.length := by
  fun_induction utf8Chunks bs <;> simp only [List.length_cons, List.length_nil] at * <;> omega

end ZipVerif.Spec

namespace ZipVerif.Model
open ZipVerif ZipVerif.Spec

/-! ### CP437: model table = reference table; `from_cp437` on both paths -/

theorem table_lift {α β} {f : UInt8 → β} {g : α → β} {L : Array α} (hs : L.size = 256)
    (h : (List.range 256).map (fun n => f (UInt8.ofNat n)) = L.toList.map g) (b : UInt8) :
    f b = g (L[b.toNat]'(by rw [hs]; exact b.toNat_lt)) := by
  have hb := b.toNat_lt
  have h1 := congrArg (fun l => l[b.toNat]?) h
  simp only [List.getElem?_map, List.getElem?_range hb, Option.map_some, UInt8.ofNat_toNat] at h1
  have h2 : L.toList[b.toNat]? = some (L[b.toNat]'(by rw [hs]; exact hb)) := by
    rw [Array.getElem?_toList]; exact Array.getElem?_eq_getElem _
  rw [h2, Option.map_some] at h1
  exact Option.some.inj h1

/-- The model's `u32` table is the reference table, for all 256 bytes. -/
theorem toCharU32_eq_ref (b : UInt8) : toCharU32 b = (cp437Ref b).val :=
  table_lift (f := toCharU32) (g := Char.val) cp437RefTable_size (by decide +kernel) b

theorem charFromU32_val (c : Char) : Rs.charFromU32 c.val = some c := by
  unfold Rs.charFromU32
  rw [dif_pos c.valid]

theorem toChar_eq_ref (b : UInt8) : toChar b = .ok (cp437Ref b) := by
  unfold toChar
  rw [toCharU32_eq_ref, charFromU32_val]

theorem mapToChar_eq_ref (bs : Bytes) : mapToChar bs = .ok (bs.map cp437Ref) := by
  induction bs with
  | nil => rfl
  | cons b r ih => rw [mapToChar, toChar_eq_ref, ih]; rfl

/-- On ASCII bytes the reference table is the identity. -/
theorem ref_ascii (b : UInt8) (h : b.toNat < 0x80) : (cp437Ref b).toNat = b.toNat := by
  have e := toCharU32_eq_ref b
  unfold toCharU32 at e
  rw [if_pos (by rw [UInt8.le_iff_toNat_le]; have : (0x7f : UInt8).toNat = 127 := by decide
                 omega)] at e
  show (cp437Ref b).val.toNat = b.toNat
  rw [← e]; exact UInt8.toNat_toUInt32 b

theorem allAscii_cons (b : UInt8) (r : Bytes) :
    allAscii (b :: r) = true ↔ b.toNat < 0x80 ∧ allAscii r = true := by
  unfold allAscii
  rw [List.all_cons, Bool.and_eq_true, decide_eq_true_eq, UInt8.lt_iff_toNat_lt]
  have : (0x80 : UInt8).toNat = 128 := by decide
  rw [this]

theorem chunks_ascii (bs : Bytes) (h : allAscii bs = true) :
    utf8Chunks bs = (bs.map cp437Ref).map some := by
  induction bs with
  | nil => rfl
  | cons b r ih =>
    obtain ⟨hb, hr⟩ := (allAscii_cons b r).mp h
    rw [chunks1 b r hb, ih hr, List.map_cons, List.map_cons]
    exact congrArg (fun x => some x :: _) (ofNatAux_eq (ref_ascii b hb).symm)

theorem strict_ascii (bs : Bytes) (h : allAscii bs = true) :
    utf8Strict bs = some (bs.map cp437Ref) := by
  unfold utf8Strict
  rw [chunks_ascii bs h, allSome_map_some]

/-- `from_cp437` is total and equals the reference decoding, on both paths. -/
theorem fromCp437_eq_ref (bs : Bytes) : fromCp437 bs = .ok (bs.map cp437Ref) := by
  unfold fromCp437
  split
  · rename_i h; rw [strict_ascii bs h]
  · exact mapToChar_eq_ref bs

/-! ### Writer: flag and ASCII-ness of the encoded name -/

theorem lt80_iff (b : UInt8) : (b < 0x80) ↔ b.toNat < 0x80 := by
  rw [UInt8.lt_iff_toNat_lt]
  have : (0x80 : UInt8).toNat = 128 := by decide
  rw [this]

theorem isAscii_encodeChar (c : Char) :
    Rs.isAscii (utf8EncodeChar c) = decide (c.toNat < 0x80) := by
  have hv := char_valid_nat c
  unfold utf8EncodeChar Rs.isAscii
  simp only
  split
  · rename_i h
    have e0 := toNat_ofNat8 (n := c.toNat) (by omega)
    rw [List.all_cons, List.all_nil, Bool.and_true, decide_eq_true h, decide_eq_true_eq, lt80_iff, e0]
    exact h
  · rename_i h
    rw [decide_eq_false h]
    split
    · have e0 := toNat_ofNat8 (n := 0xC0 + c.toNat / 64) (by omega)
      rw [List.all_cons, Bool.and_eq_false_iff]; left
      rw [decide_eq_false_iff_not, lt80_iff, e0]; omega
    · split
      · have e0 := toNat_ofNat8 (n := 0xE0 + c.toNat / 4096) (by omega)
        rw [List.all_cons, Bool.and_eq_false_iff]; left
        rw [decide_eq_false_iff_not, lt80_iff, e0]; omega
      · have e0 := toNat_ofNat8 (n := 0xF0 + c.toNat / 262144) (by omega)
        rw [List.all_cons, Bool.and_eq_false_iff]; left
        rw [decide_eq_false_iff_not, lt80_iff, e0]; omega

theorem isAscii_encode (s : List Char) :
    Rs.isAscii (utf8Encode s) = s.all (fun c => decide (c.toNat < 0x80)) := by
  induction s with
  | nil => rfl
  | cons c s ih =>
    have : Rs.isAscii (utf8EncodeChar c ++ utf8Encode s)
        = (Rs.isAscii (utf8EncodeChar c) && Rs.isAscii (utf8Encode s)) := by
      unfold Rs.isAscii; exact List.all_append
    rw [utf8Encode, this, isAscii_encodeChar, ih, List.all_cons]

theorem isUtf8Flag_writerFlags (b : Bytes) (enc : Bool) :
    isUtf8Flag (writerFlags b enc) = !Rs.isAscii b := by
  unfold writerFlags isUtf8Flag
  cases Rs.isAscii b <;> cases enc <;> decide

theorem decodeName_nil (f : Bool) : decodeName f [] = .ok [] := by
  cases f <;> rfl

theorem strict_encode (s : List Char) : utf8Strict (utf8Encode s) = some s := by
  unfold utf8Strict; rw [utf8Chunks_encode, allSome_map_some]

end ZipVerif.Model
