import ZipVerif.Lemmas.FaithfulRun
/-
What placing one entry and applying one mode do to the tree, read at a path (the facts about the whole
expected tree `treeOf` are in Lemmas/TreeFactsStream.lean).
-/

namespace ZipVerif.Model.Extract
open ZipVerif ZipVerif.Spec.Paths ZipVerif.Spec.FS ZipVerif.Spec.Tree ZipVerif.Model.Paths

theorem walk_positions {c : Cfg} {root : Path} {fs : FS} (hi : Inv c root fs) {rr : List Comp} {p : Path}
    (hs : (walk rr.reverse 0).isSome) (h : walkR c fs (rr ++ rootRev root) = .ok p) :
    ∀ t, t <:+ rr → ∃ m, fs.lookup (root ++ resolve t.reverse) = some (.dir m) := by
  induction rr generalizing p with
  | nil =>
    intro t ht
    have : t = [] := List.suffix_nil.mp ht
    subst this
    simpa [resolve, resolveFrom] using hi.rootDir
  | cons x up ih =>
    intro t ht
    rcases List.suffix_cons_iff.mp ht with rfl | ht
    · obtain ⟨hp, m, hm⟩ := walk_end hi hs h
      exact ⟨m, hp ▸ hm⟩
    · rw [List.cons_append] at h
      obtain ⟨cur, hc, _⟩ := walkR_cons_inv h
      exact ih (safe_tail hs) hc t ht

theorem positionsR_mem {rr : List Comp} {r : Path} (h : r ∈ positionsR rr) :
    ∃ t, t <:+ rr ∧ r = resolve t.reverse := by
  induction rr with
  | nil =>
    simp only [positionsR, List.mem_singleton] at h
    exact ⟨[], List.suffix_refl _, by simp [h, resolve, resolveFrom]⟩
  | cons x up ih =>
    simp only [positionsR, List.mem_cons] at h
    rcases h with h | h
    · exact ⟨x :: up, List.suffix_refl _, h⟩
    · obtain ⟨t, ht, hr⟩ := ih h
      exact ⟨t, List.suffix_cons_iff.mpr (Or.inr ht), hr⟩

/-- What placing one entry does to the tree. -/
theorem putEntry_facts {c : Cfg} {root : Path} {es : List EntryView} {fs : FS} {e : EntryView}
    (hi : Inv c root fs) (hk : Kinds root es fs) (hpc : PermCfg c)
    (hDF : ∀ r, DirAt es r → FileAt es r → False) (he : EntryOK c es e) :
    (∀ q n, fs.lookup q = some n → (isDirName e.name = false → q ≠ root ++ target e) →
        (putEntry c root e fs).lookup q = some n) ∧
    (if isDirName e.name then ∃ m, (putEntry c root e fs).lookup (root ++ target e) = some (.dir m)
      else ∃ m, (putEntry c root e fs).lookup (root ++ target e) = some (.file e.data m)) ∧
    (∀ r ∈ dirPaths e, ∃ m, (putEntry c root e fs).lookup (root ++ r) = some (.dir m)) := by
  cases hd : isDirName e.name with
  | true =>
    have hs := he.safe
    have hdirs := dirAt_of_dirEntry he.mem hd
    have hclear : Clear fs root (relComps e.name).reverse := hk.clear hDF hs hdirs
    obtain ⟨hw, hi', _, hf'⟩ := ensureR_post hi hpc hs hclear
    have hput : putEntry c root e fs = (ensureR c root (relComps e.name).reverse fs).1 := by
      simp [putEntry, hd]
    rw [hput]
    refine ⟨?_, ?_, ?_⟩
    · intro q n hq _
      rcases hf' q with h | ⟨h, _, _⟩
      · rw [h]; exact hq
      · rw [hq] at h; cases h
    · simp only [if_true]
      obtain ⟨hp, m, hm⟩ := walk_end hi' hs hw
      refine ⟨m, ?_⟩
      rw [hp, List.reverse_reverse] at hm
      exact hm
    · intro r hr
      unfold dirPaths dirPartR at hr
      rw [if_pos hd] at hr
      obtain ⟨t, ht, rfl⟩ := positionsR_mem hr
      exact walk_positions hi' hs hw t ht
  | false =>
    have hs := he.safe
    obtain ⟨_, hln⟩ := he.file hd
    obtain ⟨s, up, hr⟩ := lastNormal_reverse hln
    rw [hr] at hs
    have hs0 := safe_tail hs
    have hdirs := dirAt_of_fileEntry he.mem hd hr
    have hclear : Clear fs root up := hk.clear hDF hs0 hdirs
    obtain ⟨hw0, hi0, _, hf0⟩ := ensureR_post hi hpc hs0 hclear
    have hkinds0 : Kinds root es (ensureR c root up fs).1 := hk.ens hf0 hs0 hdirs
    obtain ⟨hcur0, _, _⟩ := walk_end hi0 hs0 hw0
    have hrf : target e = resolve up.reverse ++ [s] := by
      have : relComps e.name = (Comp.normal s :: up).reverse := by rw [← hr, List.reverse_reverse]
      unfold target
      rw [this, resolve_reverse_cons]; rfl
    have hfileAt : FileAt es (resolve up.reverse ++ [s]) :=
      ⟨e, he.mem, by simp [filePath, hd, ← hrf, target]⟩
    have hpositions := walk_positions hi0 hs0 hw0
    generalize hr0 : ensureR c root up fs = r0 at hw0 hi0 hf0 hkinds0 hcur0 hpositions
    have hp : r0.2 ++ [s] = root ++ target e := by rw [hcur0, List.append_assoc, hrf]
    have hnd : ∀ m, r0.1.lookup (r0.2 ++ [s]) ≠ some (.dir m) := by
      intro m hl
      rw [hp, hrf] at hl
      exact hDF _ (hkinds0 _ _ hl) hfileAt
    have hput : putEntry c root e fs =
        (r0.1.set (r0.2 ++ [s]) (.file [] (openedFileMode c (r0.1.lookup (r0.2 ++ [s]))))).set
          (r0.2 ++ [s]) (.file e.data (openedFileMode c (r0.1.lookup (r0.2 ++ [s])))) := by
      simp only [putEntry, hd, Bool.false_eq_true, if_false, hr, hr0]
    rw [hput, ← hp]
    refine ⟨?_, ?_, ?_⟩
    · intro q n hq hne
      have hne' := hne rfl
      rw [lookup_set_ne _ _ hne', lookup_set_ne _ _ hne']
      rcases hf0 q with h | ⟨h, _, _⟩
      · rw [h]; exact hq
      · rw [hq] at h; cases h
    · simp only [Bool.false_eq_true, if_false]
      exact ⟨_, lookup_set_self _ _ _⟩
    · intro r hrm
      unfold dirPaths dirPartR at hrm
      rw [if_neg (by simp [hd]), hr] at hrm
      obtain ⟨t, ht, rfl⟩ := positionsR_mem hrm
      obtain ⟨m, hm⟩ := hpositions t ht
      have hk1 : Keeps c r0.1 (r0.1.set (r0.2 ++ [s]) (.file [] (openedFileMode c (r0.1.lookup (r0.2 ++ [s]))))) :=
        keeps_set_nondir _ hnd
      have hk2 := keeps_set_nondir (c := c)
        (fs := r0.1.set (r0.2 ++ [s]) (.file [] (openedFileMode c (r0.1.lookup (r0.2 ++ [s])))))
        (p := r0.2 ++ [s]) (.file e.data (openedFileMode c (r0.1.lookup (r0.2 ++ [s]))))
        (by rw [lookup_set_self]; simp)
      obtain ⟨m', hm', _⟩ := (hk1.trans hk2) _ m hm
      exact ⟨m', hm'⟩

/-! ### `setMode`, read at a path -/

theorem setMode_other (root : Path) (n : Name) (mode : Option Nat) (fs : FS) (q : Path)
    (h : q ≠ resolveFrom root (relComps n)) : (setMode root n mode fs).lookup q = fs.lookup q := by
  unfold setMode
  cases mode with
  | none => rfl
  | some m =>
    simp only [chmodAt]
    split
    · exact lookup_set_ne _ _ h
    · exact lookup_set_ne _ _ h
    · rfl

def withMode (mode : Option Nat) : Node → Node
  | .dir m => .dir (match mode with | some md => md &&& 0o7777 | none => m)
  | .file b m => .file b (match mode with | some md => md &&& 0o7777 | none => m)

theorem setMode_at (root : Path) (n : Name) (mode : Option Nat) (fs : FS) (nd : Node)
    (h : fs.lookup (resolveFrom root (relComps n)) = some nd) :
    (setMode root n mode fs).lookup (resolveFrom root (relComps n)) = some (withMode mode nd) := by
  unfold setMode
  cases mode with
  | none => cases nd <;> simpa [withMode] using h
  | some m =>
    cases nd with
    | dir m0 => simp [chmodAt, h, lookup_set_self, withMode]
    | file b m0 => simp [chmodAt, h, lookup_set_self, withMode]

end ZipVerif.Model.Extract
