import ZipVerif.Lemmas.TreeFacts
/-
What the expected tree `treeOf` (all entries placed in archive order, then the recorded modes applied,
deepest first) contains, read declaratively (for consistent archives on a fresh target):
  * nothing but what the archive wants, and every directory on the way to any entry
    (`treeOf_kinds_dirs`);
  * at the path of an entry that no later entry targets again: a directory / a file with exactly the
    entry's bytes, with the entry's recorded mode when it has one (`treeOf_last`).
-/

namespace ZipVerif.Model.Extract
open ZipVerif ZipVerif.Spec.Paths ZipVerif.Spec.FS ZipVerif.Spec.Tree ZipVerif.Model.Paths

/-- Kind and content of the node are what the entry describes (mode aside). -/
def ContentIs (e : EntryView) (n : Node) : Prop :=
  if isDirName e.name then ∃ m, n = .dir m else ∃ m, n = .file e.data m

theorem ContentIs.withMode {e : EntryView} {n : Node} (h : ContentIs e n) (mode : Option Nat) :
    ContentIs e (withMode mode n) := by
  unfold ContentIs at *
  split
  · next hd => rw [if_pos hd] at h; obtain ⟨m, rfl⟩ := h; exact ⟨_, rfl⟩
  · next hd => rw [if_neg hd] at h; obtain ⟨m, rfl⟩ := h; exact ⟨_, rfl⟩

theorem nodeIs_withMode {e : EntryView} {n : Node} (h : ContentIs e n) : NodeIs e (withMode e.mode n) := by
  unfold ContentIs at h
  unfold NodeIs
  split
  · next hd =>
    rw [if_pos hd] at h; obtain ⟨m, rfl⟩ := h
    cases hm : e.mode with
    | none => exact ⟨m, by simp [Extract.withMode], by simp⟩
    | some md => exact ⟨md &&& 0o7777, by simp [Extract.withMode], by simp⟩
  · next hd =>
    rw [if_neg hd] at h; obtain ⟨m, rfl⟩ := h
    cases hm : e.mode with
    | none => exact ⟨m, by simp [Extract.withMode], by simp⟩
    | some md => exact ⟨md &&& 0o7777, by simp [Extract.withMode], by simp⟩

/-! ### `setModes`, read at a path -/

theorem setModes_append (root : Path) (a b : List (Name × Option Nat)) (fs : FS) :
    setModes root (a ++ b) fs = setModes root b (setModes root a fs) := by
  induction a generalizing fs with
  | nil => rfl
  | cons m a ih => simp only [List.cons_append, setModes]; exact ih _

theorem setModes_other (root : Path) (ms : List (Name × Option Nat)) (fs : FS) (q : Path)
    (h : ∀ m ∈ ms, q ≠ resolveFrom root (relComps m.1)) : (setModes root ms fs).lookup q = fs.lookup q := by
  induction ms generalizing fs with
  | nil => rfl
  | cons m ms ih =>
    simp only [setModes]
    rw [ih _ (fun m' hm' => h m' (List.mem_cons_of_mem _ hm')), setMode_other _ _ _ _ _ (h m (by simp))]

theorem setMode_content (root : Path) (nm : Name) (mode : Option Nat) (fs : FS) (e : EntryView) (q : Path)
    (h : ∃ n, fs.lookup q = some n ∧ ContentIs e n) :
    ∃ n, (setMode root nm mode fs).lookup q = some n ∧ ContentIs e n := by
  obtain ⟨n, hn, hc⟩ := h
  by_cases hq : q = resolveFrom root (relComps nm)
  · subst hq
    exact ⟨_, setMode_at root nm mode fs n hn, hc.withMode mode⟩
  · exact ⟨n, by rw [setMode_other _ _ _ _ _ hq]; exact hn, hc⟩

theorem setModes_content (root : Path) (ms : List (Name × Option Nat)) (fs : FS) (e : EntryView) (q : Path)
    (h : ∃ n, fs.lookup q = some n ∧ ContentIs e n) :
    ∃ n, (setModes root ms fs).lookup q = some n ∧ ContentIs e n := by
  induction ms generalizing fs with
  | nil => exact h
  | cons m ms ih => simp only [setModes]; exact ih _ (setMode_content root m.1 m.2 fs e q h)

/-! ### all entries placed -/

theorem putAll_append (c : Cfg) (root : Path) (a b : List EntryView) (fs : FS) :
    putAll c root (a ++ b) fs = putAll c root b (putAll c root a fs) := by
  induction a generalizing fs with
  | nil => rfl
  | cons e a ih => simp only [List.cons_append, putAll]; exact ih _

theorem putAll_untouched {c : Cfg} {root : Path} {es : List EntryView} (hpc : PermCfg c)
    (hDF : ∀ r, DirAt es r → FileAt es r → False) (rest : List EntryView)
    (hrest : ∀ e ∈ rest, EntryOK c es e) (fs : FS) (hi : Inv c root fs) (hk : Kinds root es fs)
    {r : Path} {n : Node} (hq : fs.lookup (root ++ r) = some n) (hne : ∀ e ∈ rest, target e ≠ r) :
    (putAll c root rest fs).lookup (root ++ r) = some n := by
  induction rest generalizing fs with
  | nil => exact hq
  | cons e rest ih =>
    have he := hrest e (by simp)
    obtain ⟨_, hi1, hk1, _, _⟩ := placeEntry_eq hi hk hpc hDF he false
    obtain ⟨hbound, _, _⟩ := putEntry_facts hi hk hpc hDF he
    have hne' : root ++ r ≠ root ++ target e :=
      fun h => hne e (by simp) (List.append_cancel_left h).symm
    simp only [putAll]
    exact ih (fun e' he' => hrest e' (List.mem_cons_of_mem _ he')) _ hi1 hk1
      (hbound _ _ hq (fun _ => hne')) (fun e' he' => hne e' (List.mem_cons_of_mem _ he'))

theorem putAll_content {c : Cfg} {root : Path} {es : List EntryView} (hpc : PermCfg c)
    (hDF : ∀ r, DirAt es r → FileAt es r → False) (pre post : List EntryView) (e : EntryView)
    (hall : ∀ e' ∈ pre ++ e :: post, EntryOK c es e') (fs : FS) (hi : Inv c root fs)
    (hk : Kinds root es fs) (hlast : ∀ e' ∈ post, target e' ≠ target e) :
    ∃ n, (putAll c root (pre ++ e :: post) fs).lookup (root ++ target e) = some n ∧ ContentIs e n := by
  rw [putAll_append]
  obtain ⟨_, hi1, hk1, _, _⟩ :=
    placeFiles_eq hpc hDF false pre (fun e' he' => hall e' (by simp [he'])) fs hi hk
  have he := hall e (by simp)
  obtain ⟨_, hholds, _⟩ := putEntry_facts hi1 hk1 hpc hDF he
  obtain ⟨_, hi2, hk2, _, _⟩ := placeEntry_eq hi1 hk1 hpc hDF he false
  have hn : ∃ n, (putEntry c root e (putAll c root pre fs)).lookup (root ++ target e) = some n ∧
      ContentIs e n := by
    unfold ContentIs
    split at hholds
    · next hd => obtain ⟨m, hm⟩ := hholds; exact ⟨_, hm, by rw [if_pos hd]; exact ⟨m, rfl⟩⟩
    · next hd => obtain ⟨m, hm⟩ := hholds; exact ⟨_, hm, by rw [if_neg hd]; exact ⟨m, rfl⟩⟩
  obtain ⟨n, hn1, hn2⟩ := hn
  refine ⟨n, ?_, hn2⟩
  simp only [putAll]
  exact putAll_untouched hpc hDF post (fun e' he' => hall e' (by simp [he'])) _ hi2 hk2 hn1 hlast

theorem putAll_dirs {c : Cfg} {root : Path} {es : List EntryView} (hpc : PermCfg c)
    (hDF : ∀ r, DirAt es r → FileAt es r → False) (rest : List EntryView)
    (hrest : ∀ e ∈ rest, EntryOK c es e) (fs : FS) (hi : Inv c root fs) (hk : Kinds root es fs) :
    ∀ e ∈ rest, ∀ r ∈ dirPaths e, ∃ m, (putAll c root rest fs).lookup (root ++ r) = some (.dir m) := by
  induction rest generalizing fs with
  | nil => intro e he; cases he
  | cons e0 rest ih =>
    have he0 := hrest e0 (by simp)
    obtain ⟨_, hi1, hk1, _, _⟩ := placeEntry_eq hi hk hpc hDF he0 false
    have hrest' : ∀ e' ∈ rest, EntryOK c es e' := fun e' he' => hrest e' (List.mem_cons_of_mem _ he')
    intro e he r hr
    simp only [putAll]
    rcases List.mem_cons.mp he with rfl | he
    · obtain ⟨_, _, hdirs⟩ := putEntry_facts hi hk hpc hDF he0
      obtain ⟨m, hm⟩ := hdirs r hr
      obtain ⟨_, _, _, hg, _⟩ := placeFiles_eq hpc hDF false rest hrest' _ hi1 hk1
      obtain ⟨m1, hm1, _⟩ := hg.1 _ m hm
      exact ⟨m1, hm1⟩
    · exact ih hrest' _ hi1 hk1 e he r hr

/-! ### all modes applied -/

theorem setMode_kinds {root : Path} {es : List EntryView} {fs : FS} (hk : Kinds root es fs) (n : Name)
    (mode : Option Nat) : Kinds root es (setMode root n mode fs) := by
  intro r nd hl
  cases mode with
  | none => exact hk r nd hl
  | some md =>
    simp only [setMode, chmodAt] at hl
    split at hl
    · next m1 h1 =>
      by_cases e1 : root ++ r = resolveFrom root (relComps n)
      · rw [e1, lookup_set_self] at hl; cases hl; exact hk r _ (e1 ▸ h1)
      · rw [lookup_set_ne _ _ e1] at hl; exact hk r nd hl
    · next b m1 h1 =>
      by_cases e1 : root ++ r = resolveFrom root (relComps n)
      · rw [e1, lookup_set_self] at hl; cases hl; exact hk r _ (e1 ▸ h1)
      · rw [lookup_set_ne _ _ e1] at hl; exact hk r nd hl
    · exact hk r nd hl

theorem setModes_kinds {root : Path} {es : List EntryView} (ms : List (Name × Option Nat)) (fs : FS)
    (hk : Kinds root es fs) : Kinds root es (setModes root ms fs) := by
  induction ms generalizing fs with
  | nil => exact hk
  | cons m ms ih => simp only [setModes]; exact ih _ (setMode_kinds hk m.1 m.2)

theorem setModes_dir (root : Path) (ms : List (Name × Option Nat)) (fs : FS) (q : Path) (m : Nat)
    (h : fs.lookup q = some (.dir m)) : ∃ m', (setModes root ms fs).lookup q = some (.dir m') := by
  induction ms generalizing fs m with
  | nil => exact ⟨m, h⟩
  | cons x ms ih =>
    simp only [setModes]
    by_cases hq : q = resolveFrom root (relComps x.1)
    · subst hq
      have := setMode_at root x.1 x.2 fs _ h
      simp only [withMode] at this
      exact ih _ _ this
    · exact ih _ m (by rw [setMode_other _ _ _ _ _ hq]; exact h)

theorem pendingOf_append (a b : List (Name × Option Nat)) :
    pendingOf (a ++ b) = pendingOf a ++ pendingOf b := by
  induction a with
  | nil => rfl
  | cons m a ih =>
    obtain ⟨n, md⟩ := m
    cases md with
    | none => simpa [pendingOf] using ih
    | some m0 => simp [pendingOf, ih]

/-- **Last one wins.** -/
theorem treeOf_last {c : Cfg} {root : Path} {es : List EntryView} (hpc : PermCfg c)
    (hDF : ∀ r, DirAt es r → FileAt es r → False) (pre post : List EntryView) (e : EntryView)
    (hall : ∀ e' ∈ pre ++ e :: post, EntryOK c es e') (fs : FS) (hi : Inv c root fs)
    (hk : Kinds root es fs) (hlast : ∀ e' ∈ post, target e' ≠ target e) :
    ∃ n, (treeOf c root (pre ++ e :: post) fs).lookup (root ++ target e) = some n ∧ NodeIs e n := by
  have htar : ∀ e' ∈ pre ++ e :: post, resolveFrom root (relComps e'.name) = root ++ target e' := by
    intro e' he'
    have := resolveFrom_root_safe root (hall e' he').safe
    rwa [List.reverse_reverse] at this
  obtain ⟨n0, hn0, hc0⟩ := putAll_content hpc hDF pre post e hall fs hi hk hlast
  unfold treeOf
  cases hmode : e.mode with
  | none =>
    obtain ⟨n1, hn1, hc1⟩ := setModes_content root
      (modeOrder ((pre ++ e :: post).map fun e => (e.name, e.mode))) _ e _ ⟨n0, hn0, hc0⟩
    refine ⟨n1, hn1, ?_⟩
    unfold ContentIs at hc1
    unfold NodeIs
    split
    · next hd => rw [if_pos hd] at hc1; obtain ⟨m, rfl⟩ := hc1; exact ⟨m, rfl, by simp [hmode]⟩
    · next hd => rw [if_neg hd] at hc1; obtain ⟨m, rfl⟩ := hc1; exact ⟨m, rfl, by simp [hmode]⟩
  | some md =>
    -- where the entry's pending mode ends up in the order of application
    have hsplit : pendingOf ((pre ++ e :: post).map fun e => (e.name, e.mode)) =
        pendingOf (pre.map fun e => (e.name, e.mode)) ++ (pathDepth e.name, e.name, md) ::
          pendingOf (post.map fun e => (e.name, e.mode)) := by
      rw [List.map_append, pendingOf_append, List.map_cons, hmode]; rfl
    obtain ⟨A, B, hAB, hB⟩ := sortModes_split (pendingOf (pre.map fun e => (e.name, e.mode)))
      (pendingOf (post.map fun e => (e.name, e.mode))) (pathDepth e.name, e.name, md)
    have hmem : ∀ y ∈ B, y ∈ sortModes (pendingOf ((pre ++ e :: post).map fun e => (e.name, e.mode))) := by
      intro y hy; rw [hsplit, hAB]; simp [hy]
    unfold modeOrder
    rw [hsplit, hAB, List.map_append, List.map_cons, setModes_append]
    simp only [setModes]
    obtain ⟨n1, hn1, hc1⟩ := setModes_content root (A.map fun p => (p.2.1, some p.2.2)) _ e _ ⟨n0, hn0, hc0⟩
    have he := htar e (by simp)
    rw [← he] at hn1
    have h2 := setMode_at root e.name (some md) _ n1 hn1
    refine ⟨withMode e.mode n1, ?_, nodeIs_withMode hc1⟩
    rw [setModes_other, ← he, hmode]
    · exact h2
    · intro m hm
      obtain ⟨y, hy, rfl⟩ := List.mem_map.mp hm
      simp only
      -- `y` is the pending mode of some entry `e'`
      obtain ⟨hy1, hy2⟩ := mem_pendingOf.mp (mem_sortModes.mp (hmem y hy))
      obtain ⟨e', he', hye⟩ := List.mem_map.mp hy1
      simp only [Prod.mk.injEq] at hye
      rw [← hye.1, htar e' he']
      intro h
      have hteq : target e = target e' := List.append_cancel_left h
      rcases hB y hy with hpost | hlt
      · obtain ⟨hp1, _⟩ := mem_pendingOf.mp hpost
        obtain ⟨e'', he'', hye''⟩ := List.mem_map.mp hp1
        simp only [Prod.mk.injEq] at hye''
        have : target e'' = target e' := by unfold target; rw [hye''.1, hye.1]
        exact hlast e'' he'' (by rw [this, hteq])
      · simp only at hlt
        obtain ⟨p0, hp0⟩ := Option.isSome_iff_exists.mp (hall e (by simp)).enclosed
        obtain ⟨p1, hp1⟩ := Option.isSome_iff_exists.mp (hall e' he').enclosed
        rw [hy2, ← hye.1, pathDepth_eq hp0, pathDepth_eq hp1] at hlt
        unfold target at hteq
        rw [hteq] at hlt
        omega

theorem treeOf_kinds_dirs {c : Cfg} {root : Path} {es : List EntryView} (hpc : PermCfg c)
    (hDF : ∀ r, DirAt es r → FileAt es r → False) (hall : ∀ e ∈ es, EntryOK c es e) (fs : FS)
    (hi : Inv c root fs) (hk : Kinds root es fs) :
    Kinds root es (treeOf c root es fs) ∧
      ∀ e ∈ es, ∀ r ∈ dirPaths e, ∃ m, (treeOf c root es fs).lookup (root ++ r) = some (.dir m) := by
  obtain ⟨_, _, hk1, _, _⟩ := placeFiles_eq hpc hDF false es hall fs hi hk
  refine ⟨setModes_kinds _ _ hk1, ?_⟩
  intro e he r hr
  obtain ⟨m, hm⟩ := putAll_dirs hpc hDF es hall fs hi hk e he r hr
  exact setModes_dir root _ _ _ m hm

/-! ### names of ordinary components: any permission bits -/

theorem resolveFrom_normal_length (st : Path) (cs : List Comp) (h : cs.all isNormal = true) :
    (resolveFrom st cs).length = st.length + cs.length := by
  induction cs generalizing st with
  | nil => simp [resolveFrom]
  | cons x cs ih =>
    simp only [List.all_cons, Bool.and_eq_true] at h
    cases x with
    | normal s =>
      have := ih (st ++ [s]) h.2
      simp only [resolveFrom, List.foldl_cons, resolveStep, List.length_append, List.length_cons,
        List.length_nil] at this ⊢
      omega
    | rootDir => simp [isNormal] at h
    | curDir => simp [isNormal] at h
    | parentDir => simp [isNormal] at h

/-- For names made of ordinary components the directories a path is walked through are proper
ancestors of its end: no recorded mode can lock the extractor out, whatever its bits. -/
theorem unlocked_of_plain {es : List EntryView} (h : PlainNames es) : Unlocked es := by
  intro e1 _ e2 he2 _ _ _ _ _ hmem
  obtain ⟨hdot, hall⟩ := h e2 he2
  unfold searched at hmem
  rw [hdot] at hmem
  simp only [Bool.false_eq_true, if_false, List.append_nil] at hmem
  have hallr : (relComps e2.name).reverse.all isNormal = true := by
    rw [List.all_reverse]; exact hall
  have hlen2 : (target e2).length = (relComps e2.name).reverse.length := by
    unfold target resolve
    rw [resolveFrom_normal_length [] _ hall]; simp
  cases hrr : (relComps e2.name).reverse with
  | nil => rw [hrr] at hmem; simp [searchedR] at hmem
  | cons x up =>
    rw [hrr] at hmem hallr hlen2
    simp only [searchedR] at hmem
    obtain ⟨t, ht, hr⟩ := positionsR_mem hmem
    have htall : t.reverse.all isNormal = true := by
      rw [List.all_reverse]
      simp only [List.all_cons, Bool.and_eq_true] at hallr
      rw [List.all_eq_true] at hallr ⊢
      intro y hy
      exact hallr.2 y (ht.subset hy)
    have hlen1 : (target e1).length = t.length := by
      rw [hr]; unfold resolve
      rw [resolveFrom_normal_length [] _ htall]; simp
    have := ht.length_le
    rw [hlen1, hlen2]
    simp only [List.length_cons]
    omega

end ZipVerif.Model.Extract
