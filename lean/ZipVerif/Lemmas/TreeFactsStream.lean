import ZipVerif.Lemmas.TreeFacts
/-
The same declarative reading for the streaming extractor's expected tree `treeOfStream`
(all entries placed first, all modes applied afterwards).
-/

namespace ZipVerif.Model.Extract
open ZipVerif ZipVerif.Spec.Paths ZipVerif.Spec.FS ZipVerif.Spec.Tree ZipVerif.Model.Paths

/-- Kind and content of the node are what the entry describes (mode aside). -/
def ContentIs (e : EntryView) (n : Node) : Prop :=
  if isDirName e.name then ∃ m, n = .dir m else ∃ m, n = .file e.data m

theorem ContentIs.withMode {e : EntryView} {n : Node} (h : ContentIs e n) (mode : Option Nat) :
    ContentIs e (withMode mode n) := by
  unfold ContentIs at *
  split
  · next hd => rw [if_pos hd] at h; obtain ⟨m, rfl⟩ := h; exact ⟨_, rfl⟩
  · next hd => rw [if_neg hd] at h; obtain ⟨m, rfl⟩ := h; exact ⟨_, rfl⟩

theorem nodeIs_withMode {e : EntryView} {n : Node} (h : ContentIs e n) : NodeIs e (withMode e.mode n) := by
  unfold ContentIs at h
  unfold NodeIs
  split
  · next hd =>
    rw [if_pos hd] at h; obtain ⟨m, rfl⟩ := h
    cases hm : e.mode with
    | none => exact ⟨m, by simp [Extract.withMode], by simp⟩
    | some md => exact ⟨md &&& 0o7777, by simp [Extract.withMode], by simp⟩
  · next hd =>
    rw [if_neg hd] at h; obtain ⟨m, rfl⟩ := h
    cases hm : e.mode with
    | none => exact ⟨m, by simp [Extract.withMode], by simp⟩
    | some md => exact ⟨md &&& 0o7777, by simp [Extract.withMode], by simp⟩

/-! ### `setModes`, read at a path -/

theorem setModes_append (root : Path) (a b : List (Name × Option Nat)) (fs : FS) :
    setModes root (a ++ b) fs = setModes root b (setModes root a fs) := by
  induction a generalizing fs with
  | nil => rfl
  | cons m a ih => simp only [List.cons_append, setModes]; exact ih _

theorem setModes_other (root : Path) (ms : List (Name × Option Nat)) (fs : FS) (q : Path)
    (h : ∀ m ∈ ms, q ≠ resolveFrom root (relComps m.1)) : (setModes root ms fs).lookup q = fs.lookup q := by
  induction ms generalizing fs with
  | nil => rfl
  | cons m ms ih =>
    simp only [setModes]
    rw [ih _ (fun m' hm' => h m' (List.mem_cons_of_mem _ hm')), setMode_other _ _ _ _ _ (h m (by simp))]

theorem setMode_content (root : Path) (nm : Name) (mode : Option Nat) (fs : FS) (e : EntryView) (q : Path)
    (h : ∃ n, fs.lookup q = some n ∧ ContentIs e n) :
    ∃ n, (setMode root nm mode fs).lookup q = some n ∧ ContentIs e n := by
  obtain ⟨n, hn, hc⟩ := h
  by_cases hq : q = resolveFrom root (relComps nm)
  · subst hq
    exact ⟨_, setMode_at root nm mode fs n hn, hc.withMode mode⟩
  · exact ⟨n, by rw [setMode_other _ _ _ _ _ hq]; exact hn, hc⟩

theorem setModes_content (root : Path) (ms : List (Name × Option Nat)) (fs : FS) (e : EntryView) (q : Path)
    (h : ∃ n, fs.lookup q = some n ∧ ContentIs e n) :
    ∃ n, (setModes root ms fs).lookup q = some n ∧ ContentIs e n := by
  induction ms generalizing fs with
  | nil => exact h
  | cons m ms ih => simp only [setModes]; exact ih _ (setMode_content root m.1 m.2 fs e q h)

/-! ### all entries placed -/

theorem putAll_append (c : Cfg) (root : Path) (a b : List EntryView) (fs : FS) :
    putAll c root (a ++ b) fs = putAll c root b (putAll c root a fs) := by
  induction a generalizing fs with
  | nil => rfl
  | cons e a ih => simp only [List.cons_append, putAll]; exact ih _

theorem putAll_untouched {c : Cfg} {root : Path} {es : List EntryView} (hpc : PermCfg c)
    (hDF : ∀ r, DirAt es r → FileAt es r → False) (rest : List EntryView)
    (hrest : ∀ e ∈ rest, EntryOK c es e) (fs : FS) (hi : Inv c root fs) (hk : Kinds root es fs)
    {r : Path} {n : Node} (hq : fs.lookup (root ++ r) = some n) (hne : ∀ e ∈ rest, target e ≠ r) :
    (putAll c root rest fs).lookup (root ++ r) = some n := by
  induction rest generalizing fs with
  | nil => exact hq
  | cons e rest ih =>
    have he := hrest e (by simp)
    obtain ⟨_, hi1, hk1, _, _⟩ := placeEntry_eq hi hk hpc hDF he false
    obtain ⟨hbound, _, _⟩ := putEntry_facts hi hk hpc hDF he
    have hne' : root ++ r ≠ root ++ target e :=
      fun h => hne e (by simp) (List.append_cancel_left h).symm
    simp only [putAll]
    exact ih (fun e' he' => hrest e' (List.mem_cons_of_mem _ he')) _ hi1 hk1
      (hbound _ _ hq (fun _ => hne')) (fun e' he' => hne e' (List.mem_cons_of_mem _ he'))

theorem putAll_content {c : Cfg} {root : Path} {es : List EntryView} (hpc : PermCfg c)
    (hDF : ∀ r, DirAt es r → FileAt es r → False) (pre post : List EntryView) (e : EntryView)
    (hall : ∀ e' ∈ pre ++ e :: post, EntryOK c es e') (fs : FS) (hi : Inv c root fs)
    (hk : Kinds root es fs) (hlast : ∀ e' ∈ post, target e' ≠ target e) :
    ∃ n, (putAll c root (pre ++ e :: post) fs).lookup (root ++ target e) = some n ∧ ContentIs e n := by
  rw [putAll_append]
  obtain ⟨_, hi1, hk1, _, _⟩ :=
    streamFiles_eq hpc hDF pre (fun e' he' => hall e' (by simp [he'])) fs hi hk
  have he := hall e (by simp)
  obtain ⟨_, hholds, _⟩ := putEntry_facts hi1 hk1 hpc hDF he
  obtain ⟨_, hi2, hk2, _, _⟩ := placeEntry_eq hi1 hk1 hpc hDF he false
  have hn : ∃ n, (putEntry c root e (putAll c root pre fs)).lookup (root ++ target e) = some n ∧
      ContentIs e n := by
    unfold ContentIs
    split at hholds
    · next hd => obtain ⟨m, hm⟩ := hholds; exact ⟨_, hm, by rw [if_pos hd]; exact ⟨m, rfl⟩⟩
    · next hd => obtain ⟨m, hm⟩ := hholds; exact ⟨_, hm, by rw [if_neg hd]; exact ⟨m, rfl⟩⟩
  obtain ⟨n, hn1, hn2⟩ := hn
  refine ⟨n, ?_, hn2⟩
  simp only [putAll]
  exact putAll_untouched hpc hDF post (fun e' he' => hall e' (by simp [he'])) _ hi2 hk2 hn1 hlast

theorem putAll_dirs {c : Cfg} {root : Path} {es : List EntryView} (hpc : PermCfg c)
    (hDF : ∀ r, DirAt es r → FileAt es r → False) (rest : List EntryView)
    (hrest : ∀ e ∈ rest, EntryOK c es e) (fs : FS) (hi : Inv c root fs) (hk : Kinds root es fs) :
    ∀ e ∈ rest, ∀ r ∈ dirPaths e, ∃ m, (putAll c root rest fs).lookup (root ++ r) = some (.dir m) := by
  induction rest generalizing fs with
  | nil => intro e he; cases he
  | cons e0 rest ih =>
    have he0 := hrest e0 (by simp)
    obtain ⟨_, hi1, hk1, _, _⟩ := placeEntry_eq hi hk hpc hDF he0 false
    have hrest' : ∀ e' ∈ rest, EntryOK c es e' := fun e' he' => hrest e' (List.mem_cons_of_mem _ he')
    intro e he r hr
    simp only [putAll]
    rcases List.mem_cons.mp he with rfl | he
    · obtain ⟨_, _, hdirs⟩ := putEntry_facts hi hk hpc hDF he0
      obtain ⟨m, hm⟩ := hdirs r hr
      obtain ⟨_, _, _, hg, _⟩ := streamFiles_eq hpc hDF rest hrest' _ hi1 hk1
      obtain ⟨m1, hm1, _⟩ := hg.1 _ m hm
      exact ⟨m1, hm1⟩
    · exact ih hrest' _ hi1 hk1 e he r hr

/-! ### all modes applied -/

theorem setModes_inv {c : Cfg} {root : Path} {es : List EntryView} (rest : List EntryView)
    (hrest : ∀ e ∈ rest, EntryOK c es e) (fs : FS) (hi : Inv c root fs) (hk : Kinds root es fs)
    (hpl : ∀ e ∈ rest, Placed c root fs e.name) :
    Kinds root es (setModes root (rest.map fun e => (e.name, e.mode)) fs) ∧
      Grows c fs (setModes root (rest.map fun e => (e.name, e.mode)) fs) := by
  induction rest generalizing fs with
  | nil => exact ⟨hk, Grows.refl c fs⟩
  | cons e rest ih =>
    have he := hrest e (by simp)
    have hfile : isDirName e.name = false → tailDot e.name = false ∧ e.name ≠ [] := by
      intro hd
      obtain ⟨h1, h2⟩ := he.file hd
      refine ⟨h1, ?_⟩
      intro e0
      rw [e0, relComps_nil] at h2; simp [lastNormal] at h2
    obtain ⟨_, hi2, hk2, hg2⟩ :=
      applyMode_eq (mode := e.mode) hi hk (hpl e (by simp)) he.safe hfile he.perms
    obtain ⟨hk3, hg3⟩ := ih (fun e' he' => hrest e' (List.mem_cons_of_mem _ he')) _ hi2 hk2
      (fun e' he' => (hpl e' (List.mem_cons_of_mem _ he')).grows hg2)
    simp only [List.map_cons, setModes]
    exact ⟨hk3, hg2.trans hg3⟩

theorem treeOfStream_last {c : Cfg} {root : Path} {es : List EntryView} (hpc : PermCfg c)
    (hDF : ∀ r, DirAt es r → FileAt es r → False) (pre post : List EntryView) (e : EntryView)
    (hall : ∀ e' ∈ pre ++ e :: post, EntryOK c es e') (fs : FS) (hi : Inv c root fs)
    (hk : Kinds root es fs) (hlast : ∀ e' ∈ post, target e' ≠ target e) :
    ∃ n, (treeOfStream c root (pre ++ e :: post) fs).lookup (root ++ target e) = some n ∧ NodeIs e n := by
  have htar : ∀ e' ∈ pre ++ e :: post, resolveFrom root (relComps e'.name) = root ++ target e' := by
    intro e' he'
    have := resolveFrom_root_safe root (hall e' he').safe
    rwa [List.reverse_reverse] at this
  obtain ⟨n0, hn0, hc0⟩ := putAll_content hpc hDF pre post e hall fs hi hk hlast
  unfold treeOfStream
  rw [List.map_append, List.map_cons, setModes_append]
  simp only [setModes]
  obtain ⟨n1, hn1, hc1⟩ := setModes_content root (pre.map fun e => (e.name, e.mode)) _ e _ ⟨n0, hn0, hc0⟩
  have he := htar e (by simp)
  rw [← he] at hn1
  have h2 := setMode_at root e.name e.mode _ n1 hn1
  refine ⟨withMode e.mode n1, ?_, nodeIs_withMode hc1⟩
  rw [setModes_other, ← he]
  · exact h2
  · intro m hm
    obtain ⟨e', he', rfl⟩ := List.mem_map.mp hm
    simp only
    rw [htar e' (by simp [he'])]
    intro h
    exact hlast e' he' (List.append_cancel_left h).symm

theorem treeOfStream_kinds_dirs {c : Cfg} {root : Path} {es : List EntryView} (hpc : PermCfg c)
    (hDF : ∀ r, DirAt es r → FileAt es r → False) (hall : ∀ e ∈ es, EntryOK c es e) (fs : FS)
    (hi : Inv c root fs) (hk : Kinds root es fs) :
    Kinds root es (treeOfStream c root es fs) ∧
      ∀ e ∈ es, ∀ r ∈ dirPaths e, ∃ m, (treeOfStream c root es fs).lookup (root ++ r) = some (.dir m) := by
  obtain ⟨_, hi1, hk1, _, hp1⟩ := streamFiles_eq hpc hDF es hall fs hi hk
  obtain ⟨hk2, hg2⟩ := setModes_inv es hall _ hi1 hk1 hp1
  refine ⟨hk2, ?_⟩
  intro e he r hr
  obtain ⟨m, hm⟩ := putAll_dirs hpc hDF es hall fs hi hk e he r hr
  obtain ⟨m', hm', _⟩ := hg2.1 _ m hm
  exact ⟨m', hm'⟩

end ZipVerif.Model.Extract
