import ZipVerif.Lemmas.ShortWrite
/-
On a FAULT-FREE sink the model's writer steps do not look at the device's I/O call counter (helper t6w5): run
from two devices with the same bytes at the same position (`SameView`; the counters may differ) a step ends with the
same outcome, on devices that again have the same bytes at the same position.  Needed to compare a run whose raw
copies take one sink write per chunk with a run of the model, which takes one (`Tie/WriterComposeView.lean`).

The invariance of the compound steps is read off the `M`-vs-`MS` simulations of `Lemmas/ShortWrite.lean`
(`VInv.of_sim`: a computation that simulates ANY computation over the short-writing device from every pair of
same-view devices is view invariant); `writeData` and the three steps that call it are done directly.
-/

namespace ZipVerif.Model

/-- fault-free, the computation depends on the device only through its bytes and position -/
structure VInv {α} (x : M α) : Prop where
  run : ∀ d d', SameView d d' → ∃ o e e', x none d = (o, e) ∧ x none d' = (o, e') ∧ SameView e e'

namespace VInv
variable {α β : Type}

theorem of_sim {x : M α} {y : MS α} (h : Sim x y) : VInv x := by
  unfold Sim at h
  refine ⟨fun d d' hv => ?_⟩
  obtain ⟨o, e, se, h1, h2, hv1⟩ := h (fun _ => 0) d d ⟨rfl, rfl⟩
  obtain ⟨o', e', se', h1', h2', hv2⟩ := h (fun _ => 0) d' d ⟨hv.1.symm, hv.2.symm⟩
  rw [h2] at h2'
  simp only [Prod.mk.injEq] at h2'
  obtain ⟨ho, hse⟩ := h2'
  subst ho hse
  exact ⟨o, e, e', h1, h1', by rw [← hv1.1, hv2.1], by rw [← hv1.2, hv2.2]⟩

theorem pure (a : α) : VInv (Pure.pure a : M α) := ⟨fun d d' hv => ⟨.ok a, d, d', rfl, rfl, hv⟩⟩

theorem panic (s : String) : VInv (M.panic s : M α) := ⟨fun d d' hv => ⟨.panic s, d, d', rfl, rfl, hv⟩⟩

theorem bind {x : M α} {f : α → M β} (hx : VInv x) (hf : ∀ a, VInv (f a)) : VInv (x >>= f) := by
  refine ⟨fun d d' hv => ?_⟩
  obtain ⟨o, e, e', h1, h2, hv1⟩ := hx.run d d' hv
  cases o with
  | ok a =>
    obtain ⟨o2, e2, e2', g1, g2, hv2⟩ := (hf a).run e e' hv1
    exact ⟨o2, e2, e2', by rw [M.bind_apply, h1]; exact g1, by rw [M.bind_apply, h2]; exact g2, hv2⟩
  | err z => exact ⟨.err z, e, e', by rw [M.bind_apply, h1], by rw [M.bind_apply, h2], hv1⟩
  | panic z => exact ⟨.panic z, e, e', by rw [M.bind_apply, h1], by rw [M.bind_apply, h2], hv1⟩

theorem attempt_writeAll (bs : Bytes) : VInv (M.attempt (M.writeAll bs)) :=
  of_sim (Sim.wattempt (Sim.wwriteAll bs))

end VInv

syntax "vinv_step" : tactic
macro_rules
  | `(tactic| vinv_step) => `(tactic| first
    | exact VInv.pure _ | exact VInv.panic _ | exact VInv.attempt_writeAll _ | assumption
    | refine VInv.bind ?_ ?_
    | intro _
    | dsimp only
    | split)

theorem vinv_writeData (buf : Bytes) (s : WState) : VInv (writeData buf s) := by
  unfold writeData Model.io
  repeat' vinv_step

theorem vinv_startEntry (ext : WExt) (name : Bytes) (o : FileOptions) (raw) (s : WState) :
    VInv (startEntry ext name o raw s) := by
  rw [← GW.startEntry_M]; exact VInv.of_sim (GW.sim_startEntry ext name o raw s)

theorem vinv_startFileWithExtraData (ext : WExt) (name : Bytes) (o : FileOptions) (s : WState) :
    VInv (startFileWithExtraData ext name o s) := by
  rw [← GW.startFileWithExtraData_M]; exact VInv.of_sim (GW.sim_startFileWithExtraData ext name o s)

theorem vinv_endLocalStartCentral (ext : WExt) (s : WState) : VInv (endLocalStartCentral ext s) := by
  rw [← GW.endLocalStartCentral_M]; exact VInv.of_sim (GW.sim_endLocalStartCentral ext s)

theorem vinv_endExtraData (ext : WExt) (s : WState) : VInv (endExtraData ext s) := by
  rw [← GW.endExtraData_M]; exact VInv.of_sim (GW.sim_endExtraData ext s)

theorem vinv_addSymlink (ext : WExt) (name target : Bytes) (o : FileOptions) (s : WState) :
    VInv (addSymlink ext name target o s) := by
  unfold addSymlink
  repeat' (first | exact vinv_startEntry _ _ _ _ _ | exact vinv_writeData _ _ | vinv_step)

theorem vinv_rawCopy (ext : WExt) (src : FileData) (raw name : Bytes) (s : WState) :
    VInv (rawCopy ext src raw name s) := by
  unfold rawCopy
  repeat' (first | exact vinv_startEntry _ _ _ _ _ | exact vinv_writeData _ _ | vinv_step)

theorem vinv_startFileAligned (ext : WExt) (name : Bytes) (o : FileOptions) (a : UInt16) (s : WState) :
    VInv (startFileAligned ext name o a s) := by
  unfold startFileAligned
  repeat' (first | exact vinv_startFileWithExtraData _ _ _ _ | exact vinv_writeData _ _ | exact vinv_endLocalStartCentral _ _ | exact vinv_endExtraData _ _ | vinv_step)

theorem vinv_mapStep {α β} (f : α → β) (st : Step α) (s : WState) (h : VInv (st s)) :
    VInv (Props.C12.mapStep f st s) := by
  unfold Props.C12.mapStep
  exact VInv.bind h fun _ => VInv.pure _

/-- every call of the model's alphabet -/
theorem vinv_step (ext : WExt) (c : Props.C12.Call) (s : WState) : VInv (Props.C12.step ext c s) := by
  cases c with
  | startFile n o =>
    exact vinv_mapStep _ _ s (by rw [← GW.startFile_M]; exact VInv.of_sim (GW.sim_startFile ext n o s))
  | startFileWithExtraData n o => exact vinv_mapStep _ _ s (vinv_startFileWithExtraData ext n o s)
  | startFileAligned n o a => exact vinv_mapStep _ _ s (vinv_startFileAligned ext n o a s)
  | write b => exact vinv_mapStep _ _ s (vinv_writeData b s)
  | endLocalStartCentral => exact vinv_mapStep _ _ s (vinv_endLocalStartCentral ext s)
  | endExtraData => exact vinv_mapStep _ _ s (vinv_endExtraData ext s)
  | addDirectory n o =>
    exact vinv_mapStep _ _ s (by rw [← GW.addDirectory_M]; exact VInv.of_sim (GW.sim_addDirectory ext n o s))
  | addSymlink n t o => exact vinv_mapStep _ _ s (vinv_addSymlink ext n t o s)
  | setComment c => exact VInv.pure _
  | rawCopy src raw n => exact vinv_mapStep _ _ s (vinv_rawCopy ext src raw n s)
  | finish => exact vinv_mapStep _ _ s (by rw [← GW.finish_M]; exact VInv.of_sim (GW.sim_finish ext s))
  | drop => exact vinv_mapStep _ _ s (by rw [← GW.dropWriter_M]; exact VInv.of_sim (GW.sim_dropWriter ext s))

end ZipVerif.Model
