import ZipVerif.Lemmas.ReaderBounds
/-
The loop bounds of `Model.streamVisitC` are adequate (helper t6r5): every round of `visitEntries` that shows an entry
has consumed at least 30 bytes, every round of `streamCentralLoop` that yields a record at least 46 bytes, of a buffer
no model computation changes (`ReadOnly`) - so a successful run that starts on a device `d` yields at most
`(d.buf.length - d.pos) / 30` entries resp. `(d.buf.length - d.pos) / 46` records: the structural bounds
`len / 30 + 1`, `len / 46 + 1` of `streamVisitC` are never what ends its loops.

  Adv.retried / ReadOnly.retried   std's retry of an `Interrupted` call (`M.retried`) moves what the computation moves
  takeLoop / drain / drainE        consume ≥ 0 existing bytes, read-only
  visitFile_adv, visitEntry_adv    a round that shows an entry has consumed ≥ 30 existing bytes
  visitEntries_len                 `30 * l.length ≤ d.buf.length - d.pos`
  streamCentralLoop_len            `46 * l.length ≤ d.buf.length - d.pos`
  visitEntries_readOnly            the entry loop never changes the buffer
-/

namespace ZipVerif.Model
open ZipVerif

/-! ## `M.retried`, `M.attempt (M.read n)`, `M.panic` under `Adv` / `ReadOnly` -/

unseal Adv in
theorem Adv.retried {α} {p : α → Prop} {k : Nat} {m : M α} (h : Adv p k m) : Adv p k (M.retried m) := by
  intro fa d a d' hr hp
  unfold M.retried at hr
  cases fa with
  | none => exact h _ _ _ _ hr hp
  | some j =>
    dsimp only at hr
    split at hr
    · have h1 : (m none d).1 = .ok a := congrArg Prod.fst hr
      have h2 : d' = { (m none d).2 with calls := (m none d).2.calls + 1 } := (congrArg Prod.snd hr).symm
      have h3 : m none d = (.ok a, (m none d).2) := by rw [← h1]
      have := h _ _ _ _ h3 hp
      rw [h2]
      exact this
    · exact h _ _ _ _ hr hp

unseal Adv in
theorem Adv.panic {α} {p : α → Prop} {k : Nat} (s : String) : Adv p k (M.panic s : M α) := by
  intro fa d a d' hr _
  cases hr

unseal Adv in
theorem Adv.attemptRead {p : Except ZErr Bytes → Prop} (n : Nat) : Adv p 0 (M.attempt (M.read n)) := by
  intro fa d a d' hr _
  unfold M.attempt M.read M.prim at hr
  dsimp only at hr
  split at hr
  · next heq =>
    split at heq
    · cases heq
    · cases heq; cases hr
      refine ⟨rfl, Nat.le_add_right _ _, fun hh => ?_⟩
      show d.pos + ((d.buf.drop d.pos).take n).length ≤ d.buf.length
      rw [List.length_take, List.length_drop]
      omega
  · next heq =>
    split at heq
    · cases heq; cases hr
      exact ⟨rfl, Nat.le_refl _, fun hh => by dsimp only; omega⟩
    · cases heq
  · cases hr

unseal ReadOnly in
theorem ReadOnly.retried {α} {m : M α} (h : ReadOnly m) : ReadOnly (M.retried m) := by
  intro fa d
  unfold M.retried
  cases fa with
  | none => exact h _ _
  | some j =>
    dsimp only
    split
    · exact h none d
    · exact h _ _

/-! ## The consumer's reads and the drains -/

theorem takeLoop_adv' (chunk : Nat) :
    ∀ fuel want : Nat, Adv (fun _ => True) 0 (takeLoop chunk fuel want) := by
  intro fuel
  induction fuel with
  | zero => intro want; unfold takeLoop; exact Adv.pure _
  | succ n ih =>
    intro want
    unfold takeLoop
    adv [Adv.attemptRead _, ih _]

theorem takeLoop_adv {p : Nat × Option ZErr → Prop} (chunk fuel want : Nat) : Adv p 0 (takeLoop chunk fuel want) :=
  Adv.weaken (takeLoop_adv' chunk fuel want)

theorem takeLoop_readOnly (chunk : Nat) : ∀ fuel want : Nat, ReadOnly (takeLoop chunk fuel want) := by
  intro fuel
  induction fuel with
  | zero => intro want; unfold takeLoop; ro
  | succ n ih => intro want; unfold takeLoop; ro [ih _]

theorem drain_adv {p : Unit → Prop} (rem : Nat) : Adv p 0 (drain rem) := by
  unfold drain
  adv [takeLoop_adv _ _ _]

theorem drainE_adv {p : Unit → Prop} (rem : Nat) : Adv p 0 (drainE rem) := by
  unfold drainE
  adv [takeLoop_adv _ _ _]

theorem drain_readOnly (rem : Nat) : ReadOnly (drain rem) := by
  unfold drain
  ro [takeLoop_readOnly _ _ _]

theorem drainE_readOnly (rem : Nat) : ReadOnly (drainE rem) := by
  unfold drainE
  ro [takeLoop_readOnly _ _ _]

/-! ## One round of `visit` -/

/-- a `visit_file` that shows an entry has consumed ≥ 30 existing bytes (the local header) -/
theorem visitFile_adv (ext : Ext) (c : Consume) : Adv (fun o => o.isSome = true) 30 (visitFile ext c) := by
  unfold visitFile
  refine Adv.mono (k := 30 + 0) ?_ (by omega)
  refine Adv.bind (Adv.retried streamHeader_adv) (fun h hh => ?_) (fun h hh => ?_)
  · split
    · exact Adv.pure _
    · adv [takeLoop_adv _ _ _, Adv.retried (drain_adv _), Adv.panic _]
  · split
    · apply PostV.pure; simp
    · simp at hh

theorem visitFile_readOnly (ext : Ext) (c : Consume) : ReadOnly (visitFile ext c) := by
  unfold visitFile
  ro [ReadOnly.retried streamHeader_readOnly, takeLoop_readOnly _ _ _, ReadOnly.retried (drain_readOnly _)]

/-- a round of `visit` that shows an entry has consumed ≥ 30 existing bytes -/
theorem visitEntry_adv (ext : Ext) (c : Consume) : Adv (fun o => o.isSome = true) 30 (visitEntry ext c) := by
  unfold visitEntry
  refine Adv.mono (k := 30 + 0) ?_ (by omega)
  refine Adv.bind (visitFile_adv ext c) (fun h hh => ?_) (fun h hh => ?_)
  · split
    · exact Adv.pure _
    · adv [Adv.retried (drainE_adv _)]
  · split
    · apply PostV.pure; simp
    · simp at hh

theorem visitEntry_readOnly (ext : Ext) (c : Consume) : ReadOnly (visitEntry ext c) := by
  unfold visitEntry
  ro [visitFile_readOnly _ _, ReadOnly.retried (drainE_readOnly _)]

/-! ## The two loops -/

theorem visitEntries_readOnly (ext : Ext) (pat : List Consume) :
    ∀ fuel i : Nat, ReadOnly (visitEntries ext pat fuel i) := by
  intro fuel
  induction fuel with
  | zero => intro i; unfold visitEntries; ro
  | succ n ih => intro i; unfold visitEntries; ro [visitEntry_readOnly _ _, ih _]

/-- **`n` entries shown have consumed ≥ 30·n bytes of the buffer**, whatever the fuel, the pattern, the fault. -/
theorem visitEntries_len (ext : Ext) (pat : List Consume) : ∀ (fuel i : Nat) {fa : Option Nat} {d d' : Dev}
    {l : List (FileData × Bytes)}, visitEntries ext pat fuel i fa d = (.ok l, d') →
    30 * l.length ≤ d.buf.length - d.pos := by
  intro fuel
  induction fuel with
  | zero =>
    intro i fa d d' l h
    unfold visitEntries at h
    obtain ⟨rfl, _⟩ := M.pure_ok_inv h
    simp
  | succ n ih =>
    intro i fa d d' l h
    unfold visitEntries at h
    obtain ⟨e, d1, he, h⟩ := M.bind_ok_inv h
    cases e with
    | none =>
      obtain ⟨rfl, _⟩ := M.pure_ok_inv h
      simp
    | some x =>
      dsimp only at h
      obtain ⟨rest, d2, hrest, h⟩ := M.bind_ok_inv h
      obtain ⟨rfl, _⟩ := M.pure_ok_inv h
      obtain ⟨hb, hp, hl⟩ := (visitEntry_adv ext _).elim he rfl
      have hl := hl (.inr (by omega))
      have := ih (i + 1) hrest
      rw [hb] at this
      simp only [List.length_cons]
      omega

/-- **`n` further central records have consumed ≥ 46·n bytes of the buffer**. -/
theorem streamCentralLoop_len : ∀ (fuel : Nat) {fa : Option Nat} {d d' : Dev} {l : List FileData},
    streamCentralLoop fuel fa d = (.ok l, d') → 46 * l.length ≤ d.buf.length - d.pos := by
  intro fuel
  induction fuel with
  | zero =>
    intro fa d d' l h
    unfold streamCentralLoop at h
    obtain ⟨rfl, _⟩ := M.pure_ok_inv h
    simp
  | succ n ih =>
    intro fa d d' l h
    unfold streamCentralLoop at h
    obtain ⟨sig, d1, hs, h⟩ := M.bind_ok_inv h
    obtain ⟨hb1, hp1, hl1⟩ := M.readU32_ok_inv hs
    split at h
    · obtain ⟨rfl, _⟩ := M.pure_ok_inv h
      simp
    · obtain ⟨f, d2, hf, h⟩ := M.bind_ok_inv h
      obtain ⟨rest, d3, hrest, h⟩ := M.bind_ok_inv h
      obtain ⟨rfl, _⟩ := M.pure_ok_inv h
      obtain ⟨hb2, hp2, hl2⟩ := (centralHeaderInner_adv (p := fun _ => True) 0 0).elim hf trivial
      have hl2 := hl2 (.inr (by omega))
      have := ih hrest
      rw [hb2, hb1] at this
      rw [hb1] at hl2
      simp only [List.length_cons]
      omega

end ZipVerif.Model
