import ZipVerif.Lemmas.WL2Run
import ZipVerif.Lemmas.WLGood
/-
Level 2, ghost-level invariant: the entries the writer closes are readable and (up to the size
bounds) representable by construction — names are checked by `start_entry`, extra data by
`validate_extra_data`, methods by `switch_to`; an encrypted entry carries flag bit 0.
-/

namespace ZipVerif.WL
open ZipVerif ZipVerif.Model ZipVerif.Spec.Zip
open ZipVerif.Props.C12 (Call)

/-- What the writer guarantees of every entry it closes (Level 2). -/
structure EntryOk2 (e : Spec.Zip.Entry) : Prop where
  name : e.name.length ≤ 0xFFFF
  comment : e.comment = []
  lxOk : ExtraOk e.localExtra
  lxLen : e.localExtra.length + (if e.localZip64 then 20 else 0) ≤ 0xFFFF
  cxOk : ExtraOk e.centralExtra
  method : e.method ≠ 99
  desc : e.desc = .none
  z64 : e.z64 = (false, false, false)

/-- The same for the open entry. -/
structure OpenOk (o : Open2) : Prop where
  name : o.f.fileName.length ≤ 0xFFFF
  x0 : o.f.extraField = []
  meth : o.phase ≠ .localX → o.f.method.toU16 ≠ 99
  lxOk : ExtraOk o.lx
  lxLen : o.lx.length + z64len o.f ≤ 65535
  cxOk : o.phase = .data → ExtraOk o.cx
  rawX : o.raw = true → o.lx = [] ∧ o.cx = [] ∧ o.phase = .data
  encF : o.f.encrypted = o.enc.isSome

def Good2 : Ghost2 → Prop
  | .idle done _ _ => ∀ e ∈ done, EntryOk2 e
  | .opened done _ _ o => (∀ e ∈ done, EntryOk2 e) ∧ OpenOk o
  | .dead => True
  | .stuck .. => True
  | .lost => True

theorem not_refused_ok {c : Method} {l : Option Int} (h : ¬ Refused c l) : c.toU16 ≠ 99 := by
  cases c with
  | aes => exact absurd trivial h
  | unsupported v => exact absurd trivial h
  | stored => decide
  | deflated => decide
  | bzip2 => decide
  | zstd => decide

theorem OpenOk.endExtra {o o' : Open2} (h : OpenOk o) (hx : o.endExtra = .ok o') :
    OpenOk o' ∧ o'.phase = .data := by
  unfold Open2.endExtra at hx
  split at hx
  · cases hx
  next hv =>
    have hcx : ExtraOk o.cx := validate_extraOk (f := { o.f with extraField := o.cx }) hv
    have hlen : o.cx.length + z64len o.f ≤ 65535 := validate_len2 (f := { o.f with extraField := o.cx }) hv
    split at hx
    next hph =>
      split at hx
      · cases hx
      next hr =>
        cases hx
        exact ⟨⟨h.name, h.x0, fun _ => not_refused_ok hr, hcx, hlen, fun _ => hcx,
          fun hr' => ⟨(h.rawX hr').2.1, (h.rawX hr').2.1, rfl⟩, h.encF⟩, rfl⟩
    next hph =>
      cases hx
      exact ⟨⟨h.name, h.x0, fun _ => h.meth hph, h.lxOk, h.lxLen, fun _ => hcx, fun hr' => ⟨(h.rawX hr').1, (h.rawX hr').2.1, rfl⟩, h.encF⟩, rfl⟩

theorem entryOk2_closed {o : Open2} (h : OpenOk o) (hph : o.phase = .data) (dp : UInt16) (gap : Bytes)
    (plain data : Bytes) (lv : UInt16) :
    EntryOk2 (specEntry (closedRec o.f o.cx plain data) dp gap o.lx data lv) :=
  ⟨h.name, rfl, h.lxOk, h.lxLen, h.cxOk hph, h.meth (by rw [hph]; intro h'; cases h'), rfl, rfl⟩

theorem entryOk2_raw {o : Open2} (h : OpenOk o) (hph : o.phase = .data) (dp : UInt16) (gap : Bytes)
    (data : Bytes) (lv : UInt16) : EntryOk2 (specEntry o.f dp gap [] data lv) :=
  ⟨h.name, rfl, by show ExtraOk []; decide, by show ([] : Bytes).length + _ ≤ _; split <;> simp,
    by show ExtraOk o.f.extraField; rw [h.x0]; decide, h.meth (by rw [hph]; intro h'; cases h'), rfl, rfl⟩

theorem OpenOk.finData {ext : WExt} {o : Open2} (h : OpenOk o) (hph : o.phase = .data)
    {done : List Spec.Zip.Entry} (hd : ∀ e ∈ done, EntryOk2 e) {gap : Bytes}
    {es : List Spec.Zip.Entry} {gap' : Bytes} (hf : o.finData ext done gap = .ok es gap') :
    ∀ e ∈ es, EntryOk2 e := by
  unfold Open2.finData at hf
  split at hf
  · cases hf
  next dp hdp =>
    split at hf
    · cases hf
      intro e he
      rcases mem_snoc he with h1 | h1
      · exact hd e h1
      · rw [h1]; exact entryOk2_raw h hph _ _ _ _
    · split at hf
      · cases hf
      · split at hf
        · cases hf
        · split at hf
          · split at hf <;> cases hf
          · cases hf
            intro e he
            rcases mem_snoc he with h1 | h1
            · exact hd e h1
            · rw [h1]; exact entryOk2_closed h hph _ _ _ _ _

theorem Good2.fin {ext : WExt} {g : Ghost2} (hG : Good2 g) {es : List Spec.Zip.Entry} {gap : Bytes}
    (hf : g.fin ext = .ok es gap) : ∀ e ∈ es, EntryOk2 e := by
  cases g with
  | dead => cases hf
  | stuck ss n wf => cases hf
  | lost => cases hf
  | idle done gap0 c => cases hf; exact hG
  | opened done gap0 c o =>
    obtain ⟨hd, ho⟩ := hG
    have hf' : o.fin ext done gap0 = .ok es gap := hf
    unfold Open2.fin at hf'
    cases hph : o.phase with
    | data => rw [hph] at hf'; exact ho.finData hph hd hf'
    | localX =>
      rw [hph] at hf'
      dsimp only at hf'
      cases hx : o.endExtra with
      | ok o' => rw [hx] at hf'; exact (ho.endExtra hx).1.finData (ho.endExtra hx).2 hd hf'
      | unchanged => rw [hx] at hf'; cases hf'
      | dead => rw [hx] at hf'; cases hf'
    | centralX =>
      rw [hph] at hf'
      dsimp only at hf'
      cases hx : o.endExtra with
      | ok o' => rw [hx] at hf'; exact (ho.endExtra hx).1.finData (ho.endExtra hx).2 hd hf'
      | unchanged => rw [hx] at hf'; cases hf'
      | dead => rw [hx] at hf'; cases hf'

/-- A call that starts an entry keeps the ghost good when what it makes of the new record is good. -/
theorem Good2.startG2 {ext : WExt} {g : Ghost2} (hG : Good2 g) (name : Bytes) (o : FileOptions)
    (raw : Option (UInt32 × UInt64 × UInt64))
    (after : List Spec.Zip.Entry → Bytes → Bytes → FileData → Ghost2)
    (hafter : ∀ es gap c hs, name.length ≤ 65535 → (∀ e ∈ es, EntryOk2 e) →
      Good2 (after es gap c (mkRec name o raw hs 0))) :
    Good2 (startG2 ext g name o raw after) := by
  unfold WL.startG2
  split
  · exact hG
  next hn =>
  split
  · exact hG
  · trivial
  · trivial
  · trivial
  next es gap hf =>
    split
    · trivial
    next f dp hsr =>
      rw [startRec2_rec hsr]
      exact hafter es gap _ _ (by omega) (hG.fin hf)

theorem openOk_new (name : Bytes) (o : FileOptions) (raw : Option (UInt32 × UInt64 × UInt64)) (hs : Nat)
    (hn : name.length ≤ 65535) (israw : Bool) (plain : Bytes) (wf : Bool) (ph : Phase)
    (hm : ph ≠ .localX → o.method.toU16 ≠ 99) (hrp : israw = true → ph = .data) :
    OpenOk (newOpen (mkRec name o raw hs 0) israw plain wf o.encryptWith ph) :=
  ⟨hn, rfl, hm, by show ExtraOk []; decide, by show ([] : Bytes).length + _ ≤ _; unfold z64len; split <;> simp,
    fun _ => by show ExtraOk []; decide, fun h' => ⟨rfl, rfl, hrp h'⟩, rfl⟩

/-- `Level2` plus what the reader needs of a raw copy's source: not a WinZip-AES entry. -/
def Level2R (c : Call) : Prop :=
  Level2 c ∧ match c with
    | .rawCopy src _ _ => src.method.toU16 ≠ 99
    | _ => True

instance : DecidablePred Level2R := fun c => by
  unfold Level2R
  cases c <;> infer_instance

theorem OpenOk.setCx {o : Open2} (h : OpenOk o) (hph : o.phase ≠ .data) (x : Bytes) :
    OpenOk { o with cx := x } :=
  ⟨h.name, h.x0, h.meth, h.lxOk, h.lxLen, fun h' => absurd h' hph,
    fun hr => absurd (h.rawX hr).2.2 hph, h.encF⟩

theorem OpenOk.not_raw {o : Open2} (h : OpenOk o) (hph : o.phase ≠ .data) : o.raw = false := by
  cases hr : o.raw
  · rfl
  · exact absurd (h.rawX hr).2.2 hph

theorem OpenOk.endLocal {o o' : Open2} (h : OpenOk o) (hph : o.phase ≠ .data)
    (hx : o.endLocal = .ok o') : OpenOk o' := by
  unfold Open2.endLocal at hx
  split at hx
  next o1 hx1 =>
    cases hx
    obtain ⟨h1, hp1⟩ := h.endExtra hx1
    have hraw : o1.raw = false := by rw [(endExtra_fields hx1).2.1]; exact h.not_raw hph
    refine ⟨h1.name, h1.x0, fun _ => h1.meth (by rw [hp1]; intro h'; cases h'), h1.lxOk, h1.lxLen,
      (fun h' => by cases h'), fun hr => ?_, h1.encF⟩
    have : o1.raw = true := hr
    rw [hraw] at this; cases this
  · cases hx
  · cases hx

theorem good2_step (ext : WExt) (g : Ghost2) (c : Call) (hc : Level2R c) (out : Out (Option Nat))
    (hG : Good2 g) : Good2 (ghostStep2 ext g c out) := by
  obtain ⟨⟨ha, hx⟩, hr⟩ := hc
  unfold ghostStep2
  split
  · trivial
  cases c with
  | startFile n o =>
    apply hG.startG2
    intro es gap c0 hs hn hes
    split
    next hok =>
      have hw : writable (fileOpts o).method = true := by
        cases h1 : okO out <;> rw [h1] at hok <;> simp at hok
        exact hok
      exact ⟨hes, openOk_new n (fileOpts o) none hs hn false [] true .data (fun _ => writable_not_aes hw)
        (fun h' => by cases h')⟩
    · trivial
  | addDirectory n o =>
    apply hG.startG2
    intro es gap c0 hs hn hes
    split
    · exact ⟨hes, openOk_new (dirName n) (dirOpts o) none hs hn false [] false .data
        (fun _ => by show Method.stored.toU16 ≠ 99; decide) (fun h' => by cases h')⟩
    · trivial
  | addSymlink n t o =>
    apply hG.startG2
    intro es gap c0 hs hn hes
    split
    · exact ⟨hes, openOk_new n (linkOpts o) none hs hn false t false .data
        (fun _ => by show Method.stored.toU16 ≠ 99; decide) (fun h' => by cases h')⟩
    · trivial
  | rawCopy src raw n =>
    apply hG.startG2
    intro es gap c0 hs hn hes
    split
    · exact ⟨hes, openOk_new n (rawOpts src) (rawVals src) hs hn true raw true .data (fun _ => hr)
        (fun _ => rfl)⟩
    · trivial
  | startFileWithExtraData n o =>
    apply hG.startG2
    intro es gap c0 hs hn hes
    have := openOk_new n (fileOpts o) none hs hn false [] true .localX (fun h' => absurd rfl h')
      (fun h' => by cases h')
    have henc : (fileOpts o).encryptWith = none := ha.2
    rw [henc] at this
    exact ⟨hes, this⟩
  | startFileAligned n o a =>
    apply hG.startG2
    intro es gap c0 hs hn hes
    have h1 := openOk_new n (fileOpts o) none hs hn false [] true .localX (fun h' => absurd rfl h')
      (fun h' => by cases h')
    have henc : (fileOpts o).encryptWith = none := ha.2
    rw [henc] at h1
    have hph1 : (newOpen (mkRec n (fileOpts o) none hs 0) false [] true none .localX).phase ≠ .data := by
      intro h'; cases h'
    unfold alignedAfter
    dsimp only
    split
    · have h2 := h1.setCx hph1 (padRecord ((a.toNat -
        ((newOpen (mkRec n (fileOpts o) none hs 0) false [] true none .localX).dataStart es gap + 4) % a.toNat) % a.toNat))
      split
      · exact ⟨hes, h2⟩
      · trivial
      next o3 hx3 =>
        have h3 := h2.endLocal hph1 hx3
        split
        next o4 hx4 => exact ⟨hes, (h3.endExtra hx4).1⟩
        · exact ⟨hes, h3⟩
        · trivial
    · split
      next o4 hx4 => exact ⟨hes, (h1.endExtra hx4).1⟩
      · exact ⟨hes, h1⟩
      · trivial
  | write b =>
    cases g with
    | dead => trivial
    | stuck ss n wf =>
      show Good2 (if wf = true then (if okO out = true then
        (if ss + (n + b.length) < 18446744073709551616 then Ghost2.stuck ss (n + b.length) wf else .lost)
        else .dead) else .stuck ss n wf)
      split
      · split
        · split <;> trivial
        · trivial
      · trivial
    | lost => trivial
    | idle done gap c0 => exact hG
    | opened done gap c0 o =>
      obtain ⟨hd, ho⟩ := hG
      show Good2 (match o.phase with
        | .data => if o.wf then (if okO out then .opened done gap c0 (o.writeData b) else .dead)
            else .opened done gap c0 o
        | _ => .opened done gap c0 { o with cx := o.cx ++ b })
      split
      · split
        · split
          · refine ⟨hd, ?_⟩
            unfold Open2.writeData
            split
            · exact ⟨ho.name, ho.x0, ho.meth, ho.lxOk, ho.lxLen, ho.cxOk, ho.rawX, ho.encF⟩
            · exact ⟨ho.name, ho.x0, ho.meth, ho.lxOk, ho.lxLen, ho.cxOk, ho.rawX, ho.encF⟩
          · trivial
        · exact ⟨hd, ho⟩
      next hph => exact ⟨hd, ho.setCx (fun h' => hph h') _⟩
  | endExtraData =>
    cases g with
    | dead => trivial
    | stuck ss n wf => trivial
    | lost => trivial
    | idle done gap c0 => exact hG
    | opened done gap c0 o =>
      obtain ⟨hd, ho⟩ := hG
      show Good2 (if o.phase = .data then _ else _)
      split
      · exact ⟨hd, ho⟩
      · split
        next o' hx' => exact ⟨hd, (ho.endExtra hx').1⟩
        · exact ⟨hd, ho⟩
        · trivial
  | endLocalStartCentral =>
    cases g with
    | dead => trivial
    | stuck ss n wf => trivial
    | lost => trivial
    | idle done gap c0 => exact hG
    | opened done gap c0 o =>
      obtain ⟨hd, ho⟩ := hG
      show Good2 (if o.phase = .data then _ else _)
      split
      · exact ⟨hd, ho⟩
      next hph =>
        split
        next o' hx' => exact ⟨hd, ho.endLocal hph hx'⟩
        · exact ⟨hd, ho⟩
        · trivial
  | setComment c' =>
    cases g with
    | dead => trivial
    | stuck ss n wf => trivial
    | lost => trivial
    | idle done gap c0 => exact hG
    | opened done gap c0 o => exact hG
  | finish => exact hx.elim
  | drop => exact hx.elim

theorem good2_run (ext : WExt) : ∀ (calls : List Call) (outs : List (Out (Option Nat))) (g : Ghost2),
    (∀ c ∈ calls, Level2R c) → Good2 g → Good2 (ghostOf2 ext g calls outs)
  | [], outs, g, _, hG => by cases outs <;> exact hG
  | c :: cs, [], g, _, hG => hG
  | c :: cs, o :: os, g, hc, hG =>
    good2_run ext cs os _ (fun c' h' => hc c' (by simp [h'])) (good2_step ext g c (hc c (by simp)) o hG)

/-! ### What closing an entry produces; alignment; encryption -/

theorem endExtra_localX {o o' : Open2} (hph : o.phase = .localX) (hx : o.endExtra = .ok o') :
    o' = { o with lx := o.cx, phase := .data } := by
  unfold Open2.endExtra at hx
  split at hx
  · cases hx
  · rw [hph] at hx
    dsimp only at hx
    split at hx
    · cases hx
    · cases hx; rfl

theorem endExtra_centralX {o o' : Open2} (hph : o.phase = .centralX) (hx : o.endExtra = .ok o') :
    o' = { o with phase := .data } := by
  unfold Open2.endExtra at hx
  split at hx
  · cases hx
  · rw [hph] at hx
    cases hx; rfl

theorem padRecord_length (pad : Nat) : (padRecord pad).length = 4 + pad := by
  simp [padRecord]; omega

/-- **`start_file_aligned` aligns the data**: when the call leaves the new entry in its data phase (it
succeeded), the position where the entry's data start is a multiple of the alignment. -/
theorem aligned_dataStart (a : UInt16) (es : List Spec.Zip.Entry) (gap c : Bytes) (f : FileData)
    (o4 : Open2) (ha : 1 ≤ a.toNat) (h : alignedAfter a es gap c f = .opened es gap c o4)
    (hph : o4.phase = .data) : (o4.dataStart es gap) % a.toNat = 0 ∧ o4.f = f ∧ o4.raw = false := by
  unfold alignedAfter at h
  dsimp only at h
  split at h
  next hpad =>
    split at h
    · cases h; cases hph
    · cases h
    next o3 hx3 =>
      unfold Open2.endLocal at hx3
      split at hx3
      next o2' hx2 =>
        cases hx3
        have e2 := endExtra_localX rfl hx2
        split at h
        next o4' hx4 =>
          cases h
          have e4 := endExtra_centralX rfl hx4
          subst e4 e2
          refine ⟨?_, rfl, rfl⟩
          show (_ + _ + hdrLen f + (padRecord _).length) % a.toNat = 0
          rw [padRecord_length]
          have := Model.pad_aligned ((localsBytes es).length + gap.length + hdrLen f) a.toNat (by omega)
          have e : Open2.dataStart es gap (newOpen f false [] true none .localX) =
              (localsBytes es).length + gap.length + hdrLen f := by
            simp [Open2.dataStart, newOpen]
          rw [e]
          rw [← this]
          congr 1
          omega
        · cases h; cases hph
        · cases h
      · cases hx3
      · cases hx3
  next hpad =>
    split at h
    next o4' hx4 =>
      cases h
      have e4 := endExtra_localX rfl hx4
      subst e4
      refine ⟨?_, rfl, rfl⟩
      have e : Open2.dataStart es gap (newOpen f false [] true none .localX) =
          (localsBytes es).length + gap.length + hdrLen f := by
        simp [Open2.dataStart, newOpen]
      rw [e] at hpad
      show (_ + _ + hdrLen f + ([] : Bytes).length) % a.toNat = 0
      simp only [List.length_nil, Nat.add_zero]
      by_cases h1 : a.toNat > 1
      · exact Classical.not_not.mp (fun hne => hpad ⟨h1, hne⟩)
      · have : a.toNat = 1 := by omega
        rw [this]; exact Nat.mod_one _
    · cases h; cases hph
    · cases h

/-- **The entry closed from an open entry** (not a raw copy, data phase): its fields, and where its data
lie — at the entry's data start. -/
theorem finData_entry {ext : WExt} {o : Open2} (hraw : o.raw = false)
    {done : List Spec.Zip.Entry} {gap : Bytes} {es : List Spec.Zip.Entry} {gap' : Bytes}
    (hf : o.finData ext done gap = .ok es gap') :
    ∃ dp, o.f.time.datepart = some dp ∧ gap' = [] ∧
      es = done ++ [specEntry (closedRec o.f o.cx o.plain (dataOf2 ext o.f o.enc o.plain)) dp gap o.lx
        (dataOf2 ext o.f o.enc o.plain) o.f.versionNeeded] := by
  unfold Open2.finData at hf
  split at hf
  · cases hf
  next dp hdp =>
    rw [hraw] at hf
    simp only [Bool.false_eq_true, if_false] at hf
    split at hf
    · cases hf
    · split at hf
      · cases hf
      · split at hf
        · split at hf <;> cases hf
        · cases hf
          exact ⟨dp, hdp, rfl, rfl⟩

/-- position of the data of `specEntry …` behind the previous records: gap, header, local extra data -/
theorem specEntry_data_offset (f : FileData) (dp : UInt16) (gap lx data : Bytes) (lv : UInt16) :
    (specEntry f dp gap lx data lv).gapBefore.length + (localRecord (specEntry f dp gap lx data lv)).length =
      gap.length + hdrLen f + lx.length := by
  rw [localRecord_length]
  unfold Entry.localExtraAll hdrLen z64len
  show gap.length + (30 + f.fileName.length + ((if f.largeFile then _ else _) ++ lx).length) = _
  cases f.largeFile <;> simp <;> omega

/-- **Encrypted entries**: the stored bytes are `zcEncrypt pw (11 zero bytes ++ [crc >>> 24] ++ payload)`
for the (compressed) plaintext `payload`, the recorded CRC is the plaintext's, and flag bit 0 is set in
the flag word both header writers emit. -/
theorem encrypted_entry (ext : WExt) (f : FileData) (cx plain : Bytes) (pw : Bytes) (dp : UInt16)
    (gap lx : Bytes) (lv : UInt16) (henc : f.encrypted = true) :
    let e := specEntry (closedRec f cx plain (dataOf2 ext f (some pw) plain)) dp gap lx
      (dataOf2 ext f (some pw) plain) lv
    e.data = ext.zcEncrypt pw (zcPlain (Spec.Crc32.crc32 plain) (dataOf ext f plain)) ∧
    e.crc = Spec.Crc32.crc32 plain ∧ e.usize = UInt64.ofNat plain.length ∧
    (e.flagsOut &&& 1 == 1) = true := by
  refine ⟨rfl, rfl, rfl, ?_⟩
  show (flagOf (closedRec f cx plain _) &&& 1 == 1) = true
  unfold flagOf
  have : (closedRec f cx plain (dataOf2 ext f (some pw) plain)).encrypted = true := henc
  rw [this]
  cases isAscii (closedRec f cx plain (dataOf2 ext f (some pw) plain)).fileName <;> decide

/-! ### From `EntryOk2` to the reader's hypotheses -/

theorem EntryOk2.readable {e : Spec.Zip.Entry} (h : EntryOk2 e) : e.Readable := ⟨h.cxOk, h.method⟩

theorem EntryOk2.fits {e : Spec.Zip.Entry} (h : EntryOk2 e) (hd : e.data.length < 2 ^ 63)
    (hu : e.usize.toNat < 2 ^ 63) (hcx : e.centralExtra.length + 28 ≤ 0xFFFF) : e.Fits :=
  ⟨h.name, by rw [h.comment]; decide, h.lxLen, hcx, hd, hu⟩

theorem layout_fits_readable2 {es : List Spec.Zip.Entry} (gap c t : Bytes) (hes : ∀ e ∈ es, EntryOk2 e)
    (hc : c.length ≤ 65535) (hsize : (build (layoutOf es gap c t)).length < 2 ^ 63)
    (hu : ∀ e ∈ es, e.usize.toNat < 2 ^ 63) (hcx : ∀ e ∈ es, e.centralExtra.length + 28 ≤ 0xFFFF) :
    (layoutOf es gap c t).Fits ∧ (layoutOf es gap c t).Readable := by
  refine ⟨⟨?_, hc, hsize⟩, fun e he => (hes e he).readable⟩
  intro e he
  refine (hes e he).fits ?_ (hu e he) (hcx e he)
  have h1 := data_le_locals (show e ∈ es from he)
  have h2 : (localsBytes es).length ≤ (build (layoutOf es gap c t)).length := by
    simp only [build, layoutOf, List.length_append]
    omega
  omega

end ZipVerif.WL
