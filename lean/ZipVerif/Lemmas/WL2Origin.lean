import ZipVerif.Lemmas.WL2Good
import ZipVerif.Lemmas.WLOrigin
/-
Level 2: where each closed entry of the ghost comes from (the analogue of `Lemmas/WLOrigin.lean` for
`Ghost2`): the record pushed for it, its password, local and central extra data and the plaintext
the `write` calls delivered.
-/

namespace ZipVerif.WL
open ZipVerif ZipVerif.Model ZipVerif.Spec.Zip
open ZipVerif.Props.C12 (Call)

/-- Where a closed entry comes from (Level 2). -/
inductive Origin2
  | old
  /-- started through the writer: record, ZipCrypto password (if any), local extra data, central extra
  data, plaintext -/
  | written (f : FileData) (enc : Option Bytes) (lx cx plain : Bytes)
  | raw (f : FileData) (data : Bytes)

def OriginRel2 (ext : WExt) : Origin2 → Spec.Zip.Entry → Prop
  | .old, _ => True
  | .written f enc lx cx plain, e => ∃ dp gap, f.time.datepart = some dp ∧
      e = specEntry (closedRec f cx plain (dataOf2 ext f enc plain)) dp gap lx (dataOf2 ext f enc plain)
        f.versionNeeded
  | .raw f data, e => ∃ dp gap, f.time.datepart = some dp ∧
      e = specEntry f dp gap [] data f.versionNeeded

/-- the open entry as `finish_file` closes it (after the implicit `end_extra_data`) -/
def Open2.closing (o : Open2) : Open2 :=
  match o.phase with
  | .data => o
  | _ => match o.endExtra with
    | .ok o' => o'
    | _ => o

def Open2.origin (o : Open2) : Origin2 :=
  if o.closing.raw then .raw o.closing.f o.closing.plain
  else .written o.closing.f o.closing.enc o.closing.lx o.closing.cx o.closing.plain

def Ghost2.done : Ghost2 → List Spec.Zip.Entry
  | .idle d _ _ => d
  | .opened d _ _ _ => d
  | _ => []

def Ghost2.alive : Ghost2 → Prop
  | .idle .. => True
  | .opened .. => True
  | _ => False

def Ghost2.closeOrigins (g : Ghost2) (org : List Origin2) : List Origin2 :=
  match g with
  | .opened _ _ _ o => org ++ [o.origin]
  | _ => org

def orgNext2 (g g' : Ghost2) (org : List Origin2) : List Origin2 :=
  match g, g' with
  | .opened D _ _ o, .opened D' _ _ _ => if D'.length = D.length then org else org ++ [o.origin]
  | _, _ => org

def originStep2 (ext : WExt) (g : Ghost2) (c : Call) (out : Out (Option Nat)) (org : List Origin2) :
    List Origin2 := orgNext2 g (ghostStep2 ext g c out) org

def originsOf2 (ext : WExt) : Ghost2 → List Origin2 → List Call → List (Out (Option Nat)) → List Origin2
  | g, org, c :: cs, o :: os => originsOf2 ext (ghostStep2 ext g c o) (originStep2 ext g c o org) cs os
  | _, org, _, _ => org

def Traced2 (ext : WExt) (g : Ghost2) (org : List Origin2) : Prop :=
  g.alive → Forall2 (OriginRel2 ext) org g.done

theorem finData_origin {ext : WExt} {o : Open2} {D : List Spec.Zip.Entry} {gap : Bytes}
    {es : List Spec.Zip.Entry} {gap' : Bytes} (h : o.finData ext D gap = .ok es gap') :
    ∃ e, es = D ++ [e] ∧ OriginRel2 ext (if o.raw then .raw o.f o.plain
      else .written o.f o.enc o.lx o.cx o.plain) e := by
  cases hraw : o.raw with
  | false =>
    obtain ⟨dp, hdp, _, hes⟩ := finData_entry hraw h
    exact ⟨_, hes, dp, gap, hdp, rfl⟩
  | true =>
    unfold Open2.finData at h
    split at h
    · cases h
    next dp hdp =>
      rw [hraw] at h
      simp only [if_true] at h
      cases h
      exact ⟨_, rfl, dp, gap, hdp, rfl⟩

theorem fin_opened {ext : WExt} {D : List Spec.Zip.Entry} {gap c : Bytes} {o : Open2}
    {es : List Spec.Zip.Entry} {gap' : Bytes}
    (h : (Ghost2.opened D gap c o).fin ext = .ok es gap') :
    ∃ e, es = D ++ [e] ∧ OriginRel2 ext o.origin e := by
  have h' : o.fin ext D gap = .ok es gap' := h
  unfold Open2.fin at h'
  unfold Open2.origin Open2.closing
  cases hph : o.phase with
  | data => rw [hph] at h'; exact finData_origin h'
  | localX =>
    rw [hph] at h'
    dsimp only at h' ⊢
    cases hx : o.endExtra with
    | ok o' => rw [hx] at h'; exact finData_origin h'
    | unchanged => rw [hx] at h'; cases h'
    | dead => rw [hx] at h'; cases h'
  | centralX =>
    rw [hph] at h'
    dsimp only at h' ⊢
    cases hx : o.endExtra with
    | ok o' => rw [hx] at h'; exact finData_origin h'
    | unchanged => rw [hx] at h'; cases h'
    | dead => rw [hx] at h'; cases h'

theorem fin_prefix {ext : WExt} {g : Ghost2} {es : List Spec.Zip.Entry} {gap : Bytes}
    (h : g.fin ext = .ok es gap) : g.done <+: es := by
  cases g with
  | dead => cases h
  | stuck ss n wf => cases h
  | lost => cases h
  | idle D gap0 c0 => cases h; exact List.prefix_refl _
  | opened D gap0 c0 o =>
    obtain ⟨e, hes, _⟩ := fin_opened h
    subst hes
    exact List.prefix_append _ _

theorem fin_alive {ext : WExt} {g : Ghost2} {es : List Spec.Zip.Entry} {gap : Bytes}
    (h : g.fin ext = .ok es gap) : g.alive := by
  cases g <;> first | trivial | cases h

/-- what a start call makes of the ghost -/
theorem startG2_cases (ext : WExt) (g : Ghost2) (name : Bytes) (o : FileOptions)
    (raw : Option (UInt32 × UInt64 × UInt64))
    (after : List Spec.Zip.Entry → Bytes → Bytes → FileData → Ghost2) :
    startG2 ext g name o raw after = g ∨ ¬ (startG2 ext g name o raw after).alive ∨
    ∃ es gap f, g.fin ext = .ok es gap ∧ startG2 ext g name o raw after = after es gap g.cmt f := by
  unfold startG2
  split
  · exact Or.inl rfl
  split
  · exact Or.inl rfl
  · exact Or.inr (Or.inl fun h => h)
  · exact Or.inr (Or.inl fun h => h)
  · exact Or.inr (Or.inl fun h => h)
  next es gap hf =>
    split
    · exact Or.inr (Or.inl fun h => h)
    next f dp _ => exact Or.inr (Or.inr ⟨es, gap, f, hf, rfl⟩)

theorem alignedAfter_cases (a : UInt16) (es : List Spec.Zip.Entry) (gap c : Bytes) (f : FileData) :
    alignedAfter a es gap c f = .dead ∨ ∃ o', alignedAfter a es gap c f = .opened es gap c o' := by
  unfold alignedAfter
  dsimp only
  split
  · split
    · exact Or.inr ⟨_, rfl⟩
    · exact Or.inl rfl
    · split
      · exact Or.inr ⟨_, rfl⟩
      · exact Or.inr ⟨_, rfl⟩
      · exact Or.inl rfl
  · split
    · exact Or.inr ⟨_, rfl⟩
    · exact Or.inr ⟨_, rfl⟩
    · exact Or.inl rfl

/-- the three ways a call can change the ghost, as far as its closed entries are concerned -/
def StepShape (ext : WExt) (g g' : Ghost2) : Prop :=
  ¬ g'.alive ∨ (g'.alive ∧ g.alive ∧ g'.done = g.done) ∨
  ∃ es gap c' o', g.fin ext = .ok es gap ∧ g' = .opened es gap c' o'

theorem StepShape.self (ext : WExt) (g : Ghost2) : StepShape ext g g := by
  by_cases ha : g.alive
  · exact Or.inr (Or.inl ⟨ha, ha, rfl⟩)
  · exact Or.inl ha

theorem write_shape (ext : WExt) (g : Ghost2) (b : Bytes) (ok : Bool) : StepShape ext g (g.write b ok) := by
  cases g with
  | dead => exact Or.inl fun h => h
  | lost => exact Or.inl fun h => h
  | stuck ss n wf =>
    left
    show ¬ (if wf = true then (if ok = true then
      (if ss + (n + b.length) < 18446744073709551616 then Ghost2.stuck ss (n + b.length) wf else .lost)
      else .dead) else .stuck ss n wf).alive
    split
    · split
      · split <;> exact fun h => h
      · exact fun h => h
    · exact fun h => h
  | idle D gap c0 => exact Or.inr (Or.inl ⟨trivial, trivial, rfl⟩)
  | opened D gap c0 o =>
    show StepShape ext _ (match o.phase with
      | .data => if o.wf then (if ok then Ghost2.opened D gap c0 (o.writeData b) else .dead)
          else .opened D gap c0 o
      | _ => .opened D gap c0 { o with cx := o.cx ++ b })
    split
    · split
      · split
        · exact Or.inr (Or.inl ⟨trivial, trivial, rfl⟩)
        · exact Or.inl fun h => h
      · exact Or.inr (Or.inl ⟨trivial, trivial, rfl⟩)
    · exact Or.inr (Or.inl ⟨trivial, trivial, rfl⟩)

theorem endExtraCall_shape (ext : WExt) (g : Ghost2) : StepShape ext g g.endExtraCall := by
  cases g with
  | dead => exact Or.inl fun h => h
  | lost => exact Or.inl fun h => h
  | stuck ss n wf => exact Or.inl fun h => h
  | idle D gap c0 => exact Or.inr (Or.inl ⟨trivial, trivial, rfl⟩)
  | opened D gap c0 o =>
    show StepShape ext _ (if o.phase = .data then Ghost2.opened D gap c0 o else
      match o.endExtra with
      | .ok o' => .opened D gap c0 o'
      | .unchanged => .opened D gap c0 o
      | .dead => .dead)
    split
    · exact Or.inr (Or.inl ⟨trivial, trivial, rfl⟩)
    · split
      · exact Or.inr (Or.inl ⟨trivial, trivial, rfl⟩)
      · exact Or.inr (Or.inl ⟨trivial, trivial, rfl⟩)
      · exact Or.inl fun h => h

theorem endLocalCall_shape (ext : WExt) (g : Ghost2) : StepShape ext g g.endLocalCall := by
  cases g with
  | dead => exact Or.inl fun h => h
  | lost => exact Or.inl fun h => h
  | stuck ss n wf => exact Or.inl fun h => h
  | idle D gap c0 => exact Or.inr (Or.inl ⟨trivial, trivial, rfl⟩)
  | opened D gap c0 o =>
    show StepShape ext _ (if o.phase = .data then Ghost2.opened D gap c0 o else
      match o.endLocal with
      | .ok o' => .opened D gap c0 o'
      | .unchanged => .opened D gap c0 o
      | .dead => .dead)
    split
    · exact Or.inr (Or.inl ⟨trivial, trivial, rfl⟩)
    · split
      · exact Or.inr (Or.inl ⟨trivial, trivial, rfl⟩)
      · exact Or.inr (Or.inl ⟨trivial, trivial, rfl⟩)
      · exact Or.inl fun h => h

theorem setComment_shape (ext : WExt) (g : Ghost2) (c' : Bytes) : StepShape ext g (g.setComment c') := by
  cases g with
  | dead => exact Or.inl fun h => h
  | lost => exact Or.inl fun h => h
  | stuck ss n wf => exact Or.inl fun h => h
  | idle D gap c0 => exact Or.inr (Or.inl ⟨trivial, trivial, rfl⟩)
  | opened D gap c0 o => exact Or.inr (Or.inl ⟨trivial, trivial, rfl⟩)

theorem startG2_shape (ext : WExt) (g : Ghost2) (name : Bytes) (o : FileOptions)
    (raw : Option (UInt32 × UInt64 × UInt64))
    (after : List Spec.Zip.Entry → Bytes → Bytes → FileData → Ghost2)
    (hafter : ∀ es gap c f, after es gap c f = .dead ∨ ∃ o', after es gap c f = .opened es gap c o') :
    StepShape ext g (startG2 ext g name o raw after) := by
  rcases startG2_cases ext g name o raw after with h | h | ⟨es, gap, f, hf, h⟩
  · rw [h]; exact StepShape.self ext g
  · exact Or.inl h
  · rcases hafter es gap g.cmt f with h2 | ⟨o', h2⟩
    · left; rw [h, h2]; exact fun h' => h'
    · right; right; exact ⟨es, gap, g.cmt, o', hf, by rw [h, h2]⟩

/-- **What one call does to the closed entries of the ghost.** -/
theorem ghostStep2_cases (ext : WExt) (g : Ghost2) (c : Call) (out : Out (Option Nat)) :
    StepShape ext g (ghostStep2 ext g c out) := by
  unfold ghostStep2
  split
  · exact Or.inl fun h => h
  cases c with
  | startFile n o =>
    apply startG2_shape
    intro es gap c f
    split
    · exact Or.inr ⟨_, rfl⟩
    · exact Or.inl rfl
  | addDirectory n o =>
    apply startG2_shape
    intro es gap c f
    split
    · exact Or.inr ⟨_, rfl⟩
    · exact Or.inl rfl
  | addSymlink n t o =>
    apply startG2_shape
    intro es gap c f
    split
    · exact Or.inr ⟨_, rfl⟩
    · exact Or.inl rfl
  | rawCopy src raw n =>
    apply startG2_shape
    intro es gap c f
    split
    · exact Or.inr ⟨_, rfl⟩
    · exact Or.inl rfl
  | startFileWithExtraData n o =>
    apply startG2_shape
    intro es gap c f
    exact Or.inr ⟨_, rfl⟩
  | startFileAligned n o a =>
    apply startG2_shape
    intro es gap c f
    exact alignedAfter_cases a es gap c f
  | write b => exact write_shape ext g b _
  | endExtraData => exact endExtraCall_shape ext g
  | endLocalStartCentral => exact endLocalCall_shape ext g
  | setComment c' => exact setComment_shape ext g c'
  | finish => exact StepShape.self ext g
  | drop => exact StepShape.self ext g

theorem traced2_step (ext : WExt) (g : Ghost2) (c : Call) (out : Out (Option Nat)) (org : List Origin2)
    (hT : Traced2 ext g org) : Traced2 ext (ghostStep2 ext g c out) (originStep2 ext g c out org) := by
  unfold originStep2 orgNext2
  intro ha'
  rcases ghostStep2_cases ext g c out with h | ⟨_, ha, h⟩ | ⟨es, gap, c', o', hf, h⟩
  · exact absurd ha' h
  · have hF := hT ha
    rw [h]
    cases g with
    | dead => exact ha.elim
    | stuck ss n wf => exact ha.elim
    | lost => exact ha.elim
    | idle D gap0 c0 => exact hF
    | opened D gap0 c0 o =>
      cases hg' : ghostStep2 ext (.opened D gap0 c0 o) c out with
      | dead => rw [hg'] at ha'; exact ha'.elim
      | stuck ss n wf => rw [hg'] at ha'; exact ha'.elim
      | lost => rw [hg'] at ha'; exact ha'.elim
      | idle D' gap' c'' => exact hF
      | opened D' gap' c'' o'' =>
        have : D' = D := by rw [hg'] at h; exact h
        subst this
        simp only [if_true]
        exact hF
  · have ha := fin_alive hf
    have hF := hT ha
    rw [h]
    cases g with
    | dead => exact ha.elim
    | stuck ss n wf => exact ha.elim
    | lost => exact ha.elim
    | idle D gap0 c0 => cases hf; exact hF
    | opened D gap0 c0 o =>
      obtain ⟨e, hes, hrel⟩ := fin_opened hf
      subst hes
      have : ¬ (D ++ [e]).length = D.length := by simp
      simp only [this, if_false]
      exact hF.snoc hrel

theorem traced2_run (ext : WExt) : ∀ (calls : List Call) (outs : List (Out (Option Nat))) (g : Ghost2)
    (org : List Origin2), Traced2 ext g org →
    Traced2 ext (ghostOf2 ext g calls outs) (originsOf2 ext g org calls outs)
  | [], outs, g, org, h => by cases outs <;> exact h
  | c :: cs, [], g, org, h => h
  | c :: cs, o :: os, g, org, h => traced2_run ext cs os _ _ (traced2_step ext g c o org h)

/-- After `finish`: one origin per entry of the emitted layout, in order. -/
theorem traced2_final {ext : WExt} {g : Ghost2} {org : List Origin2} (hT : Traced2 ext g org)
    {es : List Spec.Zip.Entry} {gap : Bytes} (hg : g.fin ext = .ok es gap) :
    Forall2 (OriginRel2 ext) (g.closeOrigins org) es := by
  cases g with
  | dead => cases hg
  | stuck ss n wf => cases hg
  | lost => cases hg
  | idle D gap0 c0 => cases hg; exact hT trivial
  | opened D gap0 c0 o =>
    obtain ⟨e, hes, hrel⟩ := fin_opened hg
    subst hes
    exact (hT trivial).snoc hrel

end ZipVerif.WL
