import ZipVerif.Lemmas.ReadEntry
/-
The seekable reader on a ZipCrypto entry of `build l` (the branch `some pw, none` of
`by_index_with_optional_password`): the stored bytes are handed to the cipher together with the check
byte (the CRC's high byte, the entry having no data descriptor), and its output goes through the decoder
and the CRC check.
-/

namespace ZipVerif.Model
open ZipVerif ZipVerif.Spec.Zip

theorem runs_byIndexRead_zc (ext : Ext) (l : Layout) (hF : l.Fits) (i : Nat) (e : Entry)
    (he : l.entries[i]? = some e) (pw : Bytes)
    (henc : (e.flagsOut &&& 1 == 1) = true) (hdd : (e.flagsOut &&& 0x0008 != 0) = false)
    (hdec : (Method.fromU16 e.method).decodable = true) (pt : Bytes)
    (hzc : ext.zipCrypto pw (e.crc >>> 24).toUInt8 e.data = .ok (some pt)) (p0 : Nat) :
    ∃ off, (localOffsets l.entries 0)[i]? = some off ∧
      Runs (byIndexRead ext (archiveOf l) i (some pw)) (build l) p0
        (.ok (.ok (e.dataStart off l.pre.length,
          ext.decode (Method.fromU16 e.method) pt >>= fun dec => crcCheck false e.crc dec)))
        (e.dataStart off l.pre.length + e.data.length) := by
  obtain ⟨off, chs, rest, h1, h2, h3, h4⟩ := entry_at l hF i e he
  have hfe := hF.1 e (List.mem_of_getElem? he)
  refine ⟨off, h1, ?_⟩
  have hds : (build l).drop (e.dataStart off l.pre.length) = e.data ++ rest := by
    have := drop_past h3
    rw [localRecord_length] at this
    rw [← this]; congr 1; simp [Entry.dataStart]; omega
  have hcs : (viewEntry e off l.pre.length chs).compressedSize.toNat = e.data.length :=
    u64_ofNat_toNat (by omega)
  have hfc := runs_findContent e off l.pre.length chs p0 hfe (by omega) h3
  have hta := runs_takeAll hds
  unfold byIndexRead
  rw [h2]
  dsimp only
  have henc' : (viewEntry e off l.pre.length chs).encrypted = true := henc
  have hdd' : (viewEntry e off l.pre.length chs).usingDataDescriptor = false := hdd
  rw [henc']
  simp only [Option.isNone_some, Bool.false_and, Bool.false_eq_true, if_false, if_true]
  refine Runs.bind hfc ?_
  have hm : (viewEntry e off l.pre.length chs).method = Method.fromU16 e.method := rfl
  have ha : (viewEntry e off l.pre.length chs).aesMode = none := rfl
  have hc : (viewEntry e off l.pre.length chs).crc32 = e.crc := rfl
  rw [hm, ha, hcs, hc, hdd']
  generalize Method.fromU16 e.method = m at hdec
  cases m <;> simp only [Method.decodable] at hdec <;> try contradiction
  all_goals
    dsimp only [Bool.false_eq_true, if_false]
    refine Runs.bind hta ?_
    simp only [Bool.false_eq_true, if_false]
    rw [hzc]
    exact Runs.pure _

end ZipVerif.Model
