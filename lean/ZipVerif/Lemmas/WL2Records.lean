import ZipVerif.Lemmas.WLSteps
/-
Level 2 of the "writer emits a layout" development (the whole call alphabet: extra-data mode, aligned
files, the ZipCrypto option) — record-level lemmas: the local header with a local extra field, its
three back-patches (CRC / sizes, and the 16-bit extra length at offset 28), and what
`validate_extra_data` establishes.
-/

namespace ZipVerif.WL
open ZipVerif ZipVerif.Model ZipVerif.Spec.Zip

/-! ### The local header with an extra-field length `xl` -/

def hdrN2 (f : FileData) (xl : Nat) : Bytes :=
  le16 (UInt16.ofNat f.fileName.length) ++ (le16 (UInt16.ofNat xl) ++ f.fileName)

def hdrM2 (f : FileData) (xl : Nat) : Bytes :=
  le32 0xFFFFFFFF ++ (le32 0xFFFFFFFF ++ (le16 (UInt16.ofNat f.fileName.length) ++
    (le16 (UInt16.ofNat xl) ++ (f.fileName ++ (le16 0x0001 ++ le16 16)))))

/-- The local header of `f` whose extra-length field holds `xl` (the local ZIP64 record, when present,
is part of the header; foreign local extra data follow it in the sink). -/
def localHdr2 (f : FileData) (dp lv : UInt16) (xl : Nat) : Bytes :=
  if f.largeFile then
    hdrA f dp lv ++ (le32 f.crc32 ++ (hdrM2 f xl ++ (le64 f.uncompressedSize ++ le64 f.compressedSize)))
  else
    hdrA f dp lv ++ (le32 f.crc32 ++ (le32 (trunc32 f.compressedSize) ++
      (le32 (trunc32 f.uncompressedSize) ++ hdrN2 f xl)))

/-- the length of the local ZIP64 record -/
def z64len (f : FileData) : Nat := if f.largeFile then 20 else 0

theorem localHdr_eq_localHdr2 (f : FileData) (dp lv : UInt16) :
    localHdr f dp lv = localHdr2 f dp lv (z64len f) := by
  unfold localHdr localHdr2 z64len
  cases f.largeFile <;> rfl

theorem hdrM2_length (f : FileData) (xl : Nat) : (hdrM2 f xl).length = 16 + f.fileName.length := by
  simp [hdrM2]; omega

theorem hdrN2_length (f : FileData) (xl : Nat) : (hdrN2 f xl).length = 4 + f.fileName.length := by
  simp [hdrN2]; omega

theorem localHdr2_length (f : FileData) (dp lv : UInt16) (xl : Nat) :
    (localHdr2 f dp lv xl).length = 30 + f.fileName.length + z64len f := by
  unfold localHdr2 z64len
  split <;> simp [hdrA_length, hdrM2_length, hdrN2_length] <;> omega

/-- the header only looks at name, flags, method, time, CRC, sizes and `large_file` -/
theorem localHdr2_extra (f : FileData) (x : Bytes) (ds : UInt64) (dp lv : UInt16) (xl : Nat) :
    localHdr2 { f with extraField := x, dataStart := ds } dp lv xl = localHdr2 f dp lv xl := rfl

theorem writeAt_mid16 (A B : Bytes) (x x' : UInt16) (p : Nat) (hp : p = A.length) :
    writeAt (A ++ (le16 x ++ B)) p (le16 x') = A ++ (le16 x' ++ B) :=
  writeAt_mid A (le16 x) (le16 x') B p hp rfl

/-- Back-patch of the extra-field length at offset 28 (`end_extra_data`). -/
theorem patch_xlen (A B : Bytes) (f : FileData) (dp lv : UInt16) (xl xl' : Nat) (p : Nat)
    (hp : p = A.length) :
    writeAt (A ++ (localHdr2 f dp lv xl ++ B)) (p + 28) (le16 (UInt16.ofNat xl')) =
      A ++ (localHdr2 f dp lv xl' ++ B) := by
  subst hp
  have hA := hdrA_length f dp lv
  unfold localHdr2
  cases hl : f.largeFile with
  | false =>
    simp only [Bool.false_eq_true, if_false, hdrN2, List.append_assoc]
    have e1 : A ++ (hdrA f dp lv ++ (le32 f.crc32 ++ (le32 (trunc32 f.compressedSize) ++
        (le32 (trunc32 f.uncompressedSize) ++ (le16 (UInt16.ofNat f.fileName.length) ++
        (le16 (UInt16.ofNat xl) ++ (f.fileName ++ B))))))) =
        (A ++ hdrA f dp lv ++ le32 f.crc32 ++ le32 (trunc32 f.compressedSize) ++
        le32 (trunc32 f.uncompressedSize) ++ le16 (UInt16.ofNat f.fileName.length)) ++
        (le16 (UInt16.ofNat xl) ++ (f.fileName ++ B)) := by simp only [List.append_assoc]
    rw [e1, writeAt_mid16 _ _ _ (UInt16.ofNat xl') _ (by simp [hA])]
    simp only [List.append_assoc]
  | true =>
    simp only [if_true, hdrM2, List.append_assoc]
    have e1 : A ++ (hdrA f dp lv ++ (le32 f.crc32 ++ (le32 0xFFFFFFFF ++ (le32 0xFFFFFFFF ++
        (le16 (UInt16.ofNat f.fileName.length) ++ (le16 (UInt16.ofNat xl) ++ (f.fileName ++
        (le16 1 ++ (le16 16 ++ (le64 f.uncompressedSize ++ (le64 f.compressedSize ++ B))))))))))) =
        (A ++ hdrA f dp lv ++ le32 f.crc32 ++ le32 0xFFFFFFFF ++ le32 0xFFFFFFFF ++
        le16 (UInt16.ofNat f.fileName.length)) ++ (le16 (UInt16.ofNat xl) ++ (f.fileName ++
        (le16 1 ++ (le16 16 ++ (le64 f.uncompressedSize ++ (le64 f.compressedSize ++ B)))))) := by
      simp only [List.append_assoc]
    rw [e1, writeAt_mid16 _ _ _ (UInt16.ofNat xl') _ (by simp [hA])]
    simp only [List.append_assoc]

/-- Back-patch of CRC and sizes of a non-ZIP64 header (any extra length). -/
theorem patch_small2 (A B : Bytes) (f : FileData) (dp lv : UInt16) (xl : Nat) (hl : f.largeFile = false)
    (c : UInt32) (cs us : UInt64) (p : Nat) (hp : p = A.length) :
    writeAt (writeAt (writeAt (A ++ (localHdr2 f dp lv xl ++ B)) (p + 14) (le32 c)) (p + 14 + 4)
        (le32 (trunc32 cs))) (p + 14 + 4 + 4) (le32 (trunc32 us)) =
      A ++ (localHdr2 { f with crc32 := c, uncompressedSize := us, compressedSize := cs } dp lv xl ++ B) := by
  subst hp
  have hA := hdrA_length f dp lv
  simp only [localHdr2, hl, Bool.false_eq_true, if_false, List.append_assoc]
  have e1 : A ++ (hdrA f dp lv ++ (le32 f.crc32 ++ (le32 (trunc32 f.compressedSize) ++
      (le32 (trunc32 f.uncompressedSize) ++ (hdrN2 f xl ++ B))))) =
      (A ++ hdrA f dp lv) ++ (le32 f.crc32 ++ (le32 (trunc32 f.compressedSize) ++
      (le32 (trunc32 f.uncompressedSize) ++ (hdrN2 f xl ++ B)))) := by simp only [List.append_assoc]
  rw [e1, writeAt_mid32 _ _ _ c _ (by simp [hA])]
  have e2 : (A ++ hdrA f dp lv) ++ (le32 c ++ (le32 (trunc32 f.compressedSize) ++
      (le32 (trunc32 f.uncompressedSize) ++ (hdrN2 f xl ++ B)))) =
      (A ++ hdrA f dp lv ++ le32 c) ++ (le32 (trunc32 f.compressedSize) ++
      (le32 (trunc32 f.uncompressedSize) ++ (hdrN2 f xl ++ B))) := by simp only [List.append_assoc]
  rw [e2, writeAt_mid32 _ _ _ (trunc32 cs) _ (by simp [hA])]
  have e3 : (A ++ hdrA f dp lv ++ le32 c) ++ (le32 (trunc32 cs) ++
      (le32 (trunc32 f.uncompressedSize) ++ (hdrN2 f xl ++ B))) =
      (A ++ hdrA f dp lv ++ le32 c ++ le32 (trunc32 cs)) ++
      (le32 (trunc32 f.uncompressedSize) ++ (hdrN2 f xl ++ B)) := by simp only [List.append_assoc]
  rw [e3, writeAt_mid32 _ _ _ (trunc32 us) _ (by simp [hA])]
  simp only [List.append_assoc]
  rfl

/-- Back-patch of CRC and the 64-bit sizes of a ZIP64 header (any extra length). -/
theorem patch_large2 (A B : Bytes) (f : FileData) (dp lv : UInt16) (xl : Nat) (hl : f.largeFile = true)
    (c : UInt32) (cs us : UInt64) (p : Nat) (hp : p = A.length) :
    writeAt (writeAt (writeAt (A ++ (localHdr2 f dp lv xl ++ B)) (p + 14) (le32 c))
        (p + 30 + f.fileName.length + 4) (le64 us)) (p + 30 + f.fileName.length + 4 + 8) (le64 cs) =
      A ++ (localHdr2 { f with crc32 := c, uncompressedSize := us, compressedSize := cs } dp lv xl ++ B) := by
  subst hp
  have hA := hdrA_length f dp lv
  have hM := hdrM2_length f xl
  simp only [localHdr2, hl, if_true, List.append_assoc]
  have e1 : A ++ (hdrA f dp lv ++ (le32 f.crc32 ++ (hdrM2 f xl ++ (le64 f.uncompressedSize ++
      (le64 f.compressedSize ++ B))))) =
      (A ++ hdrA f dp lv) ++ (le32 f.crc32 ++ (hdrM2 f xl ++ (le64 f.uncompressedSize ++
      (le64 f.compressedSize ++ B)))) := by simp only [List.append_assoc]
  rw [e1, writeAt_mid32 _ _ _ c _ (by simp [hA])]
  have e2 : (A ++ hdrA f dp lv) ++ (le32 c ++ (hdrM2 f xl ++ (le64 f.uncompressedSize ++
      (le64 f.compressedSize ++ B)))) =
      (A ++ hdrA f dp lv ++ le32 c ++ hdrM2 f xl) ++ (le64 f.uncompressedSize ++
      (le64 f.compressedSize ++ B)) := by simp only [List.append_assoc]
  rw [e2, writeAt_mid64 _ _ _ us _ (by simp [hA, hM]; omega)]
  have e3 : (A ++ hdrA f dp lv ++ le32 c ++ hdrM2 f xl) ++ (le64 us ++ (le64 f.compressedSize ++ B)) =
      (A ++ hdrA f dp lv ++ le32 c ++ hdrM2 f xl ++ le64 us) ++ (le64 f.compressedSize ++ B) := by
    simp only [List.append_assoc]
  rw [e3, writeAt_mid64 _ _ _ cs _ (by simp [hA, hM]; omega)]
  simp only [List.append_assoc]
  rfl

/-- **`local_eq_spec2`**: header (extra length = ZIP64 record + local extra data), local extra data and
stored bytes are the specification's local record of the entry. -/
theorem local_eq_spec2 (f : FileData) (dp lv : UInt16) (gap lx data : Bytes)
    (hc : f.compressedSize = UInt64.ofNat data.length) :
    gap ++ (localHdr2 f dp lv (z64len f + lx.length) ++ (lx ++ data)) =
      (specEntry f dp gap lx data lv).localBytes := by
  unfold Entry.localBytes localRecord descriptor
  simp only [specEntry, Entry.hasDesc, Entry.flagsOut, Entry.csize, ← hc]
  cases hl : f.largeFile with
  | false =>
    simp [localHdr2, z64len, hl, hdrA, hdrN2, lo32, trunc32, LOCAL_SIG, sigLocal]
  | true =>
    simp [localHdr2, z64len, hl, hdrA, hdrM2, LOCAL_SIG, sigLocal]
    congr 1
    rw [← UInt16.add_assoc, ← UInt16.add_assoc, ← UInt16.add_assoc]
    rfl

/-! ### `validate_extra_data` -/

theorem reserved_has_aes : validateExtraDataLoop.reservedExtraIds.contains 0x9901 = true := by decide

/-- What the validation loop accepts is a well-formed record sequence in the sense of the layout
specification (`Spec.Zip.ExtraOk` only excludes the identifiers 0x0001 and 0x9901; validation excludes
0x0001, 0..31 and every defined or registered identifier, 0x9901 among them). -/
theorem validateLoop_extraOk : ∀ (n : Nat) (data : Bytes), data.length ≤ n →
    validateExtraDataLoop (n + 1) data = .ok () → ∀ m, data.length ≤ m → extraOkAux m data = true := by
  intro n
  induction n using Nat.strongRecOn with
  | _ n ih =>
    intro data hn hv m hm
    match data, hn, hv, hm with
    | [], _, _, _ => cases m <;> simp [extraOkAux]
    | [_], _, hv, _ => simp [validateExtraDataLoop] at hv
    | [_, _], _, hv, _ => simp [validateExtraDataLoop] at hv
    | [_, _, _], _, hv, _ => simp [validateExtraDataLoop] at hv
    | a :: b :: c :: d :: rest, hn, hv, hm =>
      obtain ⟨m', rfl⟩ : ∃ m', m = m' + 1 := ⟨m - 1, by simp at hm; omega⟩
      unfold validateExtraDataLoop at hv
      simp only [List.isEmpty_cons, Bool.false_eq_true, if_false, List.length_cons, rd16] at hv
      have h4 : ¬ (rest.length + 1 + 1 + 1 + 1 < 4) := by omega
      rw [if_neg h4] at hv
      split at hv
      · cases hv
      next hk1 =>
      split at hv
      · cases hv
      next hk2 =>
      split at hv
      · cases hv
      next hsz =>
      have hk9 : (mk16 a b != 0x9901) = true := by
        cases hq : (mk16 a b != 0x9901)
        · exfalso
          have : mk16 a b = 0x9901 := by simpa using hq
          rw [this, reserved_has_aes] at hk2
          simp at hk2
        · rfl
      have hk1' : (mk16 a b != 0x0001) = true := by simpa using hk1
      simp only [List.length_cons] at hn hm
      have hlen : (rest.drop (mk16 c d).toNat).length ≤ n - 4 := by
        rw [List.length_drop]; omega
      obtain ⟨n', hn'⟩ : ∃ n', n = n' + 1 := ⟨n - 1, by omega⟩
      subst hn'
      have hrec := ih (n' ) (by omega) (rest.drop (mk16 c d).toNat) (by rw [List.length_drop]; omega) hv
        m' (by rw [List.length_drop]; omega)
      unfold extraOkAux
      simp only [List.isEmpty_cons, Bool.false_eq_true, if_false, rd16, hk9, hk1', Bool.true_and, hrec,
        Bool.and_true, decide_eq_true_eq]
      omega

theorem validate_extraOk {f : FileData} (h : validateExtraData f = .ok ()) : ExtraOk f.extraField := by
  unfold validateExtraData at h
  by_cases hc : f.extraField.length + (if f.largeFile then 20 else 0) > 65535
  · rw [if_pos hc] at h; cases h
  · rw [if_neg hc] at h
    exact validateLoop_extraOk _ _ (Nat.le_refl _) h _ (Nat.le_refl _)

theorem localExtraLen_val {f : FileData} (h : f.extraField.length + z64len f ≤ 65535) :
    localExtraLen f = .ok (UInt16.ofNat (z64len f + f.extraField.length)) := by
  unfold localExtraLen
  unfold z64len at h ⊢
  have e1 : f.extraField.length % 65536 = f.extraField.length := Nat.mod_eq_of_lt (by omega)
  dsimp only
  rw [e1]
  cases hl : f.largeFile
  · rw [hl] at h
    simp only [Bool.false_eq_true, if_false] at h ⊢
    rw [if_pos (by omega)]
  · rw [hl] at h
    simp only [if_true] at h ⊢
    rw [if_pos (by omega)]

theorem validate_len2 {f : FileData} (h : validateExtraData f = .ok ()) :
    f.extraField.length + z64len f ≤ 65535 := validate_len h

end ZipVerif.WL
