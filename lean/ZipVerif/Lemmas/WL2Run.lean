import ZipVerif.Lemmas.WL2Steps
import ZipVerif.Lemmas.WLRun
/-
Level 2 of the "writer emits a layout" development: the ghost state, the invariant `Lay2` and the
per-call lemmas for the WHOLE call alphabet — extra-data mode (`start_file_with_extra_data`, `write`
into the extra field, `end_local_start_central_extra_data`, `end_extra_data`), `start_file_aligned`,
and the ZipCrypto option of `start_file` / `add_directory` / `add_symlink`.
-/

namespace ZipVerif.WL
open ZipVerif ZipVerif.Model ZipVerif.Spec.Zip
open ZipVerif.Props.C12 (Call step runCalls outcomeOf mapStep mapStep_wsat mapStep_pure)

/-! ### Ghost state -/

/-- where an open entry is in the extra-data protocol -/
inductive Phase
  /-- `write` goes to the entry's data -/
  | data
  /-- after `start_file_with_extra_data`: `write` goes to the extra field, which `end_extra_data` will
  put into the local header (and leave in the record, i.e. in the central header too) -/
  | localX
  /-- after `end_local_start_central_extra_data`: `write` goes to the extra field of the record only -/
  | centralX
  deriving DecidableEq

/-- The entry being written, as the calls so far determine it (Level 2). -/
structure Open2 where
  /-- the record `start_entry` pushed -/
  f : FileData
  raw : Bool
  /-- plaintext accepted so far (raw copy: the raw bytes) -/
  plain : Bytes
  /-- raw copy only: bytes written after the raw data -/
  junk : Bytes
  wf : Bool
  /-- the ZipCrypto password, if the entry is encrypted -/
  enc : Option Bytes
  /-- local extra data already in the sink behind the header -/
  lx : Bytes
  /-- extra data held by the record (what the central header will carry) -/
  cx : Bytes
  phase : Phase

inductive Ghost2
  | idle (done : List Spec.Zip.Entry) (gap : Bytes) (c : Bytes)
  | opened (done : List Spec.Zip.Entry) (gap : Bytes) (c : Bytes) (o : Open2)
  /-- poisoned (closed): `finish` can only fail -/
  | dead
  /-- stuck on an entry that cannot be closed (see `WL.Stuck`) -/
  | stuck (ss n : Nat) (wf : Bool)
  /-- outside the quantifier: a panic outcome, a sink position ≥ 2^64, a pre-1980 timestamp, or an
  entry whose central extra field (ZIP64 record + extra data, more than 65535 bytes — it takes a 4 GiB
  size or offset AND more than 65507 bytes of extra data) `finalize` will refuse -/
  | lost

/-- the bytes of the open entry that are in the sink behind header and local extra data -/
def Open2.sunk (o : Open2) : Bytes :=
  if o.raw then o.plain ++ o.junk else sunkData o.f o.enc o.plain

/-- result of (an explicit or implicit) `end_extra_data` -/
inductive XRes
  | ok (o : Open2)
  /-- validation refuses: an error, nothing changes -/
  | unchanged
  /-- the method/level is refused by `switch_to`: the writer is left closed -/
  | dead

/-- `end_extra_data` on an entry in extra-data mode. -/
def Open2.endExtra (o : Open2) : XRes :=
  match validateExtraData { o.f with extraField := o.cx } with
  | .error _ => .unchanged
  | .ok () =>
    match o.phase with
    | .localX => if Refused o.f.method o.f.level then .dead else .ok { o with lx := o.cx, phase := .data }
    | _ => .ok { o with phase := .data }

/-- result of `finish_file` -/
inductive FinRes
  | ok (es : List Spec.Zip.Entry) (gap : Bytes)
  | unchanged
  | dead
  | stuck (ss n : Nat) (wf : Bool)
  | lost

/-- where the data of the open entry start -/
def Open2.dataStart (done : List Spec.Zip.Entry) (gap : Bytes) (o : Open2) : Nat :=
  (localsBytes done).length + gap.length + hdrLen o.f + o.lx.length

/-- `finish_file` on an entry in its data phase. -/
def Open2.finData (ext : WExt) (done : List Spec.Zip.Entry) (gap : Bytes) (o : Open2) : FinRes :=
  match o.f.time.datepart with
  | none => .lost
  | some dp =>
    if o.raw then .ok (done ++ [specEntry o.f dp gap [] o.plain o.f.versionNeeded]) o.junk
    else
      -- never true on a run of the writer (see `Lay2`): makes the bound visible on the ghost
      if o.f.largeFile = false ∧ o.plain.length > 0xFFFFFFFF then .lost
      else if (centralZip64Bytes (closedRec o.f o.cx o.plain (dataOf2 ext o.f o.enc o.plain))).length +
          o.cx.length > 65535 then .lost
      else if o.f.largeFile = false ∧
          UInt64.ofNat (dataOf2 ext o.f o.enc o.plain).length > ZIP64_BYTES_THR then
        (if o.dataStart done gap + (dataOf2 ext o.f o.enc o.plain).length < 18446744073709551616 then
          .stuck (o.dataStart done gap) (dataOf2 ext o.f o.enc o.plain).length o.wf
         else .lost)
      else .ok (done ++ [specEntry (closedRec o.f o.cx o.plain (dataOf2 ext o.f o.enc o.plain)) dp gap o.lx
        (dataOf2 ext o.f o.enc o.plain) o.f.versionNeeded]) []

def Open2.fin (ext : WExt) (done : List Spec.Zip.Entry) (gap : Bytes) (o : Open2) : FinRes :=
  match o.phase with
  | .data => o.finData ext done gap
  | _ =>
    match o.endExtra with
    | .ok o' => o'.finData ext done gap
    | .unchanged => .unchanged
    | .dead => .dead

def Ghost2.fin (ext : WExt) : Ghost2 → FinRes
  | .idle done gap _ => .ok done gap
  | .opened done gap _ o => o.fin ext done gap
  | .dead => .dead
  | .stuck ss n wf => .stuck ss n wf
  | .lost => .lost

def Ghost2.cmt : Ghost2 → Bytes
  | .idle _ _ c => c
  | .opened _ _ c _ => c
  | _ => []

/-- The archive `finish` emits: closed entries, dead bytes, comment. -/
def Ghost2.close (ext : WExt) (g : Ghost2) : Option (List Spec.Zip.Entry × Bytes × Bytes) :=
  match g.fin ext with
  | .ok es gap => some (es, gap, g.cmt)
  | _ => none

/-! ### The invariant -/

/-- a non-raw open entry: the writer's state by phase -/
def Mode2 (o : Open2) (s : WState) : Prop :=
  s.writingRaw = false ∧ (o.f.largeFile = false → o.plain.length ≤ 0xFFFFFFFF) ∧
  s.statsBytes = o.plain.length ∧ s.statsHasher = Spec.Crc32.updateBytes 0xFFFFFFFF o.plain ∧
  o.junk = [] ∧ o.f.extraField = [] ∧
  match o.phase with
  | .data => s.writingToExtraField = false ∧ s.centralOnly = false ∧ InnerData o.f o.enc o.plain s.inner
  | .localX => s.writingToExtraField = true ∧ s.centralOnly = false ∧ s.inner = .storer none ∧
      o.plain = [] ∧ o.enc = none ∧ o.lx = [] ∧ o.wf = true
  | .centralX => s.writingToExtraField = true ∧ s.centralOnly = true ∧
      s.inner = innerFor o.f.method o.f.level ∧ o.plain = [] ∧ o.enc = none ∧ o.wf = true

/-- a raw copy -/
def ModeRaw (o : Open2) (s : WState) : Prop :=
  s.writingRaw = true ∧ s.inner = .storer none ∧ o.f.compressedSize = UInt64.ofNat o.plain.length ∧
  s.writingToExtraField = false ∧ s.centralOnly = false ∧ o.enc = none ∧ o.lx = [] ∧ o.cx = [] ∧
  o.phase = .data ∧ o.f.extraField = []

def Lay2 (r : Nat) : Ghost2 → WState → Dev → Prop
  | .idle done gap c, s, d =>
    Cl done gap r s d ∧ s.writingToFile = false ∧ (s.files = [] ∨ s.writingRaw = true) ∧ s.comment = c ∧
      s.centralOnly = false
  | .opened done gap c o, s, d =>
    ∃ dp, Op2 done gap r o.f dp o.lx o.cx o.sunk s d ∧ s.writingToFile = o.wf ∧ s.comment = c ∧
      (if o.raw then ModeRaw o s else Mode2 o s)
  | .dead, s, _ => s.inner = .closed
  | .stuck ss n wf, s, d => Stuck ss n wf s d
  | .lost, _, _ => True

/-- The ghost's plaintext-bound check (`Open2.finData`) never fires on a writer in step with it: `write`
poisons the writer before the plaintext of a non-ZIP64 entry exceeds 0xFFFFFFFF bytes. -/
theorem Lay2.plain_bound {r : Nat} {done : List Spec.Zip.Entry} {gap c : Bytes} {o : Open2} {s : WState}
    {d : Dev} (h : Lay2 r (.opened done gap c o) s d) (hraw : o.raw = false) :
    ¬ (o.f.largeFile = false ∧ o.plain.length > 0xFFFFFFFF) := by
  obtain ⟨_, _, _, _, hm⟩ := h
  rw [hraw] at hm
  simp only [Bool.false_eq_true, if_false] at hm
  intro hbad
  have := hm.2.1 hbad.1
  omega

theorem lay2_init_empty : Lay2 0 (.idle [] [] []) WState.init (Dev.ofBytes []) :=
  ⟨⟨⟨Nat.le_refl _, rfl, Nat.le_refl _⟩, trivial, rfl, rfl⟩, rfl, Or.inl rfl, rfl, rfl⟩

/-- shape (A) from its raw ingredients (the state `new_append` returns) -/
theorem lay2_idle_intro {done : List Spec.Zip.Entry} {gap : Bytes} {s : WState} {d : Dev}
    (hpos : d.pos ≤ d.buf.length) (hlive : d.buf.take d.pos = localsBytes done ++ gap)
    (hcl : ClosedAll done 0 s.files) (hin : s.inner = .storer none) (hwf : s.writingToFile = false)
    (hwe : s.writingToExtraField = false) (hco : s.centralOnly = false)
    (hidle : s.files = [] ∨ s.writingRaw = true) :
    Lay2 (d.buf.length - d.pos) (.idle done gap s.comment) s d :=
  ⟨⟨⟨hpos, hlive, by omega⟩, hcl, hin, hwe⟩, hwf, hidle, rfl, hco⟩

/-! ### `end_extra_data` on the ghost -/

def XPost (r : Nat) (done : List Spec.Zip.Entry) (gap c : Bytes) (s : WState) (d : Dev) :
    XRes → Except ZErr Nat × WState → Dev → Prop
  | .ok o', rs, d' => (∃ v, rs.1 = .ok v) ∧ Lay2 r (.opened done gap c o') rs.2 d'
  | .unchanged, rs, d' => (∃ e, rs.1 = .error e) ∧ rs.2 = s ∧ d' = d
  | .dead, rs, _ => (∃ e, rs.1 = .error e) ∧ rs.2.inner = .closed

theorem innerFor_ne_closed (c : Method) (l : Option Int) : innerFor c l ≠ .closed := by
  unfold innerFor; split <;> (intro h; cases h)

theorem innerData_innerFor (f : FileData) : InnerData f none [] (innerFor f.method f.level) := by
  unfold InnerData innerFor
  by_cases h : f.method = .stored
  · left; exact ⟨h, by rw [if_pos h]⟩
  · right; exact ⟨h, by rw [if_neg h]⟩

theorem sunkData_nil (f : FileData) : sunkData f none [] = [] := by
  simp [sunkData]

theorem endExtraData_ghost (ext : WExt) {r : Nat} {done : List Spec.Zip.Entry} {gap c : Bytes} {o : Open2}
    {s : WState} {d : Dev} (h : Lay2 r (.opened done gap c o) s d) (hraw : o.raw = false)
    (hph : o.phase ≠ .data) :
    WSat (endExtraData ext s) none d (XPost r done gap c s d o.endExtra) := by
  obtain ⟨dp, hop, hwf, hc, hm⟩ := h
  rw [hraw] at hm
  simp only [Bool.false_eq_true, if_false] at hm
  obtain ⟨hwr, hbd, hb, hh, hj, hx0, hphase⟩ := hm
  obtain ⟨cf, hfiles, hcl⟩ := hop.files
  have hsunk : o.sunk = sunkData o.f o.enc o.plain := by simp [Open2.sunk, hraw]
  unfold Open2.endExtra
  have hval : validateExtraData (curRec o.f o.cx (UInt64.ofNat s.statsStart)) =
      validateExtraData { o.f with extraField := o.cx } := rfl
  cases hph' : o.phase with
  | data => exact absurd hph' hph
  | localX =>
    rw [hph'] at hphase
    obtain ⟨hwe, hco, hin, hpl, henc, hlx, hwfo⟩ := hphase
    cases hv : validateExtraData { o.f with extraField := o.cx } with
    | error e =>
      rw [endExtraData_invalid ext s cf _ e hwe (by rw [hin]; intro h'; cases h') hfiles (hval.trans hv)]
      exact WSat.pure ⟨⟨_, rfl⟩, rfl, rfl⟩
    | ok u =>
      have hop' : Op2 done gap r o.f dp [] o.cx [] s d := by
        have := hop
        rw [hsunk, hpl, henc, sunkData_nil, hlx] at this
        exact this
      apply WSat.mono (endExtraData_local ext hop' hwe hco hin (hval.trans hv))
      intro rs d' ⟨h1, h2⟩
      dsimp only
      by_cases hr : Refused o.f.method o.f.level
      · rw [if_pos hr]
        exact h2 hr
      · rw [if_neg hr]
        obtain ⟨hok, hop2, hin2, hwe2, hco2, hsx⟩ := h1 hr
        refine ⟨hok, dp, ?_, by rw [hsx.wf]; exact hwf, by rw [hsx.comment]; exact hc, ?_⟩
        · show Op2 done gap r o.f dp o.cx o.cx (Open2.sunk { o with lx := o.cx, phase := .data }) rs.2 d'
          have : Open2.sunk { o with lx := o.cx, phase := .data } = [] := by
            simp [Open2.sunk, hraw, hpl, henc, sunkData_nil]
          rw [this]; exact hop2
        · show (if o.raw then _ else _)
          rw [hraw]
          simp only [Bool.false_eq_true, if_false]
          refine ⟨by rw [hsx.wr]; exact hwr, hbd, by rw [hsx.bytes]; exact hb, by rw [hsx.hash]; exact hh,
            hj, hx0, hwe2, hco2, ?_⟩
          show InnerData o.f o.enc o.plain rs.2.inner
          rw [hin2, hpl, henc]; exact innerData_innerFor o.f
  | centralX =>
    rw [hph'] at hphase
    obtain ⟨hwe, hco, hin, hpl, henc, hwfo⟩ := hphase
    have hncl : s.inner ≠ .closed := by rw [hin]; exact innerFor_ne_closed _ _
    cases hv : validateExtraData { o.f with extraField := o.cx } with
    | error e =>
      rw [endExtraData_invalid ext s cf _ e hwe hncl hfiles (hval.trans hv)]
      exact WSat.pure ⟨⟨_, rfl⟩, rfl, rfl⟩
    | ok u =>
      rw [endExtraData_central ext s cf _ hwe hco hncl hfiles (hval.trans hv)]
      apply WSat.pure
      refine ⟨⟨_, rfl⟩, dp, ?_, hwf, hc, ?_⟩
      · show Op2 done gap r o.f dp o.lx o.cx (Open2.sunk { o with phase := .data }) _ d
        have : Open2.sunk { o with phase := .data } = o.sunk := rfl
        rw [this]
        refine Op2.frame hop ?_ ?_ hop.live <;> rfl
      · show (if o.raw then _ else _)
        rw [hraw]
        simp only [Bool.false_eq_true, if_false]
        refine ⟨hwr, hbd, hb, hh, hj, hx0, rfl, rfl, ?_⟩
        show InnerData o.f o.enc o.plain s.inner
        rw [hin, hpl, henc]; exact innerData_innerFor o.f

/-! ### `finish_file` on the ghost -/

def FinPostG (r : Nat) (c : Bytes) (s : WState) (d : Dev) :
    FinRes → Except ZErr Unit × WState → Dev → Prop
  | .ok es gap, rs, d' => FinPost es gap r c rs d' ∧ rs.2.centralOnly = false
  | .unchanged, rs, d' => (∃ e, rs.1 = .error e) ∧ rs.2 = s ∧ d' = d
  | .dead, rs, _ => (∃ e, rs.1 = .error e) ∧ rs.2.inner = .closed
  | .stuck ss n wf, rs, d' => (∃ e, rs.1 = .error e) ∧ Stuck ss n wf rs.2 d'
  | .lost, _, _ => True

theorem finishFile_data_ghost (ext : WExt) {r : Nat} {done : List Spec.Zip.Entry} {gap c : Bytes}
    {o : Open2} {s : WState} {d : Dev} (h : Lay2 r (.opened done gap c o) s d) (hph : o.phase = .data) :
    WSat (finishFile ext s) none d (FinPostG r c s d (o.finData ext done gap)) := by
  obtain ⟨dp, hop, hwf, hc, hm⟩ := h
  unfold Open2.finData
  rw [hop.dp]
  dsimp only
  cases hraw : o.raw with
  | true =>
    rw [hraw] at hm
    simp only [if_true] at hm ⊢
    obtain ⟨hwr, hin, hcs, hwe, hco, henc, hlx, hcx, _, hx0⟩ := hm
    apply finishFile_of_storer ext s hwe hin
    have hop' : Op2 done gap r o.f dp [] [] o.sunk s d := by
      have := hop; rw [hlx, hcx] at this; exact this
    apply WSat.mono (afterEnc_raw2 o.plain o.junk hop' hin hwr hwe hx0 (by simp [Open2.sunk, hraw]) hcs)
    intro rs d' ⟨h1, h2⟩
    exact ⟨by rw [← hc]; exact h1, by rw [h2]; exact hco⟩
  | false =>
    rw [hraw] at hm
    simp only [Bool.false_eq_true, if_false] at hm ⊢
    obtain ⟨hwr, hbd, hb, hh, hj, hx0, hphase⟩ := hm
    rw [hph] at hphase
    obtain ⟨hwe, hco, hin⟩ := hphase
    have hsunk : o.sunk = sunkData o.f o.enc o.plain := by simp [Open2.sunk, hraw]
    rw [hsunk] at hop
    by_cases hbad : o.f.largeFile = false ∧ o.plain.length > 0xFFFFFFFF
    · -- impossible: `write` keeps the plaintext of a non-ZIP64 entry within 0xFFFFFFFF bytes
      have := hbd hbad.1
      omega
    rw [if_neg hbad]
    by_cases hcf : (centralZip64Bytes (closedRec o.f o.cx o.plain (dataOf2 ext o.f o.enc o.plain))).length +
        o.cx.length > 65535
    · rw [if_pos hcf]; exact WSat.trivial _ _ _
    rw [if_neg hcf]
    have hpost := finishFile_data2 ext hop hwe hwr hb hh hin (by omega)
    unfold NormPost2 at hpost
    by_cases hov : o.f.largeFile = false ∧ UInt64.ofNat (dataOf2 ext o.f o.enc o.plain).length > ZIP64_BYTES_THR
    · rw [if_pos hov]
      by_cases hlt : o.dataStart done gap + (dataOf2 ext o.f o.enc o.plain).length < 18446744073709551616
      · rw [if_pos hlt]
        apply WSat.mono hpost
        intro rs d' hq
        rcases hq with hq | hq
        · have hss : s.statsStart = o.dataStart done gap := hop.ss
          refine ⟨hq.2.2.1, ?_⟩
          have := hq.2.2.2.2 (by rw [hss]; exact hlt)
          rw [hss, hwf] at this
          exact this
        · exact absurd hov hq.1
      · rw [if_neg hlt]; exact WSat.trivial _ _ _
    · rw [if_neg hov]
      apply WSat.mono hpost
      intro rs d' hq
      rcases hq with hq | hq
      · exact absurd ⟨hq.1, hq.2.1⟩ hov
      · exact ⟨by rw [← hc]; exact hq.2.1, by rw [hq.2.2]; exact hco⟩

/-- `finish_file` in extra-data mode: the implicit `end_extra_data`, then `finish_file` proper. -/
theorem finishFile_via_endExtra (ext : WExt) (s : WState) (hwe : s.writingToExtraField = true) {d : Dev}
    {P : Except ZErr Nat × WState → Dev → Prop} {Q : Except ZErr Unit × WState → Dev → Prop}
    (hx : WSat (endExtraData ext s) none d P)
    (hk : ∀ r s' d', P (r, s') d' → match r with
      | .error e => Q (.error e, s') d'
      | .ok _ => s'.writingToExtraField = false ∧ WSat (finishFile ext s') none d' Q) :
    WSat (finishFile ext s) none d Q := by
  unfold finishFile
  simp only [hwe, if_true]
  apply WSat.bind
  apply WSat.bind
  apply WSat.mono hx
  intro ⟨r, s'⟩ d' hp
  have := hk r s' d' hp
  cases r with
  | error e =>
    apply WSat.pure
    dsimp only
    exact WSat.pure this
  | ok v =>
    obtain ⟨hwe', hfin⟩ := this
    apply WSat.pure
    dsimp only
    unfold finishFile at hfin
    simp only [hwe', Bool.false_eq_true, if_false] at hfin
    exact hfin

theorem finData_ne_unchanged (ext : WExt) (done : List Spec.Zip.Entry) (gap : Bytes) (o : Open2) :
    o.finData ext done gap ≠ .unchanged := by
  intro hfd
  unfold Open2.finData at hfd
  split at hfd
  · cases hfd
  · split at hfd
    · cases hfd
    · split at hfd
      · cases hfd
      · split at hfd
        · cases hfd
        · split at hfd
          · split at hfd <;> cases hfd
          · cases hfd

theorem endExtra_phase {o o' : Open2} (hx : o.endExtra = .ok o') : o'.phase = .data := by
  unfold Open2.endExtra at hx
  split at hx
  · cases hx
  · split at hx
    · split at hx
      · cases hx
      · cases hx; rfl
    · cases hx; rfl

theorem Lay2.extra_mode {r : Nat} {done : List Spec.Zip.Entry} {gap c : Bytes} {o : Open2} {s : WState}
    {d : Dev} (h : Lay2 r (.opened done gap c o) s d) (hph : o.phase ≠ .data) :
    o.raw = false ∧ s.writingToExtraField = true ∧ o.wf = true ∧ s.inner ≠ .closed := by
  obtain ⟨dp, hop, hwf, hc, hm⟩ := h
  cases hr : o.raw with
  | true =>
    rw [hr] at hm; simp only [if_true] at hm
    exact absurd hm.2.2.2.2.2.2.2.2.1 hph
  | false =>
    rw [hr] at hm; simp only [Bool.false_eq_true, if_false] at hm
    have := hm.2.2.2.2.2.2
    cases hp : o.phase with
    | data => exact absurd hp hph
    | localX =>
      rw [hp] at this
      exact ⟨rfl, this.1, this.2.2.2.2.2.2, by rw [this.2.2.1]; intro h'; cases h'⟩
    | centralX =>
      rw [hp] at this
      exact ⟨rfl, this.1, this.2.2.2.2.2, by rw [this.2.2.1]; exact innerFor_ne_closed _ _⟩

theorem Lay2.data_mode {r : Nat} {done : List Spec.Zip.Entry} {gap c : Bytes} {o : Open2} {s : WState}
    {d : Dev} (h : Lay2 r (.opened done gap c o) s d) (hph : o.phase = .data) :
    s.writingToExtraField = false := by
  obtain ⟨dp, hop, hwf, hc, hm⟩ := h
  cases hr : o.raw with
  | true => rw [hr] at hm; simp only [if_true] at hm; exact hm.2.2.2.1
  | false =>
    rw [hr] at hm; simp only [Bool.false_eq_true, if_false] at hm
    have := hm.2.2.2.2.2.2
    rw [hph] at this
    exact this.1

theorem finishFile_ghost2 (ext : WExt) {r : Nat} {g : Ghost2} {s : WState} {d : Dev} (h : Lay2 r g s d) :
    WSat (finishFile ext s) none d (FinPostG r g.cmt s d (g.fin ext)) := by
  cases g with
  | lost => exact WSat.trivial _ _ _
  | dead =>
    obtain ⟨e, he⟩ := finishFile_closed ext h
    rw [he]
    exact WSat.pure ⟨⟨_, rfl⟩, h⟩
  | stuck ss n wf =>
    apply WSat.mono (finishFile_stuck ext h)
    intro rs d' hq
    exact ⟨hq.1, hq.2.1⟩
  | idle done gap c =>
    obtain ⟨hcl, hwf, hidle, hc, hco⟩ := h
    apply WSat.mono ((finishFile_of_storer ext s hcl.we hcl.inner (afterEnc_idle hcl hwf hidle)).and
      (finishFile_co ext s hcl.we d))
    intro rs d' ⟨h1, h2⟩
    exact ⟨by rw [← hc]; exact h1, by rw [h2]; exact hco⟩
  | opened done gap c o =>
    show WSat (finishFile ext s) none d (FinPostG r c s d (o.fin ext done gap))
    by_cases hph : o.phase = .data
    · have : o.fin ext done gap = o.finData ext done gap := by unfold Open2.fin; rw [hph]
      rw [this]
      exact finishFile_data_ghost ext h hph
    · have hfin : o.fin ext done gap = (match o.endExtra with
          | .ok o' => o'.finData ext done gap
          | .unchanged => .unchanged
          | .dead => .dead) := by
        unfold Open2.fin
        cases hp : o.phase with
        | data => exact absurd hp hph
        | localX => rfl
        | centralX => rfl
      rw [hfin]
      obtain ⟨hraw, hwe, _, _⟩ := h.extra_mode hph
      apply finishFile_via_endExtra ext s hwe (endExtraData_ghost ext h hraw hph)
      intro r1 s' d' hp
      cases hx : o.endExtra with
      | unchanged =>
        rw [hx] at hp
        obtain ⟨⟨e, he⟩, h2, h3⟩ := hp
        dsimp only at he h2 h3
        subst he h2 h3
        exact ⟨⟨_, rfl⟩, rfl, rfl⟩
      | dead =>
        rw [hx] at hp
        obtain ⟨⟨e, he⟩, h2⟩ := hp
        dsimp only at he h2
        subst he
        exact ⟨⟨_, rfl⟩, h2⟩
      | ok o' =>
        rw [hx] at hp
        obtain ⟨⟨v, hv⟩, hl⟩ := hp
        dsimp only at hv hl
        subst hv
        have hph' := endExtra_phase hx
        refine ⟨hl.data_mode hph', ?_⟩
        apply WSat.mono (finishFile_data_ghost ext hl hph')
        intro rs d2 hq
        show FinPostG r c s d (o'.finData ext done gap) rs d2
        cases hfd : o'.finData ext done gap with
        | ok es gap' => rw [hfd] at hq; exact hq
        | lost => trivial
        | stuck ss n wf => rw [hfd] at hq; exact hq
        | dead => rw [hfd] at hq; exact hq
        | unchanged => exact absurd hfd (finData_ne_unchanged ext done gap o')

/-! ### Calls that start an entry -/

/-- the record `start_entry` pushes after the previous entries `es` and dead bytes `gap`, and its DOS
date — unless the header would end at or beyond 2^64, or the timestamp is before 1980 -/
def startRec2 (name : Bytes) (o : FileOptions) (raw : Option (UInt32 × UInt64 × UInt64))
    (es : List Spec.Zip.Entry) (gap : Bytes) : Option (FileData × UInt16) :=
  match o.time.datepart with
  | none => none
  | some dp =>
    if (localsBytes es).length + gap.length +
        hdrLen (mkRec name o raw ((localsBytes es).length + gap.length) 0) < 18446744073709551616 then
      some (mkRec name o raw ((localsBytes es).length + gap.length) 0, dp)
    else none

/-- A call that runs `start_entry`: a too-long name is refused without effect; otherwise the previous
entry is finished (which may be refused, poison the writer, or get it stuck) and the new record pushed;
`after` says what the rest of the call makes of it. -/
def startG2 (ext : WExt) (g : Ghost2) (name : Bytes) (o : FileOptions)
    (raw : Option (UInt32 × UInt64 × UInt64))
    (after : List Spec.Zip.Entry → Bytes → Bytes → FileData → Ghost2) : Ghost2 :=
  if name.length > 65535 then g else
  match g.fin ext with
  | .unchanged => g
  | .dead => .dead
  | .stuck ss n wf => .stuck ss n wf
  | .lost => .lost
  | .ok es gap =>
    match startRec2 name o raw es gap with
    | none => .lost
    | some (f, _) => after es gap g.cmt f

theorem lay2_lost {β} (x : M (Except ZErr β × WState)) (d : Dev) (r : Nat)
    (G : Except ZErr β × WState → Ghost2) (hG : ∀ rs, G rs = .lost) :
    WSat x none d (fun rs d' => Lay2 r (G rs) rs.2 d') := by
  apply WSat.mono (WSat.trivial x none d)
  intro rs d' _
  rw [hG]
  trivial

theorem Lay2.cmt_eq {r : Nat} {g : Ghost2} {s : WState} {d : Dev} (h : Lay2 r g s d)
    {es : List Spec.Zip.Entry} {gap : Bytes} (hg : g.fin ext = .ok es gap) : s.comment = g.cmt := by
  cases g with
  | idle done gap0 c => exact h.2.2.2.1
  | opened done gap0 c o => obtain ⟨_, _, _, hc, _⟩ := h; exact hc
  | dead => cases hg
  | stuck ss n wf => cases hg
  | lost => cases hg

theorem start_call2 {β} (ext : WExt) (name : Bytes) (o : FileOptions)
    (raw : Option (UInt32 × UInt64 × UInt64)) {r : Nat} {g : Ghost2} {s : WState} {d : Dev}
    (h : Lay2 r g s d) (k : Except ZErr Unit × WState → M (Except ZErr β × WState))
    (after : Except ZErr β → List Spec.Zip.Entry → Bytes → Bytes → FileData → Ghost2)
    (herr : ∀ e s', k (.error e, s') = pure (.error e, s'))
    (hk : ∀ es gap f dp s1 d1, g.fin ext = .ok es gap → startRec2 name o raw es gap = some (f, dp) →
      StartPost2 es gap r g.cmt false f dp o (.ok (), s1) d1 →
      WSat (k (.ok (), s1)) none d1 (fun rs d' => Lay2 r (after rs.1 es gap g.cmt f) rs.2 d')) :
    WSat (startEntry ext name o raw s >>= k) none d (fun rs d' =>
      Lay2 r (startG2 ext g name o raw (after rs.1)) rs.2 d') := by
  by_cases hn : name.length > 65535
  · have e1 : startEntry ext name o raw s = pure (.error .invalidArchive, s) := by
      unfold startEntry; rw [if_pos hn]
    rw [e1]
    show WSat (k (.error .invalidArchive, s)) none d _
    rw [herr]
    apply WSat.pure
    simp only [startG2, if_pos hn]
    exact h
  · have hfin := finishFile_ghost2 ext h
    simp only [startG2, if_neg hn]
    -- the cases in which `finish_file` does not succeed
    have hfail : ∀ (G : Ghost2), (∀ rs d', FinPostG r g.cmt s d (g.fin ext) rs d' →
        (∃ e, rs.1 = .error e) ∧ Lay2 r G rs.2 d') →
        WSat (startEntry ext name o raw s >>= k) none d (fun rs d' => Lay2 r G rs.2 d') := by
      intro G hG
      apply WSat.bind
      unfold startEntry
      rw [if_neg hn]
      apply WSat.bind
      apply WSat.mono hfin
      intro ⟨r1, s1⟩ d1 hq
      obtain ⟨⟨e, he⟩, hl⟩ := hG _ _ hq
      dsimp only at he hl ⊢
      subst he
      apply WSat.pure
      rw [herr]
      exact WSat.pure hl
    cases hf : g.fin ext with
    | unchanged =>
      dsimp only
      apply hfail
      intro rs d' hq
      rw [hf] at hq
      obtain ⟨he, h2, h3⟩ := hq
      rw [h2, h3]
      exact ⟨he, h⟩
    | dead =>
      apply hfail
      intro rs d' hq
      rw [hf] at hq
      exact hq
    | stuck ss n wf =>
      apply hfail
      intro rs d' hq
      rw [hf] at hq
      exact hq
    | lost => exact lay2_lost _ _ _ _ (fun _ => rfl)
    | ok es gap =>
      dsimp only
      cases hsr : startRec2 name o raw es gap with
      | none => exact lay2_lost _ _ _ _ (fun _ => rfl)
      | some x =>
        obtain ⟨f, dp⟩ := x
        dsimp only
        have hf' : f = mkRec name o raw ((localsBytes es).length + gap.length) 0 ∧ o.time.datepart = some dp ∧
            (localsBytes es).length + gap.length + hdrLen f < 18446744073709551616 := by
          unfold startRec2 at hsr
          split at hsr
          · cases hsr
          next dp' hdp =>
            split at hsr
            next hlt => cases hsr; exact ⟨rfl, hdp, hlt⟩
            · cases hsr
        obtain ⟨hfe, hdp, hlt⟩ := hf'
        apply WSat.bind
        have hfin' : WSat (finishFile ext s) none d
            (fun rs d' => FinPost es gap r g.cmt rs d' ∧ rs.2.centralOnly = false) := by
          apply WSat.mono hfin
          intro rs d' hq
          rw [hf] at hq
          exact hq
        apply WSat.mono (startEntry_lay2 ext name o raw hn hfin')
        intro ⟨r1, s1⟩ d1 hpost
        have hp := hpost dp hdp (by rw [← hfe]; exact hlt)
        rw [← hfe] at hp
        have hok : r1 = .ok () := hp.1
        subst hok
        exact hk es gap f dp s1 d1 hf hsr hp

theorem startRec2_rec {name : Bytes} {o : FileOptions} {raw : Option (UInt32 × UInt64 × UInt64)}
    {es : List Spec.Zip.Entry} {gap : Bytes} {f : FileData} {dp : UInt16}
    (h : startRec2 name o raw es gap = some (f, dp)) :
    f = mkRec name o raw ((localsBytes es).length + gap.length) 0 := by
  unfold startRec2 at h
  split at h
  · cases h
  · split at h
    · cases h; rfl
    · cases h

/-- the encryption layer `start_entry` sets up -/
def encLayer (enc : Option Bytes) : Option EncState := enc.map fun pw => ⟨pw, List.replicate 12 0⟩

theorem startInner_eq (o : FileOptions) : startInner o = .storer (encLayer o.encryptWith) := by
  unfold startInner encLayer
  cases o.encryptWith <;> rfl

theorem innerData_start (f : FileData) (enc : Option Bytes) :
    InnerData f enc [] (innerFor2 f.method f.level (encLayer enc)) := by
  unfold InnerData innerFor2 encLayer
  cases enc with
  | none =>
    by_cases h : f.method = .stored
    · left; exact ⟨h, by rw [if_pos h]; rfl⟩
    · right; exact ⟨h, by rw [if_neg h]; rfl⟩
  | some pw =>
    by_cases h : f.method = .stored
    · left; exact ⟨h, by rw [if_pos h, List.append_nil]; rfl⟩
    · right; exact ⟨h, by rw [if_neg h]; rfl⟩

theorem sunkData_start (f : FileData) (enc : Option Bytes) : sunkData f enc [] = [] := by
  cases enc <;> simp [sunkData]

/-- a freshly started entry -/
def newOpen (f : FileData) (raw : Bool) (plain : Bytes) (wf : Bool) (enc : Option Bytes) (ph : Phase) : Open2 :=
  ⟨f, raw, plain, [], wf, enc, [], [], ph⟩

theorem startFile_ghost2 (ext : WExt) (n : Bytes) (o : FileOptions)
    {r : Nat} {g : Ghost2} {s : WState} {d : Dev} (h : Lay2 r g s d) :
    WSat (startFile ext n o s) none d (fun rs d' =>
      Lay2 r (startG2 ext g n (fileOpts o) none fun es gap c f =>
        if okE rs.1 && writable (fileOpts o).method then
          .opened es gap c (newOpen f false [] true o.encryptWith .data) else .dead) rs.2 d') := by
  unfold startFile
  refine start_call2 ext n (fileOpts o) none h _
    (fun r1 es gap c f => if okE r1 && writable (fileOpts o).method then
      .opened es gap c (newOpen f false [] true o.encryptWith .data) else .dead) (fun _ _ => rfl) ?_
  intro es gap f dp s1 d1 hfin hsr ⟨_, hop, hin, hwr, hwf, hwe, hco, hsb, hsh, hcm⟩
  have hf := startRec2_rec hsr
  dsimp only at hop hin hwr hwf hwe hco hsb hsh hcm ⊢
  rw [startInner_eq] at hin
  rcases switchTo_from_storer2 ext (withFilePerm o 0o644 0o100000).method (withFilePerm o 0o644 0o100000).level s1 _ hin with ⟨hsw, hwr', _⟩ | ⟨⟨e, hsw⟩, _⟩
  · rw [hsw]
    apply WSat.pure
    have hw : (okE (Except.ok () : Except ZErr Unit) && writable (fileOpts o).method) = true := by
      show (true && writable (withFilePerm o 0o644 0o100000).method) = true
      rw [hwr']; rfl
    dsimp only
    rw [hw, if_pos rfl]
    refine ⟨dp, ?_, rfl, hcm, ?_⟩
    · show Op2 es gap r f dp [] [] (Open2.sunk (newOpen f false [] true o.encryptWith .data)) _ d1
      have : Open2.sunk (newOpen f false [] true o.encryptWith .data) = [] := by
        simp [Open2.sunk, newOpen, sunkData_start]
      rw [this]
      refine Op2.frame hop ?_ ?_ hop.live <;> rfl
    · show Mode2 (newOpen f false [] true o.encryptWith .data) _
      refine ⟨hwr, fun _ => by simp [newOpen], hsb, hsh, rfl, by rw [hf]; rfl, hwe, hco, ?_⟩
      show InnerData f o.encryptWith [] (innerFor2 _ _ _)
      have hm : (withFilePerm o 0o644 0o100000).method = f.method := by rw [hf]; rfl
      have hl : (withFilePerm o 0o644 0o100000).level = f.level := by rw [hf]; rfl
      rw [hm, hl]
      exact innerData_start f o.encryptWith
  · rw [hsw]
    exact WSat.pure rfl

theorem addDirectory_ghost2 (ext : WExt) (n : Bytes) (o : FileOptions)
    {r : Nat} {g : Ghost2} {s : WState} {d : Dev} (h : Lay2 r g s d) :
    WSat (addDirectory ext n o s) none d (fun rs d' =>
      Lay2 r (startG2 ext g (dirName n) (dirOpts o) none fun es gap c f =>
        if okE rs.1 then .opened es gap c (newOpen f false [] false o.encryptWith .data) else .dead) rs.2 d') := by
  unfold addDirectory
  refine start_call2 ext (dirName n) (dirOpts o) none h _
    (fun r1 es gap c f => if okE r1 then
      .opened es gap c (newOpen f false [] false o.encryptWith .data) else .dead) (fun _ _ => rfl) ?_
  intro es gap f dp s1 d1 hfin hsr ⟨_, hop, hin, hwr, hwf, hwe, hco, hsb, hsh, hcm⟩
  have hf := startRec2_rec hsr
  have hm : f.method = .stored := by rw [hf]; rfl
  dsimp only at hop hin hwr hwf hwe hco hsb hsh hcm ⊢
  rw [startInner_eq] at hin
  replace hin : s1.inner = .storer (encLayer o.encryptWith) := hin
  apply WSat.pure
  show Lay2 r (.opened es gap g.cmt (newOpen f false [] false o.encryptWith .data)) _ d1
  refine ⟨dp, ?_, rfl, hcm, ?_⟩
  · show Op2 es gap r f dp [] [] (Open2.sunk (newOpen f false [] false o.encryptWith .data)) _ d1
    have : Open2.sunk (newOpen f false [] false o.encryptWith .data) = [] := by
      simp [Open2.sunk, newOpen, sunkData_start]
    rw [this]
    refine Op2.frame hop ?_ ?_ hop.live <;> rfl
  · show Mode2 (newOpen f false [] false o.encryptWith .data) _
    refine ⟨hwr, fun _ => by simp [newOpen], hsb, hsh, rfl, by rw [hf]; rfl, hwe, hco, ?_⟩
    show InnerData f o.encryptWith [] s1.inner
    have := innerData_start f o.encryptWith
    rw [hm] at this
    rw [hin]
    simpa [innerFor2] using this

theorem addSymlink_ghost2 (ext : WExt) (n t : Bytes) (o : FileOptions)
    {r : Nat} {g : Ghost2} {s : WState} {d : Dev} (h : Lay2 r g s d) :
    WSat (addSymlink ext n t o s) none d (fun rs d' =>
      Lay2 r (startG2 ext g n (linkOpts o) none fun es gap c f =>
        if okE rs.1 then .opened es gap c (newOpen f false t false o.encryptWith .data) else .dead) rs.2 d') := by
  unfold addSymlink
  refine start_call2 ext n (linkOpts o) none h _
    (fun r1 es gap c f => if okE r1 then
      .opened es gap c (newOpen f false t false o.encryptWith .data) else .dead) (fun _ _ => rfl) ?_
  intro es gap f dp s1 d1 hfin hsr ⟨_, hop, hin, hwr, hwf, hwe, hco, hsb, hsh, hcm⟩
  have hf := startRec2_rec hsr
  have hm : f.method = .stored := by rw [hf]; rfl
  dsimp only at hop hin hwr hwf hwe hco hsb hsh hcm ⊢
  rw [startInner_eq] at hin
  replace hin : s1.inner = .storer (encLayer o.encryptWith) := hin
  obtain ⟨cf, hfiles, hcl⟩ := hop.files
  apply WSat.bind
  apply WSat.mono (writeData_lay2 t { s1 with writingToFile := true } rfl hwe hop.live)
  intro ⟨r2, s2⟩ d2 hq
  cases r2 with
  | error e => exact WSat.pure hq
  | ok u =>
    obtain ⟨hsb2, hco2, hb2, hh2, hbd2, hst2, hen2, _⟩ := hq
    apply WSat.pure
    show Lay2 r (.opened es gap g.cmt (newOpen f false t false o.encryptWith .data)) _ d2
    have hbound : f.largeFile = false → t.length ≤ 0xFFFFFFFF := by
      intro hlf
      have := hbd2 _ (show ({ s1 with writingToFile := true } : WState).files.getLast? = some _ from by
        show s1.files.getLast? = _
        rw [hfiles, List.getLast?_concat])
      rcases this with h1 | h1 | h1
      · have : f.largeFile = true := h1
        rw [hlf] at this; cases this
      · rw [h1]; simp
      · have : s1.statsBytes + t.length ≤ 0xFFFFFFFF := h1
        omega
    cases henc : o.encryptWith with
    | none =>
      rw [henc] at hin
      obtain ⟨hin2, hl2⟩ := hst2 hin
      refine ⟨dp, ?_, rfl, by show s2.comment = _; rw [hsb2.comment]; exact hcm, ?_⟩
      · show Op2 es gap r f dp [] [] (Open2.sunk (newOpen f false t false none .data)) _ d2
        have : Open2.sunk (newOpen f false t false none .data) = t := by
          simp [Open2.sunk, newOpen, sunkData, hm]
        rw [this]
        refine Op2.frame hop ?_ ?_ (hl2.cast ?_)
        · exact hsb2.files
        · exact hsb2.ss
        · simp only [List.append_nil]
      · show Mode2 (newOpen f false t false none .data) _
        refine ⟨by show s2.writingRaw = false; rw [hsb2.wr]; exact hwr, hbound, ?_, ?_, rfl,
          by rw [hf]; rfl, by show s2.writingToExtraField = false; rw [hsb2.we]; exact hwe,
          by show s2.centralOnly = false; rw [hco2]; exact hco, Or.inl ⟨hm, hin2⟩⟩
        · show s2.statsBytes = t.length
          rw [hb2]; show s1.statsBytes + t.length = t.length; rw [hsb]; omega
        · show s2.statsHasher = _
          rw [hh2]; show Spec.Crc32.updateBytes s1.statsHasher t = _; rw [hsh]; rfl
    | some pw =>
      rw [henc] at hin
      obtain ⟨hin2, hl2⟩ := hen2 _ hin
      refine ⟨dp, ?_, rfl, by show s2.comment = _; rw [hsb2.comment]; exact hcm, ?_⟩
      · show Op2 es gap r f dp [] [] (Open2.sunk (newOpen f false t false (some pw) .data)) _ d2
        have : Open2.sunk (newOpen f false t false (some pw) .data) = [] := by
          simp [Open2.sunk, newOpen, sunkData]
        rw [this]
        refine Op2.frame hop ?_ ?_ hl2
        · exact hsb2.files
        · exact hsb2.ss
      · show Mode2 (newOpen f false t false (some pw) .data) _
        refine ⟨by show s2.writingRaw = false; rw [hsb2.wr]; exact hwr, hbound, ?_, ?_, rfl,
          by rw [hf]; rfl, by show s2.writingToExtraField = false; rw [hsb2.we]; exact hwe,
          by show s2.centralOnly = false; rw [hco2]; exact hco, Or.inl ⟨hm, hin2⟩⟩
        · show s2.statsBytes = t.length
          rw [hb2]; show s1.statsBytes + t.length = t.length; rw [hsb]; omega
        · show s2.statsHasher = _
          rw [hh2]; show Spec.Crc32.updateBytes s1.statsHasher t = _; rw [hsh]; rfl

theorem rawCopy_ghost2 (ext : WExt) (src : FileData) (raw n : Bytes)
    (hraw : raw.length = src.compressedSize.toNat)
    {r : Nat} {g : Ghost2} {s : WState} {d : Dev} (h : Lay2 r g s d) :
    WSat (rawCopy ext src raw n s) none d (fun rs d' =>
      Lay2 r (startG2 ext g n (rawOpts src) (rawVals src) fun es gap c f =>
        if okE rs.1 then .opened es gap c (newOpen f true raw true none .data) else .dead) rs.2 d') := by
  unfold rawCopy
  refine start_call2 ext n (rawOpts src) (rawVals src) h _
    (fun r1 es gap c f => if okE r1 then
      .opened es gap c (newOpen f true raw true none .data) else .dead) (fun _ _ => rfl) ?_
  intro es gap f dp s1 d1 hfin hsr ⟨_, hop, hin, hwr, hwf, hwe, hco, hsb, hsh, hcm⟩
  have hf := startRec2_rec hsr
  have hcs : f.compressedSize = UInt64.ofNat raw.length := by
    rw [hf, hraw, UInt64.ofNat_toNat]; rfl
  dsimp only at hop hin hwr hwf hwe hco hsb hsh hcm ⊢
  replace hin : s1.inner = .storer none := hin
  apply WSat.mono (writeData_lay2 raw { s1 with writingToFile := true, writingRaw := true } rfl hwe hop.live)
  intro ⟨r2, s2⟩ d2 hq
  cases r2 with
  | error e => exact hq
  | ok u =>
    obtain ⟨hsb2, hco2, hb2, hh2, _, hst2, _, _⟩ := hq
    obtain ⟨hin2, hl2⟩ := hst2 hin
    show Lay2 r (.opened es gap g.cmt (newOpen f true raw true none .data)) s2 d2
    refine ⟨dp, ?_, by rw [hsb2.wf]; rfl, by rw [hsb2.comment]; exact hcm, ?_⟩
    · show Op2 es gap r f dp [] [] (Open2.sunk (newOpen f true raw true none .data)) s2 d2
      have : Open2.sunk (newOpen f true raw true none .data) = raw := by simp [Open2.sunk, newOpen]
      rw [this]
      refine Op2.frame hop ?_ ?_ (hl2.cast ?_)
      · exact hsb2.files
      · exact hsb2.ss
      · simp only [List.append_nil]
    · show ModeRaw (newOpen f true raw true none .data) s2
      exact ⟨by rw [hsb2.wr], hin2, hcs, by rw [hsb2.we]; exact hwe, by rw [hco2]; exact hco, rfl, rfl, rfl,
        rfl, by rw [hf]; rfl⟩

theorem startFileWithExtraData_ghost2 (ext : WExt) (n : Bytes) (o : FileOptions)
    (henc : o.encryptWith = none)
    {r : Nat} {g : Ghost2} {s : WState} {d : Dev} (h : Lay2 r g s d) :
    WSat (startFileWithExtraData ext n o s) none d (fun rs d' =>
      Lay2 r (startG2 ext g n (fileOpts o) none fun es gap c f =>
        .opened es gap c (newOpen f false [] true none .localX)) rs.2 d') := by
  unfold startFileWithExtraData
  refine start_call2 ext n (fileOpts o) none h _
    (fun _ es gap c f => .opened es gap c (newOpen f false [] true none .localX)) (fun _ _ => rfl) ?_
  intro es gap f dp s1 d1 hfin hsr ⟨_, hop, hin, hwr, hwf, hwe, hco, hsb, hsh, hcm⟩
  have hf := startRec2_rec hsr
  dsimp only at hop hin hwr hwf hwe hco hsb hsh hcm ⊢
  obtain ⟨cf, hfiles, hcl⟩ := hop.files
  have hin' : s1.inner = .storer none := by
    rw [hin]; unfold startInner
    show (match (withFilePerm o 0o644 0o100000).encryptWith with
      | some pw => Inner.storer (some { pw := pw, buffer := List.replicate 12 0 })
      | none => Inner.storer none) = _
    have : (withFilePerm o 0o644 0o100000).encryptWith = none := henc
    rw [this]
  rw [hfiles, List.getLast?_concat]
  apply WSat.pure
  show Lay2 r (.opened es gap g.cmt (newOpen f false [] true none .localX)) _ d1
  refine ⟨dp, ?_, rfl, hcm, ?_⟩
  · show Op2 es gap r f dp [] [] (Open2.sunk (newOpen f false [] true none .localX)) _ d1
    have : Open2.sunk (newOpen f false [] true none .localX) = [] := by
      simp [Open2.sunk, newOpen, sunkData_start]
    rw [this]
    refine Op2.frame hop ?_ ?_ hop.live
    · exact hfiles.symm
    · rfl
  · show Mode2 (newOpen f false [] true none .localX) _
    exact ⟨hwr, fun _ => by simp [newOpen], hsb, hsh, rfl, by rw [hf]; rfl, rfl, hco, hin', rfl, rfl, rfl,
      rfl⟩

/-! ### `write` -/

def Open2.writeData (o : Open2) (b : Bytes) : Open2 :=
  if o.raw then { o with junk := o.junk ++ b } else { o with plain := o.plain ++ b }

/-- `write(b)`: into the extra field in extra-data mode; into the entry's data when it accepts data (an
error then poisons the writer); refused without effect otherwise. -/
def Ghost2.write (b : Bytes) (ok : Bool) : Ghost2 → Ghost2
  | .opened done gap c o =>
    match o.phase with
    | .data =>
      if o.wf then (if ok then .opened done gap c (o.writeData b) else .dead) else .opened done gap c o
    | _ => .opened done gap c { o with cx := o.cx ++ b }
  | .stuck ss n wf =>
    if wf then
      (if ok then
        (if ss + (n + b.length) < 18446744073709551616 then .stuck ss (n + b.length) wf else .lost)
       else .dead)
    else .stuck ss n wf
  | .idle done gap c => .idle done gap c
  | .dead => .dead
  | .lost => .lost

theorem write_ghost2 (b : Bytes) {r : Nat} {g : Ghost2} {s : WState} {d : Dev} (h : Lay2 r g s d) :
    WSat (writeData b s) none d (fun rs d' => Lay2 r (g.write b (okE rs.1)) rs.2 d') := by
  cases g with
  | lost => exact lay2_lost _ _ _ _ (fun _ => rfl)
  | dead =>
    obtain ⟨r0, he⟩ := writeData_closed b h
    rw [he]; exact WSat.pure h
  | idle done gap c =>
    obtain ⟨r0, he⟩ := writeData_nofile b s h.2.1
    rw [he]; exact WSat.pure h
  | stuck ss n wf =>
    cases wf with
    | false =>
      obtain ⟨r0, he⟩ := writeData_nofile b s h.wf
      rw [he]; exact WSat.pure h
    | true =>
      apply WSat.mono (writeData_stuck b h)
      intro ⟨r1, s'⟩ d' hq
      cases r1 with
      | error e => exact hq
      | ok u =>
        show Lay2 r (if ss + (n + b.length) < 18446744073709551616 then _ else _) s' d'
        split
        · next hlt => exact hq.2 hlt
        · trivial
  | opened done gap c o =>
    by_cases hph : ¬ o.phase = .data
    · -- extra-data mode: the bytes go to the extra field of the record
      obtain ⟨hraw, hwe, hwfo, hncl⟩ := h.extra_mode hph
      obtain ⟨dp, hop, hwf, hc, hm⟩ := h
      obtain ⟨cf, hfiles, hcl⟩ := hop.files
      have hgw : ∀ ok, (Ghost2.opened done gap c o).write b ok = .opened done gap c { o with cx := o.cx ++ b } := by
        intro ok
        unfold Ghost2.write
        dsimp only
        split
        · next hp => exact absurd hp hph
        · rfl
      simp only [hgw]
      rw [writeData_extra b s (by rw [hwf]; exact hwfo) hwe hncl cf _ hfiles]
      apply WSat.pure
      refine ⟨dp, ⟨hop.live, ⟨cf, rfl, hcl⟩, hop.dp, hop.hs, hop.hsLt, hop.udd, hop.ss⟩, hwf, hc, ?_⟩
      show (if o.raw then _ else _)
      rw [hraw] at hm ⊢
      exact hm
    · have hph : o.phase = .data := Classical.not_not.mp hph
      obtain ⟨dp, hop, hwf, hc, hm⟩ := h
      have hwe : s.writingToExtraField = false :=
        Lay2.data_mode (r := r) (done := done) (gap := gap) (c := c) ⟨dp, hop, hwf, hc, hm⟩ hph
      have hgw : ∀ ok, (Ghost2.opened done gap c o).write b ok =
          if o.wf then (if ok then .opened done gap c (o.writeData b) else .dead) else .opened done gap c o := by
        intro ok; unfold Ghost2.write; dsimp only; rw [hph]
      simp only [hgw]
      cases hwfo : o.wf with
      | false =>
        obtain ⟨r0, he⟩ := writeData_nofile b s (by rw [hwf, hwfo])
        rw [he]
        apply WSat.pure
        simp only [Bool.false_eq_true, if_false]
        exact ⟨dp, hop, hwf, hc, hm⟩
      | true =>
        simp only [if_true]
        obtain ⟨cf, hfiles, hcl⟩ := hop.files
        apply WSat.mono (writeData_lay2 b s (by rw [hwf, hwfo]) hwe hop.live)
        intro ⟨r2, s2⟩ d2 hq
        cases r2 with
        | error e => exact hq
        | ok u =>
          obtain ⟨hsb2, hco2, hb2, hh2, hbd2, hst2, hen2, hcp2⟩ := hq
          show Lay2 r (.opened done gap c (o.writeData b)) s2 d2
          cases hraw : o.raw with
          | true =>
            rw [hraw] at hm; simp only [if_true] at hm
            obtain ⟨hwr, hin, hcs, _, hco, henc, hlx, hcx, _, hx0⟩ := hm
            obtain ⟨hin2, hl2⟩ := hst2 hin
            have hw : o.writeData b = { o with junk := o.junk ++ b } := by simp [Open2.writeData, hraw]
            rw [hw]
            refine ⟨dp, ?_, by show s2.writingToFile = o.wf; rw [hsb2.wf]; exact hwf,
              by rw [hsb2.comment]; exact hc, ?_⟩
            · refine Op2.frame hop hsb2.files hsb2.ss (hl2.cast ?_)
              simp [Open2.sunk, hraw]
            · show (if o.raw then _ else _)
              rw [hraw]; simp only [if_true]
              exact ⟨by rw [hsb2.wr]; exact hwr, hin2, hcs, by rw [hsb2.we]; exact hwe,
                by rw [hco2]; exact hco, henc, hlx, hcx, hph, hx0⟩
          | false =>
            rw [hraw] at hm; simp only [Bool.false_eq_true, if_false] at hm
            obtain ⟨hwr, hbd, hb, hh, hj, hx0, hphase⟩ := hm
            rw [hph] at hphase
            obtain ⟨_, hco, hin⟩ := hphase
            have hw : o.writeData b = { o with plain := o.plain ++ b } := by simp [Open2.writeData, hraw]
            rw [hw]
            have hbound : o.f.largeFile = false → (o.plain ++ b).length ≤ 0xFFFFFFFF := by
              intro hlf
              have := hbd2 _ (by rw [hfiles, List.getLast?_concat])
              rcases this with h1 | h1 | h1
              · have : o.f.largeFile = true := h1
                rw [hlf] at this; cases this
              · rw [h1, List.append_nil]; exact hbd hlf
              · rw [List.length_append, ← hb]; exact h1
            have hcommon : s2.writingRaw = false ∧ s2.statsBytes = (o.plain ++ b).length ∧
                s2.statsHasher = Spec.Crc32.updateBytes 0xFFFFFFFF (o.plain ++ b) ∧
                s2.writingToExtraField = false ∧ s2.centralOnly = false := by
              refine ⟨by rw [hsb2.wr]; exact hwr, by rw [hb2, hb, List.length_append],
                by rw [hh2, hh, updateBytes_append], by rw [hsb2.we]; exact hwe, by rw [hco2]; exact hco⟩
            have hfin : ∀ (i : Inner) (sunk' : Bytes),
                s2.inner = i → InnerData o.f o.enc (o.plain ++ b) i →
                sunkData o.f o.enc (o.plain ++ b) = sunk' →
                LiveAt d2 d2.pos (localsBytes done ++ gap ++
                  localHdr2 o.f dp o.f.versionNeeded (z64len o.f + o.lx.length) ++ o.lx ++ sunk') r →
                Lay2 r (.opened done gap c { o with plain := o.plain ++ b }) s2 d2 := by
              intro i sunk' hi hid hsk hl
              refine ⟨dp, ?_, by show s2.writingToFile = o.wf; rw [hsb2.wf]; exact hwf,
                by rw [hsb2.comment]; exact hc, ?_⟩
              · show Op2 done gap r o.f dp o.lx o.cx (Open2.sunk { o with plain := o.plain ++ b }) s2 d2
                have : Open2.sunk { o with plain := o.plain ++ b } = sunk' := by
                  simp [Open2.sunk, hraw, hsk]
                rw [this]
                exact Op2.frame hop hsb2.files hsb2.ss hl
              · show (if o.raw then _ else _)
                rw [hraw]; simp only [Bool.false_eq_true, if_false]
                refine ⟨hcommon.1, hbound, hcommon.2.1, hcommon.2.2.1, hj, hx0, ?_⟩
                show (match o.phase with | .data => _ | .localX => _ | .centralX => _)
                rw [hph]
                exact ⟨hcommon.2.2.2.1, hcommon.2.2.2.2, by rw [hi]; exact hid⟩
            have hsunk : o.sunk = sunkData o.f o.enc o.plain := by simp [Open2.sunk, hraw]
            unfold InnerData at hin
            obtain ⟨e0, henc⟩ : ∃ e0, o.enc = e0 := ⟨_, rfl⟩
            cases e0 with
            | none =>
              rw [henc] at hin
              rcases hin with ⟨hst, hin⟩ | ⟨hst, hin⟩
              · obtain ⟨hin2, hl2⟩ := hst2 hin
                refine hfin _ (o.plain ++ b) hin2 (by rw [henc]; exact Or.inl ⟨hst, rfl⟩)
                  (by rw [henc]; simp [sunkData, hst]) (hl2.cast ?_)
                rw [hsunk, henc]; simp [sunkData, hst]
              · obtain ⟨hin2, hl2⟩ := hcp2 _ _ _ _ hin
                refine hfin _ [] hin2 (by rw [henc]; exact Or.inr ⟨hst, rfl⟩)
                  (by rw [henc]; simp [sunkData, hst]) (hl2.cast ?_)
                rw [hsunk, henc]; simp [sunkData, hst]
            | some pw =>
              rw [henc] at hin
              rcases hin with ⟨hst, hin⟩ | ⟨hst, hin⟩
              · obtain ⟨hin2, hl2⟩ := hen2 _ hin
                refine hfin _ [] hin2 (by
                    rw [henc]; left; refine ⟨hst, ?_⟩
                    show Inner.storer (some (EncState.mk pw ((List.replicate 12 0 ++ o.plain) ++ b))) = _
                    rw [List.append_assoc]) (by rw [henc]; rfl) (hl2.cast ?_)
                rw [hsunk, henc]; rfl
              · obtain ⟨hin2, hl2⟩ := hcp2 _ _ _ _ hin
                refine hfin _ [] hin2 (by rw [henc]; exact Or.inr ⟨hst, rfl⟩) (by rw [henc]; rfl) (hl2.cast ?_)
                rw [hsunk, henc]; rfl

/-! ### `end_extra_data`, `end_local_start_central_extra_data`, `set_comment` as calls -/

theorem endExtra_fields {o o' : Open2} (hx : o.endExtra = .ok o') :
    o'.f = o.f ∧ o'.raw = o.raw ∧ o'.plain = o.plain ∧ o'.junk = o.junk ∧ o'.wf = o.wf ∧ o'.enc = o.enc ∧
    o'.cx = o.cx := by
  unfold Open2.endExtra at hx
  split at hx
  · cases hx
  · split at hx
    · split at hx
      · cases hx
      · cases hx; exact ⟨rfl, rfl, rfl, rfl, rfl, rfl, rfl⟩
    · cases hx; exact ⟨rfl, rfl, rfl, rfl, rfl, rfl, rfl⟩

theorem innerData_nil_inv {f : FileData} {i : Inner} (h : InnerData f none [] i) :
    i = innerFor f.method f.level := by
  unfold InnerData at h
  unfold innerFor
  rcases h with ⟨h1, h2⟩ | ⟨h1, h2⟩
  · rw [if_pos h1]; exact h2
  · rw [if_neg h1]; exact h2

/-- facts about an entry in extra-data mode -/
theorem Lay2.extra_facts {r : Nat} {done : List Spec.Zip.Entry} {gap c : Bytes} {o : Open2} {s : WState}
    {d : Dev} (h : Lay2 r (.opened done gap c o) s d) (hph : o.phase ≠ .data) :
    o.plain = [] ∧ o.enc = none := by
  obtain ⟨hraw, _, _, _⟩ := h.extra_mode hph
  obtain ⟨dp, hop, hwf, hc, hm⟩ := h
  rw [hraw] at hm; simp only [Bool.false_eq_true, if_false] at hm
  have := hm.2.2.2.2.2.2
  cases hp : o.phase with
  | data => exact absurd hp hph
  | localX => rw [hp] at this; exact ⟨this.2.2.2.1, this.2.2.2.2.1⟩
  | centralX => rw [hp] at this; exact ⟨this.2.2.2.1, this.2.2.2.2.1⟩

def Ghost2.endExtraCall : Ghost2 → Ghost2
  | .opened done gap c o =>
    if o.phase = .data then .opened done gap c o else
    match o.endExtra with
    | .ok o' => .opened done gap c o'
    | .unchanged => .opened done gap c o
    | .dead => .dead
  | .idle done gap c => .idle done gap c
  | .dead => .dead
  | .stuck ss n wf => .stuck ss n wf
  | .lost => .lost

/-- outside extra-data mode the two end calls are refused without effect -/
theorem endExtraData_noop (ext : WExt) (s : WState) (h : s.writingToExtraField = false ∨ s.inner = .closed) :
    ∃ e, endExtraData ext s = pure (.error e, s) := by
  rcases h with h | h
  · exact ⟨_, Props.C12.end_extra_data_not_begun_is_error ext s h⟩
  · exact endExtraData_closed ext h

theorem Lay2.no_extra {r : Nat} {g : Ghost2} {s : WState} {d : Dev} (h : Lay2 r g s d)
    (hg : ∀ done gap c o, g = .opened done gap c o → o.phase = .data) (hl : g ≠ .lost) :
    s.writingToExtraField = false ∨ s.inner = .closed := by
  cases g with
  | lost => exact absurd rfl hl
  | dead => exact Or.inr h
  | stuck ss n wf => exact Or.inl h.we
  | idle done gap c => exact Or.inl h.1.we
  | opened done gap c o => exact Or.inl (h.data_mode (hg _ _ _ _ rfl))

theorem endExtraCall_ghost2 (ext : WExt) {r : Nat} {g : Ghost2} {s : WState} {d : Dev} (h : Lay2 r g s d) :
    WSat (endExtraData ext s) none d (fun rs d' => Lay2 r g.endExtraCall rs.2 d') := by
  by_cases hx : ∃ done gap c o, g = .opened done gap c o ∧ o.phase ≠ .data
  · obtain ⟨done, gap, c, o, rfl, hph⟩ := hx
    obtain ⟨hraw, _⟩ := h.extra_mode hph
    apply WSat.mono (endExtraData_ghost ext h hraw hph)
    intro rs d' hq
    show Lay2 r (if o.phase = .data then _ else _) rs.2 d'
    rw [if_neg hph]
    cases hxr : o.endExtra with
    | ok o' => rw [hxr] at hq; exact hq.2
    | unchanged => rw [hxr] at hq; obtain ⟨_, h2, h3⟩ := hq; rw [h2, h3]; exact h
    | dead => rw [hxr] at hq; exact hq.2
  · by_cases hl : g = .lost
    · subst hl; exact lay2_lost _ _ _ _ (fun _ => rfl)
    have hdata : ∀ done gap c o, g = .opened done gap c o → o.phase = .data := by
      intro done gap c o hg
      exact Classical.not_not.mp (fun hp => hx ⟨done, gap, c, o, hg, hp⟩)
    obtain ⟨e, he⟩ := endExtraData_noop ext s (h.no_extra hdata hl)
    rw [he]
    apply WSat.pure
    have : g.endExtraCall = g := by
      cases g with
      | opened done gap c o =>
        show (if o.phase = .data then _ else _) = _
        rw [if_pos (hdata _ _ _ _ rfl)]
      | _ => rfl
    rw [this]; exact h

/-- `end_local_start_central_extra_data` on an entry in extra-data mode: `end_extra_data`, then the
record's extra field is emptied and the central-only mode entered. -/
def Open2.endLocal (o : Open2) : XRes :=
  match o.endExtra with
  | .ok o' => .ok { o' with cx := [], phase := .centralX }
  | .unchanged => .unchanged
  | .dead => .dead

theorem endLocal_ghost (ext : WExt) {r : Nat} {done : List Spec.Zip.Entry} {gap c : Bytes} {o : Open2}
    {s : WState} {d : Dev} (h : Lay2 r (.opened done gap c o) s d) (hph : o.phase ≠ .data) :
    WSat (endLocalStartCentral ext s) none d (XPost r done gap c s d o.endLocal) := by
  obtain ⟨hraw, _, hwfo, _⟩ := h.extra_mode hph
  obtain ⟨hpl, henc⟩ := h.extra_facts hph
  unfold endLocalStartCentral Open2.endLocal
  apply WSat.bind
  apply WSat.mono (endExtraData_ghost ext h hraw hph)
  intro ⟨r1, s'⟩ d' hq
  cases hx : o.endExtra with
  | unchanged =>
    rw [hx] at hq
    obtain ⟨⟨e, he⟩, h2, h3⟩ := hq
    dsimp only at he h2 h3
    subst he h2 h3
    exact WSat.pure ⟨⟨_, rfl⟩, rfl, rfl⟩
  | dead =>
    rw [hx] at hq
    obtain ⟨⟨e, he⟩, h2⟩ := hq
    dsimp only at he h2
    subst he
    exact WSat.pure ⟨⟨_, rfl⟩, h2⟩
  | ok o' =>
    rw [hx] at hq
    obtain ⟨⟨v, hv⟩, hl⟩ := hq
    dsimp only at hv hl
    subst hv
    obtain ⟨hf', hraw', hpl', hj', hwf', henc', hcx'⟩ := endExtra_fields hx
    have hph' := endExtra_phase hx
    obtain ⟨dp, hop, hwf, hc, hm⟩ := hl
    rw [hraw', hraw] at hm
    simp only [Bool.false_eq_true, if_false] at hm
    obtain ⟨hwr, hbd, hb, hh, hj, hx0, hphase⟩ := hm
    rw [hph'] at hphase
    obtain ⟨hwe, hco, hin⟩ := hphase
    obtain ⟨cf, hfiles, hcl⟩ := hop.files
    dsimp only
    rw [hfiles, List.getLast?_concat]
    dsimp only
    apply WSat.pure
    rw [setLast_snoc]
    refine ⟨⟨_, rfl⟩, dp, ?_, hwf, hc, ?_⟩
    · show Op2 done gap r o'.f dp o'.lx [] (Open2.sunk { o' with cx := [], phase := .centralX }) _ d'
      have : Open2.sunk { o' with cx := [], phase := .centralX } = o'.sunk := rfl
      rw [this]
      exact ⟨hop.live, ⟨cf, rfl, hcl⟩, hop.dp, hop.hs, hop.hsLt, hop.udd, hop.ss⟩
    · show (if o'.raw then _ else _)
      rw [hraw', hraw]
      simp only [Bool.false_eq_true, if_false]
      refine ⟨hwr, hbd, hb, hh, hj, hx0, rfl, rfl, ?_, by rw [hpl', hpl], by rw [henc', henc],
        by rw [hwf', hwfo]⟩
      show s'.inner = innerFor o'.f.method o'.f.level
      rw [hpl', hpl, henc', henc] at hin
      exact innerData_nil_inv hin

def Ghost2.endLocalCall : Ghost2 → Ghost2
  | .opened done gap c o =>
    if o.phase = .data then .opened done gap c o else
    match o.endLocal with
    | .ok o' => .opened done gap c o'
    | .unchanged => .opened done gap c o
    | .dead => .dead
  | .idle done gap c => .idle done gap c
  | .dead => .dead
  | .stuck ss n wf => .stuck ss n wf
  | .lost => .lost

theorem endLocalCall_ghost2 (ext : WExt) {r : Nat} {g : Ghost2} {s : WState} {d : Dev} (h : Lay2 r g s d) :
    WSat (endLocalStartCentral ext s) none d (fun rs d' => Lay2 r g.endLocalCall rs.2 d') := by
  by_cases hx : ∃ done gap c o, g = .opened done gap c o ∧ o.phase ≠ .data
  · obtain ⟨done, gap, c, o, rfl, hph⟩ := hx
    apply WSat.mono (endLocal_ghost ext h hph)
    intro rs d' hq
    show Lay2 r (if o.phase = .data then _ else _) rs.2 d'
    rw [if_neg hph]
    cases hxr : o.endLocal with
    | ok o' => rw [hxr] at hq; exact hq.2
    | unchanged => rw [hxr] at hq; obtain ⟨_, h2, h3⟩ := hq; rw [h2, h3]; exact h
    | dead => rw [hxr] at hq; exact hq.2
  · by_cases hl : g = .lost
    · subst hl; exact lay2_lost _ _ _ _ (fun _ => rfl)
    have hdata : ∀ done gap c o, g = .opened done gap c o → o.phase = .data := by
      intro done gap c o hg
      exact Classical.not_not.mp (fun hp => hx ⟨done, gap, c, o, hg, hp⟩)
    obtain ⟨e, he⟩ := endExtraData_noop ext s (h.no_extra hdata hl)
    have : endLocalStartCentral ext s = pure (.error e, s) := by
      unfold endLocalStartCentral; rw [he]; rfl
    rw [this]
    apply WSat.pure
    have : g.endLocalCall = g := by
      cases g with
      | opened done gap c o =>
        show (if o.phase = .data then _ else _) = _
        rw [if_pos (hdata _ _ _ _ rfl)]
      | _ => rfl
    rw [this]; exact h

def Ghost2.setComment (c' : Bytes) : Ghost2 → Ghost2
  | .idle done gap _ => .idle done gap c'
  | .opened done gap _ o => .opened done gap c' o
  | .dead => .dead
  | .stuck ss n wf => .stuck ss n wf
  | .lost => .lost

theorem setComment_ghost2 (c' : Bytes) {r : Nat} {g : Ghost2} {s : WState} {d : Dev} (h : Lay2 r g s d) :
    Lay2 r (g.setComment c') { s with comment := c' } d := by
  cases g with
  | dead => exact h
  | lost => exact h
  | stuck ss n wf => exact ⟨h.inner, h.wr, h.we, h.files, h.start, h.pos, h.le, h.big, h.lt, h.wf⟩
  | idle done gap c =>
    obtain ⟨hcl, hwf, hidle, _, hco⟩ := h
    exact ⟨⟨hcl.live, hcl.closed, hcl.inner, hcl.we⟩, hwf, hidle, rfl, hco⟩
  | opened done gap c o =>
    obtain ⟨dp, hop, hwf, _, hm⟩ := h
    refine ⟨dp, by refine Op2.frame hop ?_ ?_ hop.live <;> rfl, hwf, rfl, ?_⟩
    cases hr : o.raw
    · rw [hr] at hm; exact hm
    · rw [hr] at hm; exact hm

/-! ### `start_file_aligned` -/

theorem M.bind_assoc {α β γ} (x : M α) (f : α → M β) (g : β → M γ) :
    (x >>= f) >>= g = x >>= fun a => f a >>= g := by
  funext fa d
  simp only [M.bind_apply]
  cases h : x fa d with
  | mk o d' => cases o <;> rfl

/-- `write` in extra-data mode, as an equation -/
theorem write_extra_ghost (b : Bytes) {r : Nat} {done : List Spec.Zip.Entry} {gap c : Bytes} {o : Open2}
    {s : WState} {d : Dev} (h : Lay2 r (.opened done gap c o) s d) (hph : o.phase ≠ .data) :
    ∃ s', writeData b s = pure (.ok (), s') ∧ Lay2 r (.opened done gap c { o with cx := o.cx ++ b }) s' d := by
  obtain ⟨hraw, hwe, hwfo, hncl⟩ := h.extra_mode hph
  obtain ⟨dp, hop, hwf, hc, hm⟩ := h
  obtain ⟨cf, hfiles, hcl⟩ := hop.files
  refine ⟨_, writeData_extra b s (by rw [hwf]; exact hwfo) hwe hncl cf _ hfiles, ?_⟩
  refine ⟨dp, ⟨hop.live, ⟨cf, rfl, hcl⟩, hop.dp, hop.hs, hop.hsLt, hop.udd, hop.ss⟩, hwf, hc, ?_⟩
  show (if o.raw then _ else _)
  rw [hraw] at hm ⊢
  exact hm

/-- the padding record `start_file_aligned` writes: id 0x617a, length, zeros -/
def padRecord (pad : Nat) : Bytes :=
  [0x7a, 0x61] ++ le16 (UInt16.ofNat pad) ++ List.replicate pad 0

/-- `start_file_aligned` after `start_file_with_extra_data` pushed `f`: pad (when the data start `ds0`
is not aligned) through the local extra field, then leave extra-data mode. -/
def alignedAfter (align : UInt16) (es : List Spec.Zip.Entry) (gap c : Bytes) (f : FileData) : Ghost2 :=
  let o1 := newOpen f false [] true none .localX
  let ds0 := o1.dataStart es gap
  let a := align.toNat
  if a > 1 ∧ ds0 % a ≠ 0 then
    let o2 : Open2 := { o1 with cx := padRecord ((a - (ds0 + 4) % a) % a) }
    match o2.endLocal with
    | .unchanged => .opened es gap c o2
    | .dead => .dead
    | .ok o3 =>
      match o3.endExtra with
      | .ok o4 => .opened es gap c o4
      | .unchanged => .opened es gap c o3
      | .dead => .dead
  else
    match o1.endExtra with
    | .ok o4 => .opened es gap c o4
    | .unchanged => .opened es gap c o1
    | .dead => .dead

theorem lay2_of_localX_start {r : Nat} {es : List Spec.Zip.Entry} {gap c : Bytes} {f : FileData}
    {dp : UInt16} {o : FileOptions} {s1 : WState} {d1 : Dev} (henc : o.encryptWith = none)
    (hx0 : f.extraField = [])
    (hp : StartPost2 es gap r c false f dp o (.ok (), s1) d1) :
    Lay2 r (.opened es gap c (newOpen f false [] true none .localX))
      { s1 with writingToFile := true, writingToExtraField := true } d1 := by
  obtain ⟨_, hop, hin, hwr, hwf, hwe, hco, hsb, hsh, hcm⟩ := hp
  dsimp only at hop hin hwr hwf hwe hco hsb hsh hcm
  have hin' : s1.inner = .storer none := by
    rw [hin]; unfold startInner; rw [henc]
  refine ⟨dp, ?_, rfl, hcm, ?_⟩
  · show Op2 es gap r f dp [] [] (Open2.sunk (newOpen f false [] true none .localX)) _ d1
    have : Open2.sunk (newOpen f false [] true none .localX) = [] := by
      simp [Open2.sunk, newOpen, sunkData_start]
    rw [this]
    refine Op2.frame hop ?_ ?_ hop.live <;> rfl
  · show Mode2 (newOpen f false [] true none .localX) _
    exact ⟨hwr, fun _ => by simp [newOpen], hsb, hsh, rfl, hx0, rfl, hco, hin', rfl, rfl, rfl, rfl⟩

theorem startFileAligned_ghost2 (ext : WExt) (n : Bytes) (o : FileOptions) (align : UInt16)
    (henc : o.encryptWith = none)
    {r : Nat} {g : Ghost2} {s : WState} {d : Dev} (h : Lay2 r g s d) :
    WSat (startFileAligned ext n o align s) none d (fun rs d' =>
      Lay2 r (startG2 ext g n (fileOpts o) none (alignedAfter align)) rs.2 d') := by
  unfold startFileAligned startFileWithExtraData
  rw [M.bind_assoc]
  refine start_call2 ext n (fileOpts o) none h _ (fun _ => alignedAfter align) (fun _ _ => rfl) ?_
  intro es gap f dp s1 d1 hfin hsr hp
  have hf := startRec2_rec hsr
  have hl1 := lay2_of_localX_start (r := r) henc (by rw [hf]; rfl) hp
  obtain ⟨_, hop, _⟩ := hp
  dsimp only at hop
  obtain ⟨cf, hfiles, hcl⟩ := hop.files
  have hds : (UInt64.ofNat s1.statsStart).toNat = (newOpen f false [] true none .localX).dataStart es gap := by
    rw [toNat_ofNat_lt (by rw [hop.ss]; have := hop.hsLt; simp; omega), hop.ss]
    rfl
  dsimp only
  rw [hfiles, List.getLast?_concat]
  rw [hfiles] at hl1
  show WSat ((pure (Except.ok (curRec f [] (UInt64.ofNat s1.statsStart)).dataStart.toNat, _) : M _) >>= _) none d1 _
  have hdse : (curRec f [] (UInt64.ofNat s1.statsStart)).dataStart.toNat =
      (newOpen f false [] true none .localX).dataStart es gap := hds
  rw [hdse]
  generalize hds0 : (newOpen f false [] true none .localX).dataStart es gap = ds0
  have hA : alignedAfter align es gap g.cmt f =
      (if align.toNat > 1 ∧ ds0 % align.toNat ≠ 0 then
        (match (Open2.endLocal { newOpen f false [] true none .localX with
            cx := padRecord ((align.toNat - (ds0 + 4) % align.toNat) % align.toNat) }) with
          | .unchanged => .opened es gap g.cmt { newOpen f false [] true none .localX with
              cx := padRecord ((align.toNat - (ds0 + 4) % align.toNat) % align.toNat) }
          | .dead => .dead
          | .ok o3 =>
            match o3.endExtra with
            | .ok o4 => .opened es gap g.cmt o4
            | .unchanged => .opened es gap g.cmt o3
            | .dead => .dead)
       else
        (match (newOpen f false [] true none .localX).endExtra with
          | .ok o4 => .opened es gap g.cmt o4
          | .unchanged => .opened es gap g.cmt (newOpen f false [] true none .localX)
          | .dead => .dead)) := by
    unfold alignedAfter
    simp only [hds0]
  rw [hA]
  apply WSat.bind
  apply WSat.pure
  dsimp only
  -- the tail: `end_extra_data` on whatever entry `o3` the padding step left in extra-data mode
  have htail : ∀ (o3 : Open2) (s3 : WState) (d3 : Dev), Lay2 r (.opened es gap g.cmt o3) s3 d3 →
      o3.phase ≠ .data →
      WSat (do
        let __x ← endExtraData ext s3
        match __x.fst with
          | Except.error e => pure (Except.error e, __x.snd)
          | Except.ok extraDataEnd =>
            if extraDataEnd < ds0 then M.panic "write.rs:518 sub"
            else pure (Except.ok (extraDataEnd - ds0), __x.snd)) none d3
        (fun rs d' => Lay2 r (match o3.endExtra with
          | .ok o4 => .opened es gap g.cmt o4
          | .unchanged => .opened es gap g.cmt o3
          | .dead => .dead) rs.2 d') := by
    intro o3 s3 d3 hl3 hph3
    obtain ⟨hraw3, _⟩ := hl3.extra_mode hph3
    apply WSat.bind
    apply WSat.mono (endExtraData_ghost ext hl3 hraw3 hph3)
    intro ⟨r4, s4⟩ d4 hq
    cases hx : o3.endExtra with
    | unchanged =>
      rw [hx] at hq
      obtain ⟨⟨e, he⟩, h2, h3⟩ := hq
      dsimp only at he h2 h3
      subst he h2 h3
      exact WSat.pure hl3
    | dead =>
      rw [hx] at hq
      obtain ⟨⟨e, he⟩, h2⟩ := hq
      dsimp only at he h2
      subst he
      exact WSat.pure h2
    | ok o4 =>
      rw [hx] at hq
      obtain ⟨⟨v, hv⟩, hl4⟩ := hq
      dsimp only at hv hl4
      subst hv
      dsimp only
      split
      · exact WSat.panic
      · exact WSat.pure hl4
  have hph1 : (newOpen f false [] true none .localX).phase ≠ .data := by intro h'; cases h'
  by_cases hpad : align.toNat > 1 ∧ ds0 % align.toNat ≠ 0
  · have hcond : (decide (align.toNat > 1) && ds0 % align.toNat != 0) = true := by
      simp only [Bool.and_eq_true, decide_eq_true_eq, bne_iff_ne]; exact hpad
    rw [if_pos hcond, if_pos hpad]
    obtain ⟨s2, he2, hl2⟩ := write_extra_ghost [122, 97] hl1 hph1
    obtain ⟨s3, he3, hl3⟩ := write_extra_ghost
      (le16 (UInt16.ofNat ((align.toNat - (ds0 + 4) % align.toNat) % align.toNat))) hl2 hph1
    obtain ⟨s4, he4, hl4⟩ := write_extra_ghost
      (List.replicate ((align.toNat - (ds0 + 4) % align.toNat) % align.toNat) 0) hl3 hph1
    have hoeq : ({ ({ ({ newOpen f false [] true none .localX with
        cx := (newOpen f false [] true none .localX).cx ++ [122, 97] } : Open2) with
        cx := ((newOpen f false [] true none .localX).cx ++ [122, 97]) ++
          le16 (UInt16.ofNat ((align.toNat - (ds0 + 4) % align.toNat) % align.toNat)) } : Open2) with
        cx := (((newOpen f false [] true none .localX).cx ++ [122, 97]) ++
          le16 (UInt16.ofNat ((align.toNat - (ds0 + 4) % align.toNat) % align.toNat))) ++
          List.replicate ((align.toNat - (ds0 + 4) % align.toNat) % align.toNat) 0 } : Open2) =
        { newOpen f false [] true none .localX with
          cx := padRecord ((align.toNat - (ds0 + 4) % align.toNat) % align.toNat) } := by
      simp [newOpen, padRecord]
    rw [hoeq] at hl4
    rw [he2]
    apply WSat.bind; apply WSat.bind; apply WSat.pure; dsimp only
    rw [he3]
    apply WSat.bind; apply WSat.pure; dsimp only
    rw [he4]
    apply WSat.bind; apply WSat.pure; dsimp only
    apply WSat.bind
    apply WSat.mono (endLocal_ghost ext hl4 hph1)
    intro ⟨r5, s5⟩ d5 hq
    cases hx : (Open2.endLocal { newOpen f false [] true none .localX with
        cx := padRecord ((align.toNat - (ds0 + 4) % align.toNat) % align.toNat) }) with
    | unchanged =>
      rw [hx] at hq
      obtain ⟨⟨e, he⟩, h2, h3⟩ := hq
      dsimp only at he h2 h3
      subst he h2 h3
      dsimp only
      apply WSat.pure; dsimp only
      exact WSat.pure hl4
    | dead =>
      rw [hx] at hq
      obtain ⟨⟨e, he⟩, h2⟩ := hq
      dsimp only at he h2
      subst he
      dsimp only
      apply WSat.pure; dsimp only
      exact WSat.pure h2
    | ok o3 =>
      rw [hx] at hq
      obtain ⟨⟨v, hv⟩, hl5⟩ := hq
      dsimp only at hv hl5
      subst hv
      dsimp only
      have hph3 : o3.phase ≠ .data := by
        unfold Open2.endLocal at hx
        split at hx
        · cases hx; intro h'; cases h'
        · cases hx
        · cases hx
      split
      · exact WSat.panic
      · apply WSat.pure; dsimp only
        exact htail o3 s5 d5 hl5 hph3
  · have hcond : ¬ (decide (align.toNat > 1) && ds0 % align.toNat != 0) = true := by
      simp only [Bool.and_eq_true, decide_eq_true_eq, bne_iff_ne]; exact hpad
    rw [if_neg hcond, if_neg hpad]
    apply WSat.bind; apply WSat.pure; dsimp only
    exact htail _ _ _ hl1 hph1

/-! ### The ghost transition over the whole alphabet, one call, scripts -/

/-- What a call that returned `out` does to the expected archive (Level 2: every call). -/
def ghostStep2 (ext : WExt) (g : Ghost2) (call : Call) (out : Out (Option Nat)) : Ghost2 :=
  match out with
  | .panic _ => .lost
  | out =>
    match call with
    | .startFile n o =>
      startG2 ext g n (fileOpts o) none fun es gap c f =>
        if okO out && writable (fileOpts o).method then
          .opened es gap c (newOpen f false [] true o.encryptWith .data) else .dead
    | .addDirectory n o =>
      startG2 ext g (dirName n) (dirOpts o) none fun es gap c f =>
        if okO out then .opened es gap c (newOpen f false [] false o.encryptWith .data) else .dead
    | .addSymlink n t o =>
      startG2 ext g n (linkOpts o) none fun es gap c f =>
        if okO out then .opened es gap c (newOpen f false t false o.encryptWith .data) else .dead
    | .rawCopy src raw n =>
      startG2 ext g n (rawOpts src) (rawVals src) fun es gap c f =>
        if okO out then .opened es gap c (newOpen f true raw true none .data) else .dead
    | .startFileWithExtraData n o =>
      startG2 ext g n (fileOpts o) none fun es gap c f =>
        .opened es gap c (newOpen f false [] true none .localX)
    | .startFileAligned n o a => startG2 ext g n (fileOpts o) none (alignedAfter a)
    | .write b => g.write b (okO out)
    | .endExtraData => g.endExtraCall
    | .endLocalStartCentral => g.endLocalCall
    | .setComment c' => g.setComment c'
    | .finish => g
    | .drop => g

def ghostOf2 (ext : WExt) : Ghost2 → List Call → List (Out (Option Nat)) → Ghost2
  | g, c :: cs, o :: os => ghostOf2 ext (ghostStep2 ext g c o) cs os
  | g, _, _ => g

/-- The whole call alphabet, as `Props.C12.Call.Admissible` admits it (timestamps of the public API;
the encryption option not together with the extra-data calls); a raw copy's bytes have the length its
source records; `finish` / `Drop` close the script. -/
def Level2 (c : Call) : Prop :=
  c.Admissible ∧
  match c with
  | .rawCopy src raw _ => raw.length = src.compressedSize.toNat
  | .finish => False
  | .drop => False
  | _ => True

instance : DecidablePred Level2 := fun c => by
  unfold Level2
  cases c <;> infer_instance

theorem ghostStep2_outcomeOf (ext : WExt) (g : Ghost2) (c : Call) (r : Except ZErr (Option Nat)) :
    ghostStep2 ext g c (outcomeOf r) = (match c with
      | .startFile n o =>
        startG2 ext g n (fileOpts o) none fun es gap c f =>
          if okE r && writable (fileOpts o).method then
            .opened es gap c (newOpen f false [] true o.encryptWith .data) else .dead
      | .addDirectory n o =>
        startG2 ext g (dirName n) (dirOpts o) none fun es gap c f =>
          if okE r then .opened es gap c (newOpen f false [] false o.encryptWith .data) else .dead
      | .addSymlink n t o =>
        startG2 ext g n (linkOpts o) none fun es gap c f =>
          if okE r then .opened es gap c (newOpen f false t false o.encryptWith .data) else .dead
      | .rawCopy src raw n =>
        startG2 ext g n (rawOpts src) (rawVals src) fun es gap c f =>
          if okE r then .opened es gap c (newOpen f true raw true none .data) else .dead
      | .startFileWithExtraData n o =>
        startG2 ext g n (fileOpts o) none fun es gap c f =>
          .opened es gap c (newOpen f false [] true none .localX)
      | .startFileAligned n o a => startG2 ext g n (fileOpts o) none (alignedAfter a)
      | .write b => g.write b (okE r)
      | .endExtraData => g.endExtraCall
      | .endLocalStartCentral => g.endLocalCall
      | .setComment c' => g.setComment c'
      | .finish => g
      | .drop => g) := by
  cases r <;> cases c <;> rfl

/-- **Every call of the alphabet keeps the sink in step with the ghost** (fault-free sink). -/
theorem lay_step2 (ext : WExt) (c : Call) (hc : Level2 c) {r : Nat} {g : Ghost2} {s : WState}
    {d : Dev} (h : Lay2 r g s d) :
    WSat (step ext c s) none d (fun rs d' => Lay2 r (ghostStep2 ext g c (outcomeOf rs.1)) rs.2 d') := by
  simp only [ghostStep2_outcomeOf]
  obtain ⟨ha, hx⟩ := hc
  cases c with
  | startFile n o =>
    apply mapStep_wsat _ _ s none d _ _ (startFile_ghost2 ext n o h)
    intro r1 s' d' hq
    simp only [okE_map]; exact hq
  | addDirectory n o =>
    apply mapStep_wsat _ _ s none d _ _ (addDirectory_ghost2 ext n o h)
    intro r1 s' d' hq
    simp only [okE_map]; exact hq
  | addSymlink n t o =>
    apply mapStep_wsat _ _ s none d _ _ (addSymlink_ghost2 ext n t o h)
    intro r1 s' d' hq
    simp only [okE_map]; exact hq
  | rawCopy src raw n =>
    apply mapStep_wsat _ _ s none d _ _ (rawCopy_ghost2 ext src raw n hx h)
    intro r1 s' d' hq
    simp only [okE_map]; exact hq
  | startFileWithExtraData n o =>
    apply mapStep_wsat _ _ s none d _ _ (startFileWithExtraData_ghost2 ext n o ha.2 h)
    intro r1 s' d' hq; exact hq
  | startFileAligned n o a =>
    apply mapStep_wsat _ _ s none d _ _ (startFileAligned_ghost2 ext n o a ha.2 h)
    intro r1 s' d' hq; exact hq
  | write b =>
    apply mapStep_wsat _ _ s none d _ _ (write_ghost2 b h)
    intro r1 s' d' hq
    simp only [okE_map]; exact hq
  | endExtraData =>
    apply mapStep_wsat _ _ s none d _ _ (endExtraCall_ghost2 ext h)
    intro r1 s' d' hq; exact hq
  | endLocalStartCentral =>
    apply mapStep_wsat _ _ s none d _ _ (endLocalCall_ghost2 ext h)
    intro r1 s' d' hq; exact hq
  | setComment c' => exact WSat.pure (setComment_ghost2 c' h)
  | finish => exact hx.elim
  | drop => exact hx.elim

theorem ghostOf2_nil_outs (ext : WExt) (g : Ghost2) (cs : List Call) : ghostOf2 ext g cs [] = g := by
  cases cs <;> rfl

theorem run_lay2 (ext : WExt) (calls : List Call) (hc : ∀ c ∈ calls, Level2 c) (r : Nat) :
    ∀ (g : Ghost2) (s : WState) (d : Dev), Inv s → Lay2 r g s d →
      Lay2 r (ghostOf2 ext g calls (runCalls ext calls s none d).1) (runCalls ext calls s none d).2.1
        (runCalls ext calls s none d).2.2 := by
  induction calls with
  | nil => intro g s d _ h; exact h
  | cons c cs ih =>
    intro g s d hI h
    have hstep := lay_step2 ext c (hc c (by simp)) h
    have hinv := Props.C12.inv_step ext c (hc c (by simp)).1 s hI none d
    have ih' := ih (fun c' h' => hc c' (by simp [h']))
    unfold Sat at hinv
    unfold runCalls
    split
    · next v s' d' heq =>
      rw [heq] at hinv
      exact ih' _ s' d' hinv (hstep.elim heq)
    · next e s' d' heq =>
      rw [heq] at hinv
      exact ih' _ s' d' hinv (hstep.elim heq)
    · next e d' heq =>
      rw [heq] at hinv
      exact hinv.elim
    · next site d' heq =>
      show Lay2 r (ghostOf2 ext (ghostStep2 ext g c (.panic site)) cs []) s d'
      rw [ghostOf2_nil_outs]
      trivial

/-! ### `finish` -/

theorem Ghost2.close_fin {ext : WExt} {g : Ghost2} {es : List Spec.Zip.Entry} {gap c : Bytes}
    (hg : g.close ext = some (es, gap, c)) : g.fin ext = .ok es gap ∧ c = g.cmt := by
  unfold Ghost2.close at hg
  split at hg
  · cases hg; exact ⟨by assumption, rfl⟩
  · cases hg

theorem finish_ghost2 (ext : WExt) {r : Nat} {g : Ghost2} {s : WState} {d : Dev} (h : Lay2 r g s d)
    {es : List Spec.Zip.Entry} {gap c : Bytes} (hg : g.close ext = some (es, gap, c)) :
    WSat (finish ext s) none d (fun rs d' =>
      FinalPost es gap c r s d rs d' ∧ (rs.1 = .ok () → rs.2.inner = .closed)) := by
  obtain ⟨hfinr, hcg⟩ := Ghost2.close_fin hg
  have hcm : s.comment = c := by rw [hcg]; exact h.cmt_eq (ext := ext) hfinr
  unfold FinalPost
  by_cases hc : s.comment.length > 65535
  · rw [finish_long_comment ext s hc]
    apply WSat.pure
    rw [← hcm, if_pos hc]
    exact ⟨⟨rfl, rfl, rfl⟩, fun h' => by cases h'⟩
  · have hfin : WSat (finishFile ext s) none d (FinPost es gap r s.comment) := by
      apply WSat.mono (finishFile_ghost2 ext h)
      intro rs d' hq
      rw [hfinr] at hq
      rw [hcm, hcg]
      exact hq.1
    rw [← hcm]
    simp only [if_neg hc]
    unfold finish
    apply WSat.bind
    apply WSat.mono (finalize_lay ext hc hfin)
    intro ⟨r1, s1⟩ d1 ⟨hok, hin, hl⟩
    dsimp only at hok hin hl ⊢
    subst hok
    dsimp only
    simp only [hin]
    exact WSat.pure ⟨⟨rfl, hl⟩, fun _ => rfl⟩

/-- a writer whose ghost closes is not closed -/
theorem Lay2.not_closed {ext : WExt} {r : Nat} {g : Ghost2} {s : WState} {d : Dev} (h : Lay2 r g s d)
    {es : List Spec.Zip.Entry} {gap : Bytes} (hg : g.fin ext = .ok es gap) : s.inner.isClosed = false := by
  cases g with
  | dead => cases hg
  | stuck ss n wf => cases hg
  | lost => cases hg
  | idle done gap0 c0 => rw [h.1.inner]; rfl
  | opened done gap0 c0 o =>
    by_cases hph : o.phase = .data
    · obtain ⟨dp, hop, hwf, hc, hm⟩ := h
      cases hr : o.raw with
      | true =>
        rw [hr] at hm; simp only [if_true] at hm
        rw [hm.2.1]; rfl
      | false =>
        rw [hr] at hm; simp only [Bool.false_eq_true, if_false] at hm
        have := hm.2.2.2.2.2.2
        rw [hph] at this
        have hi := this.2.2
        unfold InnerData at hi
        cases henc : o.enc with
        | none => rw [henc] at hi; rcases hi with ⟨_, hi⟩ | ⟨_, hi⟩ <;> rw [hi] <;> rfl
        | some pw => rw [henc] at hi; rcases hi with ⟨_, hi⟩ | ⟨_, hi⟩ <;> rw [hi] <;> rfl
    · have := (h.extra_mode hph).2.2.2
      cases hi : s.inner with
      | closed => exact absurd hi this
      | storer enc => rfl
      | compressor m l enc p => rfl

/-- **`Drop`** on a writer whose ghost closes and whose comment fits: `finalize` succeeds, leaves the
plain storer behind (dropping the fields then writes nothing), and the live part of the sink is the layout. -/
theorem drop_ghost2 (ext : WExt) {r : Nat} {g : Ghost2} {s : WState} {d : Dev} (h : Lay2 r g s d)
    {es : List Spec.Zip.Entry} {gap c : Bytes} (hg : g.close ext = some (es, gap, c))
    (hclen : ¬ c.length > 65535) :
    WSat (dropWriter ext s) none d (fun rs d' =>
      rs.1 = .ok () ∧ LiveAt d' d'.pos (build (layoutOf es gap c [])) r) := by
  obtain ⟨hfinr, hcg⟩ := Ghost2.close_fin hg
  have hcm : s.comment = c := by rw [hcg]; exact h.cmt_eq (ext := ext) hfinr
  have hncl := h.not_closed hfinr
  unfold dropWriter
  rw [hncl]
  simp only [Bool.false_eq_true, if_false]
  have hfin : WSat (finishFile ext s) none d (FinPost es gap r s.comment) := by
    apply WSat.mono (finishFile_ghost2 ext h)
    intro rs d' hq
    rw [hfinr] at hq
    rw [hcm, hcg]
    exact hq.1
  rw [← hcm] at hclen ⊢
  apply WSat.bind
  apply WSat.mono (finalize_lay ext hclen hfin)
  intro ⟨r1, s1⟩ d1 ⟨hok, hin, hl⟩
  dsimp only at hin ⊢
  unfold dropInner
  simp only [hin]
  exact WSat.pure ⟨rfl, hl⟩

end ZipVerif.WL
