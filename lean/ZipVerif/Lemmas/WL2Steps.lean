import ZipVerif.Lemmas.WL2Records
/-
Level 2 step lemmas: an open entry with local extra data `lx` in the sink, central extra data `cx` in
its record, and possibly a ZipCrypto buffer in front of the sink.
-/

namespace ZipVerif.WL
open ZipVerif ZipVerif.Model ZipVerif.Spec.Zip

/-! ### Predicates -/

/-- the record at the end of `files` for an open entry that `start_entry` pushed as `f0` -/
def curRec (f0 : FileData) (cx : Bytes) (ds : UInt64) : FileData :=
  { f0 with extraField := cx, dataStart := ds }

/-- length of the local header of `f` as `start_entry` writes it -/
def hdrLen (f : FileData) : Nat := 30 + f.fileName.length + z64len f

/-- One entry (not a raw copy) is open: header (extra length = ZIP64 record + `lx`), local extra data
`lx` and the bytes `sunk` are in the sink; the record holds the central extra data `cx`. -/
structure Op2 (done : List Spec.Zip.Entry) (gap : Bytes) (r : Nat) (f0 : FileData) (dp : UInt16)
    (lx cx sunk : Bytes) (s : WState) (d : Dev) : Prop where
  live : LiveAt d d.pos (localsBytes done ++ gap ++
    localHdr2 f0 dp f0.versionNeeded (z64len f0 + lx.length) ++ lx ++ sunk) r
  files : ∃ cf, s.files = cf ++ [curRec f0 cx (UInt64.ofNat s.statsStart)] ∧ ClosedAll done 0 cf
  dp : f0.time.datepart = some dp
  hs : f0.headerStart = UInt64.ofNat ((localsBytes done).length + gap.length)
  hsLt : (localsBytes done).length + gap.length + hdrLen f0 < 18446744073709551616
  udd : f0.usingDataDescriptor = false
  ss : s.statsStart = (localsBytes done).length + gap.length + hdrLen f0 + lx.length

theorem Op2.frame {done gap r f0 dp lx cx sunk s d s'} (h : Op2 done gap r f0 dp lx cx sunk s d)
    (hf : s'.files = s.files) (hss : s'.statsStart = s.statsStart) {d' : Dev} {sunk' : Bytes}
    (hl : LiveAt d' d'.pos (localsBytes done ++ gap ++
      localHdr2 f0 dp f0.versionNeeded (z64len f0 + lx.length) ++ lx ++ sunk') r) :
    Op2 done gap r f0 dp lx cx sunk' s' d' :=
  ⟨hl, by rw [hf, hss]; exact h.files, h.dp, h.hs, h.hsLt, h.udd, by rw [hss]; exact h.ss⟩

/-! ### `switch_to` with an encryption layer -/

theorem switchTo_stored_of_storer2 (ext : WExt) (l : Option Int) (s : WState) (enc : Option EncState)
    (h : s.inner = .storer enc) : switchTo ext .stored l s = pure (.ok (), s) := by
  unfold switchTo
  simp [h, Inner.currentCompression]

/-- Closing a compressor over the ZipCrypto layer: its output goes to the encryption buffer (no I/O). -/
theorem switchTo_flush_enc (ext : WExt) (s : WState) (m : Method) (l : Int) (e : EncState) (p : Bytes)
    (h : s.inner = .compressor m l (some e) p) (hm : m ≠ .stored) :
    switchTo ext .stored none s =
      pure (.ok (), { s with inner := .storer (some { e with buffer := e.buffer ++ ext.compress m l p }) }) := by
  unfold switchTo
  have hne : (m == Method.stored) = false := by simpa using hm
  simp only [h, Inner.currentCompression, hne, Bool.false_eq_true, if_false]
  rfl

/-- the writer `switch_to` installs for a method, from a storer over `enc` -/
def innerFor2 (c : Method) (l : Option Int) (enc : Option EncState) : Inner :=
  if c = .stored then .storer enc else .compressor c (effLevel c l) enc []

theorem innerFor2_none (c : Method) (l : Option Int) : innerFor2 c l none = innerFor c l := rfl

theorem switchTo_from_storer2 (ext : WExt) (c : Method) (l : Option Int) (s : WState)
    (enc : Option EncState) (h : s.inner = .storer enc) :
    (switchTo ext c l s = pure (.ok (), { s with inner := innerFor2 c l enc }) ∧ writable c = true ∧
      ¬ Refused c l) ∨
    ((∃ e, switchTo ext c l s = pure (.error e, { s with inner := .closed })) ∧ Refused c l) := by
  by_cases hr : Refused c l
  · right
    exact ⟨⟨_, switchTo_refuses ext c l s enc h hr⟩, hr⟩
  · left
    obtain ⟨inner, files, sS, sB, sH, wF, wE, cO, wR, cm⟩ := s
    dsimp only at h; subst h
    refine ⟨?_, ?_, hr⟩
    · unfold switchTo
      cases c with
      | stored => simp [Inner.currentCompression, innerFor2]
      | aes => exact absurd trivial hr
      | unsupported v => exact absurd trivial hr
      | deflated =>
        simp only [Refused, levelRange, Decidable.not_not] at hr
        simp [Inner.currentCompression, levelRange, hr, innerFor2, effLevel]
      | bzip2 =>
        simp only [Refused, levelRange, Decidable.not_not] at hr
        simp [Inner.currentCompression, levelRange, hr, innerFor2, effLevel]
      | zstd =>
        simp only [Refused, levelRange, Decidable.not_not] at hr
        simp [Inner.currentCompression, levelRange, hr, innerFor2, effLevel]
    · cases c with
      | aes => exact absurd trivial hr
      | unsupported v => exact absurd trivial hr
      | _ => rfl

/-! ### `update_local_file_header` on a header with extra data -/

theorem updateLocalHeader_patch2 {β} {s : WState} {f0 : FileData} (c : UInt32) (us cs : UInt64)
    {k : Unit → M (Except ZErr β × WState)} {d : Dev} {Q : Except ZErr β × WState → Dev → Prop}
    (A B : Bytes) (dp lv : UInt16) (xl q r : Nat)
    (hlive : LiveAt d q (A ++ (localHdr2 f0 dp lv xl ++ B)) r)
    (hA : f0.headerStart.toNat = A.length)
    (hk : ¬ (f0.largeFile = false ∧ cs > ZIP64_BYTES_THR) → ∀ d',
      LiveAt d' q (A ++ (localHdr2 { f0 with crc32 := c, uncompressedSize := us, compressedSize := cs } dp lv xl ++ B)) r →
      WSat (k ()) none d' Q)
    (hbig : f0.largeFile = false → cs > ZIP64_BYTES_THR → Q (.error (.io .other), s) d) :
    WSat (Model.updateLocalHeader s { f0 with crc32 := c, uncompressedSize := us, compressedSize := cs } k) none d Q := by
  have hq : q = A.length + (30 + f0.fileName.length + z64len f0) + B.length := by
    rw [← hlive.length]; simp only [List.length_append, localHdr2_length]; omega
  unfold z64len at hq
  unfold Model.updateLocalHeader
  dsimp only
  split
  · next hg =>
    simp only [Bool.and_eq_true, Bool.not_eq_true', decide_eq_true_eq] at hg
    exact WSat.pure (hbig hg.1 hg.2)
  next hng =>
  simp only [Bool.and_eq_true, Bool.not_eq_true', decide_eq_true_eq] at hng
  replace hk := hk hng
  rw [hA]
  apply WSat.io_none (MSat.seekStart_live _ none hlive); intro _ d1 ⟨_, hp1, hl1⟩
  apply WSat.io_none (MSat.writeAll_patch _ none hl1 (by rw [hp1, le32_length]; omega)); intro _ d2 ⟨hp2, hl2⟩
  rw [hp1] at hp2 hl2
  cases hlf : f0.largeFile with
  | true =>
    rw [if_pos rfl]
    apply WSat.io_none (MSat.seekStart_live _ none hl2); intro _ d3 ⟨_, hp3, hl3⟩
    apply WSat.io_none (MSat.writeAll_patch _ none hl3 (by rw [hp3, le64_length, hq, hlf]; simp; omega)); intro _ d4 ⟨hp4, hl4⟩
    rw [hp3] at hp4 hl4
    apply WSat.io_none (MSat.writeAll_patch _ none hl4 (by rw [hp4, le64_length, le64_length, hq, hlf]; simp; omega)); intro _ d5 ⟨hp5, hl5⟩
    rw [hp4, le64_length] at hl5
    apply hk d5
    rw [← patch_large2 A B f0 dp lv xl hlf c cs us A.length rfl]
    exact hl5
  | false =>
    rw [if_neg (by simp)]
    apply WSat.io_none (MSat.writeAll_patch _ none hl2 (by rw [hp2, le32_length, le32_length, hq]; omega)); intro _ d3 ⟨hp3, hl3⟩
    rw [hp2, le32_length] at hp3 hl3
    apply WSat.io_none (MSat.writeAll_patch _ none hl3 (by rw [hp3, le32_length, le32_length, hq]; omega)); intro _ d4 ⟨hp4, hl4⟩
    rw [hp3, le32_length] at hl4
    apply hk d4
    rw [← patch_small2 A B f0 dp lv xl hlf c cs us A.length rfl]
    exact hl4

/-! ### `finish_file` -/

theorem centralHeaderChunks_ok2 {f : FileData} {dp : UInt16}
    (hx : (centralZip64Bytes f).length + f.extraField.length ≤ 65535)
    (hdp : f.time.datepart = some dp) : ∃ cs, centralHeaderChunks f = .ok cs := by
  unfold centralHeaderChunks datepartOut
  rw [hdp]
  dsimp only [bind, Out.instMonad]
  rw [if_neg (by omega)]
  exact ⟨_, rfl⟩

/-- the finished record of an entry: central extra data `cx`, final CRC and sizes -/
def closedRec (f0 : FileData) (cx plain data : Bytes) : FileData :=
  finalRec { f0 with extraField := cx } plain data

theorem closedRec_of_cur (f0 : FileData) (cx : Bytes) (ds : UInt64) (plain data : Bytes) (dp : UInt16)
    (gap lx : Bytes) (lv : UInt16) :
    specEntry (finalRec (curRec f0 cx ds) plain data) dp gap lx data lv =
      specEntry (closedRec f0 cx plain data) dp gap lx data lv := rfl

/-- `finish_file`'s tail on an entry written through the writer (Level 2: with extra data). -/
theorem afterEnc_norm2 {done : List Spec.Zip.Entry} {gap : Bytes} {r : Nat} {f0 : FileData} {dp : UInt16}
    {lx cx data : Bytes} {s : WState} {d : Dev} (plain : Bytes)
    (h : Op2 done gap r f0 dp lx cx data s d) (hin : s.inner = .storer none) (hwr : s.writingRaw = false)
    (hwe : s.writingToExtraField = false)
    (hb : s.statsBytes = plain.length) (hh : s.statsHasher = Spec.Crc32.updateBytes 0xFFFFFFFF plain)
    (hcf : (centralZip64Bytes (closedRec f0 cx plain data)).length + cx.length ≤ 65535) :
    WSat (afterEnc s) none d (fun rs d' =>
      (f0.largeFile = false ∧ UInt64.ofNat data.length > ZIP64_BYTES_THR ∧ (∃ e, rs.1 = .error e) ∧
        rs.2.comment = s.comment ∧
        (s.statsStart + data.length < 18446744073709551616 →
          Stuck s.statsStart data.length s.writingToFile rs.2 d')) ∨
      (¬ (f0.largeFile = false ∧ UInt64.ofNat data.length > ZIP64_BYTES_THR) ∧
       FinPost (done ++ [specEntry (closedRec f0 cx plain data) dp gap lx data f0.versionNeeded]) [] r
         s.comment rs d' ∧ rs.2.centralOnly = s.centralOnly)) := by
  obtain ⟨cf, hfiles, hcl⟩ := h.files
  generalize UInt64.ofNat s.statsStart = ds at hfiles
  have hlen := h.live.length
  have e1 : hasherFinalize s.statsHasher = Spec.Crc32.crc32 plain := by rw [hh]; rfl
  have e3 : d.pos - s.statsStart = data.length := by
    rw [h.ss, ← hlen]; simp only [List.length_append, localHdr2_length, hdrLen]; omega
  have e4 : ¬ d.pos < s.statsStart := by
    rw [h.ss, ← hlen]; simp only [List.length_append, localHdr2_length, hdrLen]; omega
  unfold afterEnc
  simp only [hin, hwr, Bool.not_false, if_true, hfiles, List.getLast?_concat, setLast_snoc]
  apply WSat.io_none (MSat.streamPosition_live none h.live); intro fe d1 ⟨hfe, hp1, hl1⟩
  subst hfe
  rw [if_neg e4]
  simp only [e1, hb, e3]
  refine updateLocalHeader_patch2 (f0 := curRec f0 cx ds) (Spec.Crc32.crc32 plain) (UInt64.ofNat plain.length)
    (UInt64.ofNat data.length) (localsBytes done ++ gap) (lx ++ data) dp f0.versionNeeded
    (z64len f0 + lx.length) d.pos r ?_ ?_ ?_ ?_
  · exact hl1.cast (by simp only [List.append_assoc]; rfl)
  · show f0.headerStart.toNat = _
    rw [h.hs, toNat_ofNat_lt (by have := h.hsLt; omega)]; simp only [List.length_append]
  · intro hng d2 hl2
    apply WSat.io_none (MSat.seekStart_live _ none hl2); intro _ d3 ⟨_, hp3, hl3⟩
    apply WSat.pure
    right
    refine ⟨hng, ⟨rfl, ⟨?_, ?_, rfl, hwe⟩, rfl, rfl, rfl⟩, rfl⟩
    · rw [hp3]
      refine hl3.cast ?_
      rw [localsBytes_append, localsBytes_cons]
      have := local_eq_spec2 (finalRec (curRec f0 cx ds) plain data) dp f0.versionNeeded gap lx data rfl
      simp only [localsBytes, List.map_nil, List.flatten_nil, List.append_nil, List.append_assoc]
      rw [← closedRec_of_cur f0 cx ds, ← this]
      rfl
    · show ClosedAll _ 0 (cf ++ [finalRec (curRec f0 cx ds) plain data])
      apply ClosedAll.snoc hcl
      obtain ⟨cs, hcs⟩ := centralHeaderChunks_ok2 (f := finalRec (curRec f0 cx ds) plain data) hcf h.dp
      refine ⟨cs, hcs, ?_⟩
      rw [central_eq_spec gap lx data f0.versionNeeded hcs h.dp rfl h.udd]
      show centralRecord _ f0.headerStart = _
      rw [h.hs]
      simp only [Nat.zero_add]
      rfl
  · intro hlf hcs
    refine Or.inl ⟨hlf, hcs, ⟨_, rfl⟩, rfl, fun hlt => ?_⟩
    have hpos : d.pos = s.statsStart + data.length := by omega
    exact ⟨rfl, rfl, hwe, ⟨cf, _, rfl, hlf⟩, rfl, by rw [hp1]; exact hpos, by rw [hp1]; exact hl1.le,
      gt_thr_ofNat hcs, hlt, rfl⟩

theorem MSat.flush_live (fa) {d : Dev} {q : Nat} {L : Bytes} {r : Nat} (h : LiveAt d q L r) :
    MSat M.flush fa d (fun _ d' => d'.pos = d.pos ∧ LiveAt d' q L r) := by
  apply MSat.prim'
  intro d1 h1 h2
  exact ⟨h1, h.congr h2⟩

/-- the buffer `ZipCryptoWriter::finish` encrypts: 11 zero bytes, the CRC's high byte, the payload -/
def zcPlain (crc : UInt32) (payload : Bytes) : Bytes :=
  List.replicate 11 (0 : UInt8) ++ [(crc >>> 24).toUInt8] ++ payload

/-- `finish_file` on an entry behind the ZipCrypto layer: after `switch_to(Stored)` (which flushes a
compressor into the encryption buffer without I/O) the whole payload is buffered; its encryption is
written to the sink, then the tail runs on the plain storer. -/
theorem finishFile_of_enc (ext : WExt) (s s1 : WState) (hwe : s.writingToExtraField = false)
    (hsw : switchTo ext .stored none s = pure (.ok (), s1))
    (pw payload : Bytes) (hin : s1.inner = .storer (some ⟨pw, List.replicate 12 0 ++ payload⟩))
    {d : Dev} {L : Bytes} {r : Nat} (hl : LiveAt d d.pos L r)
    {Q : Except ZErr Unit × WState → Dev → Prop}
    (h : ∀ d', LiveAt d' d'.pos (L ++ ext.zcEncrypt pw (zcPlain (hasherFinalize s1.statsHasher) payload)) r →
      WSat (afterEnc { s1 with inner := .storer none }) none d' Q) :
    WSat (finishFile ext s) none d Q := by
  unfold finishFile
  simp only [hwe, Bool.false_eq_true, if_false]
  apply WSat.bind
  apply WSat.pure
  dsimp only
  rw [hsw]
  apply WSat.bind
  apply WSat.pure
  dsimp only
  simp only [hin]
  have hlen : ¬ (List.replicate 12 (0 : UInt8) ++ payload).length < 12 := by simp
  rw [if_neg hlen]
  have hbuf : (List.replicate 12 (0 : UInt8) ++ payload).take 11 ++ [(hasherFinalize s1.statsHasher >>> 24).toUInt8] ++
      (List.replicate 12 (0 : UInt8) ++ payload).drop 12 = zcPlain (hasherFinalize s1.statsHasher) payload := by
    unfold zcPlain
    rw [List.take_append_of_le_length (by simp), List.drop_left' (by simp)]
    rfl
  rw [hbuf]
  apply WSat.io_none (MSat.writeAll_append _ none hl); intro _ d1 ⟨hp1, hl1⟩
  apply WSat.io_none (MSat.flush_live none (hl1.castPos hp1.symm)); intro _ d2 ⟨hp2, hl2⟩
  exact h d2 (hl2.castPos hp2.symm)

/-- `finish_file` outside extra-data mode leaves the central-only flag alone. -/
theorem afterEnc_co (s : WState) (d : Dev) :
    WSat (afterEnc s) none d (fun rs _ => rs.2.centralOnly = s.centralOnly) := by
  unfold afterEnc
  split
  · split
    · split
      · exact WSat.pure rfl
      · dsimp only
        apply WSat.io_none (MSat.streamPosition none d); intro fe d1 _
        split
        · exact WSat.pure rfl
        · apply WSat.updateLocalHeader_none
          · intro d2
            apply WSat.io_none (MSat.seekStart _ none d2); intro _ d3 _
            exact WSat.pure rfl
          · intro d2; rfl
    · exact WSat.pure rfl
  · exact WSat.panic

theorem finishFile_co (ext : WExt) (s : WState) (hwe : s.writingToExtraField = false) (d : Dev) :
    WSat (finishFile ext s) none d (fun rs _ => rs.2.centralOnly = s.centralOnly) := by
  unfold finishFile
  simp only [hwe, Bool.false_eq_true, if_false]
  apply WSat.bind
  apply WSat.pure
  dsimp only
  apply WSat.bind
  apply WSat.mono (switchTo_sat ext .stored none s none d).toWSat
  intro ⟨r1, s2⟩ d2 ⟨i, hs2, _⟩
  dsimp only at hs2 ⊢
  subst hs2
  cases r1 with
  | error e => exact WSat.pure rfl
  | ok u =>
    dsimp only
    split
    · split
      · exact WSat.panic
      · apply WSat.io_none (MSat.writeAll _ none d2); intro _ d3 _
        apply WSat.io_none (MSat.flush none d3); intro _ d4 _
        exact afterEnc_co { s with inner := .storer none } d4
    · exact afterEnc_co { s with inner := .storer none } d2
    · exact WSat.panic

/-! ### `start_entry` (Level 2: with the encryption option) -/

/-- the writer `start_entry` leaves: a plain storer, or a storer over a fresh ZipCrypto buffer -/
def startInner (o : FileOptions) : Inner :=
  match o.encryptWith with
  | some pw => .storer (some { pw, buffer := List.replicate 12 0 })
  | none => .storer none

def StartPost2 (es : List Spec.Zip.Entry) (gap : Bytes) (r : Nat) (c : Bytes) (co : Bool) (f : FileData)
    (dp : UInt16) (o : FileOptions) : Except ZErr Unit × WState → Dev → Prop :=
  fun rs d' => rs.1 = .ok () ∧ Op2 es gap r f dp [] [] [] rs.2 d' ∧ rs.2.inner = startInner o ∧
    rs.2.writingRaw = false ∧ rs.2.writingToFile = false ∧ rs.2.writingToExtraField = false ∧
    rs.2.centralOnly = co ∧ rs.2.statsBytes = 0 ∧ rs.2.statsHasher = 0xFFFFFFFF ∧ rs.2.comment = c

theorem startEntry_lay2 (ext : WExt) (name : Bytes) (o : FileOptions)
    (raw : Option (UInt32 × UInt64 × UInt64)) (hn : ¬ name.length > 65535)
    {es : List Spec.Zip.Entry} {gap : Bytes} {r : Nat} {c : Bytes} {co : Bool} {s : WState} {d : Dev}
    (hfin : WSat (finishFile ext s) none d (fun rs d' => FinPost es gap r c rs d' ∧ rs.2.centralOnly = co)) :
    WSat (startEntry ext name o raw s) none d (fun rs d' =>
      ∀ dp, o.time.datepart = some dp →
      (localsBytes es).length + gap.length + hdrLen (mkRec name o raw ((localsBytes es).length + gap.length) 0)
        < 18446744073709551616 →
        StartPost2 es gap r c co (mkRec name o raw ((localsBytes es).length + gap.length) 0) dp o rs d') := by
  unfold startEntry
  rw [if_neg hn]
  apply WSat.bind
  apply WSat.mono hfin
  intro ⟨r1, s1⟩ d1 ⟨⟨hok, hcl, hwr, hwf, hc⟩, hco⟩
  dsimp only at hok hcl hwr hwf hc hco ⊢
  subst hok
  dsimp only
  have hpos : d1.pos = (localsBytes es).length + gap.length := by
    rw [← hcl.live.length]; simp only [List.length_append]
  simp only [hcl.inner]
  apply WSat.io_none (MSat.streamPosition_live none hcl.live); intro v d2 ⟨hv, hp2, hl2⟩
  subst hv
  split
  · exact WSat.panic
  · next e h => exact absurd h (localHeaderChunks_ne_err _ e)
  next chunks0 hch0 =>
  have hX : localHeaderChunks (mkRec name o raw d1.pos 0) = .ok chunks0 := hch0
  rw [hpos] at hX
  obtain ⟨dp0, hdp0, hser⟩ := ser_localHeaderChunks hX rfl
  rw [localHdr_eq_localHdr2] at hser
  have hserlen : (ser chunks0).length = hdrLen (mkRec name o raw ((localsBytes es).length + gap.length) 0) := by
    rw [hser, localHdr2_length]; rfl
  apply WSat.io_none (MSat.writeChunks_append chunks0 none (hl2.castPos hp2.symm)); intro _ d3 ⟨hp3, hl3⟩
  apply WSat.io_none (MSat.streamPosition_live none hl3); intro v d4 ⟨hv, hp4, hl4⟩
  subst hv
  have hp3' : d3.pos = (localsBytes es).length + gap.length +
      hdrLen (mkRec name o raw ((localsBytes es).length + gap.length) 0) := by
    rw [hp3, hp2, hpos, hserlen]
  have hfinal : ∀ (i : Inner), i = startInner o → ∀ dp, o.time.datepart = some dp →
      (localsBytes es).length + gap.length + hdrLen (mkRec name o raw ((localsBytes es).length + gap.length) 0)
        < 18446744073709551616 →
      StartPost2 es gap r c co (mkRec name o raw ((localsBytes es).length + gap.length) 0) dp o
        (.ok (), { s1 with inner := i, statsStart := d3.pos, statsBytes := 0, statsHasher := 0xFFFFFFFF, files := s1.files ++ [mkRec name o raw d1.pos (UInt64.ofNat d3.pos)] }) d4 := by
    intro i hi dp hdp hlt
    have : dp0 = dp := by
      have h1 : (mkRec name o raw ((localsBytes es).length + gap.length) 0).time.datepart = some dp := hdp
      rw [hdp0] at h1; exact Option.some.inj h1
    subst this
    refine ⟨rfl, ⟨?_, ⟨s1.files, ?_, hcl.closed⟩, hdp0, rfl, hlt, rfl, ?_⟩, hi, hwr, hwf, hcl.we, hco, rfl,
      rfl, hc⟩
    · refine (hl4.castPos (hp4.trans hp3).symm).cast ?_
      rw [hser]
      simp only [List.append_nil, List.length_nil, Nat.add_zero]
    · show s1.files ++ [mkRec name o raw d1.pos (UInt64.ofNat d3.pos)] = _
      rw [hpos]
      rfl
    · show d3.pos = _
      rw [hp3']; simp
  split
  · next pw hpw =>
    apply WSat.pure
    exact hfinal _ (by simp [startInner, hpw])
  · next hpw =>
    apply WSat.pure
    exact hfinal (.storer none) (by simp [startInner, hpw])

/-! ### `write` (Level 2) -/

/-- What a `write` into the data of an open entry does (any layering of the sink). -/
def WritePost2 (buf : Bytes) (s : WState) (L : Bytes) (r : Nat) : Except ZErr Unit × WState → Dev → Prop :=
  fun rs d' => match rs.1 with
    | .error _ => rs.2.inner = .closed
    | .ok _ => SameBut s rs.2 ∧ rs.2.centralOnly = s.centralOnly ∧
        rs.2.statsBytes = s.statsBytes + buf.length ∧
        rs.2.statsHasher = Spec.Crc32.updateBytes s.statsHasher buf ∧
        (∀ f, s.files.getLast? = some f →
          f.largeFile = true ∨ buf = [] ∨ s.statsBytes + buf.length ≤ 0xFFFFFFFF) ∧
        (s.inner = .storer none → rs.2.inner = .storer none ∧ LiveAt d' d'.pos (L ++ buf) r) ∧
        (∀ e, s.inner = .storer (some e) →
          rs.2.inner = .storer (some { e with buffer := e.buffer ++ buf }) ∧ LiveAt d' d'.pos L r) ∧
        (∀ m l enc p, s.inner = .compressor m l enc p →
          rs.2.inner = .compressor m l enc (p ++ buf) ∧ LiveAt d' d'.pos L r)

theorem writeData_lay2 (buf : Bytes) (s : WState) (hwf : s.writingToFile = true)
    (hwe : s.writingToExtraField = false) {d : Dev} {L : Bytes} {r : Nat} (hl : LiveAt d d.pos L r) :
    WSat (writeData buf s) none d (WritePost2 buf s L r) := by
  obtain ⟨inner, files, sS, sB, sH, wF, wE, cO, wR, cm⟩ := s
  dsimp only at hwf hwe
  subst hwf hwe
  unfold writeData
  split
  · next hb =>
    have : buf = [] := List.isEmpty_iff.mp hb
    subst this
    apply WSat.pure
    refine ⟨SameBut.rfl' _, rfl, rfl, rfl, fun _ _ => Or.inr (Or.inl rfl), ?_, ?_, ?_⟩
    · intro h; exact ⟨h, hl.cast (List.append_nil _).symm⟩
    · intro e h; exact ⟨by rw [h, List.append_nil], hl⟩
    · intro m l enc p h; exact ⟨by rw [h, List.append_nil], hl⟩
  simp only [Bool.not_true, Bool.false_eq_true, if_false]
  have hbound : ∀ (f : FileData), ¬ ((decide (sB + buf.length > 0xFFFFFFFF) && !f.largeFile) = true) →
      f.largeFile = true ∨ buf = [] ∨ sB + buf.length ≤ 0xFFFFFFFF := by
    intro f h
    cases hlf : f.largeFile
    · right; right
      rw [hlf] at h
      simp only [Bool.not_false, Bool.and_true, decide_eq_true_eq] at h
      omega
    · left; rfl
  cases inner with
  | closed => exact WSat.pure rfl
  | storer enc =>
    cases enc with
    | none =>
      apply WSat.io_none (MSat.writeAll_append buf none hl); intro _ d1 ⟨hp1, hl1⟩
      split
      · exact WSat.panic
      next f hf =>
        split
        · exact WSat.pure rfl
        next hc =>
          apply WSat.pure
          refine ⟨⟨rfl, rfl, rfl, rfl, rfl, rfl⟩, rfl, rfl, rfl, ?_, ?_, ?_, ?_⟩
          · intro g hg
            have : g = f := by
              have hg' : files.getLast? = some g := hg
              have hf' : files.getLast? = some f := hf
              rw [hg'] at hf'; exact Option.some.inj hf'
            rw [this]; exact hbound f hc
          · intro _; exact ⟨rfl, hl1.castPos hp1.symm⟩
          · intro e h; cases h
          · intro m l enc p h; cases h
    | some e =>
      dsimp only
      split
      · exact WSat.panic
      next f hf =>
        split
        · exact WSat.pure rfl
        next hc =>
          apply WSat.pure
          refine ⟨⟨rfl, rfl, rfl, rfl, rfl, rfl⟩, rfl, rfl, rfl, ?_, ?_, ?_, ?_⟩
          · intro g hg
            have : g = f := by
              have hg' : files.getLast? = some g := hg
              have hf' : files.getLast? = some f := hf
              rw [hg'] at hf'; exact Option.some.inj hf'
            rw [this]; exact hbound f hc
          · intro h; cases h
          · intro e' h; cases h; exact ⟨rfl, hl⟩
          · intro m l enc p h; cases h
  | compressor m l enc p =>
    dsimp only
    split
    · exact WSat.panic
    next f hf =>
      split
      · exact WSat.pure rfl
      next hc =>
        apply WSat.pure
        refine ⟨⟨rfl, rfl, rfl, rfl, rfl, rfl⟩, rfl, rfl, rfl, ?_, ?_, ?_, ?_⟩
        · intro g hg
          have : g = f := by
            have hg' : files.getLast? = some g := hg
            have hf' : files.getLast? = some f := hf
            rw [hg'] at hf'; exact Option.some.inj hf'
          rw [this]; exact hbound f hc
        · intro h; cases h
        · intro e h; cases h
        · intro m' l' enc' p' h
          cases h
          exact ⟨rfl, hl⟩

/-- `write` in extra-data mode: the bytes are appended to the extra field of the open entry's record;
no I/O, no statistics. -/
theorem writeData_extra (buf : Bytes) (s : WState) (hwf : s.writingToFile = true)
    (hwe : s.writingToExtraField = true) (hcl : s.inner ≠ .closed) (cf : List FileData) (f : FileData)
    (hfiles : s.files = cf ++ [f]) :
    writeData buf s =
      pure (.ok (), { s with files := cf ++ [{ f with extraField := f.extraField ++ buf }] }) := by
  obtain ⟨inner, files, sS, sB, sH, wF, wE, cO, wR, cm⟩ := s
  dsimp only at hwf hwe hcl hfiles
  subst hwf hwe hfiles
  unfold writeData
  by_cases hb : buf.isEmpty
  · have : buf = [] := List.isEmpty_iff.mp hb
    subst this
    simp
  · cases inner with
    | closed => exact absurd rfl hcl
    | storer enc => simp [hb, setLast_snoc]
    | compressor m l enc p => simp [hb, setLast_snoc]

/-! ### `end_extra_data` -/

/-- `switch_to` from a plain storer, as a triple: installed, or refused and closed. -/
theorem switchTo_storer_cases (ext : WExt) (c : Method) (l : Option Int) (st : WState)
    (h : st.inner = .storer none) {d : Dev} {Q : Except ZErr Unit × WState → Dev → Prop}
    (hok : ¬ Refused c l → Q (.ok (), { st with inner := innerFor c l }) d)
    (herr : Refused c l → ∀ e, Q (.error e, { st with inner := .closed }) d) :
    WSat (switchTo ext c l st) none d Q := by
  rcases switchTo_from_storer2 ext c l st none h with ⟨hsw, _, hnr⟩ | ⟨⟨e, hsw⟩, hr⟩
  · rw [hsw]; exact WSat.pure (hok hnr)
  · rw [hsw]; exact WSat.pure (herr hr e)

/-- validation refuses: `end_extra_data` returns that error; no I/O, the writer is unchanged -/
theorem endExtraData_invalid (ext : WExt) (s : WState) (cf : List FileData) (f : FileData) (e : ZErr)
    (hwe : s.writingToExtraField = true) (hcl : s.inner ≠ .closed) (hfiles : s.files = cf ++ [f])
    (hv : validateExtraData f = .error e) : endExtraData ext s = pure (.error e, s) := by
  unfold endExtraData
  have : s.inner.isClosed = false := by
    cases hi : s.inner <;> simp_all [Inner.isClosed]
  simp [hwe, this, hfiles, hv]

/-- central-only mode: `end_extra_data` only validates and leaves the mode -/
theorem endExtraData_central (ext : WExt) (s : WState) (cf : List FileData) (f : FileData)
    (hwe : s.writingToExtraField = true) (hco : s.centralOnly = true) (hcl : s.inner ≠ .closed)
    (hfiles : s.files = cf ++ [f]) (hv : validateExtraData f = .ok ()) :
    endExtraData ext s =
      pure (.ok f.dataStart.toNat, { s with writingToExtraField := false, centralOnly := false }) := by
  unfold endExtraData
  have : s.inner.isClosed = false := by
    cases hi : s.inner <;> simp_all [Inner.isClosed]
  simp [hwe, this, hfiles, hv, hco]

/-- everything `end_extra_data` does not touch -/
structure SameX (s s' : WState) : Prop where
  wf : s'.writingToFile = s.writingToFile
  wr : s'.writingRaw = s.writingRaw
  bytes : s'.statsBytes = s.statsBytes
  hash : s'.statsHasher = s.statsHasher
  comment : s'.comment = s.comment

/-- **`end_extra_data` in local mode**: the buffered extra data `cx` are written after the header, the
16-bit extra length at header + 28 is back-patched, the data start moves behind them, and the writer for
the entry's method is installed — or the method/level is refused and the writer is left closed. -/
theorem endExtraData_local (ext : WExt) {done : List Spec.Zip.Entry} {gap : Bytes} {r : Nat}
    {f0 : FileData} {dp : UInt16} {cx : Bytes} {s : WState} {d : Dev}
    (h : Op2 done gap r f0 dp [] cx [] s d) (hwe : s.writingToExtraField = true)
    (hco : s.centralOnly = false) (hin : s.inner = .storer none)
    (hv : validateExtraData (curRec f0 cx (UInt64.ofNat s.statsStart)) = .ok ()) :
    WSat (endExtraData ext s) none d (fun rs d' =>
      (¬ Refused f0.method f0.level → (∃ v, rs.1 = .ok v) ∧ Op2 done gap r f0 dp cx cx [] rs.2 d' ∧
        rs.2.inner = innerFor f0.method f0.level ∧ rs.2.writingToExtraField = false ∧
        rs.2.centralOnly = false ∧ SameX s rs.2) ∧
      (Refused f0.method f0.level → (∃ e, rs.1 = .error e) ∧ rs.2.inner = .closed)) := by
  obtain ⟨cf, hfiles, hcl⟩ := h.files
  have hss : s.statsStart = (localsBytes done).length + gap.length + hdrLen f0 := by
    rw [h.ss]; simp
  have hds : (UInt64.ofNat s.statsStart).toNat = s.statsStart :=
    toNat_ofNat_lt (by rw [hss]; exact h.hsLt)
  have hpos : d.pos = s.statsStart := by
    rw [← h.live.length, hss]
    simp only [List.length_append, localHdr2_length, List.length_nil, hdrLen]; omega
  have hvl := validate_len2 hv
  unfold endExtraData
  have hncl : s.inner.isClosed = false := by rw [hin]; rfl
  simp only [hwe, hfiles, List.getLast?_concat, hv, hco, hin, Bool.not_true, Bool.false_eq_true,
    if_false, Bool.not_false, if_true, setLast_snoc]
  apply WSat.io_none (MSat.writeAll_append _ none h.live); intro _ d1 ⟨hp1, hl1⟩
  have hel := localExtraLen_val (f := { curRec f0 cx (UInt64.ofNat s.statsStart) with
    dataStart := UInt64.ofNat ((curRec f0 cx (UInt64.ofNat s.statsStart)).dataStart.toNat +
      (curRec f0 cx (UInt64.ofNat s.statsStart)).extraField.length) }) hvl
  rw [hel]
  dsimp only
  have hhs : (curRec f0 cx (UInt64.ofNat s.statsStart)).headerStart.toNat =
      (localsBytes done ++ gap).length := by
    show f0.headerStart.toNat = _
    rw [h.hs, toNat_ofNat_lt (by have := h.hsLt; omega)]; simp
  have hl1' : LiveAt d1 (d.pos + cx.length) ((localsBytes done ++ gap) ++
      (localHdr2 f0 dp f0.versionNeeded (z64len f0 + 0) ++ cx)) r := by
    refine hl1.cast ?_
    show _ ++ (curRec f0 cx _).extraField = _
    simp only [curRec, List.append_nil, List.append_assoc, List.length_nil]
  apply WSat.io_none (MSat.seekStart_live _ none hl1'); intro _ d2 ⟨_, hp2, hl2⟩
  have hq : d.pos + cx.length = (localsBytes done ++ gap).length + hdrLen f0 + cx.length := by
    rw [hpos, hss]; simp
  apply WSat.io_none (MSat.writeAll_patch _ none hl2 (by
    rw [hp2, hhs, le16_length, hq]; unfold hdrLen; omega)); intro _ d3 ⟨hp3, hl3⟩
  rw [hp2, hhs] at hl3
  have hl3' := hl3.cast (patch_xlen (localsBytes done ++ gap) cx f0 dp f0.versionNeeded (z64len f0 + 0)
    (z64len f0 + cx.length) (localsBytes done ++ gap).length rfl)
  apply WSat.io_none (MSat.seekStart_live _ none hl3'); intro _ d4 ⟨_, hp4, hl4⟩
  have hend : (curRec f0 cx (UInt64.ofNat s.statsStart)).dataStart.toNat +
      (curRec f0 cx (UInt64.ofNat s.statsStart)).extraField.length = s.statsStart + cx.length := by
    show (UInt64.ofNat s.statsStart).toNat + cx.length = _
    rw [hds]
  rw [hend] at hp4 ⊢
  have hop : ∀ (i : Inner) (wE cO : Bool), Op2 done gap r f0 dp cx cx []
      { s with inner := i, statsStart := s.statsStart + cx.length, files := cf ++ [{ curRec f0 cx (UInt64.ofNat s.statsStart) with dataStart := UInt64.ofNat (s.statsStart + cx.length) }], writingToExtraField := wE, centralOnly := cO } d4 := by
    intro i wE cO
    refine ⟨?_, ⟨cf, rfl, hcl⟩, h.dp, h.hs, h.hsLt, h.udd, ?_⟩
    · rw [hp4]
      refine (hl4.castPos (by rw [hpos])).cast ?_
      simp only [List.append_assoc, List.append_nil]
    · show s.statsStart + cx.length = _
      rw [hss]
  apply WSat.bind
  apply switchTo_storer_cases ext _ _ _ rfl
  · intro hnr
    dsimp only
    apply WSat.pure
    refine ⟨fun _ => ⟨⟨_, rfl⟩, hop _ _ _, rfl, rfl, rfl, ⟨rfl, rfl, rfl, rfl, rfl⟩⟩, fun hr => absurd hr hnr⟩
  · intro hr e
    dsimp only
    apply WSat.pure
    exact ⟨fun hnr => absurd hr hnr, fun _ => ⟨⟨_, rfl⟩, rfl⟩⟩

/-- `finish_file`'s tail on a raw copy (Level 2 predicate; a raw copy has no extra data). -/
theorem afterEnc_raw2 {done : List Spec.Zip.Entry} {gap : Bytes} {r : Nat} {f0 : FileData} {dp : UInt16}
    {sunk : Bytes} {s : WState} {d : Dev} (data junk : Bytes)
    (h : Op2 done gap r f0 dp [] [] sunk s d) (hin : s.inner = .storer none) (hwr : s.writingRaw = true)
    (hwe : s.writingToExtraField = false) (hx0 : f0.extraField = [])
    (hsunk : sunk = data ++ junk) (hcs : f0.compressedSize = UInt64.ofNat data.length) :
    WSat (afterEnc s) none d (fun rs d' =>
      FinPost (done ++ [specEntry f0 dp gap [] data f0.versionNeeded]) junk r s.comment rs d' ∧
      rs.2.centralOnly = s.centralOnly) := by
  obtain ⟨cf, hfiles, hcl⟩ := h.files
  have hspec : specEntry (curRec f0 [] (UInt64.ofNat s.statsStart)) dp gap [] data f0.versionNeeded =
      specEntry f0 dp gap [] data f0.versionNeeded := by
    unfold specEntry curRec
    simp only [hx0]
    rfl
  unfold afterEnc
  simp only [hin, hwr, Bool.not_true, Bool.false_eq_true, if_false]
  apply WSat.pure
  refine ⟨⟨rfl, ⟨?_, ?_, rfl, hwe⟩, rfl, rfl, rfl⟩, rfl⟩
  · refine h.live.cast ?_
    rw [localsBytes_append, localsBytes_cons, hsunk]
    have := local_eq_spec2 f0 dp f0.versionNeeded gap [] data hcs
    simp only [localsBytes, List.map_nil, List.flatten_nil, List.append_nil, List.append_assoc,
      List.nil_append] at this ⊢
    rw [← this]
    simp only [List.append_assoc]
  · show ClosedAll _ 0 s.files
    rw [hfiles]
    apply ClosedAll.snoc hcl
    obtain ⟨cs, hcs'⟩ := centralHeaderChunks_ok2 (f := curRec f0 [] (UInt64.ofNat s.statsStart))
      (by have := centralZip64Bytes_length (curRec f0 [] (UInt64.ofNat s.statsStart))
          show _ + ([] : Bytes).length ≤ 65535
          simp only [List.length_nil]; omega) h.dp
    refine ⟨cs, hcs', ?_⟩
    rw [central_eq_spec gap [] data f0.versionNeeded hcs' h.dp hcs h.udd, hspec]
    show centralRecord _ f0.headerStart = _
    rw [h.hs]
    simp only [Nat.zero_add]
    rfl

/-! ### `finish_file` on an entry in its data phase -/

/-- the stored bytes of a finished entry: the (compressed) plaintext, encrypted when the ZipCrypto
option was given: `zcEncrypt pw (11 zero bytes ++ [crc >>> 24] ++ payload)` -/
def dataOf2 (ext : WExt) (f0 : FileData) (enc : Option Bytes) (plain : Bytes) : Bytes :=
  match enc with
  | none => dataOf ext f0 plain
  | some pw => ext.zcEncrypt pw (zcPlain (Spec.Crc32.crc32 plain) (dataOf ext f0 plain))

/-- the layered writer of an entry in its data phase -/
def InnerData (f0 : FileData) (enc : Option Bytes) (plain : Bytes) (i : Inner) : Prop :=
  match enc with
  | none => (f0.method = .stored ∧ i = .storer none) ∨
      (f0.method ≠ .stored ∧ i = .compressor f0.method (effLevel f0.method f0.level) none plain)
  | some pw => (f0.method = .stored ∧ i = .storer (some ⟨pw, List.replicate 12 0 ++ plain⟩)) ∨
      (f0.method ≠ .stored ∧
        i = .compressor f0.method (effLevel f0.method f0.level) (some ⟨pw, List.replicate 12 0⟩) plain)

/-- the data bytes already in the sink (only a plain storer writes through) -/
def sunkData (f0 : FileData) (enc : Option Bytes) (plain : Bytes) : Bytes :=
  match enc with
  | none => if f0.method = .stored then plain else []
  | some _ => []

def NormPost2 (ext : WExt) (r : Nat) (done : List Spec.Zip.Entry) (gap : Bytes) (f0 : FileData)
    (dp : UInt16) (lx cx : Bytes) (enc : Option Bytes) (plain : Bytes) (s : WState) :
    Except ZErr Unit × WState → Dev → Prop :=
  fun rs d' =>
    (f0.largeFile = false ∧ UInt64.ofNat (dataOf2 ext f0 enc plain).length > ZIP64_BYTES_THR ∧
      (∃ e, rs.1 = .error e) ∧ rs.2.comment = s.comment ∧
      (s.statsStart + (dataOf2 ext f0 enc plain).length < 18446744073709551616 →
        Stuck s.statsStart (dataOf2 ext f0 enc plain).length s.writingToFile rs.2 d')) ∨
    (¬ (f0.largeFile = false ∧ UInt64.ofNat (dataOf2 ext f0 enc plain).length > ZIP64_BYTES_THR) ∧
      FinPost (done ++ [specEntry (closedRec f0 cx plain (dataOf2 ext f0 enc plain)) dp gap lx
        (dataOf2 ext f0 enc plain) f0.versionNeeded]) [] r s.comment rs d' ∧
      rs.2.centralOnly = s.centralOnly)

theorem finishFile_data2 (ext : WExt) {done : List Spec.Zip.Entry} {gap : Bytes} {r : Nat} {f0 : FileData}
    {dp : UInt16} {lx cx : Bytes} {enc : Option Bytes} {plain : Bytes} {s : WState} {d : Dev}
    (h : Op2 done gap r f0 dp lx cx (sunkData f0 enc plain) s d)
    (hwe : s.writingToExtraField = false) (hwr : s.writingRaw = false)
    (hb : s.statsBytes = plain.length) (hh : s.statsHasher = Spec.Crc32.updateBytes 0xFFFFFFFF plain)
    (hi : InnerData f0 enc plain s.inner)
    (hcf : (centralZip64Bytes (closedRec f0 cx plain (dataOf2 ext f0 enc plain))).length + cx.length ≤ 65535) :
    WSat (finishFile ext s) none d (NormPost2 ext r done gap f0 dp lx cx enc plain s) := by
  unfold NormPost2
  have hcrc : hasherFinalize s.statsHasher = Spec.Crc32.crc32 plain := by rw [hh]; rfl
  cases enc with
  | none =>
    rcases hi with ⟨hst, hin⟩ | ⟨hst, hin⟩
    · have hd : dataOf2 ext f0 none plain = plain := by simp [dataOf2, dataOf, hst]
      have hsunk : sunkData f0 none plain = plain := by simp [sunkData, hst]
      rw [hsunk] at h
      rw [hd] at hcf ⊢
      apply finishFile_of_storer ext s hwe hin
      exact afterEnc_norm2 plain h hin hwr hwe hb hh hcf
    · have hd : dataOf2 ext f0 none plain = ext.compress f0.method (effLevel f0.method f0.level) plain := by
        simp [dataOf2, dataOf, hst]
      have hsunk : sunkData f0 none plain = [] := by simp [sunkData, hst]
      rw [hsunk] at h
      rw [hd] at hcf ⊢
      apply finishFile_of_compressor ext s hwe _ _ _ hin hst h.live
      intro d1 hl1
      have h1 : Op2 done gap r f0 dp lx cx (ext.compress f0.method (effLevel f0.method f0.level) plain)
          { s with inner := .storer none } d1 := by
        refine Op2.frame h ?_ ?_ (LiveAt.cast hl1 ?_)
        · rfl
        · rfl
        · simp only [List.append_nil]
      exact afterEnc_norm2 plain h1 rfl hwr hwe hb hh hcf
  | some pw =>
    have hsunk : sunkData f0 (some pw) plain = [] := rfl
    rw [hsunk] at h
    have hd : dataOf2 ext f0 (some pw) plain =
        ext.zcEncrypt pw (zcPlain (Spec.Crc32.crc32 plain) (dataOf ext f0 plain)) := rfl
    rw [hd] at hcf ⊢
    rcases hi with ⟨hst, hin⟩ | ⟨hst, hin⟩
    · have hp : dataOf ext f0 plain = plain := by simp [dataOf, hst]
      rw [hp] at hcf ⊢
      apply finishFile_of_enc ext s s hwe (switchTo_stored_of_storer2 ext none s _ hin) pw plain hin h.live
      intro d1 hl1
      rw [hcrc] at hl1
      have h1 : Op2 done gap r f0 dp lx cx (ext.zcEncrypt pw (zcPlain (Spec.Crc32.crc32 plain) plain))
          { s with inner := .storer none } d1 := by
        refine Op2.frame h ?_ ?_ (LiveAt.cast hl1 ?_)
        · rfl
        · rfl
        · simp only [List.append_nil]
      exact afterEnc_norm2 plain h1 rfl hwr hwe hb hh hcf
    · have hp : dataOf ext f0 plain = ext.compress f0.method (effLevel f0.method f0.level) plain := by
        simp [dataOf, hst]
      rw [hp] at hcf ⊢
      have hsw := switchTo_flush_enc ext s _ _ ⟨pw, List.replicate 12 0⟩ plain hin hst
      apply finishFile_of_enc ext s _ hwe hsw pw
        (ext.compress f0.method (effLevel f0.method f0.level) plain) rfl h.live
      intro d1 hl1
      have hcrc' : hasherFinalize ({ s with inner := Inner.storer (some { pw := pw, buffer := List.replicate 12 0 ++ ext.compress f0.method (effLevel f0.method f0.level) plain }) } : WState).statsHasher = Spec.Crc32.crc32 plain := hcrc
      rw [hcrc'] at hl1
      have h1 : Op2 done gap r f0 dp lx cx
          (ext.zcEncrypt pw (zcPlain (Spec.Crc32.crc32 plain)
            (ext.compress f0.method (effLevel f0.method f0.level) plain)))
          { s with inner := .storer none } d1 := by
        refine Op2.frame h ?_ ?_ (LiveAt.cast hl1 ?_)
        · rfl
        · rfl
        · simp only [List.append_nil]
      exact afterEnc_norm2 plain h1 rfl hwr hwe hb hh hcf

end ZipVerif.WL
