import ZipVerif.Lemmas.WriterTrack
/-
Byte-level facts about `writeAt` and the device, for the "writer emits a layout" development.

Device convention: the sink may hold STALE bytes after the current position (an archive opened with
`new_append`), so nothing is ever stated about `d.buf` as a whole: `LiveAt d q L r` says that the
first `q` bytes of the device are `L` (the LIVE part) and that at most `r` bytes follow them.
-/

namespace ZipVerif.WL
open ZipVerif ZipVerif.Model

/-! ### `writeAt` -/

theorem writeAt_length_inside {buf : Bytes} {p : Nat} {bs : Bytes} (h : p + bs.length ≤ buf.length) :
    (writeAt buf p bs).length = buf.length := by
  unfold writeAt
  rw [if_pos (by omega)]
  simp only [List.length_append, List.length_take, List.length_drop]
  omega

/-- append at the live end -/
theorem writeAt_take_append {buf : Bytes} {p : Nat} (bs : Bytes) (h : p ≤ buf.length) :
    (writeAt buf p bs).take (p + bs.length) = buf.take p ++ bs := by
  unfold writeAt
  rw [if_pos h]
  have hl : (buf.take p ++ bs).length = p + bs.length := by
    simp only [List.length_append, List.length_take]; omega
  rw [← hl, List.take_left']
  rfl

theorem writeAt_length_ge {buf : Bytes} {p : Nat} (bs : Bytes) (h : p ≤ buf.length) :
    p + bs.length ≤ (writeAt buf p bs).length := by
  unfold writeAt
  rw [if_pos h]
  simp only [List.length_append, List.length_take, List.length_drop]
  omega

theorem writeAt_length_le {buf : Bytes} {p : Nat} (bs : Bytes) (h : p ≤ buf.length) {r : Nat}
    (hr : buf.length ≤ p + r) : (writeAt buf p bs).length ≤ p + bs.length + r := by
  unfold writeAt
  rw [if_pos h]
  simp only [List.length_append, List.length_take, List.length_drop]
  omega

/-- patch inside the live part: `take q` commutes with the patch -/
theorem writeAt_take_inside {buf : Bytes} {p q : Nat} {bs : Bytes} (h1 : p + bs.length ≤ q)
    (h2 : q ≤ buf.length) : (writeAt buf p bs).take q = writeAt (buf.take q) p bs := by
  unfold writeAt
  have hl : (buf.take q).length = q := by simp only [List.length_take]; omega
  rw [if_pos (by omega), if_pos (by omega)]
  have e1 : (buf.take p ++ bs).length = p + bs.length := by
    simp only [List.length_append, List.length_take]; omega
  rw [List.take_append, e1, List.take_of_length_le (by omega)]
  rw [List.take_take, Nat.min_eq_left (by omega)]
  congr 1
  rw [List.drop_take]

theorem writeAt_drop_inside {buf : Bytes} {p q : Nat} {bs : Bytes} (h1 : p + bs.length ≤ q)
    (h2 : q ≤ buf.length) : (writeAt buf p bs).drop q = buf.drop q := by
  unfold writeAt
  rw [if_pos (by omega)]
  have e1 : (buf.take p ++ bs).length = p + bs.length := by
    simp only [List.length_append, List.length_take]; omega
  rw [List.drop_append, e1, List.drop_of_length_le (by omega), List.nil_append, List.drop_drop]
  congr 1
  omega

/-- the explicit form of a patch inside the live part -/
theorem writeAt_take_inside' {buf : Bytes} {p q : Nat} {bs : Bytes} (h1 : p + bs.length ≤ q)
    (h2 : q ≤ buf.length) :
    (writeAt buf p bs).take q = (buf.take q).take p ++ bs ++ (buf.take q).drop (p + bs.length) := by
  rw [writeAt_take_inside h1 h2]
  unfold writeAt
  have hl : (buf.take q).length = q := by simp only [List.length_take]; omega
  rw [if_pos (by omega)]

/-- concrete patch: `A ++ X ++ B` patched at `A.length` with `X'` of the same length -/
theorem writeAt_mid (A X X' B : Bytes) (p : Nat) (hp : p = A.length) (hl : X'.length = X.length) :
    writeAt (A ++ (X ++ B)) p X' = A ++ (X' ++ B) := by
  subst hp
  unfold writeAt
  rw [if_pos (by simp)]
  rw [List.take_left', hl]
  · have : A.length + X.length = (A ++ X).length := by simp
    rw [← List.append_assoc A X B, this, List.drop_left']
    · simp
    · rfl
  · rfl

theorem writeAt_nil {buf : Bytes} {p : Nat} (h : p ≤ buf.length) : writeAt buf p [] = buf := by
  unfold writeAt
  rw [if_pos h]
  simp

theorem writeAt_writeAt {buf : Bytes} {p : Nat} (a b : Bytes) (h : p ≤ buf.length) :
    writeAt (writeAt buf p a) (p + a.length) b = writeAt buf p (a ++ b) := by
  have h1 := writeAt_length_ge a h
  have e1 : (buf.take p ++ a).length = p + a.length := by
    simp only [List.length_append, List.length_take]; omega
  rw [writeAt, if_pos h1, writeAt_take_append a h]
  unfold writeAt
  rw [if_pos h, if_pos h]
  have e2 : p + a.length + b.length = (buf.take p ++ a).length + b.length := by rw [e1]
  rw [e2, ← List.drop_drop, List.drop_left', List.drop_drop]
  · simp only [List.append_assoc, List.length_append]
    congr 3
    rw [Nat.add_assoc]
  · rfl

/-! ### The live part of a device -/

/-- The first `q` bytes of the device are `L`; at most `r` (stale) bytes follow. -/
structure LiveAt (d : Dev) (q : Nat) (L : Bytes) (r : Nat) : Prop where
  le : q ≤ d.buf.length
  eq : d.buf.take q = L
  rest : d.buf.length ≤ q + r

theorem LiveAt.length {d : Dev} {q : Nat} {L : Bytes} {r : Nat} (h : LiveAt d q L r) : L.length = q := by
  rw [← h.eq, List.length_take]; exact Nat.min_eq_left h.le

theorem LiveAt.congr {d d' : Dev} {q : Nat} {L : Bytes} {r : Nat} (h : LiveAt d q L r)
    (hb : d'.buf = d.buf) : LiveAt d' q L r := ⟨hb ▸ h.le, hb ▸ h.eq, hb ▸ h.rest⟩

theorem LiveAt.cast {d : Dev} {q : Nat} {L L' : Bytes} {r : Nat} (h : LiveAt d q L r) (e : L = L') :
    LiveAt d q L' r := e ▸ h

theorem LiveAt.castPos {d : Dev} {q q' : Nat} {L : Bytes} {r : Nat} (h : LiveAt d q L r) (e : q = q') :
    LiveAt d q' L r := e ▸ h

theorem LiveAt.append {d d' : Dev} {q : Nat} {L : Bytes} {r : Nat} (h : LiveAt d q L r) (bs : Bytes)
    (hb : d'.buf = writeAt d.buf q bs) : LiveAt d' (q + bs.length) (L ++ bs) r := by
  refine ⟨?_, ?_, ?_⟩
  · rw [hb]; exact writeAt_length_ge bs h.le
  · rw [hb, writeAt_take_append bs h.le, h.eq]
  · rw [hb]; exact writeAt_length_le bs h.le h.rest

theorem LiveAt.patch {d d' : Dev} {q : Nat} {L : Bytes} {r : Nat} (h : LiveAt d q L r) {p : Nat}
    {bs : Bytes} (hp : p + bs.length ≤ q) (hb : d'.buf = writeAt d.buf p bs) :
    LiveAt d' q (writeAt L p bs) r := by
  refine ⟨?_, ?_, ?_⟩
  · rw [hb, writeAt_length_inside (by have := h.le; omega)]; exact h.le
  · rw [hb, writeAt_take_inside hp h.le, h.eq]
  · rw [hb, writeAt_length_inside (by have := h.le; omega)]; exact h.rest

/-- The whole device: live part followed by the stale rest. -/
theorem LiveAt.buf_eq {d : Dev} {q : Nat} {L : Bytes} {r : Nat} (h : LiveAt d q L r) :
    d.buf = L ++ d.buf.drop q := by
  rw [← h.eq, List.take_append_drop]

theorem LiveAt.buf_eq_of_zero {d : Dev} {q : Nat} {L : Bytes} (h : LiveAt d q L 0) : d.buf = L := by
  rw [← h.eq, List.take_of_length_le]
  have := h.rest
  omega

/-! ### Device primitives with their effect on the contents -/

theorem MSat.prim' {α} {f : Dev → Out α × Dev} {fa d} {Q : α → Dev → Prop}
    (h : ∀ d1, d1.pos = d.pos → d1.buf = d.buf → match f d1 with
      | (.ok a, d') => Q a d'
      | (.err _, _) => False
      | (.panic _, _) => False) : MSat (M.prim f) fa d Q := by
  unfold MSat M.prim
  by_cases hf : fa = some d.calls
  · simp only [hf, if_true]; exact fun h => by cases h
  · simp only [hf, if_false]
    have := h { d with calls := d.calls + 1 } rfl rfl
    split at this <;> simp_all

theorem MSat.write_buf (bs : Bytes) (fa d) :
    MSat (M.write bs) fa d (fun _ d' => d'.pos = d.pos + bs.length ∧ d'.buf = writeAt d.buf d.pos bs) := by
  apply MSat.prim'
  intro d1 h1 h2
  simp only [h1, h2, and_self]

theorem MSat.seekStart_buf (n : Nat) (fa d) :
    MSat (M.seek (.start n)) fa d (fun r d' => r = n ∧ d'.pos = n ∧ d'.buf = d.buf) := by
  apply MSat.prim'
  intro d1 _ h2
  have : ¬ ((n : Int) < 0) := by omega
  simp only [this, if_false, Int.toNat_natCast, h2, and_self]

theorem MSat.streamPosition_buf (fa d) :
    MSat M.streamPosition fa d (fun r d' => r = d.pos ∧ d'.pos = d.pos ∧ d'.buf = d.buf) := by
  apply MSat.prim'
  intro d1 h1 h2
  have : ¬ ((d1.pos : Int) + 0 < 0) := by omega
  simp only [Int.add_zero, Int.toNat_natCast, h1, h2, and_self]

theorem MSat.writeAll_buf (bs : Bytes) (fa d) :
    MSat (M.writeAll bs) fa d (fun _ d' => d'.pos = d.pos + bs.length ∧
      (d.pos ≤ d.buf.length → d'.buf = writeAt d.buf d.pos bs)) := by
  unfold M.writeAll
  split
  · next h =>
    apply MSat.pure
    have : bs = [] := List.isEmpty_iff.mp h
    subst this
    exact ⟨by simp, fun hp => (writeAt_nil hp).symm⟩
  · apply MSat.bind
    apply MSat.mono (MSat.write_buf bs fa d)
    intro _ d' h
    exact MSat.pure ⟨h.1, fun _ => h.2⟩

/-- `write_all` at the live end -/
theorem MSat.writeAll_append (bs : Bytes) (fa) {d : Dev} {L : Bytes} {r : Nat}
    (h : LiveAt d d.pos L r) :
    MSat (M.writeAll bs) fa d (fun _ d' => d'.pos = d.pos + bs.length ∧
      LiveAt d' (d.pos + bs.length) (L ++ bs) r) := by
  apply MSat.mono (MSat.writeAll_buf bs fa d)
  intro _ d' ⟨h1, h2⟩
  exact ⟨h1, h.append bs (h2 h.le)⟩

/-- `write_all` inside the live part -/
theorem MSat.writeAll_patch (bs : Bytes) (fa) {d : Dev} {q : Nat} {L : Bytes} {r : Nat}
    (h : LiveAt d q L r) (hp : d.pos + bs.length ≤ q) :
    MSat (M.writeAll bs) fa d (fun _ d' => d'.pos = d.pos + bs.length ∧
      LiveAt d' q (writeAt L d.pos bs) r) := by
  apply MSat.mono (MSat.writeAll_buf bs fa d)
  intro _ d' ⟨h1, h2⟩
  exact ⟨h1, h.patch hp (h2 (by have := h.le; omega))⟩

theorem MSat.writeChunks_append (cs : List Bytes) (fa) {d : Dev} {L : Bytes} {r : Nat}
    (h : LiveAt d d.pos L r) :
    MSat (M.writeChunks cs) fa d (fun _ d' => d'.pos = d.pos + (ser cs).length ∧
      LiveAt d' (d.pos + (ser cs).length) (L ++ ser cs) r) := by
  induction cs generalizing d L with
  | nil =>
    apply MSat.pure
    simp only [ser, List.flatten_nil, List.length_nil, Nat.add_zero, List.append_nil]
    exact ⟨trivial, h⟩
  | cons c cs ih =>
    unfold M.writeChunks
    apply MSat.bind
    apply MSat.mono (MSat.writeAll_append c fa h)
    intro _ d' ⟨h1, h2⟩
    rw [← h1] at h2
    apply MSat.mono (ih h2)
    intro _ d'' ⟨h3, h4⟩
    simp only [ser, List.flatten_cons, List.length_append] at h3 h4 ⊢
    refine ⟨by omega, ?_⟩
    rw [List.append_assoc] at h4
    exact h4.castPos (by omega)

theorem MSat.seekStart_live (n : Nat) (fa) {d : Dev} {q : Nat} {L : Bytes} {r : Nat}
    (h : LiveAt d q L r) :
    MSat (M.seek (.start n)) fa d (fun v d' => v = n ∧ d'.pos = n ∧ LiveAt d' q L r) := by
  apply MSat.mono (MSat.seekStart_buf n fa d)
  intro _ d' ⟨h1, h2, h3⟩
  exact ⟨h1, h2, h.congr h3⟩

theorem MSat.streamPosition_live (fa) {d : Dev} {q : Nat} {L : Bytes} {r : Nat}
    (h : LiveAt d q L r) :
    MSat M.streamPosition fa d (fun v d' => v = d.pos ∧ d'.pos = d.pos ∧ LiveAt d' q L r) := by
  apply MSat.mono (MSat.streamPosition_buf fa d)
  intro _ d' ⟨h1, h2, h3⟩
  exact ⟨h1, h2, h.congr h3⟩

end ZipVerif.WL
