import ZipVerif.Model.Writer
import ZipVerif.Spec.Zip
import ZipVerif.Spec.ZipView
/-
Shared vocabulary of the "writer emits a layout" development (C01, C02, C13, C14).

The theorem family says: on a fault-free sink, what the writer model leaves in the sink after
`finish()` IS `Spec.Zip.build l` for a layout `l` written down from the calls alone.  The bridge
between the writer's bookkeeping (`WState.files : List FileData`) and the format specification
(`Spec.Zip.Entry`) is the relation `Closed`: "the central record the writer will emit for `f` is the
spec's central record of `e` at offset `off`".  It is deliberately stated on the SERIALISATION, so
that it covers records the writer created itself and records re-hydrated by `new_append` alike.
-/

namespace ZipVerif.WL
open ZipVerif ZipVerif.Model ZipVerif.Spec.Zip

/-- The writer record `f` is the central-directory image of the spec entry `e` whose local header
lies at `off` (relative to the archive proper = absolute, the writer never has a prefix). -/
def Closed (e : Entry) (off : Nat) (f : FileData) : Prop :=
  ∃ cs, centralHeaderChunks f = .ok cs ∧ ser cs = centralRecord e (UInt64.ofNat off)

/-- `Closed` along a list, offsets advancing exactly as `Spec.Zip.localOffsets` does. -/
def ClosedAll : List Entry → Nat → List FileData → Prop
  | [], _, [] => True
  | e :: es, start, f :: fs =>
    Closed e (start + e.gapBefore.length) f ∧ ClosedAll es (start + e.localBytes.length) fs
  | _, _, _ => False

/-- The spec entry of a record the writer created itself.
* `f`   — the finished record (CRC and sizes final);
* `dp`  — its DOS date (`f.time.datepart`, which exists for every constructible `DateTime`);
* `gap` — dead bytes between the previous record's end and this local header;
* `lx`  — extra bytes of the local header after the ZIP64 record (Level 1: `[]`);
* `data`— the stored bytes;
* `lv`  — the version-needed written into the LOCAL header when the entry was started (the local
          header is written before the sizes are known and the version is not back-patched). -/
def specEntry (f : FileData) (dp : UInt16) (gap lx data : Bytes) (lv : UInt16) : Entry :=
  { madeBy := (f.system.discr <<< 8) ||| f.versionMadeBy.toUInt16
    versionNeeded := f.versionNeeded
    flags := flagOf f
    method := f.method.toU16
    time := f.time.timepart
    date := dp
    crc := f.crc32
    usize := f.uncompressedSize
    name := f.fileName
    centralExtra := f.extraField
    comment := []
    internalAttrs := 0
    externalAttrs := f.externalAttributes
    z64 := (false, false, false)
    localExtra := lx
    localZip64 := f.largeFile
    desc := .none
    gapBefore := gap
    data := data
    localVersion := some lv }

/-- The layout a writer run produces: no prefix, entries, dead bytes before the directory, the
comment; ZIP64 end records exactly when needed, written with version 46/46 (`DEFAULT_VERSION`);
`trailing` = stale bytes of the old archive that an in-place rewrite (`new_append`) could not
truncate (always `[]` for a fresh writer). -/
def layoutOf (es : List Entry) (gap comment trailing : Bytes) : Layout :=
  { pre := [], entries := es, gapBeforeCd := gap, comment := comment, zip64End := false,
    trailing := trailing, end64Versions := (46, 46) }

end ZipVerif.WL
