import ZipVerif.Lemmas.WLRun
/-
A second, purely ghost-level invariant of the writer development: the entries the writer closes are
representable (`Entry.Fits`) and readable (`Entry.Readable`) BY CONSTRUCTION — the name length is
checked by `start_entry`, there is no entry comment, no extra data (Level 1), the entry is not
encrypted, and its method is not the AES pseudo-method (refused by `switch_to`; for a raw copy of a
foreign entry this is a hypothesis on the source).
-/

namespace ZipVerif.WL
open ZipVerif ZipVerif.Model ZipVerif.Spec.Zip
open ZipVerif.Props.C12 (Call)

/-- What the writer guarantees of every entry it closes. -/
structure EntryOk (e : Spec.Zip.Entry) : Prop where
  name : e.name.length ≤ 0xFFFF
  comment : e.comment = []
  localExtra : e.localExtra = []
  centralExtra : e.centralExtra = []
  method : e.method ≠ 99
  plain : (e.flagsOut &&& 1 == 1) = false
  desc : e.desc = .none
  z64 : e.z64 = (false, false, false)

/-- The same for the record of the open entry. -/
structure RecOk (f : FileData) : Prop where
  name : f.fileName.length ≤ 0xFFFF
  extra : f.extraField = []
  plain : f.encrypted = false
  method : f.method.toU16 ≠ 99

def Good : Ghost → Prop
  | .idle done _ _ => ∀ e ∈ done, EntryOk e
  | .opened done _ _ o => (∀ e ∈ done, EntryOk e) ∧ RecOk o.f
  | .dead => True
  | .stuck .. => True
  | .lost => True

theorem flagOf_plain (f : FileData) (h : f.encrypted = false) : (flagOf f &&& 1 == 1) = false := by
  unfold flagOf
  rw [h]
  cases isAscii f.fileName <;> decide

theorem specEntry_ok {f : FileData} (h : RecOk f) (dp : UInt16) (gap data : Bytes) (lv : UInt16) :
    EntryOk (specEntry f dp gap [] data lv) :=
  ⟨h.name, rfl, rfl, h.extra, h.method, flagOf_plain f h.plain, rfl, rfl⟩

theorem RecOk.final {f : FileData} (h : RecOk f) (plain data : Bytes) : RecOk (finalRec f plain data) :=
  ⟨h.name, h.extra, h.plain, h.method⟩

theorem mem_snoc {α} {a : α} {l : List α} {b : α} (h : a ∈ l ++ [b]) : a ∈ l ∨ a = b := by
  rcases List.mem_append.mp h with h | h
  · exact Or.inl h
  · exact Or.inr (by simpa using h)

/-- Closing keeps every closed entry representable. -/
theorem Good.close {ext : WExt} {g : Ghost} (hG : Good g) {es : List Spec.Zip.Entry} {gap c : Bytes}
    (hg : g.close ext = some (es, gap, c)) : ∀ e ∈ es, EntryOk e := by
  cases g with
  | dead => cases hg
  | stuck ss n wf => cases hg
  | lost => cases hg
  | idle done gap0 c0 => cases hg; exact hG
  | opened done gap0 c0 o =>
    obtain ⟨hd, ho⟩ := hG
    simp only [Ghost.close, closeRec] at hg
    cases hdp : o.f.time.datepart with
    | none => rw [hdp] at hg; cases hg
    | some dp =>
      rw [hdp] at hg
      dsimp only at hg
      cases hraw : o.raw with
      | true =>
        rw [hraw] at hg
        simp only [if_true] at hg
        cases hg
        intro e he
        rcases mem_snoc he with h | h
        · exact hd e h
        · rw [h]; exact specEntry_ok ho _ _ _ _
      | false =>
        rw [hraw] at hg
        simp only [Bool.false_eq_true, if_false] at hg
        by_cases hov : o.f.largeFile = false ∧ (UInt64.ofNat (dataOf ext o.f o.plain).length > ZIP64_BYTES_THR ∨ o.plain.length > 0xFFFFFFFF)
        · rw [if_pos hov] at hg; cases hg
        rw [if_neg hov] at hg
        cases hg
        intro e he
        rcases mem_snoc he with h | h
        · exact hd e h
        · rw [h]; exact specEntry_ok (ho.final _ _) _ _ _ _

theorem writable_not_aes {m : Method} (h : writable m = true) : m.toU16 ≠ 99 := by
  cases m with
  | aes => simp [writable] at h
  | unsupported v => simp [writable] at h
  | stored => decide
  | deflated => decide
  | bzip2 => decide
  | zstd => decide

/-- A call that starts an entry keeps the ghost good, provided the method it records is not AES. -/
theorem Good.startG {ext : WExt} {g : Ghost} (hG : Good g) (name : Bytes) (o : FileOptions)
    (raw : Option (UInt32 × UInt64 × UInt64)) (ok : Bool) (mk : FileData → OpenRec)
    (hmk : ∀ f, (mk f).f = f) (henc : o.encryptWith = none)
    (hm : ok = true → o.method.toU16 ≠ 99) :
    Good (startG ext g name o raw ok mk) := by
  unfold WL.startG
  split
  · exact hG
  next hn =>
  split
  · split <;> trivial
  next es gap c f hst =>
  cases ok with
  | false => trivial
  | true =>
    simp only [if_true]
    have hes : ∀ e ∈ es, EntryOk e := by
      unfold Ghost.start at hst
      split at hst
      · cases hst
      next es0 gap0 c0 hcl =>
        have := hG.close hcl
        split at hst
        · split at hst
          · cases hst; exact this
          · cases hst
        · cases hst
    obtain ⟨hs, ds, hf⟩ := Ghost.start_rec hst
    refine ⟨hes, ?_⟩
    rw [hmk, hf]
    refine ⟨by show name.length ≤ 65535; omega, rfl, ?_, hm rfl⟩
    show o.encryptWith.isSome = false
    rw [henc]; rfl

/-- Level 1 plus what the reader needs of a raw copy's source: it is not a WinZip-AES entry. -/
def Level1R : Call → Prop
  | .rawCopy src raw _ => raw.length = src.compressedSize.toNat ∧ src.method.toU16 ≠ 99
  | c => Level1 c

instance : DecidablePred Level1R := fun c => by
  cases c <;> unfold Level1R <;> infer_instance

theorem Level1R.level1 {c : Call} (h : Level1R c) : Level1 c := by
  cases c <;> first | exact h | exact h.1

theorem OpenRec.write_f (o : OpenRec) (b : Bytes) : (o.write b).f = o.f := by
  unfold OpenRec.write; split <;> rfl

theorem good_step (ext : WExt) (g : Ghost) (c : Call) (hc : Level1R c) (out : Out (Option Nat))
    (hG : Good g) : Good (ghostStep ext g c out) := by
  unfold ghostStep
  split
  · trivial
  unfold ghostStepRet
  split
  · trivial
  · trivial
  · unfold ghostStepStuck
    split
    · split
      · split
        · split <;> trivial
        · trivial
      · trivial
    · trivial
  unfold ghostStepAlive
  cases c with
  | startFile n o =>
    refine hG.startG _ _ _ _ _ (fun _ => rfl) hc ?_
    intro h
    have : writable (fileOpts o).method = true := by
      cases h1 : okO out <;> rw [h1] at h <;> simp at h
      exact h
    exact writable_not_aes this
  | addDirectory n o =>
    exact hG.startG _ _ _ _ _ (fun _ => rfl) hc (fun _ => by show Method.stored.toU16 ≠ 99; decide)
  | addSymlink n t o =>
    exact hG.startG _ _ _ _ _ (fun _ => rfl) hc (fun _ => by show Method.stored.toU16 ≠ 99; decide)
  | rawCopy src raw n =>
    exact hG.startG _ _ _ _ _ (fun _ => rfl) rfl (fun _ => hc.2)
  | write b =>
    cases g with
    | dead => trivial
    | stuck ss n wf => trivial
    | lost => trivial
    | idle done gap c0 => exact hG
    | opened done gap c0 o =>
      simp only [Ghost.writeStep]
      split
      · split
        · exact ⟨hG.1, by rw [OpenRec.write_f]; exact hG.2⟩
        · trivial
      · exact hG
  | setComment c' =>
    cases g with
    | dead => trivial
    | stuck ss n wf => trivial
    | lost => trivial
    | idle done gap c0 => exact hG
    | opened done gap c0 o => exact hG
  | endExtraData => exact hG
  | endLocalStartCentral => exact hG
  | startFileWithExtraData n o => exact hc.elim
  | startFileAligned n o a => exact hc.elim
  | finish => exact hc.elim
  | drop => exact hc.elim

theorem good_run (ext : WExt) : ∀ (calls : List Call) (outs : List (Out (Option Nat))) (g : Ghost),
    (∀ c ∈ calls, Level1R c) → Good g → Good (ghostOf ext g calls outs)
  | [], _, g, _, hG => by cases ‹List (Out (Option Nat))› <;> exact hG
  | c :: cs, [], g, _, hG => hG
  | c :: cs, o :: os, g, hc, hG =>
    good_run ext cs os _ (fun c' h' => hc c' (by simp [h'])) (good_step ext g c (hc c (by simp)) o hG)

/-! ### From `EntryOk` to the reader's hypotheses -/

theorem EntryOk.readable {e : Spec.Zip.Entry} (h : EntryOk e) : e.Readable :=
  ⟨by rw [h.centralExtra]; decide, h.method⟩

theorem EntryOk.fits {e : Spec.Zip.Entry} (h : EntryOk e) (hd : e.data.length < 2 ^ 63)
    (hu : e.usize.toNat < 2 ^ 63) : e.Fits := by
  refine ⟨h.name, by rw [h.comment]; decide, ?_, by rw [h.centralExtra]; decide, hd, hu⟩
  rw [h.localExtra]
  split <;> decide

theorem data_le_locals {e : Spec.Zip.Entry} : ∀ {es : List Spec.Zip.Entry}, e ∈ es →
    e.data.length ≤ (localsBytes es).length
  | x :: es, h => by
    rw [localsBytes_cons, List.length_append]
    rcases List.mem_cons.mp h with h | h
    · subst h
      simp only [Entry.localBytes, List.length_append]
      omega
    · have := data_le_locals h
      omega

/-- `Layout.Fits` and `Layout.Readable` for the layout the writer emitted. -/
theorem layout_fits_readable {es : List Spec.Zip.Entry} (gap c t : Bytes) (hes : ∀ e ∈ es, EntryOk e)
    (hc : c.length ≤ 65535) (hsize : (build (layoutOf es gap c t)).length < 2 ^ 63)
    (hu : ∀ e ∈ es, e.usize.toNat < 2 ^ 63) :
    (layoutOf es gap c t).Fits ∧ (layoutOf es gap c t).Readable := by
  refine ⟨⟨?_, hc, hsize⟩, fun e he => (hes e he).readable⟩
  intro e he
  refine (hes e he).fits ?_ (hu e he)
  have h1 := data_le_locals (show e ∈ es from he)
  have h2 : (localsBytes es).length ≤ (build (layoutOf es gap c t)).length := by
    simp only [build, layoutOf, List.length_append]
    omega
  omega

end ZipVerif.WL
