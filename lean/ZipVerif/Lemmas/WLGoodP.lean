import ZipVerif.Lemmas.WLOrigin
/-
A generic ghost-level invariant: a property `P` of closed entries that holds of the entries a run
starts with and of every entry the writer closes (because a property `Q` holds of the record
`start_entry` pushes for it) holds of every entry of the emitted layout.  `Lemmas/WLGood.lean` is the
instance "representable and readable"; `Props/C13Layout.lean` uses the instance `AppendClean`.
-/

namespace ZipVerif.WL
open ZipVerif ZipVerif.Model ZipVerif.Spec.Zip
open ZipVerif.Props.C12 (Call)

/-- `Q` of a record implies `P` of the entry it is closed as; `Q` survives the back-patch. -/
structure GoodSpec (P : Spec.Zip.Entry → Prop) (Q : FileData → Prop) : Prop where
  spec : ∀ f dp gap data lv, Q f → P (specEntry f dp gap [] data lv)
  final : ∀ f plain data, Q f → Q (finalRec f plain data)

def GoodP (P : Spec.Zip.Entry → Prop) (Q : FileData → Prop) : Ghost → Prop
  | .idle done _ _ => ∀ e ∈ done, P e
  | .opened done _ _ o => (∀ e ∈ done, P e) ∧ Q o.f
  | .dead => True
  | .stuck .. => True
  | .lost => True

/-- what `Q` asks of a call: the record it makes `start_entry` push satisfies `Q` -/
def CallQ (Q : FileData → Prop) : Call → Prop
  | .startFile n o => ∀ hs ds, Q (mkRec n (fileOpts o) none hs ds)
  | .addDirectory n o => ∀ hs ds, Q (mkRec (dirName n) (dirOpts o) none hs ds)
  | .addSymlink n _ o => ∀ hs ds, Q (mkRec n (linkOpts o) none hs ds)
  | .rawCopy src _ n => ∀ hs ds, Q (mkRec n (rawOpts src) (rawVals src) hs ds)
  | _ => True

variable {P : Spec.Zip.Entry → Prop} {Q : FileData → Prop}

theorem GoodP.close (hS : GoodSpec P Q) {ext : WExt} {g : Ghost} (hG : GoodP P Q g)
    {es : List Spec.Zip.Entry} {gap c : Bytes} (hg : g.close ext = some (es, gap, c)) : ∀ e ∈ es, P e := by
  cases g with
  | dead => cases hg
  | stuck ss n wf => cases hg
  | lost => cases hg
  | idle done gap0 c0 => cases hg; exact hG
  | opened done gap0 c0 o =>
    obtain ⟨hd, ho⟩ := hG
    simp only [Ghost.close, closeRec] at hg
    cases hdp : o.f.time.datepart with
    | none => rw [hdp] at hg; cases hg
    | some dp =>
      rw [hdp] at hg
      dsimp only at hg
      cases hraw : o.raw with
      | true =>
        rw [hraw] at hg
        simp only [if_true] at hg
        cases hg
        intro e he
        rcases mem_snoc he with h | h
        · exact hd e h
        · rw [h]; exact hS.spec _ _ _ _ _ ho
      | false =>
        rw [hraw] at hg
        simp only [Bool.false_eq_true, if_false] at hg
        by_cases hov : o.f.largeFile = false ∧ (UInt64.ofNat (dataOf ext o.f o.plain).length > ZIP64_BYTES_THR ∨ o.plain.length > 0xFFFFFFFF)
        · rw [if_pos hov] at hg; cases hg
        rw [if_neg hov] at hg
        cases hg
        intro e he
        rcases mem_snoc he with h | h
        · exact hd e h
        · rw [h]; exact hS.spec _ _ _ _ _ (hS.final _ _ _ ho)

theorem GoodP.startG (hS : GoodSpec P Q) {ext : WExt} {g : Ghost} (hG : GoodP P Q g) (name : Bytes)
    (o : FileOptions) (raw : Option (UInt32 × UInt64 × UInt64)) (ok : Bool) (mk : FileData → OpenRec)
    (hmk : ∀ f, (mk f).f = f) (hq : ∀ hs ds, Q (mkRec name o raw hs ds)) :
    GoodP P Q (startG ext g name o raw ok mk) := by
  unfold WL.startG
  split
  · exact hG
  split
  · split <;> trivial
  next es gap c f hst =>
  cases ok with
  | false => trivial
  | true =>
    simp only [if_true]
    obtain ⟨hs, ds, hf⟩ := Ghost.start_rec hst
    refine ⟨hG.close hS (Ghost.start_close hst), ?_⟩
    rw [hmk, hf]
    exact hq hs ds

theorem goodP_step (hS : GoodSpec P Q) (ext : WExt) (g : Ghost) (c : Call) (hc : CallQ Q c)
    (out : Out (Option Nat)) (hG : GoodP P Q g) : GoodP P Q (ghostStep ext g c out) := by
  by_cases ha : ¬ g.alive
  · have := ghostStep_not_alive ext ha c out
    cases h : ghostStep ext g c out with
    | dead => trivial
    | stuck ss n wf => trivial
    | lost => trivial
    | idle D gap c0 => rw [h] at this; exact absurd trivial this
    | opened D gap c0 o => rw [h] at this; exact absurd trivial this
  have ha : g.alive := Classical.not_not.mp ha
  unfold ghostStep
  split
  · trivial
  rw [ghostStep_alive ext ha]
  unfold ghostStepAlive
  cases c with
  | startFile n o => exact hG.startG hS _ _ _ _ _ (fun _ => rfl) hc
  | addDirectory n o => exact hG.startG hS _ _ _ _ _ (fun _ => rfl) hc
  | addSymlink n t o => exact hG.startG hS _ _ _ _ _ (fun _ => rfl) hc
  | rawCopy src raw n => exact hG.startG hS _ _ _ _ _ (fun _ => rfl) hc
  | write b =>
    cases g with
    | dead => trivial
    | stuck ss n wf => trivial
    | lost => trivial
    | idle done gap c0 => exact hG
    | opened done gap c0 o =>
      simp only [Ghost.writeStep]
      split
      · split
        · exact ⟨hG.1, by rw [OpenRec.write_f]; exact hG.2⟩
        · trivial
      · exact hG
  | setComment c' =>
    cases g with
    | dead => trivial
    | stuck ss n wf => trivial
    | lost => trivial
    | idle done gap c0 => exact hG
    | opened done gap c0 o => exact hG
  | endExtraData => exact hG
  | endLocalStartCentral => exact hG
  | startFileWithExtraData n o => exact hG
  | startFileAligned n o a => exact hG
  | finish => exact hG
  | drop => exact hG

theorem goodP_run (hS : GoodSpec P Q) (ext : WExt) : ∀ (calls : List Call) (outs : List (Out (Option Nat)))
    (g : Ghost), (∀ c ∈ calls, CallQ Q c) → GoodP P Q g → GoodP P Q (ghostOf ext g calls outs)
  | [], outs, g, _, hG => by cases outs <;> exact hG
  | c :: cs, [], g, _, hG => hG
  | c :: cs, o :: os, g, hc, hG =>
    goodP_run hS ext cs os _ (fun c' h' => hc c' (by simp [h']))
      (goodP_step hS ext g c (hc c (by simp)) o hG)

end ZipVerif.WL
