import ZipVerif.Lemmas.WLGood
/-
Where each closed entry of the ghost comes from: a third, purely ghost-level fold `originsOf` that
records for every entry the record `start_entry` pushed for it and the plaintext the `write` calls
delivered (or the raw bytes of a raw copy), and the relation `OriginRel` that ties it to the entry of
the emitted layout.  This is what lets the round-trip theorem speak of "the plaintext of entry i".
-/

namespace ZipVerif.WL
open ZipVerif ZipVerif.Model ZipVerif.Spec.Zip
open ZipVerif.Props.C12 (Call)

/-- Where a closed entry comes from. -/
inductive Origin
  /-- it was there before the script started (an archive opened with `new_append`) -/
  | old
  /-- started through the writer: `f` = the record `start_entry` pushed (name, method, level, time,
  attributes), `plain` = the bytes the `write` calls delivered (a symlink's target) -/
  | written (f : FileData) (plain : Bytes)
  /-- a raw copy: the record pushed (CRC, sizes, method of the source) and the raw bytes -/
  | raw (f : FileData) (data : Bytes)

/-- The entry of the emitted layout that an origin stands for. -/
def OriginRel (ext : WExt) : Origin → Spec.Zip.Entry → Prop
  | .old, _ => True
  | .written f plain, e => ∃ dp gap, f.time.datepart = some dp ∧
      e = specEntry (finalRec f plain (dataOf ext f plain)) dp gap [] (dataOf ext f plain) f.versionNeeded
  | .raw f data, e => ∃ dp gap, f.time.datepart = some dp ∧
      e = specEntry f dp gap [] data f.versionNeeded

def OpenRec.origin (o : OpenRec) : Origin :=
  if o.raw then .raw o.f o.plain else .written o.f o.plain

def Ghost.done : Ghost → List Spec.Zip.Entry
  | .idle d _ _ => d
  | .opened d _ _ _ => d
  | .dead => []
  | .stuck .. => []
  | .lost => []

/-- origins of the entries after closing the open one (if any) -/
def Ghost.closeOrigins (g : Ghost) (org : List Origin) : List Origin :=
  match g with
  | .opened _ _ _ o => org ++ [o.origin]
  | _ => org

/-- From ghost `g` to ghost `g'`: the open entry's origin is appended exactly when it was closed. -/
def orgNext (g g' : Ghost) (org : List Origin) : List Origin :=
  match g, g' with
  | .opened D _ _ o, .opened D' _ _ _ => if D'.length = D.length then org else org ++ [o.origin]
  | _, _ => org

/-- One call: the open entry's origin is appended exactly when the call closed it. -/
def originStep (ext : WExt) (g : Ghost) (c : Call) (out : Out (Option Nat)) (org : List Origin) :
    List Origin := orgNext g (ghostStep ext g c out) org

def originsOf (ext : WExt) : Ghost → List Origin → List Call → List (Out (Option Nat)) → List Origin
  | g, org, c :: cs, o :: os => originsOf ext (ghostStep ext g c o) (originStep ext g c o org) cs os
  | _, org, _, _ => org

/-- The origins list describes the closed entries of the ghost. -/
def Traced (ext : WExt) (g : Ghost) (org : List Origin) : Prop :=
  g.alive → Forall2 (OriginRel ext) org g.done

theorem close_opened {ext : WExt} {D : List Spec.Zip.Entry} {gap c : Bytes} {o : OpenRec}
    {es : List Spec.Zip.Entry} {gap' c' : Bytes}
    (h : (Ghost.opened D gap c o).close ext = some (es, gap', c')) :
    ∃ e, es = D ++ [e] ∧ OriginRel ext o.origin e := by
  simp only [Ghost.close, closeRec] at h
  cases hdp : o.f.time.datepart with
  | none => rw [hdp] at h; cases h
  | some dp =>
    rw [hdp] at h
    dsimp only at h
    cases hraw : o.raw with
    | true =>
      rw [hraw] at h
      simp only [if_true] at h
      cases h
      refine ⟨_, rfl, ?_⟩
      simp only [OpenRec.origin, hraw, if_true]
      exact ⟨dp, gap, hdp, rfl⟩
    | false =>
      rw [hraw] at h
      simp only [Bool.false_eq_true, if_false] at h
      by_cases hov : o.f.largeFile = false ∧ (UInt64.ofNat (dataOf ext o.f o.plain).length > ZIP64_BYTES_THR ∨ o.plain.length > 0xFFFFFFFF)
      · rw [if_pos hov] at h; cases h
      rw [if_neg hov] at h
      cases h
      refine ⟨_, rfl, ?_⟩
      simp only [OpenRec.origin, hraw, Bool.false_eq_true, if_false]
      exact ⟨dp, gap, hdp, rfl⟩

theorem Ghost.start_close {ext : WExt} {g : Ghost} {name : Bytes} {o : FileOptions}
    {raw : Option (UInt32 × UInt64 × UInt64)} {es : List Spec.Zip.Entry} {gap c : Bytes} {f : FileData}
    (hg : g.start ext name o raw = some (es, gap, c, f)) : g.close ext = some (es, gap, c) := by
  unfold Ghost.start at hg
  split at hg
  · cases hg
  next es0 gap0 c0 hcl =>
    split at hg
    · split at hg
      · cases hg; exact hcl
      · cases hg
    · cases hg

/-- What a start call does to the ghost, as far as the closed entries are concerned. -/
theorem startG_cases (ext : WExt) (g : Ghost) (name : Bytes) (o : FileOptions)
    (raw : Option (UInt32 × UInt64 × UInt64)) (ok : Bool) (mk : FileData → OpenRec) :
    startG ext g name o raw ok mk = g ∨ ¬ (startG ext g name o raw ok mk).alive ∨
    ∃ es gap c f, g.close ext = some (es, gap, c) ∧ startG ext g name o raw ok mk = .opened es gap c (mk f) := by
  unfold startG
  split
  · exact Or.inl rfl
  split
  · right; left
    split <;> exact fun h => h
  next es gap c f hst =>
    cases ok with
    | false => exact Or.inr (Or.inl (fun h => h))
    | true => exact Or.inr (Or.inr ⟨es, gap, c, f, Ghost.start_close hst, rfl⟩)

theorem Forall2.length_eq {α β} {R : α → β → Prop} {l1 : List α} {l2 : List β} (h : Forall2 R l1 l2) :
    l1.length = l2.length := by
  induction h with
  | nil => rfl
  | cons _ _ ih => simp [ih]

/-- The effect of one call on (ghost, origins), given what the call does to the ghost. -/
theorem traced_of_cases (ext : WExt) {g g' : Ghost} {org : List Origin} (hT : Traced ext g org)
    (ha : g.alive)
    (h : ¬ g'.alive ∨ (g'.alive ∧ g'.done = g.done) ∨
      ∃ es gap c o', g.close ext = some (es, gap, c) ∧ g' = .opened es gap c o') :
    Traced ext g' (orgNext g g' org) := by
  have hF := hT ha
  unfold orgNext
  rcases h with h | ⟨h1, h2⟩ | ⟨es, gap, c, o', hcl, h⟩
  · intro h'; exact absurd h' h
  · intro _
    rw [h2]
    cases g with
    | dead => exact ha.elim
    | stuck ss n wf => exact ha.elim
    | lost => exact ha.elim
    | idle D gap c => exact hF
    | opened D gap c o =>
      cases g' with
      | dead => exact h1.elim
      | stuck ss n wf => exact h1.elim
      | lost => exact h1.elim
      | idle D' gap' c' => exact hF
      | opened D' gap' c' o' =>
        have : D' = D := h2
        subst this
        simp only [if_true]
        exact hF
  · subst h
    intro _
    cases g with
    | dead => exact ha.elim
    | stuck ss n wf => exact ha.elim
    | lost => exact ha.elim
    | idle D gap0 c0 =>
      cases hcl
      exact hF
    | opened D gap0 c0 o =>
      obtain ⟨e, hes, hrel⟩ := close_opened hcl
      subst hes
      have : ¬ (D ++ [e]).length = D.length := by simp
      simp only [this, if_false]
      exact hF.snoc hrel

/-- A ghost that is neither idle nor open stays so. -/
theorem ghostStep_not_alive (ext : WExt) {g : Ghost} (ha : ¬ g.alive) (c : Call) (out : Out (Option Nat)) :
    ¬ (ghostStep ext g c out).alive := by
  cases g with
  | dead => unfold ghostStep; split <;> exact fun h => h
  | lost => unfold ghostStep; split <;> exact fun h => h
  | stuck ss n wf =>
    unfold ghostStep
    split
    · exact fun h => h
    · unfold ghostStepRet ghostStepStuck
      dsimp only
      split
      · split
        · split
          · split <;> exact fun h => h
          · exact fun h => h
        · exact fun h => h
      · exact fun h => h
  | idle D gap c0 => exact absurd trivial ha
  | opened D gap c0 o => exact absurd trivial ha

/-- **What one call does to the closed entries of the ghost**: the successor is poisoned / stuck / lost,
or has the same closed entries, or is a fresh open entry after closing the current one. -/
theorem ghostStep_cases (ext : WExt) {g : Ghost} (ha : g.alive) (c : Call) (out : Out (Option Nat)) :
    ¬ (ghostStep ext g c out).alive ∨
    ((ghostStep ext g c out).alive ∧ (ghostStep ext g c out).done = g.done) ∨
    ∃ es gap c' o', g.close ext = some (es, gap, c') ∧ ghostStep ext g c out = .opened es gap c' o' := by
  unfold ghostStep
  split
  · exact Or.inl (fun h => h)
  rw [ghostStep_alive ext ha]
  have hsame : (g.alive ∧ g.done = g.done) := ⟨ha, rfl⟩
  have hstart : ∀ name o raw ok mk,
      ¬ (startG ext g name o raw ok mk).alive ∨
      ((startG ext g name o raw ok mk).alive ∧ (startG ext g name o raw ok mk).done = g.done) ∨
      ∃ es gap c o', g.close ext = some (es, gap, c) ∧ startG ext g name o raw ok mk = .opened es gap c o' := by
    intro name o raw ok mk
    rcases startG_cases ext g name o raw ok mk with h | h | ⟨es, gap, c, f, h1, h2⟩
    · rw [h]; exact Or.inr (Or.inl hsame)
    · exact Or.inl h
    · exact Or.inr (Or.inr ⟨es, gap, c, mk f, h1, h2⟩)
  unfold ghostStepAlive
  cases c with
  | startFile n o => exact hstart _ _ _ _ _
  | addDirectory n o => exact hstart _ _ _ _ _
  | addSymlink n t o => exact hstart _ _ _ _ _
  | rawCopy src raw n => exact hstart _ _ _ _ _
  | write b =>
    cases g with
    | dead => exact ha.elim
    | stuck ss n wf => exact ha.elim
    | lost => exact ha.elim
    | idle D gap c0 => exact Or.inr (Or.inl ⟨trivial, rfl⟩)
    | opened D gap c0 o =>
      simp only [Ghost.writeStep]
      split
      · split
        · exact Or.inr (Or.inl ⟨trivial, rfl⟩)
        · exact Or.inl (fun h => h)
      · exact Or.inr (Or.inl ⟨trivial, rfl⟩)
  | setComment c' =>
    cases g with
    | dead => exact ha.elim
    | stuck ss n wf => exact ha.elim
    | lost => exact ha.elim
    | idle D gap c0 => exact Or.inr (Or.inl ⟨trivial, rfl⟩)
    | opened D gap c0 o => exact Or.inr (Or.inl ⟨trivial, rfl⟩)
  | endExtraData => exact Or.inr (Or.inl hsame)
  | endLocalStartCentral => exact Or.inr (Or.inl hsame)
  | startFileWithExtraData n o => exact Or.inr (Or.inl hsame)
  | startFileAligned n o a => exact Or.inr (Or.inl hsame)
  | finish => exact Or.inr (Or.inl hsame)
  | drop => exact Or.inr (Or.inl hsame)

theorem traced_step (ext : WExt) (g : Ghost) (c : Call) (out : Out (Option Nat)) (org : List Origin)
    (hT : Traced ext g org) : Traced ext (ghostStep ext g c out) (originStep ext g c out org) := by
  unfold originStep
  by_cases ha : ¬ g.alive
  · intro h'; exact absurd h' (ghostStep_not_alive ext ha c out)
  have ha : g.alive := Classical.not_not.mp ha
  exact traced_of_cases ext hT ha (ghostStep_cases ext ha c out)

theorem traced_run (ext : WExt) : ∀ (calls : List Call) (outs : List (Out (Option Nat))) (g : Ghost)
    (org : List Origin), Traced ext g org →
    Traced ext (ghostOf ext g calls outs) (originsOf ext g org calls outs)
  | [], outs, g, org, h => by cases outs <;> exact h
  | c :: cs, [], g, org, h => h
  | c :: cs, o :: os, g, org, h => traced_run ext cs os _ _ (traced_step ext g c o org h)

/-- After `finish`: one origin per entry of the emitted layout, in order. -/
theorem traced_final {ext : WExt} {g : Ghost} {org : List Origin} (hT : Traced ext g org)
    {es : List Spec.Zip.Entry} {gap c : Bytes} (hg : g.close ext = some (es, gap, c)) :
    Forall2 (OriginRel ext) (g.closeOrigins org) es := by
  cases g with
  | dead => cases hg
  | stuck ss n wf => cases hg
  | lost => cases hg
  | idle D gap0 c0 => cases hg; exact hT trivial
  | opened D gap0 c0 o =>
    obtain ⟨e, hes, hrel⟩ := close_opened hg
    subst hes
    exact (hT trivial).snoc hrel

theorem traced_init (ext : WExt) (gap c : Bytes) : Traced ext (.idle [] gap c) [] := fun _ => .nil

theorem Forall2.get {α β} {R : α → β → Prop} {l1 : List α} {l2 : List β} (h : Forall2 R l1 l2) :
    ∀ (i : Nat) (b : β), l2[i]? = some b → ∃ a, l1[i]? = some a ∧ R a b := by
  induction h with
  | nil => intro i b hb; simp at hb
  | cons hab _ ih =>
    intro i b hb
    cases i with
    | zero => simp at hb; subst hb; exact ⟨_, rfl, hab⟩
    | succ i => simp at hb; simpa using ih i b hb

/-! ### Closed entries are never removed or reordered -/

theorem close_prefix {ext : WExt} {g : Ghost} {es : List Spec.Zip.Entry} {gap c : Bytes}
    (hg : g.close ext = some (es, gap, c)) : g.done <+: es := by
  cases g with
  | dead => cases hg
  | stuck ss n wf => cases hg
  | lost => cases hg
  | idle D gap0 c0 => cases hg; exact List.prefix_refl _
  | opened D gap0 c0 o =>
    obtain ⟨e, hes, _⟩ := close_opened hg
    subst hes
    exact List.prefix_append _ _

theorem done_prefix_step (ext : WExt) {g : Ghost} (c : Call) (out : Out (Option Nat))
    (ha' : (ghostStep ext g c out).alive) : g.alive ∧ g.done <+: (ghostStep ext g c out).done := by
  by_cases ha : ¬ g.alive
  · exact absurd ha' (ghostStep_not_alive ext ha c out)
  have ha : g.alive := Classical.not_not.mp ha
  refine ⟨ha, ?_⟩
  rcases ghostStep_cases ext ha c out with h | ⟨_, h⟩ | ⟨es, gap, c', o', hcl, h⟩
  · exact absurd ha' h
  · rw [h]; exact List.prefix_refl _
  · rw [h]; exact close_prefix hcl

/-- Over a whole run: the closed entries the run started with are a prefix of those it ends with. -/
theorem done_prefix_run (ext : WExt) : ∀ (calls : List Call) (outs : List (Out (Option Nat))) (g : Ghost),
    (ghostOf ext g calls outs).alive → g.alive ∧ g.done <+: (ghostOf ext g calls outs).done
  | [], outs, g, h => by cases outs <;> exact ⟨h, List.prefix_refl _⟩
  | c :: cs, [], g, h => ⟨h, List.prefix_refl _⟩
  | c :: cs, o :: os, g, h => by
    obtain ⟨h1, h2⟩ := done_prefix_run ext cs os _ h
    obtain ⟨h3, h4⟩ := done_prefix_step ext c o h1
    exact ⟨h3, List.IsPrefix.trans h4 h2⟩

theorem alive_of_close {ext : WExt} {g : Ghost} {es : List Spec.Zip.Entry} {gap c : Bytes}
    (hg : g.close ext = some (es, gap, c)) : g.alive := by
  cases g <;> first | trivial | cases hg

end ZipVerif.WL
