import ZipVerif.Lemmas.WLDefs
import ZipVerif.Lemmas.WLBytes
import ZipVerif.Lemmas.ZipLayout
/-
Record-level lemmas of the "writer emits a layout" development: what the model's serialisers write
is what the APPNOTE specification (`Spec/Zip.lean`) lays out.  Independent of the I/O monad.
-/

namespace ZipVerif.WL
open ZipVerif ZipVerif.Model ZipVerif.Spec.Zip

/-! ### The local header -/

/-- first 14 bytes of a local header: signature, version, flags, method, time, date -/
def hdrA (f : FileData) (dp lv : UInt16) : Bytes :=
  le32 LOCAL_SIG ++ (le16 lv ++ (le16 (flagOf f) ++ (le16 f.method.toU16 ++ (le16 f.time.timepart ++ le16 dp))))

/-- non-ZIP64 local header: the bytes after the three 32-bit fields -/
def hdrN (f : FileData) : Bytes :=
  le16 (UInt16.ofNat f.fileName.length) ++ (le16 (UInt16.ofNat 0) ++ f.fileName)

/-- ZIP64 local header: the bytes between the CRC and the two 64-bit sizes -/
def hdrM (f : FileData) : Bytes :=
  le32 0xFFFFFFFF ++ (le32 0xFFFFFFFF ++ (le16 (UInt16.ofNat f.fileName.length) ++
    (le16 (UInt16.ofNat 20) ++ (f.fileName ++ (le16 0x0001 ++ le16 16)))))

/-- The local header of `f` (no extra data beyond the ZIP64 record) with version-needed `lv`. -/
def localHdr (f : FileData) (dp lv : UInt16) : Bytes :=
  if f.largeFile then
    hdrA f dp lv ++ (le32 f.crc32 ++ (hdrM f ++ (le64 f.uncompressedSize ++ le64 f.compressedSize)))
  else
    hdrA f dp lv ++ (le32 f.crc32 ++ (le32 (trunc32 f.compressedSize) ++
      (le32 (trunc32 f.uncompressedSize) ++ hdrN f)))

theorem hdrA_length (f : FileData) (dp lv : UInt16) : (hdrA f dp lv).length = 14 := by
  simp [hdrA]

theorem hdrM_length (f : FileData) : (hdrM f).length = 16 + f.fileName.length := by
  simp [hdrM]; omega

theorem hdrN_length (f : FileData) : (hdrN f).length = 4 + f.fileName.length := by
  simp [hdrN]; omega

theorem localHdr_length (f : FileData) (dp lv : UInt16) :
    (localHdr f dp lv).length = 30 + f.fileName.length + (if f.largeFile then 20 else 0) := by
  unfold localHdr
  split <;> simp [hdrA_length, hdrM_length, hdrN_length] <;> omega

/-- What `write_local_file_header` writes. -/
theorem ser_localHeaderChunks {f : FileData} {cs : List Bytes} (h : localHeaderChunks f = .ok cs)
    (hx : f.extraField = []) :
    ∃ dp, f.time.datepart = some dp ∧ ser cs = localHdr f dp f.versionNeeded := by
  unfold localHeaderChunks datepartOut localExtraLen at h
  rw [hx] at h
  cases hdp : f.time.datepart with
  | none => rw [hdp] at h; cases h
  | some dp =>
    rw [hdp] at h
    refine ⟨dp, rfl, ?_⟩
    cases hl : f.largeFile with
    | false =>
      rw [hl] at h
      simp only [Bool.false_eq_true, if_false, List.length_nil, Nat.zero_mod, Nat.add_zero] at h
      have h2 : cs = _ := (Out.ok.inj h).symm
      subst h2
      simp [ser, localHdr, hl, hdrA, hdrN]
    | true =>
      rw [hl] at h
      simp only [if_true, List.length_nil, Nat.zero_mod, Nat.add_zero] at h
      have h2 : cs = _ := (Out.ok.inj h).symm
      subst h2
      simp [ser, localHdr, hl, hdrA, hdrM, localZip64Chunks]

/-- The header does not depend on `dataStart` (set after the header was written). -/
theorem localHeaderChunks_dataStart (f : FileData) (ds : UInt64) :
    localHeaderChunks { f with dataStart := ds } = localHeaderChunks f := rfl

theorem writeAt_mid32 (A B : Bytes) (x x' : UInt32) (p : Nat) (hp : p = A.length) :
    writeAt (A ++ (le32 x ++ B)) p (le32 x') = A ++ (le32 x' ++ B) :=
  writeAt_mid A (le32 x) (le32 x') B p hp rfl

theorem writeAt_mid64 (A B : Bytes) (x x' : UInt64) (p : Nat) (hp : p = A.length) :
    writeAt (A ++ (le64 x ++ B)) p (le64 x') = A ++ (le64 x' ++ B) :=
  writeAt_mid A (le64 x) (le64 x') B p hp rfl

/-- Back-patch of a non-ZIP64 local header: three 4-byte writes at offsets 14, 18, 22. -/
theorem patch_small (A B : Bytes) (f : FileData) (dp lv : UInt16) (hl : f.largeFile = false)
    (c : UInt32) (cs us : UInt64) (p : Nat) (hp : p = A.length) :
    writeAt (writeAt (writeAt (A ++ (localHdr f dp lv ++ B)) (p + 14) (le32 c)) (p + 14 + 4)
        (le32 (trunc32 cs))) (p + 14 + 4 + 4) (le32 (trunc32 us)) =
      A ++ (localHdr { f with crc32 := c, uncompressedSize := us, compressedSize := cs } dp lv ++ B) := by
  subst hp
  have hA := hdrA_length f dp lv
  simp only [localHdr, hl, Bool.false_eq_true, if_false, List.append_assoc]
  have e1 : A ++ (hdrA f dp lv ++ (le32 f.crc32 ++ (le32 (trunc32 f.compressedSize) ++
      (le32 (trunc32 f.uncompressedSize) ++ (hdrN f ++ B))))) =
      (A ++ hdrA f dp lv) ++ (le32 f.crc32 ++ (le32 (trunc32 f.compressedSize) ++
      (le32 (trunc32 f.uncompressedSize) ++ (hdrN f ++ B)))) := by simp only [List.append_assoc]
  rw [e1, writeAt_mid32 _ _ _ c _ (by simp [hA])]
  have e2 : (A ++ hdrA f dp lv) ++ (le32 c ++ (le32 (trunc32 f.compressedSize) ++
      (le32 (trunc32 f.uncompressedSize) ++ (hdrN f ++ B)))) =
      (A ++ hdrA f dp lv ++ le32 c) ++ (le32 (trunc32 f.compressedSize) ++
      (le32 (trunc32 f.uncompressedSize) ++ (hdrN f ++ B))) := by simp only [List.append_assoc]
  rw [e2, writeAt_mid32 _ _ _ (trunc32 cs) _ (by simp [hA])]
  have e3 : (A ++ hdrA f dp lv ++ le32 c) ++ (le32 (trunc32 cs) ++
      (le32 (trunc32 f.uncompressedSize) ++ (hdrN f ++ B))) =
      (A ++ hdrA f dp lv ++ le32 c ++ le32 (trunc32 cs)) ++
      (le32 (trunc32 f.uncompressedSize) ++ (hdrN f ++ B)) := by simp only [List.append_assoc]
  rw [e3, writeAt_mid32 _ _ _ (trunc32 us) _ (by simp [hA])]
  simp only [List.append_assoc]
  rfl

/-- Back-patch of a ZIP64 local header: the CRC at 14, the two 64-bit sizes at 30 + name + 4. -/
theorem patch_large (A B : Bytes) (f : FileData) (dp lv : UInt16) (hl : f.largeFile = true)
    (c : UInt32) (cs us : UInt64) (p : Nat) (hp : p = A.length) :
    writeAt (writeAt (writeAt (A ++ (localHdr f dp lv ++ B)) (p + 14) (le32 c))
        (p + 30 + f.fileName.length + 4) (le64 us)) (p + 30 + f.fileName.length + 4 + 8) (le64 cs) =
      A ++ (localHdr { f with crc32 := c, uncompressedSize := us, compressedSize := cs } dp lv ++ B) := by
  subst hp
  have hA := hdrA_length f dp lv
  have hM := hdrM_length f
  simp only [localHdr, hl, if_true, List.append_assoc]
  have e1 : A ++ (hdrA f dp lv ++ (le32 f.crc32 ++ (hdrM f ++ (le64 f.uncompressedSize ++
      (le64 f.compressedSize ++ B))))) =
      (A ++ hdrA f dp lv) ++ (le32 f.crc32 ++ (hdrM f ++ (le64 f.uncompressedSize ++
      (le64 f.compressedSize ++ B)))) := by simp only [List.append_assoc]
  rw [e1, writeAt_mid32 _ _ _ c _ (by simp [hA])]
  have e2 : (A ++ hdrA f dp lv) ++ (le32 c ++ (hdrM f ++ (le64 f.uncompressedSize ++
      (le64 f.compressedSize ++ B)))) =
      (A ++ hdrA f dp lv ++ le32 c ++ hdrM f) ++ (le64 f.uncompressedSize ++
      (le64 f.compressedSize ++ B)) := by simp only [List.append_assoc]
  rw [e2, writeAt_mid64 _ _ _ us _ (by simp [hA, hM]; omega)]
  have e3 : (A ++ hdrA f dp lv ++ le32 c ++ hdrM f) ++ (le64 us ++ (le64 f.compressedSize ++ B)) =
      (A ++ hdrA f dp lv ++ le32 c ++ hdrM f ++ le64 us) ++ (le64 f.compressedSize ++ B) := by
    simp only [List.append_assoc]
  rw [e3, writeAt_mid64 _ _ _ cs _ (by simp [hA, hM]; omega)]
  simp only [List.append_assoc]
  rfl

/-- **`local_eq_spec`**: the local header as finally in the sink, followed by the stored bytes, is
the specification's local record of the entry (no descriptor). -/
theorem local_eq_spec (f : FileData) (dp lv : UInt16) (gap data : Bytes)
    (hc : f.compressedSize = UInt64.ofNat data.length) :
    gap ++ (localHdr f dp lv ++ data) = (specEntry f dp gap [] data lv).localBytes := by
  unfold Entry.localBytes localRecord descriptor
  simp only [specEntry, Entry.hasDesc, Entry.flagsOut, Entry.csize, ← hc]
  cases hl : f.largeFile with
  | false =>
    simp [localHdr, hl, hdrA, hdrN, lo32, trunc32, LOCAL_SIG, sigLocal]
  | true =>
    simp [localHdr, hl, hdrA, hdrM, LOCAL_SIG, sigLocal]

/-! ### The central header -/

theorem thr_toNat : ZIP64_BYTES_THR.toNat = 4294967295 := by decide

theorem ge_thr_iff (x : UInt64) : (x ≥ ZIP64_BYTES_THR) ↔ (x ≥ (0xFFFFFFFF : UInt64)) := Iff.rfl

theorem min32_eq (x : UInt64) :
    min32 x = if x ≥ (0xFFFFFFFF : UInt64) then (0xFFFFFFFF : UInt32) else lo32 x := by
  unfold min32 lo32
  by_cases h : x ≥ (0xFFFFFFFF : UInt64)
  · rw [if_pos h]
    by_cases h2 : x ≤ ZIP64_BYTES_THR
    · rw [if_pos h2]
      have : x = 0xFFFFFFFF := UInt64.le_antisymm h2 h
      rw [this]; rfl
    · rw [if_neg h2]; rfl
  · rw [if_neg h]
    have h2 : x ≤ ZIP64_BYTES_THR := by
      have := UInt64.not_le.mp h
      exact UInt64.le_of_lt this
    rw [if_pos h2]

/-- The ZIP64 record of the central header is the specification's. -/
theorem centralZip64_eq_spec (f : FileData) (dp : UInt16) (gap lx data : Bytes) (lv : UInt16)
    (hc : f.compressedSize = UInt64.ofNat data.length) :
    centralZip64Bytes f = (specEntry f dp gap lx data lv).centralZ64 f.headerStart := by
  unfold centralZip64Bytes Entry.centralZ64 Entry.zU Entry.zC Entry.zO Entry.csize
  simp only [specEntry, Bool.false_or, ← hc, ge_thr_iff]
  by_cases h1 : f.uncompressedSize ≥ (0xFFFFFFFF : UInt64) <;>
  by_cases h2 : f.compressedSize ≥ (0xFFFFFFFF : UInt64) <;>
  by_cases h3 : f.headerStart ≥ (0xFFFFFFFF : UInt64) <;>
  simp [h1, h2, h3]

/-- **`central_eq_spec`**: what `write_central_directory_header` writes for a finished record is the
specification's central record of the entry, at the record's own header offset. -/
theorem central_eq_spec {f : FileData} {cs : List Bytes} {dp : UInt16} (gap lx data : Bytes) (lv : UInt16)
    (h : centralHeaderChunks f = .ok cs) (hdp : f.time.datepart = some dp)
    (hc : f.compressedSize = UInt64.ofNat data.length) (hudd : f.usingDataDescriptor = false) :
    ser cs = centralRecord (specEntry f dp gap lx data lv) f.headerStart := by
  have hfl : centralFlagOf f = flagOf f := by
    unfold centralFlagOf; rw [hudd]; simp
  unfold centralHeaderChunks datepartOut at h
  rw [hdp] at h
  dsimp only [bind, Out.instMonad] at h
  split at h
  · cases h
  · have h2 : cs = _ := (Out.ok.inj h).symm
    subst h2
    rw [centralRecord_eq]
    have hz := centralZip64_eq_spec f dp gap lx data lv hc
    simp only [Entry.centralExtraAll, ← hz]
    simp only [ser, List.flatten_cons, List.flatten_nil, List.append_nil, List.append_assoc]
    simp only [specEntry, Entry.flagsOut, Entry.hasDesc, Entry.zU, Entry.zC, Entry.zO, Entry.csize, ← hc,
      Bool.false_or, min32_eq, List.length_append, List.length_nil, hfl]
    simp [CENTRAL_SIG, sigCentral]

/-! ### `ClosedAll` -/

theorem ClosedAll.length_eq : ∀ {es : List Spec.Zip.Entry} {st : Nat} {fs : List FileData},
    ClosedAll es st fs → es.length = fs.length
  | [], _, [], _ => rfl
  | [], _, _ :: _, h => h.elim
  | _ :: _, _, [], h => h.elim
  | e :: es, st, f :: fs, h => by
    have := ClosedAll.length_eq h.2
    simp only [List.length_cons, this]

theorem ClosedAll.snoc : ∀ {es : List Spec.Zip.Entry} {st : Nat} {fs : List FileData} {e : Spec.Zip.Entry} {f : FileData},
    ClosedAll es st fs → Closed e (st + (localsBytes es).length + e.gapBefore.length) f →
    ClosedAll (es ++ [e]) st (fs ++ [f])
  | [], st, [], e, f, _, h => by
    exact ⟨h, trivial⟩
  | [], _, _ :: _, _, _, h, _ => h.elim
  | _ :: _, _, [], _, _, h, _ => h.elim
  | x :: es, st, g :: fs, e, f, h, hc => by
    refine ⟨h.1, ?_⟩
    apply ClosedAll.snoc h.2
    rw [localsBytes_cons, List.length_append] at hc
    rw [← Nat.add_assoc] at hc
    exact hc

/-- What `finalize`'s loop writes for closed records is the specification's central directory. -/
theorem centralBytes_cons (e : Spec.Zip.Entry) (es : List Spec.Zip.Entry) (st : Nat) :
    centralBytes (e :: es) (localOffsets (e :: es) st) =
      centralRecord e (UInt64.ofNat (st + e.gapBefore.length)) ++
        centralBytes es (localOffsets es (st + e.localBytes.length)) := rfl

/-! ### End records -/

theorem layoutOf_count (es : List Spec.Zip.Entry) (gap c t : Bytes) : (layoutOf es gap c t).count = es.length := rfl
theorem layoutOf_cdOffset (es : List Spec.Zip.Entry) (gap c t : Bytes) :
    (layoutOf es gap c t).cdOffset = (localsBytes es).length + gap.length := rfl
theorem layoutOf_cdSize (es : List Spec.Zip.Entry) (gap c t : Bytes) :
    (layoutOf es gap c t).cdSize = (centralBytes es (localOffsets es 0)).length := rfl
theorem layoutOf_cdBytes (es : List Spec.Zip.Entry) (gap c t : Bytes) :
    (layoutOf es gap c t).cdBytes = centralBytes es (localOffsets es 0) := rfl

theorem layoutOf_needs64 (es : List Spec.Zip.Entry) (gap c t : Bytes) :
    (layoutOf es gap c t).needs64 =
      (decide (es.length > ZIP64_ENTRY_THR) ||
       decide (max (centralBytes es (localOffsets es 0)).length ((localsBytes es).length + gap.length) > 0xFFFFFFFF)) := by
  unfold Layout.needs64
  rw [layoutOf_count, layoutOf_cdOffset, layoutOf_cdSize]
  simp only [layoutOf, Bool.false_or, ZIP64_ENTRY_THR]
  rw [Bool.or_assoc]
  congr 1
  rw [Bool.eq_iff_iff]
  simp only [Bool.or_eq_true, decide_eq_true_eq]
  omega

/-- The ZIP64 end record and locator `finalize` writes. -/
def end64Model (n cs co : Nat) : Bytes :=
  ser (eocd64Chunks {
    versionMadeBy := DEFAULT_VERSION.toUInt16, versionNeeded := DEFAULT_VERSION.toUInt16,
    diskNumber := 0, diskWithCd := 0, filesOnDisk := UInt64.ofNat n, files := UInt64.ofNat n,
    cdSize := UInt64.ofNat cs, cdOffset := UInt64.ofNat co }) ++
  ser (locatorChunks { diskWithCd := 0, eocd64Offset := UInt64.ofNat (co + cs), disks := 1 })

/-- The end-of-central-directory record `finalize` writes. -/
def eocdModel (n cs co : Nat) (comment : Bytes) : Bytes :=
  ser (eocdChunks {
    diskNumber := 0, diskWithCd := 0, filesOnDisk := UInt16.ofNat (min n ZIP64_ENTRY_THR),
    files := UInt16.ofNat (min n ZIP64_ENTRY_THR),
    cdSize := UInt32.ofNat (min cs 0xFFFFFFFF),
    cdOffset := UInt32.ofNat (min co 0xFFFFFFFF), comment := comment })

theorem end64_eq_spec (es : List Spec.Zip.Entry) (gap c t : Bytes)
    (h : (layoutOf es gap c t).needs64 = true) :
    end64Model es.length (centralBytes es (localOffsets es 0)).length ((localsBytes es).length + gap.length) =
      (layoutOf es gap c t).end64 := by
  unfold Layout.end64
  rw [if_pos h, layoutOf_count, layoutOf_cdOffset, layoutOf_cdSize]
  simp [end64Model, eocd64Chunks, locatorChunks, ser, layoutOf, EOCD64_SIG, sigEocd64, LOCATOR_SIG,
    sigLocator, DEFAULT_VERSION]

theorem eocd_eq_spec (es : List Spec.Zip.Entry) (gap c t : Bytes) :
    eocdModel es.length (centralBytes es (localOffsets es 0)).length ((localsBytes es).length + gap.length) c =
      (layoutOf es gap c t).eocd := by
  unfold Layout.eocd
  rw [layoutOf_count, layoutOf_cdOffset, layoutOf_cdSize]
  simp only [layoutOf, Bool.false_or, decide_eq_true_eq]
  simp only [eocdModel, eocdChunks, ser, List.flatten_cons, List.flatten_nil, List.append_nil,
    List.append_assoc, ZIP64_ENTRY_THR, EOCD_SIG, sigEocd]
  have e1 : ∀ n : Nat, UInt16.ofNat (min n 65535) = if n > 65535 then (0xFFFF : UInt16) else UInt16.ofNat n := by
    intro n
    by_cases h : n > 65535
    · rw [if_pos h, Nat.min_eq_right (by omega)]; rfl
    · rw [if_neg h, Nat.min_eq_left (by omega)]
  have e2 : ∀ n : Nat, UInt32.ofNat (min n 4294967295) = if n > 4294967295 then (0xFFFFFFFF : UInt32) else UInt32.ofNat n := by
    intro n
    by_cases h : n > 4294967295
    · rw [if_pos h, Nat.min_eq_right (by omega)]; rfl
    · rw [if_neg h, Nat.min_eq_left (by omega)]
  rw [e1, e2, e2]

end ZipVerif.WL
