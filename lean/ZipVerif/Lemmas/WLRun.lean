import ZipVerif.Lemmas.WLSteps
import ZipVerif.Props.C12
/-
The ghost state of the "writer emits a layout" development, the invariant `Lay` between calls, one
lemma per call of the Level-1 fragment and the induction over call scripts.

Level 1 = `start_file`, `add_directory`, `add_symlink` (all unencrypted), `write`, `set_comment`,
`raw_copy_file`, the misuse calls `end_extra_data` / `end_local_start_central_extra_data`; the script
is closed by `finish` (or `Drop`).  Not covered (a later level): `start_file_with_extra_data`,
`start_file_aligned`, encryption.
-/

namespace ZipVerif.WL
open ZipVerif ZipVerif.Model ZipVerif.Spec.Zip
open ZipVerif.Props.C12 (Call step runCalls outcomeOf mapStep mapStep_wsat mapStep_pure)

/-! ### Ghost state -/

/-- The entry being written, as the calls so far determine it. -/
structure OpenRec where
  /-- the record `start_entry` pushed (CRC and sizes: 0, or the source's for a raw copy) -/
  f : FileData
  /-- a raw copy -/
  raw : Bool
  /-- the plaintext `write` accepted so far (a symlink's target); for a raw copy: the raw bytes -/
  plain : Bytes
  /-- raw copy only: bytes written after the raw data (they end up as dead bytes) -/
  junk : Bytes
  /-- `write` is accepted (`start_file`, `raw_copy_file`) or refused (`add_directory`, `add_symlink`) -/
  wf : Bool

/-- What the calls that succeeded so far say the sink must contain. -/
inductive Ghost
  /-- closed entries `done`, dead bytes `gap` after them, archive comment `c`; no entry open -/
  | idle (done : List Spec.Zip.Entry) (gap : Bytes) (c : Bytes)
  /-- the same with one entry open -/
  | opened (done : List Spec.Zip.Entry) (gap : Bytes) (c : Bytes) (o : OpenRec)
  /-- the writer is poisoned (closed): `finish` can only fail -/
  | dead
  /-- the writer is stuck on an entry that cannot be closed: a non-ZIP64 entry whose `n` stored bytes
  (more than 0xFFFFFFFF), starting at `ss`, are in the sink.  `update_local_file_header` refuses it
  before touching the sink; every later close — in particular `finish` — fails the same way -/
  | stuck (ss n : Nat) (wf : Bool)
  /-- outside the quantifier of the theorem: a panic outcome, a sink position of 2^64 or more, or a
  timestamp before 1980 -/
  | lost

/-- the bytes of the open entry that are in the sink after its header -/
def OpenRec.sunk (o : OpenRec) : Bytes :=
  if o.raw then o.plain ++ o.junk else if o.f.method = .stored then o.plain else []

/-- a successful `write` of `b` into the open entry -/
def OpenRec.write (o : OpenRec) (b : Bytes) : OpenRec :=
  if o.raw then { o with junk := o.junk ++ b } else { o with plain := o.plain ++ b }

/-- Closing the open entry: the new list of closed entries and the dead bytes after them. -/
def closeRec (ext : WExt) (done : List Spec.Zip.Entry) (gap : Bytes) (o : OpenRec) :
    Option (List Spec.Zip.Entry × Bytes) :=
  match o.f.time.datepart with
  | none => none
  | some dp =>
    if o.raw then some (done ++ [specEntry o.f dp gap [] o.plain o.f.versionNeeded], o.junk)
    else
      -- the second disjunct never holds on a run of the writer (`write` refuses the byte that would make
      -- the plaintext of a non-ZIP64 entry exceed 0xFFFFFFFF); it makes the bound visible on the ghost
      if o.f.largeFile = false ∧ (UInt64.ofNat (dataOf ext o.f o.plain).length > ZIP64_BYTES_THR ∨ o.plain.length > 0xFFFFFFFF) then none
      else some (done ++ [specEntry (finalRec o.f o.plain (dataOf ext o.f o.plain)) dp gap []
        (dataOf ext o.f o.plain) o.f.versionNeeded], [])

/-- The archive after `finish_file`: closed entries, dead bytes, comment (`none`: dead or lost). -/
def Ghost.close (ext : WExt) : Ghost → Option (List Spec.Zip.Entry × Bytes × Bytes)
  | .idle done gap c => some (done, gap, c)
  | .opened done gap c o =>
    match closeRec ext done gap o with
    | some (es, g) => some (es, g, c)
    | none => none
  | .dead => none
  | .stuck .. => none
  | .lost => none

/-- Closing the open entry is refused (more than 0xFFFFFFFF stored bytes in a non-ZIP64 entry, sink
position still below 2^64): where the entry's data starts, its length, and whether `write` is accepted. -/
def Ghost.stuckAt (ext : WExt) : Ghost → Option (Nat × Nat × Bool)
  | .opened done gap _ o =>
    match o.f.time.datepart, localHeaderChunks o.f with
    | some _, .ok chunks =>
      if o.raw = false ∧ o.f.largeFile = false ∧
          UInt64.ofNat (dataOf ext o.f o.plain).length > ZIP64_BYTES_THR ∧
          (localsBytes done).length + gap.length + (ser chunks).length + (dataOf ext o.f o.plain).length
            < 18446744073709551616 then
        some ((localsBytes done).length + gap.length + (ser chunks).length,
          (dataOf ext o.f o.plain).length, o.wf)
      else none
    | _, _ => none
  | _ => none

/-- The record a successful `start_entry` pushes in ghost state `g`. -/
def Ghost.start (ext : WExt) (g : Ghost) (name : Bytes) (o : FileOptions)
    (raw : Option (UInt32 × UInt64 × UInt64)) :
    Option (List Spec.Zip.Entry × Bytes × Bytes × FileData) :=
  match g.close ext with
  | none => none
  | some (es, gap, c) =>
    if (localsBytes es).length + gap.length < 18446744073709551616 then
      match localHeaderChunks (mkRec name o raw ((localsBytes es).length + gap.length) 0) with
      | .ok chunks => some (es, gap, c, mkRec name o raw ((localsBytes es).length + gap.length)
          (UInt64.ofNat ((localsBytes es).length + gap.length + (ser chunks).length)))
      | _ => none
    else none

/-! ### The invariant between calls -/

/-- how the writer's mode matches the open entry -/
def Mode (o : OpenRec) (s : WState) : Prop :=
  (o.raw = true → s.writingRaw = true ∧ s.inner = .storer none ∧
    o.f.compressedSize = UInt64.ofNat o.plain.length) ∧
  (o.raw = false → s.writingRaw = false ∧ s.statsBytes = o.plain.length ∧
    s.statsHasher = Spec.Crc32.updateBytes 0xFFFFFFFF o.plain ∧
    ((o.f.method = .stored ∧ s.inner = .storer none) ∨
     (o.f.method ≠ .stored ∧ s.inner = .compressor o.f.method (effLevel o.f.method o.f.level) none o.plain)))

/-- The invariant: `r` bounds the number of stale bytes after the live part of the sink. -/
def Lay (r : Nat) : Ghost → WState → Dev → Prop
  | .idle done gap c, s, d =>
    Cl done gap r s d ∧ s.writingToFile = false ∧ (s.files = [] ∨ s.writingRaw = true) ∧ s.comment = c
  | .opened done gap c o, s, d =>
    ∃ chunks, Op done gap r o.f chunks o.sunk s d ∧ s.writingToFile = o.wf ∧ s.comment = c ∧ Mode o s
  | .dead, s, _ => s.inner = .closed
  | .stuck ss n wf, s, d => Stuck ss n wf s d
  | .lost, _, _ => True

/-- A fresh writer on any device positioned at its end … -/
theorem lay_init (d : Dev) (hd : d.pos = 0) : Lay d.buf.length (.idle [] [] []) WState.init d := by
  refine ⟨⟨⟨by omega, ?_, by omega⟩, trivial, rfl, rfl⟩, rfl, Or.inl rfl, rfl⟩
  rw [hd]; rfl

/-- Shape (A) of the invariant from its raw ingredients — the state `new_append` returns: the live part
of the sink is the local records of `done` followed by dead bytes `gap`, the writer's records are the
central images of `done`, the sink is handed back and no file is open. -/
theorem lay_idle_intro {done : List Spec.Zip.Entry} {gap : Bytes} {s : WState} {d : Dev}
    (hpos : d.pos ≤ d.buf.length) (hlive : d.buf.take d.pos = localsBytes done ++ gap)
    (hcl : ClosedAll done 0 s.files) (hin : s.inner = .storer none) (hwf : s.writingToFile = false)
    (hwe : s.writingToExtraField = false) (hidle : s.files = [] ∨ s.writingRaw = true) :
    Lay (d.buf.length - d.pos) (.idle done gap s.comment) s d :=
  ⟨⟨⟨hpos, hlive, by omega⟩, hcl, hin, hwe⟩, hwf, hidle, rfl⟩

/-! #### A decidable form of shape (A), for concrete states (e.g. the result of `new_append`) -/

/-- executable form of `Closed` -/
def closedB (e : Spec.Zip.Entry) (off : Nat) (f : FileData) : Bool :=
  match centralHeaderChunks f with
  | .ok cs => ser cs == centralRecord e (UInt64.ofNat off)
  | _ => false

/-- executable form of `ClosedAll` -/
def closedAllB : List Spec.Zip.Entry → Nat → List FileData → Bool
  | [], _, [] => true
  | e :: es, st, f :: fs =>
    closedB e (st + e.gapBefore.length) f && closedAllB es (st + e.localBytes.length) fs
  | _, _, _ => false

theorem closedB_sound {e : Spec.Zip.Entry} {off : Nat} {f : FileData} (h : closedB e off f = true) :
    Closed e off f := by
  unfold closedB at h
  split at h
  · next cs hcs => exact ⟨cs, hcs, by simpa using h⟩
  · cases h

theorem closedAllB_sound : ∀ {es : List Spec.Zip.Entry} {st : Nat} {fs : List FileData},
    closedAllB es st fs = true → ClosedAll es st fs
  | [], _, [], _ => trivial
  | [], _, _ :: _, h => by simp [closedAllB] at h
  | _ :: _, _, [], h => by simp [closedAllB] at h
  | e :: es, st, f :: fs, h => by
    simp only [closedAllB, Bool.and_eq_true] at h
    exact ⟨closedB_sound h.1, closedAllB_sound h.2⟩

/-- executable form of shape (A) -/
def layIdleB (done : List Spec.Zip.Entry) (gap : Bytes) (s : WState) (d : Dev) : Bool :=
  decide (d.pos ≤ d.buf.length) && d.buf.take d.pos == localsBytes done ++ gap &&
  closedAllB done 0 s.files && s.inner == .storer none && !s.writingToFile &&
  !s.writingToExtraField && (s.files.isEmpty || s.writingRaw)

theorem layIdleB_sound {done : List Spec.Zip.Entry} {gap : Bytes} {s : WState} {d : Dev}
    (h : layIdleB done gap s d = true) :
    Lay (d.buf.length - d.pos) (.idle done gap s.comment) s d := by
  simp only [layIdleB, Bool.and_eq_true, decide_eq_true_eq, beq_iff_eq, Bool.not_eq_eq_eq_not,
    Bool.not_true, Bool.or_eq_true, List.isEmpty_iff] at h
  obtain ⟨⟨⟨⟨⟨⟨h1, h2⟩, h3⟩, h4⟩, h5⟩, h6⟩, h7⟩ := h
  exact lay_idle_intro h1 h2 (closedAllB_sound h3) h4 h5 h6 h7

/-- the C12 invariant for a writer between entries -/
theorem inv_idle {s : WState} (hin : s.inner = .storer none) (hwf : s.writingToFile = false)
    (hwe : s.writingToExtraField = false) (hco : s.centralOnly = false)
    (ht : ∀ f ∈ s.files, TimeOk f.time) : Inv s :=
  ⟨fun h => (by rw [hwe] at h; cases h), fun h => (by rw [hwf] at h; cases h),
   fun h => (by rw [hco] at h; cases h), fun h => (by rw [hwe] at h; cases h),
   (by rw [hin]; exact fun _ h => nomatch h), ht⟩

/-- … in particular on the empty device: no stale bytes. -/
theorem lay_init_empty : Lay 0 (.idle [] [] []) WState.init (Dev.ofBytes []) :=
  lay_init (Dev.ofBytes []) rfl

/-! ### `finish_file`, `start_entry` on the ghost -/

/-- What closing an entry written through the writer does: refused (and the writer stuck) when the
stored bytes do not fit a non-ZIP64 header, closed otherwise. -/
def NormPost (ext : WExt) (r : Nat) (done : List Spec.Zip.Entry) (gap c : Bytes) (o : OpenRec)
    (dp : UInt16) (ss : Nat) : Except ZErr Unit × WState → Dev → Prop :=
  fun rs d' =>
    (o.f.largeFile = false ∧ UInt64.ofNat (dataOf ext o.f o.plain).length > ZIP64_BYTES_THR ∧
      (∃ e, rs.1 = .error e) ∧ rs.2.comment = c ∧
      (ss + (dataOf ext o.f o.plain).length < 18446744073709551616 →
        Stuck ss (dataOf ext o.f o.plain).length o.wf rs.2 d')) ∨
    (¬ (o.f.largeFile = false ∧ UInt64.ofNat (dataOf ext o.f o.plain).length > ZIP64_BYTES_THR) ∧
      FinPost (done ++ [specEntry (finalRec o.f o.plain (dataOf ext o.f o.plain)) dp gap []
        (dataOf ext o.f o.plain) o.f.versionNeeded]) [] r c rs d')

theorem finishFile_norm_ghost (ext : WExt) {r : Nat} {done : List Spec.Zip.Entry} {gap c : Bytes}
    {o : OpenRec} {s : WState} {d : Dev} {chunks : List Bytes}
    (hop : Op done gap r o.f chunks o.sunk s d) (hwf : s.writingToFile = o.wf) (hc : s.comment = c)
    (hmode : Mode o s) (hraw : o.raw = false) {dp : UInt16} (hdp : o.f.time.datepart = some dp) :
    WSat (finishFile ext s) none d
      (NormPost ext r done gap c o dp ((localsBytes done).length + gap.length + (ser chunks).length)) := by
  obtain ⟨hwr, hb, hh, hm⟩ := hmode.2 hraw
  unfold NormPost
  rw [← hop.ss, ← hwf, ← hc]
  rcases hm with ⟨hst, hin⟩ | ⟨hst, hin⟩
  · have hd : dataOf ext o.f o.plain = o.plain := by rw [dataOf, if_pos hst]
    have hsunk : o.sunk = o.plain := by simp [OpenRec.sunk, hraw, hst]
    rw [hsunk] at hop
    rw [hd]
    apply finishFile_of_storer ext s hop.we hin
    exact afterEnc_norm o.plain hop hin hwr hb hh hdp
  · have hd : dataOf ext o.f o.plain = ext.compress o.f.method (effLevel o.f.method o.f.level) o.plain := by
      rw [dataOf, if_neg hst]
    have hsunk : o.sunk = [] := by simp [OpenRec.sunk, hraw, hst]
    rw [hsunk] at hop
    rw [hd]
    apply finishFile_of_compressor ext s hop.we _ _ _ hin hst hop.live
    intro d1 hl1
    have hop1 : Op done gap r o.f chunks (ext.compress o.f.method (effLevel o.f.method o.f.level) o.plain)
        { s with inner := .storer none } d1 :=
      ⟨hl1.cast (by simp only [List.append_nil]), hop.files, hop.hdr, hop.hs, hop.hsLt, hop.xf, hop.udd,
        hop.we, hop.ss⟩
    exact afterEnc_norm o.plain hop1 rfl hwr hb hh hdp

theorem finishFile_ghost (ext : WExt) {r : Nat} {g : Ghost} {s : WState} {d : Dev} (h : Lay r g s d)
    {es : List Spec.Zip.Entry} {gap c : Bytes} (hg : g.close ext = some (es, gap, c)) :
    WSat (finishFile ext s) none d (FinPost es gap r c) := by
  cases g with
  | dead => cases hg
  | lost => cases hg
  | stuck ss n wf => cases hg
  | idle done gap0 c0 =>
    obtain ⟨hcl, hwf, hidle, hc⟩ := h
    cases hg
    apply finishFile_of_storer ext s hcl.we hcl.inner
    rw [← hc]
    exact afterEnc_idle hcl hwf hidle
  | opened done gap0 c0 o =>
    obtain ⟨chunks, hop, hwf, hc, hmode⟩ := h
    simp only [Ghost.close, closeRec] at hg
    cases hdp : o.f.time.datepart with
    | none => rw [hdp] at hg; cases hg
    | some dp =>
      rw [hdp] at hg
      dsimp only at hg
      cases hraw : o.raw with
      | true =>
        rw [hraw] at hg
        simp only [if_true] at hg
        cases hg
        obtain ⟨hwr, hin, hcs⟩ := hmode.1 hraw
        apply finishFile_of_storer ext s hop.we hin
        rw [← hc]
        exact afterEnc_raw o.plain o.junk hop hin hwr (by simp [OpenRec.sunk, hraw]) hcs hdp
      | false =>
        rw [hraw] at hg
        simp only [Bool.false_eq_true, if_false] at hg
        by_cases hov : o.f.largeFile = false ∧ (UInt64.ofNat (dataOf ext o.f o.plain).length > ZIP64_BYTES_THR ∨ o.plain.length > 0xFFFFFFFF)
        · rw [if_pos hov] at hg; cases hg
        rw [if_neg hov] at hg
        cases hg
        apply WSat.mono (finishFile_norm_ghost ext hop hwf hc hmode hraw hdp)
        intro rs d' hq
        rcases hq with hq | hq
        · exact absurd ⟨hq.1, Or.inl hq.2.1⟩ hov
        · exact hq.2

/-- Closing is refused: `finish_file` fails, nothing in the sink is touched, the writer is stuck. -/
theorem finishFile_ghost_stuck (ext : WExt) {r : Nat} {g : Ghost} {s : WState} {d : Dev} (h : Lay r g s d)
    {ss n : Nat} {wf : Bool} (hg : g.stuckAt ext = some (ss, n, wf)) :
    WSat (finishFile ext s) none d (fun rs d' => (∃ e, rs.1 = .error e) ∧ Stuck ss n wf rs.2 d') := by
  cases g with
  | dead => cases hg
  | lost => cases hg
  | stuck ss n wf => cases hg
  | idle done gap0 c0 => cases hg
  | opened done gap0 c0 o =>
    obtain ⟨chunks, hop, hwf, hc, hmode⟩ := h
    simp only [Ghost.stuckAt] at hg
    cases hdp : o.f.time.datepart with
    | none => rw [hdp] at hg; cases hg
    | some dp =>
      rw [hdp, hop.hdr] at hg
      dsimp only at hg
      split at hg
      next hcond =>
        cases hg
        obtain ⟨hraw, hlf, hov, hlt⟩ := hcond
        apply WSat.mono (finishFile_norm_ghost ext hop hwf hc hmode hraw hdp)
        intro rs d' hq
        rcases hq with hq | hq
        · exact ⟨hq.2.2.1, hq.2.2.2.2 hlt⟩
        · exact absurd ⟨hlf, hov⟩ hq.1
      · cases hg

theorem startEntry_ghost (ext : WExt) (name : Bytes) (o : FileOptions)
    (raw : Option (UInt32 × UInt64 × UInt64)) (henc : o.encryptWith = none)
    (hn : ¬ name.length > 65535) {r : Nat} {g : Ghost} {s : WState} {d : Dev} (h : Lay r g s d)
    {es : List Spec.Zip.Entry} {gap c : Bytes} {f : FileData}
    (hg : g.start ext name o raw = some (es, gap, c, f)) :
    WSat (startEntry ext name o raw s) none d (fun rs d' => ∃ chunks, StartPost es gap r c f chunks rs d') := by
  unfold Ghost.start at hg
  cases hcl : g.close ext with
  | none => rw [hcl] at hg; cases hg
  | some x =>
    obtain ⟨es0, gap0, c0⟩ := x
    rw [hcl] at hg
    dsimp only at hg
    split at hg
    next hlt =>
      split at hg
      next chunks hch =>
        cases hg
        apply WSat.mono (startEntry_lay ext name o raw henc hn (finishFile_ghost ext h hcl))
        intro rs d' hq
        exact ⟨chunks, hq hlt chunks hch⟩
      all_goals cases hg
    all_goals cases hg

theorem Ghost.start_rec {ext : WExt} {g : Ghost} {name : Bytes} {o : FileOptions}
    {raw : Option (UInt32 × UInt64 × UInt64)} {es : List Spec.Zip.Entry} {gap c : Bytes} {f : FileData}
    (hg : g.start ext name o raw = some (es, gap, c, f)) : ∃ hs ds, f = mkRec name o raw hs ds := by
  unfold Ghost.start at hg
  split at hg
  · cases hg
  · split at hg
    · split at hg
      · cases hg; exact ⟨_, _, rfl⟩
      · cases hg
    · cases hg

/-! ### The ghost transition -/

def okE {α} : Except ZErr α → Bool
  | .ok _ => true
  | .error _ => false

def okO {α} : Out α → Bool
  | .ok _ => true
  | _ => false

theorem okO_outcomeOf (r : Except ZErr (Option Nat)) : okO (outcomeOf r) = okE r := by
  cases r <;> rfl

theorem okE_map {α β} (f : α → β) (r : Except ZErr α) : okE (r.map f) = okE r := by
  cases r <;> rfl

/-- options `add_directory` / `add_symlink` / `raw_copy_file` hand to `start_entry` -/
def fileOpts (o : FileOptions) : FileOptions := withFilePerm o 0o644 0o100000
def dirOpts (o : FileOptions) : FileOptions := { withFilePerm o 0o755 0o40000 with method := .stored }
def linkOpts (o : FileOptions) : FileOptions := { withFilePerm o 0o777 0o120000 with method := .stored }
def rawOpts (src : FileData) : FileOptions :=
  { method := src.method, level := none, time := src.time, permissions := src.unixMode,
    largeFile := (if src.compressedSize ≥ src.uncompressedSize then src.compressedSize
                  else src.uncompressedSize) ≥ ZIP64_BYTES_THR,
    encryptWith := none }
def rawVals (src : FileData) : Option (UInt32 × UInt64 × UInt64) :=
  some (src.crc32, src.compressedSize, src.uncompressedSize)

/-- A call that runs `start_entry`: a too-long name is refused without any effect; otherwise the
previous entry is closed and — if the call succeeds — the new one is open as `mk` says. -/
def startG (ext : WExt) (g : Ghost) (name : Bytes) (o : FileOptions)
    (raw : Option (UInt32 × UInt64 × UInt64)) (ok : Bool) (mk : FileData → OpenRec) : Ghost :=
  if name.length > 65535 then g else
  match g.start ext name o raw with
  | none =>
    match g.stuckAt ext with
    | some (ss, n, wf) => .stuck ss n wf
    | none => .lost
  | some (es, gap, c, f) => if ok then .opened es gap c (mk f) else .dead

/-- `write(b)`: into the open entry when it accepts data (an error then poisons the writer: the
4 GiB limit of a non-ZIP64 entry); refused without effect otherwise. -/
def Ghost.writeStep (b : Bytes) (ok : Bool) : Ghost → Ghost
  | .opened done gap c o =>
    if o.wf then (if ok then .opened done gap c (o.write b) else .dead) else .opened done gap c o
  | .idle done gap c => .idle done gap c
  | .dead => .dead
  | .stuck ss n wf => .stuck ss n wf
  | .lost => .lost

def Ghost.setComment (c' : Bytes) : Ghost → Ghost
  | .idle done gap _ => .idle done gap c'
  | .opened done gap _ o => .opened done gap c' o
  | .dead => .dead
  | .stuck ss n wf => .stuck ss n wf
  | .lost => .lost

/-- What a call that returned `out` does to the expected archive (writer neither poisoned nor lost). -/
def ghostStepAlive (ext : WExt) (g : Ghost) (call : Call) (out : Out (Option Nat)) : Ghost :=
  match call with
  | .startFile n o =>
    startG ext g n (fileOpts o) none (okO out && writable (fileOpts o).method) fun f => ⟨f, false, [], [], true⟩
  | .addDirectory n o => startG ext g (dirName n) (dirOpts o) none (okO out) fun f => ⟨f, false, [], [], false⟩
  | .addSymlink n t o => startG ext g n (linkOpts o) none (okO out) fun f => ⟨f, false, t, [], false⟩
  | .rawCopy src raw n => startG ext g n (rawOpts src) (rawVals src) (okO out) fun f => ⟨f, true, raw, [], true⟩
  | .write b => g.writeStep b (okO out)
  | .setComment c' => g.setComment c'
  | _ => g

/-- A stuck writer stays stuck: every call that has to close the entry fails; `write` (when accepted)
adds to the entry's bytes in the sink, or poisons the writer at the 4 GiB plaintext limit. -/
def ghostStepStuck (ss n : Nat) (wf : Bool) (call : Call) (out : Out (Option Nat)) : Ghost :=
  match call with
  | .write b =>
    if wf then
      (if okO out then
        (if ss + (n + b.length) < 18446744073709551616 then .stuck ss (n + b.length) wf else .lost)
       else .dead)
    else .stuck ss n wf
  | _ => .stuck ss n wf

/-- What a call that returned `Ok`/`Err` does to the expected archive. -/
def ghostStepRet (ext : WExt) (g : Ghost) (call : Call) (out : Out (Option Nat)) : Ghost :=
  match g with
  | .dead => .dead
  | .lost => .lost
  | .stuck ss n wf => ghostStepStuck ss n wf call out
  | g => ghostStepAlive ext g call out

/-- What a call that returned `out` does to the expected archive (a panic — only possible with a
timestamp before 1980 or a sink position beyond the `u64` range, see C12 — ends the run: nothing is
claimed then). -/
def ghostStep (ext : WExt) (g : Ghost) (call : Call) (out : Out (Option Nat)) : Ghost :=
  match out with
  | .panic _ => .lost
  | out => ghostStepRet ext g call out

theorem ghostStep_outcomeOf (ext : WExt) (g : Ghost) (c : Call) (r : Except ZErr (Option Nat)) :
    ghostStep ext g c (outcomeOf r) = ghostStepRet ext g c (outcomeOf r) := by
  cases r <;> rfl

/-- The expected archive after a run: fold of `ghostStep` over the calls and their outcomes. -/
def ghostOf (ext : WExt) : Ghost → List Call → List (Out (Option Nat)) → Ghost
  | g, c :: cs, o :: os => ghostOf ext (ghostStep ext g c o) cs os
  | g, _, _ => g

/-- The Level-1 fragment of the call alphabet. -/
def Level1 : Call → Prop
  | .startFile _ o => o.encryptWith = none
  | .addDirectory _ o => o.encryptWith = none
  | .addSymlink _ _ o => o.encryptWith = none
  | .rawCopy src raw _ => raw.length = src.compressedSize.toNat
  | .write _ => True
  | .setComment _ => True
  | .endExtraData => True
  | .endLocalStartCentral => True
  | _ => False

instance : DecidablePred Level1 := fun c => by
  cases c <;> unfold Level1 <;> infer_instance

def Ghost.alive : Ghost → Prop
  | .idle .. => True
  | .opened .. => True
  | _ => False

/-! ### Calls that start an entry -/

theorem lay_lost {β} (x : M (Except ZErr β × WState)) (d : Dev) (r : Nat) (G : Except ZErr β × WState → Ghost)
    (hG : ∀ rs, G rs = .lost) : WSat x none d (fun rs d' => Lay r (G rs) rs.2 d') := by
  apply WSat.mono (WSat.trivial x none d)
  intro rs d' _
  rw [hG]
  trivial

/-- Common part of `start_file`, `add_directory`, `add_symlink`, `raw_copy_file`: `start_entry`
followed by a continuation `k` that passes an error through. -/
theorem start_call {β} (ext : WExt) (name : Bytes) (o : FileOptions)
    (raw : Option (UInt32 × UInt64 × UInt64)) (henc : o.encryptWith = none)
    {r : Nat} {g : Ghost} {s : WState} {d : Dev} (h : Lay r g s d)
    (k : Except ZErr Unit × WState → M (Except ZErr β × WState)) (mk : FileData → OpenRec)
    (okf : Except ZErr β → Bool)
    (herr : ∀ e s', k (.error e, s') = pure (.error e, s'))
    (hk : ∀ es gap c f chunks s1 d1, g.start ext name o raw = some (es, gap, c, f) →
      StartPost es gap r c f chunks (.ok (), s1) d1 →
      WSat (k (.ok (), s1)) none d1 (fun rs d' =>
        Lay r (if okf rs.1 then .opened es gap c (mk f) else .dead) rs.2 d')) :
    WSat (startEntry ext name o raw s >>= k) none d (fun rs d' =>
      Lay r (startG ext g name o raw (okf rs.1) mk) rs.2 d') := by
  by_cases hn : name.length > 65535
  · have e1 : startEntry ext name o raw s = pure (.error .invalidArchive, s) := by
      unfold startEntry; rw [if_pos hn]
    rw [e1]
    show WSat (k (.error .invalidArchive, s)) none d _
    rw [herr]
    apply WSat.pure
    simp only [startG, if_pos hn]
    exact h
  · cases hst : g.start ext name o raw with
    | none =>
      cases hsk : g.stuckAt ext with
      | none =>
        apply lay_lost
        intro rs
        simp only [startG, if_neg hn, hst, hsk]
      | some x =>
        obtain ⟨ss, n, wf⟩ := x
        have e1 : ∀ rs, startG ext g name o raw (okf rs) mk = .stuck ss n wf := by
          intro rs; simp only [startG, if_neg hn, hst, hsk]
        simp only [e1]
        apply WSat.bind
        unfold startEntry
        rw [if_neg hn]
        apply WSat.bind
        apply WSat.mono (finishFile_ghost_stuck ext h hsk)
        intro ⟨r1, s1⟩ d1 ⟨⟨e, he⟩, hstk⟩
        dsimp only at he
        subst he
        apply WSat.pure
        rw [herr]
        exact WSat.pure hstk
    | some x =>
      obtain ⟨es, gap, c, f⟩ := x
      apply WSat.bind
      apply WSat.mono (startEntry_ghost ext name o raw henc hn h hst)
      intro ⟨r1, s1⟩ d1 ⟨chunks, hpost⟩
      have hok : r1 = .ok () := hpost.1
      subst hok
      apply WSat.mono (hk es gap c f chunks s1 d1 hst hpost)
      intro rs d' hq
      simp only [startG, if_neg hn, hst]
      exact hq

theorem sunk_new_plain (f : FileData) (wf : Bool) : (OpenRec.mk f false [] [] wf).sunk = [] := by
  simp [OpenRec.sunk]

theorem startFile_ghost (ext : WExt) (n : Bytes) (o : FileOptions) (henc : o.encryptWith = none)
    {r : Nat} {g : Ghost} {s : WState} {d : Dev} (h : Lay r g s d) :
    WSat (startFile ext n o s) none d (fun rs d' =>
      Lay r (startG ext g n (fileOpts o) none (okE rs.1 && writable (fileOpts o).method)
        fun f => ⟨f, false, [], [], true⟩) rs.2 d') := by
  unfold startFile
  refine start_call ext n (fileOpts o) none henc h _ _ (fun r => okE r && writable (fileOpts o).method)
    (fun _ _ => rfl) ?_
  intro es gap c f chunks s1 d1 hst ⟨_, hop, hin, hwr, hwf, hsb, hsh, hcm⟩
  obtain ⟨hs, ds, hf⟩ := Ghost.start_rec hst
  dsimp only at hop hin hwr hwf hsb hsh hcm ⊢
  rcases switchTo_from_storer ext (withFilePerm o 0o644 0o100000).method (withFilePerm o 0o644 0o100000).level s1 hin with ⟨hsw, hwr'⟩ | ⟨e, hsw⟩
  · rw [hsw]
    apply WSat.pure
    have hw : (okE (Except.ok () : Except ZErr Unit) && writable (fileOpts o).method) = true := by
      show (true && writable (withFilePerm o 0o644 0o100000).method) = true
      rw [hwr']; rfl
    dsimp only
    rw [hw, if_pos rfl]
    show Lay r (.opened es gap c ⟨f, false, [], [], true⟩) _ d1
    refine ⟨chunks, ?_, rfl, hcm, ?_, ?_⟩
    · rw [sunk_new_plain]
      refine Op.frame hop ?_ ?_ ?_ hop.live <;> rfl
    · intro h'; cases h'
    · intro _
      refine ⟨hwr, hsb, hsh, ?_⟩
      have hm : f.method = (withFilePerm o 0o644 0o100000).method := by rw [hf]; rfl
      have hl : f.level = (withFilePerm o 0o644 0o100000).level := by rw [hf]; rfl
      rw [hm, hl]
      by_cases hst' : (withFilePerm o 0o644 0o100000).method = .stored
      · left; exact ⟨hst', by simp [innerFor, hst']⟩
      · right; exact ⟨hst', by simp [innerFor, hst']⟩
  · rw [hsw]
    exact WSat.pure rfl

theorem addDirectory_ghost (ext : WExt) (n : Bytes) (o : FileOptions) (henc : o.encryptWith = none)
    {r : Nat} {g : Ghost} {s : WState} {d : Dev} (h : Lay r g s d) :
    WSat (addDirectory ext n o s) none d (fun rs d' =>
      Lay r (startG ext g (dirName n) (dirOpts o) none (okE rs.1) fun f => ⟨f, false, [], [], false⟩) rs.2 d') := by
  unfold addDirectory
  refine start_call ext (dirName n) (dirOpts o) none henc h _ _ okE (fun _ _ => rfl) ?_
  intro es gap c f chunks s1 d1 hst ⟨_, hop, hin, hwr, hwf, hsb, hsh, hcm⟩
  obtain ⟨hs, ds, hf⟩ := Ghost.start_rec hst
  dsimp only at hop hin hwr hwf hsb hsh hcm ⊢
  apply WSat.pure
  show Lay r (.opened es gap c ⟨f, false, [], [], false⟩) _ d1
  refine ⟨chunks, ?_, rfl, hcm, ?_, ?_⟩
  · rw [sunk_new_plain]
    refine Op.frame hop ?_ ?_ ?_ hop.live <;> rfl
  · intro h'; cases h'
  · intro _
    exact ⟨hwr, hsb, hsh, Or.inl ⟨by rw [hf]; rfl, hin⟩⟩

theorem addSymlink_ghost (ext : WExt) (n t : Bytes) (o : FileOptions) (henc : o.encryptWith = none)
    {r : Nat} {g : Ghost} {s : WState} {d : Dev} (h : Lay r g s d) :
    WSat (addSymlink ext n t o s) none d (fun rs d' =>
      Lay r (startG ext g n (linkOpts o) none (okE rs.1) fun f => ⟨f, false, t, [], false⟩) rs.2 d') := by
  unfold addSymlink
  refine start_call ext n (linkOpts o) none henc h _ _ okE (fun _ _ => rfl) ?_
  intro es gap c f chunks s1 d1 hst ⟨_, hop, hin, hwr, hwf, hsb, hsh, hcm⟩
  obtain ⟨hs, ds, hf⟩ := Ghost.start_rec hst
  have hm : f.method = .stored := by rw [hf]; rfl
  dsimp only at hop hin hwr hwf hsb hsh hcm ⊢
  apply WSat.bind
  apply WSat.mono (writeData_lay t { s1 with writingToFile := true } rfl hop.we hop.live)
  intro ⟨r2, s2⟩ d2 hq
  cases r2 with
  | error e => exact WSat.pure hq
  | ok u =>
    obtain ⟨hsb2, hb2, hh2, hst2, _⟩ := hq
    obtain ⟨hin2, hl2⟩ := hst2 hin
    apply WSat.pure
    show Lay r (.opened es gap c ⟨f, false, t, [], false⟩) _ d2
    have hsunk : (OpenRec.mk f false t [] false).sunk = t := by simp [OpenRec.sunk, hm]
    refine ⟨chunks, ?_, rfl, ?_, ?_, ?_⟩
    · rw [hsunk]
      refine Op.frame hop ?_ ?_ ?_ (hl2.cast ?_)
      · exact hsb2.files
      · exact hsb2.ss
      · exact hsb2.we
      · simp only [List.append_nil]
    · show s2.comment = c
      rw [hsb2.comment]; exact hcm
    · intro h'; cases h'
    · intro _
      refine ⟨?_, ?_, ?_, Or.inl ⟨hm, hin2⟩⟩
      · show s2.writingRaw = false
        rw [hsb2.wr]; exact hwr
      · show s2.statsBytes = t.length
        rw [hb2]; show s1.statsBytes + t.length = t.length; rw [hsb]; omega
      · show s2.statsHasher = _
        rw [hh2]; show Spec.Crc32.updateBytes s1.statsHasher t = _; rw [hsh]

theorem rawCopy_ghost (ext : WExt) (src : FileData) (raw n : Bytes)
    (hraw : raw.length = src.compressedSize.toNat)
    {r : Nat} {g : Ghost} {s : WState} {d : Dev} (h : Lay r g s d) :
    WSat (rawCopy ext src raw n s) none d (fun rs d' =>
      Lay r (startG ext g n (rawOpts src) (rawVals src) (okE rs.1) fun f => ⟨f, true, raw, [], true⟩) rs.2 d') := by
  unfold rawCopy
  refine start_call ext n (rawOpts src) (rawVals src) rfl h _ _ okE (fun _ _ => rfl) ?_
  intro es gap c f chunks s1 d1 hst ⟨_, hop, hin, hwr, hwf, hsb, hsh, hcm⟩
  obtain ⟨hs, ds, hf⟩ := Ghost.start_rec hst
  have hcs : f.compressedSize = UInt64.ofNat raw.length := by
    rw [hf, hraw, UInt64.ofNat_toNat]; rfl
  dsimp only at hop hin hwr hwf hsb hsh hcm ⊢
  apply WSat.mono (writeData_lay raw { s1 with writingToFile := true, writingRaw := true } rfl hop.we hop.live)
  intro ⟨r2, s2⟩ d2 hq
  cases r2 with
  | error e => exact hq
  | ok u =>
    obtain ⟨hsb2, hb2, hh2, hst2, _⟩ := hq
    obtain ⟨hin2, hl2⟩ := hst2 hin
    show Lay r (.opened es gap c ⟨f, true, raw, [], true⟩) s2 d2
    have hsunk : (OpenRec.mk f true raw [] true).sunk = raw := by simp [OpenRec.sunk]
    refine ⟨chunks, ?_, ?_, ?_, ?_, ?_⟩
    · rw [hsunk]
      refine Op.frame hop hsb2.files hsb2.ss hsb2.we (hl2.cast ?_)
      simp only [List.append_nil]
    · rw [hsb2.wf]
    · rw [hsb2.comment]; exact hcm
    · intro _
      exact ⟨by rw [hsb2.wr], hin2, hcs⟩
    · intro h'; cases h'

/-! ### `write`, `set_comment`, misuse calls -/

theorem write_ghost (b : Bytes) {r : Nat} {g : Ghost} {s : WState} {d : Dev} (h : Lay r g s d)
    (ha : g.alive) :
    WSat (writeData b s) none d (fun rs d' => Lay r (g.writeStep b (okE rs.1)) rs.2 d') := by
  cases g with
  | dead => exact ha.elim
  | stuck ss n wf => exact ha.elim
  | lost => exact ha.elim
  | idle done gap c =>
    obtain ⟨r0, he⟩ := writeData_nofile b s h.2.1
    rw [he]; exact WSat.pure h
  | opened done gap c o =>
    obtain ⟨chunks, hop, hwf, hcm, hmode⟩ := h
    cases hwfo : o.wf with
    | false =>
      obtain ⟨r0, he⟩ := writeData_nofile b s (by rw [hwf, hwfo])
      rw [he]
      apply WSat.pure
      simp only [Ghost.writeStep, hwfo, Bool.false_eq_true, if_false]
      exact ⟨chunks, hop, hwf, hcm, hmode⟩
    | true =>
      simp only [Ghost.writeStep, hwfo, if_true]
      apply WSat.mono (writeData_lay b s (by rw [hwf, hwfo]) hop.we hop.live)
      intro ⟨r2, s2⟩ d2 hq
      cases r2 with
      | error e => exact hq
      | ok u =>
        obtain ⟨hsb2, hb2, hh2, hst2, hcp2⟩ := hq
        show Lay r (.opened done gap c (o.write b)) s2 d2
        cases hraw : o.raw with
        | true =>
          obtain ⟨hwr, hin, hcs⟩ := hmode.1 hraw
          obtain ⟨hin2, hl2⟩ := hst2 hin
          have hw : o.write b = { o with junk := o.junk ++ b } := by simp [OpenRec.write, hraw]
          rw [hw]
          refine ⟨chunks, ?_, ?_, ?_, ?_, ?_⟩
          · refine Op.frame hop hsb2.files hsb2.ss hsb2.we (hl2.cast ?_)
            simp [OpenRec.sunk, hraw]
          · show s2.writingToFile = o.wf
            rw [hsb2.wf]; exact hwf
          · rw [hsb2.comment]; exact hcm
          · intro _
            exact ⟨by rw [hsb2.wr]; exact hwr, hin2, hcs⟩
          · intro h'; exact absurd (show o.raw = false from h') (by rw [hraw]; simp)
        | false =>
          obtain ⟨hwr, hb, hh, hm⟩ := hmode.2 hraw
          have hw : o.write b = { o with plain := o.plain ++ b } := by simp [OpenRec.write, hraw]
          rw [hw]
          have hmode' : s2.writingRaw = false ∧ s2.statsBytes = (o.plain ++ b).length ∧
              s2.statsHasher = Spec.Crc32.updateBytes 0xFFFFFFFF (o.plain ++ b) := by
            refine ⟨by rw [hsb2.wr]; exact hwr, ?_, ?_⟩
            · rw [hb2, hb, List.length_append]
            · rw [hh2, hh, updateBytes_append]
          rcases hm with ⟨hst, hin⟩ | ⟨hst, hin⟩
          · obtain ⟨hin2, hl2⟩ := hst2 hin
            refine ⟨chunks, ?_, ?_, ?_, ?_, ?_⟩
            · refine Op.frame hop hsb2.files hsb2.ss hsb2.we (hl2.cast ?_)
              simp [OpenRec.sunk, hraw, hst]
            · show s2.writingToFile = o.wf
              rw [hsb2.wf]; exact hwf
            · rw [hsb2.comment]; exact hcm
            · intro h'; exact absurd (show o.raw = true from h') (by rw [hraw]; simp)
            · intro _
              exact ⟨hmode'.1, hmode'.2.1, hmode'.2.2, Or.inl ⟨hst, hin2⟩⟩
          · obtain ⟨hin2, hl2⟩ := hcp2 _ _ _ hin
            refine ⟨chunks, ?_, ?_, ?_, ?_, ?_⟩
            · refine Op.frame hop hsb2.files hsb2.ss hsb2.we (hl2.cast ?_)
              simp [OpenRec.sunk, hraw, hst]
            · show s2.writingToFile = o.wf
              rw [hsb2.wf]; exact hwf
            · rw [hsb2.comment]; exact hcm
            · intro h'; exact absurd (show o.raw = true from h') (by rw [hraw]; simp)
            · intro _
              exact ⟨hmode'.1, hmode'.2.1, hmode'.2.2, Or.inr ⟨hst, hin2⟩⟩

theorem setComment_ghost (c' : Bytes) {r : Nat} {g : Ghost} {s : WState} {d : Dev} (h : Lay r g s d) :
    Lay r (g.setComment c') { s with comment := c' } d := by
  cases g with
  | dead => exact h
  | lost => exact h
  | stuck ss n wf =>
    exact ⟨h.inner, h.wr, h.we, h.files, h.start, h.pos, h.le, h.big, h.lt, h.wf⟩
  | idle done gap c =>
    obtain ⟨hcl, hwf, hidle, _⟩ := h
    exact ⟨⟨hcl.live, hcl.closed, hcl.inner, hcl.we⟩, hwf, hidle, rfl⟩
  | opened done gap c o =>
    obtain ⟨chunks, hop, hwf, _, hmode⟩ := h
    exact ⟨chunks, by refine Op.frame hop ?_ ?_ ?_ hop.live <;> rfl, hwf, rfl, hmode⟩

theorem Lay.noExtra {r : Nat} {g : Ghost} {s : WState} {d : Dev} (h : Lay r g s d) (ha : g.alive) :
    s.writingToExtraField = false := by
  cases g with
  | dead => exact ha.elim
  | stuck ss n wf => exact ha.elim
  | lost => exact ha.elim
  | idle done gap c => exact h.1.we
  | opened done gap c o => obtain ⟨chunks, hop, _⟩ := h; exact hop.we

/-! ### One call, and the induction over scripts -/

theorem ghostStep_alive (ext : WExt) {g : Ghost} (ha : g.alive) (c : Call) (out : Out (Option Nat)) :
    ghostStepRet ext g c out = ghostStepAlive ext g c out := by
  cases g <;> first | rfl | exact ha.elim

theorem lay_step_alive (ext : WExt) (c : Call) (hc : Level1 c) {r : Nat} {g : Ghost} {s : WState}
    {d : Dev} (h : Lay r g s d) (ha : g.alive) :
    WSat (step ext c s) none d (fun rs d' => Lay r (ghostStepAlive ext g c (outcomeOf rs.1)) rs.2 d') := by
  cases c with
  | startFile n o =>
    apply mapStep_wsat _ _ s none d _ _ (startFile_ghost ext n o hc h)
    intro r1 s' d' hq
    simp only [ghostStepAlive, okO_outcomeOf, okE_map]
    exact hq
  | addDirectory n o =>
    apply mapStep_wsat _ _ s none d _ _ (addDirectory_ghost ext n o hc h)
    intro r1 s' d' hq
    simp only [ghostStepAlive, okO_outcomeOf, okE_map]
    exact hq
  | addSymlink n t o =>
    apply mapStep_wsat _ _ s none d _ _ (addSymlink_ghost ext n t o hc h)
    intro r1 s' d' hq
    simp only [ghostStepAlive, okO_outcomeOf, okE_map]
    exact hq
  | rawCopy src raw n =>
    apply mapStep_wsat _ _ s none d _ _ (rawCopy_ghost ext src raw n hc h)
    intro r1 s' d' hq
    simp only [ghostStepAlive, okO_outcomeOf, okE_map]
    exact hq
  | write b =>
    apply mapStep_wsat _ _ s none d _ _ (write_ghost b h ha)
    intro r1 s' d' hq
    simp only [ghostStepAlive, okO_outcomeOf, okE_map]
    exact hq
  | setComment c' => exact WSat.pure (setComment_ghost c' h)
  | endExtraData =>
    have : endExtraData ext s = pure (.error (.io .other), s) := by
      unfold endExtraData; simp [h.noExtra ha]
    rw [show step ext .endExtraData s = _ from mapStep_pure _ _ _ _ _ this]
    exact WSat.pure h
  | endLocalStartCentral =>
    have : endLocalStartCentral ext s = pure (.error (.io .other), s) := by
      unfold endLocalStartCentral endExtraData; simp [h.noExtra ha]; rfl
    rw [show step ext .endLocalStartCentral s = _ from mapStep_pure _ _ _ _ _ this]
    exact WSat.pure h
  | startFileWithExtraData n o => exact hc.elim
  | startFileAligned n o a => exact hc.elim
  | finish => exact hc.elim
  | drop => exact hc.elim

/-- A call that runs `start_entry` on a stuck writer fails (or refuses an over-long name) and leaves
it stuck. -/
theorem start_call_stuck {β} (ext : WExt) (name : Bytes) (o : FileOptions)
    (raw : Option (UInt32 × UInt64 × UInt64)) {ss n : Nat} {wf : Bool} {s : WState} {d : Dev}
    (h : Stuck ss n wf s d) (k : Except ZErr Unit × WState → M (Except ZErr β × WState))
    (herr : ∀ e s', k (.error e, s') = pure (.error e, s')) :
    WSat (startEntry ext name o raw s >>= k) none d (fun rs d' => Stuck ss n wf rs.2 d') := by
  apply WSat.bind
  unfold startEntry
  split
  · apply WSat.pure
    rw [herr]
    exact WSat.pure h
  · apply WSat.bind
    apply WSat.mono (finishFile_stuck ext h)
    intro ⟨r1, s1⟩ d1 ⟨⟨e, he⟩, hstk, _⟩
    dsimp only at he
    subst he
    apply WSat.pure
    rw [herr]
    exact WSat.pure hstk

theorem lay_step_stuck (ext : WExt) (c : Call) (hc : Level1 c) {r ss n : Nat} {wf : Bool} {s : WState}
    {d : Dev} (h : Stuck ss n wf s d) :
    WSat (step ext c s) none d (fun rs d' => Lay r (ghostStepStuck ss n wf c (outcomeOf rs.1)) rs.2 d') := by
  cases c with
  | startFile nm o =>
    apply mapStep_wsat _ _ s none d _ _ (show WSat (startFile ext nm o s) none d _ from by
      unfold startFile; exact start_call_stuck ext _ _ _ h _ (fun _ _ => rfl))
    intro r1 s' d' hq; exact hq
  | addDirectory nm o =>
    apply mapStep_wsat _ _ s none d _ _ (show WSat (addDirectory ext nm o s) none d _ from by
      unfold addDirectory; exact start_call_stuck ext _ _ _ h _ (fun _ _ => rfl))
    intro r1 s' d' hq; exact hq
  | addSymlink nm t o =>
    apply mapStep_wsat _ _ s none d _ _ (show WSat (addSymlink ext nm t o s) none d _ from by
      unfold addSymlink; exact start_call_stuck ext _ _ _ h _ (fun _ _ => rfl))
    intro r1 s' d' hq; exact hq
  | rawCopy src raw nm =>
    apply mapStep_wsat _ _ s none d _ _ (show WSat (rawCopy ext src raw nm s) none d _ from by
      unfold rawCopy; exact start_call_stuck ext _ _ _ h _ (fun _ _ => rfl))
    intro r1 s' d' hq; exact hq
  | write b =>
    cases wf with
    | false =>
      obtain ⟨r0, he⟩ := writeData_nofile b s h.wf
      rw [show step ext (.write b) s = _ from mapStep_pure _ _ _ _ _ he]
      exact WSat.pure h
    | true =>
      apply mapStep_wsat _ _ s none d _ _ (writeData_stuck b h)
      intro r1 s' d' hq
      cases r1 with
      | error e => exact hq
      | ok u =>
        simp only [ghostStepStuck, if_true]
        show Lay r (if okO (outcomeOf (Except.ok none)) = true then _ else _) s' d'
        simp only [okO, outcomeOf, if_true]
        split
        · next hlt => exact hq.2 hlt
        · trivial
  | setComment c' =>
    exact WSat.pure ⟨h.inner, h.wr, h.we, h.files, h.start, h.pos, h.le, h.big, h.lt, h.wf⟩
  | endExtraData =>
    have : endExtraData ext s = pure (.error (.io .other), s) := by
      unfold endExtraData; simp [h.we]
    rw [show step ext .endExtraData s = _ from mapStep_pure _ _ _ _ _ this]
    exact WSat.pure h
  | endLocalStartCentral =>
    have : endLocalStartCentral ext s = pure (.error (.io .other), s) := by
      unfold endLocalStartCentral endExtraData; simp [h.we]; rfl
    rw [show step ext .endLocalStartCentral s = _ from mapStep_pure _ _ _ _ _ this]
    exact WSat.pure h
  | startFileWithExtraData nm o => exact hc.elim
  | startFileAligned nm o a => exact hc.elim
  | finish => exact hc.elim
  | drop => exact hc.elim

/-- **Every Level-1 call keeps the sink in step with the ghost** (fault-free sink). -/
theorem lay_step (ext : WExt) (c : Call) (hc : Level1 c) {r : Nat} {g : Ghost} {s : WState}
    {d : Dev} (h : Lay r g s d) :
    WSat (step ext c s) none d (fun rs d' => Lay r (ghostStep ext g c (outcomeOf rs.1)) rs.2 d') := by
  simp only [ghostStep_outcomeOf]
  cases g with
  | lost => exact lay_lost _ _ _ _ (fun _ => rfl)
  | stuck ss n wf => exact lay_step_stuck ext c hc h
  | idle done gap c0 =>
    exact lay_step_alive ext c hc h trivial
  | opened done gap c0 o =>
    exact lay_step_alive ext c hc h trivial
  | dead =>
    have hcl : s.inner = .closed := h
    have hpure : ∀ (r0 : Except ZErr (Option Nat)), step ext c s = pure (r0, s) →
        WSat (step ext c s) none d (fun rs d' => Lay r (ghostStepRet ext .dead c (outcomeOf rs.1)) rs.2 d') := by
      intro r0 h0; rw [h0]; exact WSat.pure hcl
    cases c with
    | startFile n o => obtain ⟨e, he⟩ := startFile_closed ext n o hcl; exact hpure _ (mapStep_pure _ _ _ _ _ he)
    | startFileWithExtraData n o => exact hc.elim
    | startFileAligned n o a => exact hc.elim
    | write b => obtain ⟨r0, he⟩ := writeData_closed b hcl; exact hpure _ (mapStep_pure _ _ _ _ _ he)
    | endLocalStartCentral =>
      obtain ⟨e, he⟩ := endLocalStartCentral_closed ext hcl; exact hpure _ (mapStep_pure _ _ _ _ _ he)
    | endExtraData => obtain ⟨e, he⟩ := endExtraData_closed ext hcl; exact hpure _ (mapStep_pure _ _ _ _ _ he)
    | addDirectory n o => obtain ⟨e, he⟩ := addDirectory_closed ext n o hcl; exact hpure _ (mapStep_pure _ _ _ _ _ he)
    | addSymlink n t o => obtain ⟨e, he⟩ := addSymlink_closed ext n t o hcl; exact hpure _ (mapStep_pure _ _ _ _ _ he)
    | setComment cm => exact WSat.pure hcl
    | rawCopy src raw n => obtain ⟨e, he⟩ := rawCopy_closed ext src raw n hcl; exact hpure _ (mapStep_pure _ _ _ _ _ he)
    | finish => exact hc.elim
    | drop => exact hc.elim

theorem ghostOf_nil_outs (ext : WExt) (g : Ghost) (cs : List Call) : ghostOf ext g cs [] = g := by
  cases cs <;> rfl

/-- Induction over the call list (fault-free sink): the final state is described by `ghostOf`.
`Inv` (C12) and admissibility of the calls (timestamps of the public API) are only used to exclude a
device-level error escaping from a call. -/
theorem run_lay (ext : WExt) (calls : List Call) (hc : ∀ c ∈ calls, Level1 c)
    (ha : ∀ c ∈ calls, c.Admissible) (r : Nat) :
    ∀ (g : Ghost) (s : WState) (d : Dev), Inv s → Lay r g s d →
      Lay r (ghostOf ext g calls (runCalls ext calls s none d).1) (runCalls ext calls s none d).2.1
        (runCalls ext calls s none d).2.2 := by
  induction calls with
  | nil => intro g s d _ h; exact h
  | cons c cs ih =>
    intro g s d hI h
    have hstep := lay_step ext c (hc c (by simp)) h
    have hinv := Props.C12.inv_step ext c (ha c (by simp)) s hI none d
    have ih' := ih (fun c' h' => hc c' (by simp [h'])) (fun c' h' => ha c' (by simp [h']))
    unfold Sat at hinv
    unfold runCalls
    split
    · next v s' d' heq =>
      rw [heq] at hinv
      have := hstep.elim heq
      exact ih' _ s' d' hinv this
    · next e s' d' heq =>
      rw [heq] at hinv
      have := hstep.elim heq
      exact ih' _ s' d' hinv this
    · next e d' heq =>
      rw [heq] at hinv
      exact hinv.elim
    · next site d' heq =>
      show Lay r (ghostOf ext (ghostStep ext g c (.panic site)) cs []) s d'
      rw [ghostOf_nil_outs]
      trivial

/-! ### `finish`, `Drop` -/

theorem Lay.comment_eq {ext : WExt} {r : Nat} {g : Ghost} {s : WState} {d : Dev} (h : Lay r g s d)
    {es : List Spec.Zip.Entry} {gap c : Bytes} (hg : g.close ext = some (es, gap, c)) : s.comment = c := by
  cases g with
  | dead => cases hg
  | stuck ss n wf => cases hg
  | lost => cases hg
  | idle done gap0 c0 => cases hg; exact h.2.2.2
  | opened done gap0 c0 o =>
    obtain ⟨_, _, _, hc, _⟩ := h
    simp only [Ghost.close] at hg
    split at hg
    · cases hg; exact hc
    · cases hg

theorem finish_long_comment (ext : WExt) (s : WState) (h : s.comment.length > 65535) :
    finish ext s = pure (.error .invalidArchive, s) := by
  unfold finish finalize
  rw [if_pos h]
  rfl

/-- What `finalize` (the body of `finish` and of `Drop`) leaves in the sink. -/
def FinalPost (es : List Spec.Zip.Entry) (gap c : Bytes) (r : Nat) (s : WState) (d : Dev) :
    Except ZErr Unit × WState → Dev → Prop :=
  fun rs d' =>
    if c.length > 65535 then rs.1 = .error .invalidArchive ∧ rs.2 = s ∧ d' = d
    else rs.1 = .ok () ∧ LiveAt d' d'.pos (build (layoutOf es gap c [])) r

/-- **`finish`** on a writer in step with the ghost: it fails without writing anything when the
comment is too long, and otherwise SUCCEEDS, leaving exactly the layout in the live part of the sink
and the writer closed. -/
theorem finish_ghost (ext : WExt) {r : Nat} {g : Ghost} {s : WState} {d : Dev} (h : Lay r g s d)
    {es : List Spec.Zip.Entry} {gap c : Bytes} (hg : g.close ext = some (es, gap, c)) :
    WSat (finish ext s) none d (fun rs d' =>
      FinalPost es gap c r s d rs d' ∧ (rs.1 = .ok () → rs.2.inner = .closed)) := by
  have hcm := h.comment_eq hg
  unfold FinalPost
  by_cases hc : s.comment.length > 65535
  · rw [finish_long_comment ext s hc]
    apply WSat.pure
    rw [← hcm, if_pos hc]
    exact ⟨⟨rfl, rfl, rfl⟩, fun h' => by cases h'⟩
  · have hfin := finishFile_ghost ext h hg
    rw [← hcm] at hfin ⊢
    simp only [if_neg hc]
    unfold finish
    apply WSat.bind
    apply WSat.mono (finalize_lay ext hc hfin)
    intro ⟨r1, s1⟩ d1 ⟨hok, hin, hl⟩
    dsimp only at hok hin hl ⊢
    subst hok
    dsimp only
    simp only [hin]
    exact WSat.pure ⟨⟨rfl, hl⟩, fun _ => rfl⟩

/-- The same for `Drop` (which discards the result of `finalize`; after a SUCCESSFUL finalisation the
writer is a plain storer, so dropping its fields writes nothing). -/
theorem drop_ghost (ext : WExt) {r : Nat} {g : Ghost} {s : WState} {d : Dev} (h : Lay r g s d)
    {es : List Spec.Zip.Entry} {gap c : Bytes} (hg : g.close ext = some (es, gap, c))
    (hclen : ¬ c.length > 65535) :
    WSat (dropWriter ext s) none d (fun rs d' =>
      rs.1 = .ok () ∧ LiveAt d' d'.pos (build (layoutOf es gap c [])) r) := by
  have hcm := h.comment_eq hg
  have hncl : s.inner.isClosed = false := by
    cases g with
    | dead => cases hg
    | stuck ss n wf => cases hg
    | lost => cases hg
    | idle done gap0 c0 => rw [h.1.inner]; rfl
    | opened done gap0 c0 o =>
      obtain ⟨_, _, _, _, hm⟩ := h
      cases hraw : o.raw with
      | true => rw [(hm.1 hraw).2.1]; rfl
      | false =>
        rcases (hm.2 hraw).2.2.2 with ⟨_, hin⟩ | ⟨_, hin⟩ <;> rw [hin] <;> rfl
  unfold dropWriter
  rw [hncl]
  simp only [Bool.false_eq_true, if_false]
  have hfin := finishFile_ghost ext h hg
  rw [← hcm] at hfin hclen ⊢
  apply WSat.bind
  apply WSat.mono (finalize_lay ext hclen hfin)
  intro ⟨r1, s1⟩ d1 ⟨hok, hin, hl⟩
  dsimp only at hin ⊢
  unfold dropInner
  simp only [hin]
  exact WSat.pure ⟨rfl, hl⟩

/-- the sink after `finish` is the sink after `finalize` (nothing after it touches the sink) -/
theorem finish_dev (ext : WExt) (s : WState) (fa : Option Nat) (d : Dev) :
    (finish ext s fa d).2 = (finalize ext s fa d).2 := by
  unfold finish
  rw [M.bind_apply]
  cases hf : finalize ext s fa d with
  | mk out d1 =>
    cases out with
    | err e => rfl
    | panic site => rfl
    | ok rs =>
      obtain ⟨r1, s1⟩ := rs
      cases r1 with
      | error e => rfl
      | ok u =>
        dsimp only
        cases hi : s1.inner with
        | closed => rfl
        | compressor m l enc p => rfl
        | storer enc => cases enc <;> rfl

/-- **`finish` and `Drop` leave identical sinks** — on every device, with or without an injected
fault — whenever finalisation SUCCEEDS (it then leaves the plain storer behind: `hplain`, which
`finalize_sat` gives from any `Inv` state).  When finalisation fails, `finish` reports the error and
the writer lives on, while a dropped writer's still-alive Deflate/Bzip2 encoder flushes its stream
into the sink from its destructor (`Model.dropInner`). -/
theorem finish_drop_dev (ext : WExt) (s : WState) (hs : s.inner.isClosed = false) (fa : Option Nat)
    (d : Dev) (u : Unit) (s1 : WState) (d1 : Dev)
    (hf : finalize ext s fa d = (.ok (.ok u, s1), d1)) (hplain : s1.inner = .storer none) :
    (finish ext s fa d).2 = (dropWriter ext s fa d).2 := by
  rw [finish_dev, hf]
  unfold dropWriter
  simp only [hs, Bool.false_eq_true, if_false]
  rw [M.bind_apply, hf]
  unfold dropInner
  simp only [hplain]
  rfl

/-- A stuck writer cannot be finished: `finish` returns an error. -/
theorem finish_stuck (ext : WExt) {ss n : Nat} {wf : Bool} {s : WState} {d : Dev} (h : Stuck ss n wf s d) :
    WSat (finish ext s) none d (fun rs _ => ∃ e, rs.1 = .error e) := by
  unfold finish finalize
  split
  · exact WSat.pure ⟨_, rfl⟩
  · apply WSat.bind
    apply WSat.bind
    apply WSat.mono (finishFile_stuck ext h)
    intro ⟨r1, s1⟩ d1 ⟨⟨e, he⟩, _⟩
    dsimp only at he
    subst he
    apply WSat.pure
    exact WSat.pure ⟨_, rfl⟩

/-- `finish` on an open entry that cannot be closed (`stuckAt`): an error, the sink untouched by the
refused close. -/
theorem finish_ghost_stuck (ext : WExt) {r : Nat} {g : Ghost} {s : WState} {d : Dev} (h : Lay r g s d)
    {ss n : Nat} {wf : Bool} (hg : g.stuckAt ext = some (ss, n, wf)) :
    WSat (finish ext s) none d (fun rs _ => ∃ e, rs.1 = .error e) := by
  unfold finish finalize
  split
  · exact WSat.pure ⟨_, rfl⟩
  · apply WSat.bind
    apply WSat.bind
    apply WSat.mono (finishFile_ghost_stuck ext h hg)
    intro ⟨r1, s1⟩ d1 ⟨⟨e, he⟩, _⟩
    dsimp only at he
    subst he
    apply WSat.pure
    exact WSat.pure ⟨_, rfl⟩

end ZipVerif.WL
