import ZipVerif.Lemmas.WLRecords
import ZipVerif.Lemmas.WriterValid
/-
Step lemmas of the "writer emits a layout" development: what each internal writer function does to
the sink, on a fault-free device, stated with the low-level predicates `Cl` (all entries closed)
and `Op` (one entry open).  The ghost state and the call-level lemmas are in `Lemmas/WLRun.lean`.
-/

namespace ZipVerif.WL
open ZipVerif ZipVerif.Model ZipVerif.Spec.Zip

/-! ### Low-level predicates -/

/-- All entries are closed: the live part of the sink is the local records of `es` followed by the
dead bytes `gap`; the writer's records are the central images of `es`; the sink is handed back. -/
structure Cl (es : List Spec.Zip.Entry) (gap : Bytes) (r : Nat) (s : WState) (d : Dev) : Prop where
  live : LiveAt d d.pos (localsBytes es ++ gap) r
  closed : ClosedAll es 0 s.files
  inner : s.inner = .storer none
  we : s.writingToExtraField = false

/-- One entry is open: its record `f` is the last one, its header `chunks` and the bytes `sunk`
written after it are in the sink. -/
structure Op (done : List Spec.Zip.Entry) (gap : Bytes) (r : Nat) (f : FileData) (chunks : List Bytes)
    (sunk : Bytes) (s : WState) (d : Dev) : Prop where
  live : LiveAt d d.pos (localsBytes done ++ gap ++ ser chunks ++ sunk) r
  files : ∃ cf, s.files = cf ++ [f] ∧ ClosedAll done 0 cf
  hdr : localHeaderChunks f = .ok chunks
  hs : f.headerStart = UInt64.ofNat ((localsBytes done).length + gap.length)
  hsLt : (localsBytes done).length + gap.length < 18446744073709551616
  xf : f.extraField = []
  udd : f.usingDataDescriptor = false
  we : s.writingToExtraField = false
  ss : s.statsStart = (localsBytes done).length + gap.length + (ser chunks).length

/-- Everything except `inner`, the running checksum and the byte count is unchanged. -/
structure SameBut (s s' : WState) : Prop where
  files : s'.files = s.files
  ss : s'.statsStart = s.statsStart
  wf : s'.writingToFile = s.writingToFile
  we : s'.writingToExtraField = s.writingToExtraField
  wr : s'.writingRaw = s.writingRaw
  comment : s'.comment = s.comment

/-- `Op` only looks at `files`, `statsStart` and the extra-data flag of the writer state. -/
theorem Op.frame {done gap r f chunks sunk s d s'} (h : Op done gap r f chunks sunk s d)
    (hf : s'.files = s.files) (hss : s'.statsStart = s.statsStart)
    (hwe : s'.writingToExtraField = s.writingToExtraField) {d' : Dev} {sunk' : Bytes}
    (hl : LiveAt d' d'.pos (localsBytes done ++ gap ++ ser chunks ++ sunk') r) :
    Op done gap r f chunks sunk' s' d' :=
  ⟨hl, by rw [hf]; exact h.files, h.hdr, h.hs, h.hsLt, h.xf, h.udd, by rw [hwe]; exact h.we,
    by rw [hss]; exact h.ss⟩

theorem Op.sameBut {done gap r f chunks sunk s d s'} (h : Op done gap r f chunks sunk s d)
    (hb : SameBut s s') {d' : Dev} {sunk' : Bytes}
    (hl : LiveAt d' d'.pos (localsBytes done ++ gap ++ ser chunks ++ sunk') r) :
    Op done gap r f chunks sunk' s' d' := h.frame hb.files hb.ss hb.we hl

/-- the level a compressor for method `m` is created with -/
def effLevel (m : Method) (l : Option Int) : Int :=
  match levelRange m with
  | some (_, _, dflt) => l.getD dflt
  | none => 0

/-- the stored bytes of a finished entry written through the writer -/
def dataOf (ext : WExt) (f : FileData) (plain : Bytes) : Bytes :=
  if f.method = .stored then plain else ext.compress f.method (effLevel f.method f.level) plain

/-! ### `switch_to` -/

theorem switchTo_stored_of_storer (ext : WExt) (l : Option Int) (s : WState) (h : s.inner = .storer none) :
    switchTo ext .stored l s = pure (.ok (), s) := by
  unfold switchTo
  simp [h, Inner.currentCompression]

/-- Closing a compressor: its whole output goes to the sink. -/
theorem switchTo_flush (ext : WExt) (s : WState) (m : Method) (l : Int) (p : Bytes)
    (h : s.inner = .compressor m l none p) (hm : m ≠ .stored) {d : Dev} {L : Bytes} {r : Nat}
    (hl : LiveAt d d.pos L r) :
    WSat (switchTo ext .stored none s) none d (fun rs d' =>
      rs = (.ok (), { s with inner := .storer none }) ∧
      LiveAt d' d'.pos (L ++ ext.compress m l p) r) := by
  unfold switchTo
  have hne : (m == Method.stored) = false := by simpa using hm
  simp only [h, Inner.currentCompression, hne, Bool.false_eq_true, if_false]
  apply WSat.of_run_eq (Model.emitFinish_none _ _ _ _ _ _)
  unfold Model.emit
  dsimp only
  apply WSat.io_none (MSat.writeAll_append _ none hl); intro _ d' ⟨h1, h2⟩
  exact WSat.pure ⟨rfl, h2.castPos h1.symm⟩

/-- the writer `switch_to` installs for a method, from a plain storer -/
def innerFor (c : Method) (l : Option Int) : Inner :=
  if c = .stored then .storer none else .compressor c (effLevel c l) none []

/-- the methods `switch_to` can install a writer for -/
def writable : Method → Bool
  | .stored | .deflated | .bzip2 | .zstd => true
  | _ => false

/-- `switch_to` from a plain storer does no I/O: it installs the writer for the method, or refuses and
leaves the writer closed. -/
theorem switchTo_from_storer (ext : WExt) (c : Method) (l : Option Int) (s : WState)
    (h : s.inner = .storer none) :
    (switchTo ext c l s = pure (.ok (), { s with inner := innerFor c l }) ∧ writable c = true) ∨
    ∃ e, switchTo ext c l s = pure (.error e, { s with inner := .closed }) := by
  obtain ⟨inner, files, sS, sB, sH, wF, wE, cO, wR, cm⟩ := s
  dsimp only at h; subst h
  unfold switchTo
  cases c with
  | stored => left; simp [Inner.currentCompression, innerFor, writable]
  | aes => right; exact ⟨.unsupportedArchive, by simp [Inner.currentCompression]⟩
  | unsupported v => right; exact ⟨.unsupportedArchive, by simp [Inner.currentCompression]⟩
  | deflated =>
    by_cases hr : (0 : Int) ≤ l.getD 6 ∧ l.getD 6 ≤ 9
    · left; simp [Inner.currentCompression, levelRange, hr, innerFor, effLevel, writable]
    · right; exact ⟨.unsupportedArchive, by simp [Inner.currentCompression, levelRange, hr]⟩
  | bzip2 =>
    by_cases hr : (1 : Int) ≤ l.getD 6 ∧ l.getD 6 ≤ 9
    · left; simp [Inner.currentCompression, levelRange, hr, innerFor, effLevel, writable]
    · right; exact ⟨.unsupportedArchive, by simp [Inner.currentCompression, levelRange, hr]⟩
  | zstd =>
    by_cases hr : (-131072 : Int) ≤ l.getD 3 ∧ l.getD 3 ≤ 22
    · left; simp [Inner.currentCompression, levelRange, hr, innerFor, effLevel, writable]
    · right; exact ⟨.unsupportedArchive, by simp [Inner.currentCompression, levelRange, hr]⟩

/-! ### `update_local_file_header` -/

theorem toNat_ofNat_lt {n : Nat} (h : n < 18446744073709551616) : (UInt64.ofNat n).toNat = n := by
  rw [UInt64.toNat_ofNat']; exact Nat.mod_eq_of_lt h

/-- The back-patch turns the header of `f0` into the header of `f0` with the final CRC and sizes. -/
theorem updateLocalHeader_patch {β} {s : WState} {f0 : FileData} (c : UInt32) (us cs : UInt64)
    {k : Unit → M (Except ZErr β × WState)} {d : Dev} {Q : Except ZErr β × WState → Dev → Prop}
    (A B : Bytes) (dp lv : UInt16) (q r : Nat)
    (hlive : LiveAt d q (A ++ (localHdr f0 dp lv ++ B)) r)
    (hA : f0.headerStart.toNat = A.length)
    (hk : ¬ (f0.largeFile = false ∧ cs > ZIP64_BYTES_THR) → ∀ d',
      LiveAt d' q (A ++ (localHdr { f0 with crc32 := c, uncompressedSize := us, compressedSize := cs } dp lv ++ B)) r →
      WSat (k ()) none d' Q)
    (hbig : f0.largeFile = false → cs > ZIP64_BYTES_THR → Q (.error (.io .other), s) d) :
    WSat (Model.updateLocalHeader s { f0 with crc32 := c, uncompressedSize := us, compressedSize := cs } k) none d Q := by
  have hq : q = A.length + (30 + f0.fileName.length + (if f0.largeFile then 20 else 0)) + B.length := by
    rw [← hlive.length]; simp only [List.length_append, localHdr_length]; omega
  unfold Model.updateLocalHeader
  dsimp only
  split
  · next hg =>
    simp only [Bool.and_eq_true, Bool.not_eq_true', decide_eq_true_eq] at hg
    exact WSat.pure (hbig hg.1 hg.2)
  next hng =>
  simp only [Bool.and_eq_true, Bool.not_eq_true', decide_eq_true_eq] at hng
  replace hk := hk hng
  rw [hA]
  apply WSat.io_none (MSat.seekStart_live _ none hlive); intro _ d1 ⟨_, hp1, hl1⟩
  apply WSat.io_none (MSat.writeAll_patch _ none hl1 (by rw [hp1, le32_length]; omega)); intro _ d2 ⟨hp2, hl2⟩
  rw [hp1] at hp2 hl2
  cases hlf : f0.largeFile with
  | true =>
    rw [if_pos rfl]
    apply WSat.io_none (MSat.seekStart_live _ none hl2); intro _ d3 ⟨_, hp3, hl3⟩
    apply WSat.io_none (MSat.writeAll_patch _ none hl3 (by rw [hp3, le64_length, hq, hlf]; simp; omega)); intro _ d4 ⟨hp4, hl4⟩
    rw [hp3] at hp4 hl4
    apply WSat.io_none (MSat.writeAll_patch _ none hl4 (by rw [hp4, le64_length, le64_length, hq, hlf]; simp; omega)); intro _ d5 ⟨hp5, hl5⟩
    rw [hp4, le64_length] at hl5
    apply hk d5
    rw [← patch_large A B f0 dp lv hlf c cs us A.length rfl]
    exact hl5
  | false =>
    rw [if_neg (by simp)]
    apply WSat.io_none (MSat.writeAll_patch _ none hl2 (by rw [hp2, le32_length, le32_length, hq]; omega)); intro _ d3 ⟨hp3, hl3⟩
    rw [hp2, le32_length] at hp3 hl3
    apply WSat.io_none (MSat.writeAll_patch _ none hl3 (by rw [hp3, le32_length, le32_length, hq]; omega)); intro _ d4 ⟨hp4, hl4⟩
    rw [hp3, le32_length] at hl4
    apply hk d4
    rw [← patch_small A B f0 dp lv hlf c cs us A.length rfl]
    exact hl4

/-! ### `finish_file` -/

theorem centralHeaderChunks_ok_of {f : FileData} {dp : UInt16} (hx : f.extraField = [])
    (hdp : f.time.datepart = some dp) : ∃ cs, centralHeaderChunks f = .ok cs := by
  cases h : centralHeaderChunks f with
  | ok cs => exact ⟨cs, rfl⟩
  | err e => exact absurd h (centralHeaderChunks_ne_err hx e)
  | panic site =>
    exfalso
    unfold centralHeaderChunks datepartOut at h
    rw [hdp] at h
    dsimp only [bind, Out.instMonad] at h
    split at h <;> cases h

/-- The writer is stuck on an entry that cannot be closed: a non-ZIP64 entry with more than 0xFFFFFFFF
stored bytes (`n`, starting at `ss`) in the sink.  `update_local_file_header` refuses it before
touching the sink, so every later `finish_file` fails the same way. -/
structure Stuck (ss n : Nat) (wf : Bool) (s : WState) (d : Dev) : Prop where
  inner : s.inner = .storer none
  wr : s.writingRaw = false
  we : s.writingToExtraField = false
  files : ∃ cf f, s.files = cf ++ [f] ∧ f.largeFile = false
  start : s.statsStart = ss
  pos : d.pos = ss + n
  le : d.pos ≤ d.buf.length
  big : n > 0xFFFFFFFF
  lt : ss + n < 18446744073709551616
  wf : s.writingToFile = wf

theorem ofNat_gt_thr {n : Nat} (h1 : n > 0xFFFFFFFF) (h2 : n < 18446744073709551616) :
    UInt64.ofNat n > ZIP64_BYTES_THR := by
  apply UInt64.lt_iff_toNat_lt.mpr
  rw [UInt64.toNat_ofNat', Nat.mod_eq_of_lt h2]
  have : ZIP64_BYTES_THR.toNat = 0xFFFFFFFF := by decide
  omega

theorem gt_thr_ofNat {n : Nat} (h : UInt64.ofNat n > ZIP64_BYTES_THR) : n > 0xFFFFFFFF := by
  have h2 : ZIP64_BYTES_THR.toNat < (UInt64.ofNat n).toNat := UInt64.lt_iff_toNat_lt.mp h
  rw [UInt64.toNat_ofNat'] at h2
  have : ZIP64_BYTES_THR.toNat = 0xFFFFFFFF := by decide
  have := Nat.mod_le n 18446744073709551616
  omega

/-- What `finish_file` leaves (on success): every entry closed, no file open. -/
def FinPost (es : List Spec.Zip.Entry) (gap : Bytes) (r : Nat) (c : Bytes) :
    Except ZErr Unit × WState → Dev → Prop :=
  fun rs d' => rs.1 = .ok () ∧ Cl es gap r rs.2 d' ∧ rs.2.writingRaw = false ∧
    rs.2.writingToFile = false ∧ rs.2.comment = c

/-- the finished record of an entry written through the writer -/
def finalRec (f : FileData) (plain data : Bytes) : FileData :=
  { f with crc32 := Spec.Crc32.crc32 plain, uncompressedSize := UInt64.ofNat plain.length,
           compressedSize := UInt64.ofNat data.length }

/-- `finish_file`'s tail on an entry written through the writer whose stored bytes `data` are in the
sink: the header is back-patched and the entry is closed — unless the compressed size does not fit a
non-ZIP64 header (`update_local_file_header` refuses; nothing is claimed then). -/
theorem afterEnc_norm {done : List Spec.Zip.Entry} {gap : Bytes} {r : Nat} {f : FileData}
    {chunks : List Bytes} {data : Bytes} {s : WState} {d : Dev} (plain : Bytes)
    (h : Op done gap r f chunks data s d) (hin : s.inner = .storer none) (hwr : s.writingRaw = false)
    (hb : s.statsBytes = plain.length) (hh : s.statsHasher = Spec.Crc32.updateBytes 0xFFFFFFFF plain)
    {dp : UInt16} (hdp : f.time.datepart = some dp) :
    WSat (afterEnc s) none d (fun rs d' =>
      (f.largeFile = false ∧ UInt64.ofNat data.length > ZIP64_BYTES_THR ∧ (∃ e, rs.1 = .error e) ∧
        rs.2.comment = s.comment ∧
        (s.statsStart + data.length < 18446744073709551616 →
          Stuck s.statsStart data.length s.writingToFile rs.2 d')) ∨
      (¬ (f.largeFile = false ∧ UInt64.ofNat data.length > ZIP64_BYTES_THR) ∧
       FinPost (done ++ [specEntry (finalRec f plain data) dp gap [] data f.versionNeeded]) [] r s.comment rs d')) := by
  obtain ⟨cf, hfiles, hcl⟩ := h.files
  obtain ⟨dp', hdp', hser⟩ := ser_localHeaderChunks h.hdr h.xf
  have : dp' = dp := by rw [hdp] at hdp'; exact (Option.some.inj hdp').symm
  subst this
  have hlen := h.live.length
  have e1 : hasherFinalize s.statsHasher = Spec.Crc32.crc32 plain := by rw [hh]; rfl
  have e3 : d.pos - s.statsStart = data.length := by
    rw [h.ss, ← hlen]; simp only [List.length_append]; omega
  have e4 : ¬ d.pos < s.statsStart := by
    rw [h.ss, ← hlen]; simp only [List.length_append]; omega
  unfold afterEnc
  simp only [hin, hwr, Bool.not_false, if_true, hfiles, List.getLast?_concat, setLast_snoc]
  apply WSat.io_none (MSat.streamPosition_live none h.live); intro fe d1 ⟨hfe, hp1, hl1⟩
  subst hfe
  rw [if_neg e4]
  simp only [e1, hb, e3]
  refine updateLocalHeader_patch (f0 := f) (Spec.Crc32.crc32 plain) (UInt64.ofNat plain.length)
    (UInt64.ofNat data.length) (localsBytes done ++ gap) data dp' f.versionNeeded d.pos r ?_ ?_ ?_ ?_
  · exact hl1.cast (by rw [hser]; simp only [List.append_assoc])
  · rw [h.hs, toNat_ofNat_lt h.hsLt]; simp only [List.length_append]
  · intro hng d2 hl2
    apply WSat.io_none (MSat.seekStart_live _ none hl2); intro _ d3 ⟨_, hp3, hl3⟩
    apply WSat.pure
    right
    refine ⟨hng, rfl, ⟨?_, ?_, rfl, h.we⟩, rfl, rfl, rfl⟩
    · rw [hp3]
      refine hl3.cast ?_
      rw [localsBytes_append, localsBytes_cons]
      have := local_eq_spec (finalRec f plain data) dp' f.versionNeeded gap data rfl
      simp only [localsBytes, List.map_nil, List.flatten_nil, List.append_nil, List.append_assoc]
      rw [← this]
      rfl
    · show ClosedAll _ 0 (cf ++ [finalRec f plain data])
      apply ClosedAll.snoc hcl
      obtain ⟨cs, hcs⟩ := centralHeaderChunks_ok_of (f := finalRec f plain data) h.xf hdp
      refine ⟨cs, hcs, ?_⟩
      rw [central_eq_spec gap [] data f.versionNeeded hcs hdp rfl h.udd]
      show centralRecord _ f.headerStart = _
      rw [h.hs]
      simp only [Nat.zero_add]
      rfl
  · intro hlf hcs
    refine Or.inl ⟨hlf, hcs, ⟨_, rfl⟩, rfl, fun hlt => ?_⟩
    have hpos : d.pos = s.statsStart + data.length := by omega
    exact ⟨rfl, rfl, h.we, ⟨cf, _, rfl, hlf⟩, rfl, by rw [hp1]; exact hpos, by rw [hp1]; exact hl1.le,
      gt_thr_ofNat hcs, hlt, rfl⟩

/-- `finish_file`'s tail on a raw copy: nothing is patched; bytes written after the raw data become
dead bytes before the next record. -/
theorem afterEnc_raw {done : List Spec.Zip.Entry} {gap : Bytes} {r : Nat} {f : FileData}
    {chunks : List Bytes} {sunk : Bytes} {s : WState} {d : Dev} (data junk : Bytes)
    (h : Op done gap r f chunks sunk s d) (hin : s.inner = .storer none) (hwr : s.writingRaw = true)
    (hsunk : sunk = data ++ junk) (hcs : f.compressedSize = UInt64.ofNat data.length)
    {dp : UInt16} (hdp : f.time.datepart = some dp) :
    WSat (afterEnc s) none d
      (FinPost (done ++ [specEntry f dp gap [] data f.versionNeeded]) junk r s.comment) := by
  obtain ⟨cf, hfiles, hcl⟩ := h.files
  obtain ⟨dp', hdp', hser⟩ := ser_localHeaderChunks h.hdr h.xf
  have : dp' = dp := by rw [hdp] at hdp'; exact (Option.some.inj hdp').symm
  subst this
  unfold afterEnc
  simp only [hin, hwr, Bool.not_true, Bool.false_eq_true, if_false]
  apply WSat.pure
  refine ⟨rfl, ⟨?_, ?_, rfl, h.we⟩, rfl, rfl, rfl⟩
  · refine h.live.cast ?_
    rw [localsBytes_append, localsBytes_cons, hsunk, hser]
    have := local_eq_spec f dp' f.versionNeeded gap data hcs
    simp only [localsBytes, List.map_nil, List.flatten_nil, List.append_nil, List.append_assoc]
    rw [← this]
    simp only [List.append_assoc]
  · show ClosedAll _ 0 s.files
    rw [hfiles]
    apply ClosedAll.snoc hcl
    obtain ⟨cs, hcs'⟩ := centralHeaderChunks_ok_of h.xf hdp
    refine ⟨cs, hcs', ?_⟩
    rw [central_eq_spec gap [] data f.versionNeeded hcs' hdp hcs h.udd, h.hs]
    simp only [Nat.zero_add]
    rfl

/-- `finish_file`'s tail when no entry is open (a fresh writer, or one returned by `new_append`). -/
theorem afterEnc_idle {es : List Spec.Zip.Entry} {gap : Bytes} {r : Nat} {s : WState} {d : Dev}
    (h : Cl es gap r s d) (hwf : s.writingToFile = false) (hidle : s.files = [] ∨ s.writingRaw = true) :
    WSat (afterEnc s) none d (FinPost es gap r s.comment) := by
  unfold afterEnc
  simp only [h.inner]
  cases hwr : s.writingRaw with
  | true =>
    simp only [Bool.not_true, Bool.false_eq_true, if_false]
    exact WSat.pure ⟨rfl, ⟨h.live, h.closed, rfl, h.we⟩, rfl, rfl, rfl⟩
  | false =>
    have hnil : s.files = [] := by
      rcases hidle with h1 | h1
      · exact h1
      · rw [hwr] at h1; cases h1
    simp only [Bool.not_false, if_true, hnil, List.getLast?_nil]
    exact WSat.pure ⟨rfl, h, hwr, hwf, rfl⟩

/-- `finish_file` when the sink is already handed back: only the tail runs. -/
theorem finishFile_of_storer (ext : WExt) (s : WState) (hwe : s.writingToExtraField = false)
    (hin : s.inner = .storer none) {d : Dev} {Q : Except ZErr Unit × WState → Dev → Prop}
    (h : WSat (afterEnc s) none d Q) : WSat (finishFile ext s) none d Q := by
  unfold finishFile
  simp only [hwe, Bool.false_eq_true, if_false]
  apply WSat.bind
  apply WSat.pure
  dsimp only
  rw [switchTo_stored_of_storer ext none s hin]
  apply WSat.bind
  apply WSat.pure
  dsimp only
  split
  · next e he => rw [hin] at he; cases he
  · exact h
  · next h1 h2 => exact absurd hin h2

/-- `finish_file` on a compressing entry: the encoder's output reaches the sink, then the tail runs. -/
theorem finishFile_of_compressor (ext : WExt) (s : WState) (hwe : s.writingToExtraField = false)
    (m : Method) (l : Int) (p : Bytes) (hin : s.inner = .compressor m l none p) (hm : m ≠ .stored)
    {d : Dev} {L : Bytes} {r : Nat} (hl : LiveAt d d.pos L r)
    {Q : Except ZErr Unit × WState → Dev → Prop}
    (h : ∀ d', LiveAt d' d'.pos (L ++ ext.compress m l p) r →
      WSat (afterEnc { s with inner := .storer none }) none d' Q) :
    WSat (finishFile ext s) none d Q := by
  unfold finishFile
  simp only [hwe, Bool.false_eq_true, if_false]
  apply WSat.bind
  apply WSat.pure
  dsimp only
  apply WSat.bind
  apply WSat.mono (switchTo_flush ext s m l p hin hm hl)
  intro rs d2 ⟨hrs, hl2⟩
  subst hrs
  dsimp only
  exact h d2 hl2

/-! ### A stuck writer -/

/-- `finish_file`'s tail on a stuck writer fails again, before any byte of the sink is touched. -/
theorem afterEnc_stuck {ss n : Nat} {wf : Bool} {s : WState} {d : Dev} (h : Stuck ss n wf s d) :
    WSat (afterEnc s) none d (fun rs d' =>
      (∃ e, rs.1 = .error e) ∧ Stuck ss n wf rs.2 d' ∧ rs.2.comment = s.comment) := by
  obtain ⟨cf, f, hfiles, hfl⟩ := h.files
  unfold afterEnc
  simp only [h.inner, h.wr, Bool.not_false, if_true, hfiles, List.getLast?_concat, setLast_snoc]
  apply WSat.io_none (MSat.streamPosition_buf none d); intro fe d1 ⟨hfe, hp1, hb1⟩
  subst hfe
  have e4 : ¬ d.pos < s.statsStart := by rw [h.start, h.pos]; omega
  rw [if_neg e4]
  have e3 : d.pos - s.statsStart = n := by rw [h.start, h.pos]; omega
  unfold Model.updateLocalHeader
  rw [if_pos (by
    simp only [Bool.and_eq_true, Bool.not_eq_true', decide_eq_true_eq]
    refine ⟨hfl, ?_⟩
    show UInt64.ofNat (d.pos - s.statsStart) > ZIP64_BYTES_THR
    rw [e3]
    exact ofNat_gt_thr h.big (by have := h.lt; omega))]
  apply WSat.pure
  exact ⟨⟨_, rfl⟩, ⟨rfl, rfl, h.we, ⟨cf, _, rfl, hfl⟩, h.start, by rw [hp1]; exact h.pos,
    by rw [hp1, hb1]; exact h.le, h.big, h.lt, h.wf⟩, rfl⟩

theorem finishFile_stuck (ext : WExt) {ss n : Nat} {wf : Bool} {s : WState} {d : Dev}
    (h : Stuck ss n wf s d) :
    WSat (finishFile ext s) none d (fun rs d' =>
      (∃ e, rs.1 = .error e) ∧ Stuck ss n wf rs.2 d' ∧ rs.2.comment = s.comment) :=
  finishFile_of_storer ext s h.we h.inner (afterEnc_stuck h)

/-! ### `start_entry` -/

/-- The record `start_entry` pushes for `name`/`o` (`raw` = CRC and sizes of a raw copy's source) when
the sink is at `hs`; `ds` is the position after the header. -/
def mkRec (name : Bytes) (o : FileOptions) (raw : Option (UInt32 × UInt64 × UInt64)) (hs : Nat)
    (ds : UInt64) : FileData :=
  { system := .unix, versionMadeBy := DEFAULT_VERSION, encrypted := o.encryptWith.isSome,
    usingDataDescriptor := false, method := o.method, level := o.level, time := o.time,
    crc32 := (raw.getD (0, 0, 0)).1, compressedSize := (raw.getD (0, 0, 0)).2.1,
    uncompressedSize := (raw.getD (0, 0, 0)).2.2, fileName := name,
    fileNameRaw := [], extraField := [], fileComment := [],
    headerStart := UInt64.ofNat hs, centralHeaderStart := 0, dataStart := ds,
    externalAttributes := (o.permissions.getD 0o100644) <<< 16, largeFile := o.largeFile,
    aesMode := none }

/-- What `start_entry` leaves on success: the new entry is open, nothing written to it yet. -/
def StartPost (es : List Spec.Zip.Entry) (gap : Bytes) (r : Nat) (c : Bytes) (f : FileData)
    (chunks : List Bytes) : Except ZErr Unit × WState → Dev → Prop :=
  fun rs d' => rs.1 = .ok () ∧ Op es gap r f chunks [] rs.2 d' ∧ rs.2.inner = .storer none ∧
    rs.2.writingRaw = false ∧ rs.2.writingToFile = false ∧ rs.2.statsBytes = 0 ∧
    rs.2.statsHasher = 0xFFFFFFFF ∧ rs.2.comment = c

theorem startEntry_lay (ext : WExt) (name : Bytes) (o : FileOptions)
    (raw : Option (UInt32 × UInt64 × UInt64)) (henc : o.encryptWith = none)
    (hn : ¬ name.length > 65535) {es : List Spec.Zip.Entry} {gap : Bytes} {r : Nat} {c : Bytes}
    {s : WState} {d : Dev} (hfin : WSat (finishFile ext s) none d (FinPost es gap r c)) :
    WSat (startEntry ext name o raw s) none d (fun rs d' =>
      (localsBytes es).length + gap.length < 18446744073709551616 →
      ∀ chunks, localHeaderChunks (mkRec name o raw ((localsBytes es).length + gap.length) 0) = .ok chunks →
        StartPost es gap r c (mkRec name o raw ((localsBytes es).length + gap.length)
          (UInt64.ofNat ((localsBytes es).length + gap.length + (ser chunks).length))) chunks rs d') := by
  unfold startEntry
  rw [if_neg hn]
  apply WSat.bind
  apply WSat.mono hfin
  intro ⟨r1, s1⟩ d1 ⟨hok, hcl, hwr, hwf, hc⟩
  dsimp only at hok hcl hwr hwf hc ⊢
  subst hok
  dsimp only
  have hpos : d1.pos = (localsBytes es).length + gap.length := by
    rw [← hcl.live.length]; simp only [List.length_append]
  simp only [hcl.inner]
  apply WSat.io_none (MSat.streamPosition_live none hcl.live); intro v d2 ⟨hv, hp2, hl2⟩
  subst hv
  split
  · exact WSat.panic
  · next e h => exact absurd h (localHeaderChunks_ne_err _ e)
  next chunks0 hch0 =>
  have hX : localHeaderChunks (mkRec name o raw d1.pos 0) = .ok chunks0 := hch0
  rw [hpos] at hX
  apply WSat.io_none (MSat.writeChunks_append chunks0 none (hl2.castPos hp2.symm)); intro _ d3 ⟨hp3, hl3⟩
  apply WSat.io_none (MSat.streamPosition_live none hl3); intro v d4 ⟨hv, hp4, hl4⟩
  subst hv
  simp only [henc]
  apply WSat.pure
  intro hlt chunks hch
  rw [hX] at hch
  have : chunks0 = chunks := Out.ok.inj hch
  subst this
  have hp3' : d3.pos = (localsBytes es).length + gap.length + (ser chunks0).length := by
    rw [hp3, hp2, hpos]
  refine ⟨rfl, ⟨?_, ⟨s1.files, ?_, hcl.closed⟩, hX, rfl, hlt, rfl, rfl, hcl.we, hp3'⟩, rfl, hwr, hwf, rfl, rfl, hc⟩
  · refine (hl4.castPos (hp4.trans hp3).symm).cast ?_
    simp only [List.append_nil]
  · dsimp only
    rw [hp3', hpos]
    simp only [mkRec, henc]

/-! ### `write` -/

theorem SameBut.rfl' (s : WState) : SameBut s s := ⟨rfl, rfl, rfl, rfl, rfl, rfl⟩

/-- What a successful `write` into an open entry does. -/
def WritePost (buf : Bytes) (s : WState) (L : Bytes) (r : Nat) : Except ZErr Unit × WState → Dev → Prop :=
  fun rs d' => match rs.1 with
    | .error _ => rs.2.inner = .closed
    | .ok _ => SameBut s rs.2 ∧ rs.2.statsBytes = s.statsBytes + buf.length ∧
        rs.2.statsHasher = Spec.Crc32.updateBytes s.statsHasher buf ∧
        (s.inner = .storer none → rs.2.inner = .storer none ∧ LiveAt d' d'.pos (L ++ buf) r) ∧
        (∀ m l p, s.inner = .compressor m l none p →
          rs.2.inner = .compressor m l none (p ++ buf) ∧ LiveAt d' d'.pos L r)

theorem writeData_lay (buf : Bytes) (s : WState) (hwf : s.writingToFile = true)
    (hwe : s.writingToExtraField = false) {d : Dev} {L : Bytes} {r : Nat} (hl : LiveAt d d.pos L r) :
    WSat (writeData buf s) none d (WritePost buf s L r) := by
  obtain ⟨inner, files, sS, sB, sH, wF, wE, cO, wR, cm⟩ := s
  dsimp only at hwf hwe
  subst hwf hwe
  unfold writeData
  split
  · next hb =>
    have : buf = [] := List.isEmpty_iff.mp hb
    subst this
    apply WSat.pure
    refine ⟨SameBut.rfl' _, rfl, rfl, ?_, ?_⟩
    · intro h; exact ⟨h, hl.cast (List.append_nil _).symm⟩
    · intro m l p h; exact ⟨by rw [h, List.append_nil], hl⟩
  simp only [Bool.not_true, Bool.false_eq_true, if_false]
  cases inner with
  | closed => exact WSat.pure rfl
  | storer enc =>
    cases enc with
    | none =>
      apply WSat.io_none (MSat.writeAll_append buf none hl); intro _ d1 ⟨hp1, hl1⟩
      split
      · exact WSat.panic
      · split
        · exact WSat.pure rfl
        · apply WSat.pure
          refine ⟨⟨rfl, rfl, rfl, rfl, rfl, rfl⟩, rfl, rfl, ?_, ?_⟩
          · intro _; exact ⟨rfl, hl1.castPos hp1.symm⟩
          · intro m l p h; cases h
    | some e =>
      dsimp only
      split
      · exact WSat.panic
      · split
        · exact WSat.pure rfl
        · apply WSat.pure
          refine ⟨⟨rfl, rfl, rfl, rfl, rfl, rfl⟩, rfl, rfl, ?_, ?_⟩
          · intro h; cases h
          · intro m l p h; cases h
  | compressor m l enc p =>
    dsimp only
    split
    · exact WSat.panic
    · split
      · exact WSat.pure rfl
      · apply WSat.pure
        refine ⟨⟨rfl, rfl, rfl, rfl, rfl, rfl⟩, rfl, rfl, ?_, ?_⟩
        · intro h; cases h
        · intro m' l' p' h
          cases h
          exact ⟨rfl, hl⟩

/-- `write` on a stuck writer that still accepts data: the bytes go to the sink after the refused
entry's data (or the 4 GiB limit poisons the writer). -/
theorem writeData_stuck (buf : Bytes) {ss n : Nat} {s : WState} {d : Dev} (h : Stuck ss n true s d) :
    WSat (writeData buf s) none d (fun rs d' => match rs.1 with
      | .error _ => rs.2.inner = .closed
      | .ok _ => rs.2.comment = s.comment ∧
          (ss + (n + buf.length) < 18446744073709551616 → Stuck ss (n + buf.length) true rs.2 d')) := by
  have hl : LiveAt d d.pos (d.buf.take d.pos) (d.buf.length - d.pos) := ⟨h.le, rfl, by have := h.le; omega⟩
  apply WSat.mono (writeData_lay buf s h.wf h.we hl)
  intro ⟨r2, s2⟩ d2 hq
  cases r2 with
  | error e => exact hq
  | ok u =>
    obtain ⟨hsb, _, _, hst, _⟩ := hq
    obtain ⟨hin2, hl2⟩ := hst h.inner
    refine ⟨hsb.comment, fun hlt => ?_⟩
    have hlen := hl2.length
    rw [List.length_append, List.length_take, Nat.min_eq_left h.le] at hlen
    obtain ⟨cf, f, hfiles, hfl⟩ := h.files
    exact ⟨hin2, by rw [hsb.wr]; exact h.wr, by rw [hsb.we]; exact h.we,
      ⟨cf, f, by rw [hsb.files]; exact hfiles, hfl⟩, by rw [hsb.ss]; exact h.start,
      by show d2.pos = _; rw [← hlen, h.pos]; omega, hl2.le, by have := h.big; omega, hlt,
      by rw [hsb.wf]; exact h.wf⟩

/-- `write` with no file open (after `add_directory`, `add_symlink`, before any entry): an error for a
non-empty buffer, nothing for an empty one; the writer and the sink are unchanged. -/
theorem writeData_nofile (buf : Bytes) (s : WState) (hwf : s.writingToFile = false) :
    ∃ r, writeData buf s = pure (r, s) := by
  unfold writeData
  by_cases hb : buf.isEmpty
  · exact ⟨.ok (), by simp [hb]⟩
  · exact ⟨.error (.io .other), by simp [hb, hwf]⟩

/-! ### `finalize` -/

theorem writeAllCentral_lay (s : WState) : ∀ (es : List Spec.Zip.Entry) (st : Nat) (fs : List FileData),
    ClosedAll es st fs → ∀ {d : Dev} {L : Bytes} {r : Nat}, LiveAt d d.pos L r →
    WSat (finalize.writeAllCentral s fs) none d (fun rs d' =>
      rs = (.ok (), s) ∧ LiveAt d' d'.pos (L ++ centralBytes es (localOffsets es st)) r)
  | [], _, [], _, d, L, r, hl => by
    unfold finalize.writeAllCentral
    exact WSat.pure ⟨rfl, hl.cast (by simp [centralBytes])⟩
  | [], _, _ :: _, h, _, _, _, _ => h.elim
  | _ :: _, _, [], h, _, _, _, _ => h.elim
  | e :: es, st, f :: fs, h, d, L, r, hl => by
    obtain ⟨⟨cs, hcs, hser⟩, hrest⟩ := h
    unfold finalize.writeAllCentral
    rw [hcs]
    dsimp only
    apply WSat.io_none (MSat.writeChunks_append cs none hl); intro _ d1 ⟨hp1, hl1⟩
    apply WSat.mono (writeAllCentral_lay s es _ fs hrest (hl1.castPos hp1.symm))
    intro rs d2 ⟨h1, h2⟩
    refine ⟨h1, h2.cast ?_⟩
    rw [centralBytes_cons, hser, List.append_assoc]

/-- What `finalize` writes after closing the last entry: the central directory and the end records of
the layout. -/
theorem finalize_lay (ext : WExt) {es : List Spec.Zip.Entry} {gap : Bytes} {r : Nat} {s : WState}
    {d : Dev} (hc : ¬ s.comment.length > 65535)
    (hfin : WSat (finishFile ext s) none d (FinPost es gap r s.comment)) :
    WSat (finalize ext s) none d (fun rs d' =>
      rs.1 = .ok () ∧ rs.2.inner = .storer none ∧
      LiveAt d' d'.pos (build (layoutOf es gap s.comment [])) r) := by
  unfold finalize
  rw [if_neg hc]
  apply WSat.bind
  apply WSat.mono hfin
  intro ⟨r1, s1⟩ d1 ⟨hok, hcl, hwr, hwf, hcm⟩
  dsimp only at hok hcl hwr hwf hcm ⊢
  subst hok
  dsimp only
  have hpos : d1.pos = (localsBytes es).length + gap.length := by
    rw [← hcl.live.length]; simp only [List.length_append]
  have hn : s1.files.length = es.length := (ClosedAll.length_eq hcl.closed).symm
  simp only [hcl.inner]
  apply WSat.io_none (MSat.streamPosition_live none hcl.live); intro v d2 ⟨hv, hp2, hl2⟩
  subst hv
  apply WSat.bind
  apply WSat.mono (writeAllCentral_lay s1 es 0 s1.files hcl.closed (hl2.castPos hp2.symm))
  intro ⟨r3, s3⟩ d3 ⟨h3, hl3⟩
  cases h3
  dsimp only
  apply WSat.io_none (MSat.streamPosition_live none hl3); intro v d4 ⟨hv, hp4, hl4⟩
  subst hv
  have hsz : d3.pos - d1.pos = (centralBytes es (localOffsets es 0)).length := by
    rw [← hl3.length, hpos]; simp only [List.length_append]; omega
  split
  · exact WSat.panic
  rw [hsz, hn, hpos]
  apply WSat.bind
  have hz : WSat (if (decide (es.length > ZIP64_ENTRY_THR) || decide (max (centralBytes es (localOffsets es 0)).length ((localsBytes es).length + gap.length) > 0xFFFFFFFF)) = true then
      io s1 (M.writeChunks (eocd64Chunks {
        versionMadeBy := DEFAULT_VERSION.toUInt16, versionNeeded := DEFAULT_VERSION.toUInt16,
        diskNumber := 0, diskWithCd := 0, filesOnDisk := UInt64.ofNat es.length, files := UInt64.ofNat es.length,
        cdSize := UInt64.ofNat (centralBytes es (localOffsets es 0)).length, cdOffset := UInt64.ofNat ((localsBytes es).length + gap.length) })) fun _ =>
      io s1 (M.writeChunks (locatorChunks {
        diskWithCd := 0, eocd64Offset := UInt64.ofNat ((localsBytes es).length + gap.length + (centralBytes es (localOffsets es 0)).length), disks := 1 })) fun _ =>
      pure (.ok (), s1)
    else pure (.ok (), s1)) none d4 (fun rs d' => rs = (.ok (), s1) ∧
      LiveAt d' d'.pos (localsBytes es ++ gap ++ centralBytes es (localOffsets es 0) ++
        (layoutOf es gap s.comment []).end64) r) := by
    have hl4' := hl4.castPos hp4.symm
    rw [← layoutOf_needs64 es gap s.comment []]
    split
    · next h64 =>
      apply WSat.io_none (MSat.writeChunks_append _ none hl4'); intro _ d5 ⟨hp5, hl5⟩
      apply WSat.io_none (MSat.writeChunks_append _ none (hl5.castPos hp5.symm)); intro _ d6 ⟨hp6, hl6⟩
      apply WSat.pure
      refine ⟨rfl, (hl6.castPos hp6.symm).cast ?_⟩
      rw [← end64_eq_spec es gap s.comment [] h64, end64Model, List.append_assoc _ (ser _) (ser _)]
    · next h64 =>
      apply WSat.pure
      refine ⟨rfl, hl4'.cast ?_⟩
      unfold Layout.end64
      rw [if_neg h64, List.append_nil]
  apply WSat.mono hz
  intro ⟨r5, s5⟩ d5 ⟨h5, hl5⟩
  cases h5
  dsimp only
  apply WSat.io_none (MSat.writeChunks_append _ none hl5); intro _ d7 ⟨hp7, hl7⟩
  apply WSat.pure
  refine ⟨rfl, hcl.inner, (hl7.castPos hp7.symm).cast ?_⟩
  have := eocd_eq_spec es gap s.comment []
  rw [eocdModel] at this
  rw [hcm, this]
  simp only [build, layoutOf_cdBytes]
  simp only [layoutOf, List.nil_append, List.append_nil]

end ZipVerif.WL
