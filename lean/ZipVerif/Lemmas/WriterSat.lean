import ZipVerif.Model.Writer
/-
A small Hoare-style toolkit over the I/O monad `M` and the writer steps `Step`, and the writer
invariant `Inv` under which every panic site of `Model/Writer.lean` is unreachable (C12).

* `MSat x fa d Q` — device-level action `x`, started on device `d` with injected-fault index `fa`:
  it returns a value satisfying `Q`, or a device error (only possible when a fault is injected:
  `fa ≠ none`), or it panics — and a panic is only admitted on a device whose position has left the
  `u64` range (`Huge`), a state no Rust `Seek` implementation can be in.
* `Sat x fa d Q` — the same for a writer step (`M (Except ZErr β × WState)`): steps never produce a
  device-level error (they convert them with `io`), so that case is `False`.

All lemmas are stated for EVERY fault index and EVERY device.
-/

namespace ZipVerif.Model
open ZipVerif

/-- The device position is outside the `u64` range: unreachable for any Rust `Seek` implementation
(`stream_position()` returns a `u64`). -/
def Huge (d : Dev) : Prop := 18446744073709551616 ≤ d.pos

def MSat {α} (x : M α) (fa : Option Nat) (d : Dev) (Q : α → Dev → Prop) : Prop :=
  match x fa d with
  | (.ok a, d') => Q a d'
  | (.err _, _) => fa ≠ none
  | (.panic _, d') => Huge d'

def Sat {β} (x : M (Except ZErr β × WState)) (fa : Option Nat) (d : Dev)
    (Q : Except ZErr β × WState → Dev → Prop) : Prop :=
  match x fa d with
  | (.ok r, d') => Q r d'
  | (.err _, _) => False
  | (.panic _, d') => Huge d'

/-! ### Structural rules -/

theorem M.bind_apply {α β} (x : M α) (f : α → M β) (fa : Option Nat) (d : Dev) :
    (x >>= f) fa d = match x fa d with
      | (.ok a, d') => f a fa d'
      | (.err e, d') => (.err e, d')
      | (.panic s, d') => (.panic s, d') := rfl

theorem M.pure_apply {α} (a : α) (fa : Option Nat) (d : Dev) : (Pure.pure a : M α) fa d = (.ok a, d) := rfl

theorem M.attempt_apply {α} (m : M α) (fa : Option Nat) (d : Dev) :
    M.attempt m fa d = match m fa d with
      | (.ok a, d') => (.ok (.ok a), d')
      | (.err e, d') => (.ok (.error e), d')
      | (.panic s, d') => (.panic s, d') := rfl

theorem MSat.mono {α} {x : M α} {fa d} {Q Q' : α → Dev → Prop}
    (h : MSat x fa d Q) (hq : ∀ a d', Q a d' → Q' a d') : MSat x fa d Q' := by
  unfold MSat at *
  split <;> simp_all

theorem Sat.mono {β} {x : M (Except ZErr β × WState)} {fa d} {Q Q' : Except ZErr β × WState → Dev → Prop}
    (h : Sat x fa d Q) (hq : ∀ r d', Q r d' → Q' r d') : Sat x fa d Q' := by
  unfold Sat at *
  split <;> simp_all

theorem Sat.pure {β} {r : Except ZErr β × WState} {fa d} {Q : Except ZErr β × WState → Dev → Prop}
    (h : Q r d) : Sat (pure r) fa d Q := h

theorem Sat.bind {α β} {x : M (Except ZErr α × WState)} {f : Except ZErr α × WState → M (Except ZErr β × WState)}
    {fa d} {Q : Except ZErr β × WState → Dev → Prop}
    (h : Sat x fa d (fun r d' => Sat (f r) fa d' Q)) : Sat (x >>= f) fa d Q := by
  unfold Sat at h ⊢
  rw [M.bind_apply]
  split at h
  · next a d' he => rw [he]; exact h
  · exact h.elim
  · next s d' he => rw [he]; exact h

/-- A panic branch: admissible only on a `Huge` device (normally closed by contradiction). -/
theorem Sat.panic {β} {site : String} {fa d} {Q : Except ZErr β × WState → Dev → Prop}
    (h : Huge d) : Sat (M.panic site : M (Except ZErr β × WState)) fa d Q := h

theorem Sat.of_eq {β} {x y : M (Except ZErr β × WState)} {fa d} {Q} (e : x = y) (h : Sat y fa d Q) :
    Sat x fa d Q := e ▸ h

/-- `io s m k`: a device action whose failure becomes the call's error with state `s`. -/
theorem Sat.io {α β} {s : WState} {m : M α} {k : α → M (Except ZErr β × WState)} {fa d}
    {Q : Except ZErr β × WState → Dev → Prop}
    (hm : MSat m fa d (fun a d' => Sat (k a) fa d' Q))
    (he : fa ≠ none → ∀ e d', Q (.error e, s) d') : Sat (Model.io s m k) fa d Q := by
  unfold MSat at hm
  unfold Sat Model.io
  rw [M.bind_apply, M.attempt_apply]
  split at hm
  · next a d' h => exact hm
  · next e d' h => exact he hm e d'
  · next s' d' h => exact hm

/-! ### Device primitives never panic; their effect on the position -/

theorem MSat.prim {α} {f : Dev → Out α × Dev} {fa d} {Q : α → Dev → Prop}
    (h : ∀ d1, d1.pos = d.pos → match f d1 with
      | (.ok a, d') => Q a d'
      | (.err _, _) => False
      | (.panic _, _) => False) : MSat (M.prim f) fa d Q := by
  unfold MSat M.prim
  by_cases hf : fa = some d.calls
  · simp only [hf, if_true]; exact fun h => by cases h
  · simp only [hf, if_false]
    have := h { d with calls := d.calls + 1 } rfl
    split at this <;> simp_all

theorem MSat.write (bs : Bytes) (fa d) :
    MSat (M.write bs) fa d (fun _ d' => d'.pos = d.pos + bs.length) := by
  apply MSat.prim
  intro d1 h1
  simp only [h1]

theorem MSat.flush (fa d) : MSat M.flush fa d (fun _ d' => d'.pos = d.pos) := by
  apply MSat.prim
  intro d1 h1
  simp only [h1]

theorem MSat.seekStart (n : Nat) (fa d) :
    MSat (M.seek (.start n)) fa d (fun r d' => r = n ∧ d'.pos = n) := by
  apply MSat.prim
  intro d1 _
  have : ¬ ((n : Int) < 0) := by omega
  simp only [this, if_false, Int.toNat_natCast, and_self]

theorem MSat.streamPosition (fa d) :
    MSat M.streamPosition fa d (fun r d' => r = d.pos ∧ d'.pos = d.pos) := by
  apply MSat.prim
  intro d1 h1
  have : ¬ ((d1.pos : Int) + 0 < 0) := by omega
  simp only [Int.add_zero, Int.toNat_natCast, h1, and_self]

theorem MSat.pure {α} {a : α} {fa d} {Q : α → Dev → Prop} (h : Q a d) :
    MSat (Pure.pure a : M α) fa d Q := h

theorem MSat.bind {α β} {x : M α} {f : α → M β} {fa d} {Q : β → Dev → Prop}
    (h : MSat x fa d (fun a d' => MSat (f a) fa d' Q)) : MSat (x >>= f) fa d Q := by
  unfold MSat at h ⊢
  rw [M.bind_apply]
  split at h
  · next a d' he => exact h
  · next e d' he => exact h
  · next s d' he => exact h

theorem MSat.writeAll (bs : Bytes) (fa d) :
    MSat (M.writeAll bs) fa d (fun _ d' => d'.pos = d.pos + bs.length) := by
  unfold M.writeAll
  split
  · next h =>
    apply MSat.pure
    have : bs = [] := List.isEmpty_iff.mp h
    simp [this]
  · apply MSat.bind
    apply MSat.mono (MSat.write bs fa d)
    intro _ d' h
    exact MSat.pure h

theorem MSat.writeChunks (cs : List Bytes) (fa d) :
    MSat (M.writeChunks cs) fa d (fun _ d' => d'.pos = d.pos + cs.flatten.length) := by
  induction cs generalizing d with
  | nil => exact MSat.pure (by simp)
  | cons c cs ih =>
    unfold M.writeChunks
    apply MSat.bind
    apply MSat.mono (MSat.writeAll c fa d)
    intro _ d' h
    apply MSat.mono (ih d')
    intro _ d'' h'
    simp only [List.flatten_cons, List.length_append]
    omega

/-! ### `io` with each primitive (the forms that occur in `Model/Writer.lean`) -/

section
variable {β : Type} {s : WState} {fa : Option Nat} {d : Dev}
  {Q : Except ZErr β × WState → Dev → Prop}

theorem Sat.io_writeAll {bs : Bytes} {k : Unit → M (Except ZErr β × WState)}
    (hk : ∀ d', d'.pos = d.pos + bs.length → Sat (k ()) fa d' Q)
    (he : fa ≠ none → ∀ e d', Q (.error e, s) d') : Sat (Model.io s (M.writeAll bs) k) fa d Q :=
  Sat.io (MSat.mono (MSat.writeAll bs fa d) fun _ d' h => hk d' h) he

theorem Sat.io_writeChunks {cs : List Bytes} {k : Unit → M (Except ZErr β × WState)}
    (hk : ∀ d', d'.pos = d.pos + cs.flatten.length → Sat (k ()) fa d' Q)
    (he : fa ≠ none → ∀ e d', Q (.error e, s) d') : Sat (Model.io s (M.writeChunks cs) k) fa d Q :=
  Sat.io (MSat.mono (MSat.writeChunks cs fa d) fun _ d' h => hk d' h) he

theorem Sat.io_flush {k : Unit → M (Except ZErr β × WState)}
    (hk : ∀ d', d'.pos = d.pos → Sat (k ()) fa d' Q)
    (he : fa ≠ none → ∀ e d', Q (.error e, s) d') : Sat (Model.io s M.flush k) fa d Q :=
  Sat.io (MSat.mono (MSat.flush fa d) fun _ d' h => hk d' h) he

theorem Sat.io_seekStart {n : Nat} {k : Nat → M (Except ZErr β × WState)}
    (hk : ∀ d', d'.pos = n → Sat (k n) fa d' Q)
    (he : fa ≠ none → ∀ e d', Q (.error e, s) d') : Sat (Model.io s (M.seek (.start n)) k) fa d Q :=
  Sat.io (MSat.mono (MSat.seekStart n fa d) fun _ d' h => h.1 ▸ hk d' h.2) he

theorem Sat.io_streamPosition {k : Nat → M (Except ZErr β × WState)}
    (hk : ∀ d', d'.pos = d.pos → Sat (k d.pos) fa d' Q)
    (he : fa ≠ none → ∀ e d', Q (.error e, s) d') : Sat (Model.io s M.streamPosition k) fa d Q :=
  Sat.io (MSat.mono (MSat.streamPosition fa d) fun _ d' h => h.1 ▸ hk d' h.2) he

/-- `emit`: to the encryption buffer, or to the sink. -/
theorem Sat.emit {enc : Option EncState} {bs : Bytes}
    {k : Option EncState → M (Except ZErr β × WState)}
    (hsome : ∀ e, enc = some e → Sat (k (some { e with buffer := e.buffer ++ bs })) fa d Q)
    (hnone : enc = none → ∀ d', d'.pos = d.pos + bs.length → Sat (k none) fa d' Q)
    (he : fa ≠ none → ∀ e d', Q (.error e, s) d') : Sat (emit s enc bs k) fa d Q := by
  unfold Model.emit
  cases enc with
  | some e => exact hsome e rfl
  | none => exact Sat.io_writeAll (hnone rfl) he

/-- `emitFinish` (M2): as `emit`, with the destructor's retry on the error path. -/
theorem Sat.emitFinish {m : Method} {enc : Option EncState} {bs : Bytes}
    {k : Option EncState → M (Except ZErr β × WState)}
    (hsome : ∀ e, enc = some e → Sat (k (some { e with buffer := e.buffer ++ bs })) fa d Q)
    (hnone : enc = none → ∀ d', d'.pos = d.pos + bs.length → Sat (k none) fa d' Q)
    (he : fa ≠ none → ∀ e d', Q (.error e, s) d') : Sat (emitFinish s m enc bs k) fa d Q := by
  unfold Model.emitFinish
  cases enc with
  | some e => exact hsome e rfl
  | none =>
    dsimp only
    have h1 := MSat.writeAll bs fa d
    unfold MSat at h1
    unfold Sat
    rw [M.bind_apply, M.attempt_apply]
    cases heq : M.writeAll bs fa d with
    | mk o d' =>
      rw [heq] at h1
      cases o with
      | ok a =>
        dsimp only at h1 ⊢
        have := hnone rfl d' h1
        unfold Sat at this
        exact this
      | panic s' => exact h1
      | err e =>
        dsimp only at h1 ⊢
        by_cases hm : (m == .deflated || m == .bzip2) = true
        · rw [if_pos hm, M.bind_apply, M.attempt_apply]
          have h2 := MSat.writeAll bs fa d'
          unfold MSat at h2
          cases heq2 : M.writeAll bs fa d' with
          | mk o2 d2 =>
            rw [heq2] at h2
            cases o2 with
            | ok a2 => exact he h1 e d2
            | err e2 => exact he h1 e d2
            | panic s2 => exact h2
        · rw [if_neg hm]
          exact he h1 e d'

end

/-- **On a fault-free sink `emitFinish` is `emit`** (the retry only exists on the error path). -/
theorem emitFinish_none {β} (s : WState) (m : Method) (enc : Option EncState) (bs : Bytes)
    (k : Option EncState → M (Except ZErr β × WState)) (d : Dev) :
    emitFinish s m enc bs k none d = emit s enc bs k none d := by
  unfold emitFinish emit
  cases enc with
  | some e => rfl
  | none =>
    dsimp only
    unfold Model.io
    rw [M.bind_apply, M.bind_apply, M.attempt_apply]
    have h1 := MSat.writeAll bs none d
    unfold MSat at h1
    split at h1
    · rfl
    · exact absurd rfl h1
    · rfl

/-! ### `setLast` -/

theorem setLast_eq (files : List FileData) (f : FileData) (h : files ≠ []) :
    setLast files f = files.dropLast ++ [f] := by
  unfold setLast
  have hr : files.reverse ≠ [] := by simpa using h
  cases hrev : files.reverse with
  | nil => exact absurd hrev hr
  | cons x rest =>
    have : files = rest.reverse ++ [x] := by
      have := congrArg List.reverse hrev
      simpa using this
    subst this
    simp

theorem setLast_nil (f : FileData) : setLast [] f = [] := rfl

theorem setLast_ne_nil {files : List FileData} {f : FileData} (h : files ≠ []) : setLast files f ≠ [] := by
  rw [setLast_eq files f h]; simp

theorem getLast?_setLast {files : List FileData} {f : FileData} (h : files ≠ []) :
    (setLast files f).getLast? = some f := by
  rw [setLast_eq files f h]; simp

theorem mem_setLast {files : List FileData} {f g : FileData} (h : g ∈ setLast files f) : g = f ∨ g ∈ files := by
  by_cases hn : files = []
  · subst hn; simp [setLast_nil] at h
  · rw [setLast_eq files f hn] at h
    rcases List.mem_append.mp h with h | h
    · exact Or.inr (List.dropLast_subset _ h)
    · left; simpa using h

theorem ne_nil_of_getLast? {files : List FileData} {f : FileData} (h : files.getLast? = some f) : files ≠ [] := by
  intro hn; subst hn; simp at h

theorem mem_of_getLast? {files : List FileData} {f : FileData} (h : files.getLast? = some f) : f ∈ files :=
  List.mem_of_getLast? h

/-! ### The writer invariant -/

def Inner.enc? : Inner → Option EncState
  | .closed => none
  | .storer e => e
  | .compressor _ _ e _ => e

/-- `ZipCryptoWriter::finish` indexes `buffer[11]`: the buffer always holds the 12-byte header. -/
def EncOk (enc : Option EncState) : Prop := ∀ e, enc = some e → 12 ≤ e.buffer.length

/-- A `Compressor` variant is never the `Stored` method (Rust: the variants are Deflater/Bzip2/Zstd). -/
def InnerOk : Inner → Prop
  | .closed => True
  | .storer enc => EncOk enc
  | .compressor m _ enc _ => m ≠ .stored ∧ EncOk enc

theorem EncOk.append {e : EncState} (h : EncOk (some e)) (bs : Bytes) :
    EncOk (some { e with buffer := e.buffer ++ bs }) := by
  intro e' he
  cases he
  have := h e rfl
  simp only [List.length_append]
  omega

/-- `datepart`'s checked `year - 1980` does not underflow. -/
def TimeOk (t : DateTime) : Prop := ¬ t.year < 1980

/-- The invariant of `ZipWriter` that makes every panic site unreachable. -/
structure Inv (s : WState) : Prop where
  /-- extra-field mode refers to the last entry (`files.last_mut().unwrap()`) -/
  extraFiles : s.writingToExtraField = true → s.files ≠ []
  /-- so does file mode -/
  fileFiles : s.writingToFile = true → s.files ≠ []
  /-- the central-only flag is only ever set together with the extra-field flag -/
  centralExtra : s.centralOnly = true → s.writingToExtraField = true
  /-- in local extra-field mode `get_plain` is called: the writer is a plain storer, or already
  closed (then `end_extra_data` refuses with BrokenPipe — the D11 repair) -/
  extraPlain : s.writingToExtraField = true → s.centralOnly = false →
    s.inner = .storer none ∨ s.inner = .closed
  innerOk : InnerOk s.inner
  /-- every recorded entry has a timestamp `datepart` accepts -/
  times : ∀ f ∈ s.files, TimeOk f.time

theorem inv_init : Inv WState.init :=
  ⟨by simp [WState.init], by simp [WState.init], by simp [WState.init], by simp [WState.init],
   by simp [WState.init, InnerOk, EncOk], by simp [WState.init]⟩

/-! ### `switch_to` -/

theorem switchTo_sat (ext : WExt) (c : Method) (l : Option Int) (s : WState) (fa : Option Nat) (d : Dev) :
    Sat (switchTo ext c l s) fa d (fun rs d' => ∃ i,
      rs.2 = { s with inner := i } ∧ (InnerOk s.inner → InnerOk i) ∧
      (s.inner.enc? = none → i.enc? = none) ∧
      (∀ enc, s.inner = .storer enc → d'.pos = d.pos) ∧
      (∀ e, rs.1 = .error e → i = .closed) ∧
      (rs.1 = .ok () → i.currentCompression = some c)) := by
  unfold switchTo
  obtain ⟨inner, files, sS, sB, sH, wF, wE, cO, wR, cm⟩ := s
  cases inner with
  | closed =>
    simp only [Inner.currentCompression]
    apply Sat.pure
    exact ⟨.closed, by simp⟩
  | storer enc =>
    simp only [Inner.currentCompression]
    split
    · apply Sat.pure
      exact ⟨.storer enc, by simp_all [Inner.currentCompression]⟩
    · cases c <;> simp only [levelRange]
      all_goals try (split <;> apply Sat.pure <;> refine ⟨_, rfl, ?_⟩ <;> simp_all [InnerOk, Inner.enc?, Inner.currentCompression])
      all_goals try (apply Sat.pure ; refine ⟨_, rfl, ?_⟩ ; simp_all [InnerOk, Inner.enc?])
  | compressor m lv enc pending =>
    simp only [Inner.currentCompression]
    split
    · apply Sat.pure
      exact ⟨.compressor m lv enc pending, by simp_all [Inner.currentCompression]⟩
    · apply Sat.emitFinish
      · intro e he
        subst he
        cases c <;> simp only [levelRange]
        all_goals try (split <;> apply Sat.pure <;> refine ⟨_, rfl, ?_⟩ <;> simp (config := {contextual := true}) [InnerOk, Inner.enc?, Inner.currentCompression, EncOk.append])
        all_goals try (apply Sat.pure ; refine ⟨_, rfl, ?_⟩ ; simp (config := {contextual := true}) [InnerOk, Inner.enc?])
      · intro he d' _
        subst he
        cases c <;> simp only [levelRange]
        all_goals try (split <;> apply Sat.pure <;> refine ⟨_, rfl, ?_⟩ <;> simp_all [InnerOk, Inner.enc?, Inner.currentCompression, EncOk])
        all_goals try (apply Sat.pure ; refine ⟨_, rfl, ?_⟩ ; simp_all [InnerOk, Inner.enc?])
      · intro _ e d'
        exact ⟨.closed, by simp [InnerOk, Inner.enc?]⟩

/-! ### `end_extra_data` -/

/-- Postcondition shape: the invariant always; `P` on success. -/
def Post {β} (P : β → WState → Dev → Prop) : Except ZErr β × WState → Dev → Prop :=
  fun rs d' => Inv rs.2 ∧ ∀ v, rs.1 = .ok v → P v rs.2 d'

theorem Post.error {β} {P : β → WState → Dev → Prop} {e : ZErr} {s : WState} {d : Dev} (h : Inv s) :
    Post P (.error e, s) d := ⟨h, fun _ h => by cases h⟩

theorem Post.ok {β} {P : β → WState → Dev → Prop} {v : β} {s : WState} {d : Dev} (h : Inv s) (hp : P v s d) :
    Post P (.ok v, s) d := ⟨h, fun _ h => by cases h; exact hp⟩

theorem validate_len {f : FileData} (h : validateExtraData f = .ok ()) :
    f.extraField.length + (if f.largeFile then 20 else 0) ≤ 65535 := by
  unfold validateExtraData at h
  by_cases hc : f.extraField.length + (if f.largeFile then 20 else 0) > 65535
  · rw [if_pos hc] at h; cases h
  · omega

theorem localExtraLen_ok {f : FileData} (h : f.extraField.length + (if f.largeFile then 20 else 0) ≤ 65535) :
    ∃ el, localExtraLen f = .ok el := by
  unfold localExtraLen
  have : (if f.largeFile then 20 else 0) + f.extraField.length % 65536 < 65536 := by
    have : f.extraField.length % 65536 = f.extraField.length := Nat.mod_eq_of_lt (by omega)
    omega
  simp only [this, if_true]
  exact ⟨_, rfl⟩

def EndExtraPost (s : WState) (d : Dev) (ds : Nat) (s' : WState) (d' : Dev) : Prop :=
  s'.writingToExtraField = false ∧ s'.centralOnly = false ∧ s'.writingToFile = s.writingToFile ∧
  ∃ f, s.files.getLast? = some f ∧
    ((s.centralOnly = true ∧ ds = f.dataStart.toNat ∧ s'.files = s.files ∧ s'.inner = s.inner ∧
        d'.pos = d.pos) ∨
     (s.centralOnly = false ∧ ds = f.dataStart.toNat + f.extraField.length ∧ d'.pos = ds ∧
       s'.files = setLast s.files { f with dataStart := UInt64.ofNat ds }))

theorem endExtraData_sat (ext : WExt) (s : WState) (hI : Inv s) (fa : Option Nat) (d : Dev) :
    Sat (endExtraData ext s) fa d (Post (EndExtraPost s d)) := by
  unfold endExtraData
  split
  · exact Sat.pure (Post.error hI)
  next hwe =>
  simp only [Bool.not_eq_true, Bool.not_eq_eq_eq_not, Bool.not_true, Bool.not_false] at hwe
  split
  · exact Sat.pure (Post.error hI)
  next hcl =>
  have hwe' : s.writingToExtraField = true := by simpa using hwe
  have hne := hI.extraFiles hwe'
  split
  · next hl => exact absurd (List.getLast?_eq_none_iff.mp hl) hne
  next file hfile =>
  split
  · exact Sat.pure (Post.error hI)
  next hval =>
  split
  · next hco =>
    have hco' : s.centralOnly = false := by simpa using hco
    have hin : s.inner = .storer none := by
      rcases hI.extraPlain hwe' hco' with h | h
      · exact h
      · rw [h] at hcl; simp [Inner.isClosed] at hcl
    split
    · next hin' =>
      apply Sat.io_writeAll _ (fun h e d' => Post.error hI)
      intro d1 _
      obtain ⟨el, hel⟩ := localExtraLen_ok (f := { file with dataStart := UInt64.ofNat (file.dataStart.toNat + file.extraField.length) }) (validate_len hval)
      simp only [hel]
      have hI1 : Inv { s with statsStart := file.dataStart.toNat + file.extraField.length, files := setLast s.files ({ file with dataStart := UInt64.ofNat (file.dataStart.toNat + file.extraField.length) }) } := by
        refine ⟨fun _ => setLast_ne_nil hne, fun _ => setLast_ne_nil hne, hI.centralExtra, hI.extraPlain, hI.innerOk, ?_⟩
        intro g hg
        rcases mem_setLast hg with h | h
        · subst h; exact hI.times file (mem_of_getLast? hfile)
        · exact hI.times _ h
      apply Sat.io_seekStart _ (fun h e d' => Post.error hI1)
      intro d2 _
      apply Sat.io_writeAll _ (fun h e d' => Post.error hI1)
      intro d3 _
      apply Sat.io_seekStart _ (fun h e d' => Post.error hI1)
      intro d4 hd4
      apply Sat.bind
      apply Sat.mono (switchTo_sat ext _ _ _ fa d4)
      intro ⟨r, s2⟩ d5 ⟨i, hs2, hio, henc, hpos, herr, hok⟩
      dsimp only at hs2 hio henc hpos herr hok
      subst hs2
      cases r with
      | error e =>
        dsimp only
        refine Sat.pure (Post.error ?_)
        exact ⟨hI1.extraFiles, hI1.fileFiles, hI1.centralExtra, fun _ _ => Or.inr (herr e rfl),
          hio hI1.innerOk, hI1.times⟩
      | ok u =>
        dsimp only
        apply Sat.pure
        apply Post.ok
        · exact ⟨(fun h => nomatch h), hI1.fileFiles, (fun h => nomatch h), (fun h => nomatch h),
            hio hI1.innerOk, hI1.times⟩
        · refine ⟨rfl, rfl, rfl, file, hfile, Or.inr ⟨hco', rfl, ?_, rfl⟩⟩
          rw [hpos none hin, hd4]
    · next hin' => exact absurd hin hin'
  · next hco =>
    have hco' : s.centralOnly = true := by simpa using hco
    apply Sat.pure
    apply Post.ok
    · exact ⟨(fun h => nomatch h), hI.fileFiles, (fun h => nomatch h), (fun h => nomatch h),
        hI.innerOk, hI.times⟩
    · exact ⟨rfl, rfl, rfl, file, hfile, Or.inl ⟨hco', rfl, rfl, rfl, rfl⟩⟩

/-! ### `finish_file` -/

theorem Sat.updateLocalHeader {β} {s : WState} {file : FileData} {k : Unit → M (Except ZErr β × WState)}
    {fa : Option Nat} {d : Dev} {Q : Except ZErr β × WState → Dev → Prop}
    (hk : ∀ d', Sat (k ()) fa d' Q)
    (he : fa ≠ none → ∀ e d', Q (.error e, s) d')
    (hbig : file.largeFile = false → file.compressedSize > ZIP64_BYTES_THR → ∀ d', Q (.error (.io .other), s) d') :
    Sat (Model.updateLocalHeader s file k) fa d Q := by
  unfold Model.updateLocalHeader
  split
  · next hg =>
    simp only [Bool.and_eq_true, Bool.not_eq_true', decide_eq_true_eq] at hg
    exact Sat.pure (hbig hg.1 hg.2 d)
  apply Sat.io_seekStart _ he
  intro d1 _
  apply Sat.io_writeAll _ he
  intro d2 _
  split
  · apply Sat.io_seekStart _ he
    intro d3 _
    apply Sat.io_writeAll _ he
    intro d4 _
    apply Sat.io_writeAll _ he
    intro d5 _
    exact hk d5
  · apply Sat.io_writeAll _ he
    intro d3 _
    apply Sat.io_writeAll _ he
    intro d4 _
    exact hk d4

/-- The tail of `finish_file` after the writer is a plain storer (copy of the local function in
`finishFile`; `finishFile_afterEnc` below checks by `rfl`-style `change` that it is the same term). -/
def afterEnc (s : WState) : M (Except ZErr Unit × WState) :=
  match s.inner with
  | .storer none =>
    if !s.writingRaw then
      match s.files.getLast? with
      | none => pure (.ok (), s)
      | some file =>
        let file := { file with crc32 := hasherFinalize s.statsHasher,
                                uncompressedSize := UInt64.ofNat s.statsBytes }
        let s := { s with files := setLast s.files file }
        io s M.streamPosition fun fileEnd =>
        if fileEnd < s.statsStart then pure (.error (.io .other), s) else
        let file := { file with compressedSize := UInt64.ofNat (fileEnd - s.statsStart) }
        let s := { s with files := setLast s.files file }
        updateLocalHeader s file fun _ =>
        io s (M.seek (.start fileEnd)) fun _ =>
        pure (.ok (), { s with writingToFile := false, writingRaw := false })
    else pure (.ok (), { s with writingToFile := false, writingRaw := false })
  | _ => M.panic "write.rs:1027 get_plain"

def FinishPost (_ : Unit) (s' : WState) (_ : Dev) : Prop :=
  s'.inner = .storer none ∧ s'.writingToExtraField = false ∧ s'.centralOnly = false ∧
  s'.writingToFile = false ∧ s'.writingRaw = false

theorem Inv.setLast_same_time {s : WState} (hI : Inv s) {f g : FileData} (hf : s.files.getLast? = some f)
    (hg : g.time = f.time) : Inv { s with files := setLast s.files g } := by
  have hne := ne_nil_of_getLast? hf
  refine ⟨fun _ => setLast_ne_nil hne, fun _ => setLast_ne_nil hne, hI.centralExtra, hI.extraPlain, hI.innerOk, ?_⟩
  intro x hx
  rcases mem_setLast hx with h | h
  · subst h; rw [hg]; exact hI.times f (mem_of_getLast? hf)
  · exact hI.times _ h

theorem afterEnc_sat (s : WState) (hI : Inv s) (hin : s.inner = .storer none)
    (hwe : s.writingToExtraField = false) (fa : Option Nat) (d : Dev) :
    Sat (afterEnc s) fa d (Post FinishPost) := by
  have hco : s.centralOnly = false := by
    cases h : s.centralOnly
    · rfl
    · have := hI.centralExtra h; rw [hwe] at this; cases this
  unfold afterEnc
  split
  · split
    · split
      · next hl =>
        apply Sat.pure
        apply Post.ok hI
        refine ⟨hin, hwe, hco, ?_, by simp_all⟩
        cases h : s.writingToFile
        · rfl
        · exact absurd (List.getLast?_eq_none_iff.mp hl) (hI.fileFiles h)
      · next file hfile =>
        have hne := ne_nil_of_getLast? hfile
        have hI1 := hI.setLast_same_time hfile (g := { file with crc32 := hasherFinalize s.statsHasher, uncompressedSize := UInt64.ofNat s.statsBytes }) rfl
        dsimp only
        apply Sat.io_streamPosition _ (fun _ e d' => Post.error hI1)
        intro d1 _
        split
        · exact Sat.pure (Post.error hI1)
        · have hI2 := hI1.setLast_same_time (getLast?_setLast hne) (g := { file with crc32 := hasherFinalize s.statsHasher, uncompressedSize := UInt64.ofNat s.statsBytes, compressedSize := UInt64.ofNat (d.pos - s.statsStart) }) rfl
          apply Sat.updateLocalHeader _ (fun _ e d' => Post.error hI2) (fun _ _ d' => Post.error hI2)
          intro d2
          apply Sat.io_seekStart _ (fun _ e d' => Post.error hI2)
          intro d3 _
          apply Sat.pure
          apply Post.ok
          · exact ⟨hI2.extraFiles, (fun h => nomatch h), hI2.centralExtra, hI2.extraPlain, hI2.innerOk, hI2.times⟩
          · exact ⟨hin, hwe, hco, rfl, rfl⟩
    · apply Sat.pure
      apply Post.ok
      · exact ⟨hI.extraFiles, (fun h => nomatch h), hI.centralExtra, hI.extraPlain, hI.innerOk, hI.times⟩
      · exact ⟨hin, hwe, hco, rfl, rfl⟩
  · next h => exact absurd hin (h)

theorem finishFile_sat (ext : WExt) (s : WState) (hI : Inv s) (fa : Option Nat) (d : Dev) :
    Sat (finishFile ext s) fa d (Post FinishPost) := by
  unfold finishFile
  apply Sat.bind
  have step1 : Sat (if s.writingToExtraField then do
      let (r, s') ← endExtraData ext s
      pure (r.map fun _ => (), s')
    else pure (.ok (), s)) fa d (fun rs _ => Inv rs.2 ∧ (rs.1 = .ok () → rs.2.writingToExtraField = false)) := by
    split
    · apply Sat.bind
      apply Sat.mono (endExtraData_sat ext s hI fa d)
      intro ⟨r, s'⟩ d' ⟨h1, h2⟩
      apply Sat.pure
      refine ⟨h1, ?_⟩
      cases r with
      | error e => intro h; cases h
      | ok v => intro _; exact (h2 v rfl).1
    · next h => exact Sat.pure ⟨hI, fun _ => by simpa using h⟩
  apply Sat.mono step1
  intro ⟨r0, s1⟩ d1 ⟨hI1, hwe1⟩
  dsimp only at hI1 hwe1 ⊢
  cases r0 with
  | error e => exact Sat.pure (Post.error hI1)
  | ok u =>
    dsimp only
    apply Sat.bind
    apply Sat.mono (switchTo_sat ext .stored none s1 fa d1)
    intro ⟨r1, s2⟩ d2 ⟨i, hs2, hio, henc, hpos, herr, hok⟩
    dsimp only at hs2 hio henc hpos herr hok ⊢
    subst hs2
    have hwe := hwe1 rfl
    have hI2 : Inv { s1 with inner := i } :=
      ⟨hI1.extraFiles, hI1.fileFiles, hI1.centralExtra, (fun h => by rw [hwe] at h; cases h),
        hio hI1.innerOk, hI1.times⟩
    cases r1 with
    | error e => exact Sat.pure (Post.error hI2)
    | ok u =>
      dsimp only
      have hcc := hok rfl
      cases i with
      | closed => simp [Inner.currentCompression] at hcc
      | compressor m l enc p =>
        simp only [Inner.currentCompression, Option.some.injEq] at hcc
        exact absurd hcc hI2.innerOk.1
      | storer enc =>
        cases enc with
        | none =>
          exact afterEnc_sat { s1 with inner := .storer none } hI2 rfl hwe fa d2
        | some e =>
          dsimp only
          have h12 : 12 ≤ e.buffer.length := hI2.innerOk e rfl
          have : ¬ e.buffer.length < 12 := by omega
          simp only [this, if_false]
          have hIc : Inv { s1 with inner := .closed } :=
            ⟨hI1.extraFiles, hI1.fileFiles, hI1.centralExtra, (fun _ _ => Or.inr rfl), trivial, hI1.times⟩
          apply Sat.io_writeAll _ (fun _ e d' => Post.error hIc)
          intro d3 _
          apply Sat.io_flush _ (fun _ e d' => Post.error hIc)
          intro d4 _
          have hIn : Inv { s1 with inner := .storer none } :=
            ⟨hI1.extraFiles, hI1.fileFiles, hI1.centralExtra, (fun _ _ => Or.inl rfl), (fun _ h => nomatch h), hI1.times⟩
          exact afterEnc_sat { s1 with inner := .storer none } hIn rfl hwe fa d4

/-! ### `start_entry` -/

theorem datepartOut_ok {t : DateTime} (h : TimeOk t) : ∃ dp, datepartOut t = .ok dp := by
  unfold datepartOut DateTime.datepart
  unfold TimeOk at h
  simp only [h, if_false]
  exact ⟨_, rfl⟩

theorem localHeaderChunks_ok {f : FileData} (ht : TimeOk f.time)
    (hl : f.extraField.length + (if f.largeFile then 20 else 0) ≤ 65535) :
    ∃ c, localHeaderChunks f = .ok c := by
  obtain ⟨dp, hdp⟩ := datepartOut_ok ht
  obtain ⟨el, hel⟩ := localExtraLen_ok hl
  unfold localHeaderChunks
  rw [hdp, hel]
  exact ⟨_, rfl⟩

theorem localHeaderChunks_new {f : FileData} {r : Out (List Bytes)} (h : localHeaderChunks f = r)
    (ht : TimeOk f.time) (hx : f.extraField = []) : ∃ c, r = .ok c := by
  obtain ⟨c, hc⟩ := localHeaderChunks_ok ht (by rw [hx]; split <;> simp)
  exact ⟨c, by rw [← h, hc]⟩

theorem centralHeaderChunks_no_panic {f : FileData} (ht : TimeOk f.time) (site : String) :
    centralHeaderChunks f ≠ .panic site := by
  obtain ⟨dp, hdp⟩ := datepartOut_ok ht
  unfold centralHeaderChunks
  rw [hdp]
  dsimp only
  split <;> intro h <;> cases h

def StartEntryPost (o : FileOptions) (_ : Unit) (s' : WState) (d' : Dev) : Prop :=
  s'.writingToExtraField = false ∧ s'.centralOnly = false ∧ s'.writingToFile = false ∧
  s'.writingRaw = false ∧
  s'.inner = (match o.encryptWith with
    | some pw => .storer (some { pw, buffer := List.replicate 12 0 })
    | none => .storer none) ∧
  ∃ f, s'.files.getLast? = some f ∧ f.dataStart = UInt64.ofNat d'.pos ∧ f.extraField = []

theorem startEntry_sat (ext : WExt) (name : Bytes) (o : FileOptions) (raw : Option (UInt32 × UInt64 × UInt64))
    (ho : TimeOk o.time) (s : WState) (hI : Inv s) (fa : Option Nat) (d : Dev) :
    Sat (startEntry ext name o raw s) fa d (Post (StartEntryPost o)) := by
  unfold startEntry
  split
  · exact Sat.pure (Post.error hI)
  apply Sat.bind
  apply Sat.mono (finishFile_sat ext s hI fa d)
  intro ⟨r, s1⟩ d1 ⟨hI1, hp⟩
  dsimp only at hI1 hp ⊢
  cases r with
  | error e => exact Sat.pure (Post.error hI1)
  | ok u =>
    obtain ⟨hin, hwe, hco, hwf, hwr⟩ := hp () rfl
    dsimp only
    split
    · apply Sat.io_streamPosition _ (fun _ e d' => Post.error hI1)
      intro d2 hd2
      split
      · next site h => obtain ⟨c, hc⟩ := localHeaderChunks_new h ho rfl; cases hc
      · next e h => obtain ⟨c, hc⟩ := localHeaderChunks_new h ho rfl; cases hc
      next chunks hch =>
      apply Sat.io_writeChunks _ (fun _ e d' => Post.error hI1)
      intro d3 _
      apply Sat.io_streamPosition _ (fun _ e d' => Post.error hI1)
      intro d4 hd4
      have htimes : ∀ (f : FileData), f.time = o.time → ∀ g ∈ s1.files ++ [f], TimeOk g.time := by
        intro f hf g hg
        rcases List.mem_append.mp hg with h | h
        · exact hI1.times g h
        · have : g = f := by simpa using h
          rw [this, hf]; exact ho
      split
      · next pw hpw =>
        apply Sat.pure
        apply Post.ok
        · exact ⟨(fun _ => by simp), (fun _ => by simp), hI1.centralExtra, (fun h => by rw [hwe] at h; cases h),
            (by simp [InnerOk, EncOk]), htimes _ rfl⟩
        · refine ⟨hwe, hco, hwf, hwr, (by rw [hpw]), _, List.getLast?_concat .., ?_, rfl⟩
          rw [hd4]
      · next hpw =>
        apply Sat.pure
        apply Post.ok
        · exact ⟨(fun _ => by simp), (fun _ => by simp), hI1.centralExtra, (fun h => by rw [hwe] at h; cases h),
            hI1.innerOk, htimes _ rfl⟩
        · refine ⟨hwe, hco, hwf, hwr, (by rw [hpw]; exact hin), _, List.getLast?_concat .., ?_, rfl⟩
          rw [hd4]
    · next h => exact absurd hin h

/-! ### `write` -/

def WriteDataPost (s : WState) (_ : Unit) (s' : WState) (_ : Dev) : Prop :=
  s'.writingToExtraField = s.writingToExtraField ∧ s'.centralOnly = s.centralOnly ∧
  s'.writingToFile = s.writingToFile ∧ s'.writingRaw = s.writingRaw

theorem writeData_sat (buf : Bytes) (s : WState) (hI : Inv s) (fa : Option Nat) (d : Dev) :
    Sat (writeData buf s) fa d (Post (WriteDataPost s)) := by
  unfold writeData
  split
  · exact Sat.pure (Post.ok hI ⟨rfl, rfl, rfl, rfl⟩)
  split
  · exact Sat.pure (Post.error hI)
  next hwf =>
  have hwf' : s.writingToFile = true := by simpa using hwf
  have hne := hI.fileFiles hwf'
  have hacc : ∀ (i : Inner) (d0 : Dev), InnerOk i → s.writingToExtraField = false →
      Sat (match ({ s with inner := i, statsHasher := Spec.Crc32.updateBytes s.statsHasher buf, statsBytes := s.statsBytes + buf.length } : WState).files.getLast? with
        | none => M.panic "write.rs:244 files.last_mut().unwrap()"
        | some f =>
          if ({ s with inner := i, statsHasher := Spec.Crc32.updateBytes s.statsHasher buf, statsBytes := s.statsBytes + buf.length } : WState).statsBytes > 0xFFFFFFFF && !f.largeFile then
            pure (.error (.io .other), { ({ s with inner := i, statsHasher := Spec.Crc32.updateBytes s.statsHasher buf, statsBytes := s.statsBytes + buf.length } : WState) with inner := .closed })
          else pure (.ok (), ({ s with inner := i, statsHasher := Spec.Crc32.updateBytes s.statsHasher buf, statsBytes := s.statsBytes + buf.length } : WState))) fa d0 (Post (WriteDataPost s)) := by
    intro i d0 hi hwe
    dsimp only
    split
    · next hl => exact absurd (List.getLast?_eq_none_iff.mp hl) hne
    · split
      · apply Sat.pure
        apply Post.error
        exact ⟨hI.extraFiles, hI.fileFiles, hI.centralExtra, (fun _ _ => Or.inr rfl), trivial, hI.times⟩
      · apply Sat.pure
        apply Post.ok
        · exact ⟨hI.extraFiles, hI.fileFiles, hI.centralExtra, (fun h => by rw [hwe] at h; cases h), hi, hI.times⟩
        · exact ⟨rfl, rfl, rfl, rfl⟩
  split
  · exact Sat.pure (Post.error hI)
  next inner hinner =>
  split
  · next hwe =>
    split
    · next hl => exact absurd (List.getLast?_eq_none_iff.mp hl) hne
    · next f hf =>
      apply Sat.pure
      apply Post.ok
      · exact hI.setLast_same_time hf rfl
      · exact ⟨rfl, rfl, rfl, rfl⟩
  · next hwe =>
    have hwe' : s.writingToExtraField = false := by simpa using hwe
    have hio := hI.innerOk
    split
    · next hi =>
      apply Sat.io_writeAll _ (fun _ e d' => Post.error hI)
      intro d1 _
      have := hacc s.inner d1 hI.innerOk hwe'
      exact this
    · next e hi =>
      rw [hi] at hio
      exact hacc (.storer (some { e with buffer := e.buffer ++ buf })) d (EncOk.append hio buf) hwe'
    · next m l enc pending hi =>
      rw [hi] at hio
      exact hacc (.compressor m l enc (pending ++ buf)) d hio hwe'
    · exact Sat.pure (Post.error hI)

/-! ### the start calls -/

theorem startFile_sat (ext : WExt) (name : Bytes) (o : FileOptions) (ho : TimeOk o.time)
    (s : WState) (hI : Inv s) (fa : Option Nat) (d : Dev) :
    Sat (startFile ext name o s) fa d
      (Post fun _ s' _ => s'.writingToFile = true ∧ s'.writingToExtraField = false) := by
  unfold startFile
  apply Sat.bind
  apply Sat.mono (startEntry_sat ext name (withFilePerm o 0o644 0o100000) none ho s hI fa d)
  intro ⟨r, s1⟩ d1 ⟨hI1, hp⟩
  dsimp only at hI1 hp ⊢
  cases r with
  | error e => exact Sat.pure (Post.error hI1)
  | ok u =>
    obtain ⟨hwe, hco, hwf, hwr, hin, f, hf, hds, hx⟩ := hp () rfl
    dsimp only
    apply Sat.bind
    apply Sat.mono (switchTo_sat ext _ _ s1 fa d1)
    intro ⟨r2, s2⟩ d2 ⟨i, hs2, hio, henc, hpos, herr, hok⟩
    dsimp only at hs2 hio henc hpos herr hok ⊢
    subst hs2
    have hI2 : Inv { s1 with inner := i } :=
      ⟨hI1.extraFiles, hI1.fileFiles, hI1.centralExtra, (fun h => by rw [hwe] at h; cases h),
        hio hI1.innerOk, hI1.times⟩
    cases r2 with
    | error e => exact Sat.pure (Post.error hI2)
    | ok u =>
      apply Sat.pure
      apply Post.ok
      · exact ⟨hI1.extraFiles, (fun _ => ne_nil_of_getLast? hf), hI1.centralExtra,
          (fun h => by rw [hwe] at h; cases h), hio hI1.innerOk, hI1.times⟩
      · exact ⟨rfl, hwe⟩

def StartExtraPost (v : Nat) (s' : WState) (d' : Dev) : Prop :=
  s'.writingToExtraField = true ∧ s'.centralOnly = false ∧ s'.writingToFile = true ∧
  s'.inner = .storer none ∧
  ∃ f, s'.files.getLast? = some f ∧ v = f.dataStart.toNat ∧ f.extraField = [] ∧
    f.dataStart = UInt64.ofNat d'.pos

theorem startFileWithExtraData_sat (ext : WExt) (name : Bytes) (o : FileOptions) (ho : TimeOk o.time)
    (henc : o.encryptWith = none) (s : WState) (hI : Inv s) (fa : Option Nat) (d : Dev) :
    Sat (startFileWithExtraData ext name o s) fa d (Post StartExtraPost) := by
  unfold startFileWithExtraData
  apply Sat.bind
  apply Sat.mono (startEntry_sat ext name (withFilePerm o 0o644 0o100000) none ho s hI fa d)
  intro ⟨r, s1⟩ d1 ⟨hI1, hp⟩
  dsimp only at hI1 hp ⊢
  cases r with
  | error e => exact Sat.pure (Post.error hI1)
  | ok u =>
    obtain ⟨hwe, hco, hwf, hwr, hin, f, hf, hds, hx⟩ := hp () rfl
    have hin' : s1.inner = .storer none := by
      rw [hin]; simp only [withFilePerm, henc]
      done
    dsimp only
    rw [hf]
    dsimp only
    apply Sat.pure
    apply Post.ok
    · exact ⟨(fun _ => ne_nil_of_getLast? hf), (fun _ => ne_nil_of_getLast? hf),
        (fun _ => rfl), (fun _ _ => Or.inl hin'), hI1.innerOk, hI1.times⟩
    · exact ⟨rfl, hco, rfl, hin', f, hf, rfl, hx, hds⟩

def EndLocalPost (s : WState) (ds : Nat) (s' : WState) (d' : Dev) : Prop :=
  s'.writingToExtraField = true ∧ s'.centralOnly = true ∧ s'.writingToFile = s.writingToFile ∧
  (s.centralOnly = false → ∃ f, s.files.getLast? = some f ∧
    ds = f.dataStart.toNat + f.extraField.length ∧ d'.pos = ds ∧
    ∃ f', s'.files.getLast? = some f' ∧ f'.dataStart = UInt64.ofNat ds)

theorem endLocalStartCentral_sat (ext : WExt) (s : WState) (hI : Inv s) (fa : Option Nat) (d : Dev) :
    Sat (endLocalStartCentral ext s) fa d (Post (EndLocalPost s)) := by
  unfold endLocalStartCentral
  apply Sat.bind
  apply Sat.mono (endExtraData_sat ext s hI fa d)
  intro ⟨r, s1⟩ d1 ⟨hI1, hp⟩
  dsimp only at hI1 hp ⊢
  cases r with
  | error e => exact Sat.pure (Post.error hI1)
  | ok ds =>
    obtain ⟨hwe, hco, hwf, f, hf, hcase⟩ := hp ds rfl
    dsimp only
    have hne1 : s1.files ≠ [] := by
      rcases hcase with ⟨_, _, h, _⟩ | ⟨_, _, _, h⟩
      · rw [h]; exact ne_nil_of_getLast? hf
      · rw [h]; exact setLast_ne_nil (ne_nil_of_getLast? hf)
    split
    · next hl => exact absurd (List.getLast?_eq_none_iff.mp hl) hne1
    · next f1 hf1 =>
      apply Sat.pure
      apply Post.ok
      · have := hI1.setLast_same_time hf1 (g := { f1 with extraField := [] }) rfl
        exact ⟨(fun _ => setLast_ne_nil hne1), this.fileFiles, (fun _ => rfl), (fun _ h => nomatch h), this.innerOk, this.times⟩
      · refine ⟨rfl, rfl, hwf, ?_⟩
        intro hco0
        rcases hcase with ⟨h, _⟩ | ⟨_, hds, hpos, hfiles⟩
        · rw [hco0] at h; cases h
        · refine ⟨f, hf, hds, hpos, _, getLast?_setLast hne1, ?_⟩
          rw [hfiles, getLast?_setLast (ne_nil_of_getLast? hf)] at hf1
          cases hf1
          rfl

/-! ### `start_file_aligned` -/

/-- `(d + 4 + pad) % a = 0` for the pad `start_file_aligned` computes. -/
theorem pad_aligned (d a : Nat) (ha : 0 < a) : (d + 4 + (a - (d + 4) % a) % a) % a = 0 := by
  have hm : (d + 4) % a < a := Nat.mod_lt _ ha
  have hd := Nat.div_add_mod (d + 4) a
  by_cases h0 : (d + 4) % a = 0
  · rw [h0, Nat.sub_zero, Nat.mod_self, Nat.add_zero, h0]
  · have hlt : a - (d + 4) % a < a := by omega
    rw [Nat.mod_eq_of_lt hlt]
    have : d + 4 + (a - (d + 4) % a) = a * ((d + 4) / a + 1) := by
      rw [Nat.mul_add, Nat.mul_one]; omega
    rw [this, Nat.mul_mod_right]

/-- Local extra-field mode right after `start_file_with_extra_data`, with `x` written so far. -/
def ExtraSt (s : WState) (ds : UInt64) (x : Bytes) : Prop :=
  Inv s ∧ s.writingToFile = true ∧ s.writingToExtraField = true ∧ s.centralOnly = false ∧
  s.inner = .storer none ∧ ∃ f, s.files.getLast? = some f ∧ f.dataStart = ds ∧ f.extraField = x

/-- In extra-field mode `write` only appends to the last entry's extra field (no I/O). -/
theorem writeData_extraSt {s : WState} {ds : UInt64} {x : Bytes} (h : ExtraSt s ds x) (buf : Bytes) :
    ∃ s', writeData buf s = pure (.ok (), s') ∧ ExtraSt s' ds (x ++ buf) := by
  obtain ⟨hI, hwf, hwe, hco, hin, f, hf, hds, hx⟩ := h
  unfold writeData
  by_cases hb : buf.isEmpty
  · have : buf = [] := List.isEmpty_iff.mp hb
    subst this
    exact ⟨s, by simp, hI, hwf, hwe, hco, hin, f, hf, hds, by simpa using hx⟩
  · obtain ⟨inner, files, sS, sB, sH, wF, wE, cO, wR, cm⟩ := s
    dsimp only at hwf hwe hco hin hf
    subst hwf hwe hco hin
    simp only [hb, hf]
    refine ⟨_, rfl, hI.setLast_same_time hf rfl, rfl, rfl, rfl, rfl, _, getLast?_setLast (ne_nil_of_getLast? hf), hds, ?_⟩
    rw [hx]

theorem startFileAligned_sat (ext : WExt) (name : Bytes) (o : FileOptions) (align : UInt16)
    (ho : TimeOk o.time) (henc : o.encryptWith = none) (s : WState) (hI : Inv s)
    (fa : Option Nat) (d : Dev) :
    Sat (startFileAligned ext name o align s) fa d (Post fun _ _ _ => True) := by
  unfold startFileAligned
  apply Sat.bind
  apply Sat.mono (startFileWithExtraData_sat ext name o ho henc s hI fa d)
  intro ⟨r, s1⟩ d1 ⟨hI1, hp⟩
  dsimp only at hI1 hp ⊢
  cases r with
  | error e => exact Sat.pure (Post.error hI1)
  | ok dataStart =>
    obtain ⟨hwe, hco, hwf, hin, f, hf, hds, hx, hdp⟩ := hp _ rfl
    have hE : ExtraSt s1 f.dataStart [] := ⟨hI1, hwf, hwe, hco, hin, f, hf, rfl, hx⟩
    dsimp only
    apply Sat.bind
    have hpad : Sat (if (decide (align.toNat > 1) && dataStart % align.toNat != 0) = true then do
            let __x ← writeData [122, 97] s1
            match __x.fst with
              | Except.error e => pure (Except.error e, __x.snd)
              | Except.ok PUnit.unit => do
                let __x ←
                  writeData (le16 (UInt16.ofNat ((align.toNat - (dataStart + 4) % align.toNat) % align.toNat))) __x.snd
                match __x.fst with
                  | Except.error e => pure (Except.error e, __x.snd)
                  | Except.ok PUnit.unit => do
                    let __x ←
                      writeData (List.replicate ((align.toNat - (dataStart + 4) % align.toNat) % align.toNat) 0) __x.snd
                    match __x.fst with
                      | Except.error e => pure (Except.error e, __x.snd)
                      | Except.ok PUnit.unit => do
                        let __x ← endLocalStartCentral ext __x.snd
                        match __x.fst with
                          | Except.error e => pure (Except.error e, __x.snd)
                          | Except.ok ds =>
                            if (ds % align.toNat != 0) = true then M.panic "write.rs:515 assert_eq"
                            else pure (Except.ok (), __x.snd)
          else pure (Except.ok (), s1)) fa d1 (Post fun _ s2 d2 =>
            (∃ x, ExtraSt s2 f.dataStart x) ∨
            (s2.writingToExtraField = true ∧ s2.centralOnly = true ∧ ∃ p f', dataStart ≤ p ∧ d2.pos = p ∧
              s2.files.getLast? = some f' ∧ f'.dataStart = UInt64.ofNat p)) := by
      split
      · next hc =>
        obtain ⟨s2, e2, hE2⟩ := writeData_extraSt hE [122, 97]
        rw [e2]
        apply Sat.bind; apply Sat.pure; dsimp only
        obtain ⟨s3, e3, hE3⟩ := writeData_extraSt hE2 (le16 (UInt16.ofNat ((align.toNat - (dataStart + 4) % align.toNat) % align.toNat)))
        rw [e3]
        apply Sat.bind; apply Sat.pure; dsimp only
        obtain ⟨s4, e4, hE4⟩ := writeData_extraSt hE3 (List.replicate ((align.toNat - (dataStart + 4) % align.toNat) % align.toNat) 0)
        rw [e4]
        apply Sat.bind; apply Sat.pure; dsimp only
        apply Sat.bind
        apply Sat.mono (endLocalStartCentral_sat ext s4 hE4.1 fa d1)
        intro ⟨r5, s5⟩ d5 ⟨hI5, hp5⟩
        dsimp only at hI5 hp5 ⊢
        cases r5 with
        | error e => exact Sat.pure (Post.error hI5)
        | ok ds =>
          obtain ⟨hwe5, hco5, hwf5, h5⟩ := hp5 _ rfl
          obtain ⟨f4, hf4, hds4, hpos5, f5, hf5, hds5⟩ := h5 hE4.2.2.2.1
          obtain ⟨_, _, _, _, _, f4', hf4', hd4', hx4'⟩ := hE4
          rw [hf4] at hf4'; cases hf4'
          have hlen : f4.extraField.length = 4 + (align.toNat - (dataStart + 4) % align.toNat) % align.toNat := by
            rw [hx4']; simp; omega
          have ha : 0 < align.toNat := by
            simp only [Bool.and_eq_true, decide_eq_true_eq] at hc; omega
          have hal : ds % align.toNat = 0 := by
            rw [hds4, hd4', hlen, ← hds, ← Nat.add_assoc]
            exact pad_aligned dataStart align.toNat ha
          dsimp only
          simp only [hal, bne_self_eq_false, Bool.false_eq_true, if_false]
          apply Sat.pure
          apply Post.ok hI5
          right
          refine ⟨hwe5, hco5, ds, f5, ?_, hpos5, hf5, hds5⟩
          rw [hds4, hd4', ← hds]; omega
      · apply Sat.pure
        apply Post.ok hI1
        left
        exact ⟨_, hE⟩
    apply Sat.mono hpad
    intro ⟨r6, s6⟩ d6 ⟨hI6, hp6⟩
    dsimp only at hI6 hp6 ⊢
    cases r6 with
    | error e => exact Sat.pure (Post.error hI6)
    | ok u =>
      dsimp only
      apply Sat.bind
      apply Sat.mono (endExtraData_sat ext s6 hI6 fa d6)
      intro ⟨r7, s7⟩ d7 ⟨hI7, hp7⟩
      dsimp only at hI7 hp7 ⊢
      cases r7 with
      | error e => exact Sat.pure (Post.error hI7)
      | ok ede =>
        dsimp only
        obtain ⟨_, _, _, f6, hf6, hcase⟩ := hp7 _ rfl
        split
        · next hlt =>
          apply Sat.panic
          rcases hp6 () rfl with ⟨x, hE6⟩ | ⟨hwe6, hco6, p, f6', hple, hpos6, hf6', hds6⟩
          · obtain ⟨_, _, _, hco6, _, f6', hf6', hd6', _⟩ := hE6
            rw [hf6] at hf6'; cases hf6'
            rcases hcase with ⟨h, _⟩ | ⟨_, hede, _, _⟩
            · rw [hco6] at h; cases h
            · rw [hede, hd6', ← hds] at hlt; omega
          · rw [hf6] at hf6'; cases hf6'
            rcases hcase with ⟨_, hede, _, _, hpos7⟩ | ⟨h, _⟩
            · unfold Huge
              rw [hpos7, hpos6]
              rw [hede, hds6] at hlt
              have : (UInt64.ofNat p).toNat = p % 18446744073709551616 := by
                simp [UInt64.toNat_ofNat']
              rw [this] at hlt
              have := Nat.mod_eq_of_lt (a := p) (b := 18446744073709551616)
              omega
            · rw [hco6] at h; cases h
        · exact Sat.pure (Post.ok hI7 trivial)

/-! ### directories, symlinks, raw copies -/

theorem addDirectory_sat (ext : WExt) (name : Bytes) (o : FileOptions) (ho : TimeOk o.time)
    (s : WState) (hI : Inv s) (fa : Option Nat) (d : Dev) :
    Sat (addDirectory ext name o s) fa d (Post fun _ s' _ => s'.writingToFile = false) := by
  unfold addDirectory
  dsimp only
  apply Sat.bind
  apply Sat.mono (startEntry_sat ext _ _ none (by exact ho) s hI fa d)
  intro ⟨r, s1⟩ d1 ⟨hI1, hp⟩
  dsimp only at hI1 hp ⊢
  cases r with
  | error e => exact Sat.pure (Post.error hI1)
  | ok u =>
    apply Sat.pure
    apply Post.ok
    · exact ⟨hI1.extraFiles, (fun h => nomatch h), hI1.centralExtra, hI1.extraPlain, hI1.innerOk, hI1.times⟩
    · rfl

theorem addSymlink_sat (ext : WExt) (name target : Bytes) (o : FileOptions) (ho : TimeOk o.time)
    (s : WState) (hI : Inv s) (fa : Option Nat) (d : Dev) :
    Sat (addSymlink ext name target o s) fa d (Post fun _ s' _ => s'.writingToFile = false) := by
  unfold addSymlink
  dsimp only
  apply Sat.bind
  apply Sat.mono (startEntry_sat ext _ _ none (by exact ho) s hI fa d)
  intro ⟨r, s1⟩ d1 ⟨hI1, hp⟩
  dsimp only at hI1 hp ⊢
  cases r with
  | error e => exact Sat.pure (Post.error hI1)
  | ok u =>
    obtain ⟨hwe, hco, hwf, hwr, hin, f, hf, hds, hx⟩ := hp () rfl
    dsimp only
    apply Sat.bind
    have hI1' : Inv { s1 with writingToFile := true } :=
      ⟨hI1.extraFiles, (fun _ => ne_nil_of_getLast? hf), hI1.centralExtra, hI1.extraPlain, hI1.innerOk, hI1.times⟩
    apply Sat.mono (writeData_sat target _ hI1' fa d1)
    intro ⟨r2, s2⟩ d2 ⟨hI2, hp2⟩
    dsimp only at hI2 hp2 ⊢
    cases r2 with
    | error e => exact Sat.pure (Post.error hI2)
    | ok u =>
      apply Sat.pure
      apply Post.ok
      · exact ⟨hI2.extraFiles, (fun h => nomatch h), hI2.centralExtra, hI2.extraPlain, hI2.innerOk, hI2.times⟩
      · rfl

theorem rawCopy_sat (ext : WExt) (src : FileData) (raw name : Bytes) (ho : TimeOk src.time)
    (s : WState) (hI : Inv s) (fa : Option Nat) (d : Dev) :
    Sat (rawCopy ext src raw name s) fa d (Post fun _ _ _ => True) := by
  unfold rawCopy
  dsimp only
  apply Sat.bind
  apply Sat.mono (startEntry_sat ext _ _ _ (by exact ho) s hI fa d)
  intro ⟨r, s1⟩ d1 ⟨hI1, hp⟩
  dsimp only at hI1 hp ⊢
  cases r with
  | error e => exact Sat.pure (Post.error hI1)
  | ok u =>
    obtain ⟨hwe, hco, hwf, hwr, hin, f, hf, hds, hx⟩ := hp () rfl
    dsimp only
    have hI1' : Inv { s1 with writingToFile := true, writingRaw := true } :=
      ⟨hI1.extraFiles, (fun _ => ne_nil_of_getLast? hf), hI1.centralExtra, hI1.extraPlain, hI1.innerOk, hI1.times⟩
    apply Sat.mono (writeData_sat raw _ hI1' fa d1)
    intro ⟨r2, s2⟩ d2 ⟨hI2, hp2⟩
    exact ⟨hI2, fun _ _ => trivial⟩

/-! ### `finalize`, `finish`, `Drop` -/

theorem writeAllCentral_sat (s : WState) (fs : List FileData) (hfs : ∀ f ∈ fs, TimeOk f.time)
    (fa : Option Nat) (d : Dev) :
    Sat (finalize.writeAllCentral s fs) fa d (fun rs d' => rs.2 = s ∧ (rs.1 = .ok () → d.pos ≤ d'.pos)) := by
  induction fs generalizing d with
  | nil =>
    unfold finalize.writeAllCentral
    exact Sat.pure ⟨rfl, fun _ => Nat.le_refl _⟩
  | cons f rest ih =>
    unfold finalize.writeAllCentral
    split
    · next site h => exact absurd h (centralHeaderChunks_no_panic (hfs f (by simp)) site)
    · exact Sat.pure ⟨rfl, fun h => by cases h⟩
    · apply Sat.io_writeChunks _ (fun _ e d' => ⟨rfl, fun h => by cases h⟩)
      intro d1 hd1
      apply Sat.mono (ih (fun g hg => hfs g (by simp [hg])) d1)
      intro rs d2 ⟨h1, h2⟩
      exact ⟨h1, fun h => by have := h2 h; omega⟩

theorem finalize_sat (ext : WExt) (s : WState) (hI : Inv s) (fa : Option Nat) (d : Dev) :
    Sat (finalize ext s) fa d (Post FinishPost) := by
  unfold finalize
  split
  · exact Sat.pure (Post.error hI)
  apply Sat.bind
  apply Sat.mono (finishFile_sat ext s hI fa d)
  intro ⟨r, s1⟩ d1 ⟨hI1, hp⟩
  dsimp only at hI1 hp ⊢
  cases r with
  | error e => exact Sat.pure (Post.error hI1)
  | ok u =>
    have hp1 := hp () rfl
    obtain ⟨hin, hwe, hco, hwf, hwr⟩ := hp1
    dsimp only
    split
    · apply Sat.io_streamPosition _ (fun _ e d' => Post.error hI1)
      intro d2 hd2
      apply Sat.bind
      apply Sat.mono (writeAllCentral_sat s1 s1.files hI1.times fa d2)
      intro ⟨r3, s3⟩ d3 ⟨hs3, hpos3⟩
      dsimp only at hs3 hpos3 ⊢
      subst hs3
      cases r3 with
      | error e => exact Sat.pure (Post.error hI1)
      | ok u =>
        dsimp only
        apply Sat.io_streamPosition _ (fun _ e d' => Post.error hI1)
        intro d4 hd4
        have := hpos3 rfl
        have hnl : ¬ d3.pos < d1.pos := by omega
        simp only [hnl, if_false]
        apply Sat.bind
        have hz : Sat (if (decide (s3.files.length > ZIP64_ENTRY_THR) || decide (max (d3.pos - d1.pos) d1.pos > 0xFFFFFFFF)) = true then
            io s3 (M.writeChunks (eocd64Chunks {
              versionMadeBy := DEFAULT_VERSION.toUInt16, versionNeeded := DEFAULT_VERSION.toUInt16,
              diskNumber := 0, diskWithCd := 0, filesOnDisk := UInt64.ofNat s3.files.length, files := UInt64.ofNat s3.files.length,
              cdSize := UInt64.ofNat (d3.pos - d1.pos), cdOffset := UInt64.ofNat d1.pos })) fun _ =>
            io s3 (M.writeChunks (locatorChunks {
              diskWithCd := 0, eocd64Offset := UInt64.ofNat (d1.pos + (d3.pos - d1.pos)), disks := 1 })) fun _ =>
            pure (.ok (), s3)
          else pure (.ok (), s3)) fa d4 (fun rs _ => rs.2 = s3) := by
          split
          · apply Sat.io_writeChunks _ (fun _ e d' => rfl)
            intro d5 _
            apply Sat.io_writeChunks _ (fun _ e d' => rfl)
            intro d6 _
            exact Sat.pure rfl
          · exact Sat.pure rfl
        apply Sat.mono hz
        intro ⟨r5, s5⟩ d5 hs5
        dsimp only at hs5 ⊢
        subst hs5
        cases r5 with
        | error e => exact Sat.pure (Post.error hI1)
        | ok u =>
          dsimp only
          apply Sat.io_writeChunks _ (fun _ e d' => Post.error hI1)
          intro d6 _
          exact Sat.pure (Post.ok hI1 ⟨hin, hwe, hco, hwf, hwr⟩)
    · next h => exact absurd hin h

theorem finish_sat (ext : WExt) (s : WState) (hI : Inv s) (fa : Option Nat) (d : Dev) :
    Sat (finish ext s) fa d (Post fun _ s' _ => s'.inner = .closed ∧ s'.writingToFile = false) := by
  unfold finish
  apply Sat.bind
  apply Sat.mono (finalize_sat ext s hI fa d)
  intro ⟨r, s1⟩ d1 ⟨hI1, hp⟩
  dsimp only at hI1 hp ⊢
  cases r with
  | error e => exact Sat.pure (Post.error hI1)
  | ok u =>
    obtain ⟨hin, hwe, hco, hwf, hwr⟩ := hp () rfl
    dsimp only
    split
    · apply Sat.pure
      apply Post.ok
      · exact ⟨hI1.extraFiles, hI1.fileFiles, hI1.centralExtra, (fun _ _ => Or.inr rfl), trivial, hI1.times⟩
      · exact ⟨rfl, hwf⟩
    · next h => exact absurd hin h

theorem Inv.closeInner {s : WState} (hI : Inv s) : Inv { s with inner := .closed } :=
  ⟨hI.extraFiles, hI.fileFiles, hI.centralExtra, fun _ _ => Or.inr rfl, by simp [InnerOk], hI.times⟩

theorem dropInner_sat' (ext : WExt) (s : WState) (hI : Inv s) (fa : Option Nat) (d : Dev) :
    Sat (dropInner ext s) fa d (fun rs _ => Inv rs.2 ∧ rs.1 = .ok ()) := by
  unfold dropInner
  split
  · next m l pending _ =>
    split
    · have h := MSat.writeAll (ext.compress m l pending) fa d
      unfold MSat at h
      unfold Sat
      rw [M.bind_apply, M.attempt_apply]
      split at h
      · exact ⟨hI.closeInner, rfl⟩
      · exact ⟨hI.closeInner, rfl⟩
      · exact h
    · exact Sat.pure ⟨hI, rfl⟩
  · exact Sat.pure ⟨hI, rfl⟩

theorem dropInner_sat (ext : WExt) (s : WState) (hI : Inv s) (fa : Option Nat) (d : Dev) :
    Sat (dropInner ext s) fa d (Post fun _ _ _ => True) :=
  Sat.mono (dropInner_sat' ext s hI fa d) (fun _ _ h => ⟨h.1, fun _ _ => trivial⟩)

theorem dropWriter_sat (ext : WExt) (s : WState) (hI : Inv s) (fa : Option Nat) (d : Dev) :
    Sat (dropWriter ext s) fa d (Post fun _ _ _ => True) := by
  unfold dropWriter
  split
  · exact Sat.pure (Post.ok hI trivial)
  · apply Sat.bind
    apply Sat.mono (finalize_sat ext s hI fa d)
    intro ⟨r, s1⟩ d1 ⟨hI1, hp⟩
    exact dropInner_sat ext s1 hI1 fa d1

end ZipVerif.Model
