import ZipVerif.Lemmas.WriterSat
/-
Second layer for C12: what a closed (poisoned) writer does, and the bookkeeping invariant that ties
`ZipWriter.files` to the calls that succeeded (`files_track_calls_partial` in Props/C12).

`WSat` is the partial-correctness triple (a panic or a device error satisfies it vacuously): it is
used together with the total `Sat` lemmas of `Lemmas/WriterSat.lean`, which already exclude panics.
-/

namespace ZipVerif.Model
open ZipVerif

/-! ### Closed (poisoned) writers: every call fails and leaves the writer closed -/

theorem switchTo_closed (ext : WExt) (c : Method) (l : Option Int) {s : WState} (h : s.inner = .closed) :
    switchTo ext c l s = pure (.error (.io .brokenPipe), s) := by
  unfold switchTo
  simp only [h, Inner.currentCompression]

theorem endExtraData_closed (ext : WExt) {s : WState} (h : s.inner = .closed) :
    ∃ e, endExtraData ext s = pure (.error e, s) := by
  unfold endExtraData
  cases hw : s.writingToExtraField
  · exact ⟨.io .other, by simp⟩
  · exact ⟨.io .brokenPipe, by simp [h, Inner.isClosed]⟩

theorem finishFile_closed (ext : WExt) {s : WState} (h : s.inner = .closed) :
    ∃ e, finishFile ext s = pure (.error e, s) := by
  unfold finishFile
  cases hw : s.writingToExtraField
  · refine ⟨.io .brokenPipe, ?_⟩
    simp only [Bool.false_eq_true, if_false]
    show (do let r ← switchTo ext .stored none s; _) = _
    rw [switchTo_closed ext _ _ h]
    rfl
  · obtain ⟨e, he⟩ := endExtraData_closed ext h
    refine ⟨e, ?_⟩
    simp only [if_true]
    rw [he]
    rfl

theorem startEntry_closed (ext : WExt) (name : Bytes) (o : FileOptions) (raw) {s : WState}
    (h : s.inner = .closed) : ∃ e, startEntry ext name o raw s = pure (.error e, s) := by
  unfold startEntry
  by_cases hn : name.length > 65535
  · exact ⟨.invalidArchive, by simp [hn]⟩
  · obtain ⟨e, he⟩ := finishFile_closed ext h
    refine ⟨e, ?_⟩
    simp only [hn, if_false]
    rw [he]
    rfl

theorem writeData_closed (buf : Bytes) {s : WState} (h : s.inner = .closed) :
    ∃ r, writeData buf s = pure (r, s) := by
  unfold writeData
  by_cases hb : buf.isEmpty
  · exact ⟨.ok (), by simp [hb]⟩
  · cases hw : s.writingToFile
    · exact ⟨.error (.io .other), by simp [hb]⟩
    · exact ⟨.error (.io .brokenPipe), by simp [hb, h]⟩

theorem finalize_closed (ext : WExt) {s : WState} (h : s.inner = .closed) :
    ∃ e, finalize ext s = pure (.error e, s) := by
  unfold finalize
  by_cases hn : s.comment.length > 65535
  · exact ⟨.invalidArchive, by simp [hn]⟩
  · obtain ⟨e, he⟩ := finishFile_closed ext h
    refine ⟨e, ?_⟩
    simp only [hn, if_false]
    rw [he]
    rfl

/-- **After the writer has been closed (by `finish`, or poisoned by a refused method/level or an
over-long file), `finish` fails** and leaves it closed. -/
theorem finish_closed (ext : WExt) {s : WState} (h : s.inner = .closed) :
    ∃ e, finish ext s = pure (.error e, s) := by
  obtain ⟨e, he⟩ := finalize_closed ext h
  refine ⟨e, ?_⟩
  unfold finish
  rw [he]
  rfl


/-! ### Partial-correctness triples -/

def WSat {β} (x : M (Except ZErr β × WState)) (fa : Option Nat) (d : Dev)
    (Q : Except ZErr β × WState → Dev → Prop) : Prop :=
  match x fa d with
  | (.ok r, d') => Q r d'
  | _ => True

theorem Sat.toWSat {β} {x : M (Except ZErr β × WState)} {fa d} {Q : Except ZErr β × WState → Dev → Prop}
    (h : Sat x fa d Q) : WSat x fa d Q := by
  unfold Sat at h; unfold WSat
  split at h <;> simp_all

theorem WSat.and {β} {x : M (Except ZErr β × WState)} {fa d} {Q Q' : Except ZErr β × WState → Dev → Prop}
    (h : WSat x fa d Q) (h' : WSat x fa d Q') : WSat x fa d (fun r d' => Q r d' ∧ Q' r d') := by
  unfold WSat at *
  split <;> simp_all

theorem WSat.mono {β} {x : M (Except ZErr β × WState)} {fa d} {Q Q' : Except ZErr β × WState → Dev → Prop}
    (h : WSat x fa d Q) (hq : ∀ r d', Q r d' → Q' r d') : WSat x fa d Q' := by
  unfold WSat at *
  split <;> simp_all

theorem WSat.pure {β} {r : Except ZErr β × WState} {fa d} {Q : Except ZErr β × WState → Dev → Prop}
    (h : Q r d) : WSat (Pure.pure r) fa d Q := h

theorem WSat.panic {β} {site : String} {fa d} {Q : Except ZErr β × WState → Dev → Prop} :
    WSat (M.panic site : M (Except ZErr β × WState)) fa d Q := trivial

theorem WSat.bind {α β} {x : M (Except ZErr α × WState)} {f : Except ZErr α × WState → M (Except ZErr β × WState)}
    {fa d} {Q : Except ZErr β × WState → Dev → Prop}
    (h : WSat x fa d (fun r d' => WSat (f r) fa d' Q)) : WSat (x >>= f) fa d Q := by
  unfold WSat at h ⊢
  rw [M.bind_apply]
  split at h
  · next a d' he => rw [he]; exact h
  · next hne =>
    split <;> first | trivial | skip
    next r d' heq =>
      split at heq
      · next a d'' he => exact absurd he (hne a d'')
      · cases heq
      · cases heq

/-- Fault-free `io`: the device action cannot fail, only its continuation matters. -/
theorem WSat.io_none {α β} {s : WState} {m : M α} {k : α → M (Except ZErr β × WState)} {d}
    {P : α → Dev → Prop} {Q : Except ZErr β × WState → Dev → Prop}
    (hm : MSat m none d P) (hk : ∀ a d', P a d' → WSat (k a) none d' Q) :
    WSat (Model.io s m k) none d Q := by
  unfold MSat at hm
  unfold WSat Model.io
  rw [M.bind_apply, M.attempt_apply]
  split at hm
  · next a d' h => exact hk a d' hm
  · exact absurd rfl hm
  · trivial

theorem WSat.elim {β} {x : M (Except ZErr β × WState)} {fa d} {Q : Except ZErr β × WState → Dev → Prop}
    (h : WSat x fa d Q) {r : Except ZErr β × WState} {d' : Dev} (he : x fa d = (.ok r, d')) : Q r d' := by
  unfold WSat at h
  rw [he] at h
  exact h

/-- Total correctness from the panic-freedom lemma plus a partial-correctness fact. -/
theorem Sat.andW {β} {x : M (Except ZErr β × WState)} {fa d} {Q Q' : Except ZErr β × WState → Dev → Prop}
    (h : Sat x fa d Q) (h' : WSat x fa d Q') : Sat x fa d (fun r d' => Q r d' ∧ Q' r d') := by
  unfold Sat at *
  unfold WSat at h'
  split <;> simp_all

theorem WSat.trivial {β} (x : M (Except ZErr β × WState)) (fa : Option Nat) (d : Dev) :
    WSat x fa d (fun _ _ => True) := by
  unfold WSat
  split <;> trivial

/-- only the fault-free run of the action matters -/
theorem WSat.of_run_eq {β} {x y : M (Except ZErr β × WState)} {d : Dev}
    {Q : Except ZErr β × WState → Dev → Prop} (h : x none d = y none d) (hy : WSat y none d Q) :
    WSat x none d Q := by
  unfold WSat at *
  rw [h]
  exact hy

attribute [irreducible] WSat

theorem WSat.emit_none {β} {s : WState} {enc : Option EncState} {bs : Bytes}
    {k : Option EncState → M (Except ZErr β × WState)} {d} {Q : Except ZErr β × WState → Dev → Prop}
    (hk : ∀ enc' d', WSat (k enc') none d' Q) : WSat (Model.emit s enc bs k) none d Q := by
  unfold Model.emit
  cases enc with
  | some e => exact hk _ d
  | none => exact WSat.io_none (MSat.writeAll bs none d) (fun _ d' _ => hk none d')

/-- fault-free, `emitFinish` (M2) is `emit` -/
theorem WSat.emitFinish_none {β} {s : WState} {m : Method} {enc : Option EncState} {bs : Bytes}
    {k : Option EncState → M (Except ZErr β × WState)} {d} {Q : Except ZErr β × WState → Dev → Prop}
    (hk : ∀ enc' d', WSat (k enc') none d' Q) : WSat (Model.emitFinish s m enc bs k) none d Q :=
  WSat.of_run_eq (Model.emitFinish_none s m enc bs k d) (WSat.emit_none hk)

theorem WSat.updateLocalHeader_none' {β} {s : WState} {file : FileData} {k : Unit → M (Except ZErr β × WState)}
    {d : Dev} {Q : Except ZErr β × WState → Dev → Prop}
    (hk : ∀ d', WSat (k ()) none d' Q)
    (hbig : file.largeFile = false → file.compressedSize > ZIP64_BYTES_THR →
      ∀ d', Q (.error (.io .other), s) d') :
    WSat (Model.updateLocalHeader s file k) none d Q := by
  unfold Model.updateLocalHeader
  split
  · next hg =>
    simp only [Bool.and_eq_true, Bool.not_eq_true', decide_eq_true_eq] at hg
    exact WSat.pure (hbig hg.1 hg.2 d)
  apply WSat.io_none (MSat.seekStart _ none d); intro _ d1 _
  apply WSat.io_none (MSat.writeAll _ none d1); intro _ d2 _
  split
  · apply WSat.io_none (MSat.seekStart _ none d2); intro _ d3 _
    apply WSat.io_none (MSat.writeAll _ none d3); intro _ d4 _
    apply WSat.io_none (MSat.writeAll _ none d4); intro _ d5 _
    exact hk d5
  · apply WSat.io_none (MSat.writeAll _ none d2); intro _ d3 _
    apply WSat.io_none (MSat.writeAll _ none d3); intro _ d4 _
    exact hk d4

theorem WSat.updateLocalHeader_none {β} {s : WState} {file : FileData} {k : Unit → M (Except ZErr β × WState)}
    {d : Dev} {Q : Except ZErr β × WState → Dev → Prop}
    (hk : ∀ d', WSat (k ()) none d' Q)
    (hbig : ∀ d', Q (.error (.io .other), s) d') :
    WSat (Model.updateLocalHeader s file k) none d Q :=
  WSat.updateLocalHeader_none' hk (fun _ _ => hbig)

theorem setLast_snoc (cf : List FileData) (f g : FileData) : setLast (cf ++ [f]) g = cf ++ [g] := by
  rw [setLast_eq _ _ (by simp)]
  simp

/-- Element-wise relation of two lists of the same length. -/
inductive Forall2 {α β} (R : α → β → Prop) : List α → List β → Prop
  | nil : Forall2 R [] []
  | cons {a b l1 l2} : R a b → Forall2 R l1 l2 → Forall2 R (a :: l1) (b :: l2)

theorem Forall2.snoc {α β} {R : α → β → Prop} {l1 : List α} {l2 : List β} {a : α} {b : β}
    (h : Forall2 R l1 l2) (hab : R a b) : Forall2 R (l1 ++ [a]) (l2 ++ [b]) := by
  induction h with
  | nil => exact .cons hab .nil
  | cons h1 _ ih => exact .cons h1 ih

/-! ### The bookkeeping relation between the call log and `ZipWriter.files` -/

/-- What the calls that succeeded say the archive should contain. -/
structure Entry where
  name : Bytes
  /-- the bytes `write` accepted as this entry's content (a symlink's target) -/
  data : Bytes
  /-- the source entry of a raw copy -/
  raw : Option FileData

/-- A raw copy carries its source's checksum, sizes and method. -/
def RawVals (src f : FileData) : Prop :=
  f.crc32 = src.crc32 ∧ f.compressedSize = src.compressedSize ∧
  f.uncompressedSize = src.uncompressedSize ∧ f.method = src.method

/-- The central-directory record of a finished entry agrees with the log. -/
def Closed (e : Entry) (f : FileData) : Prop :=
  f.fileName = e.name ∧
  match e.raw with
  | none => f.crc32 = Spec.Crc32.crc32 e.data ∧ f.uncompressedSize = UInt64.ofNat e.data.length
  | some src => RawVals src f

/-- The entry being written: its running checksum / byte count agree with the log. -/
def Open (s : WState) (e : Entry) (f : FileData) : Prop :=
  f.fileName = e.name ∧
  match e.raw with
  | none => s.writingRaw = false ∧ s.statsHasher = Spec.Crc32.updateBytes 0xFFFFFFFF e.data ∧
      s.statsBytes = e.data.length
  | some src => s.writingRaw = true ∧ RawVals src f

structure Tr (log : List Entry) (s : WState) : Prop where
  noExtra : s.writingToExtraField = false
  extraNil : ∀ f ∈ s.files, f.extraField = []
  shape : (log = [] ∧ s.files = [] ∧ s.writingRaw = false) ∨
    ∃ cl cf e f, log = cl ++ [e] ∧ s.files = cf ++ [f] ∧ Forall2 Closed cl cf ∧ Open s e f

/-- The writer is poisoned (every later `finish` fails), or its files agree with the log. -/
def Track (log : List Entry) (s : WState) : Prop := s.inner = .closed ∨ Tr log s

/-- All entries are finished and agree with the log (the state `finish_file` leaves). -/
structure Done (log : List Entry) (s : WState) : Prop where
  noExtra : s.writingToExtraField = false
  notRaw : s.writingRaw = false
  extraNil : ∀ f ∈ s.files, f.extraField = []
  closed : Forall2 Closed log s.files

theorem Tr.inner {log : List Entry} {s : WState} (h : Tr log s) (i : Inner) : Tr log { s with inner := i } :=
  ⟨h.noExtra, h.extraNil, h.shape⟩

/-- Postcondition shape of the tracking lemmas: an error leaves a `Track`ed writer, success gives `P`. -/
def TPost {β} (log : List Entry) (P : β → WState → Prop) : Except ZErr β × WState → Dev → Prop :=
  fun rs _ => match rs.1 with
    | .error _ => Track log rs.2
    | .ok v => P v rs.2

theorem afterEnc_track (log : List Entry) (s : WState) (hT : Tr log s) (d : Dev) :
    WSat (afterEnc s) none d (TPost log fun _ s' => Done log s') := by
  unfold afterEnc
  split
  · split
    · next hwr =>
      have hwr' : s.writingRaw = false := by simpa using hwr
      split
      · next hl =>
        apply WSat.pure
        show Done log s
        have hnil : s.files = [] := List.getLast?_eq_none_iff.mp hl
        rcases hT.shape with ⟨h1, h2, h3⟩ | ⟨cl, cf, e, f, _, h2, _⟩
        · exact ⟨hT.noExtra, hwr', hT.extraNil, by rw [h1, h2]; exact .nil⟩
        · rw [hnil] at h2; simp at h2
      · next file hfile =>
        rcases hT.shape with ⟨_, h2, _⟩ | ⟨cl, cf, e, f, hlog, hfiles, hcl, hop⟩
        · rw [h2] at hfile; simp at hfile
        · have hff : file = f := by rw [hfiles] at hfile; simpa using hfile.symm
          subst hff
          obtain ⟨hname, hraw⟩ := hop
          cases her : e.raw with
          | some src => rw [her] at hraw; rw [hraw.1] at hwr'; cases hwr'
          | none =>
          rw [her] at hraw
          obtain ⟨_, hh, hb⟩ := hraw
          have hx : file.extraField = [] := hT.extraNil file (by rw [hfiles]; simp)
          have hxs : ∀ g ∈ cf, g.extraField = [] := fun g hg => hT.extraNil g (by rw [hfiles]; simp [hg])
          dsimp only
          simp only [hfiles, setLast_snoc]
          apply WSat.io_none (MSat.streamPosition none d); intro fileEnd d1 _
          have hxn : ∀ g : FileData, g.extraField = [] → ∀ x ∈ cf ++ [g], x.extraField = [] := by
            intro g hgx x hxm
            rcases List.mem_append.mp hxm with h | h
            · exact hxs x h
            · have : x = g := by simpa using h
              rw [this]; exact hgx
          have hTr : ∀ g : FileData, g.fileName = file.fileName → g.extraField = [] →
              Tr log { s with files := cf ++ [g] } := by
            intro g hgn hgx
            refine ⟨hT.noExtra, hxn g hgx, Or.inr ⟨cl, cf, e, g, hlog, rfl, hcl, ?_⟩⟩
            exact ⟨by rw [hgn, hname], by rw [her]; exact ⟨hwr', hh, hb⟩⟩
          split
          · exact WSat.pure (Or.inr (hTr _ rfl hx))
          · apply WSat.updateLocalHeader_none
            · intro d2
              apply WSat.io_none (MSat.seekStart _ none d2); intro _ d3 _
              apply WSat.pure
              show Done log _
              refine ⟨hT.noExtra, rfl, hxn _ hx, ?_⟩
              dsimp only
              rw [hlog]
              apply Forall2.snoc hcl
              refine ⟨hname, ?_⟩
              rw [her]
              dsimp only
              refine ⟨?_, by rw [hb]⟩
              rw [hh]; rfl
            · intro d2
              exact Or.inr (hTr _ rfl hx)
    · next hwr =>
      have hwr' : s.writingRaw = true := by simpa using hwr
      apply WSat.pure
      show Done log _
      refine ⟨hT.noExtra, rfl, hT.extraNil, ?_⟩
      rcases hT.shape with ⟨_, _, h3⟩ | ⟨cl, cf, e, f, hlog, hfiles, hcl, hname, hraw⟩
      · rw [h3] at hwr'; cases hwr'
      · dsimp only
        rw [hlog, hfiles]
        apply Forall2.snoc hcl
        refine ⟨hname, ?_⟩
        cases her : e.raw with
        | none => rw [her] at hraw; rw [hraw.1] at hwr'; cases hwr'
        | some src => rw [her] at hraw; exact hraw.2
  · exact WSat.panic

theorem finishFile_track (ext : WExt) (log : List Entry) (s : WState) (hT : Tr log s) (d : Dev) :
    WSat (finishFile ext s) none d (TPost log fun _ s' => Done log s') := by
  unfold finishFile
  simp only [hT.noExtra, Bool.false_eq_true, if_false]
  apply WSat.bind
  apply WSat.pure
  dsimp only
  apply WSat.bind
  apply WSat.mono (switchTo_sat ext .stored none s none d).toWSat
  intro ⟨r1, s2⟩ d2 ⟨i, hs2, hio, henc, hpos, herr, hok⟩
  dsimp only at hs2 herr ⊢
  subst hs2
  cases r1 with
  | error e => exact WSat.pure (Or.inl (herr e rfl))
  | ok u =>
    dsimp only
    split
    · split
      · exact WSat.panic
      · apply WSat.io_none (MSat.writeAll _ none d2); intro _ d3 _
        apply WSat.io_none (MSat.flush none d3); intro _ d4 _
        exact afterEnc_track log { s with inner := .storer none } (hT.inner _) d4
    · exact afterEnc_track log { s with inner := .storer none } (hT.inner _) d2
    · exact WSat.panic

theorem localHeaderChunks_ne_err (f : FileData) (e : ZErr) : localHeaderChunks f ≠ .err e := by
  have h1 : ∀ e, localExtraLen f ≠ .err e := by
    intro e; unfold localExtraLen; dsimp only
    by_cases hc : (if f.largeFile then 20 else 0) + f.extraField.length % 65536 < 65536
    · rw [if_pos hc]; intro h; cases h
    · rw [if_neg hc]; intro h; cases h
  unfold localHeaderChunks datepartOut
  cases f.time.datepart with
  | none => intro h; cases h
  | some dp =>
    dsimp only
    cases hl : localExtraLen f with
    | ok el => intro h; cases h
    | err e' => exact absurd hl (h1 e')
    | panic s => intro h; cases h

/-- The state right after `start_entry` pushed a new record: every earlier entry is finished. -/
def NewEntry (name : Bytes) (o : FileOptions) (raw : Option (UInt32 × UInt64 × UInt64)) (log : List Entry)
    (s' : WState) : Prop :=
  s'.writingToExtraField = false ∧ s'.writingRaw = false ∧ s'.statsHasher = 0xFFFFFFFF ∧
  s'.statsBytes = 0 ∧
  ∃ cf f, s'.files = cf ++ [f] ∧ Forall2 Closed log cf ∧ (∀ g ∈ s'.files, g.extraField = []) ∧
    f.fileName = name ∧ f.crc32 = (raw.getD (0, 0, 0)).1 ∧ f.compressedSize = (raw.getD (0, 0, 0)).2.1 ∧
    f.uncompressedSize = (raw.getD (0, 0, 0)).2.2 ∧ f.method = o.method

theorem startEntry_track (ext : WExt) (name : Bytes) (o : FileOptions) (raw : Option (UInt32 × UInt64 × UInt64))
    (log : List Entry) (s : WState) (hT : Tr log s) (d : Dev) :
    WSat (startEntry ext name o raw s) none d (TPost log fun _ s' => NewEntry name o raw log s') := by
  unfold startEntry
  split
  · exact WSat.pure (Or.inr hT)
  apply WSat.bind
  apply WSat.mono (finishFile_track ext log s hT d)
  intro ⟨r, s1⟩ d1 hp
  unfold TPost at hp
  dsimp only at hp ⊢
  cases r with
  | error e => exact WSat.pure hp
  | ok u =>
    dsimp only at hp ⊢
    split
    · apply WSat.io_none (MSat.streamPosition none d1); intro hs d2 _
      split
      · exact WSat.panic
      · next e h => exact absurd h (localHeaderChunks_ne_err _ e)
      · apply WSat.io_none (MSat.writeChunks _ none d2); intro _ d3 _
        apply WSat.io_none (MSat.streamPosition none d3); intro he d4 _
        have hxn : ∀ g : FileData, g.extraField = [] → ∀ x ∈ s1.files ++ [g], x.extraField = [] := by
          intro g hgx x hxm
          rcases List.mem_append.mp hxm with h | h
          · exact hp.extraNil x h
          · have : x = g := by simpa using h
            rw [this]; exact hgx
        split
        · apply WSat.pure
          exact ⟨hp.noExtra, hp.notRaw, rfl, rfl, _, _, rfl, hp.closed, hxn _ rfl, rfl, rfl, rfl, rfl, rfl⟩
        · apply WSat.pure
          exact ⟨hp.noExtra, hp.notRaw, rfl, rfl, _, _, rfl, hp.closed, hxn _ rfl, rfl, rfl, rfl, rfl, rfl⟩
    · exact WSat.panic

/-- A successful `write` adds its bytes to the content of the entry being written (not to a raw copy,
whose content is its source's). -/
def Entry.write (e : Entry) (buf : Bytes) : Entry :=
  match e.raw with
  | none => { e with data := e.data ++ buf }
  | some _ => e

def appendData (log : List Entry) (buf : Bytes) : List Entry :=
  match log.getLast? with
  | none => log
  | some e => log.dropLast ++ [e.write buf]

theorem appendData_snoc (cl : List Entry) (e : Entry) (buf : Bytes) :
    appendData (cl ++ [e]) buf = cl ++ [e.write buf] := by
  unfold appendData
  simp

theorem appendData_nil_log (buf : Bytes) : appendData [] buf = [] := rfl

theorem Entry.write_nil (e : Entry) : e.write [] = e := by
  obtain ⟨n, dd, r⟩ := e
  unfold Entry.write
  cases r <;> simp

theorem appendData_nil (log : List Entry) : appendData log [] = log := by
  rcases List.eq_nil_or_concat log with h | ⟨L, b, h⟩
  · subst h; rfl
  · subst h; rw [List.concat_eq_append, appendData_snoc, Entry.write_nil]

theorem updateBytes_append (c : UInt32) (a b : Bytes) :
    Spec.Crc32.updateBytes (Spec.Crc32.updateBytes c a) b = Spec.Crc32.updateBytes c (a ++ b) := by
  unfold Spec.Crc32.updateBytes
  rw [List.foldl_append]

theorem writeData_track (buf : Bytes) (log : List Entry) (s : WState) (hT : Tr log s) (d : Dev) :
    WSat (writeData buf s) none d (TPost log fun _ s' => Tr (appendData log buf) s') := by
  unfold writeData
  split
  · next hb =>
    have : buf = [] := List.isEmpty_iff.mp hb
    subst this
    apply WSat.pure
    show Tr (appendData log []) s
    rw [appendData_nil]; exact hT
  split
  · exact WSat.pure (Or.inr hT)
  split
  · exact WSat.pure (Or.inr hT)
  have hacc : ∀ (i : Inner) (d0 : Dev),
      WSat (match ({ s with inner := i, statsHasher := Spec.Crc32.updateBytes s.statsHasher buf, statsBytes := s.statsBytes + buf.length } : WState).files.getLast? with
        | none => M.panic "write.rs:244 files.last_mut().unwrap()"
        | some f =>
          if ({ s with inner := i, statsHasher := Spec.Crc32.updateBytes s.statsHasher buf, statsBytes := s.statsBytes + buf.length } : WState).statsBytes > 0xFFFFFFFF && !f.largeFile then
            pure (.error (.io .other), { ({ s with inner := i, statsHasher := Spec.Crc32.updateBytes s.statsHasher buf, statsBytes := s.statsBytes + buf.length } : WState) with inner := .closed })
          else pure (.ok (), ({ s with inner := i, statsHasher := Spec.Crc32.updateBytes s.statsHasher buf, statsBytes := s.statsBytes + buf.length } : WState))) none d0 (TPost log fun _ s' => Tr (appendData log buf) s') := by
    intro i d0
    dsimp only
    split
    · exact WSat.panic
    · next f0 hf0 =>
      split
      · exact WSat.pure (Or.inl rfl)
      · apply WSat.pure
        show Tr (appendData log buf) _
        refine ⟨hT.noExtra, hT.extraNil, ?_⟩
        rcases hT.shape with ⟨_, h2, _⟩ | ⟨cl, cf, e, f, hlog, hfiles, hcl, hname, hraw⟩
        · rw [h2] at hf0; simp at hf0
        · right
          refine ⟨cl, cf, e.write buf, f, by rw [hlog, appendData_snoc], hfiles, hcl, ?_⟩
          obtain ⟨n, dd, r⟩ := e
          cases r with
          | none =>
            dsimp only at hraw hname
            refine ⟨hname, ?_⟩
            simp only [Entry.write]
            refine ⟨hraw.1, ?_, ?_⟩
            · rw [hraw.2.1, updateBytes_append]
            · rw [hraw.2.2, List.length_append]
          | some src => exact ⟨hname, hraw⟩
  split
  · next h => rw [hT.noExtra] at h; cases h
  split
  · apply WSat.io_none (MSat.writeAll _ none d); intro _ d1 _
    exact hacc s.inner d1
  · exact hacc _ d
  · exact hacc _ d
  · exact WSat.pure (Or.inr hT)

theorem Tr.congr {log : List Entry} {s s' : WState} (h : Tr log s)
    (h1 : s'.writingToExtraField = s.writingToExtraField) (h2 : s'.files = s.files)
    (h3 : s'.writingRaw = s.writingRaw) (h4 : s'.statsHasher = s.statsHasher)
    (h5 : s'.statsBytes = s.statsBytes) : Tr log s' := by
  refine ⟨by rw [h1]; exact h.noExtra, by rw [h2]; exact h.extraNil, ?_⟩
  rcases h.shape with ⟨a, b, c⟩ | ⟨cl, cf, e, f, hlog, hfiles, hcl, hname, hraw⟩
  · exact Or.inl ⟨a, by rw [h2]; exact b, by rw [h3]; exact c⟩
  · refine Or.inr ⟨cl, cf, e, f, hlog, by rw [h2]; exact hfiles, hcl, hname, ?_⟩
    cases hr : e.raw with
    | none => rw [hr] at hraw; dsimp only at hraw ⊢; rw [h3, h4, h5]; exact hraw
    | some src => rw [hr] at hraw; dsimp only at hraw ⊢; rw [h3]; exact hraw

/-- After `start_entry`, the new (non-raw) entry is the open one. -/
theorem NewEntry.tr {name : Bytes} {o : FileOptions} {log : List Entry} {s : WState}
    (h : NewEntry name o none log s) : Tr (log ++ [⟨name, [], none⟩]) s := by
  obtain ⟨h1, h2, h3, h4, cf, f, hfiles, hcl, hx, hn, _⟩ := h
  exact ⟨h1, hx, Or.inr ⟨log, cf, _, f, rfl, hfiles, hcl, hn, h2, h3, h4⟩⟩

theorem writeData_err_closed (buf : Bytes) (s : WState) (hwf : s.writingToFile = true)
    (hwe : s.writingToExtraField = false) (d : Dev) :
    WSat (writeData buf s) none d (fun rs _ => ∀ e, rs.1 = .error e → rs.2.inner = .closed) := by
  obtain ⟨inner, files, sS, sB, sH, wF, wE, cO, wR, cm⟩ := s
  dsimp only at hwf hwe
  subst hwf hwe
  unfold writeData
  split
  · exact WSat.pure (fun e h => by cases h)
  simp only [Bool.not_true, Bool.false_eq_true, if_false]
  cases inner with
  | closed => exact WSat.pure (fun _ _ => rfl)
  | storer enc =>
    cases enc with
    | none =>
      apply WSat.io_none (MSat.writeAll _ none d); intro _ d1 _
      split
      · exact WSat.panic
      · split
        · exact WSat.pure (fun _ _ => rfl)
        · exact WSat.pure (fun e h => by cases h)
    | some e =>
      dsimp only
      split
      · exact WSat.panic
      · split
        · exact WSat.pure (fun _ _ => rfl)
        · exact WSat.pure (fun e h => by cases h)
  | compressor m l enc p =>
    dsimp only
    split
    · exact WSat.panic
    · split
      · exact WSat.pure (fun _ _ => rfl)
      · exact WSat.pure (fun e h => by cases h)

theorem startFile_track (ext : WExt) (name : Bytes) (o : FileOptions) (log : List Entry) (s : WState)
    (hT : Tr log s) (d : Dev) :
    WSat (startFile ext name o s) none d (TPost log fun _ s' => Tr (log ++ [⟨name, [], none⟩]) s') := by
  unfold startFile
  apply WSat.bind
  apply WSat.mono (startEntry_track ext name _ none log s hT d)
  intro ⟨r, s1⟩ d1 hp
  unfold TPost at hp
  dsimp only at hp ⊢
  cases r with
  | error e => exact WSat.pure hp
  | ok u =>
    dsimp only at hp ⊢
    apply WSat.bind
    apply WSat.mono (switchTo_sat ext _ _ s1 none d1).toWSat
    intro ⟨r2, s2⟩ d2 ⟨i, hs2, _, _, _, herr, _⟩
    dsimp only at hs2 herr ⊢
    subst hs2
    cases r2 with
    | error e => exact WSat.pure (Or.inl (herr e rfl))
    | ok u => exact WSat.pure (hp.tr.congr rfl rfl rfl rfl rfl)

/-- `add_directory` appends a `/` unless the name already ends in `/` or `\`. -/
def dirName (name : Bytes) : Bytes :=
  match name.getLast? with
  | some 0x2f => name
  | some 0x5c => name
  | _ => name ++ [0x2f]

theorem addDirectory_track (ext : WExt) (name : Bytes) (o : FileOptions) (log : List Entry) (s : WState)
    (hT : Tr log s) (d : Dev) :
    WSat (addDirectory ext name o s) none d
      (TPost log fun _ s' => Tr (log ++ [⟨dirName name, [], none⟩]) s') := by
  unfold addDirectory
  dsimp only
  apply WSat.bind
  apply WSat.mono (startEntry_track ext (dirName name) _ none log s hT d)
  intro ⟨r, s1⟩ d1 hp
  unfold TPost at hp
  dsimp only at hp ⊢
  cases r with
  | error e => exact WSat.pure hp
  | ok u => exact WSat.pure (hp.tr.congr rfl rfl rfl rfl rfl)

theorem addSymlink_track (ext : WExt) (name target : Bytes) (o : FileOptions) (log : List Entry)
    (s : WState) (hT : Tr log s) (d : Dev) :
    WSat (addSymlink ext name target o s) none d
      (TPost log fun _ s' => Tr (log ++ [⟨name, target, none⟩]) s') := by
  unfold addSymlink
  dsimp only
  apply WSat.bind
  apply WSat.mono (startEntry_track ext name _ none log s hT d)
  intro ⟨r, s1⟩ d1 hp
  unfold TPost at hp
  dsimp only at hp ⊢
  cases r with
  | error e => exact WSat.pure hp
  | ok u =>
    dsimp only at hp ⊢
    have hT1 : Tr (log ++ [⟨name, [], none⟩]) { s1 with writingToFile := true } :=
      hp.tr.congr rfl rfl rfl rfl rfl
    apply WSat.bind
    apply WSat.mono ((writeData_track target _ _ hT1 d1).and
      (writeData_err_closed target { s1 with writingToFile := true } rfl hp.1 d1))
    intro ⟨r2, s2⟩ d2 ⟨hp2, hc2⟩
    unfold TPost at hp2
    dsimp only at hp2 hc2 ⊢
    cases r2 with
    | error e => exact WSat.pure (Or.inl (hc2 e rfl))
    | ok u =>
      dsimp only at hp2 ⊢
      apply WSat.pure
      show Tr _ _
      rw [appendData_snoc] at hp2
      exact hp2.congr rfl rfl rfl rfl rfl

theorem rawCopy_track (ext : WExt) (src : FileData) (raw name : Bytes) (log : List Entry)
    (s : WState) (hT : Tr log s) (d : Dev) :
    WSat (rawCopy ext src raw name s) none d
      (TPost log fun _ s' => Tr (log ++ [⟨name, [], some src⟩]) s') := by
  unfold rawCopy
  dsimp only
  apply WSat.bind
  apply WSat.mono (startEntry_track ext name _ _ log s hT d)
  intro ⟨r, s1⟩ d1 hp
  unfold TPost at hp
  dsimp only at hp ⊢
  cases r with
  | error e => exact WSat.pure hp
  | ok u =>
    dsimp only at hp ⊢
    obtain ⟨h1, h2, h3, h4, cf, f, hfiles, hcl, hx, hn, hc, hcs, hus, hm⟩ := hp
    have hT1 : Tr (log ++ [⟨name, [], some src⟩]) { s1 with writingToFile := true, writingRaw := true } :=
      ⟨h1, hx, Or.inr ⟨log, cf, _, f, rfl, hfiles, hcl, hn, rfl, hc, hcs, hus, hm⟩⟩
    apply WSat.mono ((writeData_track raw _ _ hT1 d1).and
      (writeData_err_closed raw { s1 with writingToFile := true, writingRaw := true } rfl h1 d1))
    intro ⟨r2, s2⟩ d2 ⟨hp2, hc2⟩
    unfold TPost at hp2 ⊢
    dsimp only at hp2 hc2 ⊢
    cases r2 with
    | error e => exact Or.inl (hc2 e rfl)
    | ok u =>
      dsimp only at hp2 ⊢
      rw [appendData_snoc] at hp2
      exact hp2

theorem centralZip64Bytes_length (f : FileData) : (centralZip64Bytes f).length ≤ 28 := by
  unfold centralZip64Bytes
  dsimp only
  have h1 : ∀ (c : Prop) [Decidable c] (v : UInt64), (if c then le64 v else []).length ≤ 8 := by
    intro c _ v; split <;> simp
  have a := h1 (f.uncompressedSize ≥ ZIP64_BYTES_THR) f.uncompressedSize
  have b := h1 (f.compressedSize ≥ ZIP64_BYTES_THR) f.compressedSize
  have c := h1 (f.headerStart ≥ ZIP64_BYTES_THR) f.headerStart
  by_cases h0 : ((if f.uncompressedSize ≥ ZIP64_BYTES_THR then 8 else 0) + (if f.compressedSize ≥ ZIP64_BYTES_THR then 8 else 0) + (if f.headerStart ≥ ZIP64_BYTES_THR then 8 else 0)) = 0
  · rw [if_pos h0]; simp
  · rw [if_neg h0]
    simp only [List.length_append, le16_length]
    omega

theorem centralHeaderChunks_ne_err {f : FileData} (hx : f.extraField = []) (e : ZErr) :
    centralHeaderChunks f ≠ .err e := by
  unfold centralHeaderChunks
  have := centralZip64Bytes_length f
  have hn : ¬ ((centralZip64Bytes f).length + f.extraField.length > 65535) := by
    rw [hx]; simp; omega
  dsimp only [bind, Out.instMonad]
  rw [if_neg hn]
  unfold datepartOut
  cases f.time.datepart <;> intro h <;> cases h

theorem writeAllCentral_track (s : WState) (fs : List FileData) (hfs : ∀ f ∈ fs, f.extraField = [])
    (d : Dev) :
    WSat (finalize.writeAllCentral s fs) none d (fun rs _ => rs = (.ok (), s)) := by
  induction fs generalizing d with
  | nil => unfold finalize.writeAllCentral; exact WSat.pure rfl
  | cons f rest ih =>
    unfold finalize.writeAllCentral
    split
    · exact WSat.panic
    · next e h => exact absurd h (centralHeaderChunks_ne_err (hfs f (by simp)) e)
    · apply WSat.io_none (MSat.writeChunks _ none d); intro _ d1 _
      exact ih (fun g hg => hfs g (by simp [hg])) d1

theorem finalize_track (ext : WExt) (log : List Entry) (s : WState) (hT : Tr log s) (d : Dev) :
    WSat (finalize ext s) none d (TPost log fun _ s' => Done log s') := by
  unfold finalize
  split
  · exact WSat.pure (Or.inr hT)
  apply WSat.bind
  apply WSat.mono (finishFile_track ext log s hT d)
  intro ⟨r, s1⟩ d1 hp
  unfold TPost at hp
  dsimp only at hp ⊢
  cases r with
  | error e => exact WSat.pure hp
  | ok u =>
    dsimp only at hp ⊢
    split
    · apply WSat.io_none (MSat.streamPosition none d1); intro cs d2 _
      apply WSat.bind
      apply WSat.mono (writeAllCentral_track s1 s1.files hp.extraNil d2)
      intro ⟨r3, s3⟩ d3 h3
      cases h3
      dsimp only
      apply WSat.io_none (MSat.streamPosition none d3); intro ce d4 _
      split
      · exact WSat.panic
      · apply WSat.bind
        have hz : WSat (if (decide (s1.files.length > ZIP64_ENTRY_THR) || decide (max (ce - cs) cs > 0xFFFFFFFF)) = true then
            io s1 (M.writeChunks (eocd64Chunks {
              versionMadeBy := DEFAULT_VERSION.toUInt16, versionNeeded := DEFAULT_VERSION.toUInt16,
              diskNumber := 0, diskWithCd := 0, filesOnDisk := UInt64.ofNat s1.files.length, files := UInt64.ofNat s1.files.length,
              cdSize := UInt64.ofNat (ce - cs), cdOffset := UInt64.ofNat cs })) fun _ =>
            io s1 (M.writeChunks (locatorChunks {
              diskWithCd := 0, eocd64Offset := UInt64.ofNat (cs + (ce - cs)), disks := 1 })) fun _ =>
            pure (.ok (), s1)
          else pure (.ok (), s1)) none d4 (fun rs _ => rs = (.ok (), s1)) := by
          split
          · apply WSat.io_none (MSat.writeChunks _ none d4); intro _ d5 _
            apply WSat.io_none (MSat.writeChunks _ none d5); intro _ d6 _
            exact WSat.pure rfl
          · exact WSat.pure rfl
        apply WSat.mono hz
        intro ⟨r5, s5⟩ d5 h5
        cases h5
        dsimp only
        apply WSat.io_none (MSat.writeChunks _ none d5); intro _ d7 _
        exact WSat.pure hp
    · exact WSat.panic

theorem finish_track (ext : WExt) (log : List Entry) (s : WState) (hT : Tr log s) (d : Dev) :
    WSat (finish ext s) none d
      (TPost log fun _ s' => Forall2 Closed log s'.files ∧ s'.inner = .closed) := by
  unfold finish
  apply WSat.bind
  apply WSat.mono (finalize_track ext log s hT d)
  intro ⟨r, s1⟩ d1 hp
  unfold TPost at hp
  dsimp only at hp ⊢
  cases r with
  | error e => exact WSat.pure hp
  | ok u =>
    dsimp only at hp ⊢
    split
    · exact WSat.pure ⟨hp.closed, rfl⟩
    · exact WSat.panic

theorem startFile_closed (ext : WExt) (name : Bytes) (o : FileOptions) {s : WState}
    (h : s.inner = .closed) : ∃ e, startFile ext name o s = pure (.error e, s) := by
  unfold startFile
  dsimp only
  generalize hx : startEntry ext _ _ _ s = x
  obtain ⟨e, he⟩ : ∃ e, x = pure (.error e, s) := by rw [← hx]; exact startEntry_closed ext _ _ _ h
  subst he
  exact ⟨e, rfl⟩

theorem addDirectory_closed (ext : WExt) (name : Bytes) (o : FileOptions) {s : WState}
    (h : s.inner = .closed) : ∃ e, addDirectory ext name o s = pure (.error e, s) := by
  unfold addDirectory
  dsimp only
  generalize hx : startEntry ext _ _ _ s = x
  obtain ⟨e, he⟩ : ∃ e, x = pure (.error e, s) := by rw [← hx]; exact startEntry_closed ext _ _ _ h
  subst he
  exact ⟨e, rfl⟩

theorem addSymlink_closed (ext : WExt) (name target : Bytes) (o : FileOptions) {s : WState}
    (h : s.inner = .closed) : ∃ e, addSymlink ext name target o s = pure (.error e, s) := by
  unfold addSymlink
  dsimp only
  generalize hx : startEntry ext _ _ _ s = x
  obtain ⟨e, he⟩ : ∃ e, x = pure (.error e, s) := by rw [← hx]; exact startEntry_closed ext _ _ _ h
  subst he
  exact ⟨e, rfl⟩

theorem rawCopy_closed (ext : WExt) (src : FileData) (raw name : Bytes) {s : WState}
    (h : s.inner = .closed) : ∃ e, rawCopy ext src raw name s = pure (.error e, s) := by
  unfold rawCopy
  dsimp only
  generalize hx : startEntry ext _ _ _ s = x
  obtain ⟨e, he⟩ : ∃ e, x = pure (.error e, s) := by rw [← hx]; exact startEntry_closed ext _ _ _ h
  subst he
  exact ⟨e, rfl⟩

theorem endLocalStartCentral_closed (ext : WExt) {s : WState}
    (h : s.inner = .closed) : ∃ e, endLocalStartCentral ext s = pure (.error e, s) := by
  obtain ⟨e, he⟩ := endExtraData_closed ext h
  exact ⟨e, by unfold endLocalStartCentral; rw [he]; rfl⟩

end ZipVerif.Model
