import ZipVerif.Lemmas.WriterTrack
/-
Third layer for C12: which method / level combinations `switch_to` refuses, and the enabling
conditions under which the calls succeed on a fault-free sink (`Ready`), with the per-function
partial-correctness lemmas behind the `*_succeeds` theorems of Props/C12.
-/

namespace ZipVerif.Model
open ZipVerif

/-- A method / level combination `switch_to` refuses: the AES pseudo-method, an unknown method, or
a level outside the range of a compressing method (Deflated 0..9, Bzip2 1..9, Zstd -131072..22).
(`Stored` is never refused from a storer — see `stored_level_is_accepted`.) -/
def Refused (c : Method) (l : Option Int) : Prop :=
  match c with
  | .stored => False
  | .aes => True
  | .unsupported _ => True
  | m =>
    match levelRange m with
    | none => True
    | some (lo, hi, dflt) => ¬ (lo ≤ l.getD dflt ∧ l.getD dflt ≤ hi)

instance (c : Method) (l : Option Int) : Decidable (Refused c l) := by
  unfold Refused
  cases c <;> simp only [levelRange] <;> infer_instance

/-- `switch_to` from a storer refuses exactly these with `UnsupportedArchive` — and leaves the
writer closed (the bare sink has already been taken out). -/
theorem switchTo_refuses (ext : WExt) (c : Method) (l : Option Int) (s : WState) (enc : Option EncState)
    (hin : s.inner = .storer enc) (hr : Refused c l) :
    switchTo ext c l s = pure (.error .unsupportedArchive, { s with inner := .closed }) := by
  unfold switchTo
  cases c <;> simp only [Refused, levelRange] at hr <;>
    simp [hin, Inner.currentCompression, levelRange, hr]

/-- `switch_to` from a storer accepts every method / level it does not refuse (no I/O happens). -/
theorem switchTo_accepts (ext : WExt) (c : Method) (l : Option Int) (s : WState) (enc : Option EncState)
    (hin : s.inner = .storer enc) (hr : ¬ Refused c l) :
    ∃ i, switchTo ext c l s = pure (.ok (), { s with inner := i }) := by
  obtain ⟨inner, files, sS, sB, sH, wF, wE, cO, wR, cm⟩ := s
  dsimp only at hin; subst hin
  unfold switchTo
  cases c with
  | stored => exact ⟨.storer enc, by simp [Inner.currentCompression]⟩
  | aes => exact absurd trivial hr
  | unsupported v => exact absurd trivial hr
  | deflated =>
    simp only [Refused, levelRange, Decidable.not_not] at hr
    exact ⟨.compressor .deflated (l.getD 6) enc [], by simp [Inner.currentCompression, levelRange, hr]⟩
  | bzip2 =>
    simp only [Refused, levelRange, Decidable.not_not] at hr
    exact ⟨.compressor .bzip2 (l.getD 6) enc [], by simp [Inner.currentCompression, levelRange, hr]⟩
  | zstd =>
    simp only [Refused, levelRange, Decidable.not_not] at hr
    exact ⟨.compressor .zstd (l.getD 3) enc [], by simp [Inner.currentCompression, levelRange, hr]⟩

/-- The writer is between entries of the plain kind: not in extra-data mode, the sink handed back
(`Storer(Unencrypted)`), and — unless the last entry is a raw copy — the sink position is at or
after the start of the last entry's data, which fits 32 bits or was declared `large_file`. -/
def Ready (s : WState) (d : Dev) : Prop :=
  s.writingToExtraField = false ∧ s.inner = .storer none ∧
  (s.writingRaw = true ∨ ∀ f, s.files.getLast? = some f →
    s.statsStart ≤ d.pos ∧ (f.largeFile = true ∨ d.pos - s.statsStart ≤ 0xFFFFFFFF))

theorem ofNat_le_thr {n : Nat} (h : n ≤ 0xFFFFFFFF) : ¬ (UInt64.ofNat n > ZIP64_BYTES_THR) := by
  intro hgt
  have h1 : (UInt64.ofNat n).toNat = n := by
    rw [UInt64.toNat_ofNat']; exact Nat.mod_eq_of_lt (by omega)
  have h2 : ZIP64_BYTES_THR.toNat < (UInt64.ofNat n).toNat := UInt64.lt_iff_toNat_lt.mp hgt
  rw [h1] at h2
  have : ZIP64_BYTES_THR.toNat = 0xFFFFFFFF := by decide
  omega

theorem afterEnc_ok (s : WState) (d : Dev) (hin : s.inner = .storer none)
    (hpos : s.writingRaw = true ∨ ∀ f, s.files.getLast? = some f →
      s.statsStart ≤ d.pos ∧ (f.largeFile = true ∨ d.pos - s.statsStart ≤ 0xFFFFFFFF)) :
    WSat (afterEnc s) none d (fun rs _ => rs.1 = .ok ()) := by
  unfold afterEnc
  split
  · split
    · next hwr =>
      have hwr' : s.writingRaw = false := by simpa using hwr
      split
      · exact WSat.pure rfl
      · next file hfile =>
        rcases hpos with h | h
        · rw [hwr'] at h; cases h
        · obtain ⟨hle, hsz⟩ := h file hfile
          dsimp only
          apply WSat.io_none (MSat.streamPosition none d); intro fe d1 ⟨hfe, _⟩
          subst hfe
          rw [if_neg (by omega)]
          apply WSat.updateLocalHeader_none'
          · intro d2
            apply WSat.io_none (MSat.seekStart _ none d2); intro _ d3 _
            exact WSat.pure rfl
          · intro hlf hbig
            dsimp only at hlf hbig
            rcases hsz with h | h
            · rw [h] at hlf; cases hlf
            · exact absurd hbig (ofNat_le_thr h)
    · exact WSat.pure rfl
  · next h => exact absurd hin h

theorem finishFile_ok (ext : WExt) (s : WState) (d : Dev) (hr : Ready s d) :
    WSat (finishFile ext s) none d (fun rs _ => rs.1 = .ok ()) := by
  obtain ⟨hwe, hin, hpos⟩ := hr
  obtain ⟨inner, files, sS, sB, sH, wF, wE, cO, wR, cm⟩ := s
  dsimp only at hwe hin hpos
  subst hwe hin
  unfold finishFile
  simp only [Bool.false_eq_true, if_false]
  apply WSat.bind; apply WSat.pure; dsimp only
  have hsw : ∀ st : WState, st.inner = .storer none → switchTo ext .stored none st = pure (.ok (), st) := by
    intro st h; unfold switchTo; simp [h, Inner.currentCompression]
  rw [hsw _ rfl]
  apply WSat.bind; apply WSat.pure; dsimp only
  exact afterEnc_ok { inner := .storer none, files := files, statsStart := sS, statsBytes := sB, statsHasher := sH, writingToFile := wF, writingToExtraField := false, centralOnly := cO, writingRaw := wR, comment := cm } d rfl hpos

theorem startEntry_ok (ext : WExt) (name : Bytes) (o : FileOptions) (raw : Option (UInt32 × UInt64 × UInt64))
    (s : WState) (hI : Inv s) (d : Dev) (hr : Ready s d) (hn : name.length ≤ 65535) (ho : TimeOk o.time) :
    WSat (startEntry ext name o raw s) none d (fun rs _ => rs.1 = .ok ()) := by
  unfold startEntry
  rw [if_neg (by omega)]
  apply WSat.bind
  apply WSat.mono ((finishFile_sat ext s hI none d).toWSat.and (finishFile_ok ext s d hr))
  intro ⟨r, s1⟩ d1 ⟨⟨hI1, hp⟩, hok⟩
  dsimp only at hI1 hp hok ⊢
  subst hok
  obtain ⟨hin, _⟩ := hp () rfl
  dsimp only
  rw [hin]
  dsimp only
  apply WSat.io_none (MSat.streamPosition none d1); intro hs d2 _
  split
  · exact WSat.panic
  · next e h => obtain ⟨c, hc⟩ := localHeaderChunks_new h ho rfl; cases hc
  · apply WSat.io_none (MSat.writeChunks _ none d2); intro _ d3 _
    apply WSat.io_none (MSat.streamPosition none d3); intro he d4 _
    split <;> exact WSat.pure rfl

theorem centralHeaderChunks_fits {f : FileData} (hx : f.extraField.length ≤ 65507) (e : ZErr) :
    centralHeaderChunks f ≠ .err e := by
  unfold centralHeaderChunks
  have := centralZip64Bytes_length f
  have hn : ¬ ((centralZip64Bytes f).length + f.extraField.length > 65535) := by omega
  dsimp only [bind, Out.instMonad]
  rw [if_neg hn]
  unfold datepartOut
  cases f.time.datepart <;> intro h <;> cases h

theorem writeAllCentral_ok (s : WState) (fs : List FileData) (hfs : ∀ f ∈ fs, f.extraField.length ≤ 65507)
    (d : Dev) : WSat (finalize.writeAllCentral s fs) none d (fun rs _ => rs = (.ok (), s)) := by
  induction fs generalizing d with
  | nil => unfold finalize.writeAllCentral; exact WSat.pure rfl
  | cons f rest ih =>
    unfold finalize.writeAllCentral
    split
    · exact WSat.panic
    · next e h => exact absurd h (centralHeaderChunks_fits (hfs f (by simp)) e)
    · apply WSat.io_none (MSat.writeChunks _ none d); intro _ d1 _
      exact ih (fun g hg => hfs g (by simp [hg])) d1

/-- `finish_file`'s tail only touches the checksum and size fields. -/
theorem afterEnc_extra (s : WState) (d : Dev) :
    WSat (afterEnc s) none d (fun rs _ => ∀ g ∈ rs.2.files, ∃ f ∈ s.files, g.extraField = f.extraField) := by
  have hself : ∀ g ∈ s.files, ∃ f ∈ s.files, g.extraField = f.extraField := fun g hg => ⟨g, hg, rfl⟩
  unfold afterEnc
  split
  · split
    · split
      · exact WSat.pure hself
      · next file hfile =>
        have hfm := mem_of_getLast? hfile
        have h1 : ∀ (g0 : FileData), g0.extraField = file.extraField → ∀ g ∈ setLast s.files g0, ∃ f ∈ s.files, g.extraField = f.extraField := by
          intro g0 hg0 g hg
          rcases mem_setLast hg with h | h
          · exact ⟨file, hfm, by rw [h, hg0]⟩
          · exact ⟨g, h, rfl⟩
        have h2 : ∀ (g0 g1 : FileData), g0.extraField = file.extraField → g1.extraField = file.extraField →
            ∀ g ∈ setLast (setLast s.files g0) g1, ∃ f ∈ s.files, g.extraField = f.extraField := by
          intro g0 g1 hg0 hg1 g hg
          rcases mem_setLast hg with h | h
          · exact ⟨file, hfm, by rw [h, hg1]⟩
          · exact h1 g0 hg0 g h
        dsimp only
        apply WSat.io_none (MSat.streamPosition none d); intro fe d1 _
        split
        · exact WSat.pure (h1 _ rfl)
        · apply WSat.updateLocalHeader_none
          · intro d2
            apply WSat.io_none (MSat.seekStart _ none d2); intro _ d3 _
            exact WSat.pure (h2 _ _ rfl rfl)
          · intro d2; exact h2 _ _ rfl rfl
    · exact WSat.pure hself
  · exact WSat.panic

theorem finishFile_extra (ext : WExt) (s : WState) (d : Dev) (hr : Ready s d) :
    WSat (finishFile ext s) none d
      (fun rs _ => ∀ g ∈ rs.2.files, ∃ f ∈ s.files, g.extraField = f.extraField) := by
  obtain ⟨hwe, hin, hpos⟩ := hr
  obtain ⟨inner, files, sS, sB, sH, wF, wE, cO, wR, cm⟩ := s
  dsimp only at hwe hin hpos
  subst hwe hin
  unfold finishFile
  simp only [Bool.false_eq_true, if_false]
  apply WSat.bind; apply WSat.pure; dsimp only
  have hsw : ∀ st : WState, st.inner = .storer none → switchTo ext .stored none st = pure (.ok (), st) := by
    intro st h; unfold switchTo; simp [h, Inner.currentCompression]
  rw [hsw _ rfl]
  apply WSat.bind; apply WSat.pure; dsimp only
  exact afterEnc_extra { inner := .storer none, files := files, statsStart := sS, statsBytes := sB, statsHasher := sH, writingToFile := wF, writingToExtraField := false, centralOnly := cO, writingRaw := wR, comment := cm } d


/-- What `start_entry` leaves for the new entry: fresh statistics, the requested `large_file` flag. -/
theorem startEntry_fresh (ext : WExt) (name : Bytes) (o : FileOptions) (raw : Option (UInt32 × UInt64 × UInt64))
    (s : WState) (d : Dev) :
    WSat (startEntry ext name o raw s) none d (fun rs _ => rs.1 = .ok () →
      rs.2.statsBytes = 0 ∧ ∃ f, rs.2.files.getLast? = some f ∧ f.largeFile = o.largeFile) := by
  unfold startEntry
  split
  · exact WSat.pure (fun h => by cases h)
  apply WSat.bind
  apply WSat.mono (WSat.trivial (finishFile ext s) none d)
  intro ⟨r, s1⟩ d1 _
  dsimp only
  cases r with
  | error e => exact WSat.pure (fun h => by cases h)
  | ok u =>
    dsimp only
    split
    · apply WSat.io_none (MSat.streamPosition none d1); intro hs d2 _
      split
      · exact WSat.panic
      · exact WSat.pure (fun h => by cases h)
      · apply WSat.io_none (MSat.writeChunks _ none d2); intro _ d3 _
        apply WSat.io_none (MSat.streamPosition none d3); intro he d4 _
        split
        · exact WSat.pure (fun _ => ⟨rfl, _, List.getLast?_concat .., rfl⟩)
        · exact WSat.pure (fun _ => ⟨rfl, _, List.getLast?_concat .., rfl⟩)
    · exact WSat.panic

end ZipVerif.Model
