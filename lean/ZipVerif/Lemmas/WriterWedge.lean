import ZipVerif.Lemmas.WriterTrack
/-
The writer after `end_extra_data` (explicit, or implicit in `start_*` / `finish`) refused the extra data
of the open entry: what state it is in and what every later call does (C17 / C12, finding B6).
-/

namespace ZipVerif.Model
open ZipVerif

/-- **The wedged writer**: still in extra-field mode, not closed, and `validate_extra_data` refuses the
open entry's extra field with `e`. -/
structure Wedged (s : WState) (e : ZErr) : Prop where
  inExtra : s.writingToExtraField = true
  notClosed : s.inner.isClosed = false
  refused : ∃ file, s.files.getLast? = some file ∧ validateExtraData file = .error e

/-- `end_extra_data` on data that does not validate returns the validation error and changes nothing —
neither the writer (still in extra-field mode, the rejected bytes still in `extra_field`) nor the sink. -/
theorem endExtraData_wedged (ext : WExt) {s : WState} {e : ZErr} (h : Wedged s e) :
    endExtraData ext s = pure (.error e, s) := by
  obtain ⟨file, hl, hv⟩ := h.refused
  unfold endExtraData
  simp only [h.inExtra, h.notClosed, Bool.not_true, Bool.false_eq_true, if_false, hl, hv]

theorem endLocalStartCentral_wedged (ext : WExt) {s : WState} {e : ZErr} (h : Wedged s e) :
    endLocalStartCentral ext s = pure (.error e, s) := by
  unfold endLocalStartCentral
  rw [endExtraData_wedged ext h]
  rfl

theorem finishFile_wedged (ext : WExt) {s : WState} {e : ZErr} (h : Wedged s e) :
    finishFile ext s = pure (.error e, s) := by
  unfold finishFile
  simp only [h.inExtra, if_true]
  rw [endExtraData_wedged ext h]
  rfl

theorem startEntry_wedged (ext : WExt) (name : Bytes) (o : FileOptions) (raw) {s : WState} {e : ZErr}
    (h : Wedged s e) (hn : name.length ≤ 65535) : startEntry ext name o raw s = pure (.error e, s) := by
  unfold startEntry
  have hn' : ¬ name.length > 65535 := by omega
  simp only [hn', if_false]
  rw [finishFile_wedged ext h]
  rfl

theorem startFile_wedged (ext : WExt) (name : Bytes) (o : FileOptions) {s : WState} {e : ZErr}
    (h : Wedged s e) (hn : name.length ≤ 65535) : startFile ext name o s = pure (.error e, s) := by
  unfold startFile
  dsimp only
  rw [startEntry_wedged ext _ _ _ h hn]
  rfl

theorem startFileWithExtraData_wedged (ext : WExt) (name : Bytes) (o : FileOptions) {s : WState} {e : ZErr}
    (h : Wedged s e) (hn : name.length ≤ 65535) :
    startFileWithExtraData ext name o s = pure (.error e, s) := by
  unfold startFileWithExtraData
  dsimp only
  rw [startEntry_wedged ext _ _ _ h hn]
  rfl

theorem startFileAligned_wedged (ext : WExt) (name : Bytes) (o : FileOptions) (al : UInt16) {s : WState}
    {e : ZErr} (h : Wedged s e) (hn : name.length ≤ 65535) :
    startFileAligned ext name o al s = pure (.error e, s) := by
  unfold startFileAligned
  rw [startFileWithExtraData_wedged ext _ _ h hn]
  rfl

theorem finalize_wedged (ext : WExt) {s : WState} {e : ZErr} (h : Wedged s e)
    (hc : s.comment.length ≤ 65535) : finalize ext s = pure (.error e, s) := by
  unfold finalize
  have hn' : ¬ s.comment.length > 65535 := by omega
  simp only [hn', if_false]
  rw [finishFile_wedged ext h]
  rfl

/-- `finish()` of a wedged writer fails with the SAME error and leaves the writer wedged: nothing is
written, the entries written earlier never get their central directory. -/
theorem finish_wedged (ext : WExt) {s : WState} {e : ZErr} (h : Wedged s e)
    (hc : s.comment.length ≤ 65535) : finish ext s = pure (.error e, s) := by
  unfold finish
  rw [finalize_wedged ext h hc]
  rfl

/-- A `write` on a wedged writer reports success and appends to the REJECTED extra field (it does not
reach the sink and is not counted as entry data). -/
theorem writeData_wedged (buf : Bytes) {s : WState} {e : ZErr} (h : Wedged s e)
    (hb : buf.isEmpty = false) (hw : s.writingToFile = true) :
    ∃ f, s.files.getLast? = some f ∧
      writeData buf s = pure (.ok (), { s with files := setLast s.files { f with extraField := f.extraField ++ buf } }) := by
  obtain ⟨file, hl, _⟩ := h.refused
  refine ⟨file, hl, ?_⟩
  unfold writeData
  simp only [hb, Bool.false_eq_true, if_false, hw, Bool.not_true, h.inExtra, if_true, hl]
  have hnc := h.notClosed
  cases hi : s.inner with
  | closed => rw [hi] at hnc; cases hnc
  | storer enc => rfl
  | compressor m l enc p => rfl

end ZipVerif.Model
