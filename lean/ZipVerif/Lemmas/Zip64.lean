import ZipVerif.Model.Records
/- Helper lemmas for C08: the central ZIP64 extended-information record written by
`write_central_zip64_extra_field` is read back exactly by `parse_extra_field`. -/

namespace ZipVerif.Model
open ZipVerif

theorem min32_toUInt64_of_lt {x : UInt64} (h : ¬ x ≥ ZIP64_BYTES_THR) : (min32 x).toUInt64 = x := by
  have hx : x.toNat < 4294967295 := by
    have : ¬ (ZIP64_BYTES_THR.toNat ≤ x.toNat) := by
      intro hc; exact h (UInt64.le_iff_toNat_le.mpr hc)
    have e : ZIP64_BYTES_THR.toNat = 4294967295 := by decide
    omega
  have hle : x ≤ ZIP64_BYTES_THR := by
    apply UInt64.le_iff_toNat_le.mpr
    have e : ZIP64_BYTES_THR.toNat = 4294967295 := by decide
    omega
  unfold min32
  rw [if_pos hle]
  apply UInt64.toNat_inj.mp
  rw [UInt32.toNat_toUInt64, UInt64.toNat_toUInt32]
  omega

theorem min32_toUInt64_of_ge {x : UInt64} (h : x ≥ ZIP64_BYTES_THR) :
    (min32 x).toUInt64 = ZIP64_BYTES_THR := by
  have e : ZIP64_BYTES_THR.toNat = 4294967295 := by decide
  have hx : 4294967295 ≤ x.toNat := by
    have := UInt64.le_iff_toNat_le.mp h; omega
  unfold min32
  by_cases hle : x ≤ ZIP64_BYTES_THR
  · have : x.toNat ≤ 4294967295 := by have := UInt64.le_iff_toNat_le.mp hle; omega
    have hx' : x = ZIP64_BYTES_THR := UInt64.toNat_inj.mp (by omega)
    rw [if_pos hle, hx']; decide
  · rw [if_neg hle]; decide

theorem min32_eq_thr_iff (x : UInt64) : ((min32 x).toUInt64 == ZIP64_BYTES_THR) = decide (x ≥ ZIP64_BYTES_THR) := by
  by_cases h : x ≥ ZIP64_BYTES_THR
  · rw [min32_toUInt64_of_ge h]; simp [h]
  · rw [min32_toUInt64_of_lt h]
    have : ¬ (x = ZIP64_BYTES_THR) := by
      intro hc; apply h; rw [hc]; exact UInt64.le_refl _
    simp [h, this]

end ZipVerif.Model

namespace ZipVerif.Model
open ZipVerif

/-- What the central-header parser holds after the fixed 46 bytes and before the extra field. -/
def f32 (f : FileData) : FileData :=
  { f with uncompressedSize := (min32 f.uncompressedSize).toUInt64,
           compressedSize := (min32 f.compressedSize).toUInt64,
           headerStart := (min32 f.headerStart).toUInt64,
           largeFile := false }

/-- What it holds after the ZIP64 record has been parsed. -/
def f64 (f : FileData) : FileData :=
  { f with largeFile := decide (f.uncompressedSize ≥ ZIP64_BYTES_THR) || decide (f.compressedSize ≥ ZIP64_BYTES_THR) }

/-- The `0x0001` branch of `parse_extra_field` on a record holding exactly the fields whose 32-bit
value is the sentinel, in the fixed order. -/
theorem parse_zip64_record (f0 : FileData) (bu bc bh : Bool) (u c h : UInt64) (rest : Bytes)
    (fuel : Nat)
    (hu : (f0.uncompressedSize == ZIP64_BYTES_THR) = bu)
    (hc : (f0.compressedSize == ZIP64_BYTES_THR) = bc)
    (hh : (f0.headerStart == ZIP64_BYTES_THR) = bh) :
    parseExtraField (fuel + 1) f0
      (le16 0x0001 ++ le16 (UInt16.ofNat ((if bu then 8 else 0) + (if bc then 8 else 0) + (if bh then 8 else 0))) ++
        (if bu then le64 u else []) ++ (if bc then le64 c else []) ++ (if bh then le64 h else []) ++ rest) =
    parseExtraField fuel
      { f0 with largeFile := f0.largeFile || bu || bc,
                uncompressedSize := if bu then u else f0.uncompressedSize,
                compressedSize := if bc then c else f0.compressedSize,
                headerStart := if bh then h else f0.headerStart } rest := by
  have e1 : ((1 : UInt16) == 1) = true := by decide
  have n0 : (UInt16.ofNat 0).toNat = 0 := by decide
  have n8 : (UInt16.ofNat 8).toNat = 8 := by decide
  have n16 : (UInt16.ofNat 16).toNat = 16 := by decide
  have n24 : (UInt16.ofNat 24).toNat = 24 := by decide
  rw [parseExtraField]
  have hne : ∀ x : Bytes, (le16 1 ++ x).isEmpty = false := by intro x; simp [le16]
  simp only [List.append_assoc, hne, Bool.false_eq_true, if_false, rd16_le16, e1, if_true]
  cases bu <;> cases bc <;> cases bh <;>
    simp only [takeU64If, hu, hc, hh, rd64_le64, Bool.false_eq_true, if_false, if_true,
      List.nil_append, List.append_assoc, Option.isSome_some, Option.isSome_none, Nat.add_zero,
      Nat.zero_add, n0, n8, n16, n24, Bool.or_false, Bool.or_true, Bool.or_self, Nat.reduceAdd] <;>
    simp

/-- **Central ZIP64 record round trip**: the record `write_central_zip64_extra_field` emits for `f`,
followed by any further extra data, is parsed back to exactly `f`'s 64-bit values, for every `UInt64`
value of the three fields (including exactly 0xFFFFFFFF and either side). -/
theorem parse_central_zip64 (f : FileData) (rest : Bytes) (fuel : Nat) :
    parseExtraField (fuel + 1) (f32 f) (centralZip64Bytes f ++ rest) =
      if centralZip64Bytes f = [] then parseExtraField (fuel + 1) (f64 f) rest
      else parseExtraField fuel (f64 f) rest := by
  have eu := min32_eq_thr_iff f.uncompressedSize
  have ec := min32_eq_thr_iff f.compressedSize
  have eh := min32_eq_thr_iff f.headerStart
  by_cases hz : (decide (f.uncompressedSize ≥ ZIP64_BYTES_THR) || decide (f.compressedSize ≥ ZIP64_BYTES_THR) ||
      decide (f.headerStart ≥ ZIP64_BYTES_THR)) = false
  · -- no field needs ZIP64: nothing is written, and the 32-bit fields hold the values
    simp only [Bool.or_eq_false_iff, decide_eq_false_iff_not] at hz
    obtain ⟨⟨hu, hc⟩, hh⟩ := hz
    have hzb : centralZip64Bytes f = [] := by
      simp [centralZip64Bytes, hu, hc, hh]
    rw [hzb, if_pos rfl, List.nil_append]
    congr 1
    simp [f32, f64, min32_toUInt64_of_lt hu, min32_toUInt64_of_lt hc, min32_toUInt64_of_lt hh, hu, hc]
  · have hzb : centralZip64Bytes f ≠ [] := by
      simp only [Bool.not_eq_false, Bool.or_eq_true, decide_eq_true_eq] at hz
      unfold centralZip64Bytes
      rcases hz with (hu | hc) | hh
      · simp [hu, le16]
      · simp [hc, le16]
      · simp [hh, le16]
    rw [if_neg hzb]
    have key := parse_zip64_record (f32 f) (decide (f.uncompressedSize ≥ ZIP64_BYTES_THR))
      (decide (f.compressedSize ≥ ZIP64_BYTES_THR)) (decide (f.headerStart ≥ ZIP64_BYTES_THR))
      f.uncompressedSize f.compressedSize f.headerStart rest fuel eu ec eh
    have hbytes : centralZip64Bytes f ++ rest =
        le16 0x0001 ++ le16 (UInt16.ofNat ((if decide (f.uncompressedSize ≥ ZIP64_BYTES_THR) then 8 else 0) +
          (if decide (f.compressedSize ≥ ZIP64_BYTES_THR) then 8 else 0) +
          (if decide (f.headerStart ≥ ZIP64_BYTES_THR) then 8 else 0))) ++
        (if decide (f.uncompressedSize ≥ ZIP64_BYTES_THR) then le64 f.uncompressedSize else []) ++
        (if decide (f.compressedSize ≥ ZIP64_BYTES_THR) then le64 f.compressedSize else []) ++
        (if decide (f.headerStart ≥ ZIP64_BYTES_THR) then le64 f.headerStart else []) ++ rest := by
      simp only [Bool.not_eq_false, Bool.or_eq_true, decide_eq_true_eq] at hz
      by_cases hu : f.uncompressedSize ≥ ZIP64_BYTES_THR <;>
      by_cases hc : f.compressedSize ≥ ZIP64_BYTES_THR <;>
      by_cases hh : f.headerStart ≥ ZIP64_BYTES_THR <;>
      simp [centralZip64Bytes, hu, hc, hh] <;>
      simp_all
    rw [hbytes, key]
    congr 1
    by_cases hu : f.uncompressedSize ≥ ZIP64_BYTES_THR <;>
    by_cases hc : f.compressedSize ≥ ZIP64_BYTES_THR <;>
    by_cases hh : f.headerStart ≥ ZIP64_BYTES_THR <;>
    simp [f32, f64, hu, hc, hh, min32_toUInt64_of_lt]

end ZipVerif.Model
