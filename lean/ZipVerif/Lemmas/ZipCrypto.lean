import ZipVerif.Model.ZipCrypto
import ZipVerif.Spec.Pkware
/-
Helper lemmas for C15: the crate's cipher (model) coincides with the APPNOTE cipher (Spec.Pkware),
including the `| 2` (APPNOTE) versus `| 3` (crate) stream-byte formula; structural facts about
`decryptAll` / `encryptAll`.
-/

namespace ZipVerif.Model.ZipCrypto
open ZipVerif ZipVerif.Spec

/- Decidable equality of outcomes, so that concrete instances can be checked with `decide +kernel`.
   Declared inside this namespace so that its generated name cannot clash with another module's. -/
deriving instance DecidableEq for ZipVerif.Out

/-! ### `| 2` versus `| 3` -/

theorem testBit_small (c i : Nat) (h : c < 4) : Nat.testBit c (i + 2) = false := by
  apply Nat.testBit_lt_two_pow
  have : 4 ≤ 2 ^ (i + 2) := by
    rw [Nat.pow_succ, Nat.pow_succ]; have := Nat.one_le_two_pow (n := i); omega
  omega

theorem or3_xor1 (n : Nat) (h : n % 2 = 0) : (n ||| 3) ^^^ 1 = n ||| 2 := by
  apply Nat.eq_of_testBit_eq; intro i
  rw [Nat.testBit_xor, Nat.testBit_or, Nat.testBit_or]
  match i with
  | 0 => simp [Nat.testBit_zero, h]
  | 1 => simp [Nat.testBit_succ]
  | i+2 => rw [testBit_small 3 i (by omega), testBit_small 2 i (by omega), testBit_small 1 i (by omega)]; simp

theorem or2_xor1 (n : Nat) (h : n % 2 = 0) : (n ||| 2) ^^^ 1 = n ||| 3 := by
  apply Nat.eq_of_testBit_eq; intro i
  rw [Nat.testBit_xor, Nat.testBit_or, Nat.testBit_or]
  match i with
  | 0 => simp [Nat.testBit_zero, h]
  | 1 => simp [Nat.testBit_succ]
  | i+2 => rw [testBit_small 3 i (by omega), testBit_small 2 i (by omega), testBit_small 1 i (by omega)]; simp

theorem or2_eq_or3 (n : Nat) (h : n % 2 = 1) : n ||| 2 = n ||| 3 := by
  apply Nat.eq_of_testBit_eq; intro i
  rw [Nat.testBit_or, Nat.testBit_or]
  match i with
  | 0 => simp [Nat.testBit_zero, h]
  | 1 => simp [Nat.testBit_succ]
  | i+2 => rw [testBit_small 3 i (by omega), testBit_small 2 i (by omega)]

/-- With an even `n` the two factors are swapped, with an odd `n` they are the same numbers. -/
theorem or2_or3_product (n : Nat) :
    (n ||| 2) * ((n ||| 2) ^^^ 1) = (n ||| 3) * ((n ||| 3) ^^^ 1) := by
  rcases Nat.mod_two_eq_zero_or_one n with h | h
  · rw [or2_xor1 n h, or3_xor1 n h, Nat.mul_comm]
  · rw [or2_eq_or3 n h]

/-! ### model = spec -/

def toSpec (k : Keys) : Pkware.Keys := ⟨k.key0, k.key1, k.key2⟩

theorem and_ff_toUInt8 (c : UInt32) : (c &&& 0xff).toUInt8 = c.toUInt8 := by
  apply UInt8.toNat_inj.mp
  rw [UInt32.toNat_toUInt8, UInt32.toNat_toUInt8, UInt32.toNat_and]
  have e : (0xff : UInt32).toNat = 2 ^ 8 - 1 := by decide
  rw [e, Nat.and_two_pow_sub_one_eq_mod, Nat.mod_mod]

theorem crc32_eq_spec (crc : UInt32) (b : UInt8) : crc32 crc b = Pkware.crc32 crc b := by
  unfold crc32 Pkware.crc32 Crc32.updateByte
  rw [and_ff_toUInt8]

theorem shr24_toUInt8 (x : UInt32) : (x >>> 24).toUInt8 = UInt8.ofNat (x.toNat / 16777216) := by
  apply UInt8.toNat_inj.mp
  rw [UInt32.toNat_toUInt8, UInt32.toNat_shiftRight, UInt8.toNat_ofNat']
  show x.toNat >>> 24 % 2 ^ 8 = _
  rw [Nat.shiftRight_eq_div_pow]

theorem shr8_toUInt8 (x : UInt16) : (x >>> 8).toUInt8 = UInt8.ofNat (x.toNat / 256) := by
  apply UInt8.toNat_inj.mp
  rw [UInt16.toNat_toUInt8, UInt16.toNat_shiftRight, UInt8.toNat_ofNat']
  show x.toNat >>> 8 % 2 ^ 8 = _
  rw [Nat.shiftRight_eq_div_pow]

theorem new_eq_spec : toSpec Keys.new = Pkware.initKeys := by decide

theorem update_eq_spec (k : Keys) (b : UInt8) : toSpec (k.update b) = Pkware.updateKeys (toSpec k) b := by
  unfold Keys.update Pkware.updateKeys toSpec
  simp only [crc32_eq_spec, shr24_toUInt8]

theorem streamByte_eq_spec (k : Keys) : k.streamByte = Pkware.decryptByte (toSpec k) := by
  unfold Keys.streamByte Pkware.decryptByte toSpec
  apply UInt8.toNat_inj.mp
  simp only []
  rw [or2_or3_product, UInt8.toNat_ofNat', UInt16.toNat_toUInt8, UInt16.toNat_shiftRight,
    UInt16.toNat_mul, UInt16.toNat_xor, UInt16.toNat_or, UInt32.toNat_toUInt16]
  show (_ * _ % 2 ^ 16) >>> 8 % 2 ^ 8 = _
  rw [Nat.shiftRight_eq_div_pow]
  have e3 : (3 : UInt16).toNat = 3 := rfl
  have e1 : (1 : UInt16).toNat = 1 := rfl
  rw [e3, e1]
  show (_ * _ % 65536) / 256 % 256 = _ / 256 % 256
  have e16 : (2 : Nat) ^ 16 = 65536 := rfl
  rw [e16]
  generalize (k.key2.toNat % 65536 ||| 3) * ((k.key2.toNat % 65536 ||| 3) ^^^ 1) = m
  omega

theorem derive_eq_spec_from (pw : Bytes) (k : Keys) :
    toSpec (pw.foldl Keys.update k) = pw.foldl Pkware.updateKeys (toSpec k) := by
  induction pw generalizing k with
  | nil => rfl
  | cons b bs ih => rw [List.foldl_cons, List.foldl_cons, ih, update_eq_spec]

theorem derive_eq_spec (pw : Bytes) : toSpec (derive pw) = Pkware.keysFor pw := by
  unfold derive Pkware.keysFor
  rw [derive_eq_spec_from, new_eq_spec]

/-- The plaintext encryption header the crate's writer uses: eleven zero bytes and the high byte of
the CRC.  (APPNOTE asks for random bytes; zeros are *valid* PKWARE data, only weaker.) -/
def writerHeader (crc : UInt32) : Bytes := List.replicate 11 0 ++ [Pkware.checkByte false crc 0]

/-! ### structure of the bulk loops -/

theorem decryptAll_nil (k : Keys) : decryptAll k [] = ([], k) := rfl
theorem encryptAll_nil (k : Keys) : encryptAll k [] = ([], k) := rfl

theorem decryptAll_cons (k : Keys) (c : UInt8) (cs : Bytes) :
    decryptAll k (c :: cs) =
      ((k.streamByte ^^^ c) :: (decryptAll (k.update (k.streamByte ^^^ c)) cs).1,
        (decryptAll (k.update (k.streamByte ^^^ c)) cs).2) := rfl

theorem encryptAll_cons (k : Keys) (p : UInt8) (ps : Bytes) :
    encryptAll k (p :: ps) =
      ((k.streamByte ^^^ p) :: (encryptAll (k.update p) ps).1, (encryptAll (k.update p) ps).2) := rfl

theorem decryptAll_length (k : Keys) (cs : Bytes) : (decryptAll k cs).1.length = cs.length := by
  induction cs generalizing k with
  | nil => rfl
  | cons c cs ih => rw [decryptAll_cons, List.length_cons, List.length_cons, ih]

theorem encryptAll_length (k : Keys) (ps : Bytes) : (encryptAll k ps).1.length = ps.length := by
  induction ps generalizing k with
  | nil => rfl
  | cons p ps ih => rw [encryptAll_cons, List.length_cons, List.length_cons, ih]

theorem xor_cancel (s x : UInt8) : s ^^^ (s ^^^ x) = x := by
  rw [← UInt8.xor_assoc, UInt8.xor_self, UInt8.zero_xor]

/-- Decrypting what was encrypted from the same key state returns the plaintext *and* leaves both
sides in the same key state (both directions update the keys with the plaintext byte). -/
theorem decryptAll_encryptAll (k : Keys) (ps : Bytes) :
    decryptAll k (encryptAll k ps).1 = (ps, (encryptAll k ps).2) := by
  induction ps generalizing k with
  | nil => rfl
  | cons p ps ih =>
    rw [encryptAll_cons, decryptAll_cons]
    simp only [xor_cancel, ih]

theorem encryptAll_decryptAll (k : Keys) (cs : Bytes) :
    encryptAll k (decryptAll k cs).1 = (cs, (decryptAll k cs).2) := by
  induction cs generalizing k with
  | nil => rfl
  | cons c cs ih =>
    rw [decryptAll_cons, encryptAll_cons]
    simp only [xor_cancel, ih]

/-- Bulk decryption distributes over concatenation, threading the key state. -/
theorem decryptAll_append (k : Keys) (xs ys : Bytes) :
    decryptAll k (xs ++ ys) =
      ((decryptAll k xs).1 ++ (decryptAll (decryptAll k xs).2 ys).1,
        (decryptAll (decryptAll k xs).2 ys).2) := by
  induction xs generalizing k with
  | nil => rfl
  | cons x xs ih =>
    rw [List.cons_append, decryptAll_cons, decryptAll_cons, ih]
    rfl

theorem encryptAll_append (k : Keys) (xs ys : Bytes) :
    encryptAll k (xs ++ ys) =
      ((encryptAll k xs).1 ++ (encryptAll (encryptAll k xs).2 ys).1,
        (encryptAll (encryptAll k xs).2 ys).2) := by
  induction xs generalizing k with
  | nil => rfl
  | cons x xs ih =>
    rw [List.cons_append, encryptAll_cons, encryptAll_cons, ih]
    rfl

theorem decryptAll_eq_spec (k : Keys) (cs : Bytes) :
    (decryptAll k cs).1 = Pkware.decrypt (toSpec k) cs := by
  induction cs generalizing k with
  | nil => rfl
  | cons c cs ih =>
    rw [decryptAll_cons]
    unfold Pkware.decrypt
    simp only []
    rw [← streamByte_eq_spec, UInt8.xor_comm c, ← update_eq_spec, ih]

theorem encryptAll_eq_spec (k : Keys) (ps : Bytes) :
    (encryptAll k ps).1 = Pkware.encrypt (toSpec k) ps := by
  induction ps generalizing k with
  | nil => rfl
  | cons p ps ih =>
    rw [encryptAll_cons]
    unfold Pkware.encrypt
    rw [← streamByte_eq_spec, UInt8.xor_comm p, ← update_eq_spec, ih]

end ZipVerif.Model.ZipCrypto
