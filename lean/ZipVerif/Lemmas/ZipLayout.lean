import ZipVerif.Spec.ZipView
/-
Where the records of `Spec.Zip.build l` lie: positions and the bytes found there.
-/

namespace ZipVerif.Spec.Zip
open ZipVerif

theorem drop_append_len {a b : Bytes} {n : Nat} (h : a.length = n) : (a ++ b).drop n = b := by
  subst h; simp

theorem eocd_length (l : Layout) : l.eocd.length = 22 + l.comment.length := by
  simp [Layout.eocd]; omega

theorem build_length (l : Layout) :
    (build l).length = l.eocdPos + 22 + l.comment.length + l.trailing.length := by
  simp only [build, List.length_append, eocd_length, Layout.eocdPos, Layout.cdStart, Layout.cdOffset,
    Layout.cdSize]
  omega

theorem drop_cdStart (l : Layout) :
    (build l).drop l.cdStart = l.cdBytes ++ (l.end64 ++ (l.eocd ++ l.trailing)) := by
  have : build l = (l.pre ++ localsBytes l.entries ++ l.gapBeforeCd) ++
      (l.cdBytes ++ (l.end64 ++ (l.eocd ++ l.trailing))) := by simp [build]
  rw [this]
  exact drop_append_len (by simp [Layout.cdStart, Layout.cdOffset])

theorem drop_end64Pos (l : Layout) :
    (build l).drop l.end64Pos = l.end64 ++ (l.eocd ++ l.trailing) := by
  have : build l = (l.pre ++ localsBytes l.entries ++ l.gapBeforeCd ++ l.cdBytes) ++
      (l.end64 ++ (l.eocd ++ l.trailing)) := by simp [build]
  rw [this]
  exact drop_append_len (by simp [Layout.end64Pos, Layout.cdStart, Layout.cdOffset, Layout.cdSize]; omega)

theorem drop_eocdPos (l : Layout) : (build l).drop l.eocdPos = l.eocd ++ l.trailing := by
  have : build l = (l.pre ++ localsBytes l.entries ++ l.gapBeforeCd ++ l.cdBytes ++ l.end64) ++
      (l.eocd ++ l.trailing) := by simp [build]
  rw [this]
  exact drop_append_len (by simp [Layout.eocdPos, Layout.cdStart, Layout.cdOffset, Layout.cdSize]; omega)

theorem localsBytes_cons (e : Entry) (es : List Entry) :
    localsBytes (e :: es) = e.localBytes ++ localsBytes es := by simp [localsBytes]

theorem localsBytes_append (es1 es2 : List Entry) :
    localsBytes (es1 ++ es2) = localsBytes es1 ++ localsBytes es2 := by simp [localsBytes]

/-- the bytes at the local header of the entry that follows `es1` -/
theorem drop_local (l : Layout) (es1 es2 : List Entry) (e : Entry) (h : l.entries = es1 ++ e :: es2) :
    ∃ rest, (build l).drop (l.pre.length + (localsBytes es1).length + e.gapBefore.length) =
      localRecord e ++ (e.data ++ rest) := by
  refine ⟨descriptor e ++ (localsBytes es2 ++ (l.gapBeforeCd ++ (l.cdBytes ++ (l.end64 ++ (l.eocd ++ l.trailing))))), ?_⟩
  have : build l = (l.pre ++ localsBytes es1 ++ e.gapBefore) ++ (localRecord e ++ (e.data ++
      (descriptor e ++ (localsBytes es2 ++ (l.gapBeforeCd ++ (l.cdBytes ++ (l.end64 ++ (l.eocd ++ l.trailing)))))))) := by
    simp [build, h, localsBytes_append, localsBytes_cons, Entry.localBytes]
  rw [this]
  exact drop_append_len (by simp; omega)

/-- the local record: signature, 22 fixed bytes, the two lengths, name, extra -/
theorem localRecord_eq (e : Entry) :
    ∃ fixed : Bytes, fixed.length = 22 ∧
      localRecord e = le32 sigLocal ++ (fixed ++ (le16 (UInt16.ofNat e.name.length) ++
        (le16 (UInt16.ofNat e.localExtraAll.length) ++ (e.name ++ e.localExtraAll)))) := by
  refine ⟨le16 (e.localVersion.getD e.versionNeeded) ++ le16 e.flagsOut ++ le16 e.method ++ le16 e.time ++
    le16 e.date ++ le32 (if e.hasDesc then 0 else e.crc) ++
    (if e.localZip64 then le32 0xFFFFFFFF ++ le32 0xFFFFFFFF
     else le32 (if e.hasDesc then 0 else lo32 e.csize) ++ le32 (if e.hasDesc then 0 else lo32 e.usize)), ?_, ?_⟩
  · cases e.localZip64 <;> simp
  · unfold localRecord Entry.localExtraAll
    simp only [List.append_assoc]

theorem localRecord_length (e : Entry) :
    (localRecord e).length = 30 + e.name.length + e.localExtraAll.length := by
  obtain ⟨fixed, hf, h⟩ := localRecord_eq e
  rw [h]; simp [hf]; omega

theorem viewList_length (pre : Nat) : ∀ (es : List Entry) (loc chs : Nat),
    (viewList pre es loc chs).length = es.length := by
  intro es
  induction es with
  | nil => intro _ _; rfl
  | cons e es ih => intro loc chs; simp [viewList, ih]

/-- entry `i` of the view is the view of entry `i`, at the offset `localOffsets` computes -/
theorem viewList_getElem (pre : Nat) : ∀ (es : List Entry) (loc chs i : Nat) (e : Entry),
    es[i]? = some e →
    ∃ es1 es2 chs', es = es1 ++ e :: es2 ∧ es1.length = i ∧
      (localOffsets es loc)[i]? = some (loc + (localsBytes es1).length + e.gapBefore.length) ∧
      (viewList pre es loc chs)[i]? =
        some (viewEntry e (loc + (localsBytes es1).length + e.gapBefore.length) pre chs') := by
  intro es
  induction es with
  | nil => intro _ _ i e h; simp at h
  | cons x xs ih =>
    intro loc chs i e h
    cases i with
    | zero =>
      simp at h; subst h
      exact ⟨[], xs, chs, rfl, rfl, by simp [localOffsets, localsBytes], by simp [viewList, localsBytes]⟩
    | succ i =>
      simp at h
      obtain ⟨es1, es2, chs', h1, h2, h3, h4⟩ := ih (loc + x.localBytes.length)
        (chs + (centralRecord x (UInt64.ofNat (loc + x.gapBefore.length))).length) i e h
      refine ⟨x :: es1, es2, chs', by simp [h1], by simp [h2], ?_, ?_⟩
      · simp only [localOffsets, List.getElem?_cons_succ, h3, localsBytes_cons, List.length_append]
        congr 1; omega
      · simp only [viewList, List.getElem?_cons_succ, h4, localsBytes_cons, List.length_append]
        congr 2; omega

/-! ### `NoFalseSig` from the absence of embedded signatures -/

theorem le32_mk32 (a b c d : UInt8) : le32 (mk32 a b c d) = [a, b, c, d] := by
  have ha := a.toNat_lt; have hb := b.toNat_lt; have hc := c.toNat_lt; have hd := d.toNat_lt
  have hs : (mk32 a b c d).toNat = a.toNat + 256 * b.toNat + 65536 * c.toNat + 16777216 * d.toNat := by
    rw [mk32, UInt32.toNat_ofNat']; omega
  unfold le32
  rw [hs]
  have e1 : (a.toNat + 256 * b.toNat + 65536 * c.toNat + 16777216 * d.toNat) % 256 = a.toNat := by omega
  have e2 : (a.toNat + 256 * b.toNat + 65536 * c.toNat + 16777216 * d.toNat) / 256 % 256 = b.toNat := by omega
  have e3 : (a.toNat + 256 * b.toNat + 65536 * c.toNat + 16777216 * d.toNat) / 65536 % 256 = c.toNat := by omega
  have e4 : (a.toNat + 256 * b.toNat + 65536 * c.toNat + 16777216 * d.toNat) / 16777216 = d.toNat := by omega
  rw [e1, e2, e3, e4]
  simp

/-- a word read at some position is an infix of the bytes from any earlier position on -/
theorem infix_of_u32At {b : Bytes} {q : Nat} {v : UInt32} (h : u32At b q = some v) :
    le32 v <:+: b.drop q := by
  unfold u32At at h
  match hd : b.drop q with
  | a :: b' :: c :: d :: r =>
    rw [hd] at h
    simp [rd32] at h
    subst h
    rw [le32_mk32]
    exact ⟨[], r, by simp⟩
  | [] => rw [hd] at h; simp [rd32] at h
  | [_] => rw [hd] at h; simp [rd32] at h
  | [_, _] => rw [hd] at h; simp [rd32] at h
  | [_, _, _] => rw [hd] at h; simp [rd32] at h

theorem infix_drop {α} {x l : List α} {n : Nat} (h : x <:+: l.drop n) : x <:+: l :=
  List.IsInfix.trans h (List.drop_suffix n l).isInfix


theorem infix_take_of_u32At {b : Bytes} {q n : Nat} {v : UInt32} (h : u32At b q = some v)
    (hn : q + 4 ≤ n) : le32 v <:+: b.take n := by
  -- the word sits at the very start of `b.drop q`
  unfold u32At at h
  match hd : b.drop q with
  | a :: b' :: c :: d :: r =>
    rw [hd] at h
    simp [rd32] at h
    subst h
    rw [le32_mk32]
    have e : (b.take n).drop q = [a, b', c, d] ++ r.take (n - q - 4) := by
      rw [List.drop_take, hd]
      have : n - q = 4 + (n - q - 4) := by omega
      rw [this]
      simp [List.take_add]
    exact infix_drop (n := q) ⟨[], r.take (n - q - 4), by rw [e]; simp⟩
  | [] => rw [hd] at h; simp [rd32] at h
  | [_] => rw [hd] at h; simp [rd32] at h
  | [_, _] => rw [hd] at h; simp [rd32] at h
  | [_, _, _] => rw [hd] at h; simp [rd32] at h

/-- **`NoFalseSig` from "no embedded signatures"**: nothing after the first byte of the end record
(its 18 remaining fixed bytes, the comment, the trailing bytes) contains the end-record signature; an
archive without ZIP64 records contains no locator signature at all; a ZIP64 archive with a prefix
contains no ZIP64 end-record signature before the real one. -/
theorem noFalseSig_of_no_embedded (l : Layout)
    (hwin : l.comment.length + l.trailing.length ≤ 65535)
    (h1 : ¬ le32 sigEocd <:+: (l.eocd ++ l.trailing).tail)
    (h2 : l.needs64 = false → ¬ le32 sigLocator <:+: build l)
    (h3 : l.needs64 = true → l.pre = [] ∨ ¬ le32 sigEocd64 <:+: (build l).take (l.end64Pos + 3)) :
    NoFalseSig l := by
  refine ⟨hwin, fun k _ h => h1 ?_, fun h64 _ h => h2 h64 (infix_drop (infix_of_u32At h)), ?_⟩
  · have := infix_of_u32At h
    have e : (build l).drop (l.eocdPos + 1 + k) = ((l.eocd ++ l.trailing).tail).drop k := by
      rw [Nat.add_assoc, ← List.drop_drop, drop_eocdPos, ← List.drop_one, List.drop_drop]
    rw [e] at this
    exact infix_drop this
  · intro h64 k hk h
    rcases h3 h64 with hp | hn
    · rw [hp] at hk; exact absurd hk (by simp)
    · refine hn (infix_take_of_u32At h ?_)
      have h64p : l.end64Pos = l.pre.length + l.cdOffset + l.cdSize := by
        simp [Layout.end64Pos, Layout.cdStart]
      omega

end ZipVerif.Spec.Zip
