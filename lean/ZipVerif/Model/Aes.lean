import ZipVerif.Basic.Bytes
import ZipVerif.Basic.Out
/-
C16 — model of the WinZip-AES read path of zip 0.6.6 (current /repo, i.e. after the fix: commits
for D2, D3, D4, D9): `aes_ctr.rs` (key stream), `aes.rs` (`AesReader::{new, validate}`,
`AesReaderValid::read`), and the AES related open-time decisions of `read.rs`
(`parse_extra_field`, `central_header_to_zip_file`, `by_index*`, `make_crypto_reader`,
`make_reader`, `CryptoReader::is_ae2_encrypted`) plus `crc32.rs::Crc32Reader::read`.

PBKDF2-HMAC-SHA1 (1000 iterations), the AES block function and HMAC-SHA1 are *uninterpreted*
(`AesPrims`).  The incremental `Hmac::update` interface is modelled by the message accumulated so far
(assumption: updates concatenate; `finalize_reset` empties it).
Core Lean only: this file is linked into `zvdriver`.
-/

namespace ZipVerif.Model.Aes
open ZipVerif

/-! ## Uninterpreted primitives -/

structure AesPrims where
  /-- `pbkdf2::<Hmac<Sha1>>(password, salt, ITERATION_COUNT = 1000, out)` with `out.len() = len` -/
  pbkdf2 : (pw salt : Bytes) → (len : Nat) → Bytes
  /-- `Aes{128,192,256}::encrypt_block` on a 16-byte block -/
  block : (key inp : Bytes) → Bytes
  /-- HMAC-SHA1 of a whole message (20 bytes) -/
  hmac : (key msg : Bytes) → Bytes

/-- The only facts about the primitives that are ever used: their output lengths (in Rust these are
facts of the types: a caller-allocated buffer, a 16-byte block, a 20-byte `GenericArray`). -/
structure AesPrims.WF (P : AesPrims) : Prop where
  pbkdf2_len : ∀ pw salt n, (P.pbkdf2 pw salt n).length = n
  block_len : ∀ key inp, (P.block key inp).length = 16
  hmac_len : ∀ key msg, (P.hmac key msg).length = 20

/-! ## `types.rs` -/

inductive AesMode | aes128 | aes192 | aes256
  deriving DecidableEq, Repr, Inhabited

inductive VendorVersion | ae1 | ae2
  deriving DecidableEq, Repr, Inhabited

def AesMode.keyLength : AesMode → Nat
  | .aes128 => 16 | .aes192 => 24 | .aes256 => 32

def AesMode.saltLength (m : AesMode) : Nat := m.keyLength / 2

def PWD_VERIFY_LENGTH : Nat := 2
def AUTH_CODE_LENGTH : Nat := 10
def ITERATION_COUNT : Nat := 1000

def U64 : Nat := 18446744073709551616
def U128 : Nat := 340282366920938463463374607431768211456

/-! ## Little-endian counter block (`write_u128::<LittleEndian>`) -/

def leN : Nat → Nat → Bytes
  | 0, _ => []
  | n + 1, v => UInt8.ofNat (v % 256) :: leN n (v / 256)

def le128 (v : Nat) : Bytes := leN 16 v

def fromLE : Bytes → Nat
  | [] => 0
  | b :: r => b.toNat + 256 * fromLE r

/-! ## `aes_ctr.rs` : `AesCtrZipKeyStream` -/

structure CtrState where
  counter : Nat        -- u128
  buffer : Bytes       -- [u8; 16]
  pos : Nat            -- usize
  deriving DecidableEq, Repr

/-- `AesCtrZipKeyStream::new` (the key is kept outside the state; a key of the wrong length panics
in `GenericArray::from_slice`, see `validate`). -/
def CtrState.new : CtrState := ⟨1, List.replicate 16 0, 16⟩

def CtrState.Good (st : CtrState) : Prop := st.pos ≤ 16 ∧ st.buffer.length = 16

def xorBytes (a b : Bytes) : Bytes := List.zipWith (· ^^^ ·) a b

/-- The `if self.pos == AES_BLOCK_SIZE { … }` body: encrypt the little-endian counter, `counter += 1`
(checked on `u128`), `pos = 0`. -/
def refill (P : AesPrims) (key : Bytes) (st : CtrState) : Out CtrState :=
  if st.counter + 1 ≥ U128 then .panic "attempt to add with overflow (aes_ctr.rs counter)"
  else .ok ⟨st.counter + 1, P.block key (le128 st.counter), 0⟩

/-- `crypt_in_place`, the `while !target.is_empty()` loop, one iteration per recursion step.
`fuel` = `target.len()` is enough because every iteration consumes at least one byte
(`cryptInPlace_eq_bytes` shows the fuel branch is never taken from a good state). -/
def cryptLoop (P : AesPrims) (key : Bytes) : Nat → CtrState → Bytes → Out (Bytes × CtrState)
  | _, st, [] => .ok ([], st)
  | 0, _, _ :: _ => .panic "unreachable: fuel"
  | f + 1, st, b :: t =>
    if st.pos > 16 then .panic "attempt to subtract with overflow (AES_BLOCK_SIZE - pos)" else
    (if st.pos = 16 then refill P key st else .ok st) >>= fun st1 =>
    let n := min (t.length + 1) (16 - st1.pos)
    -- `&self.buffer[self.pos..(self.pos + target_len)]`, `xor` asserts equal lengths
    let src := (st1.buffer.drop st1.pos).take n
    if src.length ≠ n then .panic "range end index out of range for slice (aes_ctr.rs buffer)" else
    cryptLoop P key f ⟨st1.counter, st1.buffer, st1.pos + n⟩ ((b :: t).drop n) >>= fun r =>
    .ok (xorBytes ((b :: t).take n) src ++ r.1, r.2)

def cryptInPlace (P : AesPrims) (key : Bytes) (st : CtrState) (target : Bytes) :
    Out (Bytes × CtrState) :=
  cryptLoop P key target.length st target

/-- One byte of key stream: refill if the buffer is used up, take `buffer[pos]`, `pos += 1`. -/
def stepByte (P : AesPrims) (key : Bytes) (st : CtrState) : Out (UInt8 × CtrState) :=
  if st.pos > 16 then .panic "attempt to subtract with overflow (AES_BLOCK_SIZE - pos)" else
  (if st.pos = 16 then refill P key st else .ok st) >>= fun st1 =>
  match st1.buffer[st1.pos]? with
  | none => .panic "range end index out of range for slice (aes_ctr.rs buffer)"
  | some k => .ok (k, ⟨st1.counter, st1.buffer, st1.pos + 1⟩)

/-- The same loop unrolled to one byte per step (used for the proofs; equal to `cryptInPlace` on
good states, `cryptInPlace_eq_bytes`). -/
def cryptBytes (P : AesPrims) (key : Bytes) : CtrState → Bytes → Out (Bytes × CtrState)
  | st, [] => .ok ([], st)
  | st, b :: t =>
    stepByte P key st >>= fun ks =>
    cryptBytes P key ks.2 t >>= fun r =>
    .ok ((b ^^^ ks.1) :: r.1, r.2)

/-- The key stream alone (`cryptBytes` over zeros). -/
def ksGen (P : AesPrims) (key : Bytes) : CtrState → Nat → Out (Bytes × CtrState)
  | st, 0 => .ok ([], st)
  | st, n + 1 =>
    stepByte P key st >>= fun ks =>
    ksGen P key ks.2 n >>= fun r =>
    .ok (ks.1 :: r.1, r.2)

/-- Blocks `c, c+1, …, c+k-1` of the key stream, concatenated. -/
def ksBlocks (P : AesPrims) (key : Bytes) : Nat → Nat → Bytes
  | _, 0 => []
  | c, k + 1 => P.block key (le128 c) ++ ksBlocks P key (c + 1) k

/-! ## Abstract inner reader (`io::Take<&mut dyn Read>`) -/

inductive RdRes
  | ok (bs : Bytes)
  | err (k : IoKind)
  deriving DecidableEq, Repr

/-- `rd s n`: one `read` call with a buffer of `n` bytes. The `Read` contract (`Src.Contract`)
says that at most `n` bytes come back; `ok []` for `n > 0` is end-of-file. -/
structure Src (σ : Type) where
  rd : σ → Nat → RdRes × σ

def Src.Contract {σ} (S : Src σ) : Prop :=
  ∀ s n bs s', S.rd s n = (.ok bs, s') → bs.length ≤ n

/-- `Read::read_exact` (default implementation; `Interrupted` is not among the modelled kinds). -/
def readExactAux {σ} (S : Src σ) : Nat → σ → Nat → Bytes → Out Bytes × σ
  | _, s, 0, acc => (.ok acc, s)
  | 0, s, _ + 1, _ => (.panic "unreachable: fuel", s)
  | f + 1, s, need + 1, acc =>
    match S.rd s (need + 1) with
    | (.err k, s') => (.err (.io k), s')
    | (.ok bs, s') =>
      if bs.length = 0 then (.err (.io .unexpectedEof), s')          -- "failed to fill whole buffer"
      else if bs.length > need + 1 then (.panic "range start index out of range (read_exact)", s')
      else readExactAux S f s' (need + 1 - bs.length) (acc ++ bs)

def readExact {σ} (S : Src σ) (s : σ) (n : Nat) : Out Bytes × σ := readExactAux S n s n []

/-- A concrete source: the bytes that are there, and a short-read schedule (entry `k`: this call
delivers at most `k+1` bytes; exhausted schedule: no limit). -/
structure ListSrc where
  data : Bytes
  sched : List Nat
  deriving DecidableEq, Repr

def listRd (s : ListSrc) (n : Nat) : RdRes × ListSrc :=
  let cap := match s.sched with
    | [] => n
    | k :: _ => min n (k + 1)
  (.ok (s.data.take cap), ⟨s.data.drop cap, s.sched.tail⟩)

def listSrc : Src ListSrc := ⟨listRd⟩

/-! ## `aes.rs` -/

/-- `AesReaderValid`.  `ghostCt` / `ghostMac` are ghost fields (never read by the model): every byte
handed to `hmac.update`, and the pair (computed code, stored code) at the moment of comparison. -/
structure Valid (σ : Type) where
  inner : σ
  dataRemaining : Nat
  key : Bytes
  ctr : CtrState
  hmacKey : Bytes
  hmacMsg : Bytes
  finalized : Bool
  ghostCt : Bytes
  ghostMac : Option (Bytes × Bytes)

/-- `AesReader::new`: `compressed_size.checked_sub(2 + 10 + salt_length)`. -/
def dataLength (mode : AesMode) (compressedSize : Nat) : Option Nat :=
  let overhead := PWD_VERIFY_LENGTH + AUTH_CODE_LENGTH + mode.saltLength
  if overhead ≤ compressedSize then some (compressedSize - overhead) else none

/-- `AesReader::validate`. `ok none` = wrong password. -/
def validate {σ} (P : AesPrims) (S : Src σ) (mode : AesMode) (dl : Option Nat) (s : σ)
    (password : Bytes) : Out (Option (Valid σ)) × σ :=
  let k := mode.keyLength
  match dl with
  | none => (.err (.io .invalidData), s)
  | some dataLen =>
    match readExact S s mode.saltLength with
    | (.err e, s1) => (.err e, s1)
    | (.panic m, s1) => (.panic m, s1)
    | (.ok salt, s1) =>
      match readExact S s1 PWD_VERIFY_LENGTH with
      | (.err e, s2) => (.err e, s2)
      | (.panic m, s2) => (.panic m, s2)
      | (.ok pvv, s2) =>
        let dkLen := 2 * k + PWD_VERIFY_LENGTH
        let dk := P.pbkdf2 password salt dkLen
        let decryptKey := dk.take k
        let hmacKey := (dk.drop k).take k
        let pwdVerify := dk.drop (dkLen - 2)
        if pvv ≠ pwdVerify then (.ok none, s2)
        else if decryptKey.length ≠ k then
          (.panic "GenericArray::from_slice: key length (cipher_from_mode)", s2)
        else
          (.ok (some { inner := s2, dataRemaining := dataLen, key := decryptKey,
                       ctr := CtrState.new, hmacKey := hmacKey, hmacMsg := [],
                       finalized := false, ghostCt := [], ghostMac := none }), s2)

/-- `AesReaderValid::read(&mut buf)` with `buf.len() = n`; returns the bytes left in `buf[..read]`. -/
def Valid.read {σ} (P : AesPrims) (S : Src σ) (v : Valid σ) (n : Nat) : Out Bytes × Valid σ :=
  if v.dataRemaining = 0 then
    -- no ciphertext left; when there never was any (not yet finalized) the code is checked now, before
    -- end-of-file is reported (repair of K-I)
    if v.finalized then (.ok [], v) else
    let v := { v with finalized := true }
    match readExact S v.inner AUTH_CODE_LENGTH with
    | (.err e, s'') => (.err e, { v with inner := s'' })
    | (.panic m, s'') => (.panic m, { v with inner := s'' })
    | (.ok code, s'') =>
      let computed := (P.hmac v.hmacKey v.hmacMsg).take AUTH_CODE_LENGTH
      let v := { v with inner := s'', hmacMsg := [], ghostMac := some (computed, code) }
      if computed ≠ code then (.err (.io .invalidData), v) else (.ok [], v)
  else
  let bytesToRead := min v.dataRemaining n
  match S.rd v.inner bytesToRead with
  | (.err k, s') => (.err (.io k), { v with inner := s' })
  | (.ok bs, s') =>
    let v := { v with inner := s' }
    let read := bs.length
    if read = 0 ∧ bytesToRead ≠ 0 then (.err (.io .unexpectedEof), v) else
    if read > v.dataRemaining then (.panic "attempt to subtract with overflow (data_remaining)", v) else
    if read > n then (.panic "range end index out of range for slice (buf[0..read])", v) else
    let v := { v with dataRemaining := v.dataRemaining - read, hmacMsg := v.hmacMsg ++ bs,
                      ghostCt := v.ghostCt ++ bs }
    match cryptInPlace P v.key v.ctr bs with
    | .panic m => (.panic m, v)
    | .err e => (.err e, v)
    | .ok (pt, ctr') =>
      let v := { v with ctr := ctr' }
      if v.dataRemaining = 0 then
        if v.finalized then (.panic "Tried to use an already finalized HMAC. This is a bug!", v) else
        let v := { v with finalized := true }
        match readExact S v.inner AUTH_CODE_LENGTH with
        | (.err e, s'') => (.err e, { v with inner := s'' })
        | (.panic m, s'') => (.panic m, { v with inner := s'' })
        | (.ok code, s'') =>
          let computed := (P.hmac v.hmacKey v.hmacMsg).take AUTH_CODE_LENGTH
          let v := { v with inner := s'', hmacMsg := [], ghostMac := some (computed, code) }
          if computed ≠ code then (.err (.io .invalidData), v) else (.ok pt, v)
      else (.ok pt, v)

/-- A caller: one `read` per buffer size, stop at the first error. -/
def drain {σ} (P : AesPrims) (S : Src σ) : List Nat → Valid σ → Bytes → Out Bytes × Valid σ
  | [], v, acc => (.ok acc, v)
  | n :: ns, v, acc =>
    match Valid.read P S v n with
    | (.ok out, v') => drain P S ns v' (acc ++ out)
    | (.err e, v') => (.err e, v')
    | (.panic m, v') => (.panic m, v')

/-! ## `read.rs`: extra field, open-time decisions -/

inductive Method
  | stored | deflated | bzip2 | aes | zstd
  | unsupported (v : UInt16)
  deriving DecidableEq, Repr, Inhabited

def Method.fromU16 (v : UInt16) : Method :=
  if v = 0 then .stored else if v = 8 then .deflated else if v = 12 then .bzip2
  else if v = 93 then .zstd else if v = 99 then .aes else .unsupported v

/-- The part of `ZipFileData` that `parse_extra_field` reads or writes. -/
structure ExtraSt where
  uncompressedSize : UInt64
  compressedSize : UInt64
  headerStart : UInt64
  largeFile : Bool
  aesMode : Option (AesMode × VendorVersion)
  method : Method
  deriving DecidableEq, Repr

def ZIP64_BYTES_THR : UInt64 := 0xFFFFFFFF

/-- Kind 0x0001. Returns the number of bytes of `rest` the cursor moves over before the next record. -/
def zip64Rec (len : UInt16) (rest : Bytes) (st : ExtraSt) : Out Nat × ExtraSt :=
  -- uncompressed
  let step1 : Out (Nat × Bytes) × ExtraSt :=
    if st.uncompressedSize = ZIP64_BYTES_THR then
      let st := { st with largeFile := true }
      match rd64 rest with
      | some (v, r) => (.ok (1, r), { st with uncompressedSize := v })
      | none => (.err (.io .unexpectedEof), st)
    else (.ok (0, rest), st)
  match step1 with
  | (.err e, st) => (.err e, st)
  | (.panic m, st) => (.panic m, st)
  | (.ok (c1, r1), st) =>
    let step2 : Out (Nat × Bytes) × ExtraSt :=
      if st.compressedSize = ZIP64_BYTES_THR then
        let st := { st with largeFile := true }
        match rd64 r1 with
        | some (v, r) => (.ok (c1 + 1, r), { st with compressedSize := v })
        | none => (.err (.io .unexpectedEof), st)
      else (.ok (c1, r1), st)
    match step2 with
    | (.err e, st) => (.err e, st)
    | (.panic m, st) => (.panic m, st)
    | (.ok (c2, r2), st) =>
      let step3 : Out Nat × ExtraSt :=
        if st.headerStart = ZIP64_BYTES_THR then
          match rd64 r2 with
          | some (v, _) => (.ok (c2 + 1), { st with headerStart := v })
          | none => (.err (.io .unexpectedEof), st)
        else (.ok c2, st)
      match step3 with
      | (.err e, st) => (.err e, st)
      | (.panic m, st) => (.panic m, st)
      | (.ok c3, st) =>
        -- `len_left = len as i64 - 8*c3`; `if len_left > 0 { seek(Current(len_left)) }`
        (.ok (8 * c3 + (len.toNat - 8 * c3)), st)

/-- Kind 0x9901: the seven bytes of the record are read and `len_left` is decremented by 7 (K-C repaired;
before, the cursor was moved another seven bytes forward and the result was 14). -/
def aesRec (len : UInt16) (rest : Bytes) (st : ExtraSt) : Out Nat × ExtraSt :=
  if len ≠ 7 then (.err .unsupportedArchive, st) else
  match rest with
  | v0 :: v1 :: i0 :: i1 :: m :: c0 :: c1 :: _ =>
    let vendorVersion := mk16 v0 v1
    let vendorId := mk16 i0 i1
    let cm := mk16 c0 c1
    if vendorId ≠ 0x4541 then (.err .invalidArchive, st) else
    if vendorVersion ≠ 1 ∧ vendorVersion ≠ 2 then (.err .invalidArchive, st) else
    let ver := if vendorVersion = 1 then VendorVersion.ae1 else VendorVersion.ae2
    if m = 1 then (.ok 7, { st with aesMode := some (.aes128, ver), method := Method.fromU16 cm })
    else if m = 2 then (.ok 7, { st with aesMode := some (.aes192, ver), method := Method.fromU16 cm })
    else if m = 3 then (.ok 7, { st with aesMode := some (.aes256, ver), method := Method.fromU16 cm })
    else (.err .invalidArchive, st)
  | _ => (.err (.io .unexpectedEof), st)

/-- `parse_extra_field`: `skip` = bytes still to be passed over by the pending forward seek. -/
def parseExtraLoop : Nat → Bytes → ExtraSt → Out Unit × ExtraSt
  | _, [], st => (.ok (), st)
  | s + 1, _ :: t, st => parseExtraLoop s t st
  | 0, k0 :: k1 :: l0 :: l1 :: rest, st =>
    let kind := mk16 k0 k1
    let len := mk16 l0 l1
    if kind = 0x0001 then
      match zip64Rec len rest st with
      | (.ok skip, st') => parseExtraLoop skip rest st'
      | (.err e, st') => (.err e, st')
      | (.panic m, st') => (.panic m, st')
    else if kind = 0x9901 then
      match aesRec len rest st with
      | (.ok skip, st') => parseExtraLoop skip rest st'
      | (.err e, st') => (.err e, st')
      | (.panic m, st') => (.panic m, st')
    else parseExtraLoop len.toNat rest st
  | 0, _ :: _, st => (.err (.io .unexpectedEof), st)

/-- The tail of `central_header_to_zip_file`: I/O errors of the extra field parser are swallowed
(with whatever was already stored), other errors are returned; method 99 needs the AES record. -/
def parseEntryExtra (st0 : ExtraSt) (extra : Bytes) : Out ExtraSt :=
  let fin (st : ExtraSt) : Out ExtraSt :=
    if st.method = .aes ∧ st.aesMode.isNone then .err .invalidArchive else .ok st
  match parseExtraLoop 0 extra st0 with
  | (.ok _, st) => fin st
  | (.err (.io _), st) => fin st
  | (.err e, _) => .err e
  | (.panic m, _) => .panic m

/-- What `by_index*` looks at. -/
structure Entry where
  encrypted : Bool
  method : Method
  aesMode : Option (AesMode × VendorVersion)
  compressedSize : Nat
  crc32 : UInt32
  deriving DecidableEq, Repr

inductive CryptoReader (σ : Type)
  | plaintext (s : σ)
  | aes (r : Valid σ) (ver : VendorVersion)

def CryptoReader.isAe2Encrypted {σ} : CryptoReader σ → Bool
  | .aes _ .ae2 => true
  | _ => false

inductive Opened (σ : Type)
  | reader (r : CryptoReader σ)
  | invalidPassword
  /-- `(Some(password), None)`: the ZipCrypto arm (property C15) -/
  | zipCryptoPath

/-- `make_crypto_reader` (with the `aes-crypto` feature). `s` is the `Take` positioned at the data. -/
def makeCryptoReader {σ} (P : AesPrims) (S : Src σ) (e : Entry) (pw : Option Bytes) (s : σ) :
    Out (Opened σ) :=
  match e.method with
  | .unsupported _ => .err .unsupportedArchive
  | .aes => .err .unsupportedArchive
  | _ =>
    match pw, e.aesMode with
    | some p, some (mode, ver) =>
      match validate P S mode (dataLength mode e.compressedSize) s p with
      | (.err er, _) => .err er
      | (.panic m, _) => .panic m
      | (.ok none, _) => .ok .invalidPassword
      | (.ok (some r), _) => .ok (.reader (.aes r ver))
    | some _, none => .ok .zipCryptoPath
    | none, some _ => .ok .invalidPassword
    | none, none => .ok (.reader (.plaintext s))

/-- `by_index_with_optional_password` after the index lookup and `find_content`. -/
def byIndexOpt {σ} (P : AesPrims) (S : Src σ) (e : Entry) (pw : Option Bytes) (s : σ) :
    Out (Opened σ) :=
  match pw, e.encrypted with
  | none, true => .err .passwordRequired
  | some _, false => makeCryptoReader P S e none s
  | _, _ => makeCryptoReader P S e pw s

/-- `by_index`: `…(file_number, None)?.map_err(|_| PASSWORD_REQUIRED)` (before the fix: `.unwrap()`). -/
def byIndex {σ} (P : AesPrims) (S : Src σ) (e : Entry) (s : σ) : Out (CryptoReader σ) :=
  match byIndexOpt P S e none s with
  | .ok (.reader r) => .ok r
  | .ok _ => .err .passwordRequired
  | .err er => .err er
  | .panic m => .panic m

def byIndexDecrypt {σ} (P : AesPrims) (S : Src σ) (e : Entry) (pw : Bytes) (s : σ) :
    Out (Opened σ) :=
  byIndexOpt P S e (some pw) s

/-- `make_reader`: the flag handed to `Crc32Reader::new`; `_ => panic!` for the other methods. -/
def makeReaderFlag {σ} (m : Method) (r : CryptoReader σ) : Out Bool :=
  match m with
  | .stored | .deflated | .bzip2 | .zstd => .ok r.isAe2Encrypted
  | _ => .panic "Compression method not supported"

/-! ## `crc32.rs` : `Crc32Reader::read` over any inner reader and any hasher -/

structure CrcSt (H : Type) where
  hasher : H
  check : UInt32
  ae2 : Bool

def crcRead {H ι} (upd : H → Bytes → H) (fin : H → UInt32)
    (innerRead : ι → Nat → Out Bytes × ι) (c : CrcSt H) (i : ι) (n : Nat) :
    Out Bytes × CrcSt H × ι :=
  -- `if buf.is_empty() { return Ok(0) }`: a zero-length read never reaches the inner reader
  if n = 0 then (.ok [], c, i) else
  let invalidCheck : Bool := fin c.hasher ≠ c.check && !c.ae2
  match innerRead i n with
  | (.ok bs, i') =>
    if bs.length = 0 ∧ invalidCheck = true then (.err (.io .other), c, i')
    else (.ok bs, { c with hasher := upd c.hasher bs }, i')
  | (.err e, i') => (.err e, c, i')
  | (.panic m, i') => (.panic m, c, i')

/-! ## `ZipFile::read` of an AES entry: CRC layer ∘ decoder ∘ AES reader, and `finish_crypto` -/

/-- What the decoder sees from one `read` call on the reader below it. -/
inductive InnerRes
  | ok (bs : Bytes)
  | err (e : ZErr)

/-- One `read(buf)` call of a decompressor (`flate2`, `bzip2`, `zstd` readers), as an *arbitrary*
strategy: finish the call with a result and a new state, or call `read` on the AES reader with a
buffer of `k` bytes and continue depending on what came back. Any number of pulls of any sizes, any
returned bytes, an early end-of-file, spurious errors: everything is allowed. -/
inductive DecStep (δ : Type)
  | done (r : Out Bytes) (d : δ)
  | pull (k : Nat) (cont : InnerRes → DecStep δ)

structure Decoder (δ : Type) where
  read : δ → Nat → DecStep δ

/-- The only assumption ever made about a decoder: an error of the reader below ends the decoder's
own `read` call with an error (what `let input = obj.fill_buf()?;` does in all three crates). -/
inductive DecStep.Faithful {δ : Type} : DecStep δ → Prop
  | done (r : Out Bytes) (d : δ) : DecStep.Faithful (.done r d)
  | pull (k : Nat) (cont : InnerRes → DecStep δ)
      (herr : ∀ e, ∃ e' d, cont (.err e) = .done (.err e') d)
      (hok : ∀ bs, DecStep.Faithful (cont (.ok bs))) : DecStep.Faithful (.pull k cont)

def Decoder.Faithful {δ} (D : Decoder δ) : Prop := ∀ d n, (D.read d n).Faithful

/-- `Stored`: no decoder, the CRC layer sits directly on the crypto reader. -/
def storedDec : Decoder Unit :=
  ⟨fun _ n => .pull n fun r => .done (match r with | .ok bs => .ok bs | .err e => .err e) ()⟩

/-- Run one decoder call against the AES reader (a panic below unwinds through the decoder). -/
def runDec {σ δ} (P : AesPrims) (S : Src σ) (d0 : δ) : DecStep δ → Valid σ → Out Bytes × δ × Valid σ
  | .done r d, v => (r, d, v)
  | .pull k cont, v =>
    match Valid.read P S v k with
    | (.ok bs, v') => runDec P S d0 (cont (.ok bs)) v'
    | (.err e, v') => runDec P S d0 (cont (.err e)) v'
    | (.panic m, v') => (.panic m, d0, v')

/-- `io::copy(reader, &mut io::sink())`: `read` with the 8 KiB stack buffer until `Ok(0)` or `Err`.
Fuel `data_remaining + 1` suffices (every successful call makes progress, `copyToSink_spec`). -/
def copyToSink {σ} (P : AesPrims) (S : Src σ) : Nat → Valid σ → Out Unit × Valid σ
  | 0, v => (.panic "unreachable: fuel", v)
  | f + 1, v =>
    match Valid.read P S v 8192 with
    | (.ok bs, v') => if bs.isEmpty then (.ok (), v') else copyToSink P S f v'
    | (.err e, v') => (.err e, v')
    | (.panic m, v') => (.panic m, v')

/-- `ZipFileReader::finish_crypto`: for `Deflated` / `Bzip2` / `Zstd` over `CryptoReader::Aes` read the
rest of the ciphertext; `Stored`: nothing (the decoder's end-of-stream is the ciphertext's). -/
def finishCrypto {σ} (P : AesPrims) (S : Src σ) (compressing : Bool) (v : Valid σ) : Out Unit × Valid σ :=
  if compressing then copyToSink P S (v.dataRemaining + 1) v else (.ok (), v)

structure EntrySt (σ δ H : Type) where
  dec : δ
  aes : Valid σ
  crc : CrcSt H

/-- `ZipFileReader::read`: `Crc32Reader` over the decoder over the AES reader. -/
def layersRead {σ δ H} (P : AesPrims) (S : Src σ) (D : Decoder δ) (upd : H → Bytes → H) (fin : H → UInt32)
    (st : EntrySt σ δ H) (n : Nat) : Out Bytes × EntrySt σ δ H :=
  match crcRead upd fin
      (fun (i : δ × Valid σ) k => runDec P S i.1 (D.read i.1 k) i.2) st.crc (st.dec, st.aes) n with
  | (r, c, (d, v)) => (r, ⟨d, v, c⟩)

/-- `ZipFile::read` as it was before the fix of D12: the decoder's end-of-file is the entry's. -/
def entryReadPreFix {σ δ H} (P : AesPrims) (S : Src σ) (D : Decoder δ) (upd : H → Bytes → H)
    (fin : H → UInt32) (st : EntrySt σ δ H) (n : Nat) : Out Bytes × EntrySt σ δ H :=
  layersRead P S D upd fin st n

/-- `ZipFile::read` (current code): `let count = self.get_reader().read(buf)?;
if count == 0 && !buf.is_empty() { self.reader.finish_crypto()?; } Ok(count)`. -/
def entryRead {σ δ H} (P : AesPrims) (S : Src σ) (D : Decoder δ) (compressing : Bool)
    (upd : H → Bytes → H) (fin : H → UInt32) (st : EntrySt σ δ H) (n : Nat) :
    Out Bytes × EntrySt σ δ H :=
  match layersRead P S D upd fin st n with
  | (.ok bs, st') =>
    if bs.length = 0 ∧ n ≠ 0 then
      match finishCrypto P S compressing st'.aes with
      | (.ok _, v') => (.ok bs, { st' with aes := v' })
      | (.err e, v') => (.err e, { st' with aes := v' })
      | (.panic m, v') => (.panic m, { st' with aes := v' })
    else (.ok bs, st')
  | (.err e, st') => (.err e, st')
  | (.panic m, st') => (.panic m, st')

/-- A caller of `ZipFile::read`: one call per buffer size, stop at the first error. -/
def entryDrain {σ δ H} (P : AesPrims) (S : Src σ) (D : Decoder δ) (compressing : Bool)
    (upd : H → Bytes → H) (fin : H → UInt32) : List Nat → EntrySt σ δ H → Bytes → Out Bytes × EntrySt σ δ H
  | [], st, acc => (.ok acc, st)
  | n :: ns, st, acc =>
    match entryRead P S D compressing upd fin st n with
    | (.ok out, st') => entryDrain P S D compressing upd fin ns st' (acc ++ out)
    | (.err e, st') => (.err e, st')
    | (.panic m, st') => (.panic m, st')

end ZipVerif.Model.Aes
