import ZipVerif.Model.Aes
import ZipVerif.Model.Layers
/-
`AesReaderValid` (Model/Aes.lean `Valid.read`, tied to the translated source by Tie/AesLayer.lean and
Tie/AesCtr.lean) as a reader of the LAYER model (Model/Layers.lean), so that the decoder and CRC layers and the
schedule-free denotations of C04 / C09 apply to AES entries: `aesSrc`, `entryPipelineAes`.
Core Lean only.
-/

namespace ZipVerif.Model
open ZipVerif ZipVerif.Model.Layers

/-- `AesReaderValid::read` as a `Read` object of the layer model: the state is the reader, a call is one
`read`.  An `io::Error` keeps its kind; a result that is not an `io::Error` cannot come out of `read` (it only
passes on `io::Error`s of the reader below and makes its own `UnexpectedEof` / `InvalidData`) and is mapped to
`panic`, like a panic. -/
def aesSrc (P : Aes.AesPrims) {σ : Type} (S : Aes.Src σ) : Src (Aes.Valid σ) where
  rd v n :=
    match Aes.Valid.read P S v n with
    | (.ok bs, v') => (.ok bs, v')
    | (.err (.io k), v') => (.err k, v')
    | (.err _, v') => (.panic, v')
    | (.panic _, v') => (.panic, v')

/-- AES entry after a successful `validate`: `Crc32Reader(decoder(AesReaderValid(Take)))`; `ae2` = the vendor
version of the extra record is AE-2 (`make_reader`: the CRC comparison is skipped).  `ZipFile::read` follows a
decoder's `Ok(0)` on a non-empty buffer by `finish_crypto` (drain the AES reader, so that the code is
compared): on an entry whose code is right that cannot change any outcome (`finish_crypto_intact`), on all
others it is what `Aes.NeverEof` is about (Model/Aes.lean `entryRead`). -/
def entryPipelineAes {σ : Type} (c : Codec) (P : Aes.AesPrims) (S : Aes.Src σ) (check : UInt32) (ae2 : Bool) :
    Src (c.St (Aes.Valid σ) × UInt32) :=
  crcLayer (c.layer (aesSrc P S)) check ae2

/-- **No successful end-of-file**: no sequence of successful `read` calls on the AES reader `v0` over a byte
list with a short-read schedule is followed by `Ok(0)` on a non-empty buffer - neither at the AES layer, nor at
the level of `ZipFile::read` (`Crc32Reader(decoder(AesReaderValid))` + `finish_crypto`) for ANY decoder
strategy that passes on the errors of the reader below it. -/
def Aes.NeverEof (P : Aes.AesPrims) (v0 : Aes.Valid Aes.ListSrc) : Prop :=
  (∀ (bufs : List Nat) (out : Bytes) (v1 : Aes.Valid Aes.ListSrc) (n : Nat) (v2 : Aes.Valid Aes.ListSrc),
    Aes.drain P Aes.listSrc bufs v0 [] = (.ok out, v1) → 0 < n →
      Aes.Valid.read P Aes.listSrc v1 n ≠ (.ok [], v2)) ∧
  (∀ {δ H : Type} (compressing : Bool) (D : Aes.Decoder δ), D.Faithful →
    (compressing = false →
      ∀ d n, ∃ d', D.read d n =
        .pull n fun r => .done (match r with | .ok bs => .ok bs | .err e => .err e) d') →
    ∀ (upd : H → Bytes → H) (fin : H → UInt32) (d0 : δ) (c0 : Aes.CrcSt H) (bufs : List Nat) (out : Bytes)
      (st1 : Aes.EntrySt Aes.ListSrc δ H) (n : Nat) (st2 : Aes.EntrySt Aes.ListSrc δ H),
      Aes.entryDrain P Aes.listSrc D compressing upd fin bufs ⟨d0, v0, c0⟩ [] = (.ok out, st1) → 0 < n →
        Aes.entryRead P Aes.listSrc D compressing upd fin st1 n ≠ (.ok [], st2))

end ZipVerif.Model
