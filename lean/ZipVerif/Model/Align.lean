import ZipVerif.Basic.Bytes
import ZipVerif.Basic.Out
import ZipVerif.Model.Records
/-
Model of the extra-data part of `ZipWriter` (src/write.rs): `validate_extra_data`, the three
extra-data calls (`write` while in extra-field mode, `end_local_start_central_extra_data`,
`end_extra_data`) as a small state machine over the open entry, `start_file_aligned` on top of
them, and the reader's `find_content` offset computation (src/read.rs).

Checked Rust arithmetic is modelled with explicit `Out.panic` branches (one site string per
source line); `as u16` truncates.  The full writer state machine (compression switch, statistics,
central directory serialisation) is modelled elsewhere: here the open entry is reduced to the
fields these calls read or write.
-/

namespace ZipVerif.Model.Align
open ZipVerif

/-! ### `validate_extra_data` (write.rs) -/

/-- `EXTRA_FIELD_MAPPING` (write.rs, `#[cfg(not(feature = "unreserved"))]`); tied to the
regenerated constant by `ZipVerif.Tie.Extra.tie_extra_field_mapping`. -/
def extraFieldMapping : List UInt16 := [
  0x0001, 0x0007, 0x0008, 0x0009, 0x000a, 0x000c, 0x000d, 0x000e, 0x000f, 0x0014, 0x0015, 0x0016,
  0x0017, 0x0018, 0x0019, 0x0020, 0x0021, 0x0022, 0x0023, 0x0065, 0x0066, 0x4690, 0x07c8, 0x2605,
  0x2705, 0x2805, 0x334d, 0x4341, 0x4453, 0x4704, 0x470f, 0x4b46, 0x4c41, 0x4d49, 0x4f4c, 0x5356,
  0x5455, 0x554e, 0x5855, 0x6375, 0x6542, 0x7075, 0x756e, 0x7855, 0xa11e, 0xa220, 0xfd4a, 0x9901,
  0x9902]

/-- `kind <= 31 || EXTRA_FIELD_MAPPING.iter().any(|&mapped| mapped == kind)` -/
def reservedKind (kind : UInt16) : Bool :=
  decide (kind ≤ 31) || extraFieldMapping.any (· == kind)

/-- `data = &data[size..]` guarded by `size > left`: `none` when fewer than `n` bytes are left.
One pass over the skipped bytes (no `length`). -/
def dropExact : Nat → Bytes → Option Bytes
  | 0, l => some l
  | _ + 1, [] => none
  | n + 1, _ :: t => dropExact n t

/-- The `while !data.is_empty()` loop.  Every iteration consumes at least the 4 header bytes, so
`fuel = data.length` is enough (`validateLoop_fuel`); running out of fuel is a distinct outcome so
that the bound is a theorem, not a convention. -/
def validateLoop : Nat → Bytes → Out Unit
  | _, [] => .ok ()
  | 0, _ :: _ => .panic "validate_extra_data: out of fuel"
  | fuel + 1, a :: b :: c :: d :: rest =>
    let kind := mk16 a b
    let size := (mk16 c d).toNat
    if kind == 0x0001 then .err (.io .other)            -- "No custom ZIP64 extra data allowed"
    else if reservedKind kind then .err (.io .other)     -- requires crate feature "unreserved"
    else match dropExact size rest with
      | none => .err (.io .other)                        -- "Extra data size exceeds extra field"
      | some r => validateLoop fuel r
  | _ + 1, _ => .err (.io .other)                        -- `left < 4`: "Incomplete extra data header"

/-- Bytes the local header's extra field must also hold for `large_file` entries. -/
def zip64Reserve (largeFile : Bool) : Nat := if largeFile then 20 else 0

/-- `validate_extra_data(file)` as a function of `file.large_file` and `file.extra_field`.
(`data.len() + 20` is a `usize` addition on a slice length: it cannot overflow.) -/
def validateExtraData (largeFile : Bool) (extra : Bytes) : Out Unit :=
  if extra.length + zip64Reserve largeFile > 65535 then .err (.io .invalidData)
  else validateLoop extra.length extra

/-! ### The open entry while extra data is being written -/

/-- The part of `ZipWriter` + `files.last()` that the extra-data calls touch. -/
structure EntrySt where
  headerStart : UInt64     -- `file.header_start`
  largeFile : Bool         -- `file.large_file`
  dataStart : UInt64       -- `file.data_start` (preliminary until the local part is ended)
  extraField : Bytes       -- `file.extra_field`: what the central record will carry
  inExtra : Bool           -- `writing_to_extra_field`
  centralOnly : Bool       -- `writing_to_central_extra_field_only`
  closed : Bool            -- `inner.is_closed()`
  localExtra : Bytes       -- bytes appended to the stream behind the local header (and its ZIP64 record)
  xlenField : UInt16       -- the extra-field-length field at `header_start + 28`
  deriving Repr, DecidableEq

/-- State right after `start_file_with_extra_data(name, options)` with the header at
`headerStart`: `write_local_file_header` emitted 30 bytes, the name and (large files) the 20-byte
ZIP64 record, `data_start` is the stream position behind them. -/
def EntrySt.init (headerStart : UInt64) (nameLen : Nat) (largeFile : Bool) : EntrySt :=
  { headerStart, largeFile,
    dataStart := headerStart + UInt64.ofNat (30 + nameLen + zip64Reserve largeFile),
    extraField := [], inExtra := true, centralOnly := false, closed := false,
    localExtra := [], xlenField := if largeFile then 20 else 0 }

/-- `Write::write` while `writing_to_extra_field`: `extra_field.write(buf)` appends everything. -/
def EntrySt.write (st : EntrySt) (buf : Bytes) : EntrySt :=
  { st with extraField := st.extraField ++ buf }

def checkedAdd64 (site : String) (a b : UInt64) : Out UInt64 :=
  if a.toNat + b.toNat < 18446744073709551616 then .ok (a + b) else .panic site

/-- `end_extra_data()`; returns the new state and the returned `data_start`. -/
def EntrySt.endExtraData (st : EntrySt) : Out (EntrySt × UInt64) :=
  if !st.inExtra then .err (.io .other)                 -- "Not writing to extra field"
  else if st.closed then .err (.io .brokenPipe)
  else
    match validateExtraData st.largeFile st.extraField with
    | .err e => .err e
    | .panic s => .panic s
    | .ok () =>
      if st.centralOnly then
        .ok ({ st with inExtra := false, centralOnly := false }, st.dataStart)
      else
        -- `writer.write_all(&file.extra_field)`, then `*data_start + file.extra_field.len() as u64`
        match checkedAdd64 "write.rs end_extra_data: data_start + len" st.dataStart
            (UInt64.ofNat st.extraField.length) with
        | .err e => .err e
        | .panic s => .panic s
        | .ok headerEnd =>
          -- `if file.large_file { 20 } else { 0 } + file.extra_field.len() as u16`
          let base : UInt16 := if st.largeFile then 20 else 0
          let len16 : UInt16 := UInt16.ofNat st.extraField.length
          if base.toNat + len16.toNat < 65536 then
            -- `file.header_start + 28`
            match checkedAdd64 "write.rs end_extra_data: header_start + 28" st.headerStart 28 with
            | .err e => .err e
            | .panic s => .panic s
            | .ok _ =>
              .ok ({ st with localExtra := st.localExtra ++ st.extraField, dataStart := headerEnd,
                             xlenField := base + len16, inExtra := false, centralOnly := false },
                   headerEnd)
          else .panic "write.rs end_extra_data: 20 + len as u16"

/-- `end_local_start_central_extra_data()` -/
def EntrySt.endLocalStartCentral (st : EntrySt) : Out (EntrySt × UInt64) :=
  match st.endExtraData with
  | .err e => .err e
  | .panic s => .panic s
  | .ok (st', ds) => .ok ({ st' with extraField := [], inExtra := true, centralOnly := true }, ds)

/-! ### `start_file_aligned` -/

/-- `(align - (data_start + 4) % align) % align` on `u64` values (the addition is guarded
separately in `startFileAligned`; the subtraction cannot underflow because `x % align < align`). -/
def padLength (dataStart align : UInt64) : UInt64 :=
  (align - (dataStart + 4) % align) % align

/-- What the padded branch writes: `b"za"`, `pad.len() as u16` little-endian, the zeros. -/
def zaRecord (padLen : UInt64) : List Bytes :=
  [[0x7a, 0x61], le16 padLen.toUInt16, List.replicate padLen.toNat 0]

/-- Body of `start_file_aligned` after `start_file_with_extra_data` returned `st0.dataStart`. -/
def EntrySt.startFileAligned (st0 : EntrySt) (align16 : UInt16) : Out (EntrySt × UInt64) :=
  let ds := st0.dataStart
  let a := align16.toUInt64
  let padded : Out EntrySt :=
    if 1 < a ∧ ds % a ≠ 0 then
      if ds.toNat + 4 < 18446744073709551616 then
        if ((ds + 4) % a).toNat ≤ a.toNat then
          let st1 := (zaRecord (padLength ds a)).foldl EntrySt.write st0
          match st1.endLocalStartCentral with
          | .err e => .err e
          | .panic s => .panic s
          | .ok (st2, fin) =>
            if fin % a = 0 then .ok st2 else .panic "write.rs start_file_aligned: assert_eq"
        else .panic "write.rs start_file_aligned: align - x % align"
      else .panic "write.rs start_file_aligned: data_start + 4"
    else .ok st0
  match padded with
  | .err e => .err e
  | .panic s => .panic s
  | .ok st =>
    match st.endExtraData with
    | .err e => .err e
    | .panic s => .panic s
    | .ok (st', e) =>
      if ds.toNat ≤ e.toNat then .ok (st', e - ds)
      else .panic "write.rs start_file_aligned: extra_data_end - data_start"

/-- Everything observable about an entry started with `start_file_aligned`. -/
structure AlignResult where
  ret : UInt64             -- the call's return value
  dataStart : UInt64       -- final `data_start`: where the content is written
  xlenField : UInt16       -- local header's extra-field-length field
  localExtra : Bytes       -- local extra field behind the ZIP64 record
  centralExtra : Bytes     -- what the central record (and `ZipFile::extra_data`) will carry
  deriving Repr, DecidableEq

/-- `start_file_aligned(name, options.large_file(largeFile), align)` with the local header at
`headerStart` and a name of `nameLen` bytes (`start_entry` refuses longer names first). -/
def alignedPlacement (headerStart : UInt64) (nameLen : Nat) (largeFile : Bool) (align : UInt16) :
    Out AlignResult :=
  if nameLen > 65535 then .err .invalidArchive
  else
    match (EntrySt.init headerStart nameLen largeFile).startFileAligned align with
    | .err e => .err e
    | .panic s => .panic s
    | .ok (st, ret) => .ok ⟨ret, st.dataStart, st.xlenField, st.localExtra, st.extraField⟩

/-! ### The two public call sequences for user-supplied extra data -/

inductive ExtraMode | shared | split | centralOnly
  deriving DecidableEq, Repr

/-- First phase: `start_file_with_extra_data; write_all(local)` and then `end_extra_data`
(shared) or `end_local_start_central_extra_data` (split; `centralOnly` writes nothing first). -/
def extraLocalPhase (headerStart : UInt64) (nameLen : Nat) (largeFile : Bool) (mode : ExtraMode)
    («local» : Bytes) : Out EntrySt :=
  let st0 := EntrySt.init headerStart nameLen largeFile
  match mode with
  | .shared =>
    match (st0.write «local»).endExtraData with
    | .ok (st, _) => .ok st
    | .err e => .err e
    | .panic s => .panic s
  | .split =>
    match (st0.write «local»).endLocalStartCentral with
    | .ok (st, _) => .ok st
    | .err e => .err e
    | .panic s => .panic s
  | .centralOnly =>
    match st0.endLocalStartCentral with
    | .ok (st, _) => .ok st
    | .err e => .err e
    | .panic s => .panic s

/-- Second phase of the split sequences: `write_all(central); end_extra_data`. -/
def extraCentralPhase (st : EntrySt) (central : Bytes) : Out EntrySt :=
  match (st.write central).endExtraData with
  | .ok (st', _) => .ok st'
  | .err e => .err e
  | .panic s => .panic s

/-- The whole call sequence; the final state carries what the local header (`localExtra`,
`xlenField`, `dataStart`) and the central record (`extraField`) will hold. -/
def extraPlacement (headerStart : UInt64) (nameLen : Nat) (largeFile : Bool) (mode : ExtraMode)
    («local» central : Bytes) : Out EntrySt :=
  match extraLocalPhase headerStart nameLen largeFile mode «local» with
  | .err e => .err e
  | .panic s => .panic s
  | .ok st => if mode = .shared then .ok st else extraCentralPhase st central

/-! ### The central record written by `finish`, and what the reader returns as `extra_data()` -/

/-- `write_central_zip64_extra_field` for the entry once it is closed (`us` / `cs`: its uncompressed and
compressed sizes): the ZIP64 record the writer itself puts at the front of the central record's extra
field — empty unless a size or the header offset is ≥ 0xFFFFFFFF.  (The function of `Model/Records.lean`,
tied to the source by `Tie.Records.tie_write_central_zip64_extra_field`; it reads these three fields only.) -/
def EntrySt.centralZip64 (st : EntrySt) (us cs : UInt64) : Bytes :=
  Model.centralZip64Bytes
    { (default : Model.FileData) with headerStart := st.headerStart, uncompressedSize := us, compressedSize := cs }

/-- The extra field of the central record `write_central_directory_header` emits for the entry: the ZIP64
record, then `file.extra_field` — or `InvalidArchive("Extra data exceeds extra field")` before anything is
written when the two together exceed the 16-bit length field.  `central_header_to_zip_file` (read.rs) stores
these bytes unchanged in `ZipFileData::extra_field`, which is what `ZipFile::extra_data()` returns
(`Model.centralHeaderInner`; `Props.C17.reader_returns_central_extra`). -/
def EntrySt.centralExtraAll (st : EntrySt) (us cs : UInt64) : Out Bytes :=
  let z := st.centralZip64 us cs
  if z.length + st.extraField.length > 65535 then .err .invalidArchive else .ok (z ++ st.extraField)

/-! ### Reader: `find_content` (read.rs) -/

/-- `data.header_start + 30 + file_name_length + extra_field_length` from the local header's own
length fields. -/
def readerDataStart (headerStart : UInt64) (nameLenField xlenField : UInt16) : Out UInt64 :=
  if headerStart.toNat + 30 + nameLenField.toNat + xlenField.toNat < 18446744073709551616 then
    .ok (headerStart + 30 + nameLenField.toUInt64 + xlenField.toUInt64)
  else .panic "read.rs find_content: data_start"

end ZipVerif.Model.Align
