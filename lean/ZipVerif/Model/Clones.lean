import ZipVerif.Basic.Bytes
import ZipVerif.Basic.Out
/-
C20 — system model of cloned archive handles (src/read.rs:36-71, 186-206, 578-631; src/types.rs:277-306).

What is modelled
* The immutable part shared by every clone (`Arc<Shared>`): the archive bytes (every clone's reader is a
  clone of the same `Cursor<Vec<u8>>`, so all readers see the same bytes) and per entry the fields the
  operations below look at (`header_start`, `compressed_size`, name, size, crc, whether the method is
  `Stored`, whether the method has a decoder).  The *decoded* content of a non-stored entry is given
  data (`Entry.content`): this model is about independence of handles, not about inflating.
* The only shared mutable state: one `data_start` cell per entry (`AtomicU64`, relaxed load/store).
* Per handle: its own reader position, its open `ZipFile` (if any), the remaining script, the
  observations made so far, and a program counter for the one API call that is not atomic (`by_index*`).

Atomic-step granularity (this is what `Props/C20.lean` quantifies over)
* `by_index(i)` / `by_index_raw(i)` = three atomic steps
    1. [lookup entry; seek own reader to `header_start`; read the local header; compute `data_start`]
       — touches only handle-local state and immutable data; fails here (no store) on a bad index, bad
       signature, short header or `u64` overflow;
    2. [`data.data_start.store(v)`]  — a load-free store into cell `i`, nothing else;
    3. [seek own reader to `v`; build the `Take`/`ZipFile`, or fail with `unsupported` (decoder lookup in
       `make_crypto_reader`, which runs AFTER the store)] — handle-local again.
* `ZipFile::data_start()` = one atomic step, a single load of cell `i`.
* `read`, metadata accessors, dropping the file, `len()` = one atomic step each: they touch nothing that
  another handle can write (own reader, own `ZipFile`, immutable `Shared`).
A schedule is a list of handle ids; each occurrence runs the next atomic step of that handle.  Every
access to a cell is a single-location atomic load or store, so any execution of the real program is an
interleaving of such steps *per location* (coherence); memory-model subtleties beyond per-location
coherence (there is no cross-location reasoning to do: handle-local data is not shared and `Shared` is
immutable after `Arc::new`) and real OS scheduling are outside the model.

Encrypted entries and passwords (round 3)
* `by_index_decrypt(i, pw)` / `by_name(name)` / `by_name_decrypt(name, pw)` are the same three atomic steps:
  a name is resolved through the immutable `names_map` (last duplicate wins; an absent name and an
  out-of-range index both end in `FileNotFound` before anything is touched); an encrypted entry opened
  WITHOUT a password is refused (`PASSWORD_REQUIRED`) before `find_content`, i.e. without seek or store;
  a password given for a plain entry is discarded.
* What `make_crypto_reader` answers for an encrypted entry and a password — key derivation, the AES
  verifier / ZipCrypto check byte, and what the decrypting + decoding pipeline then delivers — is the
  PARAMETER `Arch.unlock : entry index → password → Unlock` (C15 / C16 are about what it computes).  The
  point of this model: it is a function of the immutable archive, the entry and the password ALONE; no
  handle-shared state enters.  A crate that lets one handle's successful validation influence another
  handle's (a shared key cache) is not an instance of this model and disagrees with it on a two-handle
  script (right password on one clone, wrong password on the other).
* A read that reaches the end of a decoded entry whose CRC-32 (or authentication code) does not match
  fails: `OpenFile.eofErr` (given data for plain entries: `Entry.eofErr`; part of `Unlock.opens` for
  encrypted ones).  The harness's read call loops until `n` bytes or end of file, so the error replaces the
  bytes of the call that hits the end; it is sticky.

Hypothesis on the reader type (explicit in `Props/C20.lean`): each handle owns its reader position
(`Handle.pos`); i.e. `R::clone` yields a reader with its OWN cursor over the same bytes (`Cursor<Vec<u8>>`,
`Cursor<Arc<[u8]>>`, a re-opened `File`).  `ZipArchive<&File>` / `try_clone`d files share the OS offset and
are NOT instances (see `SharedPos` in the Props file for the counterexample in the model's terms).

Scope: checksum failures in the MIDDLE of a stream (decoder errors) are not modelled (archives are well-formed apart
from the explicitly modelled header failures and end-of-entry check failures); the reader is `Cursor`-like (seeking never fails except on
`u64` overflow).  For a decoded non-stored entry the decoder's `BufReader` slurps the whole `Take` on the
first read — the resulting reader position is unobservable (every later `open` re-seeks absolutely) and is
modelled as "end of the compressed stream".
-/

namespace ZipVerif.Model.Clones
open ZipVerif

/-- Immutable per-entry data (`ZipFileData` fields used here + the decoded content as given data). -/
structure Entry where
  name : Bytes
  headerStart : UInt64
  compSize : UInt64
  size : UInt64
  crc : UInt32
  /-- `compression_method == Stored`: reads go straight to the handle's reader. -/
  stored : Bool
  /-- the method has a decoder; otherwise `by_index` fails with `unsupported` after the store. -/
  decodable : Bool
  /-- decoded content (used for non-stored entries; for stored entries the archive bytes are read). -/
  content : Bytes
  /-- general-purpose bit 0 (`ZipFileData.encrypted`). -/
  encrypted : Bool := false
  /-- plain entry, decoding open: the read that reaches the end of the entry fails with this kind
  (`Crc32Reader`: "Invalid checksum" = `Other`) instead of returning; `none` = the CRC-32 matches. -/
  eofErr : Option IoKind := none
  deriving DecidableEq

/-- What opening an ENCRYPTED entry with a password yields (`make_crypto_reader` and the pipeline behind it). -/
inductive Unlock
  /-- `Ok(Err(InvalidPassword))`: AES verification value / ZipCrypto check byte mismatch. -/
  | wrong
  /-- `Err(e)`, e.g. an AES entry shorter than salt + verifier + authentication code. -/
  | fails (e : ZErr)
  /-- validation passed: reads deliver `content`, then end of file or `eofErr` (CRC-32 / HMAC mismatch —
  e.g. a wrong ZipCrypto password that passes the 1-byte check). -/
  | opens (content : Bytes) (eofErr : Option IoKind)
  deriving DecidableEq

structure Arch where
  bytes : Bytes
  entries : List Entry
  /-- Parameter: outcome of validation + decryption + decoding as a function of (entry index, password)
  only.  Never consulted for plain entries. -/
  unlock : Nat → Bytes → Unlock := fun _ _ => .wrong

/-- How an entry is opened. -/
inductive Mode
  | raw                 -- `by_index_raw`
  | noPw                -- `by_index` / `by_name`
  | pw (p : Bytes)      -- `by_index_decrypt` / `by_name_decrypt`
  deriving DecidableEq

/-- `names_map.get(name)`: the LAST entry with that name; an absent name is mapped to the first
out-of-range index (both paths are `ok_or(FileNotFound)` before anything else happens). -/
def nameIndexAux (name : Bytes) : List Entry → Nat → Option Nat → Option Nat
  | [], _, acc => acc
  | e :: es, k, acc => nameIndexAux name es (k + 1) (if e.name = name then some k else acc)

def Arch.nameIndex (A : Arch) (name : Bytes) : Nat :=
  match nameIndexAux name A.entries 0 none with
  | some i => i
  | none => A.entries.length

/-- Result of the local-header part of `find_content` (everything before the store). -/
inductive HdrRes
  | ok (dataStart : UInt64)
  | err (e : ZErr)
  | panic
  deriving DecidableEq

def lfhSig : UInt32 := 0x04034b50

/-- `find_content` up to (excluding) `data.data_start.store(..)`: a function of the immutable bytes and
`header_start` only. -/
def findContent (bytes : Bytes) (hs : UInt64) : HdrRes :=
  match rd32 (bytes.drop hs.toNat) with
  | none => .err (.io .unexpectedEof)
  | some (sig, _) =>
    if sig ≠ lfhSig then .err .invalidArchive
    -- `seek(SeekFrom::Current(22))` on a `Cursor` is a checked add of the position
    else if 2 ^ 64 ≤ hs.toNat + 26 then .err (.io .invalidInput)
    else
      match rd16 (bytes.drop (hs.toNat + 26)) with
      | none => .err (.io .unexpectedEof)
      | some (nl, r) =>
        match rd16 r with
        | none => .err (.io .unexpectedEof)
        | some (el, _) =>
          -- `header_start + 30 + name_len + extra_len`, checked `u64` additions
          if hs.toNat + 30 + nl.toNat + el.toNat < 2 ^ 64
          then .ok (UInt64.ofNat (hs.toNat + 30 + nl.toNat + el.toNat))
          else .panic

/-- The value every successful `open i` stores into cell `i` (`none`: opening fails before the store,
or there is no such entry). Depends only on the immutable archive and the index. -/
def Arch.f (A : Arch) (i : Nat) : Option UInt64 :=
  match A.entries[i]? with
  | none => none
  | some e =>
    match findContent A.bytes e.headerStart with
    | .ok v => some v
    | _ => none

/-- `(None, true)` in `by_index_with_optional_password`: no password given, entry encrypted. -/
def needsPw (m : Mode) (e : Entry) : Bool :=
  match m with
  | .noPw => e.encrypted
  | _ => false

/-- Does an open of entry `i` in mode `m` reach the store, and with which value: `by_index`/`by_name` on an
encrypted entry is refused before `find_content`. -/
def Arch.g (A : Arch) (i : Nat) (m : Mode) : Option UInt64 :=
  match A.entries[i]? with
  | none => none
  | some e => if needsPw m e then none else A.f i

/-- API calls of one handle. -/
inductive Op
  | openIdx (i : Nat)     -- `archive.by_index(i)` (drops the previously open file first)
  | openRaw (i : Nat)     -- `archive.by_index_raw(i)`
  | openDec (i : Nat) (p : Bytes)          -- `archive.by_index_decrypt(i, p)`
  | openName (name : Bytes)                -- `archive.by_name(name)`
  | openNameDec (name : Bytes) (p : Bytes) -- `archive.by_name_decrypt(name, p)`
  | read (n : Nat)        -- read up to `n` bytes of the open file (loops until `n` or EOF)
  | dataStart             -- `file.data_start()`
  | info                  -- `file.name_raw()`, `size()`, `crc32()`, `header_start()`
  | close                 -- drop the open file
  | len                   -- `archive.len()` (only expressible while no file borrows the archive)
  deriving DecidableEq

/-- What a call returns to its caller. -/
inductive Obs
  | opened
  | openErr (e : ZErr)
  | openPanic
  | invalidPassword       -- `Ok(Err(InvalidPassword))`
  | bytes (b : Bytes)
  | readErr (k : IoKind)  -- the read call failed (end-of-entry check)
  | dataStart (v : UInt64)
  | info (name : Bytes) (size : UInt64) (crc : UInt32) (headerStart : UInt64)
  | closed
  | len (n : Nat)
  | noFile          -- the call needs an open file and the handle has none
  | busy            -- `len` while a file borrows the archive (rejected by the borrow checker)
  | noCell          -- unreachable: load of a cell that does not exist
  deriving DecidableEq

/-- Program counter inside `by_index*` (between its atomic steps). -/
inductive Pc
  | idle
  | storing (i : Nat) (m : Mode) (v : UInt64)
  | seeking (i : Nat) (m : Mode) (v : UInt64)
  deriving DecidableEq

/-- An open `ZipFile`. `direct`: reads go straight to the reader (`Raw` or `Stored`); `remaining` is the
`Take` limit left; `consumed` counts decoded bytes handed out; `content` is what a decoding (non-direct)
file delivers; `eofErr` the failure of the read that reaches the end. -/
structure OpenFile where
  idx : Nat
  direct : Bool
  remaining : Nat
  consumed : Nat
  content : Bytes := []
  eofErr : Option IoKind := none
  deriving DecidableEq

structure Handle where
  script : List Op
  pc : Pc
  pos : Nat
  file : Option OpenFile
  obs : List Obs
  deriving DecidableEq

def Handle.init (script : List Op) : Handle := ⟨script, .idle, 0, none, []⟩

def Handle.emit (h : Handle) (o : Obs) : Handle := { h with obs := h.obs ++ [o] }

/-- First atomic step of `by_index*`: everything before the store. -/
def beginOpen (A : Arch) (h : Handle) (i : Nat) (m : Mode) : Handle :=
  -- the previous `ZipFile` had to be dropped before the archive can be borrowed again
  let h := { h with file := none }
  match A.entries[i]? with
  | none => h.emit (.openErr .fileNotFound)
  | some e =>
    -- `(None, true) => return Err(UnsupportedArchive(PASSWORD_REQUIRED))`: before any seek or store
    if needsPw m e then h.emit (.openErr .passwordRequired) else
    match findContent A.bytes e.headerStart with
    | .ok v => { h with pc := .storing i m v, pos := e.headerStart.toNat + 30 }
    | .err er => { h with pos := e.headerStart.toNat }.emit (.openErr er)
    | .panic => { h with pos := e.headerStart.toNat + 30 }.emit .openPanic

/-- Last atomic step of `by_index*`: seek to the stored value, build the `ZipFile`. -/
def finishOpen (A : Arch) (h : Handle) (i : Nat) (m : Mode) (v : UInt64) : Handle :=
  let h := { h with pc := .idle, pos := v.toNat, file := none }
  match A.entries[i]? with
  | none => h.emit (.openErr .fileNotFound)       -- unreachable (the entry existed in step 1)
  | some e =>
    match m with
    | .raw => { h with file := some ⟨i, true, e.compSize.toNat, 0, [], none⟩ }.emit .opened
    | .noPw =>
      -- (an encrypted entry never gets here: refused in step 1)
      if e.decodable then
        { h with file := some ⟨i, e.stored, e.compSize.toNat, 0, e.content, e.eofErr⟩ }.emit .opened
      else h.emit (.openErr .unsupportedArchive)
    | .pw p =>
      -- the method check of `make_crypto_reader` comes before any validation
      if !e.decodable then h.emit (.openErr .unsupportedArchive)
      else if !e.encrypted then
        -- "Password supplied, but none needed! Discard."
        { h with file := some ⟨i, e.stored, e.compSize.toNat, 0, e.content, e.eofErr⟩ }.emit .opened
      else
        -- the ONLY place a password is looked at: a function of (entry, password)
        match A.unlock i p with
        | .wrong => h.emit .invalidPassword
        | .fails er => h.emit (.openErr er)
        | .opens c ee => { h with file := some ⟨i, false, e.compSize.toNat, 0, c, ee⟩ }.emit .opened

/-- What the read call returns: the bytes, unless the call reached the end of the entry (it got fewer
than the `n` it loops for) and the end-of-entry check fails. -/
def readObs (fl : OpenFile) (got : Bytes) (n : Nat) : Obs :=
  match fl.eofErr with
  | some k => if got.length < n then .readErr k else .bytes got
  | none => .bytes got

def doRead (A : Arch) (h : Handle) (n : Nat) : Handle :=
  match h.file with
  | none => h.emit .noFile
  | some fl =>
    if fl.direct then
      let got := (A.bytes.drop h.pos).take (min n fl.remaining)
      { h with pos := h.pos + got.length,
               file := some { fl with remaining := fl.remaining - got.length,
                                      consumed := fl.consumed + got.length } }.emit (readObs fl got n)
    else
      let got := (fl.content.drop fl.consumed).take n
      { h with pos := h.pos + fl.remaining,
               file := some { fl with remaining := 0, consumed := fl.consumed + got.length } }.emit (readObs fl got n)

/-- A call that starts while the handle is idle: its first (for everything but `by_index*`: its only)
atomic step. Reads the cells only for `dataStart` (one load), never writes them. -/
def doOp (A : Arch) (cells : List UInt64) (h : Handle) : Op → Handle
  | .openIdx i => beginOpen A h i .noPw
  | .openRaw i => beginOpen A h i .raw
  | .openDec i p => beginOpen A h i (.pw p)
  | .openName nm => beginOpen A h (A.nameIndex nm) .noPw
  | .openNameDec nm p => beginOpen A h (A.nameIndex nm) (.pw p)
  | .read n => doRead A h n
  | .dataStart =>
    match h.file with
    | none => h.emit .noFile
    | some fl =>
      match cells[fl.idx]? with
      | some v => h.emit (.dataStart v)
      | none => h.emit .noCell
  | .info =>
    match h.file with
    | none => h.emit .noFile
    | some fl =>
      match A.entries[fl.idx]? with
      | some e => h.emit (.info e.name e.size e.crc e.headerStart)
      | none => h.emit .noFile                    -- unreachable
  | .close =>
    match h.file with
    | none => h.emit .noFile
    | some _ => { h with file := none }.emit .closed
  | .len =>
    match h.file with
    | none => h.emit (.len A.entries.length)
    | some _ => h.emit .busy

/-- One atomic step of a handle against the shared cells. Only the `storing` step writes the cells,
only `dataStart` reads them. -/
def stepH (A : Arch) (cells : List UInt64) (h : Handle) : List UInt64 × Handle :=
  match h.pc with
  | .storing i m v => (cells.set i v, { h with pc := .seeking i m v })
  | .seeking i m v => (cells, finishOpen A h i m v)
  | .idle =>
    match h.script with
    | [] => (cells, h)
    | op :: rest => (cells, doOp A cells { h with script := rest } op)

/-- The opening calls: which entry (names resolved through the immutable name map) and in which mode. -/
def Op.target (A : Arch) : Op → Option (Nat × Mode)
  | .openIdx i => some (i, .noPw)
  | .openRaw i => some (i, .raw)
  | .openDec i p => some (i, .pw p)
  | .openName nm => some (A.nameIndex nm, .noPw)
  | .openNameDec nm p => some (A.nameIndex nm, .pw p)
  | _ => none

/-- Cells right after `ZipArchive::new`: every `data_start` is 0. -/
def initCells (A : Arch) : List UInt64 := A.entries.map (fun _ => 0)

/-! ### A handle used alone -/

/-- `n` atomic steps of a single handle. -/
def soloRun (A : Arch) (cells : List UInt64) (h : Handle) : Nat → List UInt64 × Handle
  | 0 => (cells, h)
  | n + 1 => let r := soloRun A cells h n; stepH A r.1 r.2

/-- Number of atomic steps of one call (static: depends on the immutable archive only). -/
def opSteps (A : Arch) : Op → Nat
  | .openIdx i => if (A.g i .noPw).isSome then 3 else 1
  | .openRaw i => if (A.g i .raw).isSome then 3 else 1
  | .openDec i p => if (A.g i (.pw p)).isSome then 3 else 1
  | .openName nm => if (A.g (A.nameIndex nm) .noPw).isSome then 3 else 1
  | .openNameDec nm p => if (A.g (A.nameIndex nm) (.pw p)).isSome then 3 else 1
  | _ => 1

def atomicSteps (A : Arch) (script : List Op) : Nat := (script.map (opSteps A)).sum

/-- State of a handle that ran its whole script alone on a fresh archive. -/
def soloFinal (A : Arch) (script : List Op) : Handle :=
  (soloRun A (initCells A) (Handle.init script) (atomicSteps A script)).2

/-- Observations of a handle that runs its script alone. -/
def runAlone (A : Arch) (script : List Op) : List Obs := (soloFinal A script).obs

/-! ### Several handles -/

structure Sys where
  cells : List UInt64
  hs : List Handle

def Sys.init (A : Arch) (scripts : List (List Op)) : Sys := ⟨initCells A, scripts.map Handle.init⟩

/-- Handle `h` performs its next atomic step (ids outside the system do nothing). -/
def Sys.step (A : Arch) (s : Sys) (h : Nat) : Sys :=
  match s.hs[h]? with
  | none => s
  | some H => let r := stepH A s.cells H; ⟨r.1, s.hs.set h r.2⟩

def run (A : Arch) (s : Sys) (sched : List Nat) : Sys := sched.foldl (Sys.step A) s

/-- Per-handle observation lists after the schedule `sched` (a merge order of atomic steps). -/
def runInterleaved (A : Arch) (scripts : List (List Op)) (sched : List Nat) : List (List Obs) :=
  (run A (Sys.init A scripts) sched).hs.map (·.obs)

/-- `sched` is an interleaving of the handles' atomic-step sequences: it names existing handles only and
gives each handle exactly the atomic steps of its script. -/
def IsInterleaving (A : Arch) (scripts : List (List Op)) (sched : List Nat) : Prop :=
  (∀ h ∈ sched, h < scripts.length) ∧
  ∀ h (hh : h < scripts.length), sched.count h = atomicSteps A scripts[h]

instance (A : Arch) (scripts : List (List Op)) (sched : List Nat) :
    Decidable (IsInterleaving A scripts sched) := by
  unfold IsInterleaving; exact inferInstance

/-! ### API-call granularity (what the harness can schedule on one thread) -/

/-- Handle `h` performs one whole API call (its atomic steps back to back). -/
def Sys.call (A : Arch) (s : Sys) (h : Nat) : Sys :=
  let s1 := Sys.step A s h
  match s1.hs[h]? with
  | none => s1
  | some H =>
    match H.pc with
    | .idle => s1
    | _ => Sys.step A (Sys.step A s1 h) h

/-- Per-handle observation lists after a call-level schedule (each item = one whole API call). -/
def runCalls (A : Arch) (scripts : List (List Op)) (calls : List Nat) : List (List Obs) :=
  (calls.foldl (Sys.call A) (Sys.init A scripts)).hs.map (·.obs)

/-- `calls` is an interleaving of the handles' call sequences. -/
def IsCallInterleaving (scripts : List (List Op)) (calls : List Nat) : Prop :=
  (∀ h ∈ calls, h < scripts.length) ∧
  ∀ h (hh : h < scripts.length), calls.count h = scripts[h].length

instance (scripts : List (List Op)) (calls : List Nat) : Decidable (IsCallInterleaving scripts calls) := by
  unfold IsCallInterleaving; exact inferInstance

end ZipVerif.Model.Clones
