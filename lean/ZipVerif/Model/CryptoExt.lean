import ZipVerif.Model.Reader
import ZipVerif.Model.Aes
import ZipVerif.Model.ZipCrypto
/-
The crate's OWN decryption layers as an instance of the reader model's `Ext` (C05 finding F4).

`Model/Reader.lean` takes the two decryption layers as parameters (`Ext.zipCrypto`, `Ext.aes`).  They are not
external code: they are src/zipcrypto.rs and src/aes.rs + src/aes_ctr.rs, modelled in `Model/ZipCrypto.lean`
(C15) and `Model/Aes.lean` (C16) - the functions used below are the ones the translated layer methods are tied
to (`Tie/ZcLayer.lean`: `Reader.validate`, `Reader.read`; `Tie/AesLayer.lean`: `dataLength`, `Valid.read`).  This
file plugs them in:

  * `zipCryptoLayer pw check raw`   `ZipCryptoReader::new(take, pw).validate(validator)` and reading the validated
                                    reader to its end, the validator given by the byte it compares
                                    (`= Model.ZipCrypto.decrypt`, `zipCryptoLayer_eq_decrypt`);
  * `aesLayer P pw mode csize raw`  `AesReader::new(take, mode, csize).validate(pw)` over the bytes the `Take` can
                                    deliver, and reading the validated reader to its end (`aesReadAll`: a read of
                                    the whole declared payload, and the read that then reports end-of-file or the
                                    missing bytes; that the outcome does not depend on the buffer sizes is C16's
                                    `ctr_chunk_independent` / `drain_list`);
  * `cryptoExt P decode`            the `Ext` of both, PBKDF2 / the AES block function / HMAC-SHA1 uninterpreted
                                    (`Aes.AesPrims`) and the decompressors still a parameter.

Core Lean only: linked into `zvdriver` (the `read.seek` handler answers password-carrying ops with it).
-/

namespace ZipVerif.Model
open ZipVerif

/-- zipcrypto.rs `ZipCryptoReader::validate` + `read_to_end`: `err io:eof` when the entry is shorter than the
12-byte encryption header, `ok none` when byte 11 of the decrypted header differs from `check`, else the
decrypted rest. -/
def zipCryptoLayer (pw : Bytes) (check : UInt8) (raw : Bytes) : Out (Option Bytes) :=
  match rdN 12 raw with
  | none => .err (.io .unexpectedEof)
  | some (hdr, rest) =>
    let d := ZipCrypto.decryptAll (ZipCrypto.derive pw) hdr
    if d.1[11]? = some check then .ok (some (ZipCrypto.decryptAll d.2 rest).1) else .ok none

/-- It is C15's function-level decryption path, for either validator. -/
theorem zipCryptoLayer_eq_decrypt (pw : Bytes) (v : ZipCrypto.Validator) (raw : Bytes) :
    zipCryptoLayer pw v.byte raw = ZipCrypto.decrypt pw v raw := by
  unfold zipCryptoLayer ZipCrypto.decrypt ZipCrypto.Reader.validate ZipCrypto.Reader.new
  cases h : rdN 12 raw with
  | none => rfl
  | some p =>
    obtain ⟨hdr, rest⟩ := p
    dsimp only
    split <;> rfl

/-- The two models of `AesMode` (types.rs). -/
def aesModeView : AesMode → Aes.AesMode
  | .aes128 => .aes128 | .aes192 => .aes192 | .aes256 => .aes256

/-- Reading a validated AES reader to its end: one `read` with room for the whole declared payload (it returns
what the `Take` still has; when that is everything, the authentication code is read and compared in the same
call), then the `read` that finds nothing left - `Ok(0)` after a complete payload, `UnexpectedEof` after a
truncated one.  The bytes before an error are not observable through `read_to_end`. -/
def aesReadAll (P : Aes.AesPrims) (v : Aes.Valid Aes.ListSrc) : Out Bytes :=
  (Aes.drain P Aes.listSrc [v.dataRemaining, v.dataRemaining] v []).1

/-- aes.rs `AesReader::new(take, mode, compressed_size).validate(pw)`, then `read_to_end`. `raw` = what the `Take`
over the entry's data delivers (shorter than `csize` for a truncated archive). -/
def aesLayer (P : Aes.AesPrims) (pw : Bytes) (mode : AesMode) (csize : UInt64) (raw : Bytes) :
    Out (Option (Out Bytes)) :=
  let m := aesModeView mode
  match (Aes.validate P Aes.listSrc m (Aes.dataLength m csize.toNat) ⟨raw, []⟩ pw).1 with
  | .err e => .err e
  | .panic s => .panic s
  | .ok none => .ok none
  | .ok (some v) => .ok (some (aesReadAll P v))

/-- The reader's environment with the crate's own decryption layers; only the decompressors (flate2 / bzip2 /
zstd) and the three cryptographic primitives remain parameters. -/
def cryptoExt (P : Aes.AesPrims) (decode : Method → Bytes → Out Bytes) : Ext where
  decode := decode
  zipCrypto := zipCryptoLayer
  aes := aesLayer P

end ZipVerif.Model
