import ZipVerif.Basic.Bits
import ZipVerif.Spec.Dos
/-
Model of `zip::DateTime` (src/types.rs): DOS bit packing, the range-checked constructor and the
conversions to and from calendar time.  Bit operations mirror the Rust text; the arithmetic
reading of the DOS layout lives in `Spec/Dos.lean`.
-/

namespace ZipVerif.Model

structure DateTime where
  year : UInt16
  month : UInt8
  day : UInt8
  hour : UInt8
  minute : UInt8
  second : UInt8
  deriving DecidableEq, Repr, Inhabited

namespace DateTime

/-- `DateTime::default()` : 1980-01-01 00:00:00. -/
def default : DateTime := ⟨1980, 1, 1, 0, 0, 0⟩

/-- `DateTime::from_msdos`.  `years + 1980` is a checked `u16` addition in Rust; it cannot
overflow (`fromMsdos_no_overflow`), so the model uses the wrapping `+`. -/
def fromMsdos (datepart timepart : UInt16) : DateTime :=
  let seconds := (timepart &&& 0b0000000000011111) <<< 1
  let minutes := (timepart &&& 0b0000011111100000) >>> 5
  let hours := (timepart &&& 0b1111100000000000) >>> 11
  let days := datepart &&& 0b0000000000011111
  let months := (datepart &&& 0b0000000111100000) >>> 5
  let years := (datepart &&& 0b1111111000000000) >>> 9
  { year := years + 1980, month := months.toUInt8, day := days.toUInt8,
    hour := hours.toUInt8, minute := minutes.toUInt8, second := seconds.toUInt8 }

/-- `DateTime::from_date_and_time` (`Err(())` is `none`). -/
def fromDateAndTime (year : UInt16) (month day hour minute second : UInt8) : Option DateTime :=
  if 1980 ≤ year ∧ year ≤ 2107 ∧ 1 ≤ month ∧ month ≤ 12 ∧ 1 ≤ day ∧ day ≤ 31 ∧
      hour ≤ 23 ∧ minute ≤ 59 ∧ second ≤ 60 then
    some ⟨year, month, day, hour, minute, second⟩
  else none

/-- `DateTime::timepart`. -/
def timepart (x : DateTime) : UInt16 :=
  (x.second.toUInt16 >>> 1) ||| (x.minute.toUInt16 <<< 5) ||| (x.hour.toUInt16 <<< 11)

/-- `DateTime::datepart`.  `self.year - 1980` is a checked subtraction: `none` is the
arithmetic-overflow panic. -/
def datepart (x : DateTime) : Option UInt16 :=
  if x.year < 1980 then none
  else some (x.day.toUInt16 ||| (x.month.toUInt16 <<< 5) ||| ((x.year - 1980) <<< 9))


end DateTime

/-! ### Calendar time (`time::OffsetDateTime` restricted to what the conversions observe) -/

/-- A UTC calendar timestamp as the `time` crate exposes it through `year() … second()`. -/
structure Cal where
  year : Int
  month : Nat
  day : Nat
  hour : Nat
  minute : Nat
  second : Nat
  deriving DecidableEq, Repr

/-- Validity as enforced by `Date::from_calendar_date` + `Time::from_hms` (years within the
crate's default ±9999 window; the DOS range is far inside it).  The calendar rule is the explicit
`Spec.Dos.daysInMonth` (Gregorian), a PARAMETER as far as the `time` crate is concerned: validated
against `time` on every (year, month) of 1980..2107 by the `dos.dim` correspondence. -/
def Cal.valid (c : Cal) : Bool :=
  (-9999 ≤ c.year && c.year ≤ 9999) && (1 ≤ c.month && c.month ≤ 12) &&
  (1 ≤ c.day && c.day ≤ Spec.Dos.daysInMonth c.year c.month) &&
  c.hour ≤ 23 && c.minute ≤ 59 && c.second ≤ 59

/-- The part of `valid` that looks at the date fields only (`Date::from_calendar_date`) … -/
def Cal.dateValid (c : Cal) : Bool :=
  (-9999 ≤ c.year && c.year ≤ 9999) && (1 ≤ c.month && c.month ≤ 12) &&
  (1 ≤ c.day && c.day ≤ Spec.Dos.daysInMonth c.year c.month)

/-- … and the part that looks at the clock fields only (`Time::from_hms`). -/
def Cal.timeValid (c : Cal) : Bool := c.hour ≤ 23 && c.minute ≤ 59 && c.second ≤ 59

/-- `DateTime::to_time`: `none` is `Err(ComponentRange)`. -/
def DateTime.cal (x : DateTime) : Cal :=
  ⟨x.year.toNat, x.month.toNat, x.day.toNat, x.hour.toNat, x.minute.toNat, x.second.toNat⟩

def DateTime.toTime (x : DateTime) : Option Cal :=
  if x.cal.valid then some x.cal else none

/-- `impl TryFrom<OffsetDateTime> for DateTime`: `none` is `Err(DateTimeRangeError)`.
The argument is a *valid* calendar value (an `OffsetDateTime` cannot be anything else). -/
def DateTime.tryFromCal (c : Cal) : Option DateTime :=
  if 1980 ≤ c.year ∧ c.year ≤ 2107 then
    some ⟨UInt16.ofNat c.year.toNat, UInt8.ofNat c.month, UInt8.ofNat c.day, UInt8.ofNat c.hour,
      UInt8.ofNat c.minute, UInt8.ofNat c.second⟩
  else none


/-! ### The same conversions with what an `OffsetDateTime` carries besides the six fields -/

/-- `time::OffsetDateTime` as far as the two conversions can tell: the wall-clock fields IN ITS OWN
OFFSET, the sub-second part, and the UTC offset in seconds. -/
structure OCal where
  cal : Cal
  nanos : Nat
  offset : Int
  deriving DecidableEq, Repr

/-- `impl TryFrom<OffsetDateTime>`: reads `dt.year() … dt.second()`, i.e. the LOCAL fields; the offset
and the nanoseconds are not looked at. -/
def DateTime.tryFromO (o : OCal) : Option DateTime := DateTime.tryFromCal o.cal

/-- `to_time`: `PrimitiveDateTime::new(date, Time::from_hms(..)).assume_utc()` - offset UTC,
nanosecond 0. -/
def DateTime.toTimeO (x : DateTime) : Option OCal := x.toTime.map fun c => ⟨c, 0, 0⟩

/-- Values obtainable through the public API: `default`, `from_msdos`, `from_date_and_time`,
`TryFrom<OffsetDateTime>` / `from_time` (`tryFromCal` of a valid calendar value). -/
inductive DateTime.Constructible : DateTime → Prop
  | default : Constructible DateTime.default
  | msdos (d t : UInt16) : Constructible (DateTime.fromMsdos d t)
  | ctor {y mo d h mi s x} : DateTime.fromDateAndTime y mo d h mi s = some x → Constructible x
  | ofCal {c x} : c.valid = true → DateTime.tryFromCal c = some x → Constructible x

end ZipVerif.Model
