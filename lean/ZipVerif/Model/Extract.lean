import ZipVerif.Spec.Tree
/-
Model of the two extractors on a Unix host:

* `ZipArchive::extract` (src/read.rs:448-480): for every index `by_index(i)?`, `enclosed_name()` or
  `InvalidArchive("Invalid file path")`, `outpath = directory.join(filepath)`; a name ending in '/' →
  `create_dir_all(outpath)`; otherwise `if let Some(p) = outpath.parent() { if !p.exists()
  { create_dir_all(p)? } }`, `File::create(outpath)?`, `io::copy`; then
  `if let Some(mode) = file.unix_mode() { set_permissions(outpath, mode)? }`.
* `ZipStreamReader::extract` (src/read/stream.rs:60-107): `visit_file` for every local entry — the same
  without the `exists` test and without modes (a streamed entry has no external attributes) — and then
  `visit_additional_metadata` for every central record: `enclosed_name()` or the same error, and
  `set_permissions(directory.join(name), mode)` when `unix_mode()` is `Some`.

An error aborts the run and leaves what was done so far on disk, so both functions return the final
filesystem state together with the optional error.

What the archive reader delivers is input here (`EntryView`): the name, whether opening the entry
fails (`by_index` / `read_zipfile_from_stream` error), the bytes `io::copy` receives before the reader
ends or fails, and whether it fails (checksum mismatch, truncated data …), and `unix_mode()`.

How the string `directory.join(name)` reaches the kernel (std `Path::join`, `Path::parent`,
`Path::components`, all Unix): the directory is an absolute, clean path (`root`); the joined string
is `root + "/" + name`; the kernel walks its non-empty segments, skipping "." segments except a final
one.  `relComps` / `tailDot` / `endsSlash` (Spec/Tree.lean) compute that view from the name.
-/

namespace ZipVerif.Model.Extract
open ZipVerif ZipVerif.Spec.Paths ZipVerif.Spec.FS ZipVerif.Spec.Tree ZipVerif.Model.Paths

inductive Err where
  /-- `InvalidArchive("Invalid file path")` -/
  | invalidPath
  | fs (e : FsErr)
  | src (e : SrcErr)
  /-- the streaming reader met something that is neither a local nor a central header -/
  | noCentral
  deriving DecidableEq, Repr, Inhabited

/-- The reversed component list of `root.join(name)`. -/
def joinedR (root : Path) (n : Name) : List Comp :=
  (relComps n).reverse ++ root.reverse.map Comp.normal

def liftFs : FS × Option FsErr → FS × Option Err
  | (fs, none) => (fs, none)
  | (fs, some e) => (fs, some (.fs e))

/-- `if let Some(p) = outpath.parent() { if !p.exists() { create_dir_all(p)? } }` (seekable,
`chk = true`) / `if let Some(p) = outpath.parent() { create_dir_all(p)? }` (streaming). -/
def ensureParent (c : Cfg) (chk : Bool) (rp : List Comp) (fs : FS) : FS × Option FsErr :=
  match rp with
  | [] => (fs, none)                                    -- `outpath.parent()` is `None`
  | _ :: up => if chk && pathExists c fs up then (fs, none) else createDirAll c up false fs

/-- The body of both loops: create the directory, or the parent directories and the file. -/
def placeEntry (c : Cfg) (chk : Bool) (root : Path) (e : EntryView) (fs : FS) : FS × Option Err :=
  let rp := joinedR root e.name
  let dot := tailDot e.name
  if isDirName e.name then liftFs (createDirAll c rp dot fs)
  else
    match ensureParent c chk rp fs with
    | (fs1, some er) => (fs1, some (.fs er))
    | (fs1, none) =>
      match createFile c fs1 (dotted rp dot) (endsSlash e.name) with
      | .error er => (fs1, some (.fs er))
      | .ok (fs2, tgt) =>
        match e.readErr with
        | none => (writeAt fs2 tgt e.data, none)
        | some se => (writeAt fs2 tgt e.data, some (.src se))

/-- `set_permissions(directory.join(name), mode)` when a mode is recorded. -/
def applyMode (c : Cfg) (root : Path) (n : Name) (mode : Option Nat) (fs : FS) : FS × Option Err :=
  match mode with
  | none => (fs, none)
  | some m =>
    match setPermissions c fs (dotted (joinedR root n) (tailDot n)) (endsSlash n) m with
    | .ok fs' => (fs', none)
    | .error er => (fs, some (.fs er))

/-- One iteration of `ZipArchive::extract`. -/
def seekEntry (c : Cfg) (root : Path) (e : EntryView) (fs : FS) : FS × Option Err :=
  match e.openErr with
  | some se => (fs, some (.src se))
  | none =>
    match enclosedName e.name with
    | none => (fs, some .invalidPath)
    | some _ =>
      match placeEntry c true root e fs with
      | (fs1, some er) => (fs1, some er)
      | (fs1, none) => applyMode c root e.name e.mode fs1

/-- `ZipArchive::extract(directory)`. -/
def extractSeek (c : Cfg) (root : Path) : List EntryView → FS → FS × Option Err
  | [], fs => (fs, none)
  | e :: es, fs =>
    match seekEntry c root e fs with
    | (fs1, some er) => (fs1, some er)
    | (fs1, none) => extractSeek c root es fs1

/-- `Extractor::visit_file`. -/
def streamFile (c : Cfg) (root : Path) (e : EntryView) (fs : FS) : FS × Option Err :=
  match e.openErr with
  | some se => (fs, some (.src se))
  | none =>
    match enclosedName e.name with
    | none => (fs, some .invalidPath)
    | some _ => placeEntry c false root e fs

def streamFiles (c : Cfg) (root : Path) : List EntryView → FS → FS × Option Err
  | [], fs => (fs, none)
  | e :: es, fs =>
    match streamFile c root e fs with
    | (fs1, some er) => (fs1, some er)
    | (fs1, none) => streamFiles c root es fs1

/-- `Extractor::visit_additional_metadata`. -/
def streamMeta (c : Cfg) (root : Path) (m : Name × Option Nat) (fs : FS) : FS × Option Err :=
  match enclosedName m.1 with
  | none => (fs, some .invalidPath)
  | some _ => applyMode c root m.1 m.2 fs

def streamMetas (c : Cfg) (root : Path) : List (Name × Option Nat) → FS → FS × Option Err
  | [], fs => (fs, none)
  | m :: ms, fs =>
    match streamMeta c root m fs with
    | (fs1, some er) => (fs1, some er)
    | (fs1, none) => streamMetas c root ms fs1

/-- `ZipStreamReader::extract(directory)`: all local entries, then all central records; the reader
insists on at least one central record after the local entries (an archive without entries starts
with the end-of-central-directory signature, which `read_zipfile_from_stream` rejects). -/
def extractStream (c : Cfg) (root : Path) (files : List EntryView) (metas : List (Name × Option Nat))
    (fs : FS) : FS × Option Err :=
  match streamFiles c root files fs with
  | (fs1, some er) => (fs1, some er)
  | (fs1, none) =>
    match metas with
    | [] => (fs1, some .noCentral)
    | _ => streamMetas c root metas fs1

end ZipVerif.Model.Extract
