import ZipVerif.Spec.Tree
/-
Model of the two extractors on a Unix host:

* `ZipArchive::extract` (src/read.rs): for every index `by_index(i)?`, `enclosed_name()` or
  `InvalidArchive("Invalid file path")`, `outpath = directory.join(filepath)`; a name ending in '/' →
  `create_dir_all(outpath)`; otherwise `if let Some(p) = outpath.parent() { if !p.exists()
  { create_dir_all(p)? } }`, `File::create(outpath)?`, `io::copy`; then
  `if let Some(mode) = file.unix_mode() { modes.push((path_depth(filepath), outpath, mode)) }`; after
  the loop `apply_unix_modes(modes)?`: a stable sort by descending depth, then `set_permissions`.
  The loop is `place_entries(directory, &mut modes)`; when it FAILS, `extract` still calls
  `apply_unix_modes(modes)` for the modes recorded so far — those of the entries placed completely
  before the failing one — ignores its result and returns the error of the loop (repair `fix: a failed
  extract still applies the Unix modes recorded for the entries written so far`; between the repair
  below and this one a failed run applied no mode at all and left e.g. an entry recorded as 0600 at
  the umask default).
* `ZipStreamReader::extract` (src/read/stream.rs): `visit_file` for every local entry — the same
  without the `exists` test and without modes (a streamed entry has no external attributes) — and then
  `visit_additional_metadata` for every central record: `enclosed_name()` or the same error, and the
  same `push` when `unix_mode()` is `Some`; after the visit `apply_unix_modes` — also when the visit
  FAILS (`let visited = self.visit(&mut extractor); let applied = apply_unix_modes(extractor.1);
  visited?; applied?`): the modes of the central records seen before the failure are applied, best
  effort, and the error of the visit is returned.  A failure while the files are placed precedes every
  central record: no mode is known then.
  (Before the repair `fix: extract applies the recorded Unix modes after all entries are written,
  deeper paths first` the seekable extractor applied each mode right after its entry and the streaming
  one applied them in central-directory order: a read-only directory / a read-only first duplicate /
  a directory without search permission made the rest of the run fail for an unprivileged caller.)

An error aborts the run and leaves what was done so far on disk, so both functions return the final
filesystem state together with the optional error.

What the archive reader delivers is input here (`EntryView`): the name, whether opening the entry
fails (`by_index` / `read_zipfile_from_stream` error), the bytes `io::copy` receives before the reader
ends or fails, and whether it fails (checksum mismatch, truncated data …), and `unix_mode()`.

How the string `directory.join(name)` reaches the kernel (std `Path::join`, `Path::parent`,
`Path::components`, all Unix): the directory is an absolute, clean path (`root`); the joined string
is `root + "/" + name`; the kernel walks its non-empty segments, skipping "." segments except a final
one.  `relComps` / `tailDot` / `endsSlash` (Spec/Tree.lean) compute that view from the name.
-/

namespace ZipVerif.Model.Extract
open ZipVerif ZipVerif.Spec.Paths ZipVerif.Spec.FS ZipVerif.Spec.Tree ZipVerif.Model.Paths

inductive Err where
  /-- `InvalidArchive("Invalid file path")` -/
  | invalidPath
  | fs (e : FsErr)
  | src (e : SrcErr)
  /-- the streaming reader met something that is neither a local nor a central header -/
  | noCentral
  deriving DecidableEq, Repr, Inhabited

/-- The reversed component list of `root.join(name)`. -/
def joinedR (root : Path) (n : Name) : List Comp :=
  (relComps n).reverse ++ root.reverse.map Comp.normal

def liftFs : FS × Option FsErr → FS × Option Err
  | (fs, none) => (fs, none)
  | (fs, some e) => (fs, some (.fs e))

/-- `if let Some(p) = outpath.parent() { if !p.exists() { create_dir_all(p)? } }` (seekable,
`chk = true`) / `if let Some(p) = outpath.parent() { create_dir_all(p)? }` (streaming). -/
def ensureParent (c : Cfg) (chk : Bool) (rp : List Comp) (fs : FS) : FS × Option FsErr :=
  match rp with
  | [] => (fs, none)                                    -- `outpath.parent()` is `None`
  | _ :: up => if chk && pathExists c fs up then (fs, none) else createDirAll c up false fs

/-- The body of both loops: create the directory, or the parent directories and the file. -/
def placeEntry (c : Cfg) (chk : Bool) (root : Path) (e : EntryView) (fs : FS) : FS × Option Err :=
  let rp := joinedR root e.name
  let dot := tailDot e.name
  if isDirName e.name then liftFs (createDirAll c rp dot fs)
  else
    match ensureParent c chk rp fs with
    | (fs1, some er) => (fs1, some (.fs er))
    | (fs1, none) =>
      match createFile c fs1 (dotted rp dot) (endsSlash e.name) with
      | .error er => (fs1, some (.fs er))
      | .ok (fs2, tgt) =>
        match e.readErr with
        | none => (writeAt fs2 tgt e.data, none)
        | some se => (writeAt fs2 tgt e.data, some (.src se))

/-- `set_permissions(directory.join(name), mode)` when a mode is recorded. -/
def applyMode (c : Cfg) (root : Path) (n : Name) (mode : Option Nat) (fs : FS) : FS × Option Err :=
  match mode with
  | none => (fs, none)
  | some m =>
    match setPermissions c fs (dotted (joinedR root n) (tailDot n)) (endsSlash n) m with
    | .ok fs' => (fs', none)
    | .error er => (fs, some (.fs er))

/-- `apply_unix_modes` after the stable sort: `set_permissions(path, mode)?` for each pending mode. -/
def applyModes (c : Cfg) (root : Path) : List (Name × Option Nat) → FS → FS × Option Err
  | [], fs => (fs, none)
  | m :: ms, fs =>
    match applyMode c root m.1 m.2 fs with
    | (fs1, some er) => (fs1, some er)
    | (fs1, none) => applyModes c root ms fs1

/-- One iteration of `ZipArchive::extract` (`chk = true`) / `Extractor::visit_file` (`chk = false`):
the recorded mode is only remembered. -/
def placeFile (c : Cfg) (chk : Bool) (root : Path) (e : EntryView) (fs : FS) : FS × Option Err :=
  match e.openErr with
  | some se => (fs, some (.src se))
  | none =>
    match enclosedName e.name with
    | none => (fs, some .invalidPath)
    | some _ => placeEntry c chk root e fs

def placeFiles (c : Cfg) (chk : Bool) (root : Path) : List EntryView → FS → FS × Option Err
  | [], fs => (fs, none)
  | e :: es, fs =>
    match placeFile c chk root e fs with
    | (fs1, some er) => (fs1, some er)
    | (fs1, none) => placeFiles c chk root es fs1

/-- How many entries `place_entries` places completely (mode recorded) before the first failure; all
of them when none fails. -/
def placedCount (c : Cfg) (chk : Bool) (root : Path) : List EntryView → FS → Nat
  | [], _ => 0
  | e :: es, fs =>
    match placeFile c chk root e fs with
    | (_, some _) => 0
    | (fs1, none) => placedCount c chk root es fs1 + 1

/-- `ZipArchive::extract(directory)`: every entry is written; then `apply_unix_modes(modes)`:
`modes.sort_by_key(|(depth, _, _)| Reverse(*depth))` (stable; `depth = path_depth(filepath)` =
`pathDepth`) and `set_permissions` in that order (`modeOrder`, Spec/Tree.lean).  When placing the
entries fails: the same for the modes of the entries placed before the failing one, up to the first
`set_permissions` that fails, that failure ignored; the result is the error of the placing. -/
def extractSeek (c : Cfg) (root : Path) (es : List EntryView) (fs : FS) : FS × Option Err :=
  match placeFiles c true root es fs with
  | (fs1, some er) =>
    ((applyModes c root
        (modeOrder ((es.take (placedCount c true root es fs)).map fun e => (e.name, e.mode))) fs1).1, some er)
  | (fs1, none) => applyModes c root (modeOrder (es.map fun e => (e.name, e.mode))) fs1

/-- `Extractor::visit_additional_metadata` for every central record, in order: `enclosed_name()` or
the error; the mode is only remembered. -/
def checkMetas : List (Name × Option Nat) → Option Err
  | [] => none
  | m :: ms =>
    match enclosedName m.1 with
    | none => some .invalidPath
    | some _ => checkMetas ms

/-- How many central records `visit_additional_metadata` accepts (mode recorded) before the first it
rejects; all of them when none is rejected. -/
def checkedCount : List (Name × Option Nat) → Nat
  | [] => 0
  | m :: ms =>
    match enclosedName m.1 with
    | none => 0
    | some _ => checkedCount ms + 1

/-- `ZipStreamReader::extract(directory)`: all local entries, then all central records; the reader
insists on at least one central record after the local entries (an archive without entries starts
with the end-of-central-directory signature, which `read_zipfile_from_stream` rejects); when the
visit has succeeded, `apply_unix_modes` as above; when a central record is rejected, the same for the
modes of the records before it, the outcome of that ignored, and the error of the visit. -/
def extractStream (c : Cfg) (root : Path) (files : List EntryView) (metas : List (Name × Option Nat))
    (fs : FS) : FS × Option Err :=
  match placeFiles c false root files fs with
  | (fs1, some er) => (fs1, some er)
  | (fs1, none) =>
    match metas with
    | [] => (fs1, some .noCentral)
    | _ =>
      match checkMetas metas with
      | some er => ((applyModes c root (modeOrder (metas.take (checkedCount metas))) fs1).1, some er)
      | none => applyModes c root (modeOrder metas) fs1

end ZipVerif.Model.Extract
