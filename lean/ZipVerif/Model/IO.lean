import ZipVerif.Basic.Bytes
import ZipVerif.Basic.Out
/-
The I/O monad every reader/writer model function is written in.

* A `Dev` is a seekable byte device with the semantics of `std::io::Cursor<Vec<u8>>`: a read at or
  past the end returns 0 bytes, a write past the end zero-fills the gap, seeking past the end is
  allowed, seeking to a negative position is `InvalidInput`.
* Every primitive (`read`, `write`, `flush`, `seek`) counts as one I/O call.  The parameter
  `Option Nat` is the index of the call that fails with an injected error (`none`: no fault); the KIND of
  that error is the device's `fkind` (any `io::ErrorKind` the crate can tell apart).
  On an error the device state persists (position, contents, call counter) — later calls see it.
* `M.run none` is the fault-free semantics used by the round-trip theorems; `M.run (some k)` is the
  single-fault semantics used by C11.
-/

namespace ZipVerif.Model

structure Dev where
  buf : Bytes
  pos : Nat
  calls : Nat
  /-- the `io::ErrorKind` with which this device fails when the fault fires.  A device property: no primitive
  changes it.  Nothing may be assumed about it — in particular it can be `InvalidInput`, the kind a refused seek
  to a negative position has, or `UnexpectedEof`, the kind `read_exact` reports at the end of the data. -/
  fkind : IoKind := .injected
  deriving Repr

def Dev.ofBytes (bs : Bytes) : Dev := { buf := bs, pos := 0, calls := 0 }

/-- the same bytes behind a device that fails with kind `k` -/
def Dev.ofBytesK (bs : Bytes) (k : IoKind) : Dev := { buf := bs, pos := 0, calls := 0, fkind := k }

def M (α : Type) : Type := Option Nat → Dev → Out α × Dev

namespace M

instance : Monad M where
  pure a := fun _ d => (.ok a, d)
  bind m f := fun fa d =>
    match m fa d with
    | (.ok a, d') => f a fa d'
    | (.err e, d') => (.err e, d')
    | (.panic s, d') => (.panic s, d')

def throw {α} (e : ZErr) : M α := fun _ d => (.err e, d)
def panic {α} (site : String) : M α := fun _ d => (.panic site, d)
def liftOut {α} (o : Out α) : M α := fun _ d => (o, d)

/-- Run `m`, turning an error into a value (a panic still aborts): `if let Ok(..) = …`. -/
def attempt {α} (m : M α) : M (Except ZErr α) := fun fa d =>
  match m fa d with
  | (.ok a, d') => (.ok (.ok a), d')
  | (.err e, d') => (.ok (.error e), d')
  | (.panic s, d') => (.panic s, d')

def getDev : M Dev := fun _ d => (.ok d, d)

/-- One I/O call: counted, and failing when its index is the injected fault. -/
def prim {α} (f : Dev → Out α × Dev) : M α := fun fa d =>
  let d1 : Dev := { d with calls := d.calls + 1 }
  if fa = some d.calls then (.err (.io d.fkind), d1) else f d1

end M

/-- Overwrite `bs` at position `p` of `buf` (zero-filling a gap), as `Cursor<Vec<u8>>::write`. -/
def writeAt (buf : Bytes) (p : Nat) (bs : Bytes) : Bytes :=
  if p ≤ buf.length then buf.take p ++ bs ++ buf.drop (p + bs.length)
  else buf ++ List.replicate (p - buf.length) 0 ++ bs

inductive SeekFrom
  | start (n : Nat)
  | endOff (off : Int)
  | current (off : Int)
  deriving Repr

namespace M

/-- `Read::read` with a buffer of `n` bytes. -/
def read (n : Nat) : M Bytes := prim fun d =>
  let chunk := (d.buf.drop d.pos).take n
  (.ok chunk, { d with pos := d.pos + chunk.length })

/-- `Write::write`: a `Cursor<Vec<u8>>` accepts the whole buffer. -/
def write (bs : Bytes) : M Nat := prim fun d =>
  (.ok bs.length, { d with buf := writeAt d.buf d.pos bs, pos := d.pos + bs.length })

def flush : M Unit := prim fun d => (.ok (), d)

def seek (s : SeekFrom) : M Nat := prim fun d =>
  let target : Int := match s with
    | .start n => n
    | .endOff off => (d.buf.length : Int) + off
    | .current off => (d.pos : Int) + off
  if target < 0 then (.err (.io .invalidInput), d)
  else (.ok target.toNat, { d with pos := target.toNat })

/-- `Seek::stream_position` (default implementation: `seek(Current(0))`, one I/O call). -/
def streamPosition : M Nat := seek (.current 0)

/-- `Write::write_all`: no call for an empty buffer; one call on a device that accepts everything. -/
def writeAll (bs : Bytes) : M Unit :=
  if bs.isEmpty then pure () else do
    let _ ← write bs
    pure ()

/-- `Read::read_exact` (default implementation): loop over `read`; a short read followed by a read of
0 bytes is `UnexpectedEof`.  On a `Dev` the second read always returns 0 bytes. -/
def readExact (n : Nat) : M Bytes :=
  if n = 0 then pure [] else do
    let r ← read n
    if r.length = n then pure r
    else if r.length = 0 then throw (.io .unexpectedEof)
    else do
      let _ ← read (n - r.length)
      throw (.io .unexpectedEof)

def readU8 : M UInt8 := do
  let r ← readExact 1
  match r with
  | [a] => pure a
  | _ => throw (.io .unexpectedEof)

def readU16 : M UInt16 := do
  let r ← readExact 2
  match r with
  | [a, b] => pure (mk16 a b)
  | _ => throw (.io .unexpectedEof)

def readU32 : M UInt32 := do
  let r ← readExact 4
  match r with
  | [a, b, c, d] => pure (mk32 a b c d)
  | _ => throw (.io .unexpectedEof)

def readU64 : M UInt64 := do
  let r ← readExact 8
  match r with
  | [a, b, c, d, e, f, g, h] => pure (mk64 a b c d e f g h)
  | _ => throw (.io .unexpectedEof)

/-- Write a list of chunks, one `write_all` each (one I/O call per non-empty chunk). -/
def writeChunks : List Bytes → M Unit
  | [] => pure ()
  | c :: cs => do writeAll c; writeChunks cs

/-- Run on a device, fault-free. -/
def runPure {α} (m : M α) (d : Dev) : Out α × Dev := m none d

/-- **std's retry loops.**  `read_exact`, `write_all`, `read_to_end`, `io::copy` - and a hand-written
`Err(ref e) if e.kind() == ErrorKind::Interrupted => continue` - issue an I/O call again when it fails with
`ErrorKind::Interrupted`; every other kind is forwarded.  For a computation `m` ALL of whose I/O calls sit in such
loops: when the device fails with that kind and the fault index falls among the calls `m` makes, the failing call
is repeated - one more call is counted - and nothing else differs from the failure-free run (a failed call
moves nothing, the single fault is spent); in every other case `m` is unchanged.
NB the primitives `read` / `write` / `seek` / `flush`, `readExact` and `writeAll` themselves model a failure of
EVERY kind as a hard one (`prim`): model functions written before this combinator existed describe `Interrupted`
faults only where they are wrapped in it (the streaming reader under faults, `visitEntry` / `streamEntryCI`). -/
def retried {α} (m : M α) : M α := fun fa d =>
  match fa with
  | none => m none d
  | some k =>
    if d.fkind = .interrupted ∧ d.calls ≤ k ∧ k < (m none d).2.calls then
      ((m none d).1, { (m none d).2 with calls := (m none d).2.calls + 1 })
    else m (some k) d

end M
end ZipVerif.Model
