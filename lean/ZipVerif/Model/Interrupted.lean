import ZipVerif.Model.ShortRead
/-
The seekable reader under `ErrorKind::Interrupted` (C11) - a THIRD instance of the generic parsers.

`Model/ShortRead.lean` has the metadata parsers of the seekable and the streaming reader written once, generically
over their I/O vocabulary (`ParserIO`: `read_exact`, a draining consumer, `seek`, errors), and proved EQUAL to the
model functions at the fault monad `M` (`Lemmas/ShortRead`: `G.openArchive_M` …), where `readExact` treats a failure
of every kind as a hard one.  Here the same vocabulary is instantiated at `MI`: the same monad, but `read_exact` and
the draining consumer are std's retry loops - an I/O call inside them that fails with `Interrupted` is issued again
(`M.retried`) -, whereas a `seek` is a bare call: its `Interrupted` failure is returned like any other.
Core Lean only.
-/

namespace ZipVerif.Model

/-- Computations over the fault device, with std's retry convention for `Interrupted`. -/
def MI (α : Type) : Type := M α

namespace MI

instance : Monad MI := inferInstanceAs (Monad M)

/-- `Read::read_exact`: `Err(ref e) if e.kind() == ErrorKind::Interrupted => {}` - the failed call is repeated. -/
def readExact (n : Nat) : MI Bytes := M.retried (M.readExact n)

/-- `read_to_end` / `io::copy` over a `Take`: the same convention. -/
def takeAll (limit : Nat) : MI Bytes := M.retried (Model.takeAll limit)

/-- `Write::write_all`: the same convention. -/
def writeAll (bs : Bytes) : MI Unit := M.retried (M.writeAll bs)

end MI

instance : ParserIO MI where
  ioReadExact := MI.readExact
  ioTakeAll := MI.takeAll
  ioSeek := M.seek
  ioThrow := M.throw
  ioPanic := M.panic
  ioAttempt := M.attempt

/-- `ZipArchive::new` with std's `Interrupted` convention. -/
def openArchiveI : M Archive := G.openArchive (m := MI)

/-- `find_content` with std's `Interrupted` convention. -/
def findContentI (f : FileData) : M Nat := G.findContent (m := MI) f

open M in
/-- `byIndexRead` (`Model/Reader.lean`) with its two I/O stages as parameters: `fc` - the local-header reads of
`find_content`; `ta` - the consumer that reads the entry's `Take` to its end.  `byIndexReadWith findContent takeAll` IS
`byIndexRead` (`byIndexReadWith_model`, by `rfl`). -/
def byIndexReadWith (fc : FileData → M Nat) (ta : Nat → M Bytes) (ext : Ext) (a : Archive) (i : Nat)
    (password : Option Bytes) : M (PwResult (Nat × Out Bytes)) :=
  match a.files[i]? with
  | none => throw .fileNotFound
  | some data =>
    if password.isNone && data.encrypted then throw .passwordRequired else do
    let password := if data.encrypted then password else none
    let ds ← fc data
    match data.method with
    | .unsupported _ => throw .unsupportedArchive
    | .aes => throw .unsupportedArchive
    | m =>
      match password, data.aesMode with
      | some pw, some (mode, vv) => do
        let raw ← ta data.compressedSize.toNat
        match ext.aes pw mode data.compressedSize raw with
        | .err e => throw e
        | .panic s => M.panic s
        | .ok none => pure .invalidPassword
        | .ok (some stream) =>
          let res : Out Bytes := do
            let pt ← stream
            let dec ← ext.decode m pt
            crcCheck (vv == .ae2) data.crc32 dec
          pure (.ok (ds, res))
      | some pw, none => do
        let check : UInt8 := if data.usingDataDescriptor then (data.time.timepart >>> 8).toUInt8
                             else (data.crc32 >>> 24).toUInt8
        let raw ← ta data.compressedSize.toNat
        match ext.zipCrypto pw check raw with
        | .err e => throw e
        | .panic s => M.panic s
        | .ok none => pure .invalidPassword
        | .ok (some pt) =>
          let res : Out Bytes := do
            let dec ← ext.decode m pt
            crcCheck false data.crc32 dec
          pure (.ok (ds, res))
      | none, some _ => pure .invalidPassword
      | none, none => do
        let raw ← ta data.compressedSize.toNat
        let res : Out Bytes := do
          let dec ← ext.decode m raw
          crcCheck false data.crc32 dec
        pure (.ok (ds, res))

theorem byIndexReadWith_model (ext : Ext) (a : Archive) (i : Nat) (pw : Option Bytes) :
    byIndexReadWith findContent takeAll ext a i pw = byIndexRead ext a i pw := rfl

/-- `by_index` + the entry read to its end by **std's `read_to_end` / `io::copy`**: `find_content` with std's convention,
and the consumer's reads sit in a retry loop too. -/
def byIndexReadI (ext : Ext) (a : Archive) (i : Nat) (pw : Option Bytes) : M (PwResult (Nat × Out Bytes)) :=
  byIndexReadWith findContentI MI.takeAll ext a i pw

/-- `by_index` + the entry read to its end by a **hand-written `read` loop that does not retry** (the fault harness's
`run_read`: `loop { match f.read(&mut buf) { Ok(0) => break, Ok(c) => …, Err(e) => break } }`): `find_content` with std's
convention, the consumer's reads bare - an `Interrupted` failure of one of them is the consumer's error. -/
def byIndexReadB (ext : Ext) (a : Archive) (i : Nat) (pw : Option Bytes) : M (PwResult (Nat × Out Bytes)) :=
  byIndexReadWith findContentI takeAll ext a i pw

end ZipVerif.Model
