import ZipVerif.Model.ShortRead
/-
The seekable reader under `ErrorKind::Interrupted` (C11) - a THIRD instance of the generic parsers.

`Model/ShortRead.lean` has the metadata parsers of the seekable and the streaming reader written once, generically
over their I/O vocabulary (`ParserIO`: `read_exact`, a draining consumer, `seek`, errors), and proved EQUAL to the
model functions at the fault monad `M` (`Lemmas/ShortRead`: `G.openArchive_M` …), where `readExact` treats a failure
of every kind as a hard one.  Here the same vocabulary is instantiated at `MI`: the same monad, but `read_exact` and
the draining consumer are std's retry loops - an I/O call inside them that fails with `Interrupted` is issued again
(`M.retried`) -, whereas a `seek` is a bare call: its `Interrupted` failure is returned like any other.
Core Lean only.
-/

namespace ZipVerif.Model

/-- Computations over the fault device, with std's retry convention for `Interrupted`. -/
def MI (α : Type) : Type := M α

namespace MI

instance : Monad MI := inferInstanceAs (Monad M)

/-- `Read::read_exact`: `Err(ref e) if e.kind() == ErrorKind::Interrupted => {}` - the failed call is repeated. -/
def readExact (n : Nat) : MI Bytes := M.retried (M.readExact n)

/-- `read_to_end` / `io::copy` over a `Take`: the same convention. -/
def takeAll (limit : Nat) : MI Bytes := M.retried (Model.takeAll limit)

/-- `Write::write_all`: the same convention. -/
def writeAll (bs : Bytes) : MI Unit := M.retried (M.writeAll bs)

end MI

instance : ParserIO MI where
  ioReadExact := MI.readExact
  ioTakeAll := MI.takeAll
  ioSeek := M.seek
  ioThrow := M.throw
  ioPanic := M.panic
  ioAttempt := M.attempt

/-- `ZipArchive::new` with std's `Interrupted` convention. -/
def openArchiveI : M Archive := G.openArchive (m := MI)

/-- `find_content` with std's `Interrupted` convention. -/
def findContentI (f : FileData) : M Nat := G.findContent (m := MI) f

end ZipVerif.Model
