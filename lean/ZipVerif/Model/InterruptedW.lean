import ZipVerif.Model.Interrupted
import ZipVerif.Model.ShortWrite
/-
The WRITER under `ErrorKind::Interrupted` (C11) - a third instance of the generic writer `GW` (`Model/ShortWrite.lean`,
helper c09b: the writer written once generically over its I/O vocabulary `WriterIO`, proved EQUAL to the writer model
at `M`: `GW.step_M`).

At `MI` (`Model/Interrupted.lean`: the fault monad with std's convention):

* `wWriteAll` - `Write::write_all` on the sink (every header, the central directory, the end records, the buffered
  ZipCrypto stream) - is std's retry loop: a sink call inside it that fails with `Interrupted` is issued again
  (`M.retried`);
* `wSeek`, `wFlush` are BARE calls: nothing retries them, their `Interrupted` failure is the call's error;
* `wWrite` is the ONE sink `write` that `impl Write for ZipWriter :: write` issues for a stored, unencrypted entry
  (`GW.write`; it is used nowhere else).  That function is itself only ever called from a retry loop: by the crate
  (`add_symlink` and the alignment padding: `self.write_all`; raw copies: `io::copy`, whose writes are `write_all`) and by
  the callers of the fault harness (`w.write_all`).  When its sink call fails, `ZipWriter::write` returns the error
  having changed NOTHING (`Props/C11.zipwriter_write_fault_leaves_state`; `write.rs`: `stats.update` only under
  `if let Ok(count)`), the loop sees `Interrupted` and calls it again:
  the retry of the function is the retry of its one sink call, so at `MI` `wWrite` is retried too.  (A caller
  that calls `ZipWriter::write` bare would see `Err(Interrupted)`; no such caller is modelled.)

`new_append` reads the old central directory with `read_exact`s (retried) between bare `seek`s: `newAppendI`.
Core Lean only.
-/

namespace ZipVerif.Model
open ZipVerif

instance : WriterIO MI where
  wWrite := fun bs => M.retried (M.write bs)
  wWriteAll := MI.writeAll
  wFlush := M.flush
  wSeek := M.seek
  wPanic := M.panic
  wAttempt := M.attempt

/-- `ZipWriter::new_append` with std's `Interrupted` convention: the parsers of the seekable reader at `MI`, the three
`seek`s of its own bare. -/
def newAppendI : M WState := do
  let (footer, cdeStart) ← (G.findAndParseEocd : MI _)
  if footer.diskNumber != footer.diskWithCd then M.throw .unsupportedArchive else do
    let (archiveOffset, directoryStart, numberOfFiles) ← (G.getDirectoryCounts footer cdeStart : MI _)
    if directoryStart > cdeStart then M.throw .invalidArchive else
    let r ← M.attempt (M.seek (.start directoryStart))
    match r with
    | .error _ => M.throw .invalidArchive
    | .ok _ =>
      let rec loop : Nat → M (List FileData)
        | 0 => pure []
        | n + 1 => do
          let f ← (G.centralHeader archiveOffset : MI _)
          if f.fileName.length > 65535 then M.throw .unsupportedArchive else
          let rest ← loop n
          pure (appendRecord f :: rest)
      let files ← loop numberOfFiles
      let _ ← M.seek (.start directoryStart)
      pure { WState.init with files, comment := footer.comment, writingRaw := true }

end ZipVerif.Model
