import ZipVerif.Basic.Bytes
import ZipVerif.Basic.Out
import ZipVerif.Spec.Crc32
/-
Model of `std::io::Read` sources and of the reader layers of the crate as transducers over
sources, and of the writer's data path over short-writing sinks (C04, C09).

What is modelled (file:line in /repo/src, current tree):
  * `std::io::Take::read`                      -> `take`
  * `Crc32Reader::read`   crc32.rs:39-53       -> `crcLayer`
  * `ZipCryptoReaderValid::read` zipcrypto.rs:158-167 (fixed) -> `zipCryptoLayer`
    and the pre-fix body (defect D1)           -> `zipCryptoLayerBuggy`
  * a per-byte stateful transform that keeps the count (AES-CTR style) -> `statefulMapLayer`
  * `Read::read_exact` (default body)          -> `readExact`
  * `Write::write_all` (default body)          -> `writeAll`
  * `ZipWriter::write` for the data of a Stored entry, write.rs:228-261 -> `zipWriterWr`
  * the PKWARE stream cipher as the crate computes it, zipcrypto.rs:17-60 -> `Pk`

A Rust `read(&mut buf)` returns a count `c` and the caller uses `buf[..c]`.  Here a source returns
the byte list itself; `ok bs` with `bs.length > n` stands for "returned a count larger than the
buffer", after which every slicing site `&buf[..c]` panics - those sites are explicit `panic`
results below.
-/

/-! Incremental view of `Spec.Crc32` (what `crc32fast::Hasher` exposes: `new` / `update` / `finalize`);
kept here because the shared `Spec/Crc32.lean` only has the one-shot `crc32`. -/
namespace ZipVerif.Spec.Crc32

/-- Initial raw register (`Hasher::new`). -/
def init : UInt32 := 0xFFFFFFFF

/-- `Hasher::finalize` of a raw register. -/
def finalize (reg : UInt32) : UInt32 := reg ^^^ 0xFFFFFFFF

theorem crc32_eq_finalize (bs : Bytes) : crc32 bs = finalize (updateBytes init bs) := rfl

end ZipVerif.Spec.Crc32

namespace ZipVerif.Model.Layers
open ZipVerif ZipVerif.Spec

/-! ## Sources -/

/-- Result of one `Read::read` call. -/
inductive ReadRes
  | ok (bs : Bytes)
  | err (e : IoKind)
  | panic
  deriving DecidableEq, Repr

/-- How a stream ends: clean end of file, or an error. -/
inductive Term
  | eof
  | err (e : IoKind)
  deriving DecidableEq, Repr

/-- A reader: a state and one function `rd state requested_length`. All "short read" behaviour a
reader may exhibit lives in its state, so quantifying over all sources quantifies over all short-read
behaviours. -/
structure Src (σ : Type) where
  rd : σ → Nat → ReadRes × σ

/-- The `Read` contract as far as memory safety of the callers goes: never more than requested,
never a panic. -/
def Src.WF {σ} (src : Src σ) : Prop :=
  ∀ s n, match (src.rd s n).1 with
    | .ok bs => bs.length ≤ n
    | .err _ => True
    | .panic => False

/-- Execute a list of requests (buffer sizes, zeros allowed); errors do not stop the caller. -/
def run {σ} (src : Src σ) : σ → List Nat → List ReadRes × σ
  | s, [] => ([], s)
  | s, n :: ns =>
    let r := src.rd s n
    let rest := run src r.2 ns
    (r.1 :: rest.1, rest.2)

/-- Concatenation of all bytes handed to the caller. -/
def delivered : List ReadRes → Bytes
  | [] => []
  | .ok bs :: rs => bs ++ delivered rs
  | _ :: rs => delivered rs

/-- One run with request list `reqs` conforms to "delivers `rest`, then ends with `o`":
every result is a prefix of what is still to be delivered, a non-empty request answered with zero
bytes means everything was delivered and the stream ends cleanly, an error comes only after
everything was delivered and is the announced one. Nothing is required after an error. -/
def Conforms {σ} (src : Src σ) (o : Term) : σ → Bytes → List Nat → Prop
  | _, _, [] => True
  | s, rest, n :: ns =>
    match src.rd s n with
    | (.ok bs, s') =>
      bs.length ≤ n ∧ bs <+: rest ∧ (0 < n → bs = [] → rest = [] ∧ o = .eof) ∧
        Conforms src o s' (rest.drop bs.length) ns
    | (.err e, _) => rest = [] ∧ o = .err e
    | (.panic, _) => False

/-- **Schedule-free denotation.** From state `s` the source delivers exactly `B` and then ends with
`o`, whatever sequence of request sizes the caller uses. -/
def Denotes {σ} (src : Src σ) (s : σ) (B : Bytes) (o : Term) : Prop :=
  ∀ reqs, Conforms src o s B reqs

/-- One-step unfolding used by all layer proofs (`P` is the invariant on the successor state). -/
def StepOK {σ} (src : Src σ) (o : Term) (P : σ → Bytes → Prop) (s : σ) (rest : Bytes) (n : Nat) :
    Prop :=
  (∀ bs s', src.rd s n = (.ok bs, s') →
      bs.length ≤ n ∧ (0 < n → bs = [] → rest = [] ∧ o = .eof) ∧
        ∃ rest', rest = bs ++ rest' ∧ P s' rest') ∧
  (∀ e s', src.rd s n = (.err e, s') → rest = [] ∧ o = .err e) ∧
  (∀ s', src.rd s n ≠ (.panic, s'))

/-- `read` in a loop until a non-empty request returns 0 bytes or an error (`read_to_end` with
caller-chosen buffer sizes). `none`: the request list ran out first (or a panic). -/
def readToEnd {σ} (src : Src σ) : σ → List Nat → Option (Bytes × Term × σ)
  | _, [] => none
  | s, n :: ns =>
    match src.rd s n with
    | (.ok bs, s') =>
      if 0 < n ∧ bs = [] then some ([], .eof, s')
      else (readToEnd src s' ns).map fun r => (bs ++ r.1, r.2)
    | (.err e, s') => some ([], .err e, s')
    | (.panic, _) => none

/-- Outcome of `read_exact`. -/
inductive ExactRes
  | ok (bs : Bytes)
  | err (e : IoKind)
  | panic
  deriving DecidableEq, Repr

/-- `Read::read_exact`, default body: loop over `read` until the buffer is full; `Ok(0)` before
that is `UnexpectedEof`. `fuel` bounds the loop (`readExact` supplies `n`, which suffices). -/
def readExactAux {σ} (src : Src σ) : Nat → σ → Nat → ExactRes × σ
  | _, s, 0 => (.ok [], s)
  | 0, s, _ + 1 => (.panic, s)
  | fuel + 1, s, n + 1 =>
    match src.rd s (n + 1) with
    | (.ok bs, s') =>
      if bs = [] then (.err .unexpectedEof, s')
      else if bs.length ≤ n + 1 then
        match readExactAux src fuel s' (n + 1 - bs.length) with
        | (.ok r, s'') => (.ok (bs ++ r), s'')
        | x => x
      else (.panic, s')            -- `&mut buf[n..]` out of range
    | (.err e, s') => (.err e, s')
    | (.panic, s') => (.panic, s')

def readExact {σ} (src : Src σ) (s : σ) (n : Nat) : ExactRes × σ := readExactAux src n s n

/-! ## A concrete scripted source (what the harness's instrumented reader does)

State: the bytes not yet delivered, the script of chunk sizes still to use in this cycle, the whole
script (for cycling) and an optional error raised once the data is exhausted.  A request of `n > 0`
bytes with `k` the next scripted size delivers `min n (max k 1)` bytes (fewer at the end); an empty
script means "as much as requested".  A zero-length request returns 0 bytes and consumes nothing. -/

structure Scripted where
  rest : Bytes
  cur : List Nat
  full : List Nat
  fail : Option IoKind := none
  deriving Repr

def Scripted.next (st : Scripted) : Option Nat × List Nat :=
  match st.cur with
  | k :: ks => (some k, ks)
  | [] => match st.full with
    | k :: ks => (some k, ks)
    | [] => (none, [])

/-- Size of the next delivery for a request of `n > 0` bytes given the next scripted size. -/
def chunk (nx : Option Nat) (n : Nat) : Nat :=
  match nx with
  | some k => min n (max k 1)
  | none => n

def scripted : Src Scripted where
  rd st n :=
    if n = 0 then (.ok [], st)
    else if st.rest = [] then
      match st.fail with
      | some e => (.err e, st)
      | none => (.ok [], st)
    else
      let nx := st.next
      let m := chunk nx.1 n
      (.ok (st.rest.take m), { st with rest := st.rest.drop m, cur := nx.2 })

def Scripted.term (st : Scripted) : Term :=
  match st.fail with
  | some e => .err e
  | none => .eof

/-! ## Layers -/

/-- `std::io::Take`: `limit == 0` returns `Ok(0)` without touching the inner reader; otherwise the
request is clipped to the limit, `assert!(n <= limit)`, and the limit decreases by the count. -/
def take {σ} (inner : Src σ) : Src (σ × Nat) where
  rd st n :=
    if st.2 = 0 then (.ok [], st)
    else
      match inner.rd st.1 (min n st.2) with
      | (.ok bs, s') =>
        if bs.length ≤ st.2 then (.ok bs, (s', st.2 - bs.length)) else (.panic, (s', st.2))
      | (.err e, s') => (.err e, (s', st.2))
      | (.panic, s') => (.panic, (s', st.2))

/-- `Crc32Reader::read` (crc32.rs:39-58, current). State: inner state and the raw CRC register of
`hasher`. An empty buffer returns `Ok(0)` at once: the inner reader is not consulted, nothing
changes. Otherwise `invalid_check = !check_matches() && !ae2_encrypted` is computed *before* the inner
read; `Ok(0) if invalid_check` is the only place the check acts. -/
def crcLayer {σ} (inner : Src σ) (check : UInt32) (ae2 : Bool) : Src (σ × UInt32) where
  rd st n :=
    if n = 0 then (.ok [], st)
    else
      let invalid := (check != Crc32.finalize st.2) && !ae2
      match inner.rd st.1 n with
      | (.ok bs, s') =>
        if bs.isEmpty && invalid then (.err .other, (s', st.2))
        else if bs.length ≤ n then (.ok bs, (s', Crc32.updateBytes st.2 bs))
        else (.panic, (s', st.2))         -- `&buf[0..count]`
      | (.err e, s') => (.err e, (s', st.2))
      | (.panic, s') => (.panic, (s', st.2))

/-- **Defect D12 (pre-fix body, kept as a regression witness).** Before 80de80b an empty buffer only
disabled the check (`invalid_check = !buf.is_empty() && …`) and the zero-length read was forwarded
to the inner reader - i.e. to the decoder. -/
def crcLayerPreFix {σ} (inner : Src σ) (check : UInt32) (ae2 : Bool) : Src (σ × UInt32) where
  rd st n :=
    let invalid := (n != 0) && (check != Crc32.finalize st.2) && !ae2
    match inner.rd st.1 n with
    | (.ok bs, s') =>
      if bs.isEmpty && invalid then (.err .other, (s', st.2))
      else if bs.length ≤ n then (.ok bs, (s', Crc32.updateBytes st.2 bs))
      else (.panic, (s', st.2))
    | (.err e, s') => (.err e, (s', st.2))
    | (.panic, s') => (.panic, (s', st.2))

/-- Output bytes of a per-byte stateful transform. -/
def mapBytes {κ} (f : κ → UInt8 → UInt8 × κ) : κ → Bytes → Bytes
  | _, [] => []
  | k, b :: bs => (f k b).1 :: mapBytes f (f k b).2 bs

/-- Final state of a per-byte stateful transform. -/
def mapKey {κ} (f : κ → UInt8 → UInt8 × κ) (k : κ) (bs : Bytes) : κ :=
  bs.foldl (fun k b => (f k b).2) k

/-- A layer that keeps the count and transforms exactly the bytes returned, threading a state
(`for byte in buf[..count].iter_mut() { *byte = step(state, *byte) }`). -/
def statefulMapLayer {σ κ} (f : κ → UInt8 → UInt8 × κ) (inner : Src σ) : Src (σ × κ) where
  rd st n :=
    match inner.rd st.1 n with
    | (.ok bs, s') =>
      if bs.length ≤ n then (.ok (mapBytes f st.2 bs), (s', mapKey f st.2 bs))
      else (.panic, (s', st.2))         -- `buf[..count]`
    | (.err e, s') => (.err e, (s', st.2))
    | (.panic, s') => (.panic, (s', st.2))

/-- Stateless special case. -/
def mapLayer {σ} (g : UInt8 → UInt8) (inner : Src σ) : Src (σ × Unit) :=
  statefulMapLayer (fun (_ : Unit) b => (g b, ())) inner

/-- `ZipCryptoReaderValid::read` as it is now: decrypts exactly the `count` bytes returned.
`dec` is the cipher's per-byte step (`ZipCryptoKeys::decrypt_byte`), a parameter. -/
def zipCryptoLayer {σ κ} (dec : κ → UInt8 → UInt8 × κ) (inner : Src σ) : Src (σ × κ) :=
  statefulMapLayer dec inner

/-- **Defect D1 (pre-fix body, kept as a regression witness).** `let result = file.read(buf);
for byte in buf.iter_mut() { decrypt }; result` - the cipher runs over the *whole* caller buffer
(`fill` = what the unread tail of the buffer contained), so the key state advances by the request
size instead of the count; also on errors. -/
def zipCryptoLayerBuggy {σ κ} (dec : κ → UInt8 → UInt8 × κ) (fill : UInt8) (inner : Src σ) :
    Src (σ × κ) where
  rd st n :=
    match inner.rd st.1 n with
    | (.ok bs, s') =>
      if bs.length ≤ n then
        let whole := bs ++ List.replicate (n - bs.length) fill
        (.ok ((mapBytes dec st.2 whole).take bs.length), (s', mapKey dec st.2 whole))
      else (.ok bs, (s', st.2))   -- count > buf.len: no slicing in the old body; not used below
    | (.err e, s') => (.err e, (s', mapKey dec st.2 (List.replicate n fill)))
    | (.panic, s') => (.panic, (s', st.2))

/-! ### What each layer does to a denotation -/

def takeBytes (n : Nat) (B : Bytes) : Bytes := B.take n

/-- The limit is reached (clean EOF without asking the inner reader) or the inner stream ends first. -/
def takeTerm (n : Nat) (B : Bytes) (o : Term) : Term := if n ≤ B.length then .eof else o

/-- The CRC layer turns a clean EOF into `Err("Invalid checksum")` unless the CRC of everything
delivered equals the declared one or the entry is AE-2; inner errors pass through. -/
def crcTerm (check : UInt32) (ae2 : Bool) (B : Bytes) : Term → Term
  | .eof => if ae2 = true ∨ Crc32.crc32 B = check then .eof else .err .other
  | .err e => .err e

/-! ### Decoders are parameters -/

/-- A decompressor wrapped around an arbitrary inner reader (`DeflateDecoder::new(reader)` …). -/
structure Codec where
  St : Type → Type
  layer : {σ : Type} → Src σ → Src (St σ)
  init : {σ : Type} → σ → St σ
  /-- what the decoder outputs for compressed stream `C` whose source ends with `o` -/
  decode : Bytes → Term → Bytes × Term

/-- The decoder's output does not depend on how its input arrives nor on the caller's buffer sizes -
on EVERY input stream, damaged ones included.  *Proved* for Stored (`storedCodec`) and for per-byte
transforms; **false for flate2 / bzip2 / zstd** (review finding F3, see `Codec.ChunkIndependentOn`
below for what they can be asked to satisfy and `pickyCodec` for a model instance of the failure). -/
structure Codec.ChunkIndependent (c : Codec) : Prop where
  denotes : ∀ {σ : Type} (inner : Src σ) (s : σ) (C : Bytes) (o : Term),
    Denotes inner s C o → Denotes (c.layer inner) (c.init s) (c.decode C o).1 (c.decode C o).2

/-- A reader that answers zero-length requests itself (`if buf.is_empty() { return Ok(0) }`) and
forwards the others. `Denotes (guardZero src) …` says "schedule independent for all schedules of
NON-EMPTY buffers"; the guard at the top of `Crc32Reader::read` makes every entry reader of this
shape, so decoders never see a zero-length request. -/
def guardZero {σ} (inner : Src σ) : Src σ where
  rd s n := if n = 0 then (.ok [], s) else inner.rd s n

/-- The same for non-empty requests only (`Crc32Reader` answers zero-length reads itself).  Still over
every stream, hence still false for the real decoders; no property theorem takes it as a hypothesis any
more. -/
structure Codec.ChunkIndependentNZ (c : Codec) : Prop where
  denotes : ∀ {σ : Type} (inner : Src σ) (s : σ) (C : Bytes) (o : Term),
    Denotes inner s C o →
      Denotes (guardZero (c.layer inner)) (c.init s) (c.decode C o).1 (c.decode C o).2

/-- **Observed behaviour of the zstd 0.11 decoder (external code, tied by correspondence only):**
a zero-length read while output is still outstanding fails with `ErrorKind::Other` ("Operation made
no progress over multiple calls, due to output buffer being full"); at the end of the stream it
returns 0. Here as a source over the decoded bytes: everything else is the scripted source. -/
def zeroLenErrScripted : Src Scripted where
  rd st n :=
    if n = 0 then (if st.rest = [] then (.ok [], st) else (.err .other, st))
    else scripted.rd st n

/-- Stored: no decoder at all (`ZipFileReader::Stored(Crc32Reader::new(reader, …))`). -/
def storedCodec : Codec where
  St := fun σ => σ
  layer := fun inner => inner
  init := fun s => s
  decode := fun C o => (C, o)

/-! ## Codec hypotheses that real decoders can meet (review finding F3)

`Codec.ChunkIndependent(NZ)` above quantify over EVERY compressed stream `C`, damaged ones included, and
are FALSE for the real decoders: on damaged input flate2 / bzip2 / zstd notice the damage at a point
that depends on the buffer sizes (zstd 0.11, frame `28 b5 2f fd 20 02 01 00 00` - declared content
size 2, no content -: `(0 bytes, eof)` with 1-byte buffers, `(0 bytes, Err)` with a 64 KiB buffer;
damaged deflate streams hand out different numbers of bytes before `InvalidInput`).  They remain true
for Stored and for per-byte transforms, nothing else.  What the external decoders can be asked to
satisfy is chunk independence ON ONE stream - and the streams to ask it for are the INTACT ones. -/

/-- The decoder's result on the compressed stream `C` (ending with `o`) does not depend on how `C`
arrives nor on the caller's (non-empty) buffer sizes, and is `c.decode C o`. -/
def Codec.ChunkIndependentOn (c : Codec) (C : Bytes) (o : Term) : Prop :=
  ∀ {σ : Type} (inner : Src σ) (s : σ), Denotes inner s C o →
    Denotes (guardZero (c.layer inner)) (c.init s) (c.decode C o).1 (c.decode C o).2

/-- **The hypothesis on flate2 / bzip2 / zstd** (`Ext.codec.intact`): what an encoder produced, followed
by a clean end of input (the `Take` at the compressed size), is decoded to the payload and a clean
end, under every chunking.  Nothing is asked about streams outside the encoder's range. -/
structure Codec.IntactOK (c : Codec) (encode : Bytes → Bytes) : Prop where
  roundtrip : ∀ p, c.decode (encode p) .eof = (p, .eof)
  chunk : ∀ p, c.ChunkIndependentOn (encode p) .eof

/-- Toy codec 1 (every byte xor `0x55`): a per-byte transform, chunk independent on every stream. -/
def xorCodec : Codec where
  St := fun σ => σ × Unit
  layer := fun inner => mapLayer (· ^^^ 0x55) inner
  init := fun s => (s, ())
  decode := fun C o => (mapBytes (fun (_ : Unit) b => (b ^^^ 0x55, ())) () C, o)

/-- Toy codec 2, the model analogue of what the real decoders do with damaged input: the format is
"bytes below `0x80`"; a chunk obtained from the reader below that contains a byte outside the format
is rejected AS A WHOLE, so how many good bytes come out before the error depends on the chunking. -/
def pickyLayer {σ} (inner : Src σ) : Src σ where
  rd s n :=
    match inner.rd s n with
    | (.ok bs, s') => if bs.all (· < 0x80) then (.ok bs, s') else (.err .invalidData, s')
    | r => r

def pickyCodec : Codec where
  St := fun σ => σ
  layer := fun inner => pickyLayer inner
  init := fun s => s
  decode := fun C o =>
    if C.all (· < 0x80) then (C, o) else (C.takeWhile (· < 0x80), .err .invalidData)

/-! ## The PKWARE stream cipher as computed by the crate (zipcrypto.rs:17-60)

`ZipCryptoKeys::crc32(crc, b) = (crc >> 8) ^ CRCTABLE[(crc as u8) ^ b]` is one byte step of the raw
CRC-32 register, i.e. `Spec.Crc32.update` (tied by correspondence, stream `layers`, op `layers.zc`). -/
namespace Pk

structure Keys where
  k0 : UInt32
  k1 : UInt32
  k2 : UInt32
  deriving DecidableEq, Repr

def init : Keys := ⟨0x12345678, 0x23456789, 0x34567890⟩

def update (k : Keys) (b : UInt8) : Keys :=
  let k0 := Crc32.update k.k0 b
  let k1 := (k.k1 + (k0 &&& 0xff)) * 0x08088405 + 1      -- Wrapping<u32>
  let k2 := Crc32.update k.k2 (k1 >>> 24).toUInt8
  ⟨k0, k1, k2⟩

def streamByte (k : Keys) : UInt8 :=
  let t : UInt16 := k.k2.toUInt16 ||| 3
  ((t * (t ^^^ 1)) >>> 8).toUInt8                        -- Wrapping<u16>

def dec (k : Keys) (c : UInt8) : UInt8 × Keys :=
  let p := streamByte k ^^^ c
  (p, update k p)

def enc (k : Keys) (p : UInt8) : UInt8 × Keys := (streamByte k ^^^ p, update k p)

def derive (pw : Bytes) : Keys := pw.foldl update init

end Pk

/-! ## Pipelines built by `make_crypto_reader` / `make_reader` (read.rs:206-292) -/

/-- Result of `ZipCryptoReader::validate`. -/
inductive ZcOpen (σ κ : Type)
  | valid (st : σ × κ)
  | wrongPassword
  | err (e : IoKind)
  | panic

/-- `ZipCryptoReader::validate`: `read_exact` the 12-byte header from the (already limited) reader,
decrypt it, compare its last byte with the validator byte (high byte of the CRC or of the DOS time);
on success the reader continues with the advanced key state. -/
def zcValidate {σ κ} (dec : κ → UInt8 → UInt8 × κ) (inner : Src σ) (s : σ) (k : κ)
    (expect : UInt8) : ZcOpen σ κ :=
  match readExact inner s 12 with
  | (.ok hdr, s') =>
    if (mapBytes dec k hdr)[11]? = some expect then .valid (s', mapKey dec k hdr)
    else .wrongPassword
  | (.err e, _) => .err e
  | (.panic, _) => .panic

/-- Unencrypted entry: `Crc32Reader(decoder(Take(reader)))`; the state starts as
`((init (s, compressed_size)), fresh hasher)`. -/
def entryPipeline {σ} (c : Codec) (inner : Src σ) (check : UInt32) (ae2 : Bool) :
    Src (c.St (σ × Nat) × UInt32) :=
  crcLayer (c.layer (take inner)) check ae2

/-- ZipCrypto entry after a successful `validate`: `Crc32Reader(decoder(ZipCryptoReaderValid(Take)))`. -/
def entryPipelineZc {σ κ} (c : Codec) (dec : κ → UInt8 → UInt8 × κ) (inner : Src σ)
    (check : UInt32) : Src (c.St ((σ × Nat) × κ) × UInt32) :=
  crcLayer (c.layer (zipCryptoLayer dec (take inner))) check false

/-! ## Writer side -/

inductive WriteRes
  | ok (k : Nat)
  | err (e : IoKind)
  | panic
  deriving DecidableEq, Repr

/-- A `Write` object. -/
structure Wr (ω : Type) where
  wr : ω → Bytes → WriteRes × ω

/-- `Write::write_all`, default body: `Ok(0)` is `WriteZero`, otherwise continue with `&buf[n..]`
(out of range if `n > len`: panic). `fuel`: `writeAll` supplies `buf.length`. -/
def writeAllAux {ω} (w : Wr ω) : Nat → ω → Bytes → Out Unit × ω
  | _, t, [] => (.ok (), t)
  | 0, t, _ :: _ => (.panic "fuel", t)
  | fuel + 1, t, b :: bs =>
    match w.wr t (b :: bs) with
    | (.ok 0, t') => (.err (.io .writeZero), t')
    | (.ok k, t') =>
      if k ≤ (b :: bs).length then writeAllAux w fuel t' ((b :: bs).drop k)
      else (.panic "slice", t')
    | (.err e, t') => (.err (.io e), t')
    | (.panic, t') => (.panic "inner", t')

def writeAll {ω} (w : Wr ω) (t : ω) (buf : Bytes) : Out Unit × ω := writeAllAux w buf.length t buf

/-- Contract of an appending sink (`Cursor<Vec<u8>>` positioned at the end, a file, a pipe): a write
accepts a prefix of the buffer and appends exactly that prefix; a failed write appends nothing. -/
structure SinkSpec {ω} (w : Wr ω) (contents : ω → Bytes) : Prop where
  ok : ∀ t buf k t', w.wr t buf = (.ok k, t') → k ≤ buf.length ∧ contents t' = contents t ++ buf.take k
  err : ∀ t buf e t', w.wr t buf = (.err e, t') → contents t' = contents t

/-- The sink never fails and never returns `Ok(0)` for a non-empty buffer (it may still be
arbitrarily short). -/
def SinkLive {ω} (w : Wr ω) : Prop :=
  ∀ t buf, buf ≠ [] → ∃ k t', w.wr t buf = (.ok k, t') ∧ 1 ≤ k

/-- The harness's scripted sink: accepts `min len (max k 1)` bytes, `k` cycling through a script
(an empty script accepts everything). -/
structure SSink where
  contents : Bytes
  cur : List Nat
  full : List Nat
  deriving Repr

def scriptedSink : Wr SSink where
  wr t buf :=
    if buf = [] then (.ok 0, t)
    else
      let nx : Option Nat × List Nat := match t.cur with
        | k :: ks => (some k, ks)
        | [] => match t.full with
          | k :: ks => (some k, ks)
          | [] => (none, [])
      let m := chunk nx.1 buf.length
      (.ok m, { t with contents := t.contents ++ buf.take m, cur := nx.2 })

/-- State of `ZipWriter` while the data of one Stored, unencrypted entry is written:
the sink, `stats.hasher` (raw register), `stats.bytes_written`, the entry's `large_file` option and
whether `inner` has been replaced by `Closed`. -/
structure ZwState (ω : Type) where
  sink : ω
  reg : UInt32
  written : Nat
  largeFile : Bool
  closed : Bool

/-- `ZIP64_BYTES_THR` -/
def zip64BytesThr : Nat := 0xFFFFFFFF

/-- `<ZipWriter as Write>::write` with `writing_to_file`, not `writing_to_extra_field`, inner =
`Storer(Unencrypted(sink))`: forward to the sink; on `Ok(count)` update hasher and byte counter with
exactly `buf[0..count]`; above 4 GiB without `large_file` close the writer and fail. -/
def zipWriterWr {ω} (w : Wr ω) : Wr (ZwState ω) where
  wr st buf :=
    if st.closed then (.err .brokenPipe, st)
    else
      match w.wr st.sink buf with
      | (.ok k, t') =>
        if k ≤ buf.length then
          let st' : ZwState ω :=
            { st with sink := t', reg := Crc32.updateBytes st.reg (buf.take k), written := st.written + k }
          if st'.written > zip64BytesThr && !st.largeFile then
            (.err .other, { st' with closed := true })
          else (.ok k, st')
        else (.panic, { st with sink := t' })     -- `&buf[0..count]`
      | (.err e, t') => (.err e, { st with sink := t' })
      | (.panic, t') => (.panic, { st with sink := t' })

/-- The caller writes a sequence of buffers with `write_all`. -/
def writeAllSeq {ω} (w : Wr ω) : ω → List Bytes → Out Unit × ω
  | t, [] => (.ok (), t)
  | t, c :: cs =>
    match writeAll w t c with
    | (.ok (), t') => writeAllSeq w t' cs
    | r => r

end ZipVerif.Model.Layers
