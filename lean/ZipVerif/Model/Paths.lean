import ZipVerif.Spec.Paths
/-
Model of the two path accessors of `ZipFileData` (src/types.rs:356-398) on a Unix host, together
with the part of `std::path` they use.

`std::path::Path::components()` (Unix) is a parameter of the crate, modelled here and validated by
the exhaustive `paths` correspondence stream:
  * a leading '/' yields `RootDir` (one byte is consumed, further slashes are empty components);
  * otherwise, if the path is "." or starts with "./", the leading "." yields `CurDir`;
  * the rest is split on '/'; empty components and "." are skipped, ".." yields `ParentDir`,
    anything else `Normal`.
`Prefix` components exist only on Windows.

`PathBuf::push` (Unix): an absolute argument replaces the buffer, otherwise a '/' is inserted unless
the buffer is empty or already ends in '/'.
-/

namespace ZipVerif.Model.Paths
open ZipVerif.Spec.Paths

/-- `Components::parse_single_component` (non-verbatim): `""` and `"."` are skipped. -/
def classify (s : Name) : Option Comp :=
  if s = [] then none
  else if s = ['.'] then none
  else if s = ['.', '.'] then some .parentDir
  else some (.normal s)

/-- The body of a path: its '/'-separated segments, classified. -/
def body (segs : List Name) : List Comp := segs.filterMap classify

/-- `Path::new(n).components().collect()` on Unix. -/
def components (n : Name) : List Comp :=
  match n with
  | [] => []
  | c :: r =>
    if c = '/' then .rootDir :: body (segments r)          -- has_physical_root
    else match segments (c :: r) with
      | [] => []
      | s :: rest =>
        if s = ['.'] then .curDir :: body rest               -- include_cur_dir()
        else body (s :: rest)

/-- The loop of `enclosed_name`: `None` on `RootDir` (and `Prefix`, which cannot occur) and when
`depth.checked_sub(1)` fails; `depth += 1` cannot overflow: the depth is at most the number of
components, which is at most `len + 1 ≤ isize::MAX + 1 < usize::MAX` for any Rust string
(`walk_le`, `components_length_le` in Lemmas/Paths.lean). -/
def walk : List Comp → Nat → Option Nat
  | [], d => some d
  | .rootDir :: _, _ => none
  | .parentDir :: r, d => if d = 0 then none else walk r (d - 1)
  | .normal _ :: r, d => walk r (d + 1)
  | .curDir :: r, d => walk r d

/-- `ZipFileData::enclosed_name`: `Some(Path::new(&self.file_name))` — the name itself — or `None`. -/
def enclosedName (n : Name) : Option Name :=
  if '\x00' ∈ n then none
  else match walk (components n) 0 with
    | some _ => some n
    | none => none

/-- `match name.find('\0') { Some(i) => &name[0..i], None => &name }`. -/
def truncNul (n : Name) : Name := n.takeWhile (· != '\x00')

/-- `.replace("\\", "/")` (MAIN_SEPARATOR is '/' on Unix). -/
def toMainSep (n : Name) : Name := n.map fun c => if c = '\\' then '/' else c

def normalOnly : Comp → Option Name
  | .normal s => some s
  | _ => none

/-- `PathBuf::push` on Unix. -/
def push (buf c : Name) : Name :=
  if c.head? = some '/' then c
  else if (match buf.getLast? with | some l => l != '/' | none => false) then buf ++ '/' :: c
  else buf ++ c

/-- The components kept by `file_name_sanitized`'s `.filter(Normal)`, in order. -/
def mangledComps (n : Name) : List Name :=
  (components (toMainSep (truncNul n))).filterMap normalOnly

/-- `ZipFileData::file_name_sanitized`: the kept components folded into a fresh `PathBuf`. -/
def mangledName (n : Name) : Name := (mangledComps n).foldl push []

/-- `ZipFile::is_dir` / `ZipStreamFileMetadata::is_dir`: the last character of the name is '/' or '\\'
(`extract` itself tests `ends_with('/')` only: `Spec.Tree.isDirName`). -/
def isDir (n : Name) : Bool :=
  match n.getLast? with
  | some c => c == '/' || c == '\\'
  | none => false

end ZipVerif.Model.Paths
