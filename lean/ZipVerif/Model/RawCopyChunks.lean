import ZipVerif.Model.Writer
/-
Raw copy as the source performs it (`ZipWriter::raw_copy_file_rename`, src/write.rs): `io::copy` reads the
source entry's raw reader through an 8 KiB buffer and hands every non-empty chunk to `write_all` - one
`writeData` per CHUNK, the first failure ends the copy.  `Model.rawCopy` (`Model/Writer.lean`) is the
one-chunk instance (`Lemmas/RawCopyChunks.lean`: `rawCopy_eq_chunks`), and on a fault-free sink the chunking is
invisible in everything but the number of I/O calls (`rawCopyChunks_split`).
-/
namespace ZipVerif.Model
open ZipVerif

/-- successive `write_all`s on the open entry; the first failure ends the sequence -/
def writeDataList : List Bytes → Step Unit
  | [], s => pure (.ok (), s)
  | c :: cs, s => do
    let (r, s) ← writeData c s
    match r with
    | .error e => pure (.error e, s)
    | .ok () => writeDataList cs s

/-- the options `raw_copy_file_rename` builds from the source entry (as in `Model.rawCopy`) -/
def rawCopyOptions (src : FileData) : FileOptions :=
  { method := src.method, level := none, time := src.time, permissions := src.unixMode,
    largeFile := (if src.compressedSize ≥ src.uncompressedSize then src.compressedSize
                  else src.uncompressedSize) ≥ ZIP64_BYTES_THR,
    encryptWith := none }

/-- `raw_copy_file_rename`: `src` is the source entry's metadata, `chunks` what the successive `read` calls of
its raw reader deliver into `io::copy`'s buffer (each non-empty, at most 8 KiB). -/
def rawCopyChunks (ext : WExt) (src : FileData) (chunks : List Bytes) (name : Bytes) : Step Unit := fun s => do
  let (r, s) ← startEntry ext name (rawCopyOptions src)
    (some (src.crc32, src.compressedSize, src.uncompressedSize)) s
  match r with
  | .error e => pure (.error e, s)
  | .ok () => writeDataList chunks { s with writingToFile := true, writingRaw := true }

end ZipVerif.Model
