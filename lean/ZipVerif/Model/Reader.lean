import ZipVerif.Model.Records
import ZipVerif.Spec.Crc32
/-
Model of the seekable reader (`ZipArchive::new`, `by_index*`, `by_name*`, `by_index_raw`,
`find_content`, entry reading) and of the streaming reader (`read_zipfile_from_stream`,
`ZipStreamReader::visit`) — src/read.rs, src/read/stream.rs.

External code enters through `Ext`: decoders (flate2 / bzip2 / zstd) and the two decryption layers
(modelled separately; see Model/ZipCrypto.lean and Model/Aes.lean).
-/

namespace ZipVerif.Model
open ZipVerif

structure Archive where
  files : List FileData
  offset : Nat
  comment : Bytes
  deriving Repr

/-- `InvalidPassword` is its own value in the API (`ZipResult<Result<_, InvalidPassword>>`). -/
inductive PwResult (α : Type)
  | ok (a : α)
  | invalidPassword
  deriving Repr

/-- External code as parameters. -/
structure Ext where
  /-- decoder for a supported method applied to the whole (already decrypted) compressed stream:
  `ok` = bytes produced before a clean EOF, `err` = the decoder's I/O error (bytes produced before it
  are not observable through `read_to_end`; a consumer that reads less than everything does see them:
  `decodeBefore`). -/
  decode : Method → Bytes → Out Bytes
  /-- the bytes a decoder hands out BEFORE it reports the error `decode` summarises, to a consumer that asks
  for `k` bytes in total (buffers of `min (k − got) 65536`, asking again until it has them, end-of-file or
  an error) and then stops.  Only read when `decode` is an error (a damaged stream), and only by the
  partial-consumption model `consumeK`: flate2 / bzip2 / zstd deliver what precedes the damage and notice
  the damage at a point that depends on their buffering, hence on the schedule — which is why `k` is an
  argument (Model/Layers.lean, "Codec hypotheses that real decoders can meet").  Default: nothing comes out
  before the error (true of a decoder that fails on its first call). -/
  decodeBefore : Method → Bytes → (k : Nat) → Bytes := fun _ _ _ => []
  /-- ZipCrypto: `none` = wrong password (check byte mismatch); `some pt` = decrypted stream after the
  12-byte header; `err` = the entry is shorter than its header. -/
  zipCrypto : (pw : Bytes) → (check : UInt8) → (raw : Bytes) → Out (Option Bytes)
  /-- AES: result of `AesReader::new(..).validate(pw)` followed by reading everything. -/
  aes : (pw : Bytes) → AesMode → (csize : UInt64) → (raw : Bytes) → Out (Option (Out Bytes))

open M in
/-- the central-directory loop of `ZipArchive::new` -/
def readCentralLoop (archiveOffset : Nat) : (n : Nat) → M (List FileData)
  | 0 => pure []
  | n + 1 => do
    let f ← centralHeader archiveOffset
    let rest ← readCentralLoop archiveOffset n
    pure (f :: rest)

open M in
/-- `ZipArchive::new` -/
def openArchive : M Archive := do
  let (footer, cdeStart) ← findAndParseEocd
  if !footer.recordTooSmall && footer.diskNumber != footer.diskWithCd then
    throw .unsupportedArchive
  else do
    let (archiveOffset, directoryStart, numberOfFiles) ← getDirectoryCounts footer cdeStart
    let r ← attempt (seek (.start directoryStart))
    match r with
    | .error _ => throw .invalidArchive
    | .ok _ =>
      let files ← readCentralLoop archiveOffset numberOfFiles
      pure { files, offset := archiveOffset, comment := footer.comment }

/-- read.rs `ZipArchive::new`: the capacity handed to `Vec::with_capacity` / `HashMap::with_capacity` BEFORE any
central header has been read.  A central header occupies at least 46 bytes, so at most
`(cde_start_pos - directory_start) / 46` of them fit between the start of the directory and the end record
(`saturating_sub`: a directory declared to start behind the end record has room for none); a declared count above
that is not trusted.  (Before the repair of the F1 finding the count was compared with `cde_start_pos` itself: one
reserved slot - about 250 bytes of heap - per input BYTE.) -/
def fileCapacity (numberOfFiles cdeStartPos directoryStart : Nat) : Nat :=
  if numberOfFiles > (cdeStartPos - directoryStart) / 46 then 0 else numberOfFiles

open M in
/-- `ZipArchive::new` together with the pre-allocation it requests (`openArchive` is its first component:
`openArchive_eq_alloc` in `Tie/ReaderGlue.lean`).  This is the function the translated `ZipArchive::new` is tied to. -/
def openArchiveAlloc : M (Archive × Nat) := do
  let (footer, cdeStart) ← findAndParseEocd
  if !footer.recordTooSmall && footer.diskNumber != footer.diskWithCd then
    throw .unsupportedArchive
  else do
    let (archiveOffset, directoryStart, numberOfFiles) ← getDirectoryCounts footer cdeStart
    let cap := fileCapacity numberOfFiles cdeStart directoryStart
    let r ← attempt (seek (.start directoryStart))
    match r with
    | .error _ => throw .invalidArchive
    | .ok _ =>
      let files ← readCentralLoop archiveOffset numberOfFiles
      pure ({ files, offset := archiveOffset, comment := footer.comment }, cap)

/-- `names_map.get(name)`: the map is filled in order, so a duplicate name maps to its last index. -/
def Archive.indexOfName (a : Archive) (name : Bytes) : Option Nat :=
  let idxs := (List.range a.files.length).filter fun i =>
    match a.files[i]? with
    | some f => f.fileName == name
    | none => false
  idxs.getLast?

open M in
/-- `find_content`: returns `data_start`, leaving the device positioned there. -/
def findContent (f : FileData) : M Nat := do
  let _ ← seek (.start f.headerStart.toNat)
  let sig ← readU32
  if sig != LOCAL_SIG then throw .invalidArchive else do
    let _ ← seek (.current 22)
    let nameLen ← readU16
    let extraLen ← readU16
    let ds := f.headerStart.toNat + 30 + nameLen.toNat + extraLen.toNat
    -- read.rs:229 `data.header_start + magic_and_header + file_name_length + extra_field_length` (checked `u64`
    -- additions; the panic site carries the translator's name for an overflowing checked operation, so that
    -- `Tie/ReaderGlue.tie_find_content` is an equation also on this path)
    if ds ≥ 18446744073709551616 then M.panic "rs2lean: checked operation" else do
      let _ ← seek (.start ds)
      pure ds

open M in
/-- Everything a `Take(limit)` over the device delivers to a consumer that reads with one buffer at
least as large as `limit` until EOF: one read, and a second one (returning 0) if the first was short. -/
def takeAll (limit : Nat) : M Bytes :=
  if limit = 0 then pure [] else do
    let r ← read limit
    if r.length = limit then pure r
    else if r.length = 0 then pure r
    else do
      let _ ← read (limit - r.length)
      pure r

/-- The CRC layer at end of stream (`Crc32Reader`): error iff not AE-2 and the checksum differs. -/
def crcCheck (ae2 : Bool) (declared : UInt32) (content : Bytes) : Out Bytes :=
  if !ae2 && Spec.Crc32.crc32 content != declared then .err (.io .other) else .ok content

/-- Is the method one `make_reader` has a decoder for (default features)? -/
def Method.decodable : Method → Bool
  | .stored | .deflated | .bzip2 | .zstd => true
  | _ => false

/-! ### The open-time decisions of `make_crypto_reader` / `make_reader` as functions

`byIndexRead` below inlines them; `Tie/ReaderGlue.lean` proves `byIndexRead = byIndexReadC` (the same function written
through `cryptoChoice`) and ties the TRANSLATED `make_crypto_reader` / `make_reader` to `cryptoChoice` /
`decoderChoice`. -/

/-- `ZipCryptoValidator`: which byte of the decrypted 12-byte header is compared. -/
inductive Validator
  | pkzipCrc32 (crc : UInt32)
  | infoZipMsdosTime (t : UInt16)
  deriving DecidableEq, Repr

/-- the check byte: high byte of the CRC, or of the DOS time for entries written with a data descriptor -/
def Validator.checkByte : Validator → UInt8
  | .pkzipCrc32 c => (c >>> 24).toUInt8
  | .infoZipMsdosTime t => (t >>> 8).toUInt8

/-- What `make_crypto_reader` decides before it touches the device. -/
inductive CryptoChoice
  /-- `Err(UnsupportedArchive)`: a method without a decoder, or the AES pseudo-method 99 left in place -/
  | unsupported
  /-- `Ok(Err(InvalidPassword))` at once: an AES entry opened without a password -/
  | invalidPassword
  | plaintext
  | zipCrypto (pw : Bytes) (v : Validator)
  | aes (pw : Bytes) (mode : AesMode) (vv : AesVendorVersion)
  deriving DecidableEq, Repr

/-- `make_crypto_reader`, the decision. -/
def cryptoChoice (method : Method) (crc32 : UInt32) (time : DateTime) (usingDataDescriptor : Bool)
    (password : Option Bytes) (aesInfo : Option (AesMode × AesVendorVersion)) : CryptoChoice :=
  match method with
  | .unsupported _ => .unsupported
  | .aes => .unsupported
  | _ =>
    match password, aesInfo with
    | some pw, some (mode, vv) => .aes pw mode vv
    | some pw, none =>
      .zipCrypto pw (if usingDataDescriptor then .infoZipMsdosTime time.timepart else .pkzipCrc32 crc32)
    | none, some _ => .invalidPassword
    | none, none => .plaintext

/-- The decoder `make_reader` puts under the CRC layer. -/
inductive Decoder
  | stored | deflate | bzip2 | zstd
  deriving DecidableEq, Repr

/-- `make_reader`, the decision: `none` = `panic!("Compression method not supported")`. -/
def decoderChoice : Method → Option Decoder
  | .stored => some .stored
  | .deflated => some .deflate
  | .bzip2 => some .bzip2
  | .zstd => some .zstd
  | _ => none

open M in
/-- `byIndexRead` written through `cryptoChoice` (equal to it: `Tie/ReaderGlue.byIndexRead_eq_choice`). -/
def byIndexReadC (ext : Ext) (a : Archive) (i : Nat) (password : Option Bytes) :
    M (PwResult (Nat × Out Bytes)) :=
  match a.files[i]? with
  | none => throw .fileNotFound
  | some data =>
    if password.isNone && data.encrypted then throw .passwordRequired else do
    let password := if data.encrypted then password else none
    let ds ← findContent data
    match cryptoChoice data.method data.crc32 data.time data.usingDataDescriptor password data.aesMode with
    | .unsupported => throw .unsupportedArchive
    | .invalidPassword => pure .invalidPassword
    | .aes pw mode vv => do
      let raw ← takeAll data.compressedSize.toNat
      match ext.aes pw mode data.compressedSize raw with
      | .err e => throw e
      | .panic s => M.panic s
      | .ok none => pure .invalidPassword
      | .ok (some stream) =>
        let res : Out Bytes := do
          let pt ← stream
          let dec ← ext.decode data.method pt
          crcCheck (vv == .ae2) data.crc32 dec
        pure (.ok (ds, res))
    | .zipCrypto pw v => do
      let raw ← takeAll data.compressedSize.toNat
      match ext.zipCrypto pw v.checkByte raw with
      | .err e => throw e
      | .panic s => M.panic s
      | .ok none => pure .invalidPassword
      | .ok (some pt) =>
        let res : Out Bytes := do
          let dec ← ext.decode data.method pt
          crcCheck false data.crc32 dec
        pure (.ok (ds, res))
    | .plaintext => do
      let raw ← takeAll data.compressedSize.toNat
      let res : Out Bytes := do
        let dec ← ext.decode data.method raw
        crcCheck false data.crc32 dec
      pure (.ok (ds, res))

open M in
/-- `by_index_with_optional_password` followed by reading the entry to the end.
Outer `M`/`Out`: the `ZipResult`; `PwResult`: the inner `Result<_, InvalidPassword>`; innermost `Out`:
the outcome of `read_to_end` on the returned `ZipFile`. -/
def byIndexRead (ext : Ext) (a : Archive) (i : Nat) (password : Option Bytes) :
    M (PwResult (Nat × Out Bytes)) :=
  match a.files[i]? with
  | none => throw .fileNotFound
  | some data =>
    if password.isNone && data.encrypted then throw .passwordRequired else do
    let password := if data.encrypted then password else none
    let ds ← findContent data
    -- make_crypto_reader
    match data.method with
    | .unsupported _ => throw .unsupportedArchive
    | .aes => throw .unsupportedArchive
    | m =>
      match password, data.aesMode with
      | some pw, some (mode, vv) => do
        let raw ← takeAll data.compressedSize.toNat
        match ext.aes pw mode data.compressedSize raw with
        | .err e => throw e
        | .panic s => M.panic s
        | .ok none => pure .invalidPassword
        | .ok (some stream) =>
          let res : Out Bytes := do
            let pt ← stream
            let dec ← ext.decode m pt
            crcCheck (vv == .ae2) data.crc32 dec
          pure (.ok (ds, res))
      | some pw, none => do
        let check : UInt8 := if data.usingDataDescriptor then (data.time.timepart >>> 8).toUInt8
                             else (data.crc32 >>> 24).toUInt8
        let raw ← takeAll data.compressedSize.toNat
        match ext.zipCrypto pw check raw with
        | .err e => throw e
        | .panic s => M.panic s
        | .ok none => pure .invalidPassword
        | .ok (some pt) =>
          let res : Out Bytes := do
            let dec ← ext.decode m pt
            crcCheck false data.crc32 dec
          pure (.ok (ds, res))
      | none, some _ => pure .invalidPassword
      | none, none => do
        let raw ← takeAll data.compressedSize.toNat
        let res : Out Bytes := do
          let dec ← ext.decode m raw
          crcCheck false data.crc32 dec
        pure (.ok (ds, res))

open M in
/-- `by_name_with_optional_password` followed by reading the entry to the end: look the name up in
`names_map`, `FileNotFound` when absent, else `by_index_with_optional_password`. -/
def byNameRead (ext : Ext) (a : Archive) (name : Bytes) (password : Option Bytes) :
    M (PwResult (Nat × Out Bytes)) :=
  match a.indexOfName name with
  | none => throw .fileNotFound
  | some i => byIndexRead ext a i password

open M in
/-- `by_index_raw` followed by reading to the end: the undecoded bytes. -/
def byIndexRaw (a : Archive) (i : Nat) : M (Nat × Bytes) :=
  match a.files[i]? with
  | none => throw .fileNotFound
  | some data => do
    let ds ← findContent data
    let raw ← takeAll data.compressedSize.toNat
    pure (ds, raw)

/-! ### Streaming reader -/

open M in
/-- `read_zipfile_from_stream` up to the construction of the entry (no seek is ever issued):
`none` = the central directory was reached. -/
def streamHeader : M (Option FileData) := do
  let sig ← readU32
  if sig == CENTRAL_SIG then pure none
  else if sig != LOCAL_SIG then throw .invalidArchive
  else do
    let versionMadeBy ← readU16
    let flags ← readU16
    let encrypted := flags &&& 1 == 1
    let isUtf8 := flags &&& (0x0800 : UInt16) != 0
    let usingDataDescriptor := flags &&& (0x0008 : UInt16) != 0
    let cm ← readU16
    let lastModTime ← readU16
    let lastModDate ← readU16
    let crc32 ← readU32
    let compressedSize ← readU32
    let uncompressedSize ← readU32
    let fileNameLength ← readU16
    let extraFieldLength ← readU16
    let fileNameRaw ← readExact fileNameLength.toNat
    let extraField ← readExact extraFieldLength.toNat
    let result : FileData := {
      system := System.fromU8 (versionMadeBy >>> 8).toUInt8
      versionMadeBy := versionMadeBy.toUInt8
      encrypted, usingDataDescriptor
      method := Method.fromU16 cm
      level := none
      time := DateTime.fromMsdos lastModDate lastModTime
      crc32
      compressedSize := compressedSize.toUInt64
      uncompressedSize := uncompressedSize.toUInt64
      fileName := Text.decodeToUtf8 isUtf8 fileNameRaw
      fileNameRaw, extraField
      fileComment := []
      headerStart := 0, centralHeaderStart := 0, dataStart := 0
      externalAttributes := 0
      largeFile := false
      aesMode := none }
    let (result, perr) := parseExtraField (extraField.length + 1) result extraField
    match perr with
    | some (.io _) | none =>
      if encrypted then throw .unsupportedArchive
      else if usingDataDescriptor then throw .unsupportedArchive
      else match result.method with
        | .unsupported _ => throw .unsupportedArchive
        | .aes => throw .unsupportedArchive
        | _ => pure (some result)
    | some e => throw e

open M in
/-- One streamed entry read to the end (equivalently: partially read, then drained on drop — the drain
reads the remaining compressed bytes from the `Take`, bypassing decoders). -/
def streamEntry (ext : Ext) : M (Option (FileData × Out Bytes)) := do
  let h ← streamHeader
  match h with
  | none => pure none
  | some f => do
    let raw ← takeAll f.compressedSize.toNat
    let res : Out Bytes := do
      let dec ← ext.decode f.method raw
      crcCheck false f.crc32 dec
    pure (some (f, res))

open M in
/-- All entries of the stream, then `none` at the central directory. Fuel: every entry consumes at least
30 bytes of the device. -/
def streamEntries (ext : Ext) : (fuel : Nat) → M (List (FileData × Out Bytes))
  | 0 => pure []
  | fuel + 1 => do
    let e ← streamEntry ext
    match e with
    | none => pure []
    | some x => do
      let rest ← streamEntries ext fuel
      pure (x :: rest)

open M in
/-- `ZipStreamReader::parse_central_directory` loop after the first record. -/
def streamCentralLoop : (fuel : Nat) → M (List FileData)
  | 0 => pure []
  | fuel + 1 => do
    let sig ← readU32
    if sig != CENTRAL_SIG then pure [] else do
      let f ← centralHeaderInner 0 0
      let rest ← streamCentralLoop fuel
      pure (f :: rest)

open M in
/-- `ZipStreamReader::visit`: the sequence of visitor events (files in order, then metadata in order). -/
def streamVisit (ext : Ext) : M (List (FileData × Out Bytes) × List FileData) := do
  let d ← getDev
  let fuel := d.buf.length / 30 + 1
  let files ← streamEntries ext fuel
  -- the first central signature has been consumed by the entry loop
  let first ← centralHeaderInner 0 0
  let rest ← streamCentralLoop (d.buf.length / 46 + 1)
  pure (files, first :: rest)

end ZipVerif.Model

namespace ZipVerif.Model
open ZipVerif

/-! ### Partial consumption and the drop-time drain

`read_zipfile_from_stream` hands out a `ZipFile` whose reader is `Crc32Reader(decoder(Take(stream,
compressed_size)))` (read.rs: `limit_reader`, `make_crypto_reader`, `make_reader`).  The consumer's `read` calls
go through the decoder, which pulls COMPRESSED bytes through the `Take` in its own buffer sizes and as far
ahead as it likes; `ZipFile::drop` (read.rs, `impl Drop for ZipFile`) then takes the `Take` out of the decoders
(`into_inner`: whatever a decoder had buffered is discarded, the `Take`'s remaining limit is what counts) and
reads it into a 64 KiB buffer until `Ok(0)`, stopping silently on `Err`.  Both are modelled as device steps. -/

/-- What the consumer of one streamed entry does before it drops the handle. -/
structure Consume where
  /-- decoded bytes it asks for (asking again until it has them, end-of-file, or an error) -/
  k : Nat
  /-- compressed bytes its reads have pulled through the `Take` when it stops — decoder read-ahead included;
  capped at the compressed size by the `Take`.  Any value is allowed: nothing below depends on it (for a
  Stored entry it is `min k compressed_size`). -/
  pulled : Nat
  /-- size of the reads on the `Take` that pull them (the decoder's buffer; the consumer's own for Stored) -/
  chunk : Nat := 65536
  deriving Repr, DecidableEq

open M in
/-- Reads on a `Take` with `want` bytes of its limit left, with a buffer of `chunk` bytes, until `want`
bytes have been delivered, the device reports end-of-file (`Ok(0)`) or a read fails: the number of bytes
delivered and the error, if any.  `Take::read` with limit 0 answers `Ok(0)` WITHOUT touching the device, so
`want = 0` costs no I/O call; every other round is exactly one device `read` of `min want chunk` bytes.
Fuel: every round but the last delivers at least one byte, so `want` rounds suffice (`takeLoop_fuel`). -/
def takeLoop (chunk : Nat) : (fuel want : Nat) → M (Nat × Option ZErr)
  | 0, _ => pure (0, none)
  | fuel + 1, want =>
    if want = 0 then pure (0, none) else do
      let r ← attempt (read (min want chunk))
      match r with
      | .error e => pure (0, some e)
      | .ok bs =>
        if bs.length = 0 then pure (0, none) else do
          let (n, e) ← takeLoop chunk fuel (want - bs.length)
          pure (bs.length + n, e)

open M in
/-- **The drain of `ZipFile::drop`** on the innermost `Take` with `rem` bytes of its limit left:
`loop { match reader.read(&mut [0; 1 << 16]) { Ok(0) => break, Ok(_) => (), Err(_) => break } }` — the error
is swallowed, nothing is reported. -/
def drain (rem : Nat) : M Unit := do
  let _ ← takeLoop 65536 rem rem
  pure ()

/-- What a consumer sees that reads `k` bytes of a streamed entry (asking again until it has `k` bytes or
hits end-of-file or an error) and then drops the handle: the first `k` decoded bytes if there are that
many — the checksum is only compared by the read that reports end-of-file —, else everything followed by
the CRC verdict.  On a damaged stream (`decoded` is the decoder's error) the consumer still receives the
bytes the decoder hands out before it notices (`before = Ext.decodeBefore method raw k`): `k` of them if
there are that many, else the error. -/
def consumeK (declared : UInt32) (decoded : Out Bytes) (before : Bytes) (k : Nat) : Out Bytes :=
  match decoded with
  | .ok d => if k ≤ d.length then .ok (d.take k) else crcCheck false declared d
  | .err e => if k ≤ before.length then .ok (before.take k) else .err e
  | .panic s => .panic s

/-- `consumeK` on the compressed stream `raw` of an entry -/
def Ext.consume (ext : Ext) (f : FileData) (raw : Bytes) (k : Nat) : Out Bytes :=
  consumeK f.crc32 (ext.decode f.method raw) (ext.decodeBefore f.method raw k) k

open M in
/-- One streamed entry under a consumer `c`: the header; the consumer's reads pull `min c.pulled
compressed_size` compressed bytes through the `Take` (an I/O error among them is what the consumer gets);
dropping the handle drains what is left of the `Take`.  The decoder is a function of the compressed stream
the `Take` delimits (`raw`, looked at without moving the device); how much of it has been pulled when the
consumer stops does not change what the consumer has seen. -/
def streamEntryC (ext : Ext) (c : Consume) : M (Option (FileData × Out Bytes)) := do
  let h ← streamHeader
  match h with
  | none => pure none
  | some f => do
    let csize := f.compressedSize.toNat
    let d ← getDev
    let raw := (d.buf.drop d.pos).take csize
    let p := min c.pulled csize
    let (n, e) ← takeLoop c.chunk p p
    drain (csize - n)
    match e with
    | some e => pure (some (f, .err e))
    | none => pure (some (f, ext.consume f raw c.k))

/-- the `i`-th consumer of a cycled pattern (nothing consumed for the empty pattern) -/
def Consume.at (pattern : List Consume) (i : Nat) : Consume :=
  match pattern[i % pattern.length]? with
  | some c => c
  | none => { k := 0, pulled := 0 }

open M in
/-- The streamed entries under a per-entry consumption pattern (cycled). -/
def streamEntriesC (ext : Ext) (pattern : List Consume) : (fuel : Nat) → (i : Nat) → M (List (FileData × Out Bytes))
  | 0, _ => pure []
  | fuel + 1, i => do
    let e ← streamEntryC ext (Consume.at pattern i)
    match e with
    | none => pure []
    | some x => do
      let rest ← streamEntriesC ext pattern fuel (i + 1)
      pure (x :: rest)

/-! ### The streaming reader under faults: `ZipStreamReader::visit` draining explicitly, `Interrupted` retried

After the repair of K-J for the visitor API (`fix: ZipStreamReader::visit drains each entry itself and returns a read
error of that drain`): `ZipFile::drain_stream` is the loop of the old `Drop` returning the read error (and issuing a
read again that failed with `ErrorKind::Interrupted`); `Drop` calls it and discards the result; `visit` calls it after
`visit_file` and returns the error. -/

open M in
/-- `ZipFile::drain_stream` on a `Take` with `rem` bytes of its limit left: 64 KiB reads until `Ok(0)`; a read error is
RETURNED (`Interrupted` apart: see `M.retried` at the call sites). -/
def drainE (rem : Nat) : M Unit := do
  let (_, e) ← takeLoop 65536 rem rem
  match e with
  | some e => throw e
  | none => pure ()

open M in
/-- The first half of one round of `visit`, up to the return of `visit_file`, under a visitor that asks for `c.k`
decoded bytes and returns a failed read to `visit` (`?`, as `extract` does with `io::copy(..)?`): the header
(`read_exact` throughout: `Interrupted` retried); the visitor's reads (bare reads: every kind reaches the visitor).
When the visitor returns `Err` (a failed read, a checksum / decoder error) `visit` returns it, the handle is dropped
and `Drop` drains SILENTLY.  Otherwise: the entry, the bytes shown, and what is left of the `Take`. -/
def visitFile (ext : Ext) (c : Consume) : M (Option (FileData × Bytes × Nat)) := do
  let h ← retried streamHeader
  match h with
  | none => pure none
  | some f => do
    let csize := f.compressedSize.toNat
    let d ← getDev
    let raw := (d.buf.drop d.pos).take csize
    let p := min c.pulled csize
    let (n, e) ← takeLoop c.chunk p p
    match e with
    | some e => do retried (drain (csize - n)); throw e
    | none =>
      match ext.consume f raw c.k with
      | .err e => do retried (drain (csize - n)); throw e
      | .panic s => M.panic s
      | .ok bytes => pure (some (f, bytes, csize - n))

open M in
/-- One round of `visit`: `visit_file`, then `file.drain_stream()?` - a read error of the drain is `visit`'s error. -/
def visitEntry (ext : Ext) (c : Consume) : M (Option (FileData × Bytes)) := do
  let r ← visitFile ext c
  match r with
  | none => pure none
  | some (f, bytes, rem) => do retried (drainE rem); pure (some (f, bytes))

open M in
/-- the `visit_file` rounds of `visit` under a per-entry consumption pattern (cycled) -/
def visitEntries (ext : Ext) (pattern : List Consume) : (fuel : Nat) → (i : Nat) → M (List (FileData × Bytes))
  | 0, _ => pure []
  | fuel + 1, i => do
    let e ← visitEntry ext (Consume.at pattern i)
    match e with
    | none => pure []
    | some x => do
      let rest ← visitEntries ext pattern fuel (i + 1)
      pure (x :: rest)

open M in
/-- the `visit_additional_metadata` part of `visit` on a stream of `len` bytes (`read_exact` throughout) -/
def visitCentral (len : Nat) : M (List FileData) := do
  let first ← retried (centralHeaderInner 0 0)
  let rest ← retried (streamCentralLoop (len / 46 + 1))
  pure (first :: rest)

open M in
/-- **`ZipStreamReader::visit` under any consumption pattern**: what the visitor is shown (per entry the bytes it
asked for; then the metadata records).  With a visitor that reads every entry to its end and the failure-free device
this is `streamVisit` (whose visitor records a content error instead of returning it). -/
def streamVisitC (ext : Ext) (pattern : List Consume) : M (List (FileData × Bytes) × List FileData) := do
  let d ← getDev
  let files ← visitEntries ext pattern (d.buf.length / 30 + 1) 0
  let metas ← visitCentral d.buf.length
  pure (files, metas)

open M in
/-- `read_zipfile_from_stream` + consumer + `Drop`, as `streamEntryC`, with `Interrupted` treated as the code treats
it: retried in the header's `read_exact`s and (since the repair) in the drop-time drain, a hard failure for the
consumer's own reads.  Equal to `streamEntryC` on every device that fails with another kind
(`Lemmas/FaultReader.streamEntryCI_hard`). -/
def streamEntryCI (ext : Ext) (c : Consume) : M (Option (FileData × Out Bytes)) := do
  let h ← retried streamHeader
  match h with
  | none => pure none
  | some f => do
    let csize := f.compressedSize.toNat
    let d ← getDev
    let raw := (d.buf.drop d.pos).take csize
    let p := min c.pulled csize
    let (n, e) ← takeLoop c.chunk p p
    retried (drain (csize - n))
    match e with
    | some e => pure (some (f, .err e))
    | none => pure (some (f, ext.consume f raw c.k))

end ZipVerif.Model
