import ZipVerif.Model.Reader
/-
The OPEN half of `by_index*` / `by_name*` / `by_index_raw` (src/read.rs): everything these functions do before they
return the `ZipFile` handle - entry lookup, the password / encryption-flag decision, `find_content`, and the decision
of `make_crypto_reader` - as model functions of their own, so that the TRANSLATED functions can be tied to them
(`Tie/ReaderGlue2.lean`).  `byIndexReadC` / `byNameRead` / `byIndexRaw` of `Model/Reader.lean` (open, then read the
entry to the end) are these followed by the read half: `byIndexReadC_eq_open`, `byNameRead_eq_open`,
`byIndexRaw_eq_open` in `Tie/ReaderGlue2.lean`.
-/

namespace ZipVerif.Model
open ZipVerif

open M in
/-- `by_index_with_optional_password` up to and including the decision of `make_crypto_reader`: index out of range →
`FileNotFound`; an encrypted entry without a password → `UnsupportedArchive("Password required to decrypt file")`
BEFORE any I/O; a password for an entry that is not encrypted is discarded; then `find_content` (the entry's data
start, device positioned there); the result names the entry, its data start and what `make_crypto_reader` decides. -/
def byIndexOpen (a : Archive) (i : Nat) (password : Option Bytes) : M (FileData × Nat × CryptoChoice) :=
  match a.files[i]? with
  | none => throw .fileNotFound
  | some data =>
    if password.isNone && data.encrypted then throw .passwordRequired else do
    let password := if data.encrypted then password else none
    let ds ← findContent data
    pure (data, ds,
      cryptoChoice data.method data.crc32 data.time data.usingDataDescriptor password data.aesMode)

open M in
/-- What `byIndexReadC` does after the decision: build the layer, read everything, decode, check. -/
def readChoice (ext : Ext) (data : FileData) (ds : Nat) : CryptoChoice → M (PwResult (Nat × Out Bytes))
  | .unsupported => throw .unsupportedArchive
  | .invalidPassword => pure .invalidPassword
  | .aes pw mode vv => do
    let raw ← takeAll data.compressedSize.toNat
    match ext.aes pw mode data.compressedSize raw with
    | .err e => throw e
    | .panic s => M.panic s
    | .ok none => pure .invalidPassword
    | .ok (some stream) =>
      let res : Out Bytes := do
        let pt ← stream
        let dec ← ext.decode data.method pt
        crcCheck (vv == .ae2) data.crc32 dec
      pure (.ok (ds, res))
  | .zipCrypto pw v => do
    let raw ← takeAll data.compressedSize.toNat
    match ext.zipCrypto pw v.checkByte raw with
    | .err e => throw e
    | .panic s => M.panic s
    | .ok none => pure .invalidPassword
    | .ok (some pt) =>
      let res : Out Bytes := do
        let dec ← ext.decode data.method pt
        crcCheck false data.crc32 dec
      pure (.ok (ds, res))
  | .plaintext => do
    let raw ← takeAll data.compressedSize.toNat
    let res : Out Bytes := do
      let dec ← ext.decode data.method raw
      crcCheck false data.crc32 dec
    pure (.ok (ds, res))

open M in
/-- `by_name_with_optional_password`, open half: the name is looked up in `names_map` (last duplicate), absent →
`FileNotFound`, else `by_index_with_optional_password`. -/
def byNameOpen (a : Archive) (name : Bytes) (password : Option Bytes) : M (FileData × Nat × CryptoChoice) :=
  match a.indexOfName name with
  | none => throw .fileNotFound
  | some i => byIndexOpen a i password

open M in
/-- `by_index_raw`, open half: the entry and its data start, device positioned there. -/
def byIndexRawOpen (a : Archive) (i : Nat) : M (FileData × Nat) :=
  match a.files[i]? with
  | none => throw .fileNotFound
  | some data => do
    let ds ← findContent data
    pure (data, ds)

end ZipVerif.Model
