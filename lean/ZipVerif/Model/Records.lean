import ZipVerif.Model.IO
import ZipVerif.Model.Types
import ZipVerif.Model.TextBytes
/-
Byte-exact model of the crate's record serialisers (src/write.rs, src/spec.rs) and parsers
(src/spec.rs, src/read.rs).  Serialisers return the list of chunks handed to `write_all`, one per
Rust call, in order (`Out`: an arithmetic panic is an outcome).  Parsers run in `M`.
-/

namespace ZipVerif.Model
open ZipVerif

def isAscii (bs : Bytes) : Bool := bs.all (· < 0x80)

/-- `x as u32` -/
def trunc32 (x : UInt64) : UInt32 := x.toUInt32
/-- `x.min(ZIP64_BYTES_THR) as u32` -/
def min32 (x : UInt64) : UInt32 := (if x ≤ ZIP64_BYTES_THR then x else ZIP64_BYTES_THR).toUInt32

/-- general purpose bit flag written by both header writers -/
def flagOf (f : FileData) : UInt16 :=
  (if !isAscii f.fileName then (0x0800 : UInt16) else 0) ||| (if f.encrypted then 1 else 0)

/-- the flag word of the CENTRAL header: an entry re-emitted by `new_append` keeps bit 3 (its local
header still announces a data descriptor); `using_data_descriptor` is `false` for every entry the
writer creates itself -/
def centralFlagOf (f : FileData) : UInt16 :=
  flagOf f ||| (if f.usingDataDescriptor then 8 else 0)

def datepartOut (t : DateTime) : Out UInt16 :=
  match t.datepart with
  | some d => .ok d
  | none => .panic "types.rs:192 year - 1980"

/-- `write_local_zip64_extra_field` -/
def localZip64Chunks (f : FileData) : List Bytes :=
  [le16 0x0001, le16 16, le64 f.uncompressedSize, le64 f.compressedSize]

/-- `if file.large_file { 20 } else { 0 } + file.extra_field.len() as u16` (checked `u16` add). -/
def localExtraLen (f : FileData) : Out UInt16 :=
  let a : Nat := if f.largeFile then 20 else 0
  let b : Nat := f.extraField.length % 65536
  if a + b < 65536 then .ok (UInt16.ofNat (a + b)) else .panic "write.rs extra_field_length overflow"

/-- `write_local_file_header` -/
def localHeaderChunks (f : FileData) : Out (List Bytes) := do
  let dp ← datepartOut f.time
  let el ← localExtraLen f
  let sizes := if f.largeFile then [le32 0xFFFFFFFF, le32 0xFFFFFFFF]
               else [le32 (trunc32 f.compressedSize), le32 (trunc32 f.uncompressedSize)]
  pure ([le32 LOCAL_SIG, le16 f.versionNeeded, le16 (flagOf f), le16 f.method.toU16,
         le16 f.time.timepart, le16 dp, le32 f.crc32] ++ sizes ++
        [le16 (UInt16.ofNat f.fileName.length), le16 el, f.fileName] ++
        (if f.largeFile then localZip64Chunks f else []))

/-- `write_central_zip64_extra_field`: the bytes put into the 28-byte scratch buffer. -/
def centralZip64Bytes (f : FileData) : Bytes :=
  let u := f.uncompressedSize ≥ ZIP64_BYTES_THR
  let c := f.compressedSize ≥ ZIP64_BYTES_THR
  let h := f.headerStart ≥ ZIP64_BYTES_THR
  let size : Nat := (if u then 8 else 0) + (if c then 8 else 0) + (if h then 8 else 0)
  if size = 0 then []
  else le16 0x0001 ++ le16 (UInt16.ofNat size) ++
    (if u then le64 f.uncompressedSize else []) ++
    (if c then le64 f.compressedSize else []) ++
    (if h then le64 f.headerStart else [])

/-- `write_central_directory_header`: error before the first write when the extra length does not fit. -/
def centralHeaderChunks (f : FileData) : Out (List Bytes) := do
  let z := centralZip64Bytes f
  let elen := z.length + f.extraField.length
  if elen > 65535 then .err .invalidArchive else
  let dp ← datepartOut f.time
  let madeBy : UInt16 := (f.system.discr <<< 8) ||| f.versionMadeBy.toUInt16
  pure [le32 CENTRAL_SIG, le16 madeBy, le16 f.versionNeeded, le16 (centralFlagOf f), le16 f.method.toU16,
        le16 f.time.timepart, le16 dp, le32 f.crc32, le32 (min32 f.compressedSize),
        le32 (min32 f.uncompressedSize), le16 (UInt16.ofNat f.fileName.length),
        le16 (UInt16.ofNat elen), le16 0, le16 0, le16 0, le32 f.externalAttributes,
        le32 (min32 f.headerStart), f.fileName, z, f.extraField]

def eocdChunks (e : Eocd) : List Bytes :=
  [le32 EOCD_SIG, le16 e.diskNumber, le16 e.diskWithCd, le16 e.filesOnDisk, le16 e.files,
   le32 e.cdSize, le32 e.cdOffset, le16 (UInt16.ofNat e.comment.length), e.comment]

def eocd64Chunks (e : Eocd64) : List Bytes :=
  [le32 EOCD64_SIG, le64 44, le16 e.versionMadeBy, le16 e.versionNeeded, le32 e.diskNumber,
   le32 e.diskWithCd, le64 e.filesOnDisk, le64 e.files, le64 e.cdSize, le64 e.cdOffset]

def locatorChunks (l : Locator) : List Bytes :=
  [le32 LOCATOR_SIG, le32 l.diskWithCd, le64 l.eocd64Offset, le32 l.disks]

def ser (chunks : List Bytes) : Bytes := chunks.flatten

/-! ### Parsers -/

open M in
/-- `CentralDirectoryEnd::parse` -/
def parseEocd : M Eocd := do
  let magic ← readU32
  if magic != EOCD_SIG then throw .invalidArchive else
  let diskNumber ← readU16
  let diskWithCd ← readU16
  let filesOnDisk ← readU16
  let files ← readU16
  let cdSize ← readU32
  let cdOffset ← readU32
  let clen ← readU16
  let comment ← readExact clen.toNat
  pure { diskNumber, diskWithCd, filesOnDisk, files, cdSize, cdOffset, comment }

open M in
/-- `Zip64CentralDirectoryEndLocator::parse` -/
def parseLocator : M Locator := do
  let magic ← readU32
  if magic != LOCATOR_SIG then throw .invalidArchive else
  let diskWithCd ← readU32
  let eocd64Offset ← readU64
  let disks ← readU32
  pure { diskWithCd, eocd64Offset, disks }

open M in
/-- Loop of `CentralDirectoryEnd::find_and_parse`: probe `pos`, `pos-1`, … down to `bound`. -/
def findEocdLoop (bound : Nat) : (fuel : Nat) → (pos : Nat) → M (Eocd × Nat)
  | 0, _ => throw .invalidArchive
  | fuel + 1, pos =>
    if pos < bound then throw .invalidArchive else do
      let _ ← seek (.start pos)
      let w ← readU32
      if w == EOCD_SIG then do
        let _ ← seek (.current 16)
        let cdeStart ← seek (.start pos)
        let e ← parseEocd
        pure (e, cdeStart)
      else if pos = 0 then throw .invalidArchive
      else findEocdLoop bound fuel (pos - 1)

open M in
/-- `CentralDirectoryEnd::find_and_parse` -/
def findAndParseEocd : M (Eocd × Nat) := do
  let fileLength ← seek (.endOff 0)
  let bound := fileLength - (22 + 65535)
  if fileLength < 22 then throw .invalidArchive else
  findEocdLoop bound (fileLength - 22 - bound + 1) (fileLength - 22)

open M in
/-- Loop of `Zip64CentralDirectoryEnd::find_and_parse`. -/
def findEocd64Loop (nominal upper : Nat) : (fuel : Nat) → (pos : Nat) → M (Eocd64 × Nat)
  | 0, _ => throw .invalidArchive
  | fuel + 1, pos =>
    if pos > upper then throw .invalidArchive else do
      let _ ← seek (.start pos)
      let w ← readU32
      if w == EOCD64_SIG then do
        let _recordSize ← readU64
        let versionMadeBy ← readU16
        let versionNeeded ← readU16
        let diskNumber ← readU32
        let diskWithCd ← readU32
        let filesOnDisk ← readU64
        let files ← readU64
        let cdSize ← readU64
        let cdOffset ← readU64
        pure ({ versionMadeBy, versionNeeded, diskNumber, diskWithCd, filesOnDisk, files, cdSize,
                cdOffset }, pos - nominal)
      else findEocd64Loop nominal upper fuel (pos + 1)

def findEocd64 (nominal upper : Nat) : M (Eocd64 × Nat) :=
  findEocd64Loop nominal upper (upper + 1 - nominal) nominal

open M in
/-- `ZipArchive::get_directory_counts` → (archive_offset, directory_start, number_of_files). -/
def getDirectoryCounts (footer : Eocd) (cdeStart : Nat) : M (Nat × Nat × Nat) := do
  let loc : Option Locator ←
    -- the end record was found less than 20 bytes into the file: a locator does not fit in front of it
    -- (decided from the known position, no I/O: an empty archive)
    (if cdeStart < 20 then pure none else do
      -- the end record and its comment were read at `cdeStart ≥ 20`, so the position is not negative: EVERY
      -- failure of this seek, of whatever kind, is a real I/O error (D18 repair, second part: the kind
      -- `InvalidInput` is no longer taken for "file too short")
      let _ ← seek (.endOff (-(20 + 22 + (footer.comment.length : Int))))
      let r ← attempt parseLocator
      match r with
      | .ok l => pure (some l)
      | .error .invalidArchive => pure none
      | .error e => throw e)
  match loc with
  | none =>
    let sz := footer.cdSize.toNat
    let off := footer.cdOffset.toNat
    if cdeStart < sz + off then throw .invalidArchive else
    let archiveOffset := cdeStart - sz - off
    pure (archiveOffset, off + archiveOffset, footer.filesOnDisk.toNat)
  | some l =>
    if !footer.recordTooSmall && footer.diskNumber.toUInt32 != l.diskWithCd then
      throw .unsupportedArchive
    else if cdeStart < 60 then throw .invalidArchive else do
      let (f64, archiveOffset) ← findEocd64 l.eocd64Offset.toNat (cdeStart - 60)
      if f64.diskNumber != f64.diskWithCd then throw .unsupportedArchive else
      let ds := f64.cdOffset.toNat + archiveOffset
      if ds ≥ 18446744073709551616 then throw .invalidArchive else
      pure (archiveOffset, ds, f64.files.toNat)

/-! #### extra field parsing (in-memory cursor over the extra bytes) -/

/-- Result of one step of the `0x0001` branch: read 8 bytes if the sentinel is present. -/
def takeU64If (cond : Bool) (rest : Bytes) : Option (Option UInt64 × Bytes) :=
  if cond then
    match rd64 rest with
    | some (v, r) => some (some v, r)
    | none => none
  else some (none, rest)

/-- `parse_extra_field`: returns the (possibly partially updated) entry and the error, if any, that
ended the loop.  `Err(Io)` is swallowed by both callers; other errors propagate. -/
def parseExtraField : (fuel : Nat) → FileData → Bytes → FileData × Option ZErr
  | 0, f, _ => (f, none)
  | fuel + 1, f, rest =>
    if rest.isEmpty then (f, none) else
    match rd16 rest with
    | none => (f, some (.io .unexpectedEof))
    | some (kind, r1) =>
    match rd16 r1 with
    | none => (f, some (.io .unexpectedEof))
    | some (len, r2) =>
      if kind == 0x0001 then
        -- each present sentinel consumes 8 bytes; an EOF keeps the updates made so far
        match takeU64If (f.uncompressedSize == ZIP64_BYTES_THR) r2 with
        | none => ({ f with largeFile := true }, some (.io .unexpectedEof))
        | some (u, r3) =>
          let f1 := match u with
            | some v => { f with largeFile := true, uncompressedSize := v }
            | none => f
          match takeU64If (f1.compressedSize == ZIP64_BYTES_THR) r3 with
          | none => ({ f1 with largeFile := true }, some (.io .unexpectedEof))
          | some (c, r4) =>
            let f2 := match c with
              | some v => { f1 with largeFile := true, compressedSize := v }
              | none => f1
            match takeU64If (f2.headerStart == ZIP64_BYTES_THR) r4 with
            | none => (f2, some (.io .unexpectedEof))
            | some (h, r5) =>
              let f3 := match h with
                | some v => { f2 with headerStart := v }
                | none => f2
              let used := (if u.isSome then 8 else 0) + (if c.isSome then 8 else 0) +
                (if h.isSome then 8 else 0)
              let lenLeft : Int := (len.toNat : Int) - used
              parseExtraField fuel f3 (if lenLeft > 0 then r5.drop lenLeft.toNat else r5)
      else if kind == 0x9901 then
        if len != 7 then (f, some .unsupportedArchive) else
        match rd16 r2 with
        | none => (f, some (.io .unexpectedEof))
        | some (vendorVersion, r3) =>
        match rd16 r3 with
        | none => (f, some (.io .unexpectedEof))
        | some (vendorId, r4) =>
        match r4 with
        | [] => (f, some (.io .unexpectedEof))
        | aesMode :: r5 =>
        match rd16 r5 with
        | none => (f, some (.io .unexpectedEof))
        | some (cm, r6) =>
          if vendorId != 0x4541 then (f, some .invalidArchive) else
          let vv : Option AesVendorVersion :=
            if vendorVersion == 1 then some .ae1 else if vendorVersion == 2 then some .ae2 else none
          match vv with
          | none => (f, some .invalidArchive)
          | some vv =>
            let am : Option AesMode :=
              if aesMode == 1 then some .aes128 else if aesMode == 2 then some .aes192
              else if aesMode == 3 then some .aes256 else none
            match am with
            | none => (f, some .invalidArchive)
            | some am =>
              let f1 := { f with aesMode := some (am, vv), method := Method.fromU16 cm }
              -- `len_left` = 7 - 7 = 0 here (K-C repaired): no seek, the next record starts at once
              parseExtraField fuel f1 r6
      else
        parseExtraField fuel f (r2.drop len.toNat)

open M in
/-- `central_header_to_zip_file_inner` (after the signature) -/
def centralHeaderInner (archiveOffset : Nat) (centralHeaderStart : Nat) : M FileData := do
  let versionMadeBy ← readU16
  let _versionToExtract ← readU16
  let flags ← readU16
  let encrypted := flags &&& 1 == 1
  let isUtf8 := flags &&& (0x0800 : UInt16) != 0
  let usingDataDescriptor := flags &&& (0x0008 : UInt16) != 0
  let compressionMethod ← readU16
  let lastModTime ← readU16
  let lastModDate ← readU16
  let crc32 ← readU32
  let compressedSize ← readU32
  let uncompressedSize ← readU32
  let fileNameLength ← readU16
  let extraFieldLength ← readU16
  let fileCommentLength ← readU16
  let _diskNumber ← readU16
  let _internal ← readU16
  let externalAttributes ← readU32
  let offset ← readU32
  let fileNameRaw ← readExact fileNameLength.toNat
  let extraField ← readExact extraFieldLength.toNat
  let fileCommentRaw ← readExact fileCommentLength.toNat
  let result : FileData := {
    system := System.fromU8 (versionMadeBy >>> 8).toUInt8
    versionMadeBy := versionMadeBy.toUInt8
    encrypted, usingDataDescriptor
    method := Method.fromU16 compressionMethod
    level := none
    time := DateTime.fromMsdos lastModDate lastModTime
    crc32
    compressedSize := compressedSize.toUInt64
    uncompressedSize := uncompressedSize.toUInt64
    fileName := Text.decodeToUtf8 isUtf8 fileNameRaw
    fileNameRaw
    extraField
    fileComment := Text.decodeToUtf8 isUtf8 fileCommentRaw
    headerStart := offset.toUInt64
    centralHeaderStart := UInt64.ofNat centralHeaderStart
    dataStart := 0
    externalAttributes
    largeFile := false
    aesMode := none }
  let (result, perr) := parseExtraField (extraField.length + 1) result extraField
  match perr with
  | some (.io _) | none =>
    if result.method == .aes && result.aesMode.isNone then throw .invalidArchive else
    let hs := result.headerStart.toNat + archiveOffset
    if hs ≥ 18446744073709551616 then throw .invalidArchive else
    pure { result with headerStart := UInt64.ofNat hs }
  | some e => throw e

open M in
/-- `central_header_to_zip_file` -/
def centralHeader (archiveOffset : Nat) : M FileData := do
  let start ← streamPosition
  let sig ← readU32
  if sig != CENTRAL_SIG then throw .invalidArchive
  else centralHeaderInner archiveOffset start

end ZipVerif.Model
