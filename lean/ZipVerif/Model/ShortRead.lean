import ZipVerif.Model.Reader
import ZipVerif.Model.Layers
/-
Short reads of the UNDERLYING reader, at archive level (C09, review finding F9(2)).

The reader model's monad `M` runs over a `Dev` whose `read` is never short (a `Cursor`).  To say that
`ZipArchive::new` returns the same view however the underlying reader fragments its reads, the parsers
are written here ONCE MORE, generically over the I/O vocabulary they use (`ParserIO`: `read_exact`,
`seek`, error, panic, `if let Ok(..)`), and instantiated twice:

* at `M` - `Lemmas/ShortRead.lean` proves every generic parser instantiated at `M` EQUAL to the model
  function of `Model/Records.lean` / `Model/Reader.lean` (which are tied to the translated source);
* at `MS`, the same device with a short-read schedule `sch : Nat → Nat` (the k-th `read` call delivers at
  most `max (sch k) 1` bytes, i.e. ANY non-empty prefix of what is available) and `read_exact` the real
  retry loop (`Model.Layers.readExact`, the default body of `Read::read_exact`, tied in `Tie/Layers`).

Only `read_exact`-based functions are here: that is all the metadata path uses (the entry DATA path uses
`read`, it is the subject of `Model/Layers.lean`).
-/

namespace ZipVerif.Model
open ZipVerif

/-- The I/O vocabulary of the metadata parsers. -/
class ParserIO (m : Type → Type) extends Monad m where
  ioReadExact : Nat → m Bytes
  /-- a consumer draining `Take(limit)` over the reader (the entry DATA of the streaming reader, which
  has to be consumed before the next header can be parsed) -/
  ioTakeAll : Nat → m Bytes
  ioSeek : SeekFrom → m Nat
  ioThrow : {α : Type} → ZErr → m α
  ioPanic : {α : Type} → String → m α
  ioAttempt : {α : Type} → m α → m (Except ZErr α)

instance : ParserIO M where
  ioReadExact := M.readExact
  ioTakeAll := takeAll
  ioSeek := M.seek
  ioThrow := M.throw
  ioPanic := M.panic
  ioAttempt := M.attempt

/-! ### The short-reading device -/

/-- The device as a reader with short reads: call number `d.calls` delivers at most
`max (sch d.calls) 1` bytes of what lies behind the position (nothing for an empty buffer). -/
def shortSrc (sch : Nat → Nat) : Layers.Src Dev where
  rd d n :=
    let k := if n = 0 then 0 else min n (max (sch d.calls) 1)
    let chunk := (d.buf.drop d.pos).take k
    (.ok chunk, { d with pos := d.pos + chunk.length, calls := d.calls + 1 })

/-- Computations over the short-reading device: the schedule is a parameter. -/
def MS (α : Type) : Type := (Nat → Nat) → Dev → Out α × Dev

namespace MS

instance : Monad MS where
  pure a := fun _ d => (.ok a, d)
  bind x f := fun sch d =>
    match x sch d with
    | (.ok a, d') => f a sch d'
    | (.err e, d') => (.err e, d')
    | (.panic s, d') => (.panic s, d')

/-- `Read::read_exact`, the default body (retry loop) over the short-reading device. -/
def readExact (n : Nat) : MS Bytes := fun sch d =>
  match Layers.readExact (shortSrc sch) d n with
  | (.ok bs, d') => (.ok bs, d')
  | (.err e, d') => (.err (.io e), d')
  | (.panic, d') => (.panic "read_exact", d')

/-- A consumer draining `Take(limit)` over the short-reading device with a buffer as large as what is
left of the limit, until the limit is reached or a read returns 0 bytes. -/
def takeAllAux (sch : Nat → Nat) : Nat → Dev → Nat → Bytes × Dev
  | 0, d, _ => ([], d)
  | _ + 1, d, 0 => ([], d)
  | fuel + 1, d, n + 1 =>
    match (shortSrc sch).rd d (n + 1) with
    | (.ok bs, d') =>
      if bs = [] then ([], d')
      else ((bs ++ (takeAllAux sch fuel d' (n + 1 - bs.length)).1), (takeAllAux sch fuel d' (n + 1 - bs.length)).2)
    | (_, d') => ([], d')

def takeAll (limit : Nat) : MS Bytes := fun sch d =>
  (.ok (takeAllAux sch limit d limit).1, (takeAllAux sch limit d limit).2)

/-- `Seek::seek` - the same as on the `Cursor` (counted as a call). -/
def seek (s : SeekFrom) : MS Nat := fun _ d =>
  let d1 : Dev := { d with calls := d.calls + 1 }
  let target : Int := match s with
    | .start n => n
    | .endOff off => (d1.buf.length : Int) + off
    | .current off => (d1.pos : Int) + off
  if target < 0 then (.err (.io .invalidInput), d1)
  else (.ok target.toNat, { d1 with pos := target.toNat })

def attempt {α} (x : MS α) : MS (Except ZErr α) := fun sch d =>
  match x sch d with
  | (.ok a, d') => (.ok (.ok a), d')
  | (.err e, d') => (.ok (.error e), d')
  | (.panic s, d') => (.panic s, d')

end MS

instance : ParserIO MS where
  ioReadExact := MS.readExact
  ioTakeAll := MS.takeAll
  ioSeek := MS.seek
  ioThrow := fun e _ d => (.err e, d)
  ioPanic := fun s _ d => (.panic s, d)
  ioAttempt := MS.attempt

/-! ### The short-writing device -/

/-- The device as a SINK with short writes (`Cursor<Vec<u8>>` semantics at the current position): call
number `d.calls` accepts at most `max (sch d.calls) 1` bytes. -/
def shortWr (sch : Nat → Nat) : Layers.Wr Dev where
  wr d bs :=
    let k := if bs = [] then 0 else min bs.length (max (sch d.calls) 1)
    (.ok k, { buf := writeAt d.buf d.pos (bs.take k), pos := d.pos + k, calls := d.calls + 1 })

/-! ### The parsers, generically -/

namespace G
open ParserIO
variable {m : Type → Type} [ParserIO m]

def readU16 : m UInt16 := do
  let r ← ioReadExact 2
  match r with
  | [a, b] => pure (mk16 a b)
  | _ => ioThrow (.io .unexpectedEof)

def readU32 : m UInt32 := do
  let r ← ioReadExact 4
  match r with
  | [a, b, c, d] => pure (mk32 a b c d)
  | _ => ioThrow (.io .unexpectedEof)

def readU64 : m UInt64 := do
  let r ← ioReadExact 8
  match r with
  | [a, b, c, d, e, f, g, h] => pure (mk64 a b c d e f g h)
  | _ => ioThrow (.io .unexpectedEof)

def streamPosition : m Nat := ioSeek (.current 0)

def parseEocd : m Eocd := do
  let magic ← readU32
  if magic != EOCD_SIG then ioThrow .invalidArchive else
  let diskNumber ← readU16
  let diskWithCd ← readU16
  let filesOnDisk ← readU16
  let files ← readU16
  let cdSize ← readU32
  let cdOffset ← readU32
  let clen ← readU16
  let comment ← ioReadExact clen.toNat
  pure { diskNumber, diskWithCd, filesOnDisk, files, cdSize, cdOffset, comment }

def parseLocator : m Locator := do
  let magic ← readU32
  if magic != LOCATOR_SIG then ioThrow .invalidArchive else
  let diskWithCd ← readU32
  let eocd64Offset ← readU64
  let disks ← readU32
  pure { diskWithCd, eocd64Offset, disks }

def findEocdLoop (bound : Nat) : (fuel : Nat) → (pos : Nat) → m (Eocd × Nat)
  | 0, _ => ioThrow .invalidArchive
  | fuel + 1, pos =>
    if pos < bound then ioThrow .invalidArchive else do
      let _ ← ioSeek (.start pos)
      let w ← readU32
      if w == EOCD_SIG then do
        let _ ← ioSeek (.current 16)
        let cdeStart ← ioSeek (.start pos)
        let e ← parseEocd
        pure (e, cdeStart)
      else if pos = 0 then ioThrow .invalidArchive
      else findEocdLoop bound fuel (pos - 1)

def findAndParseEocd : m (Eocd × Nat) := do
  let fileLength ← ioSeek (.endOff 0)
  let bound := fileLength - (22 + 65535)
  if fileLength < 22 then ioThrow .invalidArchive else
  findEocdLoop bound (fileLength - 22 - bound + 1) (fileLength - 22)

def findEocd64Loop (nominal upper : Nat) : (fuel : Nat) → (pos : Nat) → m (Eocd64 × Nat)
  | 0, _ => ioThrow .invalidArchive
  | fuel + 1, pos =>
    if pos > upper then ioThrow .invalidArchive else do
      let _ ← ioSeek (.start pos)
      let w ← readU32
      if w == EOCD64_SIG then do
        let _recordSize ← readU64
        let versionMadeBy ← readU16
        let versionNeeded ← readU16
        let diskNumber ← readU32
        let diskWithCd ← readU32
        let filesOnDisk ← readU64
        let files ← readU64
        let cdSize ← readU64
        let cdOffset ← readU64
        pure ({ versionMadeBy, versionNeeded, diskNumber, diskWithCd, filesOnDisk, files, cdSize,
                cdOffset }, pos - nominal)
      else findEocd64Loop nominal upper fuel (pos + 1)

def findEocd64 (nominal upper : Nat) : m (Eocd64 × Nat) :=
  findEocd64Loop nominal upper (upper + 1 - nominal) nominal

def getDirectoryCounts (footer : Eocd) (cdeStart : Nat) : m (Nat × Nat × Nat) := do
  let loc : Option Locator ←
    (if cdeStart < 20 then pure none else do
      let _ ← ioSeek (.endOff (-(20 + 22 + (footer.comment.length : Int))))
      let r ← ioAttempt parseLocator
      match r with
      | .ok l => pure (some l)
      | .error .invalidArchive => pure none
      | .error e => ioThrow e)
  match loc with
  | none =>
    let sz := footer.cdSize.toNat
    let off := footer.cdOffset.toNat
    if cdeStart < sz + off then ioThrow .invalidArchive else
    let archiveOffset := cdeStart - sz - off
    pure (archiveOffset, off + archiveOffset, footer.filesOnDisk.toNat)
  | some l =>
    if !footer.recordTooSmall && footer.diskNumber.toUInt32 != l.diskWithCd then
      ioThrow .unsupportedArchive
    else if cdeStart < 60 then ioThrow .invalidArchive else do
      let (f64, archiveOffset) ← findEocd64 l.eocd64Offset.toNat (cdeStart - 60)
      if f64.diskNumber != f64.diskWithCd then ioThrow .unsupportedArchive else
      let ds := f64.cdOffset.toNat + archiveOffset
      if ds ≥ 18446744073709551616 then ioThrow .invalidArchive else
      pure (archiveOffset, ds, f64.files.toNat)

def centralHeaderInner (archiveOffset : Nat) (centralHeaderStart : Nat) : m FileData := do
  let versionMadeBy ← readU16
  let _versionToExtract ← readU16
  let flags ← readU16
  let encrypted := flags &&& 1 == 1
  let isUtf8 := flags &&& (0x0800 : UInt16) != 0
  let usingDataDescriptor := flags &&& (0x0008 : UInt16) != 0
  let compressionMethod ← readU16
  let lastModTime ← readU16
  let lastModDate ← readU16
  let crc32 ← readU32
  let compressedSize ← readU32
  let uncompressedSize ← readU32
  let fileNameLength ← readU16
  let extraFieldLength ← readU16
  let fileCommentLength ← readU16
  let _diskNumber ← readU16
  let _internal ← readU16
  let externalAttributes ← readU32
  let offset ← readU32
  let fileNameRaw ← ioReadExact fileNameLength.toNat
  let extraField ← ioReadExact extraFieldLength.toNat
  let fileCommentRaw ← ioReadExact fileCommentLength.toNat
  let result : FileData := {
    system := System.fromU8 (versionMadeBy >>> 8).toUInt8
    versionMadeBy := versionMadeBy.toUInt8
    encrypted, usingDataDescriptor
    method := Method.fromU16 compressionMethod
    level := none
    time := DateTime.fromMsdos lastModDate lastModTime
    crc32
    compressedSize := compressedSize.toUInt64
    uncompressedSize := uncompressedSize.toUInt64
    fileName := Text.decodeToUtf8 isUtf8 fileNameRaw
    fileNameRaw
    extraField
    fileComment := Text.decodeToUtf8 isUtf8 fileCommentRaw
    headerStart := offset.toUInt64
    centralHeaderStart := UInt64.ofNat centralHeaderStart
    dataStart := 0
    externalAttributes
    largeFile := false
    aesMode := none }
  let (result, perr) := parseExtraField (extraField.length + 1) result extraField
  match perr with
  | some (.io _) | none =>
    if result.method == .aes && result.aesMode.isNone then ioThrow .invalidArchive else
    let hs := result.headerStart.toNat + archiveOffset
    if hs ≥ 18446744073709551616 then ioThrow .invalidArchive else
    pure { result with headerStart := UInt64.ofNat hs }
  | some e => ioThrow e

def centralHeader (archiveOffset : Nat) : m FileData := do
  let start ← streamPosition
  let sig ← readU32
  if sig != CENTRAL_SIG then ioThrow .invalidArchive
  else centralHeaderInner archiveOffset start

def readCentralLoop (archiveOffset : Nat) : (n : Nat) → m (List FileData)
  | 0 => pure []
  | n + 1 => do
    let f ← centralHeader archiveOffset
    let rest ← readCentralLoop archiveOffset n
    pure (f :: rest)

/-- `ZipArchive::new` -/
def openArchive : m Archive := do
  let (footer, cdeStart) ← findAndParseEocd
  if !footer.recordTooSmall && footer.diskNumber != footer.diskWithCd then
    ioThrow .unsupportedArchive
  else do
    let (archiveOffset, directoryStart, numberOfFiles) ← getDirectoryCounts footer cdeStart
    let r ← ioAttempt (ioSeek (.start directoryStart))
    match r with
    | .error _ => ioThrow .invalidArchive
    | .ok _ =>
      let files ← readCentralLoop archiveOffset numberOfFiles
      pure { files, offset := archiveOffset, comment := footer.comment }

/-- `find_content`: the local-header reads in front of an entry's data. -/
def findContent (f : FileData) : m Nat := do
  let _ ← ioSeek (.start f.headerStart.toNat)
  let sig ← readU32
  if sig != LOCAL_SIG then ioThrow .invalidArchive else do
    let _ ← ioSeek (.current 22)
    let nameLen ← readU16
    let extraLen ← readU16
    let ds := f.headerStart.toNat + 30 + nameLen.toNat + extraLen.toNat
    if ds ≥ 18446744073709551616 then ioPanic "rs2lean: checked operation" else do
      let _ ← ioSeek (.start ds)
      pure ds

/-! #### The streaming reader (`read_zipfile_from_stream`, `ZipStreamReader`): no seek is ever issued -/

/-- `read_zipfile_from_stream` up to the construction of the entry. -/
def streamHeader : m (Option FileData) := do
  let sig ← readU32
  if sig == CENTRAL_SIG then pure none
  else if sig != LOCAL_SIG then ioThrow .invalidArchive
  else do
    let versionMadeBy ← readU16
    let flags ← readU16
    let encrypted := flags &&& 1 == 1
    let isUtf8 := flags &&& (0x0800 : UInt16) != 0
    let usingDataDescriptor := flags &&& (0x0008 : UInt16) != 0
    let cm ← readU16
    let lastModTime ← readU16
    let lastModDate ← readU16
    let crc32 ← readU32
    let compressedSize ← readU32
    let uncompressedSize ← readU32
    let fileNameLength ← readU16
    let extraFieldLength ← readU16
    let fileNameRaw ← ioReadExact fileNameLength.toNat
    let extraField ← ioReadExact extraFieldLength.toNat
    let result : FileData := {
      system := System.fromU8 (versionMadeBy >>> 8).toUInt8
      versionMadeBy := versionMadeBy.toUInt8
      encrypted, usingDataDescriptor
      method := Method.fromU16 cm
      level := none
      time := DateTime.fromMsdos lastModDate lastModTime
      crc32
      compressedSize := compressedSize.toUInt64
      uncompressedSize := uncompressedSize.toUInt64
      fileName := Text.decodeToUtf8 isUtf8 fileNameRaw
      fileNameRaw, extraField
      fileComment := []
      headerStart := 0, centralHeaderStart := 0, dataStart := 0
      externalAttributes := 0
      largeFile := false
      aesMode := none }
    let (result, perr) := parseExtraField (extraField.length + 1) result extraField
    match perr with
    | some (.io _) | none =>
      if encrypted then ioThrow .unsupportedArchive
      else if usingDataDescriptor then ioThrow .unsupportedArchive
      else match result.method with
        | .unsupported _ => ioThrow .unsupportedArchive
        | .aes => ioThrow .unsupportedArchive
        | _ => pure (some result)
    | some e => ioThrow e

/-- One streamed entry: header, then the entry's data consumed to the end of its `Take`. -/
def streamEntry (ext : Ext) : m (Option (FileData × Out Bytes)) := do
  let h ← streamHeader
  match h with
  | none => pure none
  | some f => do
    let raw ← ioTakeAll f.compressedSize.toNat
    let res : Out Bytes := do
      let dec ← ext.decode f.method raw
      crcCheck false f.crc32 dec
    pure (some (f, res))

def streamEntries (ext : Ext) : (fuel : Nat) → m (List (FileData × Out Bytes))
  | 0 => pure []
  | fuel + 1 => do
    let e ← streamEntry ext
    match e with
    | none => pure []
    | some x => do
      let rest ← streamEntries ext fuel
      pure (x :: rest)

/-- `ZipStreamReader::parse_central_directory` loop after the first record. -/
def streamCentralLoop : (fuel : Nat) → m (List FileData)
  | 0 => pure []
  | fuel + 1 => do
    let sig ← readU32
    if sig != CENTRAL_SIG then pure [] else do
      let f ← centralHeaderInner 0 0
      let rest ← streamCentralLoop fuel
      pure (f :: rest)

/-- `ZipStreamReader::visit` with the two loop bounds as parameters (the model takes them from the
length of the input: `streamVisit_M`). -/
def streamVisitF (ext : Ext) (fuel₁ fuel₂ : Nat) : m (List (FileData × Out Bytes) × List FileData) := do
  let files ← streamEntries ext fuel₁
  let first ← centralHeaderInner 0 0
  let rest ← streamCentralLoop fuel₂
  pure (files, first :: rest)

end G
end ZipVerif.Model
