import ZipVerif.Model.Writer
import ZipVerif.Model.ShortRead
/-
Short writes of the UNDERLYING sink, at the level of the writer STATE MACHINE (C09).

The writer model (`Model/Writer.lean`) runs in the monad `M` over a `Dev` whose `write` takes the whole
buffer (a `Cursor`), and its data path `writeData` is `write_all`.  To say that the archive a `ZipWriter`
produces does not depend on how the sink (or the encoder in front of it) splits the writes, the writer
is written here ONCE MORE, generically over the I/O vocabulary it uses (`WriterIO`: `write`, `write_all`,
`flush`, `seek`, panic, `if let Ok(..)`), and instantiated twice:

* at `M` - `Lemmas/ShortWrite.lean` proves every generic function instantiated at `M` EQUAL to the model
  function of `Model/Writer.lean` (the functions the translated `impl ZipWriter` is tied to, `Tie/WriterSM`);
* at `MS` - the same device with a short-write schedule `sch : Nat → Nat` (`shortWr sch`: the k-th call
  accepts at most `max (sch k) 1` bytes, i.e. ANY non-empty prefix of the buffer), where `write_all` is
  the real retry loop (`Model.Layers.writeAll`, the default body of `Write::write_all`) and `write` is
  ONE call returning the count the sink accepted.

The DATA path is `impl Write for ZipWriter :: write` as in the source (`GW.write`: ONE call on the
encoder / sink, `stats.update(&buf[0..count])` with the count ACCEPTED, the 4 GiB check after it) with
the caller's `write_all` loop on top (`GW.writeData`: `Ok(0)` is `WriteZero`, otherwise go on with
`&buf[n..]`).  An encoder in front of the sink (Deflate / Bzip2 / Zstd) may also take fewer bytes than
offered: `acc` (`Rs.S.Ext.accept` of the translation vocabulary).
-/

namespace ZipVerif.Model
open ZipVerif

/-- The I/O vocabulary of the writer. -/
class WriterIO (m : Type → Type) extends Monad m where
  /-- `Write::write` on the sink: ONE call, the count the sink accepted -/
  wWrite : Bytes → m Nat
  /-- `Write::write_all` on the sink -/
  wWriteAll : Bytes → m Unit
  wFlush : m Unit
  wSeek : SeekFrom → m Nat
  wPanic : {α : Type} → String → m α
  wAttempt : {α : Type} → m α → m (Except ZErr α)

instance : WriterIO M where
  wWrite := M.write
  wWriteAll := M.writeAll
  wFlush := M.flush
  wSeek := M.seek
  wPanic := M.panic
  wAttempt := M.attempt

namespace MS

/-- `Write::write` over the short-writing device: one call, the count it accepted. -/
def write (bs : Bytes) : MS Nat := fun sch d =>
  match (shortWr sch).wr d bs with
  | (.ok k, d') => (.ok k, d')
  | (.err e, d') => (.err (.io e), d')
  | (.panic, d') => (.panic "write", d')

/-- `Write::write_all`, the default body (retry loop) over the short-writing device. -/
def writeAll (bs : Bytes) : MS Unit := fun sch d => Layers.writeAll (shortWr sch) d bs

/-- `Write::flush` (counted as a call). -/
def flush : MS Unit := fun _ d => (.ok (), { d with calls := d.calls + 1 })

end MS

instance : WriterIO MS where
  wWrite := MS.write
  wWriteAll := MS.writeAll
  wFlush := MS.flush
  wSeek := MS.seek
  wPanic := fun s _ d => (.panic s, d)
  wAttempt := MS.attempt

/-! ### The writer, generically -/

namespace GW
open WriterIO
variable {m : Type → Type} [WriterIO m]

abbrev StepG (m : Type → Type) (α : Type) := WState → m (Except ZErr α × WState)

def streamPosition : m Nat := wSeek (.current 0)

def writeChunks : List Bytes → m Unit
  | [] => pure ()
  | c :: cs => do wWriteAll c; writeChunks cs

def io {α β} (s : WState) (x : m α) (k : α → m (Except ZErr β × WState)) : m (Except ZErr β × WState) := do
  let r ← wAttempt x
  match r with
  | .ok a => k a
  | .error e => pure (.error e, s)

def emitFinish {β} (s : WState) (mm : Method) (enc : Option EncState) (bs : Bytes)
    (k : Option EncState → m (Except ZErr β × WState)) : m (Except ZErr β × WState) :=
  match enc with
  | some e => k (some { e with buffer := e.buffer ++ bs })
  | none => do
    let r ← wAttempt (wWriteAll bs)
    match r with
    | .ok _ => k none
    | .error e =>
      if mm == .deflated || mm == .bzip2 then do
        let _ ← wAttempt (wWriteAll bs)
        pure (.error e, s)
      else pure (.error e, s)

def switchTo (ext : WExt) (compression : Method) (level : Option Int) : StepG m Unit := fun s =>
  match s.inner.currentCompression with
  | none => pure (.error (.io .brokenPipe), s)
  | some cur =>
    if cur == compression then pure (.ok (), s) else
    let s0 := { s with inner := .closed }
    let cont (enc : Option EncState) : m (Except ZErr Unit × WState) :=
      match compression with
      | .stored =>
        if level.isSome then pure (.error .unsupportedArchive, s0)
        else pure (.ok (), { s0 with inner := .storer enc })
      | .aes => pure (.error .unsupportedArchive, s0)
      | .unsupported _ => pure (.error .unsupportedArchive, s0)
      | mm =>
        match levelRange mm with
        | none => pure (.error .unsupportedArchive, s0)
        | some (lo, hi, dflt) =>
          let l := level.getD dflt
          if lo ≤ l ∧ l ≤ hi then pure (.ok (), { s0 with inner := .compressor mm l enc [] })
          else pure (.error .unsupportedArchive, s0)
    match s.inner with
    | .closed => pure (.error (.io .brokenPipe), s0)
    | .storer enc => cont enc
    | .compressor mm l enc pending =>
      emitFinish s0 mm enc (ext.compress mm l pending) cont

def endExtraData (ext : WExt) : StepG m Nat := fun s =>
  if !s.writingToExtraField then pure (.error (.io .other), s) else
  if s.inner.isClosed then pure (.error (.io .brokenPipe), s) else
  match s.files.getLast? with
  | none => wPanic "write.rs:624 files.last_mut().unwrap()"
  | some file =>
    match validateExtraData file with
    | .error e => pure (.error e, s)
    | .ok () =>
      if !s.centralOnly then
        match s.inner with
        | .storer none =>
          io s (wWriteAll file.extraField) fun _ =>
          let headerEnd := file.dataStart.toNat + file.extraField.length
          let file1 := { file with dataStart := UInt64.ofNat headerEnd }
          let s1 := { s with statsStart := headerEnd, files := setLast s.files file1 }
          match localExtraLen file1 with
          | .panic site => wPanic site
          | .err e => pure (.error e, s1)
          | .ok el =>
            io s1 (wSeek (.start (file1.headerStart.toNat + 28))) fun _ =>
            io s1 (wWriteAll (le16 el)) fun _ =>
            io s1 (wSeek (.start headerEnd)) fun _ => do
              let (r, s2) ← switchTo ext file1.method file1.level s1
              match r with
              | .error e => pure (.error e, s2)
              | .ok () =>
                pure (.ok headerEnd, { s2 with writingToExtraField := false, centralOnly := false })
        | _ => wPanic "write.rs:1027 get_plain"
      else
        pure (.ok file.dataStart.toNat, { s with writingToExtraField := false, centralOnly := false })

def updateLocalHeader {β} (s : WState) (file : FileData)
    (k : Unit → m (Except ZErr β × WState)) : m (Except ZErr β × WState) :=
  if !file.largeFile && file.compressedSize > ZIP64_BYTES_THR then pure (.error (.io .other), s) else
  io s (wSeek (.start (file.headerStart.toNat + 14))) fun _ =>
  io s (wWriteAll (le32 file.crc32)) fun _ =>
  if file.largeFile then
    io s (wSeek (.start (file.headerStart.toNat + 30 + file.fileName.length + 4))) fun _ =>
    io s (wWriteAll (le64 file.uncompressedSize)) fun _ =>
    io s (wWriteAll (le64 file.compressedSize)) fun _ => k ()
  else
    io s (wWriteAll (le32 (trunc32 file.compressedSize))) fun _ =>
    io s (wWriteAll (le32 (trunc32 file.uncompressedSize))) fun _ => k ()

/-- the tail of `finish_file` once the writer is a plain storer -/
def afterEnc (s : WState) : m (Except ZErr Unit × WState) :=
  match s.inner with
  | .storer none =>
    if !s.writingRaw then
      match s.files.getLast? with
      | none => pure (.ok (), s)
      | some file =>
        let file := { file with crc32 := hasherFinalize s.statsHasher,
                                uncompressedSize := UInt64.ofNat s.statsBytes }
        let s := { s with files := setLast s.files file }
        io s streamPosition fun fileEnd =>
        if fileEnd < s.statsStart then pure (.error (.io .other), s) else
        let file := { file with compressedSize := UInt64.ofNat (fileEnd - s.statsStart) }
        let s := { s with files := setLast s.files file }
        updateLocalHeader s file fun _ =>
        io s (wSeek (.start fileEnd)) fun _ =>
        pure (.ok (), { s with writingToFile := false, writingRaw := false })
    else pure (.ok (), { s with writingToFile := false, writingRaw := false })
  | _ => wPanic "write.rs:1027 get_plain"

def finishFile (ext : WExt) : StepG m Unit := fun s => do
  let (r0, s) ← (if s.writingToExtraField then do
      let (r, s') ← endExtraData ext s
      pure (r.map fun _ => (), s')
    else pure (.ok (), s))
  match r0 with
  | .error e => pure (.error e, s)
  | .ok () =>
  let (r1, s) ← switchTo ext .stored none s
  match r1 with
  | .error e => pure (.error e, s)
  | .ok () =>
  match s.inner with
  | .storer (some e) =>
    let crc := hasherFinalize s.statsHasher
    let s0 := { s with inner := .closed }
    if e.buffer.length < 12 then wPanic "zipcrypto.rs:133 buffer[11]" else
    let buf := e.buffer.take 11 ++ [(crc >>> 24).toUInt8] ++ e.buffer.drop 12
    io s0 (wWriteAll (ext.zcEncrypt e.pw buf)) fun _ =>
    io s0 wFlush fun _ =>
    afterEnc { s0 with inner := .storer none }
  | .storer none => afterEnc s
  | _ => wPanic "write.rs:434 unreachable"

def startEntry (ext : WExt) (name : Bytes) (o : FileOptions)
    (raw : Option (UInt32 × UInt64 × UInt64)) : StepG m Unit := fun s => do
  if name.length > 65535 then pure (.error .invalidArchive, s) else
  let (r, s) ← finishFile ext s
  match r with
  | .error e => pure (.error e, s)
  | .ok () =>
  match s.inner with
  | .storer none =>
    io s streamPosition fun headerStart =>
    let (crc, cs, us) := raw.getD (0, 0, 0)
    let permissions := o.permissions.getD 0o100644
    let file : FileData := {
      system := .unix, versionMadeBy := DEFAULT_VERSION, encrypted := o.encryptWith.isSome,
      usingDataDescriptor := false, method := o.method, level := o.level, time := o.time,
      crc32 := crc, compressedSize := cs, uncompressedSize := us, fileName := name,
      fileNameRaw := [], extraField := [], fileComment := [],
      headerStart := UInt64.ofNat headerStart, centralHeaderStart := 0, dataStart := 0,
      externalAttributes := permissions <<< 16, largeFile := o.largeFile, aesMode := none }
    match localHeaderChunks file with
    | .panic site => wPanic site
    | .err e => pure (.error e, s)
    | .ok chunks =>
      io s (writeChunks chunks) fun _ =>
      io s streamPosition fun headerEnd =>
      let file := { file with dataStart := UInt64.ofNat headerEnd }
      let s := { s with statsStart := headerEnd, statsBytes := 0, statsHasher := 0xFFFFFFFF,
                        files := s.files ++ [file] }
      match o.encryptWith with
      | some pw =>
        pure (.ok (), { s with inner := .storer (some { pw, buffer := List.replicate 12 0 }) })
      | none => pure (.ok (), s)
  | _ => wPanic "write.rs:1027 get_plain"

def startFile (ext : WExt) (name : Bytes) (o : FileOptions) : StepG m Unit := fun s => do
  let o := withFilePerm o 0o644 0o100000
  let (r, s) ← startEntry ext name o none s
  match r with
  | .error e => pure (.error e, s)
  | .ok () =>
    let (r, s) ← switchTo ext o.method o.level s
    match r with
    | .error e => pure (.error e, s)
    | .ok () => pure (.ok (), { s with writingToFile := true })

def startFileWithExtraData (ext : WExt) (name : Bytes) (o : FileOptions) : StepG m Nat := fun s => do
  let o := withFilePerm o 0o644 0o100000
  let (r, s) ← startEntry ext name o none s
  match r with
  | .error e => pure (.error e, s)
  | .ok () =>
    match s.files.getLast? with
    | none => wPanic "write.rs:599 files.last().unwrap()"
    | some f =>
      pure (.ok f.dataStart.toNat, { s with writingToFile := true, writingToExtraField := true })

/-! #### The data path -/

/-- What the encoder in front of the sink holds after taking `bs` (`Storer(Unencrypted)` passes them on,
the ZipCrypto layer buffers them, a compressor keeps them as pending plaintext). -/
def absorb : Inner → Bytes → Inner
  | .closed, _ => .closed
  | .storer none, _ => .storer none
  | .storer (some e), bs => .storer (some { e with buffer := e.buffer ++ bs })
  | .compressor mm l enc pending, bs => .compressor mm l enc (pending ++ bs)

/-- `stats.update(&buf[0..count])`, then the 4 GiB check (`write.rs` 242-251). -/
def account (taken : Bytes) (s : WState) : m (Except ZErr Nat × WState) :=
  let s := { s with statsHasher := Spec.Crc32.updateBytes s.statsHasher taken,
                    statsBytes := s.statsBytes + taken.length }
  match s.files.getLast? with
  | none => wPanic "write.rs:244 files.last_mut().unwrap()"
  | some f =>
    if s.statsBytes > 0xFFFFFFFF && !f.largeFile then
      pure (.error (.io .other), { s with inner := .closed })
    else pure (.ok taken.length, s)

/-- `impl Write for ZipWriter :: write` - ONE call.  `acc buf ≤ buf.len()` is the number of bytes an
encoder (Deflate / Bzip2 / Zstd) takes of the buffer offered; a plain storer hands the buffer to the
sink (ONE `write` call) and takes the sink's count; the ZipCrypto layer and the extra-field `Vec` take
everything. -/
def write (acc : Bytes → Nat) (buf : Bytes) : StepG m Nat := fun s =>
  if !s.writingToFile then pure (.error (.io .other), s) else
  match s.inner with
  | .closed => pure (.error (.io .brokenPipe), s)
  | inner =>
    if s.writingToExtraField then
      match s.files.getLast? with
      | none => wPanic "write.rs:238 files.last_mut().unwrap()"
      | some f =>
        pure (.ok buf.length, { s with files := setLast s.files { f with extraField := f.extraField ++ buf } })
    else
      match inner with
      | .storer none => do
        let r ← wAttempt (wWrite buf)
        match r with
        | .ok n => account (buf.take n) s
        | .error e => pure (.error e, s)
      | .storer (some _) => account buf { s with inner := absorb inner buf }
      | .compressor _ _ _ _ =>
        account (buf.take (acc buf)) { s with inner := absorb inner (buf.take (acc buf)) }
      | .closed => pure (.error (.io .brokenPipe), s)

/-- The caller's `write_all(buf)` over `write` (std's default body: nothing is called for an empty
buffer; `Ok(0)` is `WriteZero`; otherwise continue with `&buf[n..]`). -/
def writeAllLoop (acc : Bytes → Nat) : Nat → Bytes → StepG m Unit
  | 0, _, _ => wPanic "write_all: fuel"
  | fuel + 1, buf, s =>
    if buf.isEmpty then pure (.ok (), s) else do
      let (r, s) ← write acc buf s
      match r with
      | .error e => pure (.error e, s)
      | .ok n =>
        if n = 0 then pure (.error (.io .writeZero), s)
        else writeAllLoop acc fuel (buf.drop n) s

def writeData (acc : Bytes → Nat) (buf : Bytes) : StepG m Unit := writeAllLoop acc (buf.length + 1) buf

def endLocalStartCentral (ext : WExt) : StepG m Nat := fun s => do
  let (r, s) ← endExtraData ext s
  match r with
  | .error e => pure (.error e, s)
  | .ok ds =>
    match s.files.getLast? with
    | none => wPanic "write.rs:607 files.last_mut().unwrap()"
    | some f =>
      pure (.ok ds, { s with files := setLast s.files { f with extraField := [] },
                             writingToExtraField := true, centralOnly := true })

def startFileAligned (acc : Bytes → Nat) (ext : WExt) (name : Bytes) (o : FileOptions) (align : UInt16) :
    StepG m Nat := fun s => do
  let (r, s) ← startFileWithExtraData ext name o s
  match r with
  | .error e => pure (.error e, s)
  | .ok dataStart =>
    let a := align.toNat
    let padStep : m (Except ZErr Unit × WState) :=
      if a > 1 && dataStart % a != 0 then do
        let padLength := (a - (dataStart + 4) % a) % a
        let (r, s) ← writeData acc [0x7a, 0x61] s
        match r with
        | .error e => pure (.error e, s)
        | .ok () =>
        let (r, s) ← writeData acc (le16 (UInt16.ofNat padLength)) s
        match r with
        | .error e => pure (.error e, s)
        | .ok () =>
        let (r, s) ← writeData acc (List.replicate padLength 0) s
        match r with
        | .error e => pure (.error e, s)
        | .ok () =>
        let (r, s) ← endLocalStartCentral ext s
        match r with
        | .error e => pure (.error e, s)
        | .ok ds =>
          if ds % a != 0 then wPanic "write.rs:515 assert_eq" else pure (.ok (), s)
      else pure (.ok (), s)
    let (r, s) ← padStep
    match r with
    | .error e => pure (.error e, s)
    | .ok () =>
      let (r, s) ← endExtraData ext s
      match r with
      | .error e => pure (.error e, s)
      | .ok extraDataEnd =>
        if extraDataEnd < dataStart then wPanic "write.rs:518 sub" else
        pure (.ok (extraDataEnd - dataStart), s)

def addDirectory (ext : WExt) (name : Bytes) (o : FileOptions) : StepG m Unit := fun s => do
  let o := { withFilePerm o 0o755 0o40000 with method := .stored }
  let name := match name.getLast? with
    | some 0x2f => name
    | some 0x5c => name
    | _ => name ++ [0x2f]
  let (r, s) ← startEntry ext name o none s
  match r with
  | .error e => pure (.error e, s)
  | .ok () => pure (.ok (), { s with writingToFile := false })

def addSymlink (acc : Bytes → Nat) (ext : WExt) (name target : Bytes) (o : FileOptions) : StepG m Unit :=
  fun s => do
  let o := { withFilePerm o 0o777 0o120000 with method := .stored }
  let (r, s) ← startEntry ext name o none s
  match r with
  | .error e => pure (.error e, s)
  | .ok () =>
    let (r, s) ← writeData acc target { s with writingToFile := true }
    match r with
    | .error e => pure (.error e, s)
    | .ok () => pure (.ok (), { s with writingToFile := false })

def rawCopy (acc : Bytes → Nat) (ext : WExt) (src : FileData) (raw : Bytes) (name : Bytes) : StepG m Unit :=
  fun s => do
  let big := (if src.compressedSize ≥ src.uncompressedSize then src.compressedSize
              else src.uncompressedSize) ≥ ZIP64_BYTES_THR
  let o : FileOptions := {
    method := src.method, level := none, time := src.time,
    permissions := src.unixMode, largeFile := big, encryptWith := none }
  let (r, s) ← startEntry ext name o (some (src.crc32, src.compressedSize, src.uncompressedSize)) s
  match r with
  | .error e => pure (.error e, s)
  | .ok () => writeData acc raw { s with writingToFile := true, writingRaw := true }

def writeAllCentral (s : WState) : List FileData → m (Except ZErr Unit × WState)
  | [] => pure (.ok (), s)
  | f :: rest =>
    match centralHeaderChunks f with
    | .panic site => wPanic site
    | .err e => pure (.error e, s)
    | .ok chunks => io s (writeChunks chunks) fun _ => writeAllCentral s rest

def finalize (ext : WExt) : StepG m Unit := fun s => do
  if s.comment.length > 65535 then pure (.error .invalidArchive, s) else
  let (r, s) ← finishFile ext s
  match r with
  | .error e => pure (.error e, s)
  | .ok () =>
  match s.inner with
  | .storer none =>
    io s streamPosition fun centralStart => do
    let (r, s) ← writeAllCentral s s.files
    match r with
    | .error e => pure (.error e, s)
    | .ok () =>
    io s streamPosition fun centralEnd =>
    if centralEnd < centralStart then wPanic "write.rs:837 sub" else
    let centralSize := centralEnd - centralStart
    let n := s.files.length
    let z64 : m (Except ZErr Unit × WState) :=
      if n > ZIP64_ENTRY_THR || (max centralSize centralStart) > 0xFFFFFFFF then
        io s (writeChunks (eocd64Chunks {
          versionMadeBy := DEFAULT_VERSION.toUInt16, versionNeeded := DEFAULT_VERSION.toUInt16,
          diskNumber := 0, diskWithCd := 0, filesOnDisk := UInt64.ofNat n, files := UInt64.ofNat n,
          cdSize := UInt64.ofNat centralSize, cdOffset := UInt64.ofNat centralStart })) fun _ =>
        io s (writeChunks (locatorChunks {
          diskWithCd := 0, eocd64Offset := UInt64.ofNat (centralStart + centralSize), disks := 1 })) fun _ =>
        pure (.ok (), s)
      else pure (.ok (), s)
    do
    let (r, s) ← z64
    match r with
    | .error e => pure (.error e, s)
    | .ok () =>
    let nf : UInt16 := UInt16.ofNat (min n ZIP64_ENTRY_THR)
    io s (writeChunks (eocdChunks {
      diskNumber := 0, diskWithCd := 0, filesOnDisk := nf, files := nf,
      cdSize := UInt32.ofNat (min centralSize 0xFFFFFFFF),
      cdOffset := UInt32.ofNat (min centralStart 0xFFFFFFFF), comment := s.comment })) fun _ =>
    pure (.ok (), s)
  | _ => wPanic "write.rs:1027 get_plain"

def finish (ext : WExt) : StepG m Unit := fun s => do
  let (r, s) ← finalize ext s
  match r with
  | .error e => pure (.error e, s)
  | .ok () =>
    match s.inner with
    | .storer none => pure (.ok (), { s with inner := .closed })
    | _ => wPanic "write.rs:1051 unwrap"

def dropInner (ext : WExt) : StepG m Unit := fun s =>
  match s.inner with
  | .compressor mm l none pending =>
    if mm == .deflated || mm == .bzip2 then do
      let _ ← wAttempt (wWriteAll (ext.compress mm l pending))
      pure (.ok (), { s with inner := .closed })
    else pure (.ok (), s)
  | _ => pure (.ok (), s)

def dropWriter (ext : WExt) : StepG m Unit := fun s => do
  if s.inner.isClosed then pure (.ok (), s) else
  let (_, s) ← finalize ext s
  dropInner ext s

end GW
end ZipVerif.Model
