import ZipVerif.Basic.Bytes
/-
TEMPORARY STUB (replaced when the C19 text model is merged): decoding of raw names/comments to the
UTF-8 bytes of the decoded Rust `String`.  ASCII passes through in both modes.
-/
namespace ZipVerif.Model.Text

/-- UTF-8 bytes of the `String` the reader produces for `raw` (UTF-8 lossy when `isUtf8`, CP437 otherwise). -/
def decodeToUtf8 (isUtf8 : Bool) (raw : Bytes) : Bytes :=
  if isUtf8 then raw else raw

end ZipVerif.Model.Text
