import ZipVerif.Basic.Bytes
import ZipVerif.Basic.Out
import ZipVerif.Basic.Rs
import ZipVerif.Spec.Utf8
/-
Model of the text handling of the crate (C19):
* `cp437::to_char` (src/cp437.rs:38-171) and `FromCp437::from_cp437` for `Vec<u8>` / `&[u8]` (lines 14-36),
* the flag-driven decoding of entry names and comments (src/read.rs `central_header_to_zip_file`:
  `is_utf8` and the two `match is_utf8`; `read_zipfile_from_stream`: the same for the local header),
* the writer's length guard (`start_entry`), its choice of the language-encoding flag and the name
  bytes it stores (src/write.rs `write_local_file_header`, `write_central_directory_header`).
Decoded text is `List Char` (Lean `Char` = Unicode scalar value = Rust `char`).
-/

namespace ZipVerif.Model
open ZipVerif

/-- The `match` of `to_char`: byte → `u32` (`output`).  Arms in source order; the last source arm
(`0xff`) is the only value left for the wildcard. -/
def toCharU32 (input : UInt8) : UInt32 :=
  if input ≤ 0x7f then input.toUInt32   -- `0x00..=0x7f => input as u32`
  else
    match input with
    | 0x80 => 0x00c7
    | 0x81 => 0x00fc
    | 0x82 => 0x00e9
    | 0x83 => 0x00e2
    | 0x84 => 0x00e4
    | 0x85 => 0x00e0
    | 0x86 => 0x00e5
    | 0x87 => 0x00e7
    | 0x88 => 0x00ea
    | 0x89 => 0x00eb
    | 0x8a => 0x00e8
    | 0x8b => 0x00ef
    | 0x8c => 0x00ee
    | 0x8d => 0x00ec
    | 0x8e => 0x00c4
    | 0x8f => 0x00c5
    | 0x90 => 0x00c9
    | 0x91 => 0x00e6
    | 0x92 => 0x00c6
    | 0x93 => 0x00f4
    | 0x94 => 0x00f6
    | 0x95 => 0x00f2
    | 0x96 => 0x00fb
    | 0x97 => 0x00f9
    | 0x98 => 0x00ff
    | 0x99 => 0x00d6
    | 0x9a => 0x00dc
    | 0x9b => 0x00a2
    | 0x9c => 0x00a3
    | 0x9d => 0x00a5
    | 0x9e => 0x20a7
    | 0x9f => 0x0192
    | 0xa0 => 0x00e1
    | 0xa1 => 0x00ed
    | 0xa2 => 0x00f3
    | 0xa3 => 0x00fa
    | 0xa4 => 0x00f1
    | 0xa5 => 0x00d1
    | 0xa6 => 0x00aa
    | 0xa7 => 0x00ba
    | 0xa8 => 0x00bf
    | 0xa9 => 0x2310
    | 0xaa => 0x00ac
    | 0xab => 0x00bd
    | 0xac => 0x00bc
    | 0xad => 0x00a1
    | 0xae => 0x00ab
    | 0xaf => 0x00bb
    | 0xb0 => 0x2591
    | 0xb1 => 0x2592
    | 0xb2 => 0x2593
    | 0xb3 => 0x2502
    | 0xb4 => 0x2524
    | 0xb5 => 0x2561
    | 0xb6 => 0x2562
    | 0xb7 => 0x2556
    | 0xb8 => 0x2555
    | 0xb9 => 0x2563
    | 0xba => 0x2551
    | 0xbb => 0x2557
    | 0xbc => 0x255d
    | 0xbd => 0x255c
    | 0xbe => 0x255b
    | 0xbf => 0x2510
    | 0xc0 => 0x2514
    | 0xc1 => 0x2534
    | 0xc2 => 0x252c
    | 0xc3 => 0x251c
    | 0xc4 => 0x2500
    | 0xc5 => 0x253c
    | 0xc6 => 0x255e
    | 0xc7 => 0x255f
    | 0xc8 => 0x255a
    | 0xc9 => 0x2554
    | 0xca => 0x2569
    | 0xcb => 0x2566
    | 0xcc => 0x2560
    | 0xcd => 0x2550
    | 0xce => 0x256c
    | 0xcf => 0x2567
    | 0xd0 => 0x2568
    | 0xd1 => 0x2564
    | 0xd2 => 0x2565
    | 0xd3 => 0x2559
    | 0xd4 => 0x2558
    | 0xd5 => 0x2552
    | 0xd6 => 0x2553
    | 0xd7 => 0x256b
    | 0xd8 => 0x256a
    | 0xd9 => 0x2518
    | 0xda => 0x250c
    | 0xdb => 0x2588
    | 0xdc => 0x2584
    | 0xdd => 0x258c
    | 0xde => 0x2590
    | 0xdf => 0x2580
    | 0xe0 => 0x03b1
    | 0xe1 => 0x00df
    | 0xe2 => 0x0393
    | 0xe3 => 0x03c0
    | 0xe4 => 0x03a3
    | 0xe5 => 0x03c3
    | 0xe6 => 0x00b5
    | 0xe7 => 0x03c4
    | 0xe8 => 0x03a6
    | 0xe9 => 0x0398
    | 0xea => 0x03a9
    | 0xeb => 0x03b4
    | 0xec => 0x221e
    | 0xed => 0x03c6
    | 0xee => 0x03b5
    | 0xef => 0x2229
    | 0xf0 => 0x2261
    | 0xf1 => 0x00b1
    | 0xf2 => 0x2265
    | 0xf3 => 0x2264
    | 0xf4 => 0x2320
    | 0xf5 => 0x2321
    | 0xf6 => 0x00f7
    | 0xf7 => 0x2248
    | 0xf8 => 0x00b0
    | 0xf9 => 0x2219
    | 0xfa => 0x00b7
    | 0xfb => 0x221a
    | 0xfc => 0x207f
    | 0xfd => 0x00b2
    | 0xfe => 0x25a0
    | _ => 0x00a0   -- `0xff => 0x00a0`

/-- `to_char`: `::std::char::from_u32(output).unwrap()` — `None` (surrogate or > 0x10FFFF) is a panic. -/
def toChar (input : UInt8) : Out Char :=
  match Rs.charFromU32 (toCharU32 input) with
  | some c => .ok c
  | none => .panic "cp437::to_char: char::from_u32(output).unwrap()"

/-- `iter().map(to_char).collect::<String>()`: the first panicking byte panics the whole call. -/
def mapToChar : Bytes → Out (List Char)
  | [] => .ok []
  | b :: r =>
    match toChar b with
    | .ok c =>
      match mapToChar r with
      | .ok cs => .ok (c :: cs)
      | .err e => .err e
      | .panic s => .panic s
    | .err e => .err e
    | .panic s => .panic s

/-- `self.iter().all(|c| *c < 0x80)` -/
def allAscii (bs : Bytes) : Bool := bs.all (· < 0x80)

/-- `FromCp437::from_cp437` (both impls have the same shape): all-ASCII input takes the fast path
`String::from_utf8(self).unwrap()` (a panic site), anything else goes through the table. -/
def fromCp437 (bs : Bytes) : Out (List Char) :=
  if allAscii bs then
    match Spec.utf8Strict bs with
    | some s => .ok s
    | none => .panic "from_cp437: from_utf8(self).unwrap()"
  else mapToChar bs

/-- `let is_utf8 = flags & (1 << 11) != 0;` (both header parsers in read.rs) -/
def isUtf8Flag (flags : UInt16) : Bool := flags &&& ((1 : UInt16) <<< 11) != 0

/-- Both header parsers in read.rs:
`match is_utf8 { true => String::from_utf8_lossy(&raw).into_owned(), false => raw.from_cp437() }` -/
def decodeName (isUtf8 : Bool) (raw : Bytes) : Out (List Char) :=
  match isUtf8 with
  | true => .ok (Spec.utf8Lossy raw)
  | false => fromCp437 raw

/-- The three text fields of `ZipFileData` that `central_header_to_zip_file` fills. -/
structure NameFields where
  fileName : List Char
  fileNameRaw : Bytes
  fileComment : List Char
  deriving DecidableEq, Repr

/-- Name and comment of a central header with general-purpose flags `flags` (`central_header_to_zip_file`):
both decoded under the same flag, the raw name kept as read. -/
def centralNameFields (flags : UInt16) (nameRaw commentRaw : Bytes) : Out NameFields :=
  match decodeName (isUtf8Flag flags) nameRaw with
  | .ok n =>
    match decodeName (isUtf8Flag flags) commentRaw with
    | .ok c => .ok ⟨n, nameRaw, c⟩
    | .err e => .err e
    | .panic s => .panic s
  | .err e => .err e
  | .panic s => .panic s

/-! ### Writer -/

/-- The general-purpose flags of the local and the central header (identical code in both writers):
`if !file.file_name.is_ascii() { 1u16 << 11 } else { 0 } | if file.encrypted { 1u16 << 0 } else { 0 }`. -/
def writerFlags (nameBytes : Bytes) (encrypted : Bool) : UInt16 :=
  (if !Rs.isAscii nameBytes then (1 : UInt16) <<< 11 else 0) |||
    (if encrypted then (1 : UInt16) <<< 0 else 0)

/-- What the writer stores for a name: the 16-bit length field
(`file_name.as_bytes().len() as u16`, a *truncating* cast), the bytes
(`write_all(file_name.as_bytes())`, verbatim) and the flags. -/
structure StoredName where
  lenField : UInt16
  bytes : Bytes
  flags : UInt16
  deriving DecidableEq, Repr

/-- `start_entry`: `let name = name.into(); if name.len() > u16::MAX as usize { return
Err(InvalidArchive("File name is too long")) }` — nothing is written for such a name; otherwise the
two headers are written from `file_name`.  `name : String` is the UTF-8 encoding of its `char`s
(std's representation invariant, `Spec.utf8Encode`). -/
def writerStoreName (name : List Char) (encrypted : Bool := false) : Out StoredName :=
  let b := Spec.utf8Encode name
  if b.length > 65535 then .err .invalidArchive
  else .ok ⟨UInt16.ofNat b.length, b, writerFlags b encrypted⟩

/-- The reader takes `lenField` bytes after the fixed part of the header as the raw name and decodes
them under the stored flag (no comment is written for entries: `file_comment` is empty). -/
def readBackName (st : StoredName) : Out NameFields :=
  centralNameFields st.flags (st.bytes.take st.lenField.toNat) []

end ZipVerif.Model
