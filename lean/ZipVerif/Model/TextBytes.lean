import ZipVerif.Model.Text
import ZipVerif.Spec.Utf8
/-
Adapter between the text model (C19: decoded names are `List Char`) and the archive model, which
keeps a Rust `String` as its UTF-8 bytes.
-/
namespace ZipVerif.Model.Text
open ZipVerif ZipVerif.Model

/-- UTF-8 bytes of the `String` the reader produces for `raw` (lossy UTF-8 when `isUtf8`, CP437
otherwise).  `decodeName` never fails (`Props.C19.decode_name_flag`); the fallback branch is dead. -/
def decodeToUtf8 (isUtf8 : Bool) (raw : Bytes) : Bytes :=
  match decodeName isUtf8 raw with
  | .ok cs => Spec.utf8Encode cs
  | _ => raw

end ZipVerif.Model.Text
