import ZipVerif.Basic.Bytes
import ZipVerif.Model.DateTime
import ZipVerif.Basic.Out
/-
Model of the crate's metadata types: `CompressionMethod`, `System`, `AesMode`, `ZipFileData`
(src/compression.rs, src/types.rs) and the end-of-central-directory records (src/spec.rs).
-/

namespace ZipVerif.Model

/-! ### Constants (src/spec.rs) -/
def LOCAL_SIG : UInt32 := 0x04034b50
def CENTRAL_SIG : UInt32 := 0x02014b50
def EOCD_SIG : UInt32 := 0x06054b50
def EOCD64_SIG : UInt32 := 0x06064b50
def LOCATOR_SIG : UInt32 := 0x07064b50
def ZIP64_BYTES_THR : UInt64 := 0xFFFFFFFF
def ZIP64_ENTRY_THR : Nat := 0xFFFF
def DEFAULT_VERSION : UInt8 := 46

inductive Method
  | stored | deflated | bzip2 | aes | zstd
  | unsupported (v : UInt16)
  deriving DecidableEq, Repr, Inhabited

/-- `CompressionMethod::from_u16` (default features). -/
def Method.fromU16 (v : UInt16) : Method :=
  if v == 0 then .stored else if v == 8 then .deflated else if v == 12 then .bzip2
  else if v == 93 then .zstd else if v == 99 then .aes else .unsupported v

/-- `CompressionMethod::to_u16`. -/
def Method.toU16 : Method → UInt16
  | .stored => 0 | .deflated => 8 | .bzip2 => 12 | .aes => 99 | .zstd => 93
  | .unsupported v => v

inductive System
  | dos | unix | unknown
  deriving DecidableEq, Repr, Inhabited

def System.fromU8 (s : UInt8) : System :=
  if s == 0 then .dos else if s == 3 then .unix else .unknown

/-- `system as u16`: enum discriminants `Dos = 0, Unix = 3, Unknown (= 4)`. -/
def System.discr : System → UInt16
  | .dos => 0 | .unix => 3 | .unknown => 4

inductive AesMode | aes128 | aes192 | aes256
  deriving DecidableEq, Repr, Inhabited
inductive AesVendorVersion | ae1 | ae2
  deriving DecidableEq, Repr, Inhabited

def AesMode.keyLength : AesMode → Nat
  | .aes128 => 16 | .aes192 => 24 | .aes256 => 32
def AesMode.saltLength (m : AesMode) : Nat := m.keyLength / 2

/-- `ZipFileData`.  `fileName` / `fileComment` hold the UTF-8 bytes of the Rust `String`s. -/
structure FileData where
  system : System
  versionMadeBy : UInt8
  encrypted : Bool
  usingDataDescriptor : Bool
  method : Method
  level : Option Int
  time : DateTime
  crc32 : UInt32
  compressedSize : UInt64
  uncompressedSize : UInt64
  fileName : Bytes
  fileNameRaw : Bytes
  extraField : Bytes
  fileComment : Bytes
  headerStart : UInt64
  centralHeaderStart : UInt64
  dataStart : UInt64
  externalAttributes : UInt32
  largeFile : Bool
  aesMode : Option (AesMode × AesVendorVersion)
  deriving DecidableEq, Repr, Inhabited

namespace FileData

def S_IFDIR : UInt32 := 0o0040000
def S_IFREG : UInt32 := 0o0100000

/-- `ZipFileData::unix_mode`. -/
def unixMode (f : FileData) : Option UInt32 :=
  if f.externalAttributes == 0 then none
  else match f.system with
    | .unix => some (f.externalAttributes >>> 16)
    | .dos =>
      let mode := if 0x10 == (f.externalAttributes &&& 0x10) then S_IFDIR ||| 0o0775
                  else S_IFREG ||| 0o0664
      let mode := if 0x01 == (f.externalAttributes &&& 0x01) then mode &&& 0o0555 else mode
      some mode
    | .unknown => none

/-- `ZipFileData::zip64_extension`. -/
def zip64Extension (f : FileData) : Bool :=
  f.uncompressedSize > 0xFFFFFFFF || f.compressedSize > 0xFFFFFFFF || f.headerStart > 0xFFFFFFFF

/-- `ZipFileData::version_needed`. -/
def versionNeeded (f : FileData) : UInt16 :=
  match f.zip64Extension, f.method with
  | _, .bzip2 => 46
  | true, _ => 45
  | _, _ => 20

end FileData

/-- `spec::CentralDirectoryEnd`. -/
structure Eocd where
  diskNumber : UInt16
  diskWithCd : UInt16
  filesOnDisk : UInt16
  files : UInt16
  cdSize : UInt32
  cdOffset : UInt32
  comment : Bytes
  deriving DecidableEq, Repr, Inhabited

def Eocd.recordTooSmall (e : Eocd) : Bool :=
  e.diskNumber == 0xFFFF || e.diskWithCd == 0xFFFF || e.filesOnDisk == 0xFFFF ||
  e.files == 0xFFFF || e.cdSize == 0xFFFFFFFF || e.cdOffset == 0xFFFFFFFF

/-- `spec::Zip64CentralDirectoryEndLocator`. -/
structure Locator where
  diskWithCd : UInt32
  eocd64Offset : UInt64
  disks : UInt32
  deriving DecidableEq, Repr, Inhabited

/-- `spec::Zip64CentralDirectoryEnd`. -/
structure Eocd64 where
  versionMadeBy : UInt16
  versionNeeded : UInt16
  diskNumber : UInt32
  diskWithCd : UInt32
  filesOnDisk : UInt64
  files : UInt64
  cdSize : UInt64
  cdOffset : UInt64
  deriving DecidableEq, Repr, Inhabited

end ZipVerif.Model
